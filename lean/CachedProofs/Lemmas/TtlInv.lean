/-
  The invariant `TtlInv` of the expiry index `s.ttl` (the TTL ticker's shards) of the Layer A state machine
  (CachedModel/State.lean), its preservation by every event (`ttlinv_step`, `ttlinv_reach`), and an exact
  description of what one sweep does (`sweepEntries_spec`).  Behind C10 and C04.

  Beside the six conjuncts about the index proper the invariant carries two auxiliary ones that make it
  inductive WITHOUT any assumption on the worker being alive:
    * `heldW`  — the part of `Inv.held` that survives a worker panic (`HeldW`): every stored entry is charged under
      its own key, and a charged id whose key is stored is the id of that stored entry;
    * `notPending` — no index entry carries the id of a put that is still on its way to the worker.

  Also here, for C04: how the entry of one key, `nextId` and the pending ids evolve in one event (`evo_step`),
  and what that means for a soft-deleted incarnation along a history (`buried_run`).
-/
import CachedProofs.Lemmas.Inv

namespace Cached

/-! ### association lists: `filter` -/

namespace AMap
variable {α β : Type} [DecidableEq α]

theorem get?_filter {m : AMap α β} (hn : NoDup m) (p : α × β → Bool) (a : α) :
    get? (m.filter p) a = match get? m a with
      | some b => if p (a, b) then some b else none
      | none => none := by
  induction m with
  | nil => rfl
  | cons x rest ih =>
    obtain ⟨k, v⟩ := x
    simp only [NoDup, List.map_cons, List.nodup_cons] at hn
    have ih' := ih hn.2
    by_cases hk : k = a
    · subst hk
      have hnone : get? rest k = none := get?_eq_none_iff.mpr hn.1
      cases hp : p (k, v) with
      | true => simp [hp, get?_cons]
      | false =>
        simp only [List.filter_cons, hp, get?_cons, if_true, Bool.false_eq_true, if_false]
        rw [ih', hnone]
    · cases hp : p (k, v) with
      | true =>
        simp only [List.filter_cons, hp, if_true, get?_cons, hk, if_false]
        exact ih'
      | false =>
        simp only [List.filter_cons, hp, get?_cons, hk, Bool.false_eq_true, if_false]
        exact ih'

omit [DecidableEq α] in
theorem noDup_filter {m : AMap α β} (hn : NoDup m) (p : α × β → Bool) : NoDup (m.filter p) := by
  unfold NoDup at *
  exact (List.filter_sublist.map Prod.fst).nodup hn

theorem get?_filter_some {m : AMap α β} (hn : NoDup m) {p : α × β → Bool} {a : α} {b : β}
    (h : get? (m.filter p) a = some b) : get? m a = some b ∧ p (a, b) = true := by
  rw [get?_filter hn] at h
  split at h
  · rename_i b' hb
    split at h
    · rename_i hp
      simp only [Option.some.injEq] at h
      subst h
      exact ⟨hb, hp⟩
    · cases h
  · cases h

theorem get?_filter_of {m : AMap α β} (hn : NoDup m) {p : α × β → Bool} {a : α} {b : β}
    (h : get? m a = some b) (hp : p (a, b) = true) : get? (m.filter p) a = some b := by
  rw [get?_filter hn, h]
  simp [hp]

end AMap

/-! ### the part of `Inv.held` that survives a worker panic -/

/-- Every stored entry is charged under its own key; a charged id whose key is stored is the id of the stored
    entry.  (`HeldP` without "every charged id has its key stored", which a worker panic between admission and
    the store insert breaks.) -/
def HeldW (kw : AMap Nat WKey) (st : AMap Nat Entry) : Prop :=
  (∀ k e, st.get? k = some e → ∃ wk, kw.get? e.id = some wk ∧ wk.key = k) ∧
  (∀ id wk e, kw.get? id = some wk → st.get? wk.key = some e → e.id = id)

theorem HeldP.weak {kw : AMap Nat WKey} {st : AMap Nat Entry} (h : HeldP kw st) : HeldW kw st :=
  ⟨h.1, fun id wk e hw he => by
    obtain ⟨e0, he0, hid⟩ := h.2 id wk hw
    rw [he] at he0
    simp only [Option.some.injEq] at he0
    subst he0; exact hid⟩

theorem heldW_of_inv {s : State} (h : Inv s) (hw : s.worker ≠ .dead) : HeldW s.adm.kw s.store := by
  rcases h.held with hd | hh
  · exact absurd hd hw
  · exact HeldP.weak hh

theorem HeldW.nil : HeldW [] [] :=
  ⟨fun k e h => by simp at h, fun id wk e h => by simp at h⟩

/-- stored ids are pairwise different -/
theorem HeldW.unique {kw : AMap Nat WKey} {st : AMap Nat Entry} (h : HeldW kw st) {k1 k2 : Nat} {e1 e2 : Entry}
    (h1 : st.get? k1 = some e1) (h2 : st.get? k2 = some e2) (hid : e1.id = e2.id) : k1 = k2 ∧ e1 = e2 := by
  obtain ⟨w1, hw1, hk1⟩ := h.1 k1 e1 h1
  obtain ⟨w2, hw2, hk2⟩ := h.1 k2 e2 h2
  rw [hid, hw2] at hw1
  simp only [Option.some.injEq] at hw1
  subst hw1
  have hk : k1 = k2 := by rw [← hk1, ← hk2]
  subst hk
  rw [h1] at h2
  simp only [Option.some.injEq] at h2
  exact ⟨rfl, h2⟩

theorem HeldW.touch {kw : AMap Nat WKey} {st : AMap Nat Entry} (h : HeldW kw st) {k : Nat} {e e' : Entry}
    (hg : st.get? k = some e) (hid : e'.id = e.id) : HeldW kw (st.set k e') := by
  obtain ⟨h1, h2⟩ := h
  constructor
  · intro k' x hx
    rw [AMap.get?_set] at hx
    split at hx
    · rename_i hk; subst hk
      simp only [Option.some.injEq] at hx; subst hx
      rw [hid]; exact h1 k e hg
    · exact h1 k' x hx
  · intro id wk x hw hx
    rw [AMap.get?_set] at hx
    split at hx
    · rename_i hk
      simp only [Option.some.injEq] at hx; subst hx
      rw [hid]
      exact h2 id wk e hw (by rw [← hk]; exact hg)
    · exact h2 id wk x hw hx

theorem HeldW.remove {kw : AMap Nat WKey} {st : AMap Nat Entry} (h : HeldW kw st) {id : Nat} {wk : WKey}
    (hg : kw.get? id = some wk) : HeldW (kw.del id) (st.del wk.key) := by
  obtain ⟨h1, h2⟩ := h
  constructor
  · intro k e he
    rw [AMap.get?_del] at he
    split at he
    · cases he
    · rename_i hk
      obtain ⟨wk', hw', hk'⟩ := h1 k e he
      refine ⟨wk', ?_, hk'⟩
      rw [AMap.get?_del]
      split
      · rename_i hi
        rw [← hi, hg] at hw'
        simp only [Option.some.injEq] at hw'
        subst hw'
        exact absurd hk' hk
      · exact hw'
  · intro i wk' e hw' he
    rw [AMap.get?_del] at hw'
    split at hw'
    · cases hw'
    · rw [AMap.get?_del] at he
      split at he
      · cases he
      · exact h2 i wk' e hw' he

/-! ### the invariant of the expiry index -/

/-- The invariant of the expiry index `s.ttl` ((shard, id) ↦ expiry). -/
structure TtlInv (s : State) : Prop where
  noDup : AMap.NoDup s.ttl
  /-- an entry sits in the shard of its expiry -/
  shardOk : ∀ sh id x, s.ttl.get? (sh, id) = some x → sh = shardOf s.cfg x
  /-- an index entry is either stale (its id is no longer charged) or describes the CURRENT expiry of the entry
      with that id -/
  current : ∀ sh id x, s.ttl.get? (sh, id) = some x →
    s.adm.kw.get? id = none ∨ ∃ k e, s.store.get? k = some e ∧ e.id = id ∧ e.expiry = some x
  /-- every stored entry with a deadline is indexed under that deadline's shard -/
  indexedU : ∀ k e x, s.store.get? k = some e → e.expiry = some x → s.ttl.get? (shardOf s.cfg x, e.id) = some x
  /-- at most one index entry per id -/
  oneShard : ∀ sh sh' id x x', s.ttl.get? (sh, id) = some x → s.ttl.get? (sh', id) = some x' → sh = sh'
  idsBelow : ∀ sh id x, s.ttl.get? (sh, id) = some x → id < s.nextId
  /-- stored entries are charged under their key (holds also after a worker panic, unlike `Inv.held`) -/
  heldW : HeldW s.adm.kw s.store
  /-- the id of a put that has not been executed yet is not in the index -/
  notPending : ∀ sh id x, s.ttl.get? (sh, id) = some x → id ∉ pendingIds s

/-- every stored entry is charged, under its own key (whatever the worker's state) -/
theorem TtlInv.charged {s : State} (t : TtlInv s) {k : Nat} {e : Entry} (h : s.store.get? k = some e) :
    ∃ wk, s.adm.kw.get? e.id = some wk ∧ wk.key = k := t.heldW.1 k e h

/-- The conjunct in the form it was asked for (the unconditional `indexedU` is stronger). -/
theorem TtlInv.indexed {s : State} (t : TtlInv s) :
    s.worker = .dead ∨ ∀ k e x, s.store.get? k = some e → e.expiry = some x → (s.adm.kw.get? e.id).isSome →
      s.ttl.get? (shardOf s.cfg x, e.id) = some x :=
  Or.inr (fun k e x h1 h2 _ => t.indexedU k e x h1 h2)

/-- The index entries of a stored id: exactly one for its current deadline, none if it has none. -/
theorem TtlInv.sync {s : State} (t : TtlInv s) {k : Nat} {e : Entry} (h : s.store.get? k = some e) (sh x : Nat) :
    s.ttl.get? (sh, e.id) = some x ↔ e.expiry = some x ∧ sh = shardOf s.cfg x := by
  constructor
  · intro hg
    obtain ⟨wk, hw, _⟩ := t.charged h
    rcases t.current sh e.id x hg with hn | ⟨k', e', he', hid, hx⟩
    · rw [hn] at hw; cases hw
    · obtain ⟨_, heq⟩ := t.heldW.unique he' h hid
      subst heq
      exact ⟨hx, t.shardOk sh _ x hg⟩
  · intro ⟨hx, hsh⟩
    subst hsh
    exact t.indexedU k e x h hx

/-! ### events that leave the index, the store and the weights alone -/

/-- `s'` agrees with `s` on the index, the store, the weights and the configuration; ids may have been handed out
    and commands issued (only with fresh ids), executed or dropped. -/
structure Frame (s s' : State) : Prop where
  ttl : s'.ttl = s.ttl
  store : s'.store = s.store
  adm : s'.adm = s.adm
  cfg : s'.cfg = s.cfg
  nextId : s.nextId ≤ s'.nextId
  pend : ∀ id ∈ pendingIds s', id ∈ pendingIds s ∨ s.nextId ≤ id

theorem Frame.refl (s : State) : Frame s s := ⟨rfl, rfl, rfl, rfl, Nat.le_refl _, fun _ h => Or.inl h⟩

theorem Frame.trans {s s' s'' : State} (h1 : Frame s s') (h2 : Frame s' s'') : Frame s s'' := by
  refine ⟨h2.ttl.trans h1.ttl, h2.store.trans h1.store, h2.adm.trans h1.adm, h2.cfg.trans h1.cfg,
    Nat.le_trans h1.nextId h2.nextId, ?_⟩
  intro id hid
  rcases h2.pend id hid with h | h
  · exact h1.pend id h
  · exact Or.inr (Nat.le_trans h1.nextId h)

theorem TtlInv.frame {s s' : State} (t : TtlInv s) (f : Frame s s') : TtlInv s' := by
  obtain ⟨f1, f2, f3, f4, f5, f6⟩ := f
  refine ⟨?_, ?_, ?_, ?_, ?_, ?_, ?_, ?_⟩
  · rw [f1]; exact t.noDup
  · rw [f1, f4]; exact t.shardOk
  · rw [f1, f2, f3]; exact t.current
  · rw [f1, f2, f4]; exact t.indexedU
  · rw [f1]; exact t.oneShard
  · rw [f1]; intro sh id x h; exact Nat.lt_of_lt_of_le (t.idsBelow sh id x h) f5
  · rw [f2, f3]; exact t.heldW
  · rw [f1]; intro sh id x h hm
    rcases f6 id hm with h' | h'
    · exact t.notPending sh id x h h'
    · have := t.idsBelow sh id x h
      omega

theorem mem_ids_cons {c : Cmd} {P : List Cmd} {id : Nat} (h : id ∈ ids (c :: P)) : c.putId? = some id ∨ id ∈ ids P := by
  rw [ids_cons] at h
  rcases List.mem_append.mp h with h | h
  · left
    cases hc : c.putId? with
    | none => rw [ids_single_of_none hc] at h; cases h
    | some j =>
      rw [ids_single_of_some hc] at h
      simp only [List.mem_singleton] at h
      rw [h]
  · exact Or.inr h

theorem frame_of_ple {s s' : State} (e1 : s'.ttl = s.ttl) (e2 : s'.store = s.store) (e3 : s'.adm = s.adm)
    (e4 : s'.cfg = s.cfg) (e5 : s'.nextId = s.nextId) (hle : PLe (pendingCmds s') (pendingCmds s)) : Frame s s' :=
  ⟨e1, e2, e3, e4, Nat.le_of_eq e5.symm, fun _ h => Or.inl (mem_ids_of_PLe hle h)⟩

theorem ple_sendCmd (s : State) (c : Nat) (cmd : Cmd) : PLe (pendingCmds (sendCmd s c cmd).1) (cmd :: pendingCmds s) := by
  unfold sendCmd
  split
  · exact PLe.tail _ _
  · split
    · simp only [pendingCmds_eq, pendCmds_set_send]
      exact PLe.trans (PLe.mid _ _ _) (PLe.cons _ (PLe.append (PLe.refl _) (PLe_pendCmds_del _ _)))
    · simp only [pendingCmds_eq, List.map_append, List.map_cons, List.map_nil]
      exact PLe.snoc_mid _ _ _

/-- `sendCmd` touches only the queue, the parked calls and the acknowledgements -/
theorem sendCmd_fields (s : State) (c : Nat) (cmd : Cmd) :
    (sendCmd s c cmd).1.ttl = s.ttl ∧ (sendCmd s c cmd).1.store = s.store ∧ (sendCmd s c cmd).1.adm = s.adm ∧
    (sendCmd s c cmd).1.cfg = s.cfg ∧ (sendCmd s c cmd).1.nextId = s.nextId ∧
    (sendCmd s c cmd).1.worker = s.worker ∧ (sendCmd s c cmd).1.now = s.now := by
  unfold sendCmd
  split
  · exact ⟨rfl, rfl, rfl, rfl, rfl, rfl, rfl⟩
  · split <;> exact ⟨rfl, rfl, rfl, rfl, rfl, rfl, rfl⟩

theorem frame_sendCmd {s0 s : State} (h : Frame s0 s) (c : Nat) (cmd : Cmd)
    (hid : ∀ id, cmd.putId? = some id → s0.nextId ≤ id) : Frame s0 (sendCmd s c cmd).1 := by
  obtain ⟨e1, e2, e3, e4, e5, _, _⟩ := sendCmd_fields s c cmd
  refine ⟨e1.trans h.ttl, e2.trans h.store, e3.trans h.adm, e4.trans h.cfg, by rw [e5]; exact h.nextId, ?_⟩
  intro id hm
  have hm' : id ∈ ids (cmd :: pendingCmds s) := mem_ids_of_PLe (ple_sendCmd s c cmd) hm
  rcases mem_ids_cons hm' with h1 | h1
  · exact Or.inr (hid id h1)
  · exact h.pend id h1

theorem frame_spotAck (s : State) (st : Status) : Frame s (spotAck s st).1 :=
  ⟨rfl, rfl, rfl, rfl, Nat.le_refl _, fun _ h => Or.inl h⟩

theorem frame_bump (s : State) : Frame s { s with nextId := s.nextId + 1 } :=
  ⟨rfl, rfl, rfl, rfl, Nat.le_succ _, fun _ h => Or.inl h⟩

/-! ### client calls that only issue a command -/

theorem frame_clientPutChecked (s : State) (c k v : Nat) (w : Int) (ttl : Option Nat) :
    Frame s (clientPutChecked s c k v w ttl).1 := by
  unfold clientPutChecked
  split
  · exact frame_spotAck s _
  · cases ttl with
    | none =>
      exact frame_sendCmd (frame_bump s) c _ (by intro id h; simp only [Cmd.putId?, Option.some.injEq] at h; omega)
    | some t =>
      exact frame_sendCmd (frame_bump s) c _ (by intro id h; simp only [Cmd.putId?, Option.some.injEq] at h; omega)

theorem frame_clientPut (s : State) (c k v : Nat) : Frame s (clientPut s c k v).1 := by
  unfold clientPut
  dsimp only
  split
  · exact Frame.refl _
  · split
    · exact Frame.refl _
    · exact frame_clientPutChecked _ _ _ _ _ _

theorem frame_clientPutW (s : State) (c k v : Nat) (w : Int) : Frame s (clientPutW s c k v w).1 := by
  unfold clientPutW
  split
  · exact Frame.refl _
  · split
    · exact Frame.refl _
    · exact frame_clientPutChecked _ _ _ _ _ _

theorem frame_clientPutTtl (s : State) (c k v t : Nat) : Frame s (clientPutTtl s c k v t).1 := by
  unfold clientPutTtl
  split
  · exact Frame.refl _
  · dsimp only
    split
    · exact Frame.refl _
    · exact frame_clientPutChecked _ _ _ _ _ _

theorem frame_clientPutWTtl (s : State) (c k v : Nat) (w : Int) (t : Nat) :
    Frame s (clientPutWTtl s c k v w t).1 := by
  unfold clientPutWTtl
  split
  · exact Frame.refl _
  · split
    · exact Frame.refl _
    · exact frame_clientPutChecked _ _ _ _ _ _

/-! ### reads and the access consumer -/

theorem frame_of_same {s s' : State} (h : Same s s') (ht : s'.ttl = s.ttl) : Frame s s' :=
  frame_of_ple ht h.store h.adm h.cfg h.nextId (by rw [h.pendingCmds]; exact PLe.refl _)

theorem acceptBuffer_ttl (s : State) (hs : List Nat) : (acceptBuffer s hs).ttl = s.ttl := by
  unfold acceptBuffer
  split <;> rfl

theorem poolAdd_ttl {s s' : State} {h : Nat} {o o' : Oracle} (hp : poolAdd s h o = .ok (s', o')) : s'.ttl = s.ttl := by
  unfold poolAdd at hp
  split at hp
  · cases hp
  · split at hp
    · cases hp
    · rename_i buf _
      simp only [Except.ok.injEq, Prod.mk.injEq] at hp
      obtain ⟨hp, _⟩ := hp
      subst hp
      by_cases hb : buf.length ≥ s.cfg.bufSize
      · simp only [hb, if_true]
        exact acceptBuffer_ttl s buf
      · simp only [hb, if_false]

theorem readKey_ttl {s s' : State} {k : Nat} {o o' : Oracle} {v : Option Nat}
    (hr : readKey s k o = .ok (s', v, o')) : s'.ttl = s.ttl := by
  unfold readKey at hr
  split at hr
  · split at hr
    · dsimp only at hr
      split at hr
      · rename_i s2 o2 hp
        simp only [Except.ok.injEq, Prod.mk.injEq] at hr
        obtain ⟨rfl, _, _⟩ := hr
        exact (poolAdd_ttl hp).trans rfl
      · cases hr
    · simp only [Except.ok.injEq, Prod.mk.injEq] at hr
      obtain ⟨rfl, _, _⟩ := hr
      rfl
  · simp only [Except.ok.injEq, Prod.mk.injEq] at hr
    obtain ⟨rfl, _, _⟩ := hr
    rfl

theorem readKeys_ttl : ∀ (ks : List Nat) (s s' : State) (o o' : Oracle) (acc vs : List (Option Nat)),
    readKeys s ks o acc = .ok (s', vs, o') → s'.ttl = s.ttl := by
  intro ks
  induction ks with
  | nil =>
    intro s s' o o' acc vs hr
    simp only [readKeys, Except.ok.injEq, Prod.mk.injEq] at hr
    obtain ⟨rfl, _, _⟩ := hr
    rfl
  | cons k ks ih =>
    intro s s' o o' acc vs hr
    simp only [readKeys] at hr
    split at hr
    · rename_i s1 v o1 hk
      exact (ih _ _ _ _ _ _ hr).trans (readKey_ttl hk)
    · cases hr

theorem frame_clientGet {s s' : State} {k : Nat} {o o' : Oracle} {out : Out}
    (hr : clientGet s k o = .ok (s', out, o')) : Frame s s' := by
  refine frame_of_same (same_clientGet hr) ?_
  unfold clientGet at hr
  split at hr
  · simp only [Except.ok.injEq, Prod.mk.injEq] at hr
    obtain ⟨rfl, _, _⟩ := hr
    rfl
  · split at hr
    · rename_i s1 v o1 hk
      simp only [Except.ok.injEq, Prod.mk.injEq] at hr
      obtain ⟨rfl, _, _⟩ := hr
      exact readKey_ttl hk
    · cases hr

theorem frame_clientMultiGet {s s' : State} {ks : List Nat} {o o' : Oracle} {out : Out}
    (hr : clientMultiGet s ks o = .ok (s', out, o')) : Frame s s' := by
  refine frame_of_same (same_clientMultiGet hr) ?_
  unfold clientMultiGet at hr
  split at hr
  · simp only [Except.ok.injEq, Prod.mk.injEq] at hr
    obtain ⟨rfl, _, _⟩ := hr
    rfl
  · split at hr
    · rename_i s1 v o1 hk
      simp only [Except.ok.injEq, Prod.mk.injEq] at hr
      obtain ⟨rfl, _, _⟩ := hr
      exact readKeys_ttl _ _ _ _ _ _ _ hk
    · cases hr

theorem frame_consumerStep {s s' : State} {o o' : Oracle} {out : Out}
    (hr : consumerStep s o = .ok (s', out, o')) : Frame s s' := by
  refine frame_of_same (same_consumerStep hr) ?_
  unfold consumerStep at hr
  split at hr
  · cases hr
  · split at hr
    · cases hr
    · simp only [Except.ok.injEq, Prod.mk.injEq] at hr
      obtain ⟨rfl, _, _⟩ := hr
      rfl
    · split at hr
      · cases hr
      · split at hr
        · simp only [Except.ok.injEq, Prod.mk.injEq] at hr
          obtain ⟨rfl, _, _⟩ := hr
          rfl
        · simp only [Except.ok.injEq, Prod.mk.injEq] at hr
          obtain ⟨rfl, _, _⟩ := hr
          rfl

/-! ### shutdown and resume -/

/-- `shutdownFinish` empties the index, the store and the weights: the invariant holds trivially afterwards -/
theorem ttlinv_shutdownFinish (s : State) : TtlInv (shutdownFinish s) := by
  refine ⟨AMap.noDup_nil, ?_, ?_, ?_, ?_, ?_, HeldW.nil, ?_⟩
  · intro sh id x h; simp [shutdownFinish] at h
  · intro sh id x h; simp [shutdownFinish] at h
  · intro k e x h; simp [shutdownFinish] at h
  · intro sh sh' id x x' h; simp [shutdownFinish] at h
  · intro sh id x h; simp [shutdownFinish] at h
  · intro sh id x h; simp [shutdownFinish] at h

theorem ttlinv_shutdownSendBuf {s : State} (t : TtlInv s) (c : Nat) : TtlInv (shutdownSendBuf s c).1 := by
  unfold shutdownSendBuf
  split
  · exact ttlinv_shutdownFinish _
  · split
    · refine t.frame (frame_of_ple rfl rfl rfl rfl rfl ?_)
      simp only [pendingCmds_eq, pendCmds_set_shutdownBuf]
      exact PLe.append (PLe.refl _) (PLe_pendCmds_del _ _)
    · exact ttlinv_shutdownFinish _

theorem ttlinv_shutdownSendCmd {s : State} (t : TtlInv s) (c : Nat) : TtlInv (shutdownSendCmd s c).1 := by
  unfold shutdownSendCmd
  split
  · exact ttlinv_shutdownSendBuf t c
  · split
    · refine t.frame (frame_of_ple rfl rfl rfl rfl rfl ?_)
      simp only [pendingCmds_eq, pendCmds_set_shutdownCmd]
      exact PLe.append (PLe.refl _) (PLe_pendCmds_del _ _)
    · refine ttlinv_shutdownSendBuf (t.frame ?_) c
      refine ⟨rfl, rfl, rfl, rfl, Nat.le_refl _, ?_⟩
      intro id hm
      have hle : PLe (pendingCmds { s with queue := s.queue ++ [(Cmd.shutdown, none)] }) (Cmd.shutdown :: pendingCmds s) := by
        simp only [pendingCmds_eq, List.map_append, List.map_cons, List.map_nil]
        exact PLe.snoc_mid _ _ _
      rcases mem_ids_cons (mem_ids_of_PLe hle hm) with h | h
      · cases h
      · exact Or.inl h

theorem ttlinv_clientShutdown {s : State} (t : TtlInv s) (c : Nat) : TtlInv (clientShutdown s c).1 := by
  unfold clientShutdown
  split
  · exact t
  · exact ttlinv_shutdownSendCmd (s := { s with shutting := true })
      (t.frame ⟨rfl, rfl, rfl, rfl, Nat.le_refl _, fun _ h => Or.inl h⟩) c

theorem ttlinv_resume {s s' : State} {out : Out} (t : TtlInv s) {c : Nat} (hr : resume s c = .ok (s', out)) :
    TtlInv s' := by
  unfold resume at hr
  split at hr
  · cases hr
  · rename_i p hg
    have f0 : Frame s { s with pend := s.pend.del c } := by
      refine frame_of_ple rfl rfl rfl rfl rfl ?_
      simp only [pendingCmds_eq]
      exact PLe.append (PLe.refl _) (PLe_pendCmds_del _ _)
    dsimp only at hr
    split at hr
    · rename_i cmd
      split at hr
      · cases hr
      · simp only [Except.ok.injEq] at hr
        have e : s' = (sendCmd { s with pend := s.pend.del c } c cmd).1 := by rw [hr]
        rw [e]
        obtain ⟨e1, e2, e3, e4, e5, _, _⟩ := sendCmd_fields { s with pend := s.pend.del c } c cmd
        refine t.frame (frame_of_ple e1 e2 e3 e4 e5 ?_)
        refine PLe.trans (ple_sendCmd _ c cmd) ?_
        simp only [pendingCmds_eq]
        exact PLe.trans (PLe.mid' _ _ _) (PLe.append (PLe.refl _) (PLe_pendCmds_del_get hg))
    · split at hr
      · cases hr
      · simp only [Except.ok.injEq] at hr
        have e : s' = (shutdownSendCmd { s with pend := s.pend.del c } c).1 := by rw [hr]
        rw [e]
        exact ttlinv_shutdownSendCmd (t.frame f0) c
    · split at hr
      · cases hr
      · simp only [Except.ok.injEq] at hr
        have e : s' = (shutdownSendBuf { s with pend := s.pend.del c } c).1 := by rw [hr]
        rw [e]
        exact ttlinv_shutdownSendBuf (t.frame f0) c

/-! ### rewriting a stored entry in place: `delete` (soft flag) and `put_or_update` of a present key -/

/-- A stored entry is rewritten in place (same id) and the index entries of its id are brought in line with its
    new expiry; everything else stays. -/
theorem TtlInv.retime {s s' : State} (t : TtlInv s) {k : Nat} {e e' : Entry} (hg : s.store.get? k = some e)
    (hid : e'.id = e.id) (hlt : e.id < s.nextId) (hnp : e.id ∉ pendingIds s)
    (hstore : s'.store = s.store.set k e') (hadm : s'.adm = s.adm) (hcfg : s'.cfg = s.cfg)
    (hnext : s'.nextId = s.nextId) (hpend : pendingIds s' = pendingIds s)
    (hnd : AMap.NoDup s'.ttl)
    (hother : ∀ sh i, i ≠ e.id → s'.ttl.get? (sh, i) = s.ttl.get? (sh, i))
    (hself : ∀ sh x, s'.ttl.get? (sh, e.id) = some x ↔ e'.expiry = some x ∧ sh = shardOf s.cfg x) : TtlInv s' := by
  refine ⟨hnd, ?_, ?_, ?_, ?_, ?_, ?_, ?_⟩
  · intro sh i x h
    rw [hcfg]
    by_cases hi : i = e.id
    · subst hi; exact ((hself sh x).mp h).2
    · rw [hother sh i hi] at h; exact t.shardOk sh i x h
  · intro sh i x h
    rw [hadm, hstore]
    by_cases hi : i = e.id
    · subst hi
      exact Or.inr ⟨k, e', by simp, hid, ((hself sh x).mp h).1⟩
    · rw [hother sh i hi] at h
      rcases t.current sh i x h with h1 | ⟨k', e'', h1, h2, h3⟩
      · exact Or.inl h1
      · refine Or.inr ⟨k', e'', ?_, h2, h3⟩
        have hk : k ≠ k' := by
          intro heq; subst heq
          rw [hg] at h1
          simp only [Option.some.injEq] at h1
          subst h1; exact hi h2.symm
        rw [AMap.get?_set_other _ _ hk]; exact h1
  · intro k' e'' x h hx
    rw [hstore] at h
    rw [hcfg]
    rw [AMap.get?_set] at h
    split at h
    · simp only [Option.some.injEq] at h
      subst h
      rw [hid]
      exact (hself _ x).mpr ⟨hx, rfl⟩
    · rename_i hk
      have hi : e''.id ≠ e.id := by
        intro heq
        exact hk (t.heldW.unique h hg heq).1.symm
      rw [hother _ _ hi]
      exact t.indexedU k' e'' x h hx
  · intro sh sh' i x x' h h'
    by_cases hi : i = e.id
    · subst hi
      obtain ⟨a1, a2⟩ := (hself sh x).mp h
      obtain ⟨b1, b2⟩ := (hself sh' x').mp h'
      rw [a1] at b1
      simp only [Option.some.injEq] at b1
      rw [a2, b2, b1]
    · rw [hother sh i hi] at h
      rw [hother sh' i hi] at h'
      exact t.oneShard sh sh' i x x' h h'
  · intro sh i x h
    rw [hnext]
    by_cases hi : i = e.id
    · subst hi; exact hlt
    · rw [hother sh i hi] at h; exact t.idsBelow sh i x h
  · rw [hadm, hstore]; exact t.heldW.touch hg hid
  · intro sh i x h
    rw [hpend]
    by_cases hi : i = e.id
    · subst hi; exact hnp
    · rw [hother sh i hi] at h; exact t.notPending sh i x h

/-- a stored id is below `nextId` and is not the id of a pending put -/
theorem Inv.stored_id {s : State} (h : Inv s) {k : Nat} {e : Entry} (hg : s.store.get? k = some e) :
    e.id < s.nextId ∧ e.id ∉ pendingIds s :=
  ⟨h.idsBelow.2.1 k e hg, fun hm => (h.pendingFresh.2 e.id hm).2 k e hg rfl⟩

/-- rewriting a stored entry without touching its id or expiry (the soft-delete flag, the value) -/
theorem TtlInv.touch {s : State} (h : Inv s) (t : TtlInv s) {k : Nat} {e e' : Entry} (hg : s.store.get? k = some e)
    (hid : e'.id = e.id) (hx : e'.expiry = e.expiry) : TtlInv { s with store := s.store.set k e' } := by
  obtain ⟨h1, h2⟩ := h.stored_id hg
  refine t.retime hg hid h1 h2 rfl rfl rfl rfl rfl t.noDup (fun _ _ _ => rfl) ?_
  intro sh x
  rw [hx]
  exact t.sync hg sh x

theorem ttlinv_clientDelete {s : State} (h : Inv s) (t : TtlInv s) (c k : Nat) : TtlInv (clientDelete s c k).1 := by
  unfold clientDelete
  split
  · exact t
  · dsimp only
    split
    · rename_i e hg
      exact (TtlInv.touch h t hg (e' := { e with soft := true }) rfl rfl).frame
        (frame_sendCmd (Frame.refl _) c _ (by intro id hh; cases hh))
    · exact t.frame (frame_sendCmd (Frame.refl _) c _ (by intro id hh; cases hh))

/-- the index after `put_or_update` changed the expiry of the stored entry `e` to `ne` -/
def upsertTtl (s : State) (id : Nat) (old ne : Option Nat) : AMap (Nat × Nat) Nat :=
  match typeOfExpiryUpdate old ne with
  | .added n => s.ttl.set (shardOf s.cfg n, id) n
  | .deleted o => s.ttl.del (shardOf s.cfg o, id)
  | .updated o n => (s.ttl.del (shardOf s.cfg o, id)).set (shardOf s.cfg n, id) n
  | .nothing => s.ttl

theorem upsertTtl_spec {s : State} (t : TtlInv s) {k : Nat} {e : Entry} (hg : s.store.get? k = some e)
    (ne : Option Nat) :
    AMap.NoDup (upsertTtl s e.id e.expiry ne) ∧
    (∀ sh i, i ≠ e.id → (upsertTtl s e.id e.expiry ne).get? (sh, i) = s.ttl.get? (sh, i)) ∧
    (∀ sh x, (upsertTtl s e.id e.expiry ne).get? (sh, e.id) = some x ↔ ne = some x ∧ sh = shardOf s.cfg x) := by
  have hs := t.sync hg
  have hne : ∀ (sh sh' i : Nat), i ≠ e.id → ((sh', e.id) : Nat × Nat) ≠ (sh, i) := by
    intro sh sh' i hi heq
    simp only [Prod.mk.injEq] at heq
    exact hi heq.2.symm
  unfold upsertTtl
  cases hold : e.expiry with
  | none =>
    cases ne with
    | none =>
      have hif : typeOfExpiryUpdate none none = ExpiryUpdate.nothing := rfl
      rw [hif]
      refine ⟨t.noDup, fun _ _ _ => rfl, ?_⟩
      intro sh x
      rw [hs sh x, hold]
    | some n =>
      have hif : typeOfExpiryUpdate none (some n) = ExpiryUpdate.added n := rfl
      rw [hif]
      refine ⟨AMap.noDup_set t.noDup _ _, ?_, ?_⟩
      · intro sh i hi
        exact AMap.get?_set_other _ _ (hne sh _ i hi)
      · intro sh x
        simp only [AMap.get?_set, Prod.mk.injEq, and_true]
        split
        · rename_i heq
          simp only [Option.some.injEq]
          constructor
          · intro h; subst h; exact ⟨rfl, heq.symm⟩
          · intro h; exact h.1
        · rename_i hneq
          rw [hs sh x, hold]
          constructor
          · intro h; cases h.1
          · intro h
            simp only [Option.some.injEq] at h
            obtain ⟨h1, h2⟩ := h
            subst h1
            exact absurd h2.symm hneq
  | some o =>
    cases ne with
    | none =>
      have hif : typeOfExpiryUpdate (some o) none = ExpiryUpdate.deleted o := rfl
      rw [hif]
      refine ⟨AMap.noDup_del t.noDup _, ?_, ?_⟩
      · intro sh i hi
        exact AMap.get?_del_other _ (hne sh _ i hi)
      · intro sh x
        simp only [AMap.get?_del, Prod.mk.injEq, and_true]
        split
        · simp
        · rename_i hneq
          rw [hs sh x, hold]
          constructor
          · intro h
            simp only [Option.some.injEq] at h
            obtain ⟨h1, h2⟩ := h
            subst h1
            exact absurd h2.symm hneq
          · intro h; cases h.1
    | some n =>
      by_cases hon : o ≠ n
      · have hif : typeOfExpiryUpdate (some o) (some n) = ExpiryUpdate.updated o n := by
          simp [typeOfExpiryUpdate, hon]
        rw [hif]
        refine ⟨AMap.noDup_set (AMap.noDup_del t.noDup _) _ _, ?_, ?_⟩
        · intro sh i hi
          rw [AMap.get?_set_other _ _ (hne sh _ i hi), AMap.get?_del_other _ (hne sh _ i hi)]
        · intro sh x
          simp only [AMap.get?_set, AMap.get?_del, Prod.mk.injEq, and_true]
          split
          · rename_i heq
            simp only [Option.some.injEq]
            constructor
            · intro h; subst h; exact ⟨rfl, heq.symm⟩
            · intro h; exact h.1
          · rename_i hneq
            split
            · constructor
              · intro h; cases h
              · intro h
                simp only [Option.some.injEq] at h
                obtain ⟨h1, h2⟩ := h
                subst h1
                exact absurd h2.symm hneq
            · rename_i hneq2
              rw [hs sh x, hold]
              constructor
              · intro h
                simp only [Option.some.injEq] at h
                obtain ⟨h1, h2⟩ := h
                subst h1
                exact absurd h2.symm hneq2
              · intro h
                simp only [Option.some.injEq] at h
                obtain ⟨h1, h2⟩ := h
                subst h1
                exact absurd h2.symm hneq
      · have : o = n := by
          cases Nat.decEq o n with
          | isTrue h => exact h
          | isFalse h => exact absurd h hon
        subst this
        have hif : typeOfExpiryUpdate (some o) (some o) = ExpiryUpdate.nothing := by
          simp [typeOfExpiryUpdate]
        rw [hif]
        refine ⟨t.noDup, fun _ _ _ => rfl, ?_⟩
        intro sh x
        rw [hs sh x, hold]

theorem ttlinv_upsert_tail {s2 : State} (t2 : TtlInv s2) (uw2 : Option Int) (c id : Nat) :
    TtlInv (match uw2 with
          | some weight =>
            if (!inI64 weight) = true then (s2, Out.panic Panic.weightOverflow)
            else
              if weight ≤ 0 then (s2, Out.panic Panic.weightNotPositive)
              else sendCmd s2 c (Cmd.updateWeight id weight)
          | none => spotAck s2 Status.accepted).1 := by
  split
  · split
    · exact t2
    · split
      · exact t2
      · exact t2.frame (frame_sendCmd (Frame.refl _) c _ (by intro i hh; cases hh))
  · exact t2.frame (frame_spotAck _ _)

theorem ttlinv_clientUpsert {s : State} (h : Inv s) (t : TtlInv s) (c k : Nat) (v : Option Nat) (w : Option Int)
    (ttl : Option Nat) (rm : Bool) : TtlInv (clientUpsert s c k v w ttl rm).1 := by
  unfold clientUpsert
  split
  · exact t
  · extract_lets uw
    clear_value uw
    split
    · split
      · split
        · exact t
        · split
          · exact t.frame (frame_sendCmd (frame_bump s) c _
              (by intro id hh; simp only [Cmd.putId?, Option.some.injEq] at hh; omega))
          · exact t.frame (frame_sendCmd (frame_bump s) c _
              (by intro id hh; simp only [Cmd.putId?, Option.some.injEq] at hh; omega))
      · exact t
    · rename_i e hg
      extract_lets newExp
      clear_value newExp
      split
      · exact t
      · rename_i ne
        extract_lets e' s1 existing
        clear_value existing
        obtain ⟨h1, h2⟩ := h.stored_id hg
        obtain ⟨u1, u2, u3⟩ := upsertTtl_spec t hg ne
        split
        rename_i s2 uw2 hpair
        refine ttlinv_upsert_tail ?_ uw2 c _
        unfold upsertTtl at u1 u2 u3
        split at hpair
        · rename_i n hty
          cases hpair
          rw [hty] at u1 u2 u3
          exact t.retime hg (e' := e') rfl h1 h2 rfl rfl rfl rfl rfl u1 u2 u3
        · rename_i o hty
          cases hpair
          rw [hty] at u1 u2 u3
          exact t.retime hg (e' := e') rfl h1 h2 rfl rfl rfl rfl rfl u1 u2 u3
        · rename_i o n hty
          cases hpair
          rw [hty] at u1 u2 u3
          exact t.retime hg (e' := e') rfl h1 h2 rfl rfl rfl rfl rfl u1 u2 u3
        · rename_i hty
          cases hpair
          rw [hty] at u1 u2 u3
          exact t.retime hg (e' := e') rfl h1 h2 rfl rfl rfl rfl rfl u1 u2 u3

/-! ### un-charging an id with its key; dropping stale index entries -/

/-- An id is un-charged and the key it was charged for leaves the store (one eviction by the sweeper, or the
    first half of the worker's `delete`). The index entry of the id, if any, becomes stale. -/
theorem TtlInv.uncharge {s s' : State} (t : TtlInv s) {id : Nat} {wk : WKey} (hg : s.adm.kw.get? id = some wk)
    (hkw : s'.adm.kw = s.adm.kw.del id) (hstore : s'.store = s.store.del wk.key) (httl : s'.ttl = s.ttl)
    (hcfg : s'.cfg = s.cfg) (hnext : s'.nextId = s.nextId) (hpend : pendingIds s' = pendingIds s) : TtlInv s' := by
  refine ⟨?_, ?_, ?_, ?_, ?_, ?_, ?_, ?_⟩
  · rw [httl]; exact t.noDup
  · rw [httl, hcfg]; exact t.shardOk
  · rw [httl, hkw, hstore]
    intro sh i x h
    rcases t.current sh i x h with h1 | ⟨k', e'', h1, h2, h3⟩
    · left; rw [AMap.get?_del]; split <;> simp [h1]
    · by_cases hi : id = i
      · left; rw [hi]; exact AMap.get?_del_same _ _
      · refine Or.inr ⟨k', e'', ?_, h2, h3⟩
        have hk : wk.key ≠ k' := by
          intro heq
          have := t.heldW.2 id wk e'' hg (by rw [heq]; exact h1)
          exact hi (this.symm.trans h2)
        rw [AMap.get?_del_other _ hk]; exact h1
  · rw [httl, hstore, hcfg]
    intro k' e'' x h hx
    rw [AMap.get?_del] at h
    split at h
    · cases h
    · exact t.indexedU k' e'' x h hx
  · rw [httl]; exact t.oneShard
  · rw [httl, hnext]; exact t.idsBelow
  · rw [hkw, hstore]; exact t.heldW.remove hg
  · rw [httl, hpend]; exact t.notPending

/-- Index entries whose id is no longer charged may be dropped. -/
theorem TtlInv.dropStale {s s' : State} (t : TtlInv s) (hnd : AMap.NoDup s'.ttl)
    (hsub : ∀ a b, s'.ttl.get? a = some b → s.ttl.get? a = some b)
    (hdrop : ∀ sh i x, s.ttl.get? (sh, i) = some x → s'.ttl.get? (sh, i) = none → s.adm.kw.get? i = none)
    (hstore : s'.store = s.store) (hadm : s'.adm = s.adm) (hcfg : s'.cfg = s.cfg) (hnext : s'.nextId = s.nextId)
    (hpend : pendingIds s' = pendingIds s) : TtlInv s' := by
  refine ⟨hnd, ?_, ?_, ?_, ?_, ?_, ?_, ?_⟩
  · rw [hcfg]; intro sh i x h; exact t.shardOk sh i x (hsub _ _ h)
  · rw [hadm, hstore]; intro sh i x h; exact t.current sh i x (hsub _ _ h)
  · rw [hstore, hcfg]
    intro k e x h hx
    have h1 := t.indexedU k e x h hx
    cases h2 : s'.ttl.get? (shardOf s.cfg x, e.id) with
    | none =>
      have := hdrop _ _ _ h1 h2
      obtain ⟨wk, hw, _⟩ := t.charged h
      rw [this] at hw; cases hw
    | some y =>
      have := hsub _ _ h2
      rw [h1] at this
      exact this.symm
  · intro sh sh' i x x' h h'; exact t.oneShard sh sh' i x x' (hsub _ _ h) (hsub _ _ h')
  · rw [hnext]; intro sh i x h; exact t.idsBelow sh i x (hsub _ _ h)
  · rw [hadm, hstore]; exact t.heldW
  · rw [hpend]; intro sh i x h; exact t.notPending sh i x (hsub _ _ h)

/-! ### the TTL sweeper -/

/- `sweepEvict_none` (id not charged), `sweepEvict_skip` (the stored value has not itself expired) and `sweepEvict_take`
   are in Lemmas/EvictId.lean. -/

/-- A charged id whose stored value fails the sweeper's check is un-charged and its evict hook runs.  (Before the check
    against the store was added, fix 36c87dc, this held for every charged id.) -/
theorem sweepEvict_some {s : State} {id : Nat} {wk : WKey} (hg : s.adm.kw.get? id = some wk)
    (hu : unexpiredWithId s wk.key id = false) :
    sweepEvict s id =
      (applyEvictId { s with adm := { s.adm with kw := s.adm.kw.del id, used := s.adm.used - wk.weight } }
        (id, wk.key, wk.weight), some (id, wk.key, wk.weight)) :=
  sweepEvict_take hg hu

/-- Under `HeldW` (part of `TtlInv`) the key a charged id is charged for is either not stored or stored under this
    very id, so the ticker's id check (`applyEvictId`) never makes a difference in Layer A. -/
theorem applyEvictId_held {s : State} {id : Nat} {wk : WKey} (hw : HeldW s.adm.kw s.store)
    (hg : s.adm.kw.get? id = some wk) :
    applyEvictId { s with adm := { s.adm with kw := s.adm.kw.del id, used := s.adm.used - wk.weight } }
        (id, wk.key, wk.weight) =
      applyEvict { s with adm := { s.adm with kw := s.adm.kw.del id, used := s.adm.used - wk.weight } }
        (id, wk.key, wk.weight) :=
  applyEvictId_eq_applyEvict_of (fun en hen => hw.2 id wk en hg hen)

theorem sweepEvict_some_held {s : State} {id : Nat} {wk : WKey} (hw : HeldW s.adm.kw s.store)
    (hg : s.adm.kw.get? id = some wk) (hu : unexpiredWithId s wk.key id = false) :
    sweepEvict s id =
      (applyEvict { s with adm := { s.adm with kw := s.adm.kw.del id, used := s.adm.used - wk.weight } }
        (id, wk.key, wk.weight), some (id, wk.key, wk.weight)) := by
  rw [sweepEvict_some hg hu, applyEvictId_held hw hg]

/-- **The sweeper's check never fires in Layer A.**  Under `TtlInv` an index entry of a charged id is the CURRENT deadline
    of the entry stored under the charged key, so when the index entry has come due the stored value has expired: the
    check `unexpiredWithId` fails and the sweep does what it did before the check was added. -/
theorem TtlInv.due_expired {s : State} (t : TtlInv s) {sh id x : Nat} {wk : WKey} (hx : s.ttl.get? (sh, id) = some x)
    (hnow : s.now > x) (hg : s.adm.kw.get? id = some wk) : unexpiredWithId s wk.key id = false := by
  rcases t.current sh id x hx with hn | ⟨k, e, he, hid, hexp⟩
  · rw [hn] at hg; cases hg
  · obtain ⟨wk', hw', hk'⟩ := t.heldW.1 k e he
    rw [hid, hg] at hw'
    simp only [Option.some.injEq] at hw'
    subst hw'
    rw [hk']
    exact unexpiredWithId_of_expired he hexp hnow

theorem pendingIds_congr {s s' : State} (h1 : s'.queue = s.queue) (h2 : s'.pend = s.pend) :
    pendingIds s' = pendingIds s := by
  simp only [pendingIds, pendingCmds, h1, h2]

theorem ttlinv_sweepEvict {s : State} (t : TtlInv s) (id : Nat) : TtlInv (sweepEvict s id).1 := by
  rcases sweepEvict_cases s id with h0 | ⟨wk, hg, _, h1⟩
  · rw [h0]; exact t
  · rw [h1, applyEvictId_held t.heldW hg]
    obtain ⟨e1, e2, e3, e4, e5, e6, e7, e8, _⟩ := applyEvict_frame
      { s with adm := { s.adm with kw := s.adm.kw.del id, used := s.adm.used - wk.weight } } (id, wk.key, wk.weight)
    refine t.uncharge hg (by rw [e1]) (by rw [applyEvict_store]) e8 e3 e2 (pendingIds_congr e5 e6)

theorem ttlinv_sweepEntries : ∀ (l : List ((Nat × Nat) × Nat)) (s : State) (acc : List Evicted), TtlInv s →
    TtlInv (sweepEntries s l acc).1 := by
  intro l
  induction l with
  | nil => intro s acc t; exact t
  | cons x l ih =>
    intro s acc t
    obtain ⟨⟨sh, id⟩, ex⟩ := x
    simp only [sweepEntries]
    exact ih _ _ (ttlinv_sweepEvict t id)

/-- What `sweepEntries` does for a list `l` of index entries, for EVERY state: the evictions `evNew` are charged ids
    of `l` whose stored value failed the sweeper's check (`evExpired`: not stored, stored under another id, or past its
    OWN deadline), and every charged id of `l` is either evicted or passed the check (`evAll`); exactly the evicted ids
    are un-charged (`kw`).  Under `TtlInv`, for entries that are due, the check never passes, so exactly the charged
    ids of `l` are evicted (`SweepSpec.evAll_due`, `SweepSpec.kw_due` below: the fields `kw` / `evAll` as they read
    before the check was added, fix 36c87dc).
    The keys of the evictions leave the store under `HeldW` (part of `TtlInv`, so at every reachable state); without
    it the ticker's id check (`applyEvictId`) may keep some of them (`storeSub`). -/
structure SweepSpec (s : State) (l : List ((Nat × Nat) × Nat)) (s' : State) (evNew : List Evicted) : Prop where
  kw : ∀ i, s'.adm.kw.get? i = if i ∈ evNew.map (·.1) then none else s.adm.kw.get? i
  store : HeldW s.adm.kw s.store → s'.store = AMap.delKeys s.store (evNew.map (·.2.1))
  storeSub : ∃ ks, (∀ k ∈ ks, k ∈ evNew.map (·.2.1)) ∧ s'.store = AMap.delKeys s.store ks
  used : s'.adm.used = s.adm.used - (evNew.map (·.2.2)).sum
  max : s'.adm.max = s.adm.max
  evNodup : (evNew.map (·.1)).Nodup
  evIn : ∀ e ∈ evNew, e.1 ∈ l.map (·.1.2) ∧ ∃ h, s.adm.kw.get? e.1 = some ⟨e.2.1, h, e.2.2⟩
  evExpired : ∀ e ∈ evNew, unexpiredWithId s e.2.1 e.1 = false
  evAll : ∀ i ∈ l.map (·.1.2), ∀ wk, s.adm.kw.get? i = some wk →
    (i, wk.key, wk.weight) ∈ evNew ∨ unexpiredWithId s wk.key i = true
  ttl : s'.ttl = s.ttl
  now : s'.now = s.now
  cfg : s'.cfg = s.cfg
  nextId : s'.nextId = s.nextId
  worker : s'.worker = s.worker
  queue : s'.queue = s.queue
  pend : s'.pend = s.pend

theorem sweepEntries_spec : ∀ (l : List ((Nat × Nat) × Nat)) (s : State) (acc : List Evicted),
    ∃ evNew, (sweepEntries s l acc).2 = acc.reverse ++ evNew ∧ SweepSpec s l (sweepEntries s l acc).1 evNew := by
  intro l
  induction l with
  | nil =>
    intro s acc
    refine ⟨[], by simp [sweepEntries], ?_⟩
    exact ⟨by intro i; simp [sweepEntries], fun _ => rfl, ⟨[], by simp, rfl⟩, by simp [sweepEntries], rfl, by simp,
      by simp, by simp, by simp, rfl, rfl, rfl, rfl, rfl, rfl, rfl⟩
  | cons p rest ih =>
    intro s acc
    obtain ⟨⟨sh, id⟩, ex⟩ := p
    simp only [sweepEntries]
    rcases sweepEvict_cases' s id with ⟨h0, hkeep⟩ | ⟨wk, hg, hu, h1⟩
    · -- the id is not charged, or the value stored under it has not itself expired: nothing happens
      rw [h0]
      obtain ⟨evNew, he, sp⟩ := ih s acc
      refine ⟨evNew, he, ?_⟩
      refine ⟨sp.kw, sp.store, sp.storeSub, sp.used, sp.max, sp.evNodup, ?_, sp.evExpired, ?_, sp.ttl, sp.now, sp.cfg,
        sp.nextId, sp.worker, sp.queue, sp.pend⟩
      · intro e hm
        obtain ⟨a, b⟩ := sp.evIn e hm
        exact ⟨by simp only [List.map_cons, List.mem_cons]; exact Or.inr a, b⟩
      · intro i hi wk' hw
        simp only [List.map_cons, List.mem_cons] at hi
        rcases hi with hi | hi
        · subst hi; exact Or.inr (hkeep wk' hw)
        · exact sp.evAll i hi wk' hw
    · rw [h1]
      obtain ⟨e1, e2, e3, e4, e5, e6, e7, e8, _⟩ := applyEvictId_frame
        { s with adm := { s.adm with kw := s.adm.kw.del id, used := s.adm.used - wk.weight } } (id, wk.key, wk.weight)
      have e0 := applyEvict_store
        { s with adm := { s.adm with kw := s.adm.kw.del id, used := s.adm.used - wk.weight } } (id, wk.key, wk.weight)
      have e0' := applyEvictId_store_cases
        { s with adm := { s.adm with kw := s.adm.kw.del id, used := s.adm.used - wk.weight } } (id, wk.key, wk.weight)
      obtain ⟨evNew, he, sp⟩ := ih (applyEvictId
        { s with adm := { s.adm with kw := s.adm.kw.del id, used := s.adm.used - wk.weight } } (id, wk.key, wk.weight))
        ((id, wk.key, wk.weight) :: acc)
      refine ⟨(id, wk.key, wk.weight) :: evNew, by rw [he]; simp, ?_⟩
      have hkw1 : ∀ i, (applyEvictId
          { s with adm := { s.adm with kw := s.adm.kw.del id, used := s.adm.used - wk.weight } }
          (id, wk.key, wk.weight)).adm.kw.get? i = if id = i then none else s.adm.kw.get? i := by
        intro i; rw [e1]; exact AMap.get?_del _ _ _
      have hne : ∀ e ∈ evNew, e.1 ≠ id := by
        intro e hm heq
        obtain ⟨_, hh, hget⟩ := sp.evIn e hm
        rw [hkw1, heq] at hget
        simp at hget
      have hsub : ∀ k i, unexpiredWithId (applyEvictId
          { s with adm := { s.adm with kw := s.adm.kw.del id, used := s.adm.used - wk.weight } }
          (id, wk.key, wk.weight)) k i = true → unexpiredWithId s k i = true := by
        intro k i h
        exact unexpiredWithId_applyEvictId_sub
          { s with adm := { s.adm with kw := s.adm.kw.del id, used := s.adm.used - wk.weight } } (id, wk.key, wk.weight) h
      refine ⟨?_, ?_, ?_, ?_, ?_, ?_, ?_, ?_, ?_, sp.ttl.trans e8, sp.now.trans e7, sp.cfg.trans e3, sp.nextId.trans e2,
        sp.worker.trans e4, sp.queue.trans e5, sp.pend.trans e6⟩
      · intro i
        rw [sp.kw i, hkw1 i]
        simp only [List.map_cons, List.mem_cons]
        by_cases h1 : i ∈ evNew.map (·.1)
        · simp [h1]
        · by_cases h2 : i = id
          · subst h2; simp
          · have h3 : ¬ id = i := fun h => h2 h.symm
            simp [h1, h2, h3]
      · intro hw
        have hev := applyEvictId_held hw hg
        have hw1 : HeldW (applyEvictId
            { s with adm := { s.adm with kw := s.adm.kw.del id, used := s.adm.used - wk.weight } }
            (id, wk.key, wk.weight)).adm.kw (applyEvictId
            { s with adm := { s.adm with kw := s.adm.kw.del id, used := s.adm.used - wk.weight } }
            (id, wk.key, wk.weight)).store := by
          rw [e1, hev, e0]; exact hw.remove hg
        rw [sp.store hw1, hev, e0]; rfl
      · obtain ⟨ks, hks, hst⟩ := sp.storeSub
        rcases e0' with ⟨_, hs1⟩ | ⟨_, hs1⟩
        · refine ⟨wk.key :: ks, ?_, by rw [hst, hs1]; rfl⟩
          intro k hk
          simp only [List.mem_cons] at hk
          rcases hk with rfl | hk
          · simp
          · simp only [List.map_cons, List.mem_cons]; exact Or.inr (hks k hk)
        · refine ⟨ks, ?_, by rw [hst, hs1]⟩
          intro k hk
          simp only [List.map_cons, List.mem_cons]; exact Or.inr (hks k hk)
      · rw [sp.used, e1]
        simp only [List.map_cons, List.sum_cons]
        omega
      · rw [sp.max, e1]
      · simp only [List.map_cons, List.nodup_cons, List.mem_map, not_exists, not_and]
        exact ⟨fun e hm heq => hne e hm heq, sp.evNodup⟩
      · intro e hm
        simp only [List.mem_cons] at hm
        rcases hm with rfl | hm
        · exact ⟨by simp, wk.hash, by simp [hg]⟩
        · obtain ⟨a, hh, hget⟩ := sp.evIn e hm
          refine ⟨by simp only [List.map_cons, List.mem_cons]; exact Or.inr a, hh, ?_⟩
          rw [hkw1] at hget
          split at hget
          · cases hget
          · exact hget
      · intro e hm
        simp only [List.mem_cons] at hm
        rcases hm with rfl | hm
        · exact hu
        · cases hb : unexpiredWithId s e.2.1 e.1 with
          | false => rfl
          | true =>
            have := unexpiredWithId_applyEvictId_keep
              { s with adm := { s.adm with kw := s.adm.kw.del id, used := s.adm.used - wk.weight } }
              (id, wk.key, wk.weight) (k := e.2.1) (i := e.1) (hne e hm) hb
            rw [sp.evExpired e hm] at this
            cases this
      · intro i hi wk' hw
        by_cases h2 : i = id
        · subst h2
          rw [hg] at hw
          simp only [Option.some.injEq] at hw
          subst hw
          exact Or.inl List.mem_cons_self
        · simp only [List.map_cons, List.mem_cons] at hi
          rcases hi with hi | hi
          · exact absurd hi h2
          · have h3 : ¬ id = i := fun h => h2 h.symm
            rcases sp.evAll i hi wk' (by rw [hkw1]; simp [h3, hw]) with h | h
            · exact Or.inl (List.mem_cons_of_mem _ h)
            · exact Or.inr (hsub _ _ h)

/-- the entries a sweep at `s` takes out of the index: those of the visited shard whose deadline has passed -/
def due (s : State) (p : (Nat × Nat) × Nat) : Bool :=
  p.1.1 == secsOf s.now % s.cfg.shards && decide (s.now > p.2)

/-- index entries of `s` whose deadline has passed (what the sweeper is handed: the due entries of one shard) -/
def DueList (s : State) (l : List ((Nat × Nat) × Nat)) : Prop := ∀ p ∈ l, s.ttl.get? p.1 = some p.2 ∧ s.now > p.2

theorem dueList_filter {s : State} (hn : AMap.NoDup s.ttl) : DueList s (s.ttl.filter (due s)) := by
  intro p hp
  obtain ⟨h1, h2⟩ := List.mem_filter.mp hp
  obtain ⟨⟨sh, i⟩, x⟩ := p
  simp only [due, Bool.and_eq_true, beq_iff_eq, decide_eq_true_eq] at h2
  exact ⟨AMap.get?_of_mem hn h1, h2.2⟩

/-- Under `TtlInv`, for due entries, the sweeper's check never passes: every charged id of the list is evicted
    (the field `evAll` as it read before the check was added). -/
theorem SweepSpec.evAll_due {s s' : State} {l : List ((Nat × Nat) × Nat)} {evNew : List Evicted}
    (sp : SweepSpec s l s' evNew) (t : TtlInv s) (hd : DueList s l) :
    ∀ i ∈ l.map (·.1.2), ∀ wk, s.adm.kw.get? i = some wk → (i, wk.key, wk.weight) ∈ evNew := by
  intro i hi wk hw
  rcases sp.evAll i hi wk hw with h | h
  · exact h
  · obtain ⟨p, hp, hpi⟩ := List.mem_map.mp hi
    obtain ⟨⟨sh, j⟩, x⟩ := p
    simp only at hpi
    subst hpi
    obtain ⟨h1, h2⟩ := hd _ hp
    rw [t.due_expired h1 h2 hw] at h
    cases h

/-- Under `TtlInv`, for due entries: exactly the ids of the list are un-charged (the field `kw` as it read before the
    check was added). -/
theorem SweepSpec.kw_due {s s' : State} {l : List ((Nat × Nat) × Nat)} {evNew : List Evicted}
    (sp : SweepSpec s l s' evNew) (t : TtlInv s) (hd : DueList s l) :
    ∀ i, s'.adm.kw.get? i = if i ∈ l.map (·.1.2) then none else s.adm.kw.get? i := by
  intro i
  rw [sp.kw i]
  by_cases h1 : i ∈ evNew.map (·.1)
  · obtain ⟨e, he, hei⟩ := List.mem_map.mp h1
    have := (sp.evIn e he).1
    rw [hei] at this
    simp [h1, this]
  · by_cases h2 : i ∈ l.map (·.1.2)
    · cases hg : s.adm.kw.get? i with
      | none => simp [h1]
      | some wk =>
        exact absurd (List.mem_map.mpr ⟨_, sp.evAll_due t hd i h2 wk hg, rfl⟩) h1
    · simp [h1, h2]

/-- One sweep, taken apart: the evictions are those of `sweepEntries` over the due entries, then exactly the due
    entries leave the index. -/
theorem sweepStep_eq {s s' : State} {ev : List Evicted} (hs : sweepStep s = .ok (s', .swept ev)) :
    s.sweeperAlive = true ∧ ev = (sweepEntries s (s.ttl.filter (due s)) []).2 ∧
    s' = { (sweepEntries s (s.ttl.filter (due s)) []).1 with
            ttl := (sweepEntries s (s.ttl.filter (due s)) []).1.ttl.filter (fun p => !due s p),
            sweeperAlive := (sweepEntries s (s.ttl.filter (due s)) []).1.sweeperKeep } := by
  unfold sweepStep at hs
  split at hs
  · cases hs
  · rename_i ha
    dsimp only at hs
    simp only [Except.ok.injEq, Prod.mk.injEq, Out.swept.injEq] at hs
    obtain ⟨h1, h2⟩ := hs
    refine ⟨by simpa using ha, h2.symm, h1.symm⟩

theorem sweepStep_out {s s' : State} {out : Out} (hs : sweepStep s = .ok (s', out)) : ∃ ev, out = .swept ev := by
  unfold sweepStep at hs
  split at hs
  · cases hs
  · dsimp only at hs
    simp only [Except.ok.injEq, Prod.mk.injEq] at hs
    exact ⟨_, hs.2.symm⟩

theorem ttlinv_sweepStep {s s' : State} {out : Out} (t : TtlInv s) (hs : sweepStep s = .ok (s', out)) :
    TtlInv s' := by
  obtain ⟨ev, rfl⟩ := sweepStep_out hs
  obtain ⟨_, _, rfl⟩ := sweepStep_eq hs
  have t1 := ttlinv_sweepEntries (s.ttl.filter (due s)) s [] t
  obtain ⟨evNew, _, sp⟩ := sweepEntries_spec (s.ttl.filter (due s)) s []
  refine t1.dropStale (AMap.noDup_filter t1.noDup _) ?_ ?_ rfl rfl rfl rfl rfl
  · intro a b h
    exact (AMap.get?_filter_some t1.noDup h).1
  · intro sh i x h hnone
    rw [sp.kw_due t (dueList_filter t.noDup) i]
    have hdue : due s ((sh, i), x) = true := by
      cases hd : due s ((sh, i), x) with
      | true => rfl
      | false =>
        have := AMap.get?_filter_of t1.noDup (p := fun p => !due s p) h (by simp [hd])
        rw [this] at hnone; cases hnone
    have hmem : ((sh, i), x) ∈ s.ttl.filter (due s) := by
      rw [sp.ttl] at h
      exact List.mem_filter.mpr ⟨AMap.mem_of_get? h, hdue⟩
    have : i ∈ (s.ttl.filter (due s)).map (·.1.2) := List.mem_map.mpr ⟨_, hmem, rfl⟩
    simp [this]

/-! ### the worker: put -/

theorem foldl_applyEvict_ttl (evs : List Evicted) : ∀ s : State, (evs.foldl applyEvict s).ttl = s.ttl := by
  induction evs with
  | nil => intro s; rfl
  | cons e evs ih =>
    intro s
    simp only [List.foldl_cons]
    rw [ih]
    exact (applyEvict_frame s e).2.2.2.2.2.2.2.1

/-- Admission of a fresh id: the evicted ids are un-charged and their keys leave the store; if accepted, the new id
    is charged (its key is not stored yet, it has no index entry). Evicted ids keep their index entries, which
    are stale from now on. -/
theorem TtlInv.admission {s s' : State} (t : TtlInv s) {id k hash : Nat} {w : Int} {r : AdmResult}
    (sp : AddSpec s.adm id k hash w r) (hk : s.store.get? k = none)
    (hfst : ∀ k e, s.store.get? k = some e → e.id ≠ id)
    (hnoidx : ∀ sh x, s.ttl.get? (sh, id) ≠ some x)
    (hadm : s'.adm = r.adm) (hstore : s'.store = AMap.delKeys s.store (r.evicted.map (·.2.1)))
    (httl : s'.ttl = s.ttl) (hcfg : s'.cfg = s.cfg) (hnext : s'.nextId = s.nextId)
    (hpend : ∀ i ∈ pendingIds s', i ∈ pendingIds s) : TtlInv s' := by
  have F1 : ∀ i, i ≠ id → r.adm.kw.get? i = if i ∈ r.evicted.map (·.1) then none else s.adm.kw.get? i := by
    intro i hi; rw [sp.get i]; simp [hi]
  have F2 : ∀ k' e'', s.store.get? k' = some e'' → e''.id ∉ r.evicted.map (·.1) → k' ∉ r.evicted.map (·.2.1) := by
    intro k' e'' he hn hmem
    obtain ⟨ev, hev, hkey⟩ := List.mem_map.mp hmem
    obtain ⟨hh, hget⟩ := sp.evIn ev hev
    have := t.heldW.2 ev.1 _ e'' hget (by simp only; rw [hkey]; exact he)
    exact hn (List.mem_map.mpr ⟨ev, hev, this.symm⟩)
  have F3 : ∀ k' e'', s.store.get? k' = some e'' → k' ∉ r.evicted.map (·.2.1) → e''.id ∉ r.evicted.map (·.1) := by
    intro k' e'' he hn hmem
    obtain ⟨ev, hev, hid⟩ := List.mem_map.mp hmem
    obtain ⟨hh, hget⟩ := sp.evIn ev hev
    obtain ⟨wk, hw, hkey⟩ := t.charged he
    rw [hid, hw] at hget
    simp only [Option.some.injEq] at hget
    subst hget
    exact hn (List.mem_map.mpr ⟨ev, hev, hkey⟩)
  refine ⟨?_, ?_, ?_, ?_, ?_, ?_, ?_, ?_⟩
  · rw [httl]; exact t.noDup
  · rw [httl, hcfg]; exact t.shardOk
  · rw [httl, hadm, hstore]
    intro sh i x h
    have hi : i ≠ id := by intro heq; subst heq; exact hnoidx sh x h
    rw [F1 i hi]
    rcases t.current sh i x h with h1 | ⟨k', e'', h1, h2, h3⟩
    · left; split <;> simp [h1]
    · by_cases hev : i ∈ r.evicted.map (·.1)
      · left; simp [hev]
      · refine Or.inr ⟨k', e'', ?_, h2, h3⟩
        rw [AMap.get?_delKeys]
        have := F2 k' e'' h1 (by rw [h2]; exact hev)
        simp [this, h1]
  · rw [httl, hstore, hcfg]
    intro k' e'' x h hx
    rw [AMap.get?_delKeys] at h
    split at h
    · cases h
    · exact t.indexedU k' e'' x h hx
  · rw [httl]; exact t.oneShard
  · rw [httl, hnext]; exact t.idsBelow
  · rw [hadm, hstore]
    constructor
    · intro k' e'' h
      rw [AMap.get?_delKeys] at h
      split at h
      · cases h
      · rename_i hkn
        obtain ⟨wk, hw, hkey⟩ := t.charged h
        refine ⟨wk, ?_, hkey⟩
        rw [F1 _ (hfst k' e'' h)]
        simp [F3 k' e'' h hkn, hw]
    · intro i wk e'' hw h
      rw [AMap.get?_delKeys] at h
      split at h
      · cases h
      · by_cases hi : i = id
        · subst hi
          rw [sp.get i] at hw
          split at hw
          · simp only [Option.some.injEq] at hw
            subst hw
            simp only at h
            rw [hk] at h; cases h
          · rename_i hna
            split at hw
            · cases hw
            · exact t.heldW.2 i wk e'' hw h
        · rw [F1 i hi] at hw
          split at hw
          · cases hw
          · exact t.heldW.2 i wk e'' hw h
  · rw [httl]
    intro sh i x h hm
    exact t.notPending sh i x h (hpend i hm)

/-- The store insert that completes an accepted put: the (charged, not yet stored) id gets its entry and, when the
    entry has a deadline, its index entry. -/
theorem TtlInv.insert {m s' : State} (t : TtlInv m) {id k : Nat} {entry : Entry} (hent : entry.id = id)
    (hk : m.store.get? k = none) (hfst : ∀ k e, m.store.get? k = some e → e.id ≠ id)
    (hnoidx : ∀ sh x, m.ttl.get? (sh, id) ≠ some x) (hidn : id < m.nextId) (hidp : id ∉ pendingIds s')
    (hstore : s'.store = m.store.set k entry) (hadm : s'.adm = m.adm) (hcfg : s'.cfg = m.cfg)
    (hnext : s'.nextId = m.nextId) (hpend : ∀ i ∈ pendingIds s', i ∈ pendingIds m)
    (httl : (entry.expiry = none ∧ s'.ttl = m.ttl) ∨
      ∃ x, entry.expiry = some x ∧ s'.ttl = m.ttl.set (shardOf m.cfg x, id) x)
    (hW : HeldW s'.adm.kw s'.store) : TtlInv s' := by
  have hnd : AMap.NoDup s'.ttl := by
    rcases httl with ⟨_, h⟩ | ⟨x, _, h⟩
    · rw [h]; exact t.noDup
    · rw [h]; exact AMap.noDup_set t.noDup _ _
  have hother : ∀ sh i, i ≠ id → s'.ttl.get? (sh, i) = m.ttl.get? (sh, i) := by
    intro sh i hi
    rcases httl with ⟨_, h⟩ | ⟨x, _, h⟩
    · rw [h]
    · rw [h]
      refine AMap.get?_set_other _ _ ?_
      intro heq
      simp only [Prod.mk.injEq] at heq
      exact hi heq.2.symm
  have hself : ∀ sh x, s'.ttl.get? (sh, id) = some x ↔ entry.expiry = some x ∧ sh = shardOf m.cfg x := by
    intro sh x
    rcases httl with ⟨h0, h⟩ | ⟨x1, h0, h⟩
    · rw [h, h0]
      constructor
      · intro hg; exact absurd hg (hnoidx sh x)
      · intro hg; cases hg.1
    · rw [h, h0, AMap.get?_set]
      simp only [Prod.mk.injEq, and_true]
      split
      · rename_i heq
        simp only [Option.some.injEq]
        constructor
        · intro hx; subst hx; exact ⟨rfl, heq.symm⟩
        · intro hx; exact hx.1
      · rename_i hneq
        constructor
        · intro hg; exact absurd hg (hnoidx sh x)
        · intro hx
          simp only [Option.some.injEq] at hx
          obtain ⟨h1, h2⟩ := hx
          subst h1
          exact absurd h2.symm hneq
  refine ⟨hnd, ?_, ?_, ?_, ?_, ?_, hW, ?_⟩
  · intro sh i x h
    rw [hcfg]
    by_cases hi : i = id
    · subst hi; exact ((hself sh x).mp h).2
    · rw [hother sh i hi] at h; exact t.shardOk sh i x h
  · intro sh i x h
    rw [hadm, hstore]
    by_cases hi : i = id
    · subst hi
      exact Or.inr ⟨k, entry, by simp, hent, ((hself sh x).mp h).1⟩
    · rw [hother sh i hi] at h
      rcases t.current sh i x h with h1 | ⟨k', e'', h1, h2, h3⟩
      · exact Or.inl h1
      · refine Or.inr ⟨k', e'', ?_, h2, h3⟩
        have hkk : k ≠ k' := by
          intro heq; subst heq
          rw [hk] at h1; cases h1
        rw [AMap.get?_set_other _ _ hkk]; exact h1
  · intro k' e'' x h hx
    rw [hstore] at h
    rw [hcfg]
    rw [AMap.get?_set] at h
    split at h
    · simp only [Option.some.injEq] at h
      subst h
      rw [hent]
      exact (hself _ x).mpr ⟨hx, rfl⟩
    · rw [hother _ _ (hfst k' e'' h)]
      exact t.indexedU k' e'' x h hx
  · intro sh sh' i x x' h h'
    by_cases hi : i = id
    · subst hi
      obtain ⟨a1, a2⟩ := (hself sh x).mp h
      obtain ⟨b1, b2⟩ := (hself sh' x').mp h'
      rw [a1] at b1
      simp only [Option.some.injEq] at b1
      rw [a2, b2, b1]
    · rw [hother sh i hi] at h
      rw [hother sh' i hi] at h'
      exact t.oneShard sh sh' i x x' h h'
  · intro sh i x h
    rw [hnext]
    by_cases hi : i = id
    · subst hi; exact hidn
    · rw [hother sh i hi] at h; exact t.idsBelow sh i x h
  · intro sh i x h hm
    by_cases hi : i = id
    · subst hi; exact hidp hm
    · rw [hother sh i hi] at h; exact t.notPending sh i x h (hpend i hm)

theorem ttlinv_workerPut {s : State} {cmd : Cmd} {id hash : Nat} {w : Int} {k v : Nat} {ttl : Option Nat}
    {o o' : Oracle} {ex : Exec} (hc : Core s)
    (hp : PendOK s.nextId s.adm.kw s.store (cmd :: pendingCmds s)) (hcid : cmd.putId? = some id) (hw : 0 < w)
    (hwk : s.worker ≠ .dead) (t : TtlInv s) (hnoidx : ∀ sh x, s.ttl.get? (sh, id) ≠ some x)
    (h : workerPut s id hash w k v ttl o = .ok (ex, o')) : TtlInv ex.kill := by
  have h0 := h
  obtain ⟨hidn, hidP, hidkw, hidst⟩ := hp.head hcid
  unfold workerPut at h
  split at h
  · simp only [Except.ok.injEq, Prod.mk.injEq] at h
    obtain ⟨rfl, _⟩ := h
    exact t
  · rename_i hcont
    have hk : s.store.get? k = none := by
      simp only [AMap.contains] at hcont
      cases hg : s.store.get? k with
      | none => rfl
      | some x => simp [hg] at hcont
    split at h
    · cases h
    · rename_i r hm
      have sp := maybeAdd_spec hc.kwNoDup hc.sum hidkw hm
      obtain ⟨f1, f2, f3, f4, f5, f6, f7⟩ := foldl_applyEvict r.evicted { s with adm := r.adm }
      have f8 := foldl_applyEvict_ttl r.evicted { s with adm := r.adm }
      have hpe : pendingIds (r.evicted.foldl applyEvict { s with adm := r.adm }) = pendingIds s :=
        pendingIds_congr f6 f7
      have t1 : TtlInv (r.evicted.foldl applyEvict { s with adm := r.adm }) :=
        t.admission sp hk hidst hnoidx f2 f1 f8 f4 f3 (by intro i hi; rw [hpe] at hi; exact hi)
      have hk1 : (r.evicted.foldl applyEvict { s with adm := r.adm }).store.get? k = none := by
        rw [f1, AMap.get?_delKeys]; simp [hk]
      have hfst1 : ∀ k' e, (r.evicted.foldl applyEvict { s with adm := r.adm }).store.get? k' = some e → e.id ≠ id := by
        intro k' e he
        rw [f1, AMap.get?_delKeys] at he
        split at he
        · cases he
        · exact hidst k' e he
      have hno1 : ∀ sh x, (r.evicted.foldl applyEvict { s with adm := r.adm }).ttl.get? (sh, id) ≠ some x := by
        intro sh x; rw [f8]; exact hnoidx sh x
      have hidp : id ∉ pendingIds s := hidP
      dsimp only at h
      split at h
      · -- the worker panicked in `is_space_available_for`: it dies with the evictions made so far
        simp only [Except.ok.injEq, Prod.mk.injEq] at h
        obtain ⟨rfl, _⟩ := h
        refine t1.frame (frame_of_ple rfl rfl rfl rfl rfl ?_)
        simp only [pendingCmds, Exec.kill, f7, List.map_nil, List.nil_append]
        exact PLe.right _ _
      split at h
      · rename_i hacc
        split at h
        · simp only [Except.ok.injEq, Prod.mk.injEq] at h
          obtain ⟨rfl, _⟩ := h
          have hI := inv_workerPut hc hp hcid hw h0
          refine t1.insert (entry := { value := v, id := id, expiry := none, soft := false }) rfl hk1 hfst1 hno1
            (by rw [f3]; exact hidn) ?_ rfl rfl rfl rfl ?_ (Or.inl ⟨rfl, rfl⟩) ?_
          · show id ∉ pendingIds (r.evicted.foldl applyEvict { s with adm := r.adm })
            rw [hpe]; exact hidp
          · intro i hi; exact hi
          · exact heldW_of_inv hI (by show (r.evicted.foldl applyEvict { s with adm := r.adm }).worker ≠ _; rw [f5]; exact hwk)
        · split at h
          · simp only [Except.ok.injEq, Prod.mk.injEq] at h
            obtain ⟨rfl, _⟩ := h
            refine t1.frame (frame_of_ple rfl rfl rfl rfl rfl ?_)
            simp only [pendingCmds, Exec.kill, f7, List.map_nil, List.nil_append]
            exact PLe.right _ _
          · rename_i e _
            simp only [Except.ok.injEq, Prod.mk.injEq] at h
            obtain ⟨rfl, _⟩ := h
            have hI := inv_workerPut hc hp hcid hw h0
            refine t1.insert (entry := { value := v, id := id, expiry := some e, soft := false }) rfl hk1 hfst1 hno1
              (by rw [f3]; exact hidn) ?_ rfl rfl rfl rfl ?_ (Or.inr ⟨e, rfl, rfl⟩) ?_
            · show id ∉ pendingIds (r.evicted.foldl applyEvict { s with adm := r.adm })
              rw [hpe]; exact hidp
            · intro i hi; exact hi
            · exact heldW_of_inv hI (by show (r.evicted.foldl applyEvict { s with adm := r.adm }).worker ≠ _; rw [f5]; exact hwk)
      · simp only [Except.ok.injEq, Prod.mk.injEq] at h
        obtain ⟨rfl, _⟩ := h
        exact t1.frame (frame_of_ple rfl rfl rfl rfl rfl (PLe.refl _))

/-! ### the worker: update-weight and delete -/

theorem TtlInv.reweigh {s s' : State} (t : TtlInv s) {id : Nat} {wk : WKey} (hg : s.adm.kw.get? id = some wk) (w : Int)
    (hkw : s'.adm.kw = s.adm.kw.set id { wk with weight := w }) (hstore : s'.store = s.store) (httl : s'.ttl = s.ttl)
    (hcfg : s'.cfg = s.cfg) (hnext : s'.nextId = s.nextId) (hpend : ∀ i ∈ pendingIds s', i ∈ pendingIds s) :
    TtlInv s' := by
  refine ⟨?_, ?_, ?_, ?_, ?_, ?_, ?_, ?_⟩
  · rw [httl]; exact t.noDup
  · rw [httl, hcfg]; exact t.shardOk
  · rw [httl, hkw, hstore]
    intro sh i x h
    rcases t.current sh i x h with h1 | h1
    · left
      rw [AMap.get?_set]
      split
      · rename_i hi; subst hi; rw [hg] at h1; cases h1
      · exact h1
    · exact Or.inr h1
  · rw [httl, hstore, hcfg]; exact t.indexedU
  · rw [httl]; exact t.oneShard
  · rw [httl, hnext]; exact t.idsBelow
  · rw [hkw, hstore]
    obtain ⟨h1, h2⟩ := t.heldW
    constructor
    · intro k e he
      obtain ⟨wk', hw', hk'⟩ := h1 k e he
      rw [AMap.get?_set]
      split
      · rename_i hi
        rw [← hi, hg] at hw'
        simp only [Option.some.injEq] at hw'
        subst hw'
        exact ⟨_, rfl, hk'⟩
      · exact ⟨wk', hw', hk'⟩
    · intro i wk' e hw' he
      rw [AMap.get?_set] at hw'
      split at hw'
      · rename_i hi
        simp only [Option.some.injEq] at hw'
        subst hw'; subst hi
        exact h2 id wk e hg he
      · exact h2 i wk' e hw' he
  · rw [httl]; intro sh i x h hm; exact t.notPending sh i x h (hpend i hm)

theorem ttlinv_workerUpdateWeight {s s0 : State} (t : TtlInv s0) (e1 : s.adm = s0.adm) (e2 : s.store = s0.store)
    (e3 : s.ttl = s0.ttl) (e4 : s.cfg = s0.cfg) (e5 : s.nextId = s0.nextId)
    (hle : PLe (pendingCmds s) (pendingCmds s0)) (id : Nat) (w : Int) : TtlInv (workerUpdateWeight s id w).kill := by
  have hsub : ∀ i ∈ pendingIds s, i ∈ pendingIds s0 := fun i hi => mem_ids_of_PLe hle hi
  unfold workerUpdateWeight
  split
  · exact t.frame (frame_of_ple e3 e2 e1 e4 e5 hle)
  · rename_i wk hg
    dsimp only
    split
    · refine t.frame (frame_of_ple e3 e2 e1 e4 e5 ?_)
      simp only [pendingCmds, Exec.kill, List.map_nil, List.nil_append]
      exact PLe.trans (PLe.right _ _) hle
    · simp only [Exec.kill]
      rw [e1] at hg
      exact t.reweigh hg w (by simp only [e1]) e2 e3 e4 e5 hsub

theorem ttlinv_workerDelete {s s0 : State} (t : TtlInv s0) (e1 : s.adm = s0.adm) (e2 : s.store = s0.store)
    (e3 : s.ttl = s0.ttl) (e4 : s.cfg = s0.cfg) (e5 : s.nextId = s0.nextId)
    (hle : PLe (pendingCmds s) (pendingCmds s0)) (k : Nat) : TtlInv (workerDelete s k).kill := by
  have t' : TtlInv s := t.frame (frame_of_ple e3 e2 e1 e4 e5 hle)
  unfold workerDelete
  split
  · exact t'
  · rename_i e he
    dsimp only
    obtain ⟨wk, hg, hkey⟩ := t'.charged he
    rw [Adm.delete_some hg]
    dsimp only
    have t2 : TtlInv { s with store := s.store.del k,
                              stats := { s.stats with keysDeleted := s.stats.keysDeleted + 1 },
                              adm := { s.adm with kw := s.adm.kw.del e.id, used := s.adm.used - wk.weight } } :=
      t'.uncharge hg rfl (by rw [hkey]) rfl rfl rfl rfl
    cases hx : e.expiry with
    | none =>
      dsimp only [Exec.kill]
      exact t2.frame (frame_of_ple rfl rfl rfl rfl rfl (PLe.refl _))
    | some x =>
      dsimp only [Exec.kill, ttlDelete]
      refine t2.dropStale (AMap.noDup_del t'.noDup _) ?_ ?_ rfl rfl rfl rfl rfl
      · intro a b h
        rw [AMap.get?_del] at h
        split at h
        · cases h
        · exact h
      · intro sh i y h hnone
        rw [AMap.get?_del] at hnone
        split at hnone
        · rename_i heq
          simp only [Prod.mk.injEq] at heq
          rw [← heq.2]
          exact AMap.get?_del_same _ _
        · rw [hnone] at h; cases h

/-! ### one step of the worker -/

theorem ttlinv_workerStep {s s' : State} {o o' : Oracle} {out : Out} (h : Inv s) (t : TtlInv s)
    (hs : workerStep s o = .ok (s', out, o')) : TtlInv s' := by
  unfold workerStep at hs
  split at hs
  · cases hs
  · cases hs
  · rename_i c hh q hw hq
    simp only [Except.ok.injEq, Prod.mk.injEq] at hs
    obtain ⟨rfl, _, _⟩ := hs
    refine t.frame (frame_of_ple rfl rfl rfl rfl rfl ?_)
    simp only [pendingCmds_eq, hq, List.map_cons, List.cons_append]
    exact PLe.tail _ _
  · rename_i cmd hh q hw hq
    obtain ⟨hc, hp⟩ := inv_pop h hq
    have hpos := hp.pos _ (List.mem_cons_self)
    have hpc : pendingCmds s = cmd :: pendingCmds { s with queue := q } := by
      simp only [pendingCmds_eq, hq, List.map_cons, List.cons_append]
    have hle : PLe (pendingCmds { s with queue := q }) (pendingCmds s) := by rw [hpc]; exact PLe.tail _ _
    have t0 : TtlInv { s with queue := q } := t.frame (frame_of_ple rfl rfl rfl rfl rfl hle)
    have hnd : s.worker ≠ .dead := by rw [hw]; intro hd; cases hd
    dsimp only at hs
    split at hs
    · -- shutdown
      simp only [Except.ok.injEq, Prod.mk.injEq] at hs
      obtain ⟨rfl, _, _⟩ := hs
      exact t.frame (frame_of_ple rfl rfl rfl rfl rfl hle)
    · -- put
      rename_i id hash w k v
      split at hs
      · rename_i r hr
        obtain ⟨ex, o1⟩ := r
        have hno : ∀ sh x, s.ttl.get? (sh, id) ≠ some x := by
          intro sh x hg
          refine t.notPending sh id x hg ?_
          show id ∈ ids (pendingCmds s)
          rw [hpc, ids_cons, ids_single_of_some (id := id) rfl]
          simp
        have hk := ttlinv_workerPut hc hp rfl hpos hnd t0 hno hr
        cases ex with
        | done s1 st ie pp ev =>
          simp only [Except.ok.injEq, Prod.mk.injEq] at hs
          obtain ⟨rfl, _, _⟩ := hs
          exact hk.frame (frame_of_ple rfl rfl rfl rfl rfl (PLe.refl _))
        | panicked s1 p =>
          simp only [Except.ok.injEq, Prod.mk.injEq] at hs
          obtain ⟨rfl, _, _⟩ := hs
          exact hk
      · cases hs
    · -- putTtl
      rename_i id hash w k v ttl
      split at hs
      · rename_i r hr
        obtain ⟨ex, o1⟩ := r
        have hno : ∀ sh x, s.ttl.get? (sh, id) ≠ some x := by
          intro sh x hg
          refine t.notPending sh id x hg ?_
          show id ∈ ids (pendingCmds s)
          rw [hpc, ids_cons, ids_single_of_some (id := id) rfl]
          simp
        have hk := ttlinv_workerPut hc hp rfl hpos hnd t0 hno hr
        cases ex with
        | done s1 st ie pp ev =>
          simp only [Except.ok.injEq, Prod.mk.injEq] at hs
          obtain ⟨rfl, _, _⟩ := hs
          exact hk.frame (frame_of_ple rfl rfl rfl rfl rfl (PLe.refl _))
        | panicked s1 p =>
          simp only [Except.ok.injEq, Prod.mk.injEq] at hs
          obtain ⟨rfl, _, _⟩ := hs
          exact hk
      · cases hs
    · -- updateWeight
      rename_i id w
      have hk := ttlinv_workerUpdateWeight (s := { s with queue := q }) t rfl rfl rfl rfl rfl hle id w
      split at hs
      · rename_i s1 st ie pp ev o1 heq
        simp only [Prod.mk.injEq] at heq
        simp only [Except.ok.injEq, Prod.mk.injEq] at hs
        obtain ⟨rfl, _, _⟩ := hs
        rw [heq.1] at hk
        exact hk.frame (frame_of_ple rfl rfl rfl rfl rfl (PLe.refl _))
      · rename_i s1 p o1 heq
        simp only [Prod.mk.injEq] at heq
        simp only [Except.ok.injEq, Prod.mk.injEq] at hs
        obtain ⟨rfl, _, _⟩ := hs
        rw [heq.1] at hk
        exact hk
    · -- delete
      rename_i k
      have hk := ttlinv_workerDelete (s := { s with queue := q }) t rfl rfl rfl rfl rfl hle k
      split at hs
      · rename_i s1 st ie pp ev o1 heq
        simp only [Prod.mk.injEq] at heq
        simp only [Except.ok.injEq, Prod.mk.injEq] at hs
        obtain ⟨rfl, _, _⟩ := hs
        rw [heq.1] at hk
        exact hk.frame (frame_of_ple rfl rfl rfl rfl rfl (PLe.refl _))
      · rename_i s1 p o1 heq
        simp only [Prod.mk.injEq] at heq
        simp only [Except.ok.injEq, Prod.mk.injEq] at hs
        obtain ⟨rfl, _, _⟩ := hs
        rw [heq.1] at hk
        exact hk

/-! ### initial state, every event, every reachable state -/

theorem ttlinv_init (cfg : Cfg) (now : Nat) (seeds : List Nat) : TtlInv (State.init cfg now seeds) := by
  refine ⟨AMap.noDup_nil, ?_, ?_, ?_, ?_, ?_, HeldW.nil, ?_⟩
  · intro sh id x h; simp [State.init] at h
  · intro sh id x h; simp [State.init] at h
  · intro k e x h; simp [State.init] at h
  · intro sh sh' id x x' h; simp [State.init] at h
  · intro sh id x h; simp [State.init] at h
  · intro sh id x h; simp [State.init] at h

/-- **Every event preserves the invariant of the expiry index.** -/
theorem ttlinv_step {s s' : State} {ev : Ev} {o o' : Oracle} {out : Out} (h : Inv s) (t : TtlInv s)
    (hs : step s ev o = .ok (s', out, o')) : TtlInv s' := by
  unfold step at hs
  cases ev with
  | put c k v =>
    simp only [Except.ok.injEq, Prod.mk.injEq] at hs; obtain ⟨rfl, _, _⟩ := hs
    exact t.frame (frame_clientPut s c k v)
  | putW c k v w =>
    simp only [Except.ok.injEq, Prod.mk.injEq] at hs; obtain ⟨rfl, _, _⟩ := hs
    exact t.frame (frame_clientPutW s c k v w)
  | putTtl c k v tt =>
    simp only [Except.ok.injEq, Prod.mk.injEq] at hs; obtain ⟨rfl, _, _⟩ := hs
    exact t.frame (frame_clientPutTtl s c k v tt)
  | putWTtl c k v w tt =>
    simp only [Except.ok.injEq, Prod.mk.injEq] at hs; obtain ⟨rfl, _, _⟩ := hs
    exact t.frame (frame_clientPutWTtl s c k v w tt)
  | upsert c k v w tt rm =>
    simp only [Except.ok.injEq, Prod.mk.injEq] at hs; obtain ⟨rfl, _, _⟩ := hs
    exact ttlinv_clientUpsert h t c k v w tt rm
  | delete c k =>
    simp only [Except.ok.injEq, Prod.mk.injEq] at hs; obtain ⟨rfl, _, _⟩ := hs
    exact ttlinv_clientDelete h t c k
  | get k => exact t.frame (frame_clientGet hs)
  | multiGet ks => exact t.frame (frame_clientMultiGet hs)
  | weight => simp only [Except.ok.injEq, Prod.mk.injEq] at hs; obtain ⟨rfl, _, _⟩ := hs; exact t
  | stats => simp only [Except.ok.injEq, Prod.mk.injEq] at hs; obtain ⟨rfl, _, _⟩ := hs; exact t
  | worker => exact ttlinv_workerStep h t hs
  | sweep =>
    dsimp only at hs
    split at hs
    · rename_i r hr
      simp only [Except.ok.injEq, Prod.mk.injEq] at hs; obtain ⟨rfl, _, _⟩ := hs
      exact ttlinv_sweepStep t (out := r.2) hr
    · cases hs
  | consumer => exact t.frame (frame_consumerStep hs)
  | advance d =>
    simp only [Except.ok.injEq, Prod.mk.injEq] at hs; obtain ⟨rfl, _, _⟩ := hs
    exact t.frame ⟨rfl, rfl, rfl, rfl, Nat.le_refl _, fun _ h => Or.inl h⟩
  | shutdown c =>
    simp only [Except.ok.injEq, Prod.mk.injEq] at hs; obtain ⟨rfl, _, _⟩ := hs
    exact ttlinv_clientShutdown t c
  | resume c =>
    dsimp only at hs
    split at hs
    · rename_i r hr
      simp only [Except.ok.injEq, Prod.mk.injEq] at hs; obtain ⟨rfl, _, _⟩ := hs
      exact ttlinv_resume t (out := r.2) hr
    · cases hs
  | poll hh =>
    dsimp only at hs
    split at hs
    · simp only [Except.ok.injEq, Prod.mk.injEq] at hs; obtain ⟨rfl, _, _⟩ := hs; exact t
    · cases hs

theorem ttlinv_reach {cfg : Cfg} {now : Nat} {seeds : List Nat} {s : State} (h : Reach cfg now seeds s) : TtlInv s := by
  induction h with
  | init => exact ttlinv_init cfg now seeds
  | step hr hs ih => exact ttlinv_step (inv_reach hr) ih hs

/-! ### how one key's entry and the pending ids evolve in one event (for C04) -/

/-- How the entry of key `k` may change in one event: not at all; it disappears; it is rewritten in place (same id,
    a set soft-delete flag stays set); or the key was absent and gets a fresh entry whose id was pending. -/
def KeyEvo (s s' : State) (k : Nat) : Prop :=
  s'.store.get? k = s.store.get? k ∨ s'.store.get? k = none ∨
  (∃ e e', s.store.get? k = some e ∧ s'.store.get? k = some e' ∧ e'.id = e.id ∧ (e.soft = true → e'.soft = true)) ∨
  (s.store.get? k = none ∧ ∃ e', s'.store.get? k = some e' ∧ e'.id ∈ pendingIds s ∧ e'.soft = false)

structure Evo (s s' : State) (k : Nat) : Prop where
  nextId : s.nextId ≤ s'.nextId
  pend : ∀ id ∈ pendingIds s', id ∈ pendingIds s ∨ s.nextId ≤ id
  key : KeyEvo s s' k

theorem Evo.of_frame {s s' : State} (f : Frame s s') (k : Nat) : Evo s s' k :=
  ⟨f.nextId, f.pend, Or.inl (by rw [f.store])⟩

theorem Evo.right {s m s' : State} {k : Nat} (e : Evo s m k) (hstore : s'.store = m.store)
    (hn : m.nextId ≤ s'.nextId) (hp : ∀ id ∈ pendingIds s', id ∈ pendingIds m ∨ m.nextId ≤ id) : Evo s s' k := by
  refine ⟨Nat.le_trans e.nextId hn, ?_, ?_⟩
  · intro id hm
    rcases hp id hm with h | h
    · exact e.pend id h
    · exact Or.inr (Nat.le_trans e.nextId h)
  · unfold KeyEvo
    rw [hstore]
    exact e.key

theorem Evo.frame_right {s m s' : State} {k : Nat} (e : Evo s m k) (f : Frame m s') : Evo s s' k :=
  e.right f.store f.nextId f.pend

/-- the tail of `shutdown()`: the store is emptied -/
theorem evo_shutdownFinish {s m : State} (f : Frame s m) (k : Nat) : Evo s (shutdownFinish m) k :=
  ⟨f.nextId, f.pend, Or.inr (Or.inl rfl)⟩

theorem evo_shutdownSendBuf {s m : State} (f : Frame s m) (c k : Nat) : Evo s (shutdownSendBuf m c).1 k := by
  unfold shutdownSendBuf
  split
  · exact evo_shutdownFinish f k
  · split
    · refine Evo.of_frame (f.trans (frame_of_ple (s := m) (s' := { m with pend := m.pend.set c .shutdownBuf })
        rfl rfl rfl rfl rfl ?_)) k
      simp only [pendingCmds_eq, pendCmds_set_shutdownBuf]
      exact PLe.append (PLe.refl _) (PLe_pendCmds_del _ _)
    · exact evo_shutdownFinish (m := { m with bufq := m.bufq ++ [.shutdown] })
        (f.trans (frame_of_ple rfl rfl rfl rfl rfl (PLe.refl _))) k

theorem evo_shutdownSendCmd {s m : State} (f : Frame s m) (c k : Nat) : Evo s (shutdownSendCmd m c).1 k := by
  unfold shutdownSendCmd
  split
  · exact evo_shutdownSendBuf f c k
  · split
    · refine Evo.of_frame (f.trans (frame_of_ple (s := m) (s' := { m with pend := m.pend.set c .shutdownCmd })
        rfl rfl rfl rfl rfl ?_)) k
      simp only [pendingCmds_eq, pendCmds_set_shutdownCmd]
      exact PLe.append (PLe.refl _) (PLe_pendCmds_del _ _)
    · refine evo_shutdownSendBuf (f.trans ?_) c k
      refine ⟨rfl, rfl, rfl, rfl, Nat.le_refl _, ?_⟩
      intro id hm
      have hle : PLe (pendingCmds { m with queue := m.queue ++ [(Cmd.shutdown, none)] }) (Cmd.shutdown :: pendingCmds m) := by
        simp only [pendingCmds_eq, List.map_append, List.map_cons, List.map_nil]
        exact PLe.snoc_mid _ _ _
      rcases mem_ids_cons (mem_ids_of_PLe hle hm) with h | h
      · cases h
      · exact Or.inl h

theorem evo_clientShutdown (s : State) (c k : Nat) : Evo s (clientShutdown s c).1 k := by
  unfold clientShutdown
  split
  · exact Evo.of_frame (Frame.refl _) k
  · have f : Frame s { s with shutting := true } := ⟨rfl, rfl, rfl, rfl, Nat.le_refl _, fun _ h => Or.inl h⟩
    exact evo_shutdownSendCmd f c k

theorem evo_resume {s s' : State} {out : Out} {c : Nat} (hr : resume s c = .ok (s', out)) (k : Nat) : Evo s s' k := by
  unfold resume at hr
  split at hr
  · cases hr
  · rename_i p hg
    have f0 : Frame s { s with pend := s.pend.del c } := by
      refine frame_of_ple rfl rfl rfl rfl rfl ?_
      simp only [pendingCmds_eq]
      exact PLe.append (PLe.refl _) (PLe_pendCmds_del _ _)
    dsimp only at hr
    split at hr
    · rename_i cmd
      split at hr
      · cases hr
      · simp only [Except.ok.injEq] at hr
        have e : s' = (sendCmd { s with pend := s.pend.del c } c cmd).1 := by rw [hr]
        rw [e]
        obtain ⟨e1, e2, e3, e4, e5, _, _⟩ := sendCmd_fields { s with pend := s.pend.del c } c cmd
        refine Evo.of_frame (frame_of_ple (s := s) e1 e2 e3 e4 e5 ?_) k
        refine PLe.trans (ple_sendCmd _ c cmd) ?_
        simp only [pendingCmds_eq]
        exact PLe.trans (PLe.mid' _ _ _) (PLe.append (PLe.refl _) (PLe_pendCmds_del_get hg))
    · split at hr
      · cases hr
      · simp only [Except.ok.injEq] at hr
        have e : s' = (shutdownSendCmd { s with pend := s.pend.del c } c).1 := by rw [hr]
        rw [e]
        exact evo_shutdownSendCmd f0 c k
    · split at hr
      · cases hr
      · simp only [Except.ok.injEq] at hr
        have e : s' = (shutdownSendBuf { s with pend := s.pend.del c } c).1 := by rw [hr]
        rw [e]
        exact evo_shutdownSendBuf f0 c k

/-- rewriting the entry of `k0` in place -/
theorem evo_touch (s : State) {k0 : Nat} {e e' : Entry} (hg : s.store.get? k0 = some e) (hid : e'.id = e.id)
    (hsoft : e.soft = true → e'.soft = true) (k : Nat) : Evo s { s with store := s.store.set k0 e' } k := by
  refine ⟨Nat.le_refl _, fun _ h => Or.inl h, ?_⟩
  by_cases hk : k0 = k
  · subst hk
    exact Or.inr (Or.inr (Or.inl ⟨e, e', hg, by simp, hid, hsoft⟩))
  · exact Or.inl (AMap.get?_set_other _ _ hk)

theorem evo_clientDelete (s : State) (c k0 k : Nat) : Evo s (clientDelete s c k0).1 k := by
  unfold clientDelete
  split
  · exact Evo.of_frame (Frame.refl _) k
  · dsimp only
    split
    · rename_i e hg
      exact (evo_touch s hg (e' := { e with soft := true }) rfl (fun _ => rfl) k).frame_right
        (frame_sendCmd (Frame.refl _) c _ (by intro id hh; cases hh))
    · exact Evo.of_frame (frame_sendCmd (Frame.refl _) c _ (by intro id hh; cases hh)) k

theorem frame_upsert_tail (s2 : State) (uw2 : Option Int) (c id : Nat) :
    Frame s2 (match uw2 with
          | some weight =>
            if (!inI64 weight) = true then (s2, Out.panic Panic.weightOverflow)
            else
              if weight ≤ 0 then (s2, Out.panic Panic.weightNotPositive)
              else sendCmd s2 c (Cmd.updateWeight id weight)
          | none => spotAck s2 Status.accepted).1 := by
  split
  · split
    · exact Frame.refl _
    · split
      · exact Frame.refl _
      · exact frame_sendCmd (Frame.refl _) c _ (by intro i hh; cases hh)
  · exact frame_spotAck _ _

theorem evo_clientUpsert (s : State) (c k0 : Nat) (v : Option Nat) (w : Option Int) (ttl : Option Nat) (rm : Bool)
    (k : Nat) : Evo s (clientUpsert s c k0 v w ttl rm).1 k := by
  unfold clientUpsert
  split
  · exact Evo.of_frame (Frame.refl _) k
  · extract_lets uw
    clear_value uw
    split
    · split
      · split
        · exact Evo.of_frame (Frame.refl _) k
        · split
          · exact Evo.of_frame (frame_sendCmd (frame_bump s) c _
              (by intro id hh; simp only [Cmd.putId?, Option.some.injEq] at hh; omega)) k
          · exact Evo.of_frame (frame_sendCmd (frame_bump s) c _
              (by intro id hh; simp only [Cmd.putId?, Option.some.injEq] at hh; omega)) k
      · exact Evo.of_frame (Frame.refl _) k
    · rename_i e hg
      extract_lets newExp
      clear_value newExp
      split
      · exact Evo.of_frame (Frame.refl _) k
      · rename_i ne
        extract_lets e' s1 existing
        clear_value existing
        have ev1 : Evo s s1 k := evo_touch s hg (e' := e') rfl (fun h => h) k
        split
        rename_i s2 uw2 hpair
        refine Evo.frame_right ?_ (frame_upsert_tail s2 uw2 c _)
        split at hpair <;> cases hpair
        · exact ev1.right rfl (Nat.le_refl _) (fun _ h => Or.inl h)
        · exact ev1.right rfl (Nat.le_refl _) (fun _ h => Or.inl h)
        · exact ev1.right rfl (Nat.le_refl _) (fun _ h => Or.inl h)
        · exact ev1

theorem keyEvo_delKeys {s s' : State} {k : Nat} {ks : List Nat} (h : s'.store = AMap.delKeys s.store ks) :
    KeyEvo s s' k := by
  unfold KeyEvo
  rw [h, AMap.get?_delKeys]
  by_cases hk : k ∈ ks
  · exact Or.inr (Or.inl (by simp [hk]))
  · exact Or.inl (by simp [hk])

theorem keyEvo_del {s s' : State} {k k0 : Nat} (h : s'.store = s.store.del k0) : KeyEvo s s' k :=
  keyEvo_delKeys (ks := [k0]) (by rw [h]; rfl)

/-- the shapes of the store after the worker executed a put -/
theorem workerPut_shape {s : State} {id hash : Nat} {w : Int} {k v : Nat} {ttl : Option Nat} {o o' : Oracle}
    {ex : Exec} (h : workerPut s id hash w k v ttl o = .ok (ex, o')) :
    ex.kill.nextId = s.nextId ∧ PLe (pendingCmds ex.kill) (pendingCmds s) ∧
    (ex.kill.store = s.store ∨
     (s.store.get? k = none ∧ ∃ evKeys, ex.kill.store = AMap.delKeys s.store evKeys ∨
        ∃ entry : Entry, entry.id = id ∧ entry.soft = false ∧
          ex.kill.store = (AMap.delKeys s.store evKeys).set k entry)) := by
  unfold workerPut at h
  split at h
  · simp only [Except.ok.injEq, Prod.mk.injEq] at h
    obtain ⟨rfl, _⟩ := h
    exact ⟨rfl, PLe.refl _, Or.inl rfl⟩
  · rename_i hcont
    have hk : s.store.get? k = none := by
      simp only [AMap.contains] at hcont
      cases hg : s.store.get? k with
      | none => rfl
      | some x => simp [hg] at hcont
    split at h
    · cases h
    · rename_i r hm
      obtain ⟨f1, f2, f3, f4, f5, f6, f7⟩ := foldl_applyEvict r.evicted { s with adm := r.adm }
      have hple : PLe (pendingCmds (r.evicted.foldl applyEvict { s with adm := r.adm })) (pendingCmds s) := by
        simp only [pendingCmds, f6, f7]; exact PLe.refl _
      dsimp only at h
      split at h
      · simp only [Except.ok.injEq, Prod.mk.injEq] at h
        obtain ⟨rfl, _⟩ := h
        refine ⟨f3, ?_, Or.inr ⟨hk, r.evicted.map (·.2.1), Or.inl (by simp only [Exec.kill, f1])⟩⟩
        simp only [pendingCmds, Exec.kill, f7, List.map_nil, List.nil_append]
        exact PLe.right _ _
      split at h
      · split at h
        · simp only [Except.ok.injEq, Prod.mk.injEq] at h
          obtain ⟨rfl, _⟩ := h
          refine ⟨f3, hple, Or.inr ⟨hk, r.evicted.map (·.2.1), Or.inr ⟨{ value := v, id := id, expiry := none, soft := false }, rfl, rfl, ?_⟩⟩⟩
          simp only [Exec.kill, f1]
        · split at h
          · simp only [Except.ok.injEq, Prod.mk.injEq] at h
            obtain ⟨rfl, _⟩ := h
            refine ⟨f3, ?_, Or.inr ⟨hk, r.evicted.map (·.2.1), Or.inl (by simp only [Exec.kill, f1])⟩⟩
            simp only [pendingCmds, Exec.kill, f7, List.map_nil, List.nil_append]
            exact PLe.right _ _
          · rename_i e _
            simp only [Except.ok.injEq, Prod.mk.injEq] at h
            obtain ⟨rfl, _⟩ := h
            refine ⟨f3, hple, Or.inr ⟨hk, r.evicted.map (·.2.1), Or.inr ⟨{ value := v, id := id, expiry := some e, soft := false }, rfl, rfl, ?_⟩⟩⟩
            simp only [Exec.kill, ttlPut, f1]
      · simp only [Except.ok.injEq, Prod.mk.injEq] at h
        obtain ⟨rfl, _⟩ := h
        exact ⟨f3, hple, Or.inr ⟨hk, r.evicted.map (·.2.1), Or.inl (by simp only [Exec.kill, f1])⟩⟩

theorem workerUpdateWeight_shape (s : State) (id : Nat) (w : Int) :
    (workerUpdateWeight s id w).kill.nextId = s.nextId ∧
    PLe (pendingCmds (workerUpdateWeight s id w).kill) (pendingCmds s) ∧
    (workerUpdateWeight s id w).kill.store = s.store := by
  unfold workerUpdateWeight
  split
  · exact ⟨rfl, PLe.refl _, rfl⟩
  · dsimp only
    split
    · refine ⟨rfl, ?_, rfl⟩
      simp only [pendingCmds, Exec.kill, List.map_nil, List.nil_append]
      exact PLe.right _ _
    · exact ⟨rfl, PLe.refl _, rfl⟩

theorem workerDelete_shape (s : State) (k : Nat) :
    (workerDelete s k).kill.nextId = s.nextId ∧ pendingCmds (workerDelete s k).kill = pendingCmds s ∧
    ((workerDelete s k).kill.store = s.store ∨ (workerDelete s k).kill.store = s.store.del k) := by
  unfold workerDelete
  split
  · exact ⟨rfl, rfl, Or.inl rfl⟩
  · rename_i e he
    dsimp only
    cases hg : s.adm.kw.get? e.id with
    | none =>
      rw [Adm.delete_none hg]
      dsimp only
      cases e.expiry <;> exact ⟨rfl, rfl, Or.inr rfl⟩
    | some wk =>
      rw [Adm.delete_some hg]
      dsimp only
      cases e.expiry <;> exact ⟨rfl, rfl, Or.inr rfl⟩

theorem evo_workerStep {s s' : State} {o o' : Oracle} {out : Out} (hs : workerStep s o = .ok (s', out, o')) (k : Nat) :
    Evo s s' k := by
  unfold workerStep at hs
  split at hs
  · cases hs
  · cases hs
  · rename_i c hh q hw hq
    simp only [Except.ok.injEq, Prod.mk.injEq] at hs
    obtain ⟨rfl, _, _⟩ := hs
    refine Evo.of_frame ?_ k
    refine frame_of_ple rfl rfl rfl rfl rfl ?_
    simp only [pendingCmds_eq, hq, List.map_cons, List.cons_append]
    exact PLe.tail _ _
  · rename_i cmd hh q hw hq
    have hpc : pendingCmds s = cmd :: pendingCmds { s with queue := q } := by
      simp only [pendingCmds_eq, hq, List.map_cons, List.cons_append]
    have hle : PLe (pendingCmds { s with queue := q }) (pendingCmds s) := by rw [hpc]; exact PLe.tail _ _
    have mk : ∀ {s1 : State}, s1.nextId = s.nextId → PLe (pendingCmds s1) (pendingCmds { s with queue := q }) →
        KeyEvo s s1 k → Evo s s1 k := by
      intro s1 h1 h2 h3
      exact ⟨Nat.le_of_eq h1.symm, fun id hm => Or.inl (mem_ids_of_PLe (PLe.trans h2 hle) hm), h3⟩
    have putCase : ∀ {id hash : Nat} {w : Int} {k0 v : Nat} {ttl : Option Nat} {ex : Exec} {o1 : Oracle},
        cmd.putId? = some id → workerPut { s with queue := q } id hash w k0 v ttl o = .ok (ex, o1) →
        Evo s ex.kill k := by
      intro id hash w k0 v ttl ex o1 hcid hr
      obtain ⟨a1, a2, a3⟩ := workerPut_shape hr
      refine mk a1 a2 ?_
      rcases a3 with a3 | ⟨hk0, evKeys, a3 | ⟨entry, hent, hsoft, a3⟩⟩
      · exact Or.inl (by rw [a3])
      · exact keyEvo_delKeys a3
      · by_cases hk : k0 = k
        · subst hk
          refine Or.inr (Or.inr (Or.inr ⟨hk0, entry, by rw [a3]; simp, ?_, hsoft⟩))
          show entry.id ∈ ids (pendingCmds s)
          rw [hent, hpc, ids_cons, ids_single_of_some hcid]
          simp
        · have : KeyEvo s { s with store := AMap.delKeys s.store evKeys } k := keyEvo_delKeys rfl
          unfold KeyEvo at this ⊢
          rw [a3, AMap.get?_set_other _ _ hk]
          exact this
    dsimp only at hs
    split at hs
    · -- shutdown
      simp only [Except.ok.injEq, Prod.mk.injEq] at hs
      obtain ⟨rfl, _, _⟩ := hs
      refine Evo.of_frame ?_ k
      exact frame_of_ple rfl rfl rfl rfl rfl hle
    · -- put
      split at hs
      · rename_i r hr
        obtain ⟨ex, o1⟩ := r
        have hk := putCase rfl hr
        cases ex with
        | done s1 st ie pp ev =>
          simp only [Except.ok.injEq, Prod.mk.injEq] at hs
          obtain ⟨rfl, _, _⟩ := hs
          exact hk.right rfl (Nat.le_refl _) (fun _ h => Or.inl h)
        | panicked s1 p =>
          simp only [Except.ok.injEq, Prod.mk.injEq] at hs
          obtain ⟨rfl, _, _⟩ := hs
          exact hk
      · cases hs
    · -- putTtl
      split at hs
      · rename_i r hr
        obtain ⟨ex, o1⟩ := r
        have hk := putCase rfl hr
        cases ex with
        | done s1 st ie pp ev =>
          simp only [Except.ok.injEq, Prod.mk.injEq] at hs
          obtain ⟨rfl, _, _⟩ := hs
          exact hk.right rfl (Nat.le_refl _) (fun _ h => Or.inl h)
        | panicked s1 p =>
          simp only [Except.ok.injEq, Prod.mk.injEq] at hs
          obtain ⟨rfl, _, _⟩ := hs
          exact hk
      · cases hs
    · -- updateWeight
      rename_i id w
      obtain ⟨a1, a2, a3⟩ := workerUpdateWeight_shape { s with queue := q } id w
      have hk : Evo s (workerUpdateWeight { s with queue := q } id w).kill k := mk a1 a2 (Or.inl (by rw [a3]))
      split at hs
      · rename_i s1 st ie pp ev o1 heq
        simp only [Prod.mk.injEq] at heq
        simp only [Except.ok.injEq, Prod.mk.injEq] at hs
        obtain ⟨rfl, _, _⟩ := hs
        rw [heq.1] at hk
        exact hk.right rfl (Nat.le_refl _) (fun _ h => Or.inl h)
      · rename_i s1 p o1 heq
        simp only [Prod.mk.injEq] at heq
        simp only [Except.ok.injEq, Prod.mk.injEq] at hs
        obtain ⟨rfl, _, _⟩ := hs
        rw [heq.1] at hk
        exact hk
    · -- delete
      rename_i k0
      obtain ⟨a1, a2, a3⟩ := workerDelete_shape { s with queue := q } k0
      have hk : Evo s (workerDelete { s with queue := q } k0).kill k := by
        refine mk a1 (by rw [a2]; exact PLe.refl _) ?_
        rcases a3 with a3 | a3
        · exact Or.inl (by rw [a3])
        · exact keyEvo_del a3
      split at hs
      · rename_i s1 st ie pp ev o1 heq
        simp only [Prod.mk.injEq] at heq
        simp only [Except.ok.injEq, Prod.mk.injEq] at hs
        obtain ⟨rfl, _, _⟩ := hs
        rw [heq.1] at hk
        exact hk.right rfl (Nat.le_refl _) (fun _ h => Or.inl h)
      · rename_i s1 p o1 heq
        simp only [Prod.mk.injEq] at heq
        simp only [Except.ok.injEq, Prod.mk.injEq] at hs
        obtain ⟨rfl, _, _⟩ := hs
        rw [heq.1] at hk
        exact hk

theorem evo_sweepStep {s s' : State} {out : Out} (hs : sweepStep s = .ok (s', out)) (k : Nat) : Evo s s' k := by
  obtain ⟨ev, rfl⟩ := sweepStep_out hs
  obtain ⟨_, _, rfl⟩ := sweepStep_eq hs
  obtain ⟨evNew, _, sp⟩ := sweepEntries_spec (s.ttl.filter (due s)) s []
  obtain ⟨ks, _, hks⟩ := sp.storeSub
  refine ⟨Nat.le_of_eq sp.nextId.symm, ?_, keyEvo_delKeys hks⟩
  intro id hm
  left
  have : pendingIds (sweepEntries s (s.ttl.filter (due s)) []).1 = pendingIds s := pendingIds_congr sp.queue sp.pend
  rw [← this]
  exact hm

/-- **One event, one key**: `nextId` only grows, a put that is pending afterwards was pending before or carries
    a new id, and the key's entry changes in one of the four ways of `KeyEvo`. -/
theorem evo_step {s s' : State} {ev : Ev} {o o' : Oracle} {out : Out} (hs : step s ev o = .ok (s', out, o'))
    (k : Nat) : Evo s s' k := by
  unfold step at hs
  cases ev with
  | put c k0 v =>
    simp only [Except.ok.injEq, Prod.mk.injEq] at hs; obtain ⟨rfl, _, _⟩ := hs
    exact Evo.of_frame (frame_clientPut s c k0 v) k
  | putW c k0 v w =>
    simp only [Except.ok.injEq, Prod.mk.injEq] at hs; obtain ⟨rfl, _, _⟩ := hs
    exact Evo.of_frame (frame_clientPutW s c k0 v w) k
  | putTtl c k0 v tt =>
    simp only [Except.ok.injEq, Prod.mk.injEq] at hs; obtain ⟨rfl, _, _⟩ := hs
    exact Evo.of_frame (frame_clientPutTtl s c k0 v tt) k
  | putWTtl c k0 v w tt =>
    simp only [Except.ok.injEq, Prod.mk.injEq] at hs; obtain ⟨rfl, _, _⟩ := hs
    exact Evo.of_frame (frame_clientPutWTtl s c k0 v w tt) k
  | upsert c k0 v w tt rm =>
    simp only [Except.ok.injEq, Prod.mk.injEq] at hs; obtain ⟨rfl, _, _⟩ := hs
    exact evo_clientUpsert s c k0 v w tt rm k
  | delete c k0 =>
    simp only [Except.ok.injEq, Prod.mk.injEq] at hs; obtain ⟨rfl, _, _⟩ := hs
    exact evo_clientDelete s c k0 k
  | get k0 => exact Evo.of_frame (frame_clientGet hs) k
  | multiGet ks => exact Evo.of_frame (frame_clientMultiGet hs) k
  | weight =>
    simp only [Except.ok.injEq, Prod.mk.injEq] at hs; obtain ⟨rfl, _, _⟩ := hs; exact Evo.of_frame (Frame.refl _) k
  | stats =>
    simp only [Except.ok.injEq, Prod.mk.injEq] at hs; obtain ⟨rfl, _, _⟩ := hs; exact Evo.of_frame (Frame.refl _) k
  | worker => exact evo_workerStep hs k
  | sweep =>
    dsimp only at hs
    split at hs
    · rename_i r hr
      simp only [Except.ok.injEq, Prod.mk.injEq] at hs; obtain ⟨rfl, _, _⟩ := hs
      exact evo_sweepStep (out := r.2) hr k
    · cases hs
  | consumer => exact Evo.of_frame (frame_consumerStep hs) k
  | advance d =>
    simp only [Except.ok.injEq, Prod.mk.injEq] at hs; obtain ⟨rfl, _, _⟩ := hs
    refine Evo.of_frame ?_ k
    exact ⟨rfl, rfl, rfl, rfl, Nat.le_refl _, fun _ h => Or.inl h⟩
  | shutdown c =>
    simp only [Except.ok.injEq, Prod.mk.injEq] at hs; obtain ⟨rfl, _, _⟩ := hs
    exact evo_clientShutdown s c k
  | resume c =>
    dsimp only at hs
    split at hs
    · rename_i r hr
      simp only [Except.ok.injEq, Prod.mk.injEq] at hs; obtain ⟨rfl, _, _⟩ := hs
      exact evo_resume (out := r.2) hr k
    · cases hs
  | poll hh =>
    dsimp only at hs
    split at hs
    · simp only [Except.ok.injEq, Prod.mk.injEq] at hs; obtain ⟨rfl, _, _⟩ := hs
      exact Evo.of_frame (Frame.refl _) k
    · cases hs

/-- a sweep whose due entries are all stale evicts nothing and changes nothing (before the index is filtered) -/
theorem sweepEntries_all_stale : ∀ (l : List ((Nat × Nat) × Nat)) (s : State) (acc : List Evicted),
    (∀ p ∈ l, s.adm.kw.get? p.1.2 = none) → sweepEntries s l acc = (s, acc.reverse) := by
  intro l
  induction l with
  | nil => intro s acc _; rfl
  | cons p rest ih =>
    intro s acc h
    obtain ⟨⟨sh, id⟩, x⟩ := p
    simp only [sweepEntries]
    rw [sweepEvict_none (h ((sh, id), x) List.mem_cons_self)]
    exact ih s acc (fun p hp => h p (List.mem_cons_of_mem _ hp))

/-- One sweep in terms of `SweepSpec`: the state before the index is filtered is `s1`. -/
theorem sweepStep_spec {s s' : State} {ev : List Evicted} (hs : sweepStep s = .ok (s', .swept ev)) :
    ∃ s1, SweepSpec s (s.ttl.filter (due s)) s1 ev ∧ s'.store = s1.store ∧ s'.adm = s1.adm ∧
      s'.ttl = s.ttl.filter (fun p => !due s p) ∧ s'.now = s.now ∧ s'.cfg = s.cfg := by
  obtain ⟨_, hev, rfl⟩ := sweepStep_eq hs
  obtain ⟨evNew, he, sp⟩ := sweepEntries_spec (s.ttl.filter (due s)) s []
  simp only [List.reverse_nil, List.nil_append] at he
  rw [← he] at sp
  rw [← hev] at sp
  exact ⟨_, sp, rfl, rfl, by simp only [sp.ttl], sp.now, sp.cfg⟩

/-- the ids of the due entries -/
theorem mem_dueIds {s : State} (hn : AMap.NoDup s.ttl) (i : Nat) :
    i ∈ (s.ttl.filter (due s)).map (·.1.2) ↔ ∃ sh x, s.ttl.get? (sh, i) = some x ∧ due s ((sh, i), x) = true := by
  constructor
  · intro h
    obtain ⟨p, hp, hi⟩ := List.mem_map.mp h
    obtain ⟨⟨sh, j⟩, x⟩ := p
    simp only at hi
    subst hi
    obtain ⟨h1, h2⟩ := List.mem_filter.mp hp
    exact ⟨sh, x, AMap.get?_of_mem hn h1, h2⟩
  · intro ⟨sh, x, h1, h2⟩
    exact List.mem_map.mpr ⟨((sh, i), x), List.mem_filter.mpr ⟨AMap.mem_of_get? h1, h2⟩, rfl⟩

/-! ### a soft-deleted incarnation along a history (for C04) -/

/-- what is carried along a history: the id is below `nextId`, not the id of a pending put, and an entry of `k`
    with that id is flagged -/
def Buried (i k : Nat) (s : State) : Prop :=
  i < s.nextId ∧ i ∉ pendingIds s ∧ ∀ e', s.store.get? k = some e' → e'.id = i → e'.soft = true

theorem buried_step {i k : Nat} {s s' : State} {ev : Ev} {o o' : Oracle} {out : Out}
    (hs : step s ev o = .ok (s', out, o')) (b : Buried i k s) : Buried i k s' := by
  obtain ⟨b1, b2, b3⟩ := b
  have evo := evo_step hs k
  refine ⟨Nat.lt_of_lt_of_le b1 evo.nextId, ?_, ?_⟩
  · intro hm
    rcases evo.pend i hm with h | h
    · exact b2 h
    · omega
  · intro e' he' hid
    rcases evo.key with h | h | ⟨e0, e1, h0, h1, h2, h3⟩ | ⟨h0, e1, h1, h2, _⟩
    · rw [h] at he'; exact b3 e' he' hid
    · rw [h] at he'; cases he'
    · rw [h1] at he'
      simp only [Option.some.injEq] at he'
      subst he'
      exact h3 (b3 e0 h0 (h2.symm.trans hid))
    · rw [h1] at he'
      simp only [Option.some.injEq] at he'
      subst he'
      rw [hid] at h2
      exact absurd h2 b2

theorem buried_run {i k : Nat} : ∀ (l : List (Ev × Oracle)) {s s' : State}, Buried i k s →
    runEvents s l = .ok s' → Buried i k s' := by
  intro l
  induction l with
  | nil => intro s s' b hr; simp only [runEvents, Except.ok.injEq] at hr; subst hr; exact b
  | cons x l ih =>
    intro s s' b hr
    obtain ⟨ev, o⟩ := x
    simp only [runEvents] at hr
    split at hr
    · rename_i s1 out o1 hs
      exact ih (buried_step hs b) hr
    · cases hr

end Cached
