/-
  The invariant `TtlInv` of the expiry index `s.ttl` (the TTL ticker's shards) of the Layer A state machine
  (CachedModel/State.lean), its preservation by every event (`ttlinv_step`, `ttlinv_reach`), and an exact
  description of what one sweep does (`sweepEntries_spec`).  Behind C10 and C04.

  Beside the six conjuncts about the index proper the invariant carries two auxiliary ones that make it
  inductive WITHOUT any assumption on the worker being alive:
    * `heldW`  — the part of `Inv.held` that survives a worker panic (`HeldW`): every stored entry is charged under
      its own key, and a charged id whose key is stored is the id of that stored entry;
    * `notPending` — no index entry carries the id of a put that is still on its way to the worker.
-/
import CachedProofs.Lemmas.Inv

namespace Cached

/-! ### association lists: `filter` -/

namespace AMap
variable {α β : Type} [DecidableEq α]

theorem get?_filter {m : AMap α β} (hn : NoDup m) (p : α × β → Bool) (a : α) :
    get? (m.filter p) a = match get? m a with
      | some b => if p (a, b) then some b else none
      | none => none := by
  induction m with
  | nil => rfl
  | cons x rest ih =>
    obtain ⟨k, v⟩ := x
    simp only [NoDup, List.map_cons, List.nodup_cons] at hn
    have ih' := ih hn.2
    by_cases hk : k = a
    · subst hk
      have hnone : get? rest k = none := get?_eq_none_iff.mpr hn.1
      cases hp : p (k, v) with
      | true => simp [hp, get?_cons]
      | false =>
        simp only [List.filter_cons, hp, get?_cons, if_true, Bool.false_eq_true, if_false]
        rw [ih', hnone]
    · cases hp : p (k, v) with
      | true =>
        simp only [List.filter_cons, hp, if_true, get?_cons, hk, if_false]
        exact ih'
      | false =>
        simp only [List.filter_cons, hp, get?_cons, hk, Bool.false_eq_true, if_false]
        exact ih'

omit [DecidableEq α] in
theorem noDup_filter {m : AMap α β} (hn : NoDup m) (p : α × β → Bool) : NoDup (m.filter p) := by
  unfold NoDup at *
  exact (List.filter_sublist.map Prod.fst).nodup hn

theorem get?_filter_some {m : AMap α β} (hn : NoDup m) {p : α × β → Bool} {a : α} {b : β}
    (h : get? (m.filter p) a = some b) : get? m a = some b ∧ p (a, b) = true := by
  rw [get?_filter hn] at h
  split at h
  · rename_i b' hb
    split at h
    · rename_i hp
      simp only [Option.some.injEq] at h
      subst h
      exact ⟨hb, hp⟩
    · cases h
  · cases h

theorem get?_filter_of {m : AMap α β} (hn : NoDup m) {p : α × β → Bool} {a : α} {b : β}
    (h : get? m a = some b) (hp : p (a, b) = true) : get? (m.filter p) a = some b := by
  rw [get?_filter hn, h]
  simp [hp]

end AMap

/-! ### the part of `Inv.held` that survives a worker panic -/

/-- Every stored entry is charged under its own key; a charged id whose key is stored is the id of the stored
    entry.  (`HeldP` without "every charged id has its key stored", which a worker panic between admission and
    the store insert breaks.) -/
def HeldW (kw : AMap Nat WKey) (st : AMap Nat Entry) : Prop :=
  (∀ k e, st.get? k = some e → ∃ wk, kw.get? e.id = some wk ∧ wk.key = k) ∧
  (∀ id wk e, kw.get? id = some wk → st.get? wk.key = some e → e.id = id)

theorem HeldP.weak {kw : AMap Nat WKey} {st : AMap Nat Entry} (h : HeldP kw st) : HeldW kw st :=
  ⟨h.1, fun id wk e hw he => by
    obtain ⟨e0, he0, hid⟩ := h.2 id wk hw
    rw [he] at he0
    simp only [Option.some.injEq] at he0
    subst he0; exact hid⟩

theorem heldW_of_inv {s : State} (h : Inv s) (hw : s.worker ≠ .dead) : HeldW s.adm.kw s.store := by
  rcases h.held with hd | hh
  · exact absurd hd hw
  · exact HeldP.weak hh

theorem HeldW.nil : HeldW [] [] :=
  ⟨fun k e h => by simp at h, fun id wk e h => by simp at h⟩

/-- stored ids are pairwise different -/
theorem HeldW.unique {kw : AMap Nat WKey} {st : AMap Nat Entry} (h : HeldW kw st) {k1 k2 : Nat} {e1 e2 : Entry}
    (h1 : st.get? k1 = some e1) (h2 : st.get? k2 = some e2) (hid : e1.id = e2.id) : k1 = k2 ∧ e1 = e2 := by
  obtain ⟨w1, hw1, hk1⟩ := h.1 k1 e1 h1
  obtain ⟨w2, hw2, hk2⟩ := h.1 k2 e2 h2
  rw [hid, hw2] at hw1
  simp only [Option.some.injEq] at hw1
  subst hw1
  have hk : k1 = k2 := by rw [← hk1, ← hk2]
  subst hk
  rw [h1] at h2
  simp only [Option.some.injEq] at h2
  exact ⟨rfl, h2⟩

theorem HeldW.touch {kw : AMap Nat WKey} {st : AMap Nat Entry} (h : HeldW kw st) {k : Nat} {e e' : Entry}
    (hg : st.get? k = some e) (hid : e'.id = e.id) : HeldW kw (st.set k e') := by
  obtain ⟨h1, h2⟩ := h
  constructor
  · intro k' x hx
    rw [AMap.get?_set] at hx
    split at hx
    · rename_i hk; subst hk
      simp only [Option.some.injEq] at hx; subst hx
      rw [hid]; exact h1 k e hg
    · exact h1 k' x hx
  · intro id wk x hw hx
    rw [AMap.get?_set] at hx
    split at hx
    · rename_i hk
      simp only [Option.some.injEq] at hx; subst hx
      rw [hid]
      exact h2 id wk e hw (by rw [← hk]; exact hg)
    · exact h2 id wk x hw hx

theorem HeldW.remove {kw : AMap Nat WKey} {st : AMap Nat Entry} (h : HeldW kw st) {id : Nat} {wk : WKey}
    (hg : kw.get? id = some wk) : HeldW (kw.del id) (st.del wk.key) := by
  obtain ⟨h1, h2⟩ := h
  constructor
  · intro k e he
    rw [AMap.get?_del] at he
    split at he
    · cases he
    · rename_i hk
      obtain ⟨wk', hw', hk'⟩ := h1 k e he
      refine ⟨wk', ?_, hk'⟩
      rw [AMap.get?_del]
      split
      · rename_i hi
        rw [← hi, hg] at hw'
        simp only [Option.some.injEq] at hw'
        subst hw'
        exact absurd hk' hk
      · exact hw'
  · intro i wk' e hw' he
    rw [AMap.get?_del] at hw'
    split at hw'
    · cases hw'
    · rw [AMap.get?_del] at he
      split at he
      · cases he
      · exact h2 i wk' e hw' he

/-! ### the invariant of the expiry index -/

/-- The invariant of the expiry index `s.ttl` ((shard, id) ↦ expiry). -/
structure TtlInv (s : State) : Prop where
  noDup : AMap.NoDup s.ttl
  /-- an entry sits in the shard of its expiry -/
  shardOk : ∀ sh id x, s.ttl.get? (sh, id) = some x → sh = shardOf s.cfg x
  /-- an index entry is either stale (its id is no longer charged) or describes the CURRENT expiry of the entry
      with that id -/
  current : ∀ sh id x, s.ttl.get? (sh, id) = some x →
    s.adm.kw.get? id = none ∨ ∃ k e, s.store.get? k = some e ∧ e.id = id ∧ e.expiry = some x
  /-- every stored entry with a deadline is indexed under that deadline's shard -/
  indexedU : ∀ k e x, s.store.get? k = some e → e.expiry = some x → s.ttl.get? (shardOf s.cfg x, e.id) = some x
  /-- at most one index entry per id -/
  oneShard : ∀ sh sh' id x x', s.ttl.get? (sh, id) = some x → s.ttl.get? (sh', id) = some x' → sh = sh'
  idsBelow : ∀ sh id x, s.ttl.get? (sh, id) = some x → id < s.nextId
  /-- stored entries are charged under their key (holds also after a worker panic, unlike `Inv.held`) -/
  heldW : HeldW s.adm.kw s.store
  /-- the id of a put that has not been executed yet is not in the index -/
  notPending : ∀ sh id x, s.ttl.get? (sh, id) = some x → id ∉ pendingIds s

/-- every stored entry is charged, under its own key (whatever the worker's state) -/
theorem TtlInv.charged {s : State} (t : TtlInv s) {k : Nat} {e : Entry} (h : s.store.get? k = some e) :
    ∃ wk, s.adm.kw.get? e.id = some wk ∧ wk.key = k := t.heldW.1 k e h

/-- The conjunct in the form it was asked for (the unconditional `indexedU` is stronger). -/
theorem TtlInv.indexed {s : State} (t : TtlInv s) :
    s.worker = .dead ∨ ∀ k e x, s.store.get? k = some e → e.expiry = some x → (s.adm.kw.get? e.id).isSome →
      s.ttl.get? (shardOf s.cfg x, e.id) = some x :=
  Or.inr (fun k e x h1 h2 _ => t.indexedU k e x h1 h2)

/-- The index entries of a stored id: exactly one for its current deadline, none if it has none. -/
theorem TtlInv.sync {s : State} (t : TtlInv s) {k : Nat} {e : Entry} (h : s.store.get? k = some e) (sh x : Nat) :
    s.ttl.get? (sh, e.id) = some x ↔ e.expiry = some x ∧ sh = shardOf s.cfg x := by
  constructor
  · intro hg
    obtain ⟨wk, hw, _⟩ := t.charged h
    rcases t.current sh e.id x hg with hn | ⟨k', e', he', hid, hx⟩
    · rw [hn] at hw; cases hw
    · obtain ⟨_, heq⟩ := t.heldW.unique he' h hid
      subst heq
      exact ⟨hx, t.shardOk sh _ x hg⟩
  · intro ⟨hx, hsh⟩
    subst hsh
    exact t.indexedU k e x h hx

/-! ### events that leave the index, the store and the weights alone -/

/-- `s'` agrees with `s` on the index, the store, the weights and the configuration; ids may have been handed out
    and commands issued (only with fresh ids), executed or dropped. -/
structure Frame (s s' : State) : Prop where
  ttl : s'.ttl = s.ttl
  store : s'.store = s.store
  adm : s'.adm = s.adm
  cfg : s'.cfg = s.cfg
  nextId : s.nextId ≤ s'.nextId
  pend : ∀ id ∈ pendingIds s', id ∈ pendingIds s ∨ s.nextId ≤ id

theorem Frame.refl (s : State) : Frame s s := ⟨rfl, rfl, rfl, rfl, Nat.le_refl _, fun _ h => Or.inl h⟩

theorem Frame.trans {s s' s'' : State} (h1 : Frame s s') (h2 : Frame s' s'') : Frame s s'' := by
  refine ⟨h2.ttl.trans h1.ttl, h2.store.trans h1.store, h2.adm.trans h1.adm, h2.cfg.trans h1.cfg,
    Nat.le_trans h1.nextId h2.nextId, ?_⟩
  intro id hid
  rcases h2.pend id hid with h | h
  · exact h1.pend id h
  · exact Or.inr (Nat.le_trans h1.nextId h)

theorem TtlInv.frame {s s' : State} (t : TtlInv s) (f : Frame s s') : TtlInv s' := by
  obtain ⟨f1, f2, f3, f4, f5, f6⟩ := f
  refine ⟨?_, ?_, ?_, ?_, ?_, ?_, ?_, ?_⟩
  · rw [f1]; exact t.noDup
  · rw [f1, f4]; exact t.shardOk
  · rw [f1, f2, f3]; exact t.current
  · rw [f1, f2, f4]; exact t.indexedU
  · rw [f1]; exact t.oneShard
  · rw [f1]; intro sh id x h; exact Nat.lt_of_lt_of_le (t.idsBelow sh id x h) f5
  · rw [f2, f3]; exact t.heldW
  · rw [f1]; intro sh id x h hm
    rcases f6 id hm with h' | h'
    · exact t.notPending sh id x h h'
    · have := t.idsBelow sh id x h
      omega

theorem mem_ids_cons {c : Cmd} {P : List Cmd} {id : Nat} (h : id ∈ ids (c :: P)) : c.putId? = some id ∨ id ∈ ids P := by
  rw [ids_cons] at h
  rcases List.mem_append.mp h with h | h
  · left
    cases hc : c.putId? with
    | none => rw [ids_single_of_none hc] at h; cases h
    | some j =>
      rw [ids_single_of_some hc] at h
      simp only [List.mem_singleton] at h
      rw [h]
  · exact Or.inr h

theorem frame_of_ple {s s' : State} (e1 : s'.ttl = s.ttl) (e2 : s'.store = s.store) (e3 : s'.adm = s.adm)
    (e4 : s'.cfg = s.cfg) (e5 : s'.nextId = s.nextId) (hle : PLe (pendingCmds s') (pendingCmds s)) : Frame s s' :=
  ⟨e1, e2, e3, e4, Nat.le_of_eq e5.symm, fun _ h => Or.inl (mem_ids_of_PLe hle h)⟩

theorem ple_sendCmd (s : State) (c : Nat) (cmd : Cmd) : PLe (pendingCmds (sendCmd s c cmd).1) (cmd :: pendingCmds s) := by
  unfold sendCmd
  split
  · exact PLe.tail _ _
  · split
    · simp only [pendingCmds_eq, pendCmds_set_send]
      exact PLe.trans (PLe.mid _ _ _) (PLe.cons _ (PLe.append (PLe.refl _) (PLe_pendCmds_del _ _)))
    · simp only [pendingCmds_eq, List.map_append, List.map_cons, List.map_nil]
      exact PLe.snoc_mid _ _ _

/-- `sendCmd` touches only the queue, the parked calls and the acknowledgements -/
theorem sendCmd_fields (s : State) (c : Nat) (cmd : Cmd) :
    (sendCmd s c cmd).1.ttl = s.ttl ∧ (sendCmd s c cmd).1.store = s.store ∧ (sendCmd s c cmd).1.adm = s.adm ∧
    (sendCmd s c cmd).1.cfg = s.cfg ∧ (sendCmd s c cmd).1.nextId = s.nextId ∧
    (sendCmd s c cmd).1.worker = s.worker ∧ (sendCmd s c cmd).1.now = s.now := by
  unfold sendCmd
  split
  · exact ⟨rfl, rfl, rfl, rfl, rfl, rfl, rfl⟩
  · split <;> exact ⟨rfl, rfl, rfl, rfl, rfl, rfl, rfl⟩

theorem frame_sendCmd {s0 s : State} (h : Frame s0 s) (c : Nat) (cmd : Cmd)
    (hid : ∀ id, cmd.putId? = some id → s0.nextId ≤ id) : Frame s0 (sendCmd s c cmd).1 := by
  obtain ⟨e1, e2, e3, e4, e5, _, _⟩ := sendCmd_fields s c cmd
  refine ⟨e1.trans h.ttl, e2.trans h.store, e3.trans h.adm, e4.trans h.cfg, by rw [e5]; exact h.nextId, ?_⟩
  intro id hm
  have hm' : id ∈ ids (cmd :: pendingCmds s) := mem_ids_of_PLe (ple_sendCmd s c cmd) hm
  rcases mem_ids_cons hm' with h1 | h1
  · exact Or.inr (hid id h1)
  · exact h.pend id h1

theorem frame_spotAck (s : State) (st : Status) : Frame s (spotAck s st).1 :=
  ⟨rfl, rfl, rfl, rfl, Nat.le_refl _, fun _ h => Or.inl h⟩

theorem frame_bump (s : State) : Frame s { s with nextId := s.nextId + 1 } :=
  ⟨rfl, rfl, rfl, rfl, Nat.le_succ _, fun _ h => Or.inl h⟩

/-! ### client calls that only issue a command -/

theorem frame_clientPutChecked (s : State) (c k v : Nat) (w : Int) (ttl : Option Nat) :
    Frame s (clientPutChecked s c k v w ttl).1 := by
  unfold clientPutChecked
  split
  · exact frame_spotAck s _
  · cases ttl with
    | none =>
      exact frame_sendCmd (frame_bump s) c _ (by intro id h; simp only [Cmd.putId?, Option.some.injEq] at h; omega)
    | some t =>
      exact frame_sendCmd (frame_bump s) c _ (by intro id h; simp only [Cmd.putId?, Option.some.injEq] at h; omega)

theorem frame_clientPut (s : State) (c k v : Nat) : Frame s (clientPut s c k v).1 := by
  unfold clientPut
  dsimp only
  split
  · exact Frame.refl _
  · split
    · exact Frame.refl _
    · exact frame_clientPutChecked _ _ _ _ _ _

theorem frame_clientPutW (s : State) (c k v : Nat) (w : Int) : Frame s (clientPutW s c k v w).1 := by
  unfold clientPutW
  split
  · exact Frame.refl _
  · split
    · exact Frame.refl _
    · exact frame_clientPutChecked _ _ _ _ _ _

theorem frame_clientPutTtl (s : State) (c k v t : Nat) : Frame s (clientPutTtl s c k v t).1 := by
  unfold clientPutTtl
  split
  · exact Frame.refl _
  · dsimp only
    split
    · exact Frame.refl _
    · exact frame_clientPutChecked _ _ _ _ _ _

theorem frame_clientPutWTtl (s : State) (c k v : Nat) (w : Int) (t : Nat) :
    Frame s (clientPutWTtl s c k v w t).1 := by
  unfold clientPutWTtl
  split
  · exact Frame.refl _
  · split
    · exact Frame.refl _
    · exact frame_clientPutChecked _ _ _ _ _ _

/-! ### reads and the access consumer -/

theorem frame_of_same {s s' : State} (h : Same s s') (ht : s'.ttl = s.ttl) : Frame s s' :=
  frame_of_ple ht h.store h.adm h.cfg h.nextId (by rw [h.pendingCmds]; exact PLe.refl _)

theorem acceptBuffer_ttl (s : State) (hs : List Nat) : (acceptBuffer s hs).ttl = s.ttl := by
  unfold acceptBuffer
  split <;> rfl

theorem poolAdd_ttl {s s' : State} {h : Nat} {o o' : Oracle} (hp : poolAdd s h o = .ok (s', o')) : s'.ttl = s.ttl := by
  unfold poolAdd at hp
  split at hp
  · cases hp
  · split at hp
    · cases hp
    · rename_i buf _
      simp only [Except.ok.injEq, Prod.mk.injEq] at hp
      obtain ⟨hp, _⟩ := hp
      subst hp
      by_cases hb : buf.length ≥ s.cfg.bufSize
      · simp only [hb, if_true]
        exact acceptBuffer_ttl s buf
      · simp only [hb, if_false]

theorem readKey_ttl {s s' : State} {k : Nat} {o o' : Oracle} {v : Option Nat}
    (hr : readKey s k o = .ok (s', v, o')) : s'.ttl = s.ttl := by
  unfold readKey at hr
  split at hr
  · split at hr
    · dsimp only at hr
      split at hr
      · rename_i s2 o2 hp
        simp only [Except.ok.injEq, Prod.mk.injEq] at hr
        obtain ⟨rfl, _, _⟩ := hr
        exact (poolAdd_ttl hp).trans rfl
      · cases hr
    · simp only [Except.ok.injEq, Prod.mk.injEq] at hr
      obtain ⟨rfl, _, _⟩ := hr
      rfl
  · simp only [Except.ok.injEq, Prod.mk.injEq] at hr
    obtain ⟨rfl, _, _⟩ := hr
    rfl

theorem readKeys_ttl : ∀ (ks : List Nat) (s s' : State) (o o' : Oracle) (acc vs : List (Option Nat)),
    readKeys s ks o acc = .ok (s', vs, o') → s'.ttl = s.ttl := by
  intro ks
  induction ks with
  | nil =>
    intro s s' o o' acc vs hr
    simp only [readKeys, Except.ok.injEq, Prod.mk.injEq] at hr
    obtain ⟨rfl, _, _⟩ := hr
    rfl
  | cons k ks ih =>
    intro s s' o o' acc vs hr
    simp only [readKeys] at hr
    split at hr
    · rename_i s1 v o1 hk
      exact (ih _ _ _ _ _ _ hr).trans (readKey_ttl hk)
    · cases hr

theorem frame_clientGet {s s' : State} {k : Nat} {o o' : Oracle} {out : Out}
    (hr : clientGet s k o = .ok (s', out, o')) : Frame s s' := by
  refine frame_of_same (same_clientGet hr) ?_
  unfold clientGet at hr
  split at hr
  · simp only [Except.ok.injEq, Prod.mk.injEq] at hr
    obtain ⟨rfl, _, _⟩ := hr
    rfl
  · split at hr
    · rename_i s1 v o1 hk
      simp only [Except.ok.injEq, Prod.mk.injEq] at hr
      obtain ⟨rfl, _, _⟩ := hr
      exact readKey_ttl hk
    · cases hr

theorem frame_clientMultiGet {s s' : State} {ks : List Nat} {o o' : Oracle} {out : Out}
    (hr : clientMultiGet s ks o = .ok (s', out, o')) : Frame s s' := by
  refine frame_of_same (same_clientMultiGet hr) ?_
  unfold clientMultiGet at hr
  split at hr
  · simp only [Except.ok.injEq, Prod.mk.injEq] at hr
    obtain ⟨rfl, _, _⟩ := hr
    rfl
  · split at hr
    · rename_i s1 v o1 hk
      simp only [Except.ok.injEq, Prod.mk.injEq] at hr
      obtain ⟨rfl, _, _⟩ := hr
      exact readKeys_ttl _ _ _ _ _ _ _ hk
    · cases hr

theorem frame_consumerStep {s s' : State} {o o' : Oracle} {out : Out}
    (hr : consumerStep s o = .ok (s', out, o')) : Frame s s' := by
  refine frame_of_same (same_consumerStep hr) ?_
  unfold consumerStep at hr
  split at hr
  · cases hr
  · split at hr
    · cases hr
    · simp only [Except.ok.injEq, Prod.mk.injEq] at hr
      obtain ⟨rfl, _, _⟩ := hr
      rfl
    · split at hr
      · cases hr
      · split at hr
        · simp only [Except.ok.injEq, Prod.mk.injEq] at hr
          obtain ⟨rfl, _, _⟩ := hr
          rfl
        · simp only [Except.ok.injEq, Prod.mk.injEq] at hr
          obtain ⟨rfl, _, _⟩ := hr
          rfl

/-! ### shutdown and resume -/

/-- `shutdownFinish` empties the index, the store and the weights: the invariant holds trivially afterwards -/
theorem ttlinv_shutdownFinish (s : State) : TtlInv (shutdownFinish s) := by
  refine ⟨AMap.noDup_nil, ?_, ?_, ?_, ?_, ?_, HeldW.nil, ?_⟩
  · intro sh id x h; simp [shutdownFinish] at h
  · intro sh id x h; simp [shutdownFinish] at h
  · intro k e x h; simp [shutdownFinish] at h
  · intro sh sh' id x x' h; simp [shutdownFinish] at h
  · intro sh id x h; simp [shutdownFinish] at h
  · intro sh id x h; simp [shutdownFinish] at h

theorem ttlinv_shutdownSendBuf {s : State} (t : TtlInv s) (c : Nat) : TtlInv (shutdownSendBuf s c).1 := by
  unfold shutdownSendBuf
  split
  · exact ttlinv_shutdownFinish _
  · split
    · refine t.frame (frame_of_ple rfl rfl rfl rfl rfl ?_)
      simp only [pendingCmds_eq, pendCmds_set_shutdownBuf]
      exact PLe.append (PLe.refl _) (PLe_pendCmds_del _ _)
    · exact ttlinv_shutdownFinish _

theorem ttlinv_shutdownSendCmd {s : State} (t : TtlInv s) (c : Nat) : TtlInv (shutdownSendCmd s c).1 := by
  unfold shutdownSendCmd
  split
  · exact ttlinv_shutdownSendBuf t c
  · split
    · refine t.frame (frame_of_ple rfl rfl rfl rfl rfl ?_)
      simp only [pendingCmds_eq, pendCmds_set_shutdownCmd]
      exact PLe.append (PLe.refl _) (PLe_pendCmds_del _ _)
    · refine ttlinv_shutdownSendBuf (t.frame ?_) c
      refine ⟨rfl, rfl, rfl, rfl, Nat.le_refl _, ?_⟩
      intro id hm
      have hle : PLe (pendingCmds { s with queue := s.queue ++ [(Cmd.shutdown, none)] }) (Cmd.shutdown :: pendingCmds s) := by
        simp only [pendingCmds_eq, List.map_append, List.map_cons, List.map_nil]
        exact PLe.snoc_mid _ _ _
      rcases mem_ids_cons (mem_ids_of_PLe hle hm) with h | h
      · cases h
      · exact Or.inl h

theorem ttlinv_clientShutdown {s : State} (t : TtlInv s) (c : Nat) : TtlInv (clientShutdown s c).1 := by
  unfold clientShutdown
  split
  · exact t
  · exact ttlinv_shutdownSendCmd (s := { s with shutting := true })
      (t.frame ⟨rfl, rfl, rfl, rfl, Nat.le_refl _, fun _ h => Or.inl h⟩) c

theorem ttlinv_resume {s s' : State} {out : Out} (t : TtlInv s) {c : Nat} (hr : resume s c = .ok (s', out)) :
    TtlInv s' := by
  unfold resume at hr
  split at hr
  · cases hr
  · rename_i p hg
    have f0 : Frame s { s with pend := s.pend.del c } := by
      refine frame_of_ple rfl rfl rfl rfl rfl ?_
      simp only [pendingCmds_eq]
      exact PLe.append (PLe.refl _) (PLe_pendCmds_del _ _)
    dsimp only at hr
    split at hr
    · rename_i cmd
      split at hr
      · cases hr
      · simp only [Except.ok.injEq] at hr
        have e : s' = (sendCmd { s with pend := s.pend.del c } c cmd).1 := by rw [hr]
        rw [e]
        obtain ⟨e1, e2, e3, e4, e5, _, _⟩ := sendCmd_fields { s with pend := s.pend.del c } c cmd
        refine t.frame (frame_of_ple e1 e2 e3 e4 e5 ?_)
        refine PLe.trans (ple_sendCmd _ c cmd) ?_
        simp only [pendingCmds_eq]
        exact PLe.trans (PLe.mid' _ _ _) (PLe.append (PLe.refl _) (PLe_pendCmds_del_get hg))
    · split at hr
      · cases hr
      · simp only [Except.ok.injEq] at hr
        have e : s' = (shutdownSendCmd { s with pend := s.pend.del c } c).1 := by rw [hr]
        rw [e]
        exact ttlinv_shutdownSendCmd (t.frame f0) c
    · split at hr
      · cases hr
      · simp only [Except.ok.injEq] at hr
        have e : s' = (shutdownSendBuf { s with pend := s.pend.del c } c).1 := by rw [hr]
        rw [e]
        exact ttlinv_shutdownSendBuf (t.frame f0) c

end Cached
