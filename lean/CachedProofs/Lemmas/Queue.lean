/-
  The command queue and the acknowledgement list of Layer A (CachedModel/State.lean):
  the inductive invariant `QInv` (handles in the queue strictly increase, are exactly the unanswered ones, the
  queue and the buffer channel respect their capacities, the worker drains only after `shutdown()` set the flag),
  its preservation by every event (`qinv_step`), reachability (`QReach`, `qinv_reach`), and the
  per-event specifications (`workerStep_qspec`, `QClientShape`, `QSame`) that C11 and C13 are read off from.
-/
import CachedModel.State
import CachedProofs.Lemmas.AMap
import CachedProofs.Lemmas.EvictId

namespace Cached

/-! ### definitions -/

/-- acknowledgement handles of the queued commands, head first -/
def queueHandles (s : State) : List Nat := s.queue.filterMap (·.2)

/-- what a parked call may be: a `send` never carries `Shutdown`; the two sends of `shutdown()` are
    reached only after the flag is set -/
def Pending.qok (shutting : Bool) : Pending → Prop
  | .send cmd => cmd ≠ .shutdown
  | .shutdownCmd => shutting = true
  | .shutdownBuf => shutting = true

structure QInv (s : State) : Prop where
  /-- handles in the queue strictly increase from head to tail -/
  sorted : (queueHandles s).Pairwise (· < ·)
  inRange : ∀ h ∈ queueHandles s, h < s.acks.length
  queuedPending : ∀ h ∈ queueHandles s, s.acks[h]? = some .pending
  /-- every unanswered handle is still queued -/
  pendingQueued : s.worker ≠ .dead → ∀ h, s.acks[h]? = some .pending → h ∈ queueHandles s
  bounded : s.queue.length ≤ s.cfg.cmdCap
  bufBounded : s.bufq.length ≤ s.cfg.bufChanCap
  flagSticky : s.worker = .draining → s.shutting = true
  /-- (added, needed for `flagSticky`) a queued `Shutdown` command was sent by `shutdown()`, after the flag -/
  shutdownQueued : ∀ x ∈ s.queue, x.1 = .shutdown → s.shutting = true
  /-- (added, needed for `shutdownQueued`) -/
  parkedOk : ∀ c p, s.pend.get? c = some p → p.qok s.shutting

/-- `s'` differs from `s` in nothing the queue invariant reads, except that readers may have handed
    further full buffers to the (bounded, non-blocking) buffer channel. -/
structure QSame (s s' : State) : Prop where
  queue : s'.queue = s.queue
  acks : s'.acks = s.acks
  worker : s'.worker = s.worker
  cfg : s'.cfg = s.cfg
  shutting : s'.shutting = s.shutting
  pend : s'.pend = s.pend
  bufq : s.bufq.length ≤ s.cfg.bufChanCap → s'.bufq.length ≤ s.cfg.bufChanCap

theorem QSame.refl (s : State) : QSame s s := ⟨rfl, rfl, rfl, rfl, rfl, rfl, id⟩

theorem QSame.trans {s t u : State} (h1 : QSame s t) (h2 : QSame t u) : QSame s u :=
  ⟨h2.queue.trans h1.queue, h2.acks.trans h1.acks, h2.worker.trans h1.worker, h2.cfg.trans h1.cfg,
   h2.shutting.trans h1.shutting, h2.pend.trans h1.pend,
   fun h => by have := h2.bufq (by rw [h1.cfg]; exact h1.bufq h); rwa [h1.cfg] at this⟩

/-- built from definitional equalities (structure updates of other fields) -/
theorem QSame.of_eq {s s' : State} (h1 : s'.queue = s.queue) (h2 : s'.acks = s.acks) (h3 : s'.worker = s.worker)
    (h4 : s'.cfg = s.cfg) (h5 : s'.shutting = s.shutting) (h6 : s'.pend = s.pend) (h7 : s'.bufq = s.bufq) :
    QSame s s' := ⟨h1, h2, h3, h4, h5, h6, fun h => by rw [h7]; exact h⟩

theorem queueHandles_of_same {s s' : State} (h : QSame s s') : queueHandles s' = queueHandles s := by
  simp only [queueHandles, h.queue]

theorem QInv.same {s s' : State} (h : QInv s) (e : QSame s s') : QInv s' := by
  have eh := queueHandles_of_same e
  refine ⟨?_, ?_, ?_, ?_, ?_, ?_, ?_, ?_, ?_⟩
  · rw [eh]; exact h.sorted
  · rw [eh, e.acks]; exact h.inRange
  · rw [eh, e.acks]; exact h.queuedPending
  · rw [eh, e.acks, e.worker]; exact h.pendingQueued
  · rw [e.queue, e.cfg]; exact h.bounded
  · rw [e.cfg]; exact e.bufq h.bufBounded
  · rw [e.worker, e.shutting]; exact h.flagSticky
  · rw [e.queue, e.shutting]; exact h.shutdownQueued
  · rw [e.pend, e.shutting]; exact h.parkedOk

/-! ### the worker's helpers do not touch the queue, the acknowledgements, the flags -/

theorem qsame_applyEvict (s : State) (e : Evicted) : QSame s (applyEvict s e) := by
  unfold applyEvict
  obtain ⟨a, key, w⟩ := e
  dsimp only
  split <;> exact QSame.of_eq rfl rfl rfl rfl rfl rfl rfl

theorem qsame_applyEvictId (s : State) (e : Evicted) : QSame s (applyEvictId s e) := by
  rw [applyEvictId_eq]
  split
  · exact qsame_applyEvict s e
  · exact QSame.of_eq rfl rfl rfl rfl rfl rfl rfl

theorem qsame_foldl_applyEvict (l : List Evicted) (s : State) : QSame s (l.foldl applyEvict s) := by
  induction l generalizing s with
  | nil => exact QSame.refl s
  | cons e l ih => exact (qsame_applyEvict s e).trans (ih _)

theorem qsame_ttlPut (s : State) (id e : Nat) : QSame s (ttlPut s id e) := QSame.of_eq rfl rfl rfl rfl rfl rfl rfl
theorem qsame_ttlDelete (s : State) (id e : Nat) : QSame s (ttlDelete s id e) := QSame.of_eq rfl rfl rfl rfl rfl rfl rfl
theorem qsame_ttlUpdate (s : State) (id e e' : Nat) : QSame s (ttlUpdate s id e e') :=
  QSame.of_eq rfl rfl rfl rfl rfl rfl rfl

/-- the state inside an `Exec` -/
def Exec.qstate : Exec → State
  | .done s _ _ _ _ => s
  | .panicked s _ => s

/-- the status of a completed command is a real outcome -/
def Exec.qanswered : Exec → Prop
  | .done _ st _ _ _ => st ≠ .pending
  | .panicked _ _ => True

/-! #### admission never answers `pending` (`overflow`: the worker panicked in `is_space_available_for` and answers nothing) -/

theorem createLoop_status_ne_pending {t : TinyLFU} {size : Nat} {w : Int} {incEst : Nat} :
    ∀ (fuel : Nat) (a : Adm) (sample : List SKey) (o : Oracle) (ev : List Evicted) (pp : List SKey) (r : LoopResult),
      createLoop t size w incEst fuel a sample o ev pp = .ok r → r.overflow = false → r.status ≠ .pending := by
  intro fuel
  induction fuel with
  | zero => intro a sample o ev pp r h; simp [createLoop] at h
  | succ fuel ih =>
    intro a sample o ev pp r h hov
    unfold createLoop at h
    split at h
    · simp only [Except.ok.injEq] at h; subst h; simp
    · split at h
      · cases h
      · split at h
        · cases h
        · simp only [Except.ok.injEq] at h; subst h; simp
      · split at h
        · cases h
        · split at h
          · cases h
          · split at h
            · simp only [Except.ok.injEq] at h; subst h; simp
            · simp only [] at h
              split at h
              · simp only [Except.ok.injEq] at h; subst h; simp at hov
              · split at h
                · cases h
                · exact ih _ _ _ _ _ _ h hov

theorem maybeAdd_status_ne_pending {t : TinyLFU} {size : Nat} {a : Adm} {id key hash : Nat} {w : Int} {o : Oracle}
    {r : AdmResult} (h : maybeAdd t size a id key hash w o = .ok r) (hov : r.overflow = false) : r.status ≠ .pending := by
  unfold maybeAdd at h
  split at h
  · simp only [Except.ok.injEq] at h; subst h; simp
  · split at h
    · simp only [Except.ok.injEq] at h; subst h; simp at hov
    split at h
    · simp only [Except.ok.injEq] at h; subst h; simp
    · split at h
      · cases h
      · split at h
        · cases h
        · split at h
          · cases h
          · rename_i r' hl
            simp only [Except.ok.injEq] at h; subst h
            exact createLoop_status_ne_pending _ _ _ _ _ _ _ hl hov

theorem workerPut_qspec {s : State} {id hash : Nat} {w : Int} {k v : Nat} {ttl : Option Nat} {o o' : Oracle}
    {e : Exec} (h : workerPut s id hash w k v ttl o = .ok (e, o')) : QSame s e.qstate ∧ e.qanswered := by
  unfold workerPut at h
  split at h
  · simp only [Except.ok.injEq, Prod.mk.injEq] at h
    obtain ⟨rfl, -⟩ := h
    exact ⟨QSame.refl s, by simp [Exec.qanswered]⟩
  · split at h
    · cases h
    · rename_i r hr
      have h1 : QSame s (r.evicted.foldl applyEvict { s with adm := r.adm }) :=
        (QSame.of_eq (s := s) (s' := { s with adm := r.adm }) rfl rfl rfl rfl rfl rfl rfl).trans
          (qsame_foldl_applyEvict _ _)
      simp only [] at h
      generalize r.evicted.foldl applyEvict { s with adm := r.adm } = s1 at h h1
      split at h
      · simp only [Except.ok.injEq, Prod.mk.injEq] at h
        obtain ⟨rfl, -⟩ := h
        exact ⟨h1, trivial⟩
      rename_i hov
      have hst := maybeAdd_status_ne_pending hr (by simpa using hov)
      split at h
      · split at h
        · simp only [Except.ok.injEq, Prod.mk.injEq] at h
          obtain ⟨rfl, -⟩ := h
          exact ⟨h1.trans (QSame.of_eq rfl rfl rfl rfl rfl rfl rfl), by simp [Exec.qanswered]⟩
        · split at h
          · simp only [Except.ok.injEq, Prod.mk.injEq] at h
            obtain ⟨rfl, -⟩ := h
            exact ⟨h1.trans (QSame.of_eq rfl rfl rfl rfl rfl rfl rfl), trivial⟩
          · simp only [Except.ok.injEq, Prod.mk.injEq] at h
            obtain ⟨rfl, -⟩ := h
            exact ⟨h1.trans (QSame.of_eq rfl rfl rfl rfl rfl rfl rfl), by simp [Exec.qanswered]⟩
      · simp only [Except.ok.injEq, Prod.mk.injEq] at h
        obtain ⟨rfl, -⟩ := h
        exact ⟨h1.trans (QSame.of_eq rfl rfl rfl rfl rfl rfl rfl), hst⟩

theorem workerUpdateWeight_qspec (s : State) (id : Nat) (w : Int) :
    QSame s (workerUpdateWeight s id w).qstate ∧ (workerUpdateWeight s id w).qanswered := by
  unfold workerUpdateWeight
  split
  · exact ⟨QSame.refl s, by simp [Exec.qanswered]⟩
  · dsimp only
    split
    · exact ⟨QSame.refl s, trivial⟩
    · exact ⟨QSame.of_eq rfl rfl rfl rfl rfl rfl rfl, by simp [Exec.qanswered]⟩

theorem workerDelete_qspec (s : State) (k : Nat) :
    QSame s (workerDelete s k).qstate ∧ (workerDelete s k).qanswered := by
  unfold workerDelete
  split
  · exact ⟨QSame.refl s, by simp [Exec.qanswered]⟩
  · rename_i e he
    simp only []
    refine ⟨?_, by simp [Exec.qanswered]⟩
    simp only [Exec.qstate]
    split <;> split <;> exact QSame.of_eq rfl rfl rfl rfl rfl rfl rfl


/-! ### one step of the worker -/

/-- What one successful worker step does, given that `(cmd, hd) :: q` was the queue. -/
structure QWorkerPost (s : State) (cmd : Cmd) (hd : Option Nat) (q : List (Cmd × Option Nat))
    (s' : State) (out : Out) : Prop where
  cfg : s'.cfg = s.cfg
  shutting : s'.shutting = s.shutting
  pend : s'.pend = s.pend
  bufq : s.bufq.length ≤ s.cfg.bufChanCap → s'.bufq.length ≤ s.cfg.bufChanCap
  outcome :
    (∃ p, out = .workerPanic p ∧ s.worker = .running ∧ cmd ≠ .shutdown ∧ s'.worker = .dead ∧ s'.queue = [] ∧
      s'.acks = s.acks) ∨
    (∃ kind st ie pp ev, out = .worked kind st ie pp ev ∧ st ≠ .pending ∧ s'.queue = q ∧
      s'.acks = setAck s.acks hd st ∧
      ((s.worker = .draining ∧ s'.worker = .draining ∧ kind = "Drain" ∧ st = .shuttingDown ∧ ie = none ∧
          pp = [] ∧ ev = []) ∨
       (s.worker = .running ∧ cmd = .shutdown ∧ s'.worker = .draining ∧ st = .accepted) ∨
       (s.worker = .running ∧ cmd ≠ .shutdown ∧ s'.worker = .running)))

theorem qworkerPost_done {s : State} {cmd : Cmd} {hd : Option Nat} {q : List (Cmd × Option Nat)}
    (hw : s.worker = .running) (hc : cmd ≠ .shutdown) {s1 : State} {st : Status}
    (hs : QSame { s with queue := q } s1) (ha : st ≠ .pending) (kind : String) (ie : Option Nat)
    (pp : List SKey) (ev : List Evicted) :
    QWorkerPost s cmd hd q { s1 with acks := setAck s1.acks hd st } (.worked kind st ie pp ev) := by
  refine ⟨hs.cfg, hs.shutting, hs.pend, hs.bufq, Or.inr ⟨kind, st, ie, pp, ev, rfl, ha, hs.queue, ?_, ?_⟩⟩
  · show setAck s1.acks hd st = setAck s.acks hd st
    rw [hs.acks]
  · exact Or.inr (Or.inr ⟨hw, hc, hs.worker.trans hw⟩)

theorem qworkerPost_panicked {s : State} {cmd : Cmd} {hd : Option Nat} {q : List (Cmd × Option Nat)}
    (hw : s.worker = .running) (hc : cmd ≠ .shutdown) {s1 : State}
    (hs : QSame { s with queue := q } s1) (p : Panic) :
    QWorkerPost s cmd hd q { s1 with worker := .dead, queue := [] } (.workerPanic p) :=
  ⟨hs.cfg, hs.shutting, hs.pend, hs.bufq, Or.inl ⟨p, rfl, hw, hc, rfl, rfl, hs.acks⟩⟩

/-- the `finish` continuation of `workerStep` -/
theorem qworkerPost_finish {s : State} {cmd : Cmd} {hd : Option Nat} {q : List (Cmd × Option Nat)}
    (hw : s.worker = .running) (hc : cmd ≠ .shutdown) {e : Exec}
    (hs : QSame { s with queue := q } e.qstate) (ha : e.qanswered) (kind : String) {o1 o' : Oracle} {s' : State}
    {out : Out}
    (h : (match (e, o1) with
      | (.done s1 st ie pp ev, o') =>
        (Except.ok ({ s1 with acks := setAck s1.acks hd st }, Out.worked kind st ie pp ev, o') : Except String _)
      | (.panicked s1 p, o') => .ok ({ s1 with worker := .dead, queue := [] }, .workerPanic p, o')) =
      .ok (s', out, o')) : QWorkerPost s cmd hd q s' out := by
  cases e with
  | done s1 st ie pp ev =>
    simp only [Except.ok.injEq, Prod.mk.injEq] at h
    obtain ⟨rfl, rfl, -⟩ := h
    exact qworkerPost_done hw hc hs ha kind ie pp ev
  | panicked s1 p =>
    simp only [Except.ok.injEq, Prod.mk.injEq] at h
    obtain ⟨rfl, rfl, -⟩ := h
    exact qworkerPost_panicked hw hc hs p

theorem workerStep_qspec {s s' : State} {o o' : Oracle} {out : Out} (h : workerStep s o = .ok (s', out, o')) :
    s.worker ≠ .dead ∧ ∃ cmd hd q, s.queue = (cmd, hd) :: q ∧ QWorkerPost s cmd hd q s' out := by
  unfold workerStep at h
  split at h
  · cases h
  · cases h
  · rename_i cmd hd q hw hq
    simp only [Except.ok.injEq, Prod.mk.injEq] at h
    obtain ⟨rfl, rfl, -⟩ := h
    refine ⟨by rw [hw]; simp, _, hd, q, hq, rfl, rfl, rfl, id, Or.inr ⟨_, _, _, _, _, rfl, by simp, rfl, rfl, ?_⟩⟩
    exact Or.inl ⟨hw, hw, rfl, rfl, rfl, rfl, rfl⟩
  · rename_i cmd hd q hw hq
    refine ⟨by rw [hw]; simp, cmd, hd, q, hq, ?_⟩
    simp only [] at h
    split at h
    · simp only [Except.ok.injEq, Prod.mk.injEq] at h
      obtain ⟨rfl, rfl, -⟩ := h
      exact ⟨rfl, rfl, rfl, id, Or.inr ⟨_, _, _, _, _, rfl, by simp, rfl, rfl, Or.inr (Or.inl ⟨hw, rfl, rfl, rfl⟩)⟩⟩
    · split at h
      · rename_i r hr
        obtain ⟨e, o1⟩ := r
        obtain ⟨h1, h2⟩ := workerPut_qspec hr
        exact qworkerPost_finish hw (by simp) h1 h2 "Put" h
      · cases h
    · split at h
      · rename_i r hr
        obtain ⟨e, o1⟩ := r
        obtain ⟨h1, h2⟩ := workerPut_qspec hr
        exact qworkerPost_finish hw (by simp) h1 h2 "PutWithTTL" h
      · cases h
    · rename_i id w
      obtain ⟨h1, h2⟩ := workerUpdateWeight_qspec { s with queue := q } id w
      exact qworkerPost_finish hw (by simp) h1 h2 "UpdateWeight" h
    · rename_i k
      obtain ⟨h1, h2⟩ := workerDelete_qspec { s with queue := q } k
      exact qworkerPost_finish hw (by simp) h1 h2 "Delete" h


/-! ### `QInv` is preserved by a worker step -/

theorem getElem?_set_pending {acks : List Status} {i h : Nat} {st : Status} (hst : st ≠ .pending)
    (hp : (acks.set i st)[h]? = some .pending) : h ≠ i ∧ acks[h]? = some .pending := by
  by_cases e : i = h
  · subst e
    rw [List.getElem?_set_self'] at hp
    cases hx : acks[i]? with
    | none => rw [hx] at hp; cases hp
    | some x => rw [hx] at hp; simp at hp; exact absurd hp hst
  · rw [List.getElem?_set_ne e] at hp
    exact ⟨fun x => e x.symm, hp⟩

/-- the head command leaves the queue and its acknowledgement is answered -/
theorem qinv_pop {s s' : State} {cmd : Cmd} {hd : Option Nat} {q : List (Cmd × Option Nat)} {st : Status}
    (h : QInv s) (hq : s.queue = (cmd, hd) :: q) (hq' : s'.queue = q) (ha : s'.acks = setAck s.acks hd st)
    (hst : st ≠ .pending) (hcfg : s'.cfg = s.cfg) (hsh : s'.shutting = s.shutting) (hp : s'.pend = s.pend)
    (hb : s.bufq.length ≤ s.cfg.bufChanCap → s'.bufq.length ≤ s.cfg.bufChanCap)
    (hw : s'.worker = s.worker ∨ (cmd = .shutdown ∧ s'.worker = .draining)) (hlive : s.worker ≠ .dead) :
    QInv s' := by
  have hmem : ∀ x ∈ s'.queue, x ∈ s.queue := by
    intro x hx; rw [hq]; rw [hq'] at hx; exact List.mem_cons_of_mem _ hx
  have hflag : s'.worker = .draining → s'.shutting = true := by
    intro hd'
    rw [hsh]
    rcases hw with hw | ⟨hc, -⟩
    · exact h.flagSticky (hw ▸ hd')
    · exact h.shutdownQueued (cmd, hd) (by rw [hq]; exact List.mem_cons_self) hc
  have hlen : s'.queue.length ≤ s'.cfg.cmdCap := by
    have := h.bounded
    rw [hq] at this
    rw [hq', hcfg]
    simp only [List.length_cons] at this
    omega
  have hsq : ∀ x ∈ s'.queue, x.1 = .shutdown → s'.shutting = true := by
    intro x hx hc; rw [hsh]; exact h.shutdownQueued x (hmem x hx) hc
  have hpk : ∀ c p, s'.pend.get? c = some p → p.qok s'.shutting := by
    rw [hp, hsh]; exact h.parkedOk
  have hbuf : s'.bufq.length ≤ s'.cfg.bufChanCap := by rw [hcfg]; exact hb h.bufBounded
  cases hd with
  | none =>
    have eH : queueHandles s' = queueHandles s := by
      simp only [queueHandles, hq, hq', List.filterMap_cons]
    have eA : s'.acks = s.acks := ha
    refine ⟨?_, ?_, ?_, ?_, hlen, hbuf, hflag, hsq, hpk⟩
    · rw [eH]; exact h.sorted
    · rw [eH, eA]; exact h.inRange
    · rw [eH, eA]; exact h.queuedPending
    · intro _; rw [eH, eA]; exact h.pendingQueued hlive
  | some i =>
    have eH : queueHandles s = i :: queueHandles s' := by
      simp only [queueHandles, hq, hq', List.filterMap_cons]
    have eA : s'.acks = s.acks.set i st := ha
    have hsorted := h.sorted
    rw [eH, List.pairwise_cons] at hsorted
    refine ⟨hsorted.2, ?_, ?_, ?_, hlen, hbuf, hflag, hsq, hpk⟩
    · intro x hx
      rw [eA, List.length_set]
      exact h.inRange x (by rw [eH]; exact List.mem_cons_of_mem _ hx)
    · intro x hx
      have hne : i ≠ x := Nat.ne_of_lt (hsorted.1 x hx)
      rw [eA, List.getElem?_set_ne hne]
      exact h.queuedPending x (by rw [eH]; exact List.mem_cons_of_mem _ hx)
    · intro _ x hx
      rw [eA] at hx
      obtain ⟨hne, hx'⟩ := getElem?_set_pending hst hx
      have := h.pendingQueued hlive x hx'
      rw [eH] at this
      rcases List.mem_cons.mp this with e | hm
      · exact absurd e hne
      · exact hm

/-- after a worker panic: the receiver is gone, the queue is dropped -/
theorem qinv_dead {s s' : State} (h : QInv s) (hq' : s'.queue = []) (hwk : s'.worker = .dead)
    (hcfg : s'.cfg = s.cfg) (hsh : s'.shutting = s.shutting) (hp : s'.pend = s.pend)
    (hb : s.bufq.length ≤ s.cfg.bufChanCap → s'.bufq.length ≤ s.cfg.bufChanCap) : QInv s' := by
  have eH : queueHandles s' = [] := by simp only [queueHandles, hq', List.filterMap_nil]
  refine ⟨?_, ?_, ?_, ?_, ?_, ?_, ?_, ?_, ?_⟩
  · rw [eH]; exact List.Pairwise.nil
  · rw [eH]; intro x hx; cases hx
  · rw [eH]; intro x hx; cases hx
  · intro hne; exact absurd hwk hne
  · rw [hq']; exact Nat.zero_le _
  · rw [hcfg]; exact hb h.bufBounded
  · intro hd; rw [hwk] at hd; cases hd
  · rw [hq']; intro x hx; cases hx
  · rw [hp, hsh]; exact h.parkedOk

theorem qinv_workerStep {s s' : State} {o o' : Oracle} {out : Out} (h : QInv s)
    (hs : workerStep s o = .ok (s', out, o')) : QInv s' := by
  obtain ⟨hlive, cmd, hd, q, hq, hpost⟩ := workerStep_qspec hs
  rcases hpost.outcome with ⟨p, -, -, -, hwk, hq', -⟩ | ⟨kind, st, ie, pp, ev, -, hst, hq', ha, hw⟩
  · exact qinv_dead h hq' hwk hpost.cfg hpost.shutting hpost.pend hpost.bufq
  · refine qinv_pop h hq hq' ha hst hpost.cfg hpost.shutting hpost.pend hpost.bufq ?_ hlive
    rcases hw with ⟨h1, h2, -⟩ | ⟨-, h2, h3, -⟩ | ⟨h1, -, h3⟩
    · exact Or.inl (h2.trans h1.symm)
    · exact Or.inr ⟨h2, h3⟩
    · exact Or.inl (h3.trans h1.symm)

/-! ### `sendCmd`, `spotAck` -/

theorem sendCmd_eq_of_room {s : State} (c : Nat) (cmd : Cmd) (hw : s.worker ≠ .dead)
    (hr : s.queue.length < s.cfg.cmdCap) :
    sendCmd s c cmd = ({ s with queue := s.queue ++ [(cmd, some s.acks.length)], acks := s.acks ++ [.pending] },
      .ack s.acks.length .pending) := by
  unfold sendCmd
  rw [if_neg hw, if_neg (by omega)]

theorem sendCmd_eq_of_full {s : State} (c : Nat) (cmd : Cmd) (hw : s.worker ≠ .dead)
    (hr : s.queue.length ≥ s.cfg.cmdCap) :
    sendCmd s c cmd = ({ s with pend := s.pend.set c (.send cmd) }, .parked) := by
  unfold sendCmd
  rw [if_neg hw, if_pos hr]

theorem sendCmd_eq_of_dead {s : State} (c : Nat) (cmd : Cmd) (hw : s.worker = .dead) :
    sendCmd s c cmd = (s, .err) := by
  unfold sendCmd
  rw [if_pos hw]

/-- parking a call -/
theorem qinv_park {s : State} (h : QInv s) (c : Nat) {p : Pending} (hp : p.qok s.shutting) :
    QInv { s with pend := s.pend.set c p } := by
  refine ⟨h.sorted, h.inRange, h.queuedPending, h.pendingQueued, h.bounded, h.bufBounded, h.flagSticky,
    h.shutdownQueued, ?_⟩
  intro c' p' hg
  simp only [AMap.get?_set] at hg
  split at hg
  · cases hg; exact hp
  · exact h.parkedOk c' p' hg

/-- a parked call leaves its slot -/
theorem qinv_unpark {s : State} (h : QInv s) (c : Nat) : QInv { s with pend := s.pend.del c } := by
  refine ⟨h.sorted, h.inRange, h.queuedPending, h.pendingQueued, h.bounded, h.bufBounded, h.flagSticky,
    h.shutdownQueued, ?_⟩
  intro c' p' hg
  simp only [AMap.get?_del] at hg
  split at hg
  · cases hg
  · exact h.parkedOk c' p' hg

/-- a command with a fresh pending handle joins the tail -/
theorem qinv_enqueue {s : State} (h : QInv s) {cmd : Cmd} (hc : cmd = .shutdown → s.shutting = true)
    (hr : s.queue.length < s.cfg.cmdCap) :
    QInv { s with queue := s.queue ++ [(cmd, some s.acks.length)], acks := s.acks ++ [.pending] } := by
  have eH : queueHandles { s with queue := s.queue ++ [(cmd, some s.acks.length)], acks := s.acks ++ [.pending] }
      = queueHandles s ++ [s.acks.length] := by
    simp only [queueHandles, List.filterMap_append, List.filterMap_cons, List.filterMap_nil]
  refine ⟨?_, ?_, ?_, ?_, ?_, h.bufBounded, h.flagSticky, ?_, h.parkedOk⟩
  · rw [eH, List.pairwise_append]
    refine ⟨h.sorted, List.pairwise_singleton _ _, ?_⟩
    intro a ha b hb
    simp only [List.mem_singleton] at hb
    subst hb
    exact h.inRange a ha
  · rw [eH]
    intro x hx
    simp only [List.length_append, List.length_cons, List.length_nil]
    rcases List.mem_append.mp hx with hx | hx
    · have := h.inRange x hx; omega
    · simp only [List.mem_singleton] at hx; omega
  · rw [eH]
    intro x hx
    show (s.acks ++ [Status.pending])[x]? = some .pending
    rcases List.mem_append.mp hx with hx | hx
    · rw [List.getElem?_append_left (h.inRange x hx)]; exact h.queuedPending x hx
    · simp only [List.mem_singleton] at hx; subst hx
      simp
  · intro hw x hx
    rw [eH]
    have hx : (s.acks ++ [Status.pending])[x]? = some .pending := hx
    by_cases hlt : x < s.acks.length
    · rw [List.getElem?_append_left hlt] at hx
      exact List.mem_append.mpr (Or.inl (h.pendingQueued hw x hx))
    · have hlen : x < (s.acks ++ [Status.pending]).length := by
        rcases Nat.lt_or_ge x (s.acks ++ [Status.pending]).length with h1 | h1
        · exact h1
        · rw [List.getElem?_eq_none h1] at hx; cases hx
      simp only [List.length_append, List.length_cons, List.length_nil] at hlen
      have : x = s.acks.length := by omega
      subst this
      exact List.mem_append.mpr (Or.inr (List.mem_singleton.mpr rfl))
  · show (s.queue ++ [(cmd, some s.acks.length)]).length ≤ s.cfg.cmdCap
    simp only [List.length_append, List.length_cons, List.length_nil]
    omega
  · intro x hx hcx
    have hx : x ∈ s.queue ++ [(cmd, some s.acks.length)] := hx
    rcases List.mem_append.mp hx with hx | hx
    · exact h.shutdownQueued x hx hcx
    · simp only [List.mem_singleton] at hx; subst hx; exact hc hcx

theorem qinv_sendCmd {s : State} (h : QInv s) (c : Nat) {cmd : Cmd} (hc : cmd ≠ .shutdown) :
    QInv (sendCmd s c cmd).1 := by
  unfold sendCmd
  split
  · exact h
  · split
    · exact qinv_park h c (p := .send cmd) hc
    · exact qinv_enqueue h (fun e => absurd e hc) (by omega)

/-- an acknowledgement answered on the spot joins the list -/
theorem qinv_spotAck {s : State} (h : QInv s) {st : Status} (hst : st ≠ .pending) : QInv (spotAck s st).1 := by
  have eH : queueHandles (spotAck s st).1 = queueHandles s := rfl
  refine ⟨h.sorted, ?_, ?_, ?_, h.bounded, h.bufBounded, h.flagSticky, h.shutdownQueued, h.parkedOk⟩
  · rw [eH]
    intro x hx
    show x < (s.acks ++ [st]).length
    have := h.inRange x hx
    simp only [List.length_append, List.length_cons, List.length_nil]; omega
  · rw [eH]
    intro x hx
    show (s.acks ++ [st])[x]? = some .pending
    rw [List.getElem?_append_left (h.inRange x hx)]; exact h.queuedPending x hx
  · intro hw x hx
    rw [eH]
    have hx : (s.acks ++ [st])[x]? = some .pending := hx
    by_cases hlt : x < s.acks.length
    · rw [List.getElem?_append_left hlt] at hx
      exact h.pendingQueued hw x hx
    · rw [List.getElem?_append_right (by omega)] at hx
      cases hi : x - s.acks.length with
      | zero => rw [hi] at hx; simp only [List.getElem?_cons_zero, Option.some.injEq] at hx; exact absurd hx hst
      | succ n => rw [hi] at hx; simp at hx


/-! ### the writing client calls -/

/-- What a writing call (`put*`, `put_or_update`, `delete`) amounts to for the queue: nothing, one
    `CommandExecutor::send` of a command other than `Shutdown`, or one acknowledgement answered on the spot. -/
inductive QClientShape (s : State) (c : Nat) : State × Out → Prop
  | same {s1 : State} (out : Out) : QSame s s1 → QClientShape s c (s1, out)
  | send {s1 : State} (cmd : Cmd) : QSame s s1 → cmd ≠ .shutdown → QClientShape s c (sendCmd s1 c cmd)
  | spot {s1 : State} (st : Status) : QSame s s1 → st ≠ .pending → QClientShape s c (spotAck s1 st)

theorem qinv_clientShape {s : State} {c : Nat} {r : State × Out} (h : QInv s) (hs : QClientShape s c r) :
    QInv r.1 := by
  cases hs with
  | same out e => exact h.same e
  | send cmd e hc => exact qinv_sendCmd (h.same e) c hc
  | spot st e hst => exact qinv_spotAck (h.same e) hst

theorem qshape_clientPutChecked (s : State) (c k v : Nat) (w : Int) (ttl : Option Nat) :
    QClientShape s c (clientPutChecked s c k v w ttl) := by
  unfold clientPutChecked
  split
  · exact .spot _ (QSame.refl s) (by simp)
  · cases ttl with
    | none => exact .send _ (QSame.of_eq rfl rfl rfl rfl rfl rfl rfl) (by simp)
    | some t => exact .send _ (QSame.of_eq rfl rfl rfl rfl rfl rfl rfl) (by simp)

theorem qshape_clientPut (s : State) (c k v : Nat) : QClientShape s c (clientPut s c k v) := by
  unfold clientPut
  dsimp only
  split
  · exact .same _ (QSame.refl s)
  · split
    · exact .same _ (QSame.refl s)
    · exact qshape_clientPutChecked ..

theorem qshape_clientPutW (s : State) (c k v : Nat) (w : Int) : QClientShape s c (clientPutW s c k v w) := by
  unfold clientPutW
  split
  · exact .same _ (QSame.refl s)
  · split
    · exact .same _ (QSame.refl s)
    · exact qshape_clientPutChecked ..

theorem qshape_clientPutTtl (s : State) (c k v t : Nat) : QClientShape s c (clientPutTtl s c k v t) := by
  unfold clientPutTtl
  split
  · exact .same _ (QSame.refl s)
  · dsimp only
    split
    · exact .same _ (QSame.refl s)
    · exact qshape_clientPutChecked ..

theorem qshape_clientPutWTtl (s : State) (c k v : Nat) (w : Int) (t : Nat) :
    QClientShape s c (clientPutWTtl s c k v w t) := by
  unfold clientPutWTtl
  split
  · exact .same _ (QSame.refl s)
  · split
    · exact .same _ (QSame.refl s)
    · exact qshape_clientPutChecked ..

theorem qshape_clientDelete (s : State) (c k : Nat) : QClientShape s c (clientDelete s c k) := by
  unfold clientDelete
  split
  · exact .same _ (QSame.refl s)
  · exact .send _ (QSame.of_eq rfl rfl rfl rfl rfl rfl rfl) (by simp)

theorem qshape_upsert_tail {s s2 : State} (h2 : QSame s s2) (uw2 : Option Int) (c id : Nat) :
    QClientShape s c (match uw2 with
          | some weight =>
            if (!inI64 weight) = true then (s2, Out.panic Panic.weightOverflow)
            else
              if weight ≤ 0 then (s2, Out.panic Panic.weightNotPositive)
              else sendCmd s2 c (Cmd.updateWeight id weight)
          | none => spotAck s2 Status.accepted) := by
  split
  · split
    · exact .same _ h2
    · split
      · exact .same _ h2
      · exact .send _ h2 (by simp)
  · exact .spot _ h2 (by simp)

theorem qshape_clientUpsert (s : State) (c k : Nat) (v : Option Nat) (w : Option Int) (ttl : Option Nat)
    (rm : Bool) : QClientShape s c (clientUpsert s c k v w ttl rm) := by
  unfold clientUpsert
  split
  · exact .same _ (QSame.refl s)
  · extract_lets uw
    clear_value uw
    split
    · split
      · split
        · exact .same _ (QSame.refl s)
        · split
          · exact .send _ (QSame.of_eq rfl rfl rfl rfl rfl rfl rfl) (by simp)
          · exact .send _ (QSame.of_eq rfl rfl rfl rfl rfl rfl rfl) (by simp)
      · exact .same _ (QSame.refl s)
    · rename_i e hg
      extract_lets newExp
      clear_value newExp
      split
      · exact .same _ (QSame.refl s)
      · extract_lets e' s1 existing
        clear_value existing
        have h1 : QSame s s1 := QSame.of_eq rfl rfl rfl rfl rfl rfl rfl
        clear_value s1
        split
        rename_i s2 uw2 hpair
        refine qshape_upsert_tail ?_ uw2 c _
        split at hpair <;> cases hpair
        · exact h1.trans (qsame_ttlPut ..)
        · exact h1.trans (qsame_ttlDelete ..)
        · exact h1.trans (qsame_ttlUpdate ..)
        · exact h1

/-! ### reads, the sweeper, the access consumer -/

theorem qsame_acceptBuffer (s : State) (hs : List Nat) : QSame s (acceptBuffer s hs) := by
  unfold acceptBuffer
  split
  · rename_i hc
    simp only [Bool.and_eq_true, decide_eq_true_eq] at hc
    refine ⟨rfl, rfl, rfl, rfl, rfl, rfl, fun _ => ?_⟩
    show (s.bufq ++ [BufEvent.full hs]).length ≤ s.cfg.bufChanCap
    simp only [List.length_append, List.length_cons, List.length_nil]
    omega
  · exact QSame.of_eq rfl rfl rfl rfl rfl rfl rfl

theorem qsame_poolAdd {s s' : State} {h : Nat} {o o' : Oracle} (hp : poolAdd s h o = .ok (s', o')) : QSame s s' := by
  unfold poolAdd at hp
  split at hp
  · cases hp
  · split at hp
    · cases hp
    · rename_i buf _
      simp only [Except.ok.injEq, Prod.mk.injEq] at hp
      obtain ⟨rfl, -⟩ := hp
      have h1 : QSame s (if buf.length ≥ s.cfg.bufSize then (acceptBuffer s buf, ([] : List Nat)) else (s, buf)).1 := by
        split
        · exact qsame_acceptBuffer s buf
        · exact QSame.refl s
      exact h1.trans (QSame.of_eq rfl rfl rfl rfl rfl rfl rfl)

theorem qsame_readKey {s s' : State} {k : Nat} {o o' : Oracle} {v : Option Nat}
    (h : readKey s k o = .ok (s', v, o')) : QSame s s' := by
  unfold readKey at h
  split at h
  · split at h
    · simp only [] at h
      split at h
      · rename_i s2 o2 hp
        simp only [Except.ok.injEq, Prod.mk.injEq] at h
        obtain ⟨rfl, -, -⟩ := h
        refine QSame.trans ?_ (qsame_poolAdd hp)
        exact QSame.of_eq rfl rfl rfl rfl rfl rfl rfl
      · cases h
    · simp only [Except.ok.injEq, Prod.mk.injEq] at h
      obtain ⟨rfl, -, -⟩ := h
      exact QSame.of_eq rfl rfl rfl rfl rfl rfl rfl
  · simp only [Except.ok.injEq, Prod.mk.injEq] at h
    obtain ⟨rfl, -, -⟩ := h
    exact QSame.of_eq rfl rfl rfl rfl rfl rfl rfl

theorem qsame_readKeys {ks : List Nat} : ∀ {s s' : State} {o o' : Oracle} {acc vs : List (Option Nat)},
    readKeys s ks o acc = .ok (s', vs, o') → QSame s s' := by
  induction ks with
  | nil =>
    intro s s' o o' acc vs h
    simp only [readKeys, Except.ok.injEq, Prod.mk.injEq] at h
    obtain ⟨rfl, -, -⟩ := h
    exact QSame.refl s
  | cons k ks ih =>
    intro s s' o o' acc vs h
    unfold readKeys at h
    split at h
    · rename_i s1 v o1 hk
      exact (qsame_readKey hk).trans (ih h)
    · cases h

theorem qsame_clientGet {s s' : State} {k : Nat} {o o' : Oracle} {out : Out}
    (h : clientGet s k o = .ok (s', out, o')) : QSame s s' := by
  unfold clientGet at h
  split at h
  · simp only [Except.ok.injEq, Prod.mk.injEq] at h
    obtain ⟨rfl, -, -⟩ := h
    exact QSame.refl s
  · split at h
    · rename_i s1 v o1 hk
      simp only [Except.ok.injEq, Prod.mk.injEq] at h
      obtain ⟨rfl, -, -⟩ := h
      exact qsame_readKey hk
    · cases h

theorem qsame_clientMultiGet {s s' : State} {ks : List Nat} {o o' : Oracle} {out : Out}
    (h : clientMultiGet s ks o = .ok (s', out, o')) : QSame s s' := by
  unfold clientMultiGet at h
  split at h
  · simp only [Except.ok.injEq, Prod.mk.injEq] at h
    obtain ⟨rfl, -, -⟩ := h
    exact QSame.refl s
  · split at h
    · rename_i s1 v o1 hk
      simp only [Except.ok.injEq, Prod.mk.injEq] at h
      obtain ⟨rfl, -, -⟩ := h
      exact qsame_readKeys hk
    · cases h

theorem qsame_sweepEvict (s : State) (id : Nat) : QSame s (sweepEvict s id).1 := by
  rcases sweepEvict_cases s id with h0 | ⟨wk, _, _, h1⟩
  · rw [h0]; exact QSame.refl s
  · rw [h1]
    exact QSame.trans
      (QSame.of_eq (s' := { s with adm := { s.adm with kw := s.adm.kw.del id, used := s.adm.used - wk.weight } })
        rfl rfl rfl rfl rfl rfl rfl)
      (qsame_applyEvictId _ (id, wk.key, wk.weight))

theorem qsame_sweepEntries (l : List ((Nat × Nat) × Nat)) :
    ∀ (s : State) (acc : List Evicted), QSame s (sweepEntries s l acc).1 := by
  induction l with
  | nil => intro s acc; exact QSame.refl s
  | cons x l ih =>
    intro s acc
    obtain ⟨⟨sh, id⟩, e⟩ := x
    unfold sweepEntries
    exact (qsame_sweepEvict s id).trans (ih _ _)

theorem qsame_sweepStep {s s' : State} {out : Out} (h : sweepStep s = .ok (s', out)) : QSame s s' := by
  unfold sweepStep at h
  split at h
  · cases h
  · simp only [Except.ok.injEq, Prod.mk.injEq] at h
    obtain ⟨rfl, -⟩ := h
    exact (qsame_sweepEntries _ s []).trans (QSame.of_eq rfl rfl rfl rfl rfl rfl rfl)

/-- One step of the access consumer: it was alive, takes the head of the buffer channel, and either keeps
    the rest or exits (dropping the channel). Nothing else the queue invariant reads changes. -/
theorem consumerStep_qspec {s s' : State} {o o' : Oracle} {out : Out} (h : consumerStep s o = .ok (s', out, o')) :
    s.consumerAlive = true ∧ s'.queue = s.queue ∧ s'.acks = s.acks ∧ s'.worker = s.worker ∧ s'.cfg = s.cfg ∧
    s'.shutting = s.shutting ∧ s'.pend = s.pend ∧
    ∃ x q, s.bufq = x :: q ∧ ((s'.bufq = q ∧ s'.consumerAlive = true) ∨ (s'.bufq = [] ∧ s'.consumerAlive = false)) := by
  unfold consumerStep at h
  split at h
  · cases h
  · rename_i ha
    have ha : s.consumerAlive = true := by simpa using ha
    refine ⟨ha, ?_⟩
    split at h
    · cases h
    · rename_i q hq
      simp only [Except.ok.injEq, Prod.mk.injEq] at h
      obtain ⟨rfl, -, -⟩ := h
      exact ⟨rfl, rfl, rfl, rfl, rfl, rfl, _, _, hq, Or.inr ⟨rfl, rfl⟩⟩
    · rename_i hs q hq
      split at h
      · cases h
      · split at h
        · simp only [Except.ok.injEq, Prod.mk.injEq] at h
          obtain ⟨rfl, -, -⟩ := h
          exact ⟨rfl, rfl, rfl, rfl, rfl, rfl, _, _, hq, Or.inl ⟨rfl, ha⟩⟩
        · simp only [Except.ok.injEq, Prod.mk.injEq] at h
          obtain ⟨rfl, -, -⟩ := h
          exact ⟨rfl, rfl, rfl, rfl, rfl, rfl, _, _, hq, Or.inr ⟨rfl, rfl⟩⟩

theorem qsame_consumerStep {s s' : State} {o o' : Oracle} {out : Out} (h : consumerStep s o = .ok (s', out, o')) :
    QSame s s' := by
  obtain ⟨-, h1, h2, h3, h4, h5, h6, x, q, hq, hb⟩ := consumerStep_qspec h
  refine ⟨h1, h2, h3, h4, h5, h6, fun hle => ?_⟩
  rw [hq] at hle
  simp only [List.length_cons] at hle
  rcases hb with ⟨hb, -⟩ | ⟨hb, -⟩ <;> rw [hb]
  · omega
  · exact Nat.zero_le _

/-! ### `shutdown()` and `resume` -/

theorem Pending.qok_true {b : Bool} {p : Pending} (h : p.qok b) : p.qok true := by
  cases p with
  | send cmd => exact h
  | shutdownCmd => rfl
  | shutdownBuf => rfl

theorem qinv_setFlag {s : State} (h : QInv s) : QInv { s with shutting := true } :=
  ⟨h.sorted, h.inRange, h.queuedPending, h.pendingQueued, h.bounded, h.bufBounded, fun _ => rfl,
   fun _ _ _ => rfl, fun c p hg => Pending.qok_true (h.parkedOk c p hg)⟩

theorem qinv_shutdownFinish {s : State} (h : QInv s) : QInv (shutdownFinish s) :=
  h.same (QSame.of_eq rfl rfl rfl rfl rfl rfl rfl)

theorem qinv_bufPush {s : State} (h : QInv s) (x : BufEvent) (hr : s.bufq.length < s.cfg.bufChanCap) :
    QInv { s with bufq := s.bufq ++ [x] } := by
  refine ⟨h.sorted, h.inRange, h.queuedPending, h.pendingQueued, h.bounded, ?_, h.flagSticky,
    h.shutdownQueued, h.parkedOk⟩
  show (s.bufq ++ [x]).length ≤ s.cfg.bufChanCap
  simp only [List.length_append, List.length_cons, List.length_nil]
  omega

theorem qinv_shutdownSendBuf {s : State} (h : QInv s) (hs : s.shutting = true) (c : Nat) :
    QInv (shutdownSendBuf s c).1 := by
  unfold shutdownSendBuf
  split
  · exact qinv_shutdownFinish h
  · split
    · exact qinv_park h c (p := .shutdownBuf) hs
    · exact qinv_shutdownFinish (qinv_bufPush h _ (by omega))

/-- the `Shutdown` command (no acknowledgement handle) joins the tail -/
theorem qinv_enqueueShutdown {s : State} (h : QInv s) (hs : s.shutting = true)
    (hr : s.queue.length < s.cfg.cmdCap) : QInv { s with queue := s.queue ++ [(.shutdown, none)] } := by
  have eH : queueHandles { s with queue := s.queue ++ [(.shutdown, none)] } = queueHandles s := by
    simp only [queueHandles, List.filterMap_append, List.filterMap_cons, List.filterMap_nil, List.append_nil]
  refine ⟨?_, ?_, ?_, ?_, ?_, h.bufBounded, h.flagSticky, fun _ _ _ => hs, h.parkedOk⟩
  · rw [eH]; exact h.sorted
  · rw [eH]; exact h.inRange
  · rw [eH]; exact h.queuedPending
  · rw [eH]; exact h.pendingQueued
  · show (s.queue ++ [(Cmd.shutdown, none)]).length ≤ s.cfg.cmdCap
    simp only [List.length_append, List.length_cons, List.length_nil]
    omega

theorem qinv_shutdownSendCmd {s : State} (h : QInv s) (hs : s.shutting = true) (c : Nat) :
    QInv (shutdownSendCmd s c).1 := by
  unfold shutdownSendCmd
  split
  · exact qinv_shutdownSendBuf h hs c
  · split
    · exact qinv_park h c (p := .shutdownCmd) hs
    · exact qinv_shutdownSendBuf (qinv_enqueueShutdown h hs (by omega)) hs c

theorem qinv_clientShutdown {s : State} (h : QInv s) (c : Nat) : QInv (clientShutdown s c).1 := by
  unfold clientShutdown
  split
  · exact h
  · exact qinv_shutdownSendCmd (qinv_setFlag h) rfl c

theorem qinv_resume {s s' : State} {out : Out} (h : QInv s) {c : Nat} (hr : resume s c = .ok (s', out)) :
    QInv s' := by
  unfold resume at hr
  split at hr
  · cases hr
  · rename_i p hg
    have hok := h.parkedOk c p hg
    have h0 := qinv_unpark h c
    dsimp only at hr
    split at hr
    · rename_i cmd
      split at hr
      · cases hr
      · simp only [Except.ok.injEq] at hr
        have e : s' = (sendCmd { s with pend := s.pend.del c } c cmd).1 := by rw [hr]
        rw [e]
        exact qinv_sendCmd h0 c hok
    · split at hr
      · cases hr
      · simp only [Except.ok.injEq] at hr
        have e : s' = (shutdownSendCmd { s with pend := s.pend.del c } c).1 := by rw [hr]
        rw [e]
        exact qinv_shutdownSendCmd h0 hok c
    · split at hr
      · cases hr
      · simp only [Except.ok.injEq] at hr
        have e : s' = (shutdownSendBuf { s with pend := s.pend.del c } c).1 := by rw [hr]
        rw [e]
        exact qinv_shutdownSendBuf h0 hok c

/-! ### what every event other than a worker step does to the queue and the acknowledgements -/

/-- Non-worker events: at most one acknowledgement is appended (none changes), at most one command is
    appended at the tail, the shutdown flag is never lowered, worker mode and configuration stay. -/
structure QMono (s s' : State) : Prop where
  acks : s'.acks = s.acks ∨ ∃ st, s'.acks = s.acks ++ [st]
  queue : s'.queue = s.queue ∨ ∃ x, s'.queue = s.queue ++ [x]
  shutting : s.shutting = true → s'.shutting = true
  worker : s'.worker = s.worker
  cfg : s'.cfg = s.cfg

theorem QMono.of_same {s s' : State} (h : QSame s s') : QMono s s' :=
  ⟨Or.inl h.acks, Or.inl h.queue, fun x => h.shutting.trans x, h.worker, h.cfg⟩

theorem QMono.qsame_left {s s1 s' : State} (h : QSame s s1) (m : QMono s1 s') : QMono s s' := by
  obtain ⟨a, q, f, w, c⟩ := m
  rw [h.acks] at a; rw [h.queue] at q; rw [h.shutting] at f; rw [h.worker] at w; rw [h.cfg] at c
  exact ⟨a, q, f, w, c⟩

theorem qmono_sendCmd (s : State) (c : Nat) (cmd : Cmd) : QMono s (sendCmd s c cmd).1 := by
  unfold sendCmd
  split
  · exact ⟨Or.inl rfl, Or.inl rfl, id, rfl, rfl⟩
  · split
    · exact ⟨Or.inl rfl, Or.inl rfl, id, rfl, rfl⟩
    · exact ⟨Or.inr ⟨_, rfl⟩, Or.inr ⟨_, rfl⟩, id, rfl, rfl⟩

theorem qmono_spotAck (s : State) (st : Status) : QMono s (spotAck s st).1 :=
  ⟨Or.inr ⟨_, rfl⟩, Or.inl rfl, id, rfl, rfl⟩

theorem qmono_clientShape {s : State} {c : Nat} {r : State × Out} (hs : QClientShape s c r) : QMono s r.1 := by
  cases hs with
  | same out e => exact QMono.of_same e
  | send cmd e hc => exact QMono.qsame_left e (qmono_sendCmd _ c cmd)
  | spot st e hst => exact QMono.qsame_left e (qmono_spotAck _ st)

theorem qmono_shutdownSendBuf (s : State) (c : Nat) : QMono s (shutdownSendBuf s c).1 := by
  unfold shutdownSendBuf
  split
  · exact ⟨Or.inl rfl, Or.inl rfl, id, rfl, rfl⟩
  · split
    · exact ⟨Or.inl rfl, Or.inl rfl, id, rfl, rfl⟩
    · exact ⟨Or.inl rfl, Or.inl rfl, id, rfl, rfl⟩

theorem qmono_shutdownSendCmd (s : State) (c : Nat) : QMono s (shutdownSendCmd s c).1 := by
  unfold shutdownSendCmd
  split
  · exact qmono_shutdownSendBuf s c
  · split
    · exact ⟨Or.inl rfl, Or.inl rfl, id, rfl, rfl⟩
    · obtain ⟨a, q, f, w, cf⟩ := qmono_shutdownSendBuf { s with queue := s.queue ++ [(.shutdown, none)] } c
      refine ⟨a, ?_, f, w, cf⟩
      rcases q with q | ⟨x, q⟩
      · exact Or.inr ⟨_, q⟩
      · -- `shutdownSendBuf` never touches the queue
        exfalso
        revert q
        unfold shutdownSendBuf
        split
        · intro q; have := congrArg List.length q; simp [shutdownFinish] at this
        · split
          · intro q; have := congrArg List.length q; simp at this
          · intro q; have := congrArg List.length q; simp [shutdownFinish] at this

theorem qmono_clientShutdown (s : State) (c : Nat) : QMono s (clientShutdown s c).1 := by
  unfold clientShutdown
  split
  · exact ⟨Or.inl rfl, Or.inl rfl, id, rfl, rfl⟩
  · obtain ⟨a, q, f, w, cf⟩ := qmono_shutdownSendCmd { s with shutting := true } c
    exact ⟨a, q, fun _ => f rfl, w, cf⟩

theorem qmono_resume {s s' : State} {out : Out} {c : Nat} (hr : resume s c = .ok (s', out)) : QMono s s' := by
  unfold resume at hr
  split at hr
  · cases hr
  · rename_i p hg
    dsimp only at hr
    split at hr
    · rename_i cmd
      split at hr
      · cases hr
      · simp only [Except.ok.injEq] at hr
        have e : s' = (sendCmd { s with pend := s.pend.del c } c cmd).1 := by rw [hr]
        rw [e]
        obtain ⟨a, q, f, w, cf⟩ := qmono_sendCmd { s with pend := s.pend.del c } c cmd
        exact ⟨a, q, f, w, cf⟩
    · split at hr
      · cases hr
      · simp only [Except.ok.injEq] at hr
        have e : s' = (shutdownSendCmd { s with pend := s.pend.del c } c).1 := by rw [hr]
        rw [e]
        obtain ⟨a, q, f, w, cf⟩ := qmono_shutdownSendCmd { s with pend := s.pend.del c } c
        exact ⟨a, q, f, w, cf⟩
    · split at hr
      · cases hr
      · simp only [Except.ok.injEq] at hr
        have e : s' = (shutdownSendBuf { s with pend := s.pend.del c } c).1 := by rw [hr]
        rw [e]
        obtain ⟨a, q, f, w, cf⟩ := qmono_shutdownSendBuf { s with pend := s.pend.del c } c
        exact ⟨a, q, f, w, cf⟩

/-! ### every event -/

/-- Case analysis of a Layer A step, as far as the queue is concerned. -/
theorem qstep_cases {s s' : State} {ev : Ev} {o o' : Oracle} {out : Out} (h : step s ev o = .ok (s', out, o')) :
    (∃ c, QClientShape s c (s', out)) ∨ QSame s s' ∨ (∃ c, ev = .shutdown c ∧ clientShutdown s c = (s', out)) ∨
    (∃ c, ev = .resume c ∧ resume s c = .ok (s', out)) ∨ (ev = .worker ∧ workerStep s o = .ok (s', out, o')) := by
  cases ev with
  | put c k v =>
    simp only [step, Except.ok.injEq, Prod.mk.injEq] at h; obtain ⟨rfl, rfl, -⟩ := h
    exact Or.inl ⟨c, qshape_clientPut s c k v⟩
  | putW c k v w =>
    simp only [step, Except.ok.injEq, Prod.mk.injEq] at h; obtain ⟨rfl, rfl, -⟩ := h
    exact Or.inl ⟨c, qshape_clientPutW s c k v w⟩
  | putTtl c k v t =>
    simp only [step, Except.ok.injEq, Prod.mk.injEq] at h; obtain ⟨rfl, rfl, -⟩ := h
    exact Or.inl ⟨c, qshape_clientPutTtl s c k v t⟩
  | putWTtl c k v w t =>
    simp only [step, Except.ok.injEq, Prod.mk.injEq] at h; obtain ⟨rfl, rfl, -⟩ := h
    exact Or.inl ⟨c, qshape_clientPutWTtl s c k v w t⟩
  | upsert c k v w t rm =>
    simp only [step, Except.ok.injEq, Prod.mk.injEq] at h; obtain ⟨rfl, rfl, -⟩ := h
    exact Or.inl ⟨c, qshape_clientUpsert s c k v w t rm⟩
  | delete c k =>
    simp only [step, Except.ok.injEq, Prod.mk.injEq] at h; obtain ⟨rfl, rfl, -⟩ := h
    exact Or.inl ⟨c, qshape_clientDelete s c k⟩
  | get k =>
    simp only [step] at h
    exact Or.inr (Or.inl (qsame_clientGet h))
  | multiGet ks =>
    simp only [step] at h
    exact Or.inr (Or.inl (qsame_clientMultiGet h))
  | weight =>
    simp only [step, Except.ok.injEq, Prod.mk.injEq] at h; obtain ⟨rfl, -, -⟩ := h
    exact Or.inr (Or.inl (QSame.refl s))
  | stats =>
    simp only [step, Except.ok.injEq, Prod.mk.injEq] at h; obtain ⟨rfl, -, -⟩ := h
    exact Or.inr (Or.inl (QSame.refl s))
  | worker =>
    simp only [step] at h
    exact Or.inr (Or.inr (Or.inr (Or.inr ⟨rfl, h⟩)))
  | sweep =>
    simp only [step] at h
    split at h
    · rename_i r hr
      simp only [Except.ok.injEq, Prod.mk.injEq] at h; obtain ⟨rfl, -, -⟩ := h
      exact Or.inr (Or.inl (qsame_sweepStep (out := r.2) hr))
    · cases h
  | consumer =>
    simp only [step] at h
    exact Or.inr (Or.inl (qsame_consumerStep h))
  | advance d =>
    simp only [step, Except.ok.injEq, Prod.mk.injEq] at h; obtain ⟨rfl, -, -⟩ := h
    exact Or.inr (Or.inl (QSame.of_eq rfl rfl rfl rfl rfl rfl rfl))
  | shutdown c =>
    simp only [step, Except.ok.injEq, Prod.mk.injEq] at h; obtain ⟨rfl, rfl, -⟩ := h
    exact Or.inr (Or.inr (Or.inl ⟨c, rfl, rfl⟩))
  | resume c =>
    simp only [step] at h
    split at h
    · rename_i r hr
      simp only [Except.ok.injEq, Prod.mk.injEq] at h; obtain ⟨rfl, rfl, -⟩ := h
      exact Or.inr (Or.inr (Or.inr (Or.inl ⟨c, rfl, hr⟩)))
    · cases h
  | poll hd =>
    simp only [step] at h
    split at h
    · simp only [Except.ok.injEq, Prod.mk.injEq] at h; obtain ⟨rfl, -, -⟩ := h
      exact Or.inr (Or.inl (QSame.refl s))
    · cases h

theorem qinv_init (cfg : Cfg) (now : Nat) (seeds : List Nat) : QInv (State.init cfg now seeds) := by
  refine ⟨List.Pairwise.nil, ?_, ?_, ?_, Nat.zero_le _, Nat.zero_le _, ?_, ?_, ?_⟩
  · intro h hh; cases hh
  · intro h hh; cases hh
  · intro _ h hh; simp [State.init] at hh
  · intro hh; simp [State.init] at hh
  · intro x hx; cases hx
  · intro c p hg; simp [State.init] at hg

theorem qinv_step {s s' : State} {ev : Ev} {o o' : Oracle} {out : Out} (h : QInv s)
    (hs : step s ev o = .ok (s', out, o')) : QInv s' := by
  rcases qstep_cases hs with ⟨c, hc⟩ | hsame | ⟨c, -, hc⟩ | ⟨c, -, hc⟩ | ⟨-, hw⟩
  · exact qinv_clientShape h hc
  · exact h.same hsame
  · have := qinv_clientShutdown h c
    rw [hc] at this; exact this
  · exact qinv_resume h hc
  · exact qinv_workerStep h hw

/-- non-worker events only extend the acknowledgement list and the queue -/
theorem qmono_step {s s' : State} {ev : Ev} {o o' : Oracle} {out : Out} (hev : ev ≠ .worker)
    (hs : step s ev o = .ok (s', out, o')) : QMono s s' := by
  rcases qstep_cases hs with ⟨c, hc⟩ | hsame | ⟨c, -, hc⟩ | ⟨c, -, hc⟩ | ⟨he, -⟩
  · exact qmono_clientShape hc
  · exact QMono.of_same hsame
  · have := qmono_clientShutdown s c
    rw [hc] at this; exact this
  · exact qmono_resume hc
  · exact absurd he hev

/-- States reachable from the initial state by Layer A steps (with any oracles). -/
inductive QReach (cfg : Cfg) (now : Nat) (seeds : List Nat) : State → Prop
  | init : QReach cfg now seeds (State.init cfg now seeds)
  | step {s s' : State} {ev : Ev} {o o' : Oracle} {out : Out} :
      QReach cfg now seeds s → step s ev o = .ok (s', out, o') → QReach cfg now seeds s'

theorem qinv_reach {cfg : Cfg} {now : Nat} {seeds : List Nat} {s : State} (h : QReach cfg now seeds s) :
    QInv s := by
  induction h with
  | init => exact qinv_init cfg now seeds
  | step _ hs ih => exact qinv_step ih hs


/-! ### the two blocking sends of `shutdown()` -/

/-- `shutdown()` has run to its end: both helper threads are told to stop, everything is cleared -/
def ShutFinished (s : State) : Prop :=
  s.consumerKeep = false ∧ s.sweeperKeep = false ∧ s.store = [] ∧ s.adm.kw = [] ∧ s.adm.used = 0 ∧ s.ttl = []

theorem shutFinished_shutdownFinish (s : State) : ShutFinished (shutdownFinish s) := ⟨rfl, rfl, rfl, rfl, rfl, rfl⟩

/-- the second send: either the call runs to its end, or (consumer alive, buffer channel full) parks there -/
theorem shutdownSendBuf_qspec (s : State) (c : Nat) :
    ((shutdownSendBuf s c).2 = .none ∧ ShutFinished (shutdownSendBuf s c).1 ∧ (shutdownSendBuf s c).1.pend = s.pend) ∨
    (s.consumerAlive = true ∧ s.bufq.length ≥ s.cfg.bufChanCap ∧
      shutdownSendBuf s c = ({ s with pend := s.pend.set c .shutdownBuf }, .parked)) := by
  unfold shutdownSendBuf
  split
  · exact Or.inl ⟨rfl, shutFinished_shutdownFinish _, rfl⟩
  · rename_i ha
    split
    · rename_i hf
      exact Or.inr ⟨by simpa using ha, hf, rfl⟩
    · exact Or.inl ⟨rfl, shutFinished_shutdownFinish _, rfl⟩

/-- the first send: either (worker alive, queue full) the call parks there, or it goes on to the second send
    from a state with the same parking slots, buffer channel and consumer -/
theorem shutdownSendCmd_qspec (s : State) (c : Nat) :
    (s.worker ≠ .dead ∧ s.queue.length ≥ s.cfg.cmdCap ∧
      shutdownSendCmd s c = ({ s with pend := s.pend.set c .shutdownCmd }, .parked)) ∨
    (¬ (s.worker ≠ .dead ∧ s.queue.length ≥ s.cfg.cmdCap) ∧
      ∃ s1 : State, s1.pend = s.pend ∧ s1.bufq = s.bufq ∧ s1.consumerAlive = s.consumerAlive ∧ s1.cfg = s.cfg ∧
        s1.shutting = s.shutting ∧ shutdownSendCmd s c = shutdownSendBuf s1 c) := by
  unfold shutdownSendCmd
  split
  · rename_i hd
    exact Or.inr ⟨fun h => h.1 hd, s, rfl, rfl, rfl, rfl, rfl, rfl⟩
  · rename_i hd
    split
    · rename_i hf
      exact Or.inl ⟨hd, hf, rfl⟩
    · rename_i hf
      exact Or.inr ⟨fun h => hf h.2, { s with queue := s.queue ++ [(.shutdown, none)] }, rfl, rfl, rfl, rfl, rfl, rfl⟩

/-- `resume` of a call parked at the first send, when enabled -/
theorem qresume_shutdownCmd {s : State} {c : Nat} (hp : s.pend.get? c = some .shutdownCmd)
    (he : ¬ (s.worker ≠ .dead ∧ s.queue.length ≥ s.cfg.cmdCap)) :
    resume s c = .ok (shutdownSendCmd { s with pend := s.pend.del c } c) := by
  unfold resume
  rw [hp]
  simp only []
  have : (s.worker ≠ .dead && decide (s.queue.length ≥ s.cfg.cmdCap)) = false := by
    cases hb : (s.worker ≠ .dead && decide (s.queue.length ≥ s.cfg.cmdCap)) with
    | false => rfl
    | true =>
      simp only [Bool.and_eq_true, decide_eq_true_eq] at hb
      exact absurd hb he
  rw [this]
  rfl

/-- `resume` of a call parked at the second send, when enabled -/
theorem qresume_shutdownBuf {s : State} {c : Nat} (hp : s.pend.get? c = some .shutdownBuf)
    (he : ¬ (s.consumerAlive = true ∧ s.bufq.length ≥ s.cfg.bufChanCap)) :
    resume s c = .ok (shutdownSendBuf { s with pend := s.pend.del c } c) := by
  unfold resume
  rw [hp]
  simp only []
  have : (s.consumerAlive && decide (s.bufq.length ≥ s.cfg.bufChanCap)) = false := by
    cases hb : (s.consumerAlive && decide (s.bufq.length ≥ s.cfg.bufChanCap)) with
    | false => rfl
    | true =>
      simp only [Bool.and_eq_true, decide_eq_true_eq] at hb
      exact absurd hb he
  rw [this]
  rfl

/-! ### concrete runs (for the non-vacuity examples of C11 and C13) -/

deriving instance DecidableEq for Out

/-- runs events with the empty oracle (enough whenever admission has room), collecting the outputs -/
def qrun (s : State) : List Ev → Option (State × List Out)
  | [] => some (s, [])
  | ev :: evs =>
    match step s ev {} with
    | .ok (s', out, _) =>
      (match qrun s' evs with
       | some (s'', outs) => some (s'', out :: outs)
       | none => none)
    | .error _ => none

/-- runs events, each with its own oracle, collecting the outputs -/
def qrunO (s : State) : List (Ev × Oracle) → Option (State × List Out)
  | [] => some (s, [])
  | (ev, o) :: evs =>
    match step s ev o with
    | .ok (s', out, _) =>
      (match qrunO s' evs with
       | some (s'', outs) => some (s'', out :: outs)
       | none => none)
    | .error _ => none

/-- the part of a state the queue properties talk about -/
structure QView where
  queue : List (Cmd × Option Nat)
  acks : List Status
  worker : WorkerMode
  shutting : Bool
  pend : List (Nat × Pending)
  deriving DecidableEq, Repr

def State.qview (s : State) : QView := ⟨s.queue, s.acks, s.worker, s.shutting, s.pend⟩

/-- a small configuration: command queue of capacity `cap` -/
def qcfg (cap : Nat) : Cfg :=
  { maxWeight := 100, shards := 4, cmdCap := cap, poolSize := 1, bufSize := 2, counters := 2 }

end Cached
