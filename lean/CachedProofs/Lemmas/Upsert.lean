/-
  Helper lemmas for C08 (put_or_update) and C17 (no panics): frame facts of `sendCmd` / `spotAck`,
  a normal form of `clientUpsert` on a physically present key, panic-freedom of the single calls.
-/
import CachedProofs.Lemmas.AMap
import CachedProofs.Lemmas.EvictId
import CachedProofs.Properties.C14
import CachedModel.State

namespace Cached

/-! ### `addTime` -/

theorem addTime_eq_some {now t x : Nat} (h : addTime now t = some x) : x = now + t := by
  unfold addTime at h; split at h <;> simp at h; exact h.symm

theorem addTime_some_iff (now t : Nat) : (∃ x, addTime now t = some x) ↔ addTime now t = some (now + t) := by
  constructor
  · rintro ⟨x, h⟩; rw [h, addTime_eq_some h]
  · intro h; exact ⟨_, h⟩

/-! ### `sendCmd`, `spotAck`: what they touch -/

theorem sendCmd_frame (s : State) (c : Nat) (cmd : Cmd) :
    (sendCmd s c cmd).1.store = s.store ∧ (sendCmd s c cmd).1.ttl = s.ttl ∧ (sendCmd s c cmd).1.adm = s.adm ∧
    (sendCmd s c cmd).1.now = s.now ∧ (sendCmd s c cmd).1.cfg = s.cfg ∧ (sendCmd s c cmd).1.worker = s.worker ∧
    (sendCmd s c cmd).1.stats = s.stats ∧ (sendCmd s c cmd).1.shutting = s.shutting := by
  unfold sendCmd; split
  · simp
  · split <;> simp

theorem spotAck_frame (s : State) (st : Status) :
    (spotAck s st).1.store = s.store ∧ (spotAck s st).1.ttl = s.ttl ∧ (spotAck s st).1.adm = s.adm ∧
    (spotAck s st).1.now = s.now ∧ (spotAck s st).1.cfg = s.cfg ∧ (spotAck s st).1.worker = s.worker ∧
    (spotAck s st).1.stats = s.stats ∧ (spotAck s st).1.shutting = s.shutting := by
  simp [spotAck]

/-- the three possible answers of a send -/
theorem sendCmd_cases (s : State) (c : Nat) (cmd : Cmd) :
    (s.worker = .dead ∧ sendCmd s c cmd = (s, .err)) ∨
    (s.worker ≠ .dead ∧ s.queue.length ≥ s.cfg.cmdCap ∧
      sendCmd s c cmd = ({ s with pend := s.pend.set c (.send cmd) }, .parked)) ∨
    (s.worker ≠ .dead ∧ s.queue.length < s.cfg.cmdCap ∧
      sendCmd s c cmd = ({ s with queue := s.queue ++ [(cmd, some s.acks.length)], acks := s.acks ++ [.pending] },
                         .ack s.acks.length .pending)) := by
  unfold sendCmd
  by_cases h1 : s.worker = .dead
  · simp [h1]
  · by_cases h2 : s.queue.length ≥ s.cfg.cmdCap
    · simp [h1, h2]
    · have : s.queue.length < s.cfg.cmdCap := by omega
      simp [h1, h2, this]

theorem sendCmd_no_panic (s : State) (c : Nat) (cmd : Cmd) (p : Panic) : (sendCmd s c cmd).2 ≠ .panic p := by
  unfold sendCmd; split
  · simp
  · split <;> simp

theorem spotAck_no_panic (s : State) (st : Status) (p : Panic) : (spotAck s st).2 ≠ .panic p := by
  simp [spotAck]

/-- once the worker is dead every send fails and changes nothing -/
theorem sendCmd_dead (s : State) (c : Nat) (cmd : Cmd) (h : s.worker = .dead) : sendCmd s c cmd = (s, .err) := by
  simp [sendCmd, h]

/-! ### normal form of `clientUpsert` on a physically present key -/

/-- the new deadline computed by `StoredValue::update`; outer `none` = `now + ttl` is not representable -/
def upsertNewExpiry? (s : State) (e : Entry) (ttl : Option Nat) (rm : Bool) : Option (Option Nat) :=
  if rm then some none
  else match ttl with
    | some t => (match addTime s.now t with | some x => some (some x) | none => none)
    | none => some e.expiry

/-- the deadline the request asks for -/
def upsertExpiry (s : State) (e : Entry) (ttl : Option Nat) (rm : Bool) : Option Nat :=
  if rm then none else match ttl with | some t => some (s.now + t) | none => e.expiry

/-- the expiry index after the in-place update -/
def upsertIndex (s : State) (id : Nat) (old new : Option Nat) : AMap (Nat × Nat) Nat :=
  match typeOfExpiryUpdate old new with
  | .added n => s.ttl.set (shardOf s.cfg n, id) n
  | .deleted o => s.ttl.del (shardOf s.cfg o, id)
  | .updated o n => (s.ttl.del (shardOf s.cfg o, id)).set (shardOf s.cfg n, id) n
  | .nothing => s.ttl

/-- the state right after the in-place update, before anything is sent -/
def upsertMid (s : State) (k : Nat) (e : Entry) (v : Option Nat) (ne : Option Nat) : State :=
  { s with store := s.store.set k { e with expiry := ne, value := v.getD e.value },
           ttl := upsertIndex s e.id e.expiry ne }

/-- the weight currently charged for an id (0 if none) -/
def chargedWeight (s : State) (id : Nat) : Int :=
  match s.adm.kw.get? id with | some wk => wk.weight | none => 0

/-- the weight currently charged for an id, if it is charged at all (`weight_of(&key_id)`; fix c86efeb: an id that is
    no longer charged has no weight to adjust) -/
def chargedWeight? (s : State) (id : Nat) : Option Int := (s.adm.kw.get? id).map (·.weight)

theorem chargedWeight?_eq_some {s : State} {id : Nat} {wk : WKey} (h : s.adm.kw.get? id = some wk) :
    chargedWeight? s id = some wk.weight := by
  simp [chargedWeight?, h]

theorem chargedWeight?_eq_none {s : State} {id : Nat} (h : s.adm.kw.get? id = none) : chargedWeight? s id = none := by
  simp [chargedWeight?, h]

theorem chargedWeight?_some_iff {s : State} {id : Nat} {x : Int} :
    chargedWeight? s id = some x ↔ ∃ wk, s.adm.kw.get? id = some wk ∧ wk.weight = x := by
  unfold chargedWeight?
  cases s.adm.kw.get? id <;> simp

theorem chargedWeight_of_some {s : State} {id : Nat} {x : Int} (h : chargedWeight? s id = some x) :
    chargedWeight s id = x := by
  obtain ⟨wk, hw, hx⟩ := chargedWeight?_some_iff.mp h
  simp [chargedWeight, hw, hx]

/-- the weight the `UpdateWeight` command carries, if one is sent (none is sent for a pure time-to-live change of a key
    id that is not charged) -/
def upsertWeight (s : State) (e : Entry) (v : Option Nat) (w : Option Int) (ttl : Option Nat) (ne : Option Nat) :
    Option Int :=
  match w with
  | some x => some x
  | none =>
    match v with
    | some val => some (s.cfg.weightOf val ttl.isSome)
    | none =>
      match e.expiry, ne with
      | none, some _ => (chargedWeight? s e.id).map (· + s.cfg.ttlEntry)
      | some _, none => (chargedWeight? s e.id).map (· - s.cfg.ttlEntry)
      | _, _ => none

/-- the tail of `put_or_update`: assertions on the weight, then the send (or the on-the-spot answer) -/
def upsertFinish (s2 : State) (c id : Nat) (uw : Option Int) : State × Out :=
  match uw with
  | some weight =>
    if !inI64 weight then (s2, .panic .weightOverflow)
    else if weight ≤ 0 then (s2, .panic .weightNotPositive)
    else sendCmd s2 c (.updateWeight id weight)
  | none => spotAck s2 .accepted

theorem upsertNewExpiry?_eq (s : State) (e : Entry) (ttl : Option Nat) (rm : Bool)
    (hov : ∀ t, ttl = some t → rm = false → addTime s.now t = some (s.now + t)) :
    upsertNewExpiry? s e ttl rm = some (upsertExpiry s e ttl rm) := by
  unfold upsertNewExpiry? upsertExpiry
  cases rm with
  | true => rfl
  | false =>
    cases ttl with
    | none => rfl
    | some t => simp [hov t rfl rfl]

theorem upsertNewExpiry?_some {s : State} {e : Entry} {ttl : Option Nat} {rm : Bool} {ne : Option Nat}
    (h : upsertNewExpiry? s e ttl rm = some ne) : ne = upsertExpiry s e ttl rm := by
  unfold upsertNewExpiry? at h
  unfold upsertExpiry
  cases rm with
  | true => simpa using h.symm
  | false =>
    cases ttl with
    | none => simpa using h.symm
    | some t =>
      simp only [Bool.false_eq_true, if_false] at h ⊢
      cases ha : addTime s.now t with
      | none => simp [ha] at h
      | some x => simp only [ha, Option.some.injEq] at h; rw [← h, addTime_eq_some ha]

theorem upsertNewExpiry?_none {s : State} {e : Entry} {ttl : Option Nat} {rm : Bool}
    (h : upsertNewExpiry? s e ttl rm = none) : rm = false ∧ ∃ t, ttl = some t ∧ addTime s.now t = none := by
  unfold upsertNewExpiry? at h
  cases rm with
  | true => simp at h
  | false =>
    cases ttl with
    | none => simp at h
    | some t =>
      refine ⟨rfl, t, rfl, ?_⟩
      cases ha : addTime s.now t with
      | none => rfl
      | some x => simp [ha] at h

set_option linter.unusedSimpArgs false in
/-- **Normal form**: on a physically present key `put_or_update` is: update the entry in place, fix the expiry index,
    then check and send the weight. -/
theorem clientUpsert_present (s : State) (c k : Nat) (v : Option Nat) (w : Option Int) (ttl : Option Nat) (rm : Bool)
    (e : Entry) (ne : Option Nat) (hsh : s.shutting = false) (hk : s.store.get? k = some e)
    (hne : upsertNewExpiry? s e ttl rm = some ne) :
    clientUpsert s c k v w ttl rm = upsertFinish (upsertMid s k e v ne) c e.id (upsertWeight s e v w ttl ne) := by
  unfold clientUpsert
  rw [if_neg (show ¬ s.shutting = true by simp [hsh])]
  simp only [hk]
  unfold upsertNewExpiry? at hne
  split
  · rename_i heq
    have h2 : (none : Option (Option Nat)) = some ne := heq.symm.trans hne
    cases h2
  · rename_i ne' heq
    have h2 : some ne' = some ne := heq.symm.trans hne
    cases h2
    clear heq hne
    cases he : e.expiry with
    | none =>
      cases ne <;> cases w <;> cases v <;>
        simp [typeOfExpiryUpdate, upsertFinish, upsertMid, upsertWeight, upsertIndex, chargedWeight?, he,
          ttlPut, ttlDelete, ttlUpdate] <;> rfl
    | some a =>
      cases ne with
      | none =>
        cases w <;> cases v <;>
          simp [typeOfExpiryUpdate, upsertFinish, upsertMid, upsertWeight, upsertIndex, chargedWeight?, he,
            ttlPut, ttlDelete, ttlUpdate] <;> rfl
      | some b =>
        by_cases hab : a = b <;> cases w <;> cases v <;>
          simp [typeOfExpiryUpdate, upsertFinish, upsertMid, upsertWeight, upsertIndex, chargedWeight?, he, hab,
            ttlPut, ttlDelete, ttlUpdate] <;> rfl

theorem clientUpsert_present_overflow (s : State) (c k : Nat) (v : Option Nat) (w : Option Int) (ttl : Option Nat)
    (rm : Bool) (e : Entry) (hsh : s.shutting = false) (hk : s.store.get? k = some e)
    (hne : upsertNewExpiry? s e ttl rm = none) :
    clientUpsert s c k v w ttl rm = (s, .panic .timeOverflow) := by
  obtain ⟨hrm, t, ht, ha⟩ := upsertNewExpiry?_none hne
  subst hrm; subst ht
  unfold clientUpsert
  simp only [hsh, Bool.false_eq_true, if_false, hk, ha]

/-- whatever the tail of `put_or_update` answers, store / index / weights / clock stay as the in-place update left them -/
theorem upsertFinish_frame (s2 : State) (c id : Nat) (uw : Option Int) :
    (upsertFinish s2 c id uw).1.store = s2.store ∧ (upsertFinish s2 c id uw).1.ttl = s2.ttl ∧
    (upsertFinish s2 c id uw).1.adm = s2.adm ∧ (upsertFinish s2 c id uw).1.now = s2.now ∧
    (upsertFinish s2 c id uw).1.cfg = s2.cfg ∧ (upsertFinish s2 c id uw).1.worker = s2.worker := by
  unfold upsertFinish
  cases uw with
  | none => simp [spotAck]
  | some x =>
    simp only
    split
    · simp
    · split
      · simp
      · have := sendCmd_frame s2 c (.updateWeight id x)
        exact ⟨this.1, this.2.1, this.2.2.1, this.2.2.2.1, this.2.2.2.2.1, this.2.2.2.2.2.1⟩

/-- the answers `put_or_update` can give for a physically present key (once `now + ttl` is representable) -/
theorem upsertFinish_out (s2 : State) (c id : Nat) (uw : Option Int) :
    (upsertFinish s2 c id uw).2 = .err ∨ (upsertFinish s2 c id uw).2 = .parked ∨
    (upsertFinish s2 c id uw).2 = .ack s2.acks.length .pending ∨
    (upsertFinish s2 c id uw).2 = .ack s2.acks.length .accepted ∨
    (upsertFinish s2 c id uw).2 = .panic .weightNotPositive ∨ (upsertFinish s2 c id uw).2 = .panic .weightOverflow := by
  unfold upsertFinish
  cases uw with
  | none => simp [spotAck]
  | some x =>
    simp only
    split
    · simp
    · split
      · simp
      · rcases sendCmd_cases s2 c (.updateWeight id x) with ⟨_, h⟩ | ⟨_, _, h⟩ | ⟨_, _, h⟩ <;> simp [h]

theorem upsertFinish_no_panic (s2 : State) (c id : Nat) (uw : Option Int)
    (h : ∀ x, uw = some x → inI64 x = true ∧ 0 < x) (p : Panic) : (upsertFinish s2 c id uw).2 ≠ .panic p := by
  unfold upsertFinish
  cases uw with
  | none => simp [spotAck]
  | some x =>
    obtain ⟨h1, h2⟩ := h x rfl
    have : ¬ x ≤ 0 := by omega
    simp only [h1, Bool.not_true, Bool.false_eq_true, if_false, this]
    exact sendCmd_no_panic _ _ _ _

/-! ### the worker loop -/

/-- how the worker loop ends an iteration: complete the acknowledgement, or die -/
def workerFinish (h : Option Nat) (kind : String) (r : Exec × Oracle) : Except String (State × Out × Oracle) :=
  match r with
  | (.done s1 st ie pp ev, o') => .ok ({ s1 with acks := setAck s1.acks h st }, .worked kind st ie pp ev, o')
  | (.panicked s1 p, o') => .ok ({ s1 with worker := .dead, queue := [] }, .workerPanic p, o')

/-- one iteration of a running worker, by head command -/
theorem workerStep_running (s : State) (o : Oracle) (cmd : Cmd) (h : Option Nat) (q : List (Cmd × Option Nat))
    (hrun : s.worker = .running) (hq : s.queue = (cmd, h) :: q) :
    workerStep s o =
      (match (generalizing := false) cmd with
        | .shutdown =>
          .ok ({ s with queue := q, worker := .draining, acks := setAck s.acks h .accepted },
               .worked "Shutdown" .accepted none [] [], o)
        | .put id hash w k v =>
          (match workerPut { s with queue := q } id hash w k v none o with
            | .ok r => workerFinish h "Put" r | .error m => .error m)
        | .putTtl id hash w k v t =>
          (match workerPut { s with queue := q } id hash w k v (some t) o with
            | .ok r => workerFinish h "PutWithTTL" r | .error m => .error m)
        | .updateWeight id w => workerFinish h "UpdateWeight" (workerUpdateWeight { s with queue := q } id w, o)
        | .delete k => workerFinish h "Delete" (workerDelete { s with queue := q } k, o)) := by
  unfold workerStep
  split
  · next hw => rw [hrun] at hw; cases hw
  · next hq' _ => rw [hq] at hq'; cases hq'
  · next hw _ => rw [hrun] at hw; cases hw
  · next cmd' h' q' hw hq' =>
    rw [hq] at hq'
    cases hq'
    cases cmd <;> rfl

/-! ### no client call panics; what the calls do to the `worker` field -/

theorem clientPutChecked_no_panic (s : State) (c k v : Nat) (w : Int) (ttl : Option Nat) (p : Panic) :
    (clientPutChecked s c k v w ttl).2 ≠ .panic p := by
  unfold clientPutChecked
  split
  · exact spotAck_no_panic _ _ _
  · cases ttl <;> exact sendCmd_no_panic _ _ _ _

theorem clientPutChecked_worker (s : State) (c k v : Nat) (w : Int) (ttl : Option Nat) :
    (clientPutChecked s c k v w ttl).1.worker = s.worker := by
  unfold clientPutChecked
  split
  · rfl
  · cases ttl <;> exact (sendCmd_frame _ _ _).2.2.2.2.2.1

theorem shutdownSendBuf_no_panic (s : State) (c : Nat) (p : Panic) : (shutdownSendBuf s c).2 ≠ .panic p := by
  unfold shutdownSendBuf
  split
  · simp
  · split <;> simp

theorem shutdownSendBuf_worker (s : State) (c : Nat) : (shutdownSendBuf s c).1.worker = s.worker := by
  unfold shutdownSendBuf
  split
  · rfl
  · split <;> rfl

theorem shutdownSendCmd_no_panic (s : State) (c : Nat) (p : Panic) : (shutdownSendCmd s c).2 ≠ .panic p := by
  unfold shutdownSendCmd
  split
  · exact shutdownSendBuf_no_panic _ _ _
  · split
    · simp
    · exact shutdownSendBuf_no_panic _ _ _

theorem shutdownSendCmd_worker (s : State) (c : Nat) : (shutdownSendCmd s c).1.worker = s.worker := by
  unfold shutdownSendCmd
  split
  · exact shutdownSendBuf_worker _ _
  · split
    · rfl
    · exact shutdownSendBuf_worker _ _

theorem clientShutdown_no_panic (s : State) (c : Nat) (p : Panic) : (clientShutdown s c).2 ≠ .panic p := by
  unfold clientShutdown
  split
  · simp
  · exact shutdownSendCmd_no_panic _ _ _

theorem clientShutdown_worker (s : State) (c : Nat) : (clientShutdown s c).1.worker = s.worker := by
  unfold clientShutdown
  split
  · rfl
  · exact shutdownSendCmd_worker _ _

theorem resume_no_panic (s : State) (c : Nat) (r : State × Out) (h : resume s c = .ok r) (p : Panic) :
    r.2 ≠ .panic p := by
  unfold resume at h
  split at h
  · cases h
  · simp only [] at h
    split at h <;> split at h <;> (try cases h)
    · exact sendCmd_no_panic _ _ _ _
    · exact shutdownSendCmd_no_panic _ _ _
    · exact shutdownSendBuf_no_panic _ _ _

theorem resume_worker (s : State) (c : Nat) (r : State × Out) (h : resume s c = .ok r) : r.1.worker = s.worker := by
  unfold resume at h
  split at h
  · cases h
  · simp only [] at h
    split at h <;> split at h <;> (try cases h)
    · exact (sendCmd_frame _ _ _).2.2.2.2.2.1
    · exact shutdownSendCmd_worker _ _
    · exact shutdownSendBuf_worker _ _

/-- `put_or_update` never touches the worker -/
theorem clientUpsert_worker (s : State) (c k : Nat) (v : Option Nat) (w : Option Int) (ttl : Option Nat) (rm : Bool) :
    (clientUpsert s c k v w ttl rm).1.worker = s.worker := by
  cases hsh : s.shutting with
  | true => simp [clientUpsert, hsh]
  | false =>
    cases hk : s.store.get? k with
    | none =>
      unfold clientUpsert
      simp only [hsh, Bool.false_eq_true, if_false, hk]
      split
      · split
        · rfl
        · cases ttl <;> exact (sendCmd_frame _ _ _).2.2.2.2.2.1
      · rfl
    | some e =>
      cases hne : upsertNewExpiry? s e ttl rm with
      | none => rw [clientUpsert_present_overflow s c k v w ttl rm e hsh hk hne]
      | some ne =>
        rw [clientUpsert_present s c k v w ttl rm e ne hsh hk hne, (upsertFinish_frame _ _ _ _).2.2.2.2.2]
        rfl

theorem acceptBuffer_worker (s : State) (hs : List Nat) : (acceptBuffer s hs).worker = s.worker := by
  unfold acceptBuffer; split <;> rfl

theorem poolAdd_worker {s s' : State} {h : Nat} {o o' : Oracle} (hp : poolAdd s h o = .ok (s', o')) :
    s'.worker = s.worker := by
  unfold poolAdd at hp
  split at hp
  · cases hp
  · split at hp
    · cases hp
    · simp only [] at hp
      split at hp <;>
        (simp only [Except.ok.injEq, Prod.mk.injEq] at hp; obtain ⟨rfl, _⟩ := hp; simp [acceptBuffer_worker])

theorem readKey_worker {s s' : State} {k : Nat} {o o' : Oracle} {r : Option Nat}
    (h : readKey s k o = .ok (s', r, o')) : s'.worker = s.worker := by
  unfold readKey at h
  split at h
  · split at h
    · simp only [] at h
      split at h
      · rename_i hp
        simp only [Except.ok.injEq, Prod.mk.injEq] at h
        obtain ⟨rfl, _⟩ := h
        have := poolAdd_worker hp
        simpa using this
      · cases h
    · simp only [Except.ok.injEq, Prod.mk.injEq] at h; obtain ⟨rfl, _⟩ := h; rfl
  · simp only [Except.ok.injEq, Prod.mk.injEq] at h; obtain ⟨rfl, _⟩ := h; rfl

theorem readKeys_worker : ∀ (ks : List Nat) (s s' : State) (o o' : Oracle) (acc r : List (Option Nat)),
    readKeys s ks o acc = .ok (s', r, o') → s'.worker = s.worker := by
  intro ks
  induction ks with
  | nil =>
    intro s s' o o' acc r h
    simp only [readKeys, Except.ok.injEq, Prod.mk.injEq] at h
    obtain ⟨rfl, _⟩ := h; rfl
  | cons k ks ih =>
    intro s s' o o' acc r h
    unfold readKeys at h
    split at h
    · rename_i hr
      rw [ih _ _ _ _ _ _ h, readKey_worker hr]
    · cases h

theorem applyEvict_worker (s : State) (e : Evicted) : (applyEvict s e).worker = s.worker := by
  obtain ⟨a, b, c⟩ := e
  unfold applyEvict
  simp only []
  split <;> rfl

theorem foldl_applyEvict_worker (evs : List Evicted) (s : State) : (evs.foldl applyEvict s).worker = s.worker := by
  induction evs generalizing s with
  | nil => rfl
  | cons e rest ih => rw [List.foldl_cons, ih, applyEvict_worker]

theorem sweepEvict_worker (s : State) (id : Nat) : (sweepEvict s id).1.worker = s.worker := by
  rcases sweepEvict_cases s id with h0 | ⟨wk, _, _, h1⟩
  · rw [h0]
  · rw [h1]
    exact (applyEvictId_rest _ _).2.2.2.2.2.2.2.2.2.2.2.1

theorem sweepEntries_worker : ∀ (l : List ((Nat × Nat) × Nat)) (s : State) (acc : List Evicted),
    (sweepEntries s l acc).1.worker = s.worker := by
  intro l
  induction l with
  | nil => intro s acc; rfl
  | cons p rest ih =>
    intro s acc
    obtain ⟨⟨sh, id⟩, x⟩ := p
    unfold sweepEntries
    simp only []
    rw [ih, sweepEvict_worker]

theorem sweepStep_ok {s s' : State} {out : Out} (h : sweepStep s = .ok (s', out)) :
    (∃ ev, out = .swept ev) ∧ s'.worker = s.worker := by
  unfold sweepStep at h
  split at h
  · cases h
  · simp only [Except.ok.injEq, Prod.mk.injEq] at h
    obtain ⟨rfl, rfl⟩ := h
    exact ⟨⟨_, rfl⟩, sweepEntries_worker _ _ _⟩

theorem consumerStep_ok {s s' : State} {o o' : Oracle} {out : Out} (h : consumerStep s o = .ok (s', out, o')) :
    out = .consumed ∧ s'.worker = s.worker := by
  unfold consumerStep at h
  split at h
  · cases h
  · split at h
    · cases h
    · simp only [Except.ok.injEq, Prod.mk.injEq] at h; obtain ⟨rfl, rfl, _⟩ := h; exact ⟨rfl, rfl⟩
    · split at h
      · cases h
      · split at h <;>
          (simp only [Except.ok.injEq, Prod.mk.injEq] at h; obtain ⟨rfl, rfl, _⟩ := h; exact ⟨rfl, rfl⟩)

/-! ### the sketch never indexes out of bounds -/

/-- the model's rendering of an index-out-of-bounds panic inside the sketch -/
def sketchPanic : String := "panic: sketch index out of bounds"

theorem TinyLFU.incrementFor_isSome (t : TinyLFU) (wf : t.fc.WF) (h : Nat) (added : Bool) :
    ∃ t', t.incrementFor h added = some t' := by
  obtain ⟨⟨fc', hfc, _⟩, _⟩ := C14_in_bounds t.fc wf h
  unfold TinyLFU.incrementFor
  cases added <;> simp [hfc]

theorem TinyLFU.estimate_isSome (t : TinyLFU) (wf : t.fc.WF) (h : Nat) (b : Bool) :
    ∃ e, t.estimate h b = some e := by
  obtain ⟨_, e, he, _⟩ := C14_in_bounds t.fc wf h
  refine ⟨e + (if b then 1 else 0), ?_⟩
  simp [TinyLFU.estimate, he]

theorem estimateO_no_sketch_panic (t : TinyLFU) (wf : t.fc.WF) (h : Nat) (o : Oracle) :
    estimateO t h o ≠ .error sketchPanic := by
  unfold estimateO
  split
  · simp [sketchPanic]
  · split
    · simp [sketchPanic]
    · rename_i b rest heq hleg
      obtain ⟨e, he⟩ := TinyLFU.estimate_isSome t wf h b
      simp [he]

theorem incrementAll_no_sketch_panic : ∀ (hs : List Nat) (t : TinyLFU) (o : Oracle), t.fc.WF →
    incrementAll t hs o ≠ .error sketchPanic := by
  intro hs
  induction hs with
  | nil => intro t o _; simp [incrementAll]
  | cons h hs ih =>
    intro t o wf
    unfold incrementAll
    split
    · simp [sketchPanic]
    · split
      · simp [sketchPanic]
      · rename_i added rest heq hleg
        obtain ⟨t', ht'⟩ := TinyLFU.incrementFor_isSome t wf h added
        simp only [ht']
        exact ih t' _ (TinyLFU.incrementFor_wf wf ht')

theorem fillSample_no_sketch_panic (t : TinyLFU) (wf : t.fc.WF) (kw : AMap Nat WKey) :
    ∀ (n : Nat) (sample : List SKey) (o : Oracle), fillSample t kw n sample o ≠ .error sketchPanic := by
  intro n
  induction n with
  | zero => intro sample o; simp [fillSample]
  | succ n ih =>
    intro sample o
    unfold fillSample
    split
    · simp [sketchPanic]
    · split
      · simp [sketchPanic]
      · split
        · simp [sketchPanic]
        · split
          · rename_i e he
            intro hc
            simp only [Except.error.injEq] at hc
            subst hc
            exact estimateO_no_sketch_panic t wf _ _ he
          · exact ih _ _

theorem createLoop_no_sketch_panic (t : TinyLFU) (wf : t.fc.WF) (size : Nat) (w : Int) (incEst : Nat) :
    ∀ (fuel : Nat) (a : Adm) (sample : List SKey) (o : Oracle) (ev : List Evicted) (pp : List SKey),
      createLoop t size w incEst fuel a sample o ev pp ≠ .error sketchPanic := by
  intro fuel
  induction fuel with
  | zero => intro a sample o ev pp; simp [createLoop, sketchPanic]
  | succ n ih =>
    intro a sample o ev pp
    unfold createLoop
    split
    · simp
    · split
      · simp [sketchPanic]
      · split <;> simp [sketchPanic]
      · split
        · simp [sketchPanic]
        · split
          · simp [sketchPanic]
          · split
            · simp
            · simp only []
              split
              · simp
              · split
                · rename_i e he
                  intro hc
                  simp only [Except.error.injEq] at hc
                  subst hc
                  exact fillSample_no_sketch_panic t wf _ _ _ _ he
                · exact ih _ _ _ _ _

theorem maybeAdd_no_sketch_panic (t : TinyLFU) (wf : t.fc.WF) (size : Nat) (a : Adm) (id key hash : Nat) (w : Int)
    (o : Oracle) : maybeAdd t size a id key hash w o ≠ .error sketchPanic := by
  unfold maybeAdd
  split
  · simp
  · split
    · simp
    split
    · simp
    · split
      · rename_i e he
        intro hc
        simp only [Except.error.injEq] at hc
        subst hc
        exact estimateO_no_sketch_panic t wf _ _ he
      · split
        · rename_i e he
          intro hc
          simp only [Except.error.injEq] at hc
          subst hc
          exact fillSample_no_sketch_panic t wf _ _ _ _ he
        · split
          · rename_i e he
            intro hc
            simp only [Except.error.injEq] at hc
            subst hc
            exact createLoop_no_sketch_panic t wf _ _ _ _ _ _ _ _ _ he
          · simp

/-! ### the worker's single commands -/

def Exec.isDone : Exec → Bool
  | .done .. => true
  | .panicked .. => false

def Exec.state : Exec → State
  | .done s .. => s
  | .panicked s _ => s

theorem workerFinish_done {h : Option Nat} {kind : String} {r : Exec} {o' o'' : Oracle} {s' : State} {out : Out}
    (hd : r.isDone = true) (hf : workerFinish h kind (r, o') = .ok (s', out, o'')) :
    (∀ p, out ≠ .workerPanic p) ∧ (∀ p, out ≠ .panic p) ∧ s'.worker = r.state.worker := by
  cases r with
  | panicked s1 p => simp [Exec.isDone] at hd
  | done s1 st ie pp ev =>
    simp only [workerFinish, Except.ok.injEq, Prod.mk.injEq] at hf
    obtain ⟨rfl, rfl, _⟩ := hf
    exact ⟨fun _ => by simp, fun _ => by simp, rfl⟩

theorem workerFinish_isOk (h : Option Nat) (kind : String) (r : Exec × Oracle) :
    ∃ x, workerFinish h kind r = .ok x := by
  obtain ⟨r, o⟩ := r
  cases r <;> exact ⟨_, rfl⟩

/-- a put executed by the worker panics only in `now + ttl` and in `max_weight - weight_used` (`hno`: admission does not end
    in that overflow — `maybeAdd_no_overflow` where the accounting is in order); it never touches the `worker` field;
    its only sketch-related failure is excluded by well-formedness -/
theorem workerPut_done {s : State} {id hash k v : Nat} {w : Int} {ttl : Option Nat} {o o' : Oracle} {r : Exec}
    (hadd : ∀ t, ttl = some t → ∃ x, addTime s.now t = some x)
    (hno : ∀ res, maybeAdd s.lfu s.cfg.sampleSize s.adm id k hash w o = .ok res → res.overflow = false)
    (h : workerPut s id hash w k v ttl o = .ok (r, o')) : r.isDone = true ∧ r.state.worker = s.worker := by
  unfold workerPut at h
  split at h
  · simp only [Except.ok.injEq, Prod.mk.injEq] at h; obtain ⟨rfl, _⟩ := h; exact ⟨rfl, rfl⟩
  · split at h
    · cases h
    · rename_i res hres
      simp only [] at h
      rw [hno res hres] at h
      simp only [Bool.false_eq_true, if_false] at h
      split at h
      · split at h
        · simp only [Except.ok.injEq, Prod.mk.injEq] at h; obtain ⟨rfl, _⟩ := h
          exact ⟨rfl, by simp [Exec.state, foldl_applyEvict_worker]⟩
        · rename_i t
          obtain ⟨x, hx⟩ := hadd t rfl
          simp only [hx, Except.ok.injEq, Prod.mk.injEq] at h; obtain ⟨rfl, _⟩ := h
          exact ⟨rfl, by simp [Exec.state, ttlPut, foldl_applyEvict_worker]⟩
      · simp only [Except.ok.injEq, Prod.mk.injEq] at h; obtain ⟨rfl, _⟩ := h
        exact ⟨rfl, by simp [Exec.state, foldl_applyEvict_worker]⟩

theorem workerPut_no_sketch_panic (s : State) (wf : s.lfu.fc.WF) (id hash k v : Nat) (w : Int) (ttl : Option Nat)
    (o : Oracle) : workerPut s id hash w k v ttl o ≠ .error sketchPanic := by
  unfold workerPut
  split
  · simp
  · split
    · rename_i e he
      intro hc
      simp only [Except.error.injEq] at hc
      subst hc
      exact maybeAdd_no_sketch_panic _ wf _ _ _ _ _ _ _ he
    · simp only []
      split
      · simp
      split
      · split
        · simp
        · split <;> simp
      · simp

theorem workerDelete_done (s : State) (k : Nat) :
    (workerDelete s k).isDone = true ∧ (workerDelete s k).state.worker = s.worker := by
  unfold workerDelete
  split
  · exact ⟨rfl, rfl⟩
  · simp only []
    refine ⟨rfl, ?_⟩
    simp only [Exec.state]
    split <;> split <;> simp [ttlDelete]

theorem workerUpdateWeight_done (s : State) (id : Nat) (w : Int)
    (h : ∀ wk, s.adm.kw.get? id = some wk → inI64 (w - wk.weight) = true ∧ inI64 (s.adm.used + (w - wk.weight)) = true) :
    (workerUpdateWeight s id w).isDone = true ∧ (workerUpdateWeight s id w).state.worker = s.worker := by
  unfold workerUpdateWeight
  split
  · exact ⟨rfl, rfl⟩
  · rename_i wk hk
    obtain ⟨h1, h2⟩ := h wk hk
    simp only [h1, h2, Bool.not_true, Bool.or_self, Bool.false_eq_true, if_false]
    exact ⟨rfl, rfl⟩

/-! ### whole steps -/

theorem clientPuts_worker (s : State) (c k v t : Nat) (w : Int) :
    (clientPut s c k v).1.worker = s.worker ∧ (clientPutW s c k v w).1.worker = s.worker ∧
    (clientPutTtl s c k v t).1.worker = s.worker ∧ (clientPutWTtl s c k v w t).1.worker = s.worker := by
  refine ⟨?_, ?_, ?_, ?_⟩
  · unfold clientPut; simp only []; split; rfl; split; rfl; exact clientPutChecked_worker _ _ _ _ _ _
  · unfold clientPutW; split; rfl; split; rfl; exact clientPutChecked_worker _ _ _ _ _ _
  · unfold clientPutTtl; split; rfl; simp only []; split; rfl; exact clientPutChecked_worker _ _ _ _ _ _
  · unfold clientPutWTtl; split; rfl; split; rfl; exact clientPutChecked_worker _ _ _ _ _ _

theorem clientDelete_worker (s : State) (c k : Nat) : (clientDelete s c k).1.worker = s.worker := by
  unfold clientDelete
  split
  · rfl
  · exact (sendCmd_frame _ _ _).2.2.2.2.2.1

def Ev.isWorker : Ev → Bool
  | .worker => true
  | _ => false

/-- only the worker's own step changes the `worker` field -/
theorem step_worker_frame {s s' : State} {ev : Ev} {o o' : Oracle} {out : Out}
    (hev : ev.isWorker = false)
    (h : step s ev o = .ok (s', out, o')) : s'.worker = s.worker := by
  cases ev with
  | worker => simp [Ev.isWorker] at hev
  | put c k v =>
    simp only [step, Except.ok.injEq, Prod.mk.injEq] at h; obtain ⟨rfl, _⟩ := h
    exact (clientPuts_worker s c k v 0 0).1
  | putW c k v w =>
    simp only [step, Except.ok.injEq, Prod.mk.injEq] at h; obtain ⟨rfl, _⟩ := h
    exact (clientPuts_worker s c k v 0 w).2.1
  | putTtl c k v t =>
    simp only [step, Except.ok.injEq, Prod.mk.injEq] at h; obtain ⟨rfl, _⟩ := h
    exact (clientPuts_worker s c k v t 0).2.2.1
  | putWTtl c k v w t =>
    simp only [step, Except.ok.injEq, Prod.mk.injEq] at h; obtain ⟨rfl, _⟩ := h
    exact (clientPuts_worker s c k v t w).2.2.2
  | upsert c k v w t rm =>
    simp only [step, Except.ok.injEq, Prod.mk.injEq] at h; obtain ⟨rfl, _⟩ := h
    exact clientUpsert_worker _ _ _ _ _ _ _
  | delete c k =>
    simp only [step, Except.ok.injEq, Prod.mk.injEq] at h; obtain ⟨rfl, _⟩ := h
    exact clientDelete_worker _ _ _
  | get k =>
    simp only [step] at h
    unfold clientGet at h
    split at h
    · simp only [Except.ok.injEq, Prod.mk.injEq] at h; obtain ⟨rfl, _⟩ := h; rfl
    · split at h
      · rename_i hr
        simp only [Except.ok.injEq, Prod.mk.injEq] at h; obtain ⟨rfl, _⟩ := h
        exact readKey_worker hr
      · cases h
  | multiGet ks =>
    simp only [step] at h
    unfold clientMultiGet at h
    split at h
    · simp only [Except.ok.injEq, Prod.mk.injEq] at h; obtain ⟨rfl, _⟩ := h; rfl
    · split at h
      · rename_i hr
        simp only [Except.ok.injEq, Prod.mk.injEq] at h; obtain ⟨rfl, _⟩ := h
        exact readKeys_worker _ _ _ _ _ _ _ hr
      · cases h
  | weight => simp only [step, Except.ok.injEq, Prod.mk.injEq] at h; obtain ⟨rfl, _⟩ := h; rfl
  | stats => simp only [step, Except.ok.injEq, Prod.mk.injEq] at h; obtain ⟨rfl, _⟩ := h; rfl
  | sweep =>
    simp only [step] at h
    split at h
    · rename_i r hr
      simp only [Except.ok.injEq, Prod.mk.injEq] at h; obtain ⟨rfl, _⟩ := h
      exact (sweepStep_ok (out := r.2) hr).2
    · cases h
  | consumer => exact (consumerStep_ok h).2
  | advance d => simp only [step, Except.ok.injEq, Prod.mk.injEq] at h; obtain ⟨rfl, _⟩ := h; rfl
  | shutdown c =>
    simp only [step, Except.ok.injEq, Prod.mk.injEq] at h; obtain ⟨rfl, _⟩ := h
    exact clientShutdown_worker _ _
  | resume c =>
    simp only [step] at h
    split at h
    · rename_i r hr
      simp only [Except.ok.injEq, Prod.mk.injEq] at h; obtain ⟨rfl, _⟩ := h
      exact resume_worker _ _ _ hr
    · cases h
  | poll hd =>
    simp only [step] at h
    split at h
    · simp only [Except.ok.injEq, Prod.mk.injEq] at h; obtain ⟨rfl, _⟩ := h; rfl
    · cases h

/-! `.workerPanic` is an output of the worker's event only -/

theorem sendCmd_ne_workerPanic (s : State) (c : Nat) (cmd : Cmd) (p : Panic) : (sendCmd s c cmd).2 ≠ .workerPanic p := by
  unfold sendCmd; split
  · simp
  · split <;> simp

theorem clientPutChecked_ne_workerPanic (s : State) (c k v : Nat) (w : Int) (ttl : Option Nat) (p : Panic) :
    (clientPutChecked s c k v w ttl).2 ≠ .workerPanic p := by
  unfold clientPutChecked
  split
  · simp [spotAck]
  · cases ttl <;> exact sendCmd_ne_workerPanic _ _ _ _

theorem clientPuts_ne_workerPanic (s : State) (c k v t : Nat) (w : Int) (p : Panic) :
    (clientPut s c k v).2 ≠ .workerPanic p ∧ (clientPutW s c k v w).2 ≠ .workerPanic p ∧
    (clientPutTtl s c k v t).2 ≠ .workerPanic p ∧ (clientPutWTtl s c k v w t).2 ≠ .workerPanic p := by
  refine ⟨?_, ?_, ?_, ?_⟩
  · unfold clientPut; simp only []; split; simp; split; simp; exact clientPutChecked_ne_workerPanic _ _ _ _ _ _ _
  · unfold clientPutW; split; simp; split; simp; exact clientPutChecked_ne_workerPanic _ _ _ _ _ _ _
  · unfold clientPutTtl; split; simp; simp only []; split; simp; exact clientPutChecked_ne_workerPanic _ _ _ _ _ _ _
  · unfold clientPutWTtl; split; simp; split; simp; exact clientPutChecked_ne_workerPanic _ _ _ _ _ _ _

theorem clientUpsert_ne_workerPanic (s : State) (c k : Nat) (v : Option Nat) (w : Option Int) (ttl : Option Nat)
    (rm : Bool) (p : Panic) : (clientUpsert s c k v w ttl rm).2 ≠ .workerPanic p := by
  cases hsh : s.shutting with
  | true => simp [clientUpsert, hsh]
  | false =>
    cases hk : s.store.get? k with
    | none =>
      unfold clientUpsert
      simp only [hsh, Bool.false_eq_true, if_false, hk]
      split
      · split
        · simp
        · cases ttl <;> exact sendCmd_ne_workerPanic _ _ _ _
      · simp
    | some e =>
      cases hne : upsertNewExpiry? s e ttl rm with
      | none => rw [clientUpsert_present_overflow s c k v w ttl rm e hsh hk hne]; simp
      | some ne =>
        rw [clientUpsert_present s c k v w ttl rm e ne hsh hk hne]
        rcases upsertFinish_out (upsertMid s k e v ne) c e.id (upsertWeight s e v w ttl ne) with
          h | h | h | h | h | h <;> simp [h]

theorem shutdownSendBuf_ne_workerPanic (s : State) (c : Nat) (p : Panic) :
    (shutdownSendBuf s c).2 ≠ .workerPanic p := by
  unfold shutdownSendBuf
  split
  · simp
  · split <;> simp

theorem shutdownSendCmd_ne_workerPanic (s : State) (c : Nat) (p : Panic) :
    (shutdownSendCmd s c).2 ≠ .workerPanic p := by
  unfold shutdownSendCmd
  split
  · exact shutdownSendBuf_ne_workerPanic _ _ _
  · split
    · simp
    · exact shutdownSendBuf_ne_workerPanic _ _ _

theorem resume_ne_workerPanic (s : State) (c : Nat) (r : State × Out) (h : resume s c = .ok r) (p : Panic) :
    r.2 ≠ .workerPanic p := by
  unfold resume at h
  split at h
  · cases h
  · simp only [] at h
    split at h <;> split at h <;> (try cases h)
    · exact sendCmd_ne_workerPanic _ _ _ _
    · exact shutdownSendCmd_ne_workerPanic _ _ _
    · exact shutdownSendBuf_ne_workerPanic _ _ _

theorem step_ne_workerPanic {s s' : State} {ev : Ev} {o o' : Oracle} {out : Out} (hev : ev.isWorker = false)
    (h : step s ev o = .ok (s', out, o')) (p : Panic) : out ≠ .workerPanic p := by
  cases ev with
  | worker => simp [Ev.isWorker] at hev
  | put c k v =>
    simp only [step, Except.ok.injEq, Prod.mk.injEq] at h; obtain ⟨_, rfl, _⟩ := h
    exact (clientPuts_ne_workerPanic s c k v 0 0 p).1
  | putW c k v w =>
    simp only [step, Except.ok.injEq, Prod.mk.injEq] at h; obtain ⟨_, rfl, _⟩ := h
    exact (clientPuts_ne_workerPanic s c k v 0 w p).2.1
  | putTtl c k v t =>
    simp only [step, Except.ok.injEq, Prod.mk.injEq] at h; obtain ⟨_, rfl, _⟩ := h
    exact (clientPuts_ne_workerPanic s c k v t 0 p).2.2.1
  | putWTtl c k v w t =>
    simp only [step, Except.ok.injEq, Prod.mk.injEq] at h; obtain ⟨_, rfl, _⟩ := h
    exact (clientPuts_ne_workerPanic s c k v t w p).2.2.2
  | upsert c k v w t rm =>
    simp only [step, Except.ok.injEq, Prod.mk.injEq] at h; obtain ⟨_, rfl, _⟩ := h
    exact clientUpsert_ne_workerPanic _ _ _ _ _ _ _ _
  | delete c k =>
    simp only [step, Except.ok.injEq, Prod.mk.injEq] at h; obtain ⟨_, rfl, _⟩ := h
    unfold clientDelete; split; simp; exact sendCmd_ne_workerPanic _ _ _ _
  | get k =>
    simp only [step] at h
    unfold clientGet at h
    split at h
    · simp only [Except.ok.injEq, Prod.mk.injEq] at h; obtain ⟨_, rfl, _⟩ := h; simp
    · split at h
      · simp only [Except.ok.injEq, Prod.mk.injEq] at h; obtain ⟨_, rfl, _⟩ := h; simp
      · cases h
  | multiGet ks =>
    simp only [step] at h
    unfold clientMultiGet at h
    split at h
    · simp only [Except.ok.injEq, Prod.mk.injEq] at h; obtain ⟨_, rfl, _⟩ := h; simp
    · split at h
      · simp only [Except.ok.injEq, Prod.mk.injEq] at h; obtain ⟨_, rfl, _⟩ := h; simp
      · cases h
  | weight => simp only [step, Except.ok.injEq, Prod.mk.injEq] at h; obtain ⟨_, rfl, _⟩ := h; simp
  | stats => simp only [step, Except.ok.injEq, Prod.mk.injEq] at h; obtain ⟨_, rfl, _⟩ := h; simp
  | sweep =>
    simp only [step] at h
    split at h
    · rename_i r hr
      simp only [Except.ok.injEq, Prod.mk.injEq] at h; obtain ⟨_, rfl, _⟩ := h
      obtain ⟨ev, hev⟩ := (sweepStep_ok (s' := r.1) (out := r.2) hr).1
      simp [hev]
    · cases h
  | consumer => rw [(consumerStep_ok h).1]; simp
  | advance d => simp only [step, Except.ok.injEq, Prod.mk.injEq] at h; obtain ⟨_, rfl, _⟩ := h; simp
  | shutdown c =>
    simp only [step, Except.ok.injEq, Prod.mk.injEq] at h; obtain ⟨_, rfl, _⟩ := h
    unfold clientShutdown; split; simp; exact shutdownSendCmd_ne_workerPanic _ _ _
  | resume c =>
    simp only [step] at h
    split at h
    · rename_i r hr
      simp only [Except.ok.injEq, Prod.mk.injEq] at h; obtain ⟨_, rfl, _⟩ := h
      exact resume_ne_workerPanic _ _ _ hr p
    · cases h
  | poll hd =>
    simp only [step] at h
    split at h
    · simp only [Except.ok.injEq, Prod.mk.injEq] at h; obtain ⟨_, rfl, _⟩ := h; simp
    · cases h

theorem poolAdd_no_sketch_panic (s : State) (h : Nat) (o : Oracle) : poolAdd s h o ≠ .error sketchPanic := by
  unfold poolAdd
  split
  · simp [sketchPanic]
  · split
    · simp [sketchPanic]
    · simp

theorem readKey_no_sketch_panic (s : State) (k : Nat) (o : Oracle) : readKey s k o ≠ .error sketchPanic := by
  unfold readKey
  split
  · split
    · simp only []
      split
      · simp
      · rename_i m hm
        intro hc
        simp only [Except.error.injEq] at hc
        subst hc
        exact poolAdd_no_sketch_panic _ _ _ hm
    · simp
  · simp

theorem readKeys_no_sketch_panic : ∀ (ks : List Nat) (s : State) (o : Oracle) (acc : List (Option Nat)),
    readKeys s ks o acc ≠ .error sketchPanic := by
  intro ks
  induction ks with
  | nil => intro s o acc; simp [readKeys]
  | cons k ks ih =>
    intro s o acc
    unfold readKeys
    split
    · exact ih _ _ _
    · rename_i m hm
      intro hc
      simp only [Except.error.injEq] at hc
      subst hc
      exact readKey_no_sketch_panic _ _ _ hm

theorem workerStep_no_sketch_panic (s : State) (o : Oracle) (wf : s.lfu.fc.WF) :
    workerStep s o ≠ .error sketchPanic := by
  cases hw : s.worker with
  | dead => simp [workerStep, hw, sketchPanic]
  | draining =>
    cases hq : s.queue with
    | nil => simp [workerStep, hw, hq, sketchPanic]
    | cons p q => simp [workerStep, hw, hq]
  | running =>
    cases hq : s.queue with
    | nil => simp [workerStep, hw, hq, sketchPanic]
    | cons p q =>
      obtain ⟨cmd, h⟩ := p
      rw [workerStep_running s o cmd h q hw hq]
      cases cmd with
      | shutdown => simp
      | put id hash w k v =>
        simp only []
        split
        · obtain ⟨x, hx⟩ := workerFinish_isOk h "Put" ‹_›
          simp [hx]
        · rename_i m hm
          intro hc
          simp only [Except.error.injEq] at hc
          subst hc
          exact workerPut_no_sketch_panic { s with queue := q } wf _ _ _ _ _ _ _ hm
      | putTtl id hash w k v t =>
        simp only []
        split
        · obtain ⟨x, hx⟩ := workerFinish_isOk h "PutWithTTL" ‹_›
          simp [hx]
        · rename_i m hm
          intro hc
          simp only [Except.error.injEq] at hc
          subst hc
          exact workerPut_no_sketch_panic { s with queue := q } wf _ _ _ _ _ _ _ hm
      | updateWeight id w =>
        obtain ⟨x, hx⟩ := workerFinish_isOk h "UpdateWeight" (workerUpdateWeight { s with queue := q } id w, o)
        simp [hx]
      | delete k =>
        obtain ⟨x, hx⟩ := workerFinish_isOk h "Delete" (workerDelete { s with queue := q } k, o)
        simp [hx]

theorem consumerStep_no_sketch_panic (s : State) (o : Oracle) (wf : s.lfu.fc.WF) :
    consumerStep s o ≠ .error sketchPanic := by
  unfold consumerStep
  split
  · simp [sketchPanic]
  · split
    · simp [sketchPanic]
    · simp
    · split
      · rename_i m hm
        intro hc
        simp only [Except.error.injEq] at hc
        subst hc
        exact incrementAll_no_sketch_panic _ _ _ wf hm
      · split <;> simp

/-! ### running a history -/

/-- run a list of events with empty oracles (enough for histories that never evict and never read) -/
def runEvents_Upsert (s : State) : List Ev → Except String State
  | [] => .ok s
  | ev :: evs =>
    match step s ev {} with
    | .ok (s', _, _) => runEvents_Upsert s' evs
    | .error m => .error m

end Cached
