/-
  The statistics invariant behind C15 (every hit is accounted exactly once) and C16 (statistics are exact).

  `SInv s g` relates the ten counters of `s.stats` to the state (`pool`, `bufq`, `store`, `adm`) and to three
  ghost counters `g` (lookups performed, puts refused by admission, access records that left the consumer's queue).
  It holds at every Layer A state reachable WHILE `s.shutting = false`:  `shutdown()` resets `stats := {}`
  but leaves the access buffers of `pool` alone (`shutdownFinish`), so after the shutdown the identities are void
  (a non-empty buffer then breaks `hits = buffered + accessAdded + accessDropped`); nothing is claimed there.
-/
import CachedModel.State
import CachedProofs.Lemmas.AMap
import CachedProofs.Lemmas.EvictId
import CachedProofs.Lemmas.Admission

namespace Cached

/-! ### definitions -/

/-- access records still sitting in the pool's buffers -/
def buffered (s : State) : Nat := (s.pool.map List.length).sum

/-- access records handed to the consumer's queue and not yet taken by it -/
def queuedRecords (s : State) : Nat :=
  (s.bufq.map (fun e => match e with | .full hs => hs.length | .shutdown => 0)).sum

/-- ghost counters carried next to the state: lookups performed, puts refused by admission,
    records applied to the sketch or discarded with the consumer's queue -/
structure Ghost where
  lookups : Nat := 0
  refused : Nat := 0
  applied : Nat := 0
  deriving DecidableEq, Repr

/-- 1 for the outcome of a worker step that is a put refused by admission, else 0 -/
def refusedDelta (out : Out) : Nat :=
  match out with
  | .worked kind st _ _ _ =>
    if (kind = "Put" ∨ kind = "PutWithTTL") ∧ (st = .rejected .noSpace ∨ st = .rejected .tooHeavy) then 1 else 0
  | _ => 0

/-- How the ghosts move with one successful step `step s ev o = .ok (s', out, o')`. -/
def ghostStep (g : Ghost) (s : State) (ev : Ev) (out : Out) (s' : State) : Ghost :=
  match ev with
  | .get _ => { g with lookups := g.lookups + (if s.shutting then 0 else 1) }
  | .multiGet ks => { g with lookups := g.lookups + (if s.shutting then 0 else ks.length) }
  | .worker => { g with refused := g.refused + refusedDelta out }
  | .consumer => { g with applied := g.applied + (queuedRecords s - queuedRecords s') }
  | _ => g

/-- Layer A reachability, with the ghosts. -/
inductive ReachG (cfg : Cfg) (now : Nat) (seeds : List Nat) : State → Ghost → Prop
  | init : ReachG cfg now seeds (State.init cfg now seeds) {}
  | step {s s' : State} {g : Ghost} {ev : Ev} {o o' : Oracle} {out : Out} :
      ReachG cfg now seeds s g → Cached.step s ev o = .ok (s', out, o') →
      ReachG cfg now seeds s' (ghostStep g s ev out s')

/-- the weight carried by a command is not negative -/
def Cmd.weightNonneg : Cmd → Prop
  | .put _ _ w _ _ => 0 ≤ w
  | .putTtl _ _ w _ _ _ => 0 ≤ w
  | .updateWeight _ w => 0 ≤ w
  | _ => True

/-- The statistics invariant (valid while `s.shutting = false`, see the header). -/
structure SInv (s : State) (g : Ghost) : Prop where
  /-- C15: every hit is in exactly one place -/
  conserve : s.stats.hits = buffered s + s.stats.accessAdded + s.stats.accessDropped
  /-- C15: delivered = still queued + applied/discarded -/
  delivered : s.stats.accessAdded = queuedRecords s + g.applied
  /-- C16 -/
  lookups : s.stats.hits + s.stats.misses = g.lookups
  /-- C16 -/
  refused : s.stats.keysRejected = g.refused
  /-- C16 -/
  keys : s.stats.keysAdded = s.stats.keysDeleted + s.store.length
  /-- C16, modulo 2^64 -/
  weight : ((s.stats.weightAdded : Int) - (s.stats.weightRemoved : Int) - s.adm.used) % (u64Mod : Int) = 0
  storeNoDup : AMap.NoDup s.store
  poolShape : s.pool.length = s.cfg.poolSize
  /-- charged weights are not negative -/
  nonneg : ∀ id wk, s.adm.kw.get? id = some wk → 0 ≤ wk.weight
  /-- every queued or parked `put`/`putTtl`/`updateWeight` carries a weight `≥ 0` -/
  cmdsNonneg : (∀ p ∈ s.queue, p.1.weightNonneg) ∧
               (∀ c cmd, s.pend.get? c = some (.send cmd) → cmd.weightNonneg)
  /-- before `shutdown()` only `send`s are parked (a parked `shutdown()` would run `shutdownFinish` when resumed) -/
  pendSend : ∀ c p, s.pend.get? c = some p → ∃ cmd, p = .send cmd

/-! ### the parts of the invariant and the fields each part reads -/

def envView (s : State) := (s.cfg, s.shutting)
def accView (s : State) :=
  (s.pool, s.bufq, s.stats.hits, s.stats.misses, s.stats.accessAdded, s.stats.accessDropped)
def keyView (s : State) := (s.store, s.stats.keysAdded, s.stats.keysDeleted)
def wtView (s : State) := (s.adm, s.stats.weightAdded, s.stats.weightRemoved)
def rejView (s : State) := s.stats.keysRejected
def cmdView (s : State) := (s.queue, s.pend)

structure AccI (s : State) (g : Ghost) : Prop where
  conserve : s.stats.hits = buffered s + s.stats.accessAdded + s.stats.accessDropped
  delivered : s.stats.accessAdded = queuedRecords s + g.applied
  lookups : s.stats.hits + s.stats.misses = g.lookups
  poolShape : s.pool.length = s.cfg.poolSize

structure KeyI (s : State) : Prop where
  keys : s.stats.keysAdded = s.stats.keysDeleted + s.store.length
  storeNoDup : AMap.NoDup s.store

structure WtI (s : State) : Prop where
  weight : ((s.stats.weightAdded : Int) - (s.stats.weightRemoved : Int) - s.adm.used) % (u64Mod : Int) = 0
  nonneg : ∀ id wk, s.adm.kw.get? id = some wk → 0 ≤ wk.weight

structure CmdI (s : State) : Prop where
  queue : ∀ p ∈ s.queue, p.1.weightNonneg
  pend : ∀ c cmd, s.pend.get? c = some (.send cmd) → cmd.weightNonneg
  pendSend : ∀ c p, s.pend.get? c = some p → ∃ cmd, p = .send cmd

theorem sinv_iff {s : State} {g : Ghost} :
    SInv s g ↔ AccI s g ∧ KeyI s ∧ WtI s ∧ s.stats.keysRejected = g.refused ∧ CmdI s := by
  constructor
  · intro h
    exact ⟨⟨h.conserve, h.delivered, h.lookups, h.poolShape⟩, ⟨h.keys, h.storeNoDup⟩, ⟨h.weight, h.nonneg⟩,
      h.refused, ⟨h.cmdsNonneg.1, h.cmdsNonneg.2, h.pendSend⟩⟩
  · rintro ⟨a, k, w, r, c⟩
    exact ⟨a.conserve, a.delivered, a.lookups, r, k.keys, w.weight, k.storeNoDup, a.poolShape, w.nonneg,
      ⟨c.queue, c.pend⟩, c.pendSend⟩

theorem AccI.congr {s s' : State} {g g' : Ghost} (h : AccI s g) (e : envView s' = envView s)
    (a : accView s' = accView s) (gl : g'.lookups = g.lookups) (ga : g'.applied = g.applied) : AccI s' g' := by
  simp only [envView, accView, Prod.mk.injEq] at e a
  obtain ⟨e1, _⟩ := e
  obtain ⟨a1, a2, a3, a4, a5, a6⟩ := a
  have hb : buffered s' = buffered s := by simp [buffered, a1]
  have hq : queuedRecords s' = queuedRecords s := by simp [queuedRecords, a2]
  exact ⟨by rw [a3, hb, a5, a6]; exact h.conserve, by rw [a5, hq, ga]; exact h.delivered,
    by rw [a3, a4, gl]; exact h.lookups, by rw [a1, e1]; exact h.poolShape⟩

theorem KeyI.congr {s s' : State} (h : KeyI s) (k : keyView s' = keyView s) : KeyI s' := by
  simp only [keyView, Prod.mk.injEq] at k
  obtain ⟨k1, k2, k3⟩ := k
  exact ⟨by rw [k1, k2, k3]; exact h.keys, by rw [k1]; exact h.storeNoDup⟩

theorem WtI.congr {s s' : State} (h : WtI s) (w : wtView s' = wtView s) : WtI s' := by
  simp only [wtView, Prod.mk.injEq] at w
  obtain ⟨w1, w2, w3⟩ := w
  exact ⟨by rw [w1, w2, w3]; exact h.weight, by rw [w1]; exact h.nonneg⟩

theorem CmdI.congr {s s' : State} (h : CmdI s) (c : cmdView s' = cmdView s) : CmdI s' := by
  simp only [cmdView, Prod.mk.injEq] at c
  obtain ⟨c1, c2⟩ := c
  exact ⟨by rw [c1]; exact h.queue, by rw [c2]; exact h.pend, by rw [c2]; exact h.pendSend⟩

/-! ### association lists: lengths -/

namespace AMap
variable {α β : Type} [DecidableEq α]

theorem del_absent {m : AMap α β} {a : α} (h : get? m a = none) : del m a = m := by
  induction m with
  | nil => rfl
  | cons p rest ih =>
    obtain ⟨k, v⟩ := p
    by_cases hk : k = a
    · simp [get?_cons, hk] at h
    · simp only [get?_cons, hk, if_false] at h
      simp [del, hk, ih h]

theorem length_del_present {m : AMap α β} (hn : NoDup m) {a : α} {b : β} (h : get? m a = some b) :
    (del m a).length + 1 = m.length := by
  induction m with
  | nil => simp at h
  | cons p rest ih =>
    obtain ⟨k, v⟩ := p
    simp only [NoDup, List.map_cons, List.nodup_cons] at hn
    by_cases hk : k = a
    · subst hk
      have : get? rest k = none := get?_eq_none_iff.mpr hn.1
      simp [del, del_absent this]
    · simp only [get?_cons, hk, if_false] at h
      have := ih hn.2 h
      simp only [del, hk, if_false, List.length_cons]
      omega

theorem length_set_present {m : AMap α β} (hn : NoDup m) {a : α} {b : β} (h : get? m a = some b) (b' : β) :
    (set m a b').length = m.length := by
  have := length_del_present hn h
  simp only [set, List.length_cons]; omega

theorem length_set_absent {m : AMap α β} {a : α} (h : get? m a = none) (b' : β) :
    (set m a b').length = m.length + 1 := by
  simp [set, del_absent h]

theorem contains_false_iff {m : AMap α β} {a : α} : contains m a = false ↔ get? m a = none := by
  unfold contains; cases get? m a <;> simp

end AMap

/-! ### sums of buffer lengths -/

theorem sum_length_set : ∀ (pool : List (List Nat)) (idx : Nat) (buf b' : List Nat), pool[idx]? = some buf →
    ((pool.set idx b').map List.length).sum + buf.length = (pool.map List.length).sum + b'.length := by
  intro pool
  induction pool with
  | nil => intro idx buf b' h; simp at h
  | cons x rest ih =>
    intro idx buf b' h
    cases idx with
    | zero =>
      simp only [List.getElem?_cons_zero, Option.some.injEq] at h
      subst h
      simp only [List.set_cons_zero, List.map_cons, List.sum_cons]; omega
    | succ i =>
      simp only [List.getElem?_cons_succ] at h
      have := ih i buf b' h
      simp only [List.set_cons_succ, List.map_cons, List.sum_cons]; omega

/-! ### the read path: `acceptBuffer`, `poolAdd`, `readKey`, `readKeys` -/

/-- What a read does: `hits`/`misses` move by `h`/`m`, `r` access records are created, and nothing but
    `pool`, `bufq` and the four access counters changes. -/
structure AccStep (s s' : State) (h m r : Nat) : Prop where
  env : envView s' = envView s
  key : keyView s' = keyView s
  wt : wtView s' = wtView s
  rej : rejView s' = rejView s
  cmd : cmdView s' = cmdView s
  lfu : s'.lfu = s.lfu
  worker : s'.worker = s.worker
  hits : s'.stats.hits = s.stats.hits + h
  misses : s'.stats.misses = s.stats.misses + m
  total : buffered s' + s'.stats.accessAdded + s'.stats.accessDropped =
          buffered s + s.stats.accessAdded + s.stats.accessDropped + r
  queued : s'.stats.accessAdded + queuedRecords s = s.stats.accessAdded + queuedRecords s'
  pool : s'.pool.length = s.pool.length

theorem AccStep.refl (s : State) : AccStep s s 0 0 0 :=
  ⟨rfl, rfl, rfl, rfl, rfl, rfl, rfl, rfl, rfl, rfl, rfl, rfl⟩

theorem AccStep.trans {s s' s'' : State} {h m r h' m' r' : Nat} (a : AccStep s s' h m r)
    (b : AccStep s' s'' h' m' r') : AccStep s s'' (h + h') (m + m') (r + r') where
  env := b.env.trans a.env
  key := b.key.trans a.key
  wt := b.wt.trans a.wt
  rej := b.rej.trans a.rej
  cmd := b.cmd.trans a.cmd
  lfu := b.lfu.trans a.lfu
  worker := b.worker.trans a.worker
  hits := by rw [b.hits, a.hits]; omega
  misses := by rw [b.misses, a.misses]; omega
  total := by rw [b.total, a.total]; omega
  queued := by have := a.queued; have := b.queued; omega
  pool := b.pool.trans a.pool

/-- `acceptBuffer` accounts for the whole buffer: delivered or dropped. -/
theorem acceptBuffer_step (s : State) (hs : List Nat) :
    AccStep s (acceptBuffer s hs) 0 0 hs.length ∧ (acceptBuffer s hs).pool = s.pool := by
  unfold acceptBuffer
  split
  · refine ⟨⟨rfl, rfl, rfl, rfl, rfl, rfl, rfl, rfl, rfl, ?_, ?_, rfl⟩, rfl⟩
    · simp only [buffered]; omega
    · simp only [queuedRecords, List.map_append, List.sum_append, List.map_cons, List.map_nil, List.sum_cons,
        List.sum_nil]; omega
  · refine ⟨⟨rfl, rfl, rfl, rfl, rfl, rfl, rfl, rfl, rfl, ?_, rfl, rfl⟩, rfl⟩
    simp only [buffered]; omega

/-- `Pool::add`: exactly one record is created; a full buffer goes to `acceptBuffer` whole. -/
theorem poolAdd_step {s s' : State} {h : Nat} {o o' : Oracle} (hp : poolAdd s h o = .ok (s', o')) :
    AccStep s s' 0 0 1 := by
  unfold poolAdd at hp
  split at hp
  · cases hp
  · split at hp
    · cases hp
    · rename_i _ idx rest _ _ buf hb
      by_cases hc : buf.length ≥ s.cfg.bufSize
      · simp only [hc, if_true, Except.ok.injEq, Prod.mk.injEq] at hp
        obtain ⟨rfl, _⟩ := hp
        obtain ⟨a, hpool⟩ := acceptBuffer_step s buf
        have hb' : (acceptBuffer s buf).pool[idx]? = some buf := by rw [hpool]; exact hb
        have hsum := sum_length_set (acceptBuffer s buf).pool idx buf ([] ++ [h]) hb'
        have ht := a.total
        refine ⟨a.env, a.key, a.wt, a.rej, a.cmd, a.lfu, a.worker, a.hits, a.misses, ?_, a.queued, ?_⟩
        · simp only [buffered, List.nil_append, List.length_singleton] at ht hsum ⊢
          omega
        · simp only [List.length_set]; exact a.pool
      · simp only [hc, if_false, Except.ok.injEq, Prod.mk.injEq] at hp
        obtain ⟨rfl, _⟩ := hp
        have hsum := sum_length_set s.pool idx buf (buf ++ [h]) hb
        refine ⟨rfl, rfl, rfl, rfl, rfl, rfl, rfl, rfl, rfl, ?_, rfl, by simp⟩
        simp only [buffered, List.length_append, List.length_singleton] at hsum ⊢
        omega

theorem missStep (s : State) :
    AccStep s { s with stats := { s.stats with misses := s.stats.misses + 1 } } 0 1 0 :=
  ⟨rfl, rfl, rfl, rfl, rfl, rfl, rfl, rfl, rfl, rfl, rfl, rfl⟩

theorem hitStep (s : State) :
    AccStep s { s with stats := { s.stats with hits := s.stats.hits + 1 } } 1 0 0 :=
  ⟨rfl, rfl, rfl, rfl, rfl, rfl, rfl, rfl, rfl, rfl, rfl, rfl⟩

/-- A lookup is a hit that creates exactly one record, or a miss that changes nothing but `misses`. -/
theorem readKey_step {s s' : State} {k : Nat} {o o' : Oracle} {v : Option Nat}
    (h : readKey s k o = .ok (s', v, o')) :
    (v.isSome = true ∧ AccStep s s' 1 0 1) ∨
    (v = none ∧ s' = { s with stats := { s.stats with misses := s.stats.misses + 1 } } ∧ o' = o) := by
  unfold readKey at h
  split at h
  · split at h
    · simp only [] at h
      split at h
      · rename_i s2 o2 hp
        simp only [Except.ok.injEq, Prod.mk.injEq] at h
        obtain ⟨rfl, rfl, rfl⟩ := h
        exact Or.inl ⟨rfl, (hitStep s).trans (poolAdd_step hp)⟩
      · cases h
    · simp only [Except.ok.injEq, Prod.mk.injEq] at h
      obtain ⟨rfl, rfl, rfl⟩ := h
      exact Or.inr ⟨rfl, rfl, rfl⟩
  · simp only [Except.ok.injEq, Prod.mk.injEq] at h
    obtain ⟨rfl, rfl, rfl⟩ := h
    exact Or.inr ⟨rfl, rfl, rfl⟩

theorem readKey_accStep {s s' : State} {k : Nat} {o o' : Oracle} {v : Option Nat}
    (h : readKey s k o = .ok (s', v, o')) : ∃ hh m, hh + m = 1 ∧ AccStep s s' hh m hh := by
  rcases readKey_step h with ⟨_, a⟩ | ⟨_, rfl, _⟩
  · exact ⟨1, 0, rfl, a⟩
  · exact ⟨0, 1, rfl, missStep s⟩

theorem readKeys_accStep : ∀ (ks : List Nat) (s s' : State) (o o' : Oracle) (acc vs : List (Option Nat)),
    readKeys s ks o acc = .ok (s', vs, o') →
    ∃ hh m, hh + m = ks.length ∧ AccStep s s' hh m hh ∧ vs.length = acc.length + ks.length := by
  intro ks
  induction ks with
  | nil =>
    intro s s' o o' acc vs h
    simp only [readKeys, Except.ok.injEq, Prod.mk.injEq] at h
    obtain ⟨rfl, rfl, _⟩ := h
    exact ⟨0, 0, rfl, AccStep.refl s, by simp⟩
  | cons k ks ih =>
    intro s s' o o' acc vs h
    unfold readKeys at h
    split at h
    · rename_i s1 v o1 hr
      obtain ⟨h1, m1, e1, a1⟩ := readKey_accStep hr
      obtain ⟨h2, m2, e2, a2, hl⟩ := ih _ _ _ _ _ _ h
      refine ⟨h1 + h2, m1 + m2, by simp only [List.length_cons]; omega, a1.trans a2, ?_⟩
      simp only [List.length_cons] at hl ⊢; omega
    · cases h

/-- The access part of the invariant moves with a read: `n` lookups, as many records as hits. -/
theorem AccI.step {s s' : State} {g g' : Ghost} {hh m : Nat} (hi : AccI s g) (a : AccStep s s' hh m hh)
    (gl : g'.lookups = g.lookups + (hh + m)) (ga : g'.applied = g.applied) : AccI s' g' := by
  have e := a.env
  simp only [envView, Prod.mk.injEq] at e
  refine ⟨?_, ?_, ?_, ?_⟩
  · have := a.total; have := a.hits; have := hi.conserve; omega
  · have := a.queued; have := hi.delivered; omega
  · have := a.hits; have := a.misses; have := hi.lookups; omega
  · rw [a.pool, e.1]; exact hi.poolShape

/-! ### preservation, event by event -/

/-- One transition keeps the configuration and the `shutting` flag, and carries the invariant over
    (from ghosts `g` to ghosts `g'`). -/
def Pres (g g' : Ghost) (s s' : State) : Prop := envView s' = envView s ∧ (SInv s g → SInv s' g')

theorem Pres.refl (g : Ghost) (s : State) : Pres g g s s := ⟨rfl, id⟩

theorem Pres.trans {g g' g'' : Ghost} {s s' s'' : State} (a : Pres g g' s s') (b : Pres g' g'' s' s'') :
    Pres g g'' s s'' := ⟨b.1.trans a.1, fun h => b.2 (a.2 h)⟩

/-- Nothing the invariant reads has changed. -/
theorem Pres.of_views {g : Ghost} {s s' : State} (e : envView s' = envView s) (a : accView s' = accView s)
    (k : keyView s' = keyView s) (w : wtView s' = wtView s) (r : rejView s' = rejView s)
    (c : cmdView s' = cmdView s) : Pres g g s s' := by
  refine ⟨e, fun h => ?_⟩
  obtain ⟨ha, hk, hw, hr, hc⟩ := sinv_iff.mp h
  exact sinv_iff.mpr ⟨ha.congr e a rfl rfl, hk.congr k, hw.congr w, by rw [← hr]; exact r, hc.congr c⟩

theorem pres_spotAck (g : Ghost) (s : State) (st : Status) : Pres g g s (spotAck s st).1 :=
  Pres.of_views rfl rfl rfl rfl rfl rfl

theorem cmdI_sendCmd {s : State} (h : CmdI s) (c : Nat) {cmd : Cmd} (hc : cmd.weightNonneg) :
    CmdI (sendCmd s c cmd).1 := by
  unfold sendCmd
  split
  · exact h
  · split
    · refine ⟨h.queue, ?_, ?_⟩
      · intro c' cmd' hg
        simp only [AMap.get?_set] at hg
        split at hg
        · simp only [Option.some.injEq, Pending.send.injEq] at hg; subst hg; exact hc
        · exact h.pend c' cmd' hg
      · intro c' p hg
        simp only [AMap.get?_set] at hg
        split at hg
        · simp only [Option.some.injEq] at hg; exact ⟨cmd, hg.symm⟩
        · exact h.pendSend c' p hg
    · refine ⟨?_, h.pend, h.pendSend⟩
      intro p hp
      simp only [List.mem_append, List.mem_singleton] at hp
      rcases hp with hp | rfl
      · exact h.queue p hp
      · exact hc

theorem pres_sendCmd (g : Ghost) (s : State) (c : Nat) {cmd : Cmd} (hc : cmd.weightNonneg) :
    Pres g g s (sendCmd s c cmd).1 := by
  have hv : envView (sendCmd s c cmd).1 = envView s ∧ accView (sendCmd s c cmd).1 = accView s ∧
      keyView (sendCmd s c cmd).1 = keyView s ∧ wtView (sendCmd s c cmd).1 = wtView s ∧
      rejView (sendCmd s c cmd).1 = rejView s := by
    unfold sendCmd
    split
    · exact ⟨rfl, rfl, rfl, rfl, rfl⟩
    · split <;> exact ⟨rfl, rfl, rfl, rfl, rfl⟩
  obtain ⟨e, a, k, w, r⟩ := hv
  refine ⟨e, fun h => ?_⟩
  obtain ⟨ha, hk, hw, hr, hcm⟩ := sinv_iff.mp h
  exact sinv_iff.mpr ⟨ha.congr e a rfl rfl, hk.congr k, hw.congr w, by rw [← hr]; exact r, cmdI_sendCmd hcm c hc⟩

/-- Replacing the entry of a key that is held (soft delete, in-place update). -/
theorem pres_touch (g : Ghost) (s : State) {k : Nat} {e : Entry} (hg : s.store.get? k = some e) (e' : Entry) :
    Pres g g s { s with store := s.store.set k e' } := by
  refine ⟨rfl, fun h => ?_⟩
  obtain ⟨ha, hk, hw, hr, hcm⟩ := sinv_iff.mp h
  refine sinv_iff.mpr ⟨ha.congr rfl rfl rfl rfl, ⟨?_, AMap.noDup_set hk.storeNoDup k e'⟩, hw.congr rfl, hr,
    hcm.congr rfl⟩
  show s.stats.keysAdded = s.stats.keysDeleted + (s.store.set k e').length
  rw [AMap.length_set_present hk.storeNoDup hg]; exact hk.keys

theorem pres_clientPutChecked (g : Ghost) (s : State) (c k v : Nat) {w : Int} (hw : 0 < w) (ttl : Option Nat) :
    Pres g g s (clientPutChecked s c k v w ttl).1 := by
  unfold clientPutChecked
  split
  · exact pres_spotAck g s _
  · have h1 : Pres g g s { s with nextId := s.nextId + 1 } := Pres.of_views rfl rfl rfl rfl rfl rfl
    split
    · exact h1.trans (pres_sendCmd g _ c (cmd := .put _ _ _ _ _) (by simp only [Cmd.weightNonneg]; omega))
    · exact h1.trans (pres_sendCmd g _ c (cmd := .putTtl _ _ _ _ _ _) (by simp only [Cmd.weightNonneg]; omega))

theorem pres_clientPut (g : Ghost) (s : State) (c k v : Nat) : Pres g g s (clientPut s c k v).1 := by
  unfold clientPut
  extract_lets w
  split
  · exact Pres.refl g s
  · split
    · exact Pres.refl g s
    · exact pres_clientPutChecked g s c k v (by omega) none

theorem pres_clientPutW (g : Ghost) (s : State) (c k v : Nat) (w : Int) : Pres g g s (clientPutW s c k v w).1 := by
  unfold clientPutW
  split
  · exact Pres.refl g s
  · split
    · exact Pres.refl g s
    · exact pres_clientPutChecked g s c k v (by omega) none

theorem pres_clientPutTtl (g : Ghost) (s : State) (c k v t : Nat) : Pres g g s (clientPutTtl s c k v t).1 := by
  unfold clientPutTtl
  split
  · exact Pres.refl g s
  · extract_lets w
    split
    · exact Pres.refl g s
    · exact pres_clientPutChecked g s c k v (by omega) (some t)

theorem pres_clientPutWTtl (g : Ghost) (s : State) (c k v : Nat) (w : Int) (t : Nat) :
    Pres g g s (clientPutWTtl s c k v w t).1 := by
  unfold clientPutWTtl
  split
  · exact Pres.refl g s
  · split
    · exact Pres.refl g s
    · exact pres_clientPutChecked g s c k v (by omega) (some t)

theorem pres_clientDelete (g : Ghost) (s : State) (c k : Nat) : Pres g g s (clientDelete s c k).1 := by
  unfold clientDelete
  split
  · exact Pres.refl g s
  · refine Pres.trans ?_ (pres_sendCmd g _ c (cmd := .delete k) trivial)
    split
    · rename_i e hg
      exact pres_touch g s hg _
    · exact Pres.refl g s

theorem pres_upsert_tail (g : Ghost) (s2 : State) (uw2 : Option Int) (c id : Nat) :
    Pres g g s2 (match uw2 with
          | some weight =>
            if (!inI64 weight) = true then (s2, Out.panic Panic.weightOverflow)
            else
              if weight ≤ 0 then (s2, Out.panic Panic.weightNotPositive)
              else sendCmd s2 c (Cmd.updateWeight id weight)
          | none => spotAck s2 Status.accepted).1 := by
  split
  · split
    · exact Pres.refl g s2
    · split
      · exact Pres.refl g s2
      · exact pres_sendCmd g s2 c (cmd := .updateWeight id _) (by simp only [Cmd.weightNonneg]; omega)
  · exact pres_spotAck g s2 _

theorem pres_clientUpsert (g : Ghost) (s : State) (c k : Nat) (v : Option Nat) (w : Option Int) (ttl : Option Nat)
    (rm : Bool) : Pres g g s (clientUpsert s c k v w ttl rm).1 := by
  unfold clientUpsert
  split
  · exact Pres.refl g s
  · extract_lets uw
    clear_value uw
    split
    · split
      · split
        · exact Pres.refl g s
        · have h1 : Pres g g s { s with nextId := s.nextId + 1 } := Pres.of_views rfl rfl rfl rfl rfl rfl
          split
          · exact h1.trans (pres_sendCmd g _ c (cmd := .putTtl _ _ _ _ _ _) (by simp only [Cmd.weightNonneg]; omega))
          · exact h1.trans (pres_sendCmd g _ c (cmd := .put _ _ _ _ _) (by simp only [Cmd.weightNonneg]; omega))
      · exact Pres.refl g s
    · rename_i e hg
      extract_lets newExp
      clear_value newExp
      split
      · exact Pres.refl g s
      · extract_lets e' s1 existing
        clear_value existing
        have h1 : Pres g g s s1 := pres_touch g s hg e'
        clear_value s1
        split
        rename_i s2 uw2 hpair
        refine Pres.trans (s' := s2) ?_ (pres_upsert_tail g s2 uw2 c _)
        split at hpair <;> cases hpair
        · exact h1.trans (Pres.of_views rfl rfl rfl rfl rfl rfl)
        · exact h1.trans (Pres.of_views rfl rfl rfl rfl rfl rfl)
        · exact h1.trans (Pres.of_views rfl rfl rfl rfl rfl rfl)
        · exact h1

/-! ### shutdown and resume -/

theorem shutdownSendBuf_env (s : State) (c : Nat) : envView (shutdownSendBuf s c).1 = envView s := by
  unfold shutdownSendBuf
  split
  · rfl
  · split <;> rfl

theorem shutdownSendCmd_env (s : State) (c : Nat) : envView (shutdownSendCmd s c).1 = envView s := by
  unfold shutdownSendCmd
  split
  · exact shutdownSendBuf_env s c
  · split
    · rfl
    · exact shutdownSendBuf_env _ c

/-- After `shutdown()` has been called the flag is set, whatever the call did. -/
theorem clientShutdown_shutting (s : State) (c : Nat) : (clientShutdown s c).1.shutting = true := by
  unfold clientShutdown
  split
  · assumption
  · have := shutdownSendCmd_env { s with shutting := true } c
    simp only [envView, Prod.mk.injEq] at this
    exact this.2

theorem clientShutdown_cfg (s : State) (c : Nat) : (clientShutdown s c).1.cfg = s.cfg := by
  unfold clientShutdown
  split
  · rfl
  · have := shutdownSendCmd_env { s with shutting := true } c
    simp only [envView, Prod.mk.injEq] at this
    exact this.1

theorem sendCmd_env (s : State) (c : Nat) (cmd : Cmd) : envView (sendCmd s c cmd).1 = envView s := by
  unfold sendCmd
  split
  · rfl
  · split <;> rfl

theorem pres_resume (g : Ghost) {s s' : State} {out : Out} {c : Nat} (hr : resume s c = .ok (s', out)) :
    Pres g g s s' := by
  unfold resume at hr
  split at hr
  · cases hr
  · rename_i p hg
    dsimp only at hr
    split at hr
    · rename_i cmd
      split at hr
      · cases hr
      · simp only [Except.ok.injEq] at hr
        have e : s' = (sendCmd { s with pend := s.pend.del c } c cmd).1 := by rw [hr]
        rw [e]
        refine ⟨sendCmd_env _ c cmd, fun h => ?_⟩
        · have hc : cmd.weightNonneg := h.cmdsNonneg.2 c cmd hg
          refine (pres_sendCmd g _ c hc).2 ?_
          obtain ⟨ha, hk, hw, hr', hcm⟩ := sinv_iff.mp h
          refine sinv_iff.mpr ⟨ha.congr rfl rfl rfl rfl, hk.congr rfl, hw.congr rfl, hr', hcm.queue, ?_, ?_⟩
          · intro c' cmd' hg'
            simp only [AMap.get?_del] at hg'
            split at hg'
            · cases hg'
            · exact hcm.pend c' cmd' hg'
          · intro c' p' hg'
            simp only [AMap.get?_del] at hg'
            split at hg'
            · cases hg'
            · exact hcm.pendSend c' p' hg'
    · split at hr
      · cases hr
      · simp only [Except.ok.injEq] at hr
        have e : s' = (shutdownSendCmd { s with pend := s.pend.del c } c).1 := by rw [hr]
        rw [e]
        refine ⟨shutdownSendCmd_env _ c, fun h => ?_⟩
        obtain ⟨cmd, hc⟩ := h.pendSend c _ hg
        cases hc
    · split at hr
      · cases hr
      · simp only [Except.ok.injEq] at hr
        have e : s' = (shutdownSendBuf { s with pend := s.pend.del c } c).1 := by rw [hr]
        rw [e]
        refine ⟨shutdownSendBuf_env _ c, fun h => ?_⟩
        obtain ⟨cmd, hc⟩ := h.pendSend c _ hg
        cases hc

/-! ### reads and the consumer -/

theorem pres_of_accStep {g g' : Ghost} {s s' : State} {hh m : Nat} (a : AccStep s s' hh m hh)
    (gl : g'.lookups = g.lookups + (hh + m)) (ga : g'.applied = g.applied) (gr : g'.refused = g.refused) :
    Pres g g' s s' := by
  refine ⟨a.env, fun h => ?_⟩
  obtain ⟨ha, hk, hw, hr, hc⟩ := sinv_iff.mp h
  exact sinv_iff.mpr ⟨ha.step a gl ga, hk.congr a.key, hw.congr a.wt, by rw [gr, ← hr]; exact a.rej, hc.congr a.cmd⟩

theorem pres_clientGet (g : Ghost) {s s' : State} {k : Nat} {o o' : Oracle} {out : Out}
    (h : clientGet s k o = .ok (s', out, o')) :
    Pres g { g with lookups := g.lookups + (if s.shutting then 0 else 1) } s s' := by
  unfold clientGet at h
  split at h
  · rename_i hs
    simp only [Except.ok.injEq, Prod.mk.injEq] at h
    obtain ⟨rfl, _, _⟩ := h
    exact pres_of_accStep (AccStep.refl s) (by simp [hs]) rfl rfl
  · rename_i hs
    split at h
    · rename_i s1 v o1 hr
      simp only [Except.ok.injEq, Prod.mk.injEq] at h
      obtain ⟨rfl, _, _⟩ := h
      obtain ⟨hh, m, e, a⟩ := readKey_accStep hr
      exact pres_of_accStep a (by simp [hs, e]) rfl rfl
    · cases h

theorem pres_clientMultiGet (g : Ghost) {s s' : State} {ks : List Nat} {o o' : Oracle} {out : Out}
    (h : clientMultiGet s ks o = .ok (s', out, o')) :
    Pres g { g with lookups := g.lookups + (if s.shutting then 0 else ks.length) } s s' := by
  unfold clientMultiGet at h
  split at h
  · rename_i hs
    simp only [Except.ok.injEq, Prod.mk.injEq] at h
    obtain ⟨rfl, _, _⟩ := h
    exact pres_of_accStep (AccStep.refl s) (by simp [hs]) rfl rfl
  · rename_i hs
    split at h
    · rename_i s1 v o1 hr
      simp only [Except.ok.injEq, Prod.mk.injEq] at h
      obtain ⟨rfl, _, _⟩ := h
      obtain ⟨hh, m, e, a, _⟩ := readKeys_accStep _ _ _ _ _ _ _ hr
      exact pres_of_accStep a (by simp [hs, e]) rfl rfl
    · cases h

/-- `incrementAll` consumes exactly one `add_if_missing` answer per hash and nothing else of the oracle. -/
theorem incrementAll_oracle : ∀ (hs : List Nat) (t t' : TinyLFU) (o o' : Oracle),
    incrementAll t hs o = .ok (t', o') →
    ∃ consumed, o.dkAdd = consumed ++ o'.dkAdd ∧ consumed.length = hs.length ∧
      o'.dk = o.dk ∧ o'.ids = o.ids ∧ o'.pops = o.pops ∧ o'.pool = o.pool := by
  intro hs
  induction hs with
  | nil =>
    intro t t' o o' h
    simp only [incrementAll, Except.ok.injEq, Prod.mk.injEq] at h
    obtain ⟨_, rfl⟩ := h
    exact ⟨[], rfl, rfl, rfl, rfl, rfl, rfl⟩
  | cons x xs ih =>
    intro t t' o o' h
    unfold incrementAll at h
    split at h
    · cases h
    · rename_i added rest hd
      split at h
      · cases h
      · split at h
        · obtain ⟨consumed, h1, h2, h3, h4, h5, h6⟩ := ih _ _ _ _ h
          refine ⟨added :: consumed, ?_, by simp [h2], h3, h4, h5, h6⟩
          rw [hd]; simp only [List.cons_append, List.cons.injEq, true_and]; exact h1
        · cases h

/-- What one consumer step does to the state. -/
theorem consumerStep_shape {s s' : State} {o o' : Oracle} {out : Out} (h : consumerStep s o = .ok (s', out, o')) :
    ∃ q t alive, s' = { s with bufq := q, lfu := t, consumerAlive := alive } ∧
      (q = s.bufq.tail ∨ q = []) := by
  unfold consumerStep at h
  split at h
  · cases h
  · split at h
    · cases h
    · simp only [Except.ok.injEq, Prod.mk.injEq] at h
      obtain ⟨rfl, _, _⟩ := h
      exact ⟨[], s.lfu, false, rfl, Or.inr rfl⟩
    · rename_i hs q hq
      split at h
      · cases h
      · rename_i t o1 _
        split at h
        · simp only [Except.ok.injEq, Prod.mk.injEq] at h
          obtain ⟨rfl, _, _⟩ := h
          exact ⟨q, t, s.consumerAlive, rfl, Or.inl (by rw [hq]; rfl)⟩
        · simp only [Except.ok.injEq, Prod.mk.injEq] at h
          obtain ⟨rfl, _, _⟩ := h
          exact ⟨[], t, false, rfl, Or.inr rfl⟩

theorem queuedRecords_tail_le (s : State) (q : List BufEvent) (t : TinyLFU) (alive : Bool)
    (hq : q = s.bufq.tail ∨ q = []) :
    queuedRecords { s with bufq := q, lfu := t, consumerAlive := alive } ≤ queuedRecords s := by
  rcases hq with rfl | rfl
  · simp only [queuedRecords]
    cases s.bufq with
    | nil => simp
    | cons x xs => simp only [List.tail_cons, List.map_cons, List.sum_cons]; omega
  · simp [queuedRecords]

theorem pres_consumerStep (g : Ghost) {s s' : State} {o o' : Oracle} {out : Out}
    (h : consumerStep s o = .ok (s', out, o')) :
    Pres g { g with applied := g.applied + (queuedRecords s - queuedRecords s') } s s' := by
  obtain ⟨q, t, alive, rfl, hq⟩ := consumerStep_shape h
  have hle := queuedRecords_tail_le s q t alive hq
  refine ⟨rfl, fun hI => ?_⟩
  obtain ⟨ha, hk, hw, hr, hc⟩ := sinv_iff.mp hI
  refine sinv_iff.mpr ⟨⟨ha.conserve, ?_, ha.lookups, ha.poolShape⟩, hk.congr rfl, hw.congr rfl, hr, hc.congr rfl⟩
  have := ha.delivered
  show s.stats.accessAdded = _ + (g.applied + _)
  omega

/-! ### evictions: `applyEvict` and its fold -/

/-- total weight of a list of evictions -/
def evSum (evs : List Evicted) : Int := (evs.map (fun e => e.2.2)).sum

/-- What running the delete hook for evictions of total weight `tot` does. -/
structure EvFold (s s' : State) (tot : Int) : Prop where
  env : envView s' = envView s
  acc : accView s' = accView s
  rej : rejView s' = rejView s
  cmd : cmdView s' = cmdView s
  adm : s'.adm = s.adm
  wAdded : s'.stats.weightAdded = s.stats.weightAdded
  wRemoved : ((s'.stats.weightRemoved : Int) - s.stats.weightRemoved - tot) % (u64Mod : Int) = 0
  key : KeyI s → KeyI s'
  absent : ∀ k, s.store.get? k = none → s'.store.get? k = none

theorem EvFold.refl (s : State) : EvFold s s 0 :=
  ⟨rfl, rfl, rfl, rfl, rfl, rfl, by simp, id, fun _ h => h⟩

theorem EvFold.trans {s s' s'' : State} {a b : Int} (x : EvFold s s' a) (y : EvFold s' s'' b) :
    EvFold s s'' (a + b) where
  env := y.env.trans x.env
  acc := y.acc.trans x.acc
  rej := y.rej.trans x.rej
  cmd := y.cmd.trans x.cmd
  adm := y.adm.trans x.adm
  wAdded := y.wAdded.trans x.wAdded
  wRemoved := by
    have h1 := x.wRemoved; have h2 := y.wRemoved
    simp only [u64Mod] at h1 h2 ⊢
    omega
  key := fun h => y.key (x.key h)
  absent := fun k h => y.absent k (x.absent k h)

theorem applyEvict_evFold (s : State) (e : Evicted) (hw : 0 ≤ e.2.2) : EvFold s (applyEvict s e) e.2.2 := by
  obtain ⟨eid, key, w⟩ := e
  simp only at hw
  simp only [applyEvict]
  split
  · rename_i hc
    refine ⟨rfl, rfl, rfl, rfl, rfl, rfl, ?_, fun hk => ?_, fun k hk => ?_⟩
    · simp only [u64Mod]; omega
    · have hsome : ∃ en, s.store.get? key = some en := by
        unfold AMap.contains at hc
        cases hg : s.store.get? key with
        | none => simp [hg] at hc
        | some en => exact ⟨en, rfl⟩
      obtain ⟨en, hg⟩ := hsome
      have hl := AMap.length_del_present hk.storeNoDup hg
      refine ⟨?_, AMap.noDup_del hk.storeNoDup key⟩
      have := hk.keys
      show s.stats.keysAdded = s.stats.keysDeleted + 1 + (s.store.del key).length
      omega
    · show (s.store.del key).get? k = none
      rw [AMap.get?_del]; split
      · rfl
      · exact hk
  · refine ⟨rfl, rfl, rfl, rfl, rfl, rfl, ?_, fun hk => hk.congr rfl, fun k hk => hk⟩
    simp only [u64Mod]; omega

theorem applyEvictId_evFold (s : State) (e : Evicted) (hw : 0 ≤ e.2.2) : EvFold s (applyEvictId s e) e.2.2 := by
  rw [applyEvictId_eq]
  split
  · exact applyEvict_evFold s e hw
  · obtain ⟨eid, key, w⟩ := e
    simp only at hw
    simp only [evictStatsOnly]
    refine ⟨rfl, rfl, rfl, rfl, rfl, rfl, ?_, fun hk => hk.congr rfl, fun k hk => hk⟩
    simp only [u64Mod]; omega

theorem evSum_cons (e : Evicted) (evs : List Evicted) : evSum (e :: evs) = e.2.2 + evSum evs := by
  simp [evSum]

theorem foldl_applyEvict_StatsInv : ∀ (evs : List Evicted) (s : State), (∀ e ∈ evs, 0 ≤ e.2.2) →
    EvFold s (evs.foldl applyEvict s) (evSum evs) := by
  intro evs
  induction evs with
  | nil => intro s _; exact EvFold.refl s
  | cons e evs ih =>
    intro s h
    rw [evSum_cons, List.foldl_cons]
    exact (applyEvict_evFold s e (h e (by simp))).trans (ih _ (fun x hx => h x (by simp [hx])))

/-! ### admission: what `maybeAdd` does to the total and which weights it evicts -/

/-- charged weights are not negative -/
def KwNonneg (kw : AMap Nat WKey) : Prop := ∀ id wk, kw.get? id = some wk → 0 ≤ wk.weight

theorem KwNonneg.del {kw : AMap Nat WKey} (h : KwNonneg kw) (id : Nat) : KwNonneg (kw.del id) := by
  intro i wk hg
  rw [AMap.get?_del] at hg
  split at hg
  · cases hg
  · exact h i wk hg

theorem KwNonneg.set {kw : AMap Nat WKey} (h : KwNonneg kw) (id : Nat) {wk : WKey} (hw : 0 ≤ wk.weight) :
    KwNonneg (kw.set id wk) := by
  intro i wk' hg
  rw [AMap.get?_set] at hg
  split at hg
  · simp only [Option.some.injEq] at hg; subst hg; exact hw
  · exact h i wk' hg

theorem evSum_nil : evSum [] = 0 := rfl

theorem createLoop_acct (t : TinyLFU) (size : Nat) (w : Int) (incEst : Nat) :
    ∀ (fuel : Nat) (a : Adm) (sample : List SKey) (o : Oracle) (ev : List Evicted) (pp : List SKey)
      (r : LoopResult), KwNonneg a.kw →
      createLoop t size w incEst fuel a sample o ev pp = .ok r →
      ∃ evNew, r.evicted = ev.reverse ++ evNew ∧ (∀ e ∈ evNew, 0 ≤ e.2.2) ∧
        r.adm.used = a.used - evSum evNew ∧ KwNonneg r.adm.kw ∧
        ((r.overflow = false ∧ (r.status = .accepted ∨ r.status = .rejected .noSpace)) ∨
          (r.overflow = true ∧ r.status = .pending)) := by
  intro fuel
  induction fuel with
  | zero => intro a sample o ev pp r _ h; simp [createLoop] at h
  | succ fuel ih =>
    intro a sample o ev pp r hn h
    rw [createLoop] at h
    split at h
    · simp only [Except.ok.injEq] at h
      subst h
      exact ⟨[], by simp, by simp, by simp [evSum_nil], hn, Or.inl ⟨rfl, Or.inl rfl⟩⟩
    · split at h
      · cases h
      · split at h
        · cases h
        · simp only [Except.ok.injEq] at h
          subst h
          exact ⟨[], by simp, by simp, by simp [evSum_nil], hn, Or.inl ⟨rfl, Or.inr rfl⟩⟩
      · rename_i id pops hpops
        split at h
        · cases h
        · rename_i k hk
          split at h
          · cases h
          · split at h
            · simp only [Except.ok.injEq] at h
              subst h
              exact ⟨[], by simp, by simp, by simp [evSum_nil], hn, Or.inl ⟨rfl, Or.inr rfl⟩⟩
            · cases hg : a.kw.get? id with
              | none =>
                rw [Adm.delete_uncharged a id hg] at h
                simp only at h
                split at h
                · simp only [Except.ok.injEq] at h
                  subst h
                  exact ⟨[], by simp, by simp, by simp [evSum_nil], hn, Or.inr ⟨rfl, rfl⟩⟩
                · split at h
                  · cases h
                  · exact ih _ _ _ _ _ _ hn h
              | some wk =>
                rw [Adm.delete_charged a id wk hg] at h
                simp only at h
                split at h
                · simp only [Except.ok.injEq] at h
                  subst h
                  refine ⟨[(id, wk.key, wk.weight)], by simp, ?_, ?_, hn.del id, Or.inr ⟨rfl, rfl⟩⟩
                  · intro e hmem
                    simp only [List.mem_singleton] at hmem
                    subst hmem
                    exact hn id wk hg
                  · rw [evSum_cons, evSum_nil]; simp only; omega
                · split at h
                  · cases h
                  · obtain ⟨evNew, he, hpos, hused, hkw, hst⟩ :=
                      ih { a with kw := a.kw.del id, used := a.used - wk.weight } _ _ _ _ r (hn.del id) h
                    refine ⟨(id, wk.key, wk.weight) :: evNew, by simp [he], ?_, ?_, hkw, hst⟩
                    · intro e hmem
                      simp only [List.mem_cons] at hmem
                      rcases hmem with rfl | hmem
                      · exact hn id wk hg
                      · exact hpos e hmem
                    · rw [hused, evSum_cons]; simp only; omega

/-- `maybe_add`: only weights `≥ 0` are evicted, the total moves by what was evicted and what was added,
    and the answer is `accepted` or one of the two refusals of admission — or there is no answer: the worker panicked in
    `is_space_available_for` (`overflow`, status `.pending`). -/
theorem maybeAdd_acct {t : TinyLFU} {size : Nat} {a : Adm} {id key hash : Nat} {w : Int} {o : Oracle}
    {r : AdmResult} (hn : KwNonneg a.kw) (hw : 0 ≤ w) (h : maybeAdd t size a id key hash w o = .ok r) :
    (∀ e ∈ r.evicted, 0 ≤ e.2.2) ∧ KwNonneg r.adm.kw ∧
    r.adm.used = a.used - evSum r.evicted + (if r.status = .accepted then w else 0) ∧
    ((r.overflow = false ∧ (r.status = .accepted ∨ r.status = .rejected .noSpace ∨ r.status = .rejected .tooHeavy)) ∨
      (r.overflow = true ∧ r.status = .pending)) := by
  unfold maybeAdd at h
  split at h
  · simp only [Except.ok.injEq] at h
    subst h
    exact ⟨by simp, hn, by simp [evSum_nil], Or.inl ⟨rfl, Or.inr (Or.inr rfl)⟩⟩
  · split at h
    · simp only [Except.ok.injEq] at h
      subst h
      exact ⟨by simp, hn, by simp [evSum_nil], Or.inr ⟨rfl, rfl⟩⟩
    split at h
    · simp only [Except.ok.injEq] at h
      subst h
      refine ⟨by simp, hn.set id hw, by simp [evSum_nil, Adm.add], Or.inl ⟨rfl, Or.inl rfl⟩⟩
    · split at h
      · cases h
      · split at h
        · cases h
        · split at h
          · cases h
          · rename_i lr hl
            simp only [Except.ok.injEq] at h
            subst h
            obtain ⟨evNew, he, hpos, hused, hkw, hst⟩ := createLoop_acct _ _ _ _ _ _ _ _ _ _ lr hn hl
            simp only [List.reverse_nil, List.nil_append] at he
            subst he
            refine ⟨hpos, ?_, ?_, ?_⟩
            · simp only
              split
              · exact hkw.set id hw
              · exact hkw
            · simp only
              split
              · simp only [Adm.add]; omega
              · omega
            · rcases hst with ⟨hov, hst | hst⟩ | hst
              · exact Or.inl ⟨hov, Or.inl hst⟩
              · exact Or.inl ⟨hov, Or.inr (Or.inl hst)⟩
              · exact Or.inr hst

/-- The answers of the eviction loop, with no assumption on the state. -/
theorem createLoop_status_or_overflow (t : TinyLFU) (size : Nat) (w : Int) (incEst : Nat) :
    ∀ (fuel : Nat) (a : Adm) (sample : List SKey) (o : Oracle) (ev : List Evicted) (pp : List SKey)
      (r : LoopResult), createLoop t size w incEst fuel a sample o ev pp = .ok r →
      ((r.status = .accepted ∨ r.status = .rejected .noSpace) ∨ (r.overflow = true ∧ r.status = .pending)) := by
  intro fuel
  induction fuel with
  | zero => intro a sample o ev pp r h; simp [createLoop] at h
  | succ fuel ih =>
    intro a sample o ev pp r h
    rw [createLoop] at h
    split at h
    · simp only [Except.ok.injEq] at h; subst h; exact Or.inl (Or.inl rfl)
    · split at h
      · cases h
      · split at h
        · cases h
        · simp only [Except.ok.injEq] at h; subst h; exact Or.inl (Or.inr rfl)
      · split at h
        · cases h
        · split at h
          · cases h
          · split at h
            · simp only [Except.ok.injEq] at h; subst h; exact Or.inl (Or.inr rfl)
            · simp only [] at h
              split at h
              · simp only [Except.ok.injEq] at h; subst h; exact Or.inr ⟨rfl, rfl⟩
              · split at h
                · cases h
                · exact ih _ _ _ _ _ _ h

/-- The answers of `maybe_add`: never `KeyAlreadyExists` / `KeyDoesNotExist` (`.pending`: no answer, the worker's panic in
    `is_space_available_for`). -/
theorem maybeAdd_status_or_overflow {t : TinyLFU} {size : Nat} {a : Adm} {id key hash : Nat} {w : Int} {o : Oracle}
    {r : AdmResult} (h : maybeAdd t size a id key hash w o = .ok r) :
    r.status = .accepted ∨ r.status = .rejected .noSpace ∨ r.status = .rejected .tooHeavy ∨
      (r.overflow = true ∧ r.status = .pending) := by
  unfold maybeAdd at h
  split at h
  · simp only [Except.ok.injEq] at h; subst h; exact Or.inr (Or.inr (Or.inl rfl))
  · split at h
    · simp only [Except.ok.injEq] at h; subst h; exact Or.inr (Or.inr (Or.inr ⟨rfl, rfl⟩))
    split at h
    · simp only [Except.ok.injEq] at h; subst h; exact Or.inl rfl
    · split at h
      · cases h
      · split at h
        · cases h
        · split at h
          · cases h
          · rename_i lr hl
            simp only [Except.ok.injEq] at h
            subst h
            rcases createLoop_status_or_overflow _ _ _ _ _ _ _ _ _ _ lr hl with (hst | hst) | hst
            · exact Or.inl hst
            · exact Or.inr (Or.inl hst)
            · exact Or.inr (Or.inr (Or.inr hst))

/-- A put answered `KeyAlreadyExists` by the worker changed nothing at all. -/
theorem workerPut_exists {s s1 : State} {id hash : Nat} {w : Int} {k v : Nat} {ttl : Option Nat} {o o' : Oracle}
    {ie : Option Nat} {pp : List SKey} {ev : List Evicted}
    (h : workerPut s id hash w k v ttl o = .ok (.done s1 (.rejected .keyAlreadyExists) ie pp ev, o')) :
    s1 = s ∧ s.store.contains k = true := by
  unfold workerPut at h
  split at h
  · rename_i hc
    simp only [Except.ok.injEq, Prod.mk.injEq, Exec.done.injEq] at h
    exact ⟨h.1.1.symm, hc⟩
  · split at h
    · cases h
    · rename_i r hm
      have hst := maybeAdd_status_or_overflow hm
      simp only [] at h
      split at h
      · simp at h
      split at h
      · split at h
        · simp only [Except.ok.injEq, Prod.mk.injEq, Exec.done.injEq] at h
          exact absurd h.1.2.1 (by decide)
        · split at h
          · simp only [Except.ok.injEq, Prod.mk.injEq] at h
            exact absurd h.1 (by intro e; cases e)
          · simp only [Except.ok.injEq, Prod.mk.injEq, Exec.done.injEq] at h
            exact absurd h.1.2.1 (by decide)
      · simp only [Except.ok.injEq, Prod.mk.injEq, Exec.done.injEq] at h
        rw [h.1.2.1] at hst
        rcases hst with e | e | e | ⟨_, e⟩ <;> cases e

/-! ### the worker's commands -/

def Exec.st : Exec → State
  | .done s _ _ _ _ => s
  | .panicked s _ => s

/-- 1 when the command was answered with one of the two refusals of admission -/
def Exec.refusedBy : Exec → Nat
  | .done _ st _ _ _ => if st = .rejected .noSpace ∨ st = .rejected .tooHeavy then 1 else 0
  | .panicked _ _ => 0

/-- What executing one command does, as far as the invariant is concerned; `d` = refusals counted. -/
structure ExecOK (s : State) (x : Exec) (d : Nat) : Prop where
  env : envView x.st = envView s
  acc : accView x.st = accView s
  cmd : cmdView x.st = cmdView s
  key : KeyI x.st
  wt : WtI x.st
  rej : x.st.stats.keysRejected = s.stats.keysRejected + d

theorem keyI_insert {s1 s3 : State} (hk : KeyI s1) {k : Nat} (habs : s1.store.get? k = none) (en : Entry)
    (hst : s3.store = s1.store.set k en) (ha : s3.stats.keysAdded = s1.stats.keysAdded + 1)
    (hd : s3.stats.keysDeleted = s1.stats.keysDeleted) : KeyI s3 := by
  refine ⟨?_, by rw [hst]; exact AMap.noDup_set hk.storeNoDup k en⟩
  rw [ha, hd, hst, AMap.length_set_absent habs, hk.keys]; omega

theorem wtI_after {s s1 s2 : State} {adm' : Adm} {tot dw : Int} (hwt : WtI s)
    (F : EvFold { s with adm := adm' } s1 tot) (hu : adm'.used = s.adm.used - tot + dw)
    (hnn : KwNonneg adm'.kw) (h1 : s2.adm = s1.adm)
    (h2 : ((s2.stats.weightAdded : Int) - s1.stats.weightAdded - dw) % (u64Mod : Int) = 0)
    (h3 : s2.stats.weightRemoved = s1.stats.weightRemoved) : WtI s2 := by
  have hadm : s2.adm = adm' := h1.trans F.adm
  refine ⟨?_, by rw [hadm]; exact hnn⟩
  have hA := F.wAdded
  have hR := F.wRemoved
  have h0 := hwt.weight
  rw [hadm, hu, h3]
  simp only [u64Mod] at h2 hR h0 ⊢
  simp only at hA hR
  omega

theorem workerPut_ok {s : State} {id hash : Nat} {w : Int} {k v : Nat} {ttl : Option Nat} {o o' : Oracle}
    {x : Exec} (hk : KeyI s) (hwt : WtI s) (hw : 0 ≤ w)
    (h : workerPut s id hash w k v ttl o = .ok (x, o')) : ExecOK s x x.refusedBy := by
  unfold workerPut at h
  split at h
  · simp only [Except.ok.injEq, Prod.mk.injEq] at h
    obtain ⟨rfl, _⟩ := h
    exact ⟨rfl, rfl, rfl, hk, hwt, rfl⟩
  · rename_i hcont
    have habs : s.store.get? k = none := AMap.contains_false_iff.mp (by simpa using hcont)
    split at h
    · cases h
    · rename_i r hm
      obtain ⟨hpos, hnn, hused, hst⟩ := maybeAdd_acct hwt.nonneg hw hm
      have hstOv : r.overflow = true → r.status ≠ .accepted := by
        intro hov hacc
        rcases hst with ⟨h1, _⟩ | ⟨_, h1⟩
        · rw [hov] at h1; cases h1
        · rw [hacc] at h1; cases h1
      have F := foldl_applyEvict_StatsInv r.evicted { s with adm := r.adm } hpos
      have hk1 : KeyI (r.evicted.foldl applyEvict { s with adm := r.adm }) := F.key (hk.congr rfl)
      have habs1 := F.absent k habs
      simp only [] at h
      generalize r.evicted.foldl applyEvict { s with adm := r.adm } = s1 at h F hk1 habs1
      have hrej : s1.stats.keysRejected = s.stats.keysRejected := F.rej
      have hwA : ∀ A : Nat, ((((A + w.toNat) % u64Mod : Nat) : Int) - (A : Int) - w) % (u64Mod : Int) = 0 := by
        intro A; simp only [u64Mod]; omega
      split at h
      · -- the worker panicked in `is_space_available_for`: the evictions made so far stand, nothing was added
        rename_i hov
        rw [if_neg (hstOv hov)] at hused
        simp only [Except.ok.injEq, Prod.mk.injEq] at h
        obtain ⟨rfl, _⟩ := h
        refine ⟨F.env, F.acc, F.cmd, hk1.congr rfl,
          wtI_after (dw := 0) hwt F hused hnn rfl
            (by show ((s1.stats.weightAdded : Int) - s1.stats.weightAdded - 0) % (u64Mod : Int) = 0; simp) rfl, ?_⟩
        simpa [Exec.st, Exec.refusedBy] using hrej
      rename_i hnov
      split at h
      · rename_i hacc
        rw [if_pos hacc] at hused
        split at h
        · simp only [Except.ok.injEq, Prod.mk.injEq] at h
          obtain ⟨rfl, _⟩ := h
          refine ⟨F.env, F.acc, F.cmd, keyI_insert hk1 habs1 _ rfl rfl rfl,
            wtI_after hwt F hused hnn rfl (hwA _) rfl, ?_⟩
          simpa [Exec.st, Exec.refusedBy] using hrej
        · split at h
          · simp only [Except.ok.injEq, Prod.mk.injEq] at h
            obtain ⟨rfl, _⟩ := h
            refine ⟨F.env, F.acc, F.cmd, hk1.congr rfl, wtI_after hwt F hused hnn rfl (hwA _) rfl, ?_⟩
            simpa [Exec.st, Exec.refusedBy] using hrej
          · simp only [Except.ok.injEq, Prod.mk.injEq] at h
            obtain ⟨rfl, _⟩ := h
            refine ⟨F.env, F.acc, F.cmd, keyI_insert hk1 habs1 _ rfl rfl rfl,
              wtI_after hwt F hused hnn rfl (hwA _) rfl, ?_⟩
            simpa [Exec.st, Exec.refusedBy, ttlPut] using hrej
      · rename_i hacc
        rw [if_neg hacc] at hused
        simp only [Except.ok.injEq, Prod.mk.injEq] at h
        obtain ⟨rfl, _⟩ := h
        have hst' : r.status = .rejected .noSpace ∨ r.status = .rejected .tooHeavy := by
          rcases hst with ⟨_, h1 | h1⟩ | ⟨h1, _⟩
          · exact absurd h1 hacc
          · exact h1
          · exact absurd h1 hnov
        refine ⟨F.env, F.acc, F.cmd, hk1.congr rfl,
          wtI_after (dw := 0) hwt F hused hnn rfl
            (by show ((s1.stats.weightAdded : Int) - s1.stats.weightAdded - 0) % (u64Mod : Int) = 0; simp) rfl, ?_⟩
        simp only [Exec.st, Exec.refusedBy, hst', if_true]
        show s1.stats.keysRejected + 1 = _
        omega

theorem inI64_bounds {x : Int} (h : inI64 x = true) : -9223372036854775808 ≤ x ∧ x ≤ 9223372036854775807 := by
  simp only [inI64, i64Min, i64Max, Bool.and_eq_true] at h
  exact ⟨of_decide_eq_true h.1, of_decide_eq_true h.2⟩

/-- `update_weight_stats` moves `weightAdded` by `newW - oldW` modulo 2^64 (the decrease is added as its
    two's complement), whenever the decrease fits in 64 bits; nothing else moves. -/
theorem updateWeightStats_spec (st : Stats) (newW oldW : Int) (hfit : oldW - newW < (u64Mod : Int)) :
    (((updateWeightStats st newW oldW).weightAdded : Int) - st.weightAdded - (newW - oldW)) % (u64Mod : Int) = 0 ∧
    updateWeightStats st newW oldW = { st with weightAdded := (updateWeightStats st newW oldW).weightAdded } := by
  unfold updateWeightStats
  split
  · refine ⟨?_, rfl⟩
    simp only [u64Mod] at hfit ⊢; omega
  · refine ⟨?_, rfl⟩
    simp only [u64Mod] at hfit ⊢; omega

theorem workerUpdateWeight_ok {s : State} {id : Nat} {w : Int} (hk : KeyI s) (hwt : WtI s) (hw : 0 ≤ w) :
    ExecOK s (workerUpdateWeight s id w) 0 := by
  unfold workerUpdateWeight
  split
  · exact ⟨rfl, rfl, rfl, hk, hwt, rfl⟩
  · rename_i wk hg
    simp only []
    split
    · exact ⟨rfl, rfl, rfl, hk, hwt, rfl⟩
    · rename_i hc
      simp only [Bool.or_eq_true, Bool.not_eq_true', not_or, Bool.not_eq_false] at hc
      have hb := inI64_bounds hc.1
      obtain ⟨hmod, hshape⟩ := updateWeightStats_spec { s.stats with keysUpdated := s.stats.keysUpdated + 1 } w wk.weight
        (by simp only [u64Mod]; omega)
      generalize updateWeightStats { s.stats with keysUpdated := s.stats.keysUpdated + 1 } w wk.weight = st' at hmod hshape
      rw [hshape]
      refine ⟨rfl, rfl, rfl, hk.congr rfl, ⟨?_, ?_⟩, rfl⟩
      · have h0 := hwt.weight
        simp only [Exec.st]
        simp only [u64Mod] at hmod h0 ⊢
        omega
      · exact KwNonneg.set hwt.nonneg id (wk := { wk with weight := w }) hw

theorem workerDelete_ok {s : State} {k : Nat} (hk : KeyI s) (hwt : WtI s) : ExecOK s (workerDelete s k) 0 := by
  unfold workerDelete
  split
  · exact ⟨rfl, rfl, rfl, hk, hwt, rfl⟩
  · rename_i e hg
    have hl := AMap.length_del_present hk.storeNoDup hg
    have hk1 : KeyI { s with store := s.store.del k,
                             stats := { s.stats with keysDeleted := s.stats.keysDeleted + 1 } } := by
      refine ⟨?_, AMap.noDup_del hk.storeNoDup k⟩
      have := hk.keys
      show s.stats.keysAdded = s.stats.keysDeleted + 1 + (s.store.del k).length
      omega
    simp only []
    cases hc : s.adm.kw.get? e.id with
    | none =>
      rw [Adm.delete_uncharged s.adm e.id hc]
      simp only []
      split
      · exact ⟨rfl, rfl, rfl, hk1.congr rfl, hwt.congr rfl, rfl⟩
      · exact ⟨rfl, rfl, rfl, hk1, hwt.congr rfl, rfl⟩
    | some wk =>
      rw [Adm.delete_charged s.adm e.id wk hc]
      simp only []
      have hnn := hwt.nonneg e.id wk hc
      have hw' : WtI { s with adm := { s.adm with kw := s.adm.kw.del e.id, used := s.adm.used - wk.weight },
                              stats := { s.stats with
                                keysDeleted := s.stats.keysDeleted + 1,
                                weightRemoved := (s.stats.weightRemoved + wk.weight.toNat) % u64Mod } } := by
        refine ⟨?_, KwNonneg.del hwt.nonneg e.id⟩
        have h0 := hwt.weight
        simp only [u64Mod] at h0 ⊢
        omega
      split
      · exact ⟨rfl, rfl, rfl, hk1.congr rfl, hw'.congr rfl, rfl⟩
      · exact ⟨rfl, rfl, rfl, hk1.congr rfl, hw'.congr rfl, rfl⟩

/-! ### the configuration and the `shutting` flag are left alone by the worker and the sweeper -/

theorem applyEvict_env (s : State) (e : Evicted) : envView (applyEvict s e) = envView s := by
  obtain ⟨eid, key, w⟩ := e
  simp only [applyEvict]
  split <;> rfl

theorem applyEvictId_env (s : State) (e : Evicted) : envView (applyEvictId s e) = envView s := by
  rw [applyEvictId_eq]
  split
  · exact applyEvict_env s e
  · rfl

theorem foldl_applyEvict_env : ∀ (evs : List Evicted) (s : State),
    envView (evs.foldl applyEvict s) = envView s := by
  intro evs
  induction evs with
  | nil => intro s; rfl
  | cons e evs ih => intro s; rw [List.foldl_cons, ih, applyEvict_env]

theorem workerPut_env {s : State} {id hash : Nat} {w : Int} {k v : Nat} {ttl : Option Nat} {o o' : Oracle}
    {x : Exec} (h : workerPut s id hash w k v ttl o = .ok (x, o')) : envView x.st = envView s := by
  unfold workerPut at h
  split at h
  · simp only [Except.ok.injEq, Prod.mk.injEq] at h
    obtain ⟨rfl, _⟩ := h
    rfl
  · split at h
    · cases h
    · rename_i r hm
      have F := foldl_applyEvict_env r.evicted { s with adm := r.adm }
      simp only [] at h
      generalize r.evicted.foldl applyEvict { s with adm := r.adm } = s1 at h F
      split at h
      · simp only [Except.ok.injEq, Prod.mk.injEq] at h
        obtain ⟨rfl, _⟩ := h
        exact F
      split at h
      · split at h
        · simp only [Except.ok.injEq, Prod.mk.injEq] at h
          obtain ⟨rfl, _⟩ := h
          exact F
        · split at h
          · simp only [Except.ok.injEq, Prod.mk.injEq] at h
            obtain ⟨rfl, _⟩ := h
            exact F
          · simp only [Except.ok.injEq, Prod.mk.injEq] at h
            obtain ⟨rfl, _⟩ := h
            exact F
      · simp only [Except.ok.injEq, Prod.mk.injEq] at h
        obtain ⟨rfl, _⟩ := h
        exact F

theorem workerUpdateWeight_env (s : State) (id : Nat) (w : Int) :
    envView (workerUpdateWeight s id w).st = envView s := by
  unfold workerUpdateWeight
  split
  · rfl
  · simp only []
    split <;> rfl

theorem workerDelete_env (s : State) (k : Nat) : envView (workerDelete s k).st = envView s := by
  unfold workerDelete
  split
  · rfl
  · simp only []
    split <;> split <;> rfl

/-- From what executing the head command did to what the worker step did: the acknowledgement is set,
    or (panic) the worker dies and its queue is dropped. -/
theorem sinv_of_execOK {g : Ghost} {s s' : State} {x : Exec} {d : Nat} {q : List (Cmd × Option Nat)}
    (hI : SInv s g) (hq : ∀ p ∈ q, p.1.weightNonneg) (ok : ExecOK { s with queue := q } x d)
    (henv : envView s' = envView x.st) (hacc : accView s' = accView x.st) (hkey : keyView s' = keyView x.st)
    (hwt : wtView s' = wtView x.st) (hrej : rejView s' = rejView x.st)
    (hqueue : s'.queue = x.st.queue ∨ s'.queue = []) (hpend : s'.pend = x.st.pend) :
    SInv s' { g with refused := g.refused + d } := by
  obtain ⟨ha, _, _, hr, hc⟩ := sinv_iff.mp hI
  refine sinv_iff.mpr ⟨ha.congr (henv.trans ok.env) (hacc.trans ok.acc) rfl rfl, ok.key.congr hkey,
    ok.wt.congr hwt, ?_, ?_⟩
  · show s'.stats.keysRejected = g.refused + d
    have h1 : s'.stats.keysRejected = x.st.stats.keysRejected := hrej
    rw [h1, ok.rej, ← hr]
  · have hcm := ok.cmd
    simp only [cmdView, Prod.mk.injEq] at hcm
    have hp : s'.pend = s.pend := by rw [hpend, hcm.2]
    refine ⟨?_, by rw [hp]; exact hc.pend, by rw [hp]; exact hc.pendSend⟩
    rcases hqueue with h1 | h1
    · rw [h1, hcm.1]; exact hq
    · rw [h1]; intro p hp'; cases hp'

theorem refusedDelta_put (st : Status) (ie : Option Nat) (pp : List SKey) (ev : List Evicted) (s1 : State) :
    refusedDelta (.worked "Put" st ie pp ev) = (Exec.done s1 st ie pp ev).refusedBy ∧
    refusedDelta (.worked "PutWithTTL" st ie pp ev) = (Exec.done s1 st ie pp ev).refusedBy := by
  simp [refusedDelta, Exec.refusedBy]

theorem pres_of_exec {g : Ghost} {s s' : State} {x : Exec} {d : Nat} {q : List (Cmd × Option Nat)} {cmd : Cmd}
    {hd : Option Nat} (hs : s.queue = (cmd, hd) :: q) (henvx : envView x.st = envView s)
    (hok : KeyI s → WtI s → cmd.weightNonneg → ExecOK { s with queue := q } x d)
    (henv : envView s' = envView x.st) (hacc : accView s' = accView x.st) (hkey : keyView s' = keyView x.st)
    (hwt : wtView s' = wtView x.st) (hrej : rejView s' = rejView x.st)
    (hqueue : s'.queue = x.st.queue ∨ s'.queue = []) (hpend : s'.pend = x.st.pend) :
    Pres g { g with refused := g.refused + d } s s' := by
  refine ⟨henv.trans henvx, fun hI => ?_⟩
  obtain ⟨_, hk, hw, _, hc⟩ := sinv_iff.mp hI
  have hcq := hc.queue
  rw [hs] at hcq
  have hq : ∀ p ∈ q, p.1.weightNonneg := fun p hp => hcq p (by simp [hp])
  have hcmd : cmd.weightNonneg := hcq (cmd, hd) (by simp)
  exact sinv_of_execOK hI hq (hok hk hw hcmd) henv hacc hkey hwt hrej hqueue hpend

theorem execOK_trivial {s : State} (hk : KeyI s) (hw : WtI s) (q : List (Cmd × Option Nat)) (st : Status) :
    ExecOK { s with queue := q } (.done { s with queue := q } st none [] []) 0 :=
  ⟨rfl, rfl, rfl, hk.congr rfl, hw.congr rfl, rfl⟩

theorem pres_workerStep (g : Ghost) {s s' : State} {o o' : Oracle} {out : Out}
    (h : workerStep s o = .ok (s', out, o')) :
    Pres g { g with refused := g.refused + refusedDelta out } s s' := by
  unfold workerStep at h
  split at h
  · cases h
  · cases h
  · -- draining
    rename_i cmd hd q hw hs
    simp only [Except.ok.injEq, Prod.mk.injEq] at h
    obtain ⟨rfl, rfl, _⟩ := h
    exact pres_of_exec (x := .done { s with queue := q } .shuttingDown none [] []) (d := 0) hs rfl
      (fun hk hw _ => execOK_trivial hk hw q _) rfl rfl rfl rfl rfl (Or.inl rfl) rfl
  · rename_i cmd hd q hw hs
    simp only [] at h
    split at h
    · -- shutdown
      simp only [Except.ok.injEq, Prod.mk.injEq] at h
      obtain ⟨rfl, rfl, _⟩ := h
      exact pres_of_exec (x := .done { s with queue := q } .accepted none [] []) (d := 0) hs rfl
        (fun hk hw _ => execOK_trivial hk hw q _) rfl rfl rfl rfl rfl (Or.inl rfl) rfl
    · -- put
      rename_i id hash w k v
      split at h
      · rename_i r hp
        obtain ⟨x, o1⟩ := r
        have henvx := workerPut_env hp
        have hok : KeyI s → WtI s → (Cmd.put id hash w k v).weightNonneg →
            ExecOK { s with queue := q } x x.refusedBy :=
          fun hk hwt hc => workerPut_ok (hk.congr rfl) (hwt.congr rfl) hc hp
        split at h
        · rename_i s1 st ie pp ev o2 heq
          simp only [Prod.mk.injEq] at heq
          obtain ⟨rfl, rfl⟩ := heq
          simp only [Except.ok.injEq, Prod.mk.injEq] at h
          obtain ⟨rfl, rfl, _⟩ := h
          rw [(refusedDelta_put st ie pp ev s1).1]
          exact pres_of_exec hs henvx hok rfl rfl rfl rfl rfl (Or.inl rfl) rfl
        · rename_i s1 p o2 heq
          simp only [Prod.mk.injEq] at heq
          obtain ⟨rfl, rfl⟩ := heq
          simp only [Except.ok.injEq, Prod.mk.injEq] at h
          obtain ⟨rfl, rfl, _⟩ := h
          exact pres_of_exec hs henvx hok rfl rfl rfl rfl rfl (Or.inr rfl) rfl
      · cases h
    · -- putTtl
      rename_i id hash w k v t
      split at h
      · rename_i r hp
        obtain ⟨x, o1⟩ := r
        have henvx := workerPut_env hp
        have hok : KeyI s → WtI s → (Cmd.putTtl id hash w k v t).weightNonneg →
            ExecOK { s with queue := q } x x.refusedBy :=
          fun hk hwt hc => workerPut_ok (hk.congr rfl) (hwt.congr rfl) hc hp
        split at h
        · rename_i s1 st ie pp ev o2 heq
          simp only [Prod.mk.injEq] at heq
          obtain ⟨rfl, rfl⟩ := heq
          simp only [Except.ok.injEq, Prod.mk.injEq] at h
          obtain ⟨rfl, rfl, _⟩ := h
          rw [(refusedDelta_put st ie pp ev s1).2]
          exact pres_of_exec hs henvx hok rfl rfl rfl rfl rfl (Or.inl rfl) rfl
        · rename_i s1 p o2 heq
          simp only [Prod.mk.injEq] at heq
          obtain ⟨rfl, rfl⟩ := heq
          simp only [Except.ok.injEq, Prod.mk.injEq] at h
          obtain ⟨rfl, rfl, _⟩ := h
          exact pres_of_exec hs henvx hok rfl rfl rfl rfl rfl (Or.inr rfl) rfl
      · cases h
    · -- updateWeight
      rename_i id w
      have henvx := workerUpdateWeight_env { s with queue := q } id w
      have hok : KeyI s → WtI s → (Cmd.updateWeight id w).weightNonneg →
          ExecOK { s with queue := q } (workerUpdateWeight { s with queue := q } id w) 0 :=
        fun hk hwt hc => workerUpdateWeight_ok (hk.congr rfl) (hwt.congr rfl) hc
      generalize workerUpdateWeight { s with queue := q } id w = x at h henvx hok
      split at h
      · rename_i s1 st ie pp ev o2 heq
        simp only [Prod.mk.injEq] at heq
        obtain ⟨rfl, rfl⟩ := heq
        simp only [Except.ok.injEq, Prod.mk.injEq] at h
        obtain ⟨rfl, rfl, _⟩ := h
        exact pres_of_exec hs henvx hok rfl rfl rfl rfl rfl (Or.inl rfl) rfl
      · rename_i s1 p o2 heq
        simp only [Prod.mk.injEq] at heq
        obtain ⟨rfl, rfl⟩ := heq
        simp only [Except.ok.injEq, Prod.mk.injEq] at h
        obtain ⟨rfl, rfl, _⟩ := h
        exact pres_of_exec hs henvx hok rfl rfl rfl rfl rfl (Or.inr rfl) rfl
    · -- delete
      rename_i k
      have henvx := workerDelete_env { s with queue := q } k
      have hok : KeyI s → WtI s → (Cmd.delete k).weightNonneg →
          ExecOK { s with queue := q } (workerDelete { s with queue := q } k) 0 :=
        fun hk hwt _ => workerDelete_ok (hk.congr rfl) (hwt.congr rfl)
      generalize workerDelete { s with queue := q } k = x at h henvx hok
      split at h
      · rename_i s1 st ie pp ev o2 heq
        simp only [Prod.mk.injEq] at heq
        obtain ⟨rfl, rfl⟩ := heq
        simp only [Except.ok.injEq, Prod.mk.injEq] at h
        obtain ⟨rfl, rfl, _⟩ := h
        exact pres_of_exec hs henvx hok rfl rfl rfl rfl rfl (Or.inl rfl) rfl
      · rename_i s1 p o2 heq
        simp only [Prod.mk.injEq] at heq
        obtain ⟨rfl, rfl⟩ := heq
        simp only [Except.ok.injEq, Prod.mk.injEq] at h
        obtain ⟨rfl, rfl, _⟩ := h
        exact pres_of_exec hs henvx hok rfl rfl rfl rfl rfl (Or.inr rfl) rfl

/-! ### the TTL sweeper -/

/-- What the sweeper's evictions do, as far as the invariant is concerned. -/
def SweepOK (s s' : State) : Prop :=
  envView s' = envView s ∧
  (KeyI s → WtI s → accView s' = accView s ∧ rejView s' = rejView s ∧ cmdView s' = cmdView s ∧ KeyI s' ∧ WtI s')

theorem SweepOK.refl (s : State) : SweepOK s s := ⟨rfl, fun hk hw => ⟨rfl, rfl, rfl, hk, hw⟩⟩

theorem SweepOK.trans {s s' s'' : State} (a : SweepOK s s') (b : SweepOK s' s'') : SweepOK s s'' := by
  refine ⟨b.1.trans a.1, fun hk hw => ?_⟩
  obtain ⟨a1, a2, a3, hk', hw'⟩ := a.2 hk hw
  obtain ⟨b1, b2, b3, hk'', hw''⟩ := b.2 hk' hw'
  exact ⟨b1.trans a1, b2.trans a2, b3.trans a3, hk'', hw''⟩

theorem sweepEvict_ok (s : State) (id : Nat) : SweepOK s (sweepEvict s id).1 := by
  rcases sweepEvict_cases s id with h0 | ⟨wk, hc, _, h1⟩
  · rw [h0]; exact SweepOK.refl s
  · rw [h1]
    simp only []
    refine ⟨applyEvictId_env _ _, fun hk hw => ?_⟩
    have F := applyEvictId_evFold { s with adm := { s.adm with kw := s.adm.kw.del id, used := s.adm.used - wk.weight } }
      (id, wk.key, wk.weight) (hw.nonneg id wk hc)
    refine ⟨F.acc, F.rej, F.cmd, F.key (hk.congr rfl), ?_⟩
    refine wtI_after (dw := 0) hw F (by simp only; omega) (KwNonneg.del hw.nonneg id) rfl ?_ rfl
    simp

theorem sweepEntries_ok : ∀ (l : List ((Nat × Nat) × Nat)) (s : State) (acc : List Evicted),
    SweepOK s (sweepEntries s l acc).1 := by
  intro l
  induction l with
  | nil => intro s acc; exact SweepOK.refl s
  | cons x rest ih =>
    intro s acc
    obtain ⟨⟨sh, id⟩, ex⟩ := x
    simp only [sweepEntries]
    exact (sweepEvict_ok s id).trans (ih _ _)

theorem pres_sweepStep (g : Ghost) {s s' : State} {out : Out} (h : sweepStep s = .ok (s', out)) :
    Pres g g s s' := by
  unfold sweepStep at h
  split at h
  · cases h
  · simp only [] at h
    generalize hl : s.ttl.filter (fun p => p.1.1 == secsOf s.now % s.cfg.shards && decide (s.now > p.2)) = l at h
    have ok := sweepEntries_ok l s []
    generalize sweepEntries s l [] = r at h ok
    obtain ⟨s1, ev⟩ := r
    simp only [Except.ok.injEq, Prod.mk.injEq] at h
    obtain ⟨rfl, _⟩ := h
    refine ⟨ok.1, fun hI => ?_⟩
    obtain ⟨ha, hk, hw, hr, hc⟩ := sinv_iff.mp hI
    obtain ⟨a1, a2, a3, hk', hw'⟩ := ok.2 hk hw
    exact sinv_iff.mpr ⟨ha.congr ok.1 a1 rfl rfl, hk'.congr rfl, hw'.congr rfl, by rw [← hr]; exact a2,
      hc.congr a3⟩

/-! ### the invariant holds initially and is preserved by every step before `shutdown()` -/

theorem sinv_init (cfg : Cfg) (now : Nat) (seeds : List Nat) : SInv (State.init cfg now seeds) {} := by
  refine ⟨?_, ?_, rfl, rfl, rfl, by simp [State.init], AMap.noDup_nil, by simp [State.init], ?_, ⟨?_, ?_⟩, ?_⟩
  · simp [State.init, buffered]
  · simp [State.init, queuedRecords]
  · intro id wk h; simp [State.init] at h
  · intro p h; simp [State.init] at h
  · intro c cmd h; simp [State.init] at h
  · intro c p h; simp [State.init] at h

/-- Every event but `shutdown()` keeps the configuration and the `shutting` flag and carries the invariant over. -/
theorem step_pres {s s' : State} {ev : Ev} {o o' : Oracle} {out : Out} (g : Ghost)
    (h : step s ev o = .ok (s', out, o')) (hev : ∀ c, ev ≠ .shutdown c) :
    Pres g (ghostStep g s ev out s') s s' := by
  unfold step at h
  cases ev with
  | put c k v =>
    simp only [Except.ok.injEq, Prod.mk.injEq] at h; obtain ⟨rfl, _, _⟩ := h
    exact pres_clientPut g s c k v
  | putW c k v w =>
    simp only [Except.ok.injEq, Prod.mk.injEq] at h; obtain ⟨rfl, _, _⟩ := h
    exact pres_clientPutW g s c k v w
  | putTtl c k v t =>
    simp only [Except.ok.injEq, Prod.mk.injEq] at h; obtain ⟨rfl, _, _⟩ := h
    exact pres_clientPutTtl g s c k v t
  | putWTtl c k v w t =>
    simp only [Except.ok.injEq, Prod.mk.injEq] at h; obtain ⟨rfl, _, _⟩ := h
    exact pres_clientPutWTtl g s c k v w t
  | upsert c k v w t rm =>
    simp only [Except.ok.injEq, Prod.mk.injEq] at h; obtain ⟨rfl, _, _⟩ := h
    exact pres_clientUpsert g s c k v w t rm
  | delete c k =>
    simp only [Except.ok.injEq, Prod.mk.injEq] at h; obtain ⟨rfl, _, _⟩ := h
    exact pres_clientDelete g s c k
  | get k => exact pres_clientGet g h
  | multiGet ks => exact pres_clientMultiGet g h
  | weight =>
    simp only [Except.ok.injEq, Prod.mk.injEq] at h; obtain ⟨rfl, _, _⟩ := h
    exact Pres.refl g s
  | stats =>
    simp only [Except.ok.injEq, Prod.mk.injEq] at h; obtain ⟨rfl, _, _⟩ := h
    exact Pres.refl g s
  | worker => exact pres_workerStep g h
  | sweep =>
    simp only [] at h
    split at h
    · rename_i r hr
      obtain ⟨s1, out1⟩ := r
      simp only [Except.ok.injEq, Prod.mk.injEq] at h; obtain ⟨rfl, _, _⟩ := h
      exact pres_sweepStep g hr
    · cases h
  | consumer => exact pres_consumerStep g h
  | advance d =>
    simp only [Except.ok.injEq, Prod.mk.injEq] at h; obtain ⟨rfl, _, _⟩ := h
    exact Pres.of_views rfl rfl rfl rfl rfl rfl
  | shutdown c => exact absurd rfl (hev c)
  | resume c =>
    simp only [] at h
    split at h
    · rename_i r hr
      obtain ⟨s1, out1⟩ := r
      simp only [Except.ok.injEq, Prod.mk.injEq] at h; obtain ⟨rfl, _, _⟩ := h
      exact pres_resume g hr
    · cases h
  | poll hd =>
    simp only [] at h
    split at h
    · simp only [Except.ok.injEq, Prod.mk.injEq] at h; obtain ⟨rfl, _, _⟩ := h
      exact Pres.refl g s
    · cases h

theorem ev_shutdown_or (ev : Ev) : (∃ c, ev = .shutdown c) ∨ ∀ c, ev ≠ .shutdown c := by
  cases ev <;> first | exact Or.inl ⟨_, rfl⟩ | exact Or.inr (fun c h => by cases h)

/-- `shutting` is never reset. -/
theorem step_shutting {s s' : State} {ev : Ev} {o o' : Oracle} {out : Out}
    (h : step s ev o = .ok (s', out, o')) (hs : s.shutting = true) : s'.shutting = true := by
  rcases ev_shutdown_or ev with ⟨c, rfl⟩ | hev
  rotate_left
  · have e := (step_pres {} h hev).1
    simp only [envView, Prod.mk.injEq] at e
    rw [e.2]; exact hs
  · simp only [step, Except.ok.injEq, Prod.mk.injEq] at h
    obtain ⟨rfl, _, _⟩ := h
    exact clientShutdown_shutting s c

/-- The configuration never changes. -/
theorem step_cfg {s s' : State} {ev : Ev} {o o' : Oracle} {out : Out}
    (h : step s ev o = .ok (s', out, o')) : s'.cfg = s.cfg := by
  rcases ev_shutdown_or ev with ⟨c, rfl⟩ | hev
  rotate_left
  · have e := (step_pres {} h hev).1
    simp only [envView, Prod.mk.injEq] at e
    exact e.1
  · simp only [step, Except.ok.injEq, Prod.mk.injEq] at h
    obtain ⟨rfl, _, _⟩ := h
    exact clientShutdown_cfg s c

/-- The invariant is preserved by every step that ends in a state where `shutdown()` has not been called. -/
theorem sinv_step {s s' : State} {g : Ghost} {ev : Ev} {o o' : Oracle} {out : Out}
    (hI : SInv s g) (hs' : s'.shutting = false) (h : step s ev o = .ok (s', out, o')) :
    SInv s' (ghostStep g s ev out s') := by
  rcases ev_shutdown_or ev with ⟨c, rfl⟩ | hev
  rotate_left
  · exact (step_pres g h hev).2 hI
  · simp only [step, Except.ok.injEq, Prod.mk.injEq] at h
    obtain ⟨rfl, _, _⟩ := h
    rw [clientShutdown_shutting s c] at hs'
    cases hs'

theorem reachG_sinv {cfg : Cfg} {now : Nat} {seeds : List Nat} {s : State} {g : Ghost}
    (hr : ReachG cfg now seeds s g) (hs : s.shutting = false) : SInv s g := by
  induction hr with
  | init => exact sinv_init cfg now seeds
  | step hr' hstep ih =>
    rename_i s0 s1 g0 ev o o' out
    have h0 : s0.shutting = false := by
      cases hb : s0.shutting with
      | false => rfl
      | true => rw [step_shutting hstep hb] at hs; cases hs
    exact sinv_step (ih h0) hs hstep

theorem reachG_cfg {cfg : Cfg} {now : Nat} {seeds : List Nat} {s : State} {g : Ghost}
    (hr : ReachG cfg now seeds s g) : s.cfg = cfg := by
  induction hr with
  | init => rfl
  | step hr' hstep ih => rw [step_cfg hstep]; exact ih

/-! ### running a concrete history (for the `example`s) -/

/-- Runs events from `(s, g)`, each with its own oracle; `none` if a step is not one the implementation can make. -/
def runG (s : State) (g : Ghost) : List (Ev × Oracle) → Option (State × Ghost)
  | [] => some (s, g)
  | (ev, o) :: rest =>
    match step s ev o with
    | .ok (s', out, _) => runG s' (ghostStep g s ev out s') rest
    | .error _ => none

theorem runG_reach {cfg : Cfg} {now : Nat} {seeds : List Nat} :
    ∀ (evs : List (Ev × Oracle)) (s s' : State) (g g' : Ghost), ReachG cfg now seeds s g →
      runG s g evs = some (s', g') → ReachG cfg now seeds s' g' := by
  intro evs
  induction evs with
  | nil =>
    intro s s' g g' hr h
    simp only [runG, Option.some.injEq, Prod.mk.injEq] at h
    obtain ⟨rfl, rfl⟩ := h
    exact hr
  | cons x rest ih =>
    intro s s' g g' hr h
    obtain ⟨ev, o⟩ := x
    unfold runG at h
    split at h
    · rename_i s1 out o1 hstep
      exact ih _ _ _ _ (ReachG.step hr hstep) h
    · cases h

end Cached
