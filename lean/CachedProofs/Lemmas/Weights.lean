/-
  Weight accounting: the sum of the charged weights (`sumW`), how `AMap.set` / `AMap.del` move it, and what
  `Adm.delete`, `Adm.add`, `createLoop` and `maybeAdd` (CachedModel/Admission.lean) do to the admission part
  `Adm` (`max`, `used`, `kw`).  Used by Lemmas/Inv.lean for C01 and C05.

  (`sumW` lives here rather than in Lemmas/Inv.lean because the `maybeAdd` facts mention it and Inv.lean
  imports this file.)
-/
import CachedModel.State
import CachedProofs.Lemmas.AMap
import CachedProofs.Lemmas.Admission

namespace Cached

/-! ### more association-list facts -/

namespace AMap
variable {α β : Type} [DecidableEq α]

theorem del_of_get?_none {m : AMap α β} {a : α} (h : get? m a = none) : del m a = m := by
  induction m with
  | nil => rfl
  | cons p rest ih =>
    obtain ⟨k, v⟩ := p
    by_cases hk : k = a
    · simp [get?_cons, hk] at h
    · simp only [get?_cons, hk, if_false] at h
      simp [del, hk, ih h]

/-- delete a list of keys, one after the other -/
def delKeys (m : AMap α β) (ks : List α) : AMap α β := ks.foldl del m

@[simp] theorem delKeys_nil (m : AMap α β) : delKeys m [] = m := rfl

@[simp] theorem delKeys_cons (m : AMap α β) (k : α) (ks : List α) :
    delKeys m (k :: ks) = delKeys (del m k) ks := rfl

theorem get?_delKeys (m : AMap α β) (ks : List α) (a : α) :
    get? (delKeys m ks) a = if a ∈ ks then none else get? m a := by
  induction ks generalizing m with
  | nil => simp
  | cons k ks ih =>
    simp only [delKeys_cons, ih, get?_del, List.mem_cons]
    by_cases h1 : a ∈ ks
    · simp [h1]
    · by_cases h2 : k = a
      · subst h2; simp
      · have h3 : ¬ a = k := fun e => h2 e.symm
        simp [h1, h2, h3]

theorem noDup_delKeys {m : AMap α β} (h : NoDup m) (ks : List α) : NoDup (delKeys m ks) := by
  induction ks generalizing m with
  | nil => exact h
  | cons k ks ih => exact ih (noDup_del h k)

theorem get?_cons_of_not_mem {k : α} {v : β} {m : AMap α β} (hk : k ∉ m.map Prod.fst) {a : α} {b : β}
    (h : get? m a = some b) : get? ((k, v) :: m) a = some b := by
  have : k ≠ a := by
    intro e; subst e
    have := get?_eq_none_iff.mpr hk
    simp [this] at h
  simp [get?_cons, this, h]

end AMap

/-! ### the sum of the charged weights -/

/-- total of the weights charged in `kw` -/
def sumW (kw : AMap Nat WKey) : Int := (kw.map (fun p => p.2.weight)).sum

@[simp] theorem sumW_nil : sumW [] = 0 := rfl

theorem sumW_cons (k : Nat) (wk : WKey) (m : AMap Nat WKey) : sumW ((k, wk) :: m) = wk.weight + sumW m := by
  simp [sumW]

/-- Deleting an id that is charged (in a map without duplicate ids) lowers the sum by exactly its weight. -/
theorem sumW_del {m : AMap Nat WKey} (hn : AMap.NoDup m) {a : Nat} {b : WKey} (h : m.get? a = some b) :
    sumW (m.del a) = sumW m - b.weight := by
  induction m with
  | nil => simp at h
  | cons p rest ih =>
    obtain ⟨k, v⟩ := p
    simp only [AMap.NoDup, List.map_cons, List.nodup_cons] at hn
    by_cases hk : k = a
    · subst hk
      simp only [AMap.get?_cons, if_true, Option.some.injEq] at h
      subst h
      have hnone : AMap.get? rest k = none := AMap.get?_eq_none_iff.mpr hn.1
      simp only [AMap.del, if_true, AMap.del_of_get?_none hnone, sumW_cons]
      omega
    · simp only [AMap.get?_cons, hk, if_false] at h
      have := ih hn.2 h
      simp only [AMap.del, hk, if_false, sumW_cons, this]
      omega

/-- Deleting an id that is not charged changes nothing. -/
theorem sumW_del_none {m : AMap Nat WKey} {a : Nat} (h : m.get? a = none) : sumW (m.del a) = sumW m := by
  rw [AMap.del_of_get?_none h]

theorem sumW_set (m : AMap Nat WKey) (a : Nat) (b : WKey) : sumW (m.set a b) = sumW (m.del a) + b.weight := by
  simp only [AMap.set, sumW_cons]; omega

/-- A sum of positive weights is not negative. -/
theorem sumW_nonneg {m : AMap Nat WKey} (hn : AMap.NoDup m)
    (hpos : ∀ id wk, m.get? id = some wk → 0 < wk.weight) : 0 ≤ sumW m := by
  induction m with
  | nil => simp
  | cons p rest ih =>
    obtain ⟨k, v⟩ := p
    simp only [AMap.NoDup, List.map_cons, List.nodup_cons] at hn
    have h1 : 0 < v.weight := hpos k v (by simp [AMap.get?_cons])
    have h2 : 0 ≤ sumW rest := ih hn.2 (fun id wk h => hpos id wk (AMap.get?_cons_of_not_mem hn.1 h))
    simp only [sumW_cons]; omega

/-- Every single charged weight is at most the sum, when all are positive. -/
theorem weight_le_sumW {m : AMap Nat WKey} (hn : AMap.NoDup m)
    (hpos : ∀ id wk, m.get? id = some wk → 0 < wk.weight) {a : Nat} {b : WKey} (h : m.get? a = some b) :
    b.weight ≤ sumW m := by
  have h1 := sumW_del hn h
  have h2 : 0 ≤ sumW (m.del a) := by
    refine sumW_nonneg (AMap.noDup_del hn a) ?_
    intro id wk hg
    rw [AMap.get?_del] at hg
    split at hg
    · cases hg
    · exact hpos id wk hg
  omega

/-! ### `Adm.delete`, `Adm.add` -/

theorem Adm.delete_some {a : Adm} {id : Nat} {wk : WKey} (h : a.kw.get? id = some wk) :
    a.delete id = ({ a with kw := a.kw.del id, used := a.used - wk.weight }, some (id, wk.key, wk.weight)) := by
  simp [Adm.delete, h]

theorem Adm.delete_none {a : Adm} {id : Nat} (h : a.kw.get? id = none) : a.delete id = (a, none) := by
  simp [Adm.delete, h]

/-! ### the eviction loop -/

/-- What one run of the `create_space` loop does to the admission part. `evNew` are the evictions it made. -/
structure LoopSpec (w : Int) (a : Adm) (evNew : List Evicted) (r : LoopResult) : Prop where
  noDup : AMap.NoDup r.adm.kw
  sum : r.adm.used = sumW r.adm.kw
  max : r.adm.max = a.max
  evNodup : (evNew.map (·.1)).Nodup
  evIn : ∀ e ∈ evNew, ∃ h, a.kw.get? e.1 = some ⟨e.2.1, h, e.2.2⟩
  get : ∀ i, r.adm.kw.get? i = if i ∈ evNew.map (·.1) then none else a.kw.get? i
  status : r.status = .accepted ∨ r.status = .rejected .noSpace ∨ (r.status = .pending ∧ r.overflow = true)
  room : r.status = .accepted → w ≤ r.adm.max - r.adm.used
  usedEq : r.adm.used = a.used - (evNew.map (·.2.2)).sum
  ovf : r.overflow = true → r.status = .pending ∧ r.adm.spaceOverflow = true

theorem createLoop_spec (t : TinyLFU) (size : Nat) (w : Int) (incEst : Nat) :
    ∀ (fuel : Nat) (a : Adm) (sample : List SKey) (o : Oracle) (ev : List Evicted) (pp : List SKey)
      (r : LoopResult), AMap.NoDup a.kw → a.used = sumW a.kw →
      createLoop t size w incEst fuel a sample o ev pp = .ok r →
      ∃ evNew, r.evicted = ev.reverse ++ evNew ∧ LoopSpec w a evNew r := by
  intro fuel
  induction fuel with
  | zero => intro a sample o ev pp r _ _ h; simp [createLoop] at h
  | succ fuel ih =>
    intro a sample o ev pp r hn hs h
    have base : ∀ st o' pl, (st = .accepted ∨ st = .rejected .noSpace) → (st = .accepted → w ≤ a.max - a.used) →
        LoopSpec w a [] { status := st, adm := a, oracle := o', evicted := ev.reverse, popped := pl } := by
      intro st o' pl h1 h2
      exact ⟨hn, hs, rfl, by simp, by simp, by simp, by rcases h1 with h1 | h1 <;> simp [h1], h2, by simp, by simp⟩
    rw [createLoop] at h
    split at h
    · rename_i hroom
      simp only [Except.ok.injEq] at h
      subst h
      exact ⟨[], by simp, base _ _ _ (Or.inl rfl) (fun _ => hroom)⟩
    · split at h
      · cases h
      · split at h
        · cases h
        · simp only [Except.ok.injEq] at h
          subst h
          exact ⟨[], by simp, base _ _ _ (Or.inr rfl) (fun h => by cases h)⟩
      · rename_i id pops hpops
        split at h
        · cases h
        · rename_i k hk
          split at h
          · cases h
          · split at h
            · simp only [Except.ok.injEq] at h
              subst h
              exact ⟨[], by simp, base _ _ _ (Or.inr rfl) (fun h => by cases h)⟩
            · cases hg : a.kw.get? id with
              | none =>
                rw [Adm.delete_none hg] at h
                simp only at h
                split at h
                · rename_i hov
                  simp only [Except.ok.injEq] at h
                  subst h
                  exact ⟨[], by simp, hn, hs, rfl, by simp, by simp, by simp, by simp, by simp, by simp, fun _ => ⟨rfl, hov⟩⟩
                · split at h
                  · cases h
                  · obtain ⟨evNew, he, spec⟩ := ih _ _ _ _ _ _ hn hs h
                    exact ⟨evNew, he, spec⟩
              | some wk =>
                rw [Adm.delete_some hg] at h
                simp only at h
                have hn' : AMap.NoDup (a.kw.del id) := AMap.noDup_del hn id
                have hs' : a.used - wk.weight = sumW (a.kw.del id) := by
                  rw [sumW_del hn hg, hs]
                split at h
                · rename_i hov
                  simp only [Except.ok.injEq] at h
                  subst h
                  refine ⟨[(id, wk.key, wk.weight)], by simp, hn', hs', rfl, by simp, ?_, ?_, by simp, by simp, by simp,
                    fun _ => ⟨rfl, hov⟩⟩
                  · intro e hmem
                    simp only [List.mem_singleton] at hmem
                    subst hmem
                    exact ⟨wk.hash, by simp [hg]⟩
                  · intro i
                    simp only [List.map_cons, List.map_nil, List.mem_singleton, AMap.get?_del]
                    by_cases h2 : id = i
                    · subst h2; simp
                    · have h3 : ¬ i = id := fun e => h2 e.symm
                      simp [h2, h3]
                · split at h
                  · cases h
                  · obtain ⟨evNew, he, spec⟩ := ih { a with kw := a.kw.del id, used := a.used - wk.weight }
                      _ _ _ _ r hn' hs' h
                    refine ⟨(id, wk.key, wk.weight) :: evNew, by simp [he], ?_⟩
                    have hin : ∀ e ∈ evNew, e.1 ≠ id := by
                      intro e hmem heq
                      obtain ⟨hh, hget⟩ := spec.evIn e hmem
                      simp only [AMap.get?_del, heq] at hget
                      simp at hget
                    refine ⟨spec.noDup, spec.sum, spec.max, ?_, ?_, ?_, spec.status, spec.room, ?_, spec.ovf⟩
                    · simp only [List.map_cons, List.nodup_cons, List.mem_map, not_exists, not_and]
                      exact ⟨fun e hmem heq => hin e hmem heq, spec.evNodup⟩
                    · intro e hmem
                      simp only [List.mem_cons] at hmem
                      rcases hmem with rfl | hmem
                      · exact ⟨wk.hash, by simp [hg]⟩
                      · obtain ⟨hh, hget⟩ := spec.evIn e hmem
                        refine ⟨hh, ?_⟩
                        simp only [AMap.get?_del] at hget
                        split at hget
                        · cases hget
                        · exact hget
                    · intro i
                      rw [spec.get i]
                      simp only [List.map_cons, List.mem_cons, AMap.get?_del]
                      by_cases h1 : i ∈ evNew.map (·.1)
                      · simp [h1]
                      · by_cases h2 : id = i
                        · subst h2; simp
                        · have h3 : ¬ i = id := fun e => h2 e.symm
                          simp [h1, h2, h3]
                    · rw [spec.usedEq]
                      simp only [List.map_cons, List.sum_cons]
                      omega

/-! ### `maybeAdd` -/

/-- What `maybeAdd` does to the admission part, for an incoming `id` that is not charged yet. -/
structure AddSpec (a : Adm) (id key hash : Nat) (w : Int) (r : AdmResult) : Prop where
  noDup : AMap.NoDup r.adm.kw
  sum : r.adm.used = sumW r.adm.kw
  max : r.adm.max = a.max
  evNodup : (r.evicted.map (·.1)).Nodup
  evIn : ∀ e ∈ r.evicted, ∃ h, a.kw.get? e.1 = some ⟨e.2.1, h, e.2.2⟩
  idNotEvicted : id ∉ r.evicted.map (·.1)
  get : ∀ i, r.adm.kw.get? i =
    if i = id ∧ r.status = .accepted then some ⟨key, hash, w⟩
    else if i ∈ r.evicted.map (·.1) then none else a.kw.get? i
  status : r.status = .accepted ∨ r.status = .rejected .noSpace ∨ r.status = .rejected .tooHeavy ∨
    (r.status = .pending ∧ r.overflow = true)
  bound : r.status = .accepted → r.adm.used ≤ r.adm.max
  usedEq : r.adm.used = a.used - (r.evicted.map (·.2.2)).sum + (if r.status = .accepted then w else 0)
  /-- the worker panicked in `is_space_available_for`: nothing was added, and the total it leaves is the one that overflowed -/
  ovf : r.overflow = true → r.status = .pending ∧ r.adm.spaceOverflow = true

theorem Adm.add_spec {a : Adm} (hn : AMap.NoDup a.kw) (hs : a.used = sumW a.kw) {id : Nat}
    (hid : a.kw.get? id = none) (key hash : Nat) (w : Int) :
    AMap.NoDup (a.add id key hash w).kw ∧ (a.add id key hash w).used = sumW (a.add id key hash w).kw ∧
    (a.add id key hash w).max = a.max ∧ (a.add id key hash w).used = a.used + w ∧
    ∀ i, (a.add id key hash w).kw.get? i = if i = id then some ⟨key, hash, w⟩ else a.kw.get? i := by
  refine ⟨AMap.noDup_set hn _ _, ?_, rfl, rfl, ?_⟩
  · simp only [Adm.add, sumW_set, sumW_del_none hid, hs]
  · intro i
    simp only [Adm.add, AMap.get?_set]
    by_cases h : id = i
    · subst h; simp
    · have : ¬ i = id := fun e => h e.symm
      simp [h, this]

theorem maybeAdd_spec {t : TinyLFU} {size : Nat} {a : Adm} {id key hash : Nat} {w : Int} {o : Oracle}
    {r : AdmResult} (hn : AMap.NoDup a.kw) (hs : a.used = sumW a.kw) (hid : a.kw.get? id = none)
    (h : maybeAdd t size a id key hash w o = .ok r) : AddSpec a id key hash w r := by
  unfold maybeAdd at h
  split at h
  · -- too heavy
    simp only [Except.ok.injEq] at h
    subst h
    refine ⟨hn, hs, rfl, by simp, by simp, by simp, ?_, by simp, by simp, by simp, by simp⟩
    intro i
    by_cases hi : i = id
    · subst hi; simp [hid]
    · simp [hi]
  · split at h
    · -- `max_weight - weight_used` overflows: the worker panics before anything is changed
      rename_i hov
      simp only [Except.ok.injEq] at h
      subst h
      refine ⟨hn, hs, rfl, by simp, by simp, by simp, ?_, by simp, by simp, by simp, fun _ => ⟨rfl, hov⟩⟩
      intro i
      by_cases hi : i = id
      · subst hi; simp [hid]
      · simp [hi]
    · split at h
      · -- room without evictions
        rename_i hroom
        simp only [Except.ok.injEq] at h
        subst h
        obtain ⟨h1, h2, h3, h4, h5⟩ := Adm.add_spec hn hs hid key hash w
        refine ⟨h1, h2, h3, by simp, by simp, by simp, ?_, by simp, ?_, ?_, by simp⟩
        · intro i; simp [h5 i]
        · intro _; simp only [h3, h4]; omega
        · simp [h4]
      · split at h
        · cases h
        · split at h
          · cases h
          · split at h
            · cases h
            · rename_i lr hloop
              simp only [Except.ok.injEq] at h
              subst h
              obtain ⟨evNew, he, spec⟩ := createLoop_spec _ _ _ _ _ _ _ _ _ _ _ hn hs hloop
              simp only [List.reverse_nil, List.nil_append] at he
              subst he
              have hnotev : id ∉ lr.evicted.map (·.1) := by
                intro hmem
                obtain ⟨e, hmem, heq⟩ := List.mem_map.mp hmem
                obtain ⟨hh, hget⟩ := spec.evIn e hmem
                rw [heq, hid] at hget
                cases hget
              have hid' : lr.adm.kw.get? id = none := by
                rw [spec.get id]; simp [hnotev, hid]
              by_cases hacc : lr.status = .accepted
              · obtain ⟨h1, h2, h3, h4, h5⟩ := Adm.add_spec spec.noDup spec.sum hid' key hash w
                simp only [hacc, if_true]
                refine ⟨h1, h2, by rw [h3, spec.max], spec.evNodup, spec.evIn, hnotev, ?_, by simp, ?_, ?_, ?_⟩
                · intro i
                  rw [h5 i, spec.get i]
                  simp
                · intro _
                  have := spec.room hacc
                  simp only [h3, h4]; omega
                · rw [h4, spec.usedEq]; simp
                · intro hov
                  have := (spec.ovf hov).1
                  rw [hacc] at this; cases this
              · simp only [hacc, if_false]
                refine ⟨spec.noDup, spec.sum, spec.max, spec.evNodup, spec.evIn, hnotev, ?_, ?_, ?_, ?_, spec.ovf⟩
                · intro i
                  rw [spec.get i]
                  simp [hacc]
                · rcases spec.status with h1 | h1 | h1
                  · exact absurd h1 hacc
                  · exact Or.inr (Or.inl h1)
                  · exact Or.inr (Or.inr (Or.inr h1))
                · intro h1; exact absurd h1 hacc
                · rw [spec.usedEq]; simp [hacc]

/-- All weights stay positive. -/
theorem AddSpec.pos {a : Adm} {id key hash : Nat} {w : Int} {r : AdmResult} (sp : AddSpec a id key hash w r)
    (hpos : ∀ i wk, a.kw.get? i = some wk → 0 < wk.weight) (hw : 0 < w) :
    ∀ i wk, r.adm.kw.get? i = some wk → 0 < wk.weight := by
  intro i wk hg
  rw [sp.get i] at hg
  split at hg
  · simp only [Option.some.injEq] at hg; subst hg; exact hw
  · split at hg
    · cases hg
    · exact hpos i wk hg

/-- An evicted id is no longer charged. -/
theorem AddSpec.evOut {a : Adm} {id key hash : Nat} {w : Int} {r : AdmResult} (sp : AddSpec a id key hash w r)
    {e : Evicted} (he : e ∈ r.evicted) : r.adm.kw.get? e.1 = none := by
  rw [sp.get e.1]
  have h1 : e.1 ∈ r.evicted.map (·.1) := List.mem_map.mpr ⟨e, he, rfl⟩
  have h2 : e.1 ≠ id := fun heq => sp.idNotEvicted (heq ▸ h1)
  simp [h1, h2]

theorem AddSpec.evicted_sum_nonneg {a : Adm} {id key hash : Nat} {w : Int} {r : AdmResult}
    (sp : AddSpec a id key hash w r) (hpos : ∀ i wk, a.kw.get? i = some wk → 0 < wk.weight) :
    0 ≤ (r.evicted.map (·.2.2)).sum := by
  have : ∀ l : List Evicted, (∀ e ∈ l, 0 < e.2.2) → 0 ≤ (l.map (·.2.2)).sum := by
    intro l
    induction l with
    | nil => simp
    | cons x l ih =>
      intro hl
      have h1 := hl x (by simp)
      have h2 := ih (fun e he => hl e (by simp [he]))
      simp only [List.map_cons, List.sum_cons]; omega
  apply this
  intro e he
  obtain ⟨hh, hg⟩ := sp.evIn e he
  exact hpos _ _ hg

/-- A put that is not accepted never raises the total. -/
theorem AddSpec.used_le {a : Adm} {id key hash : Nat} {w : Int} {r : AdmResult} (sp : AddSpec a id key hash w r)
    (hpos : ∀ i wk, a.kw.get? i = some wk → 0 < wk.weight) (hst : r.status ≠ .accepted) :
    r.adm.used ≤ a.used := by
  have h1 := sp.evicted_sum_nonneg hpos
  have h2 := sp.usedEq
  simp only [hst, if_false] at h2
  omega

/-! ### `is_space_available_for` does not overflow while the accounting is in order -/

/-- The accounting in order: the total is the sum of the charged weights, all positive (so no total `create_space` passes
    through is negative); the capacity is a non-negative `i64` (Layer G: `0 < total_cache_weight`, an `i64`) and so is the
    total (it IS an `i64`; `CacheWeight::update` checks its own addition). -/
structure Adm.Sound (a : Adm) : Prop where
  noDup : AMap.NoDup a.kw
  sum : a.used = sumW a.kw
  pos : ∀ id wk, a.kw.get? id = some wk → 0 < wk.weight
  max0 : 0 ≤ a.max
  maxI : a.max ≤ i64Max
  usedI : a.used ≤ i64Max

theorem Adm.Sound.spaceOverflow_false {a : Adm} (h : a.Sound) : a.spaceOverflow = false :=
  Adm.spaceOverflow_false (by rw [h.sum]; exact sumW_nonneg h.noDup h.pos) h.usedI h.max0 h.maxI

/-- no run of the `create_space` loop from a sound admission state ends in the overflow panic -/
theorem createLoop_no_overflow {t : TinyLFU} {size : Nat} {w : Int} {incEst : Nat} {fuel : Nat} {a : Adm}
    {sample : List SKey} {o : Oracle} {ev : List Evicted} {pp : List SKey} {r : LoopResult} (ha : a.Sound)
    (h : createLoop t size w incEst fuel a sample o ev pp = .ok r) : r.overflow = false := by
  obtain ⟨evNew, -, spec⟩ := createLoop_spec t size w incEst fuel a sample o ev pp r ha.noDup ha.sum h
  cases hov : r.overflow with
  | false => rfl
  | true =>
    exfalso
    have hpos : ∀ id wk, r.adm.kw.get? id = some wk → 0 < wk.weight := by
      intro id wk hg
      rw [spec.get id] at hg
      split at hg
      · cases hg
      · exact ha.pos id wk hg
    have hev : 0 ≤ (evNew.map (·.2.2)).sum := by
      have : ∀ l : List Evicted, (∀ e ∈ l, 0 < e.2.2) → 0 ≤ (l.map (·.2.2)).sum := by
        intro l
        induction l with
        | nil => simp
        | cons x l ih =>
          intro hl
          have h1 := hl x (by simp)
          have h2 := ih (fun e he => hl e (by simp [he]))
          simp only [List.map_cons, List.sum_cons]; omega
      apply this
      intro e he
      obtain ⟨hh, hg⟩ := spec.evIn e he
      exact ha.pos _ _ hg
    have hsound : r.adm.Sound :=
      ⟨spec.noDup, spec.sum, hpos, by rw [spec.max]; exact ha.max0, by rw [spec.max]; exact ha.maxI,
        by have := spec.usedEq; have := ha.usedI; omega⟩
    have := (spec.ovf hov).2
    rw [hsound.spaceOverflow_false] at this
    cases this

/-- … nor does `maybe_add` -/
theorem maybeAdd_no_overflow {t : TinyLFU} {size : Nat} {a : Adm} {id key hash : Nat} {w : Int} {o : Oracle}
    {r : AdmResult} (ha : a.Sound) (h : maybeAdd t size a id key hash w o = .ok r) : r.overflow = false := by
  unfold maybeAdd at h
  split at h
  · simp only [Except.ok.injEq] at h; subst h; rfl
  · split at h
    · rename_i hov
      rw [ha.spaceOverflow_false] at hov; cases hov
    · split at h
      · simp only [Except.ok.injEq] at h; subst h; rfl
      · split at h
        · cases h
        · split at h
          · cases h
          · split at h
            · cases h
            · rename_i lr hloop
              simp only [Except.ok.injEq] at h
              subst h
              exact createLoop_no_overflow ha hloop

end Cached
