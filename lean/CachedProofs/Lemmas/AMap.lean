/-
  Lemmas about association-list maps (`Cached.AMap`).
-/
import CachedModel.Basic

namespace Cached
namespace AMap
variable {α β : Type} [DecidableEq α]

@[simp] theorem get?_nil (a : α) : get? ([] : AMap α β) a = none := rfl

@[simp] theorem del_nil (a : α) : del ([] : AMap α β) a = [] := rfl

theorem get?_cons (k : α) (v : β) (m : AMap α β) (a : α) :
    get? ((k, v) :: m) a = if k = a then some v else get? m a := rfl

@[simp] theorem get?_del_same (m : AMap α β) (a : α) : get? (del m a) a = none := by
  induction m with
  | nil => rfl
  | cons p rest ih =>
    obtain ⟨k, v⟩ := p
    by_cases h : k = a
    · simp [del, h, ih]
    · simp [del, h, get?_cons, ih]

theorem get?_del_other (m : AMap α β) {a b : α} (h : a ≠ b) : get? (del m a) b = get? m b := by
  induction m with
  | nil => rfl
  | cons p rest ih => grind [del, get?]

@[simp] theorem get?_set_same (m : AMap α β) (a : α) (b : β) : get? (set m a b) a = some b := by
  simp [set, get?_cons]

theorem get?_set_other (m : AMap α β) {a c : α} (b : β) (h : a ≠ c) : get? (set m a b) c = get? m c := by
  simp [set, get?_cons, h, get?_del_other m h]

theorem get?_set (m : AMap α β) (a c : α) (b : β) :
    get? (set m a b) c = if a = c then some b else get? m c := by
  by_cases h : a = c
  · subst h; simp
  · simp [h, get?_set_other m b h]

theorem get?_del (m : AMap α β) (a c : α) :
    get? (del m a) c = if a = c then none else get? m c := by
  by_cases h : a = c
  · subst h; simp
  · simp [h, get?_del_other m h]

/-- keys occur at most once -/
def NoDup (m : AMap α β) : Prop := (m.map Prod.fst).Nodup

theorem mem_keys_del {m : AMap α β} {a k : α} (h : k ∈ (del m a).map Prod.fst) :
    k ∈ m.map Prod.fst ∧ k ≠ a := by
  induction m with
  | nil => simp [del] at h
  | cons p rest ih =>
    obtain ⟨k', v⟩ := p
    by_cases hk : k' = a
    · simp only [del, hk, if_true] at h
      have := ih h
      exact ⟨by simp [this.1], this.2⟩
    · simp only [del, hk, if_false, List.map_cons, List.mem_cons] at h
      rcases h with h | h
      · subst h; exact ⟨by simp, hk⟩
      · have := ih h
        exact ⟨by simp [this.1], this.2⟩

theorem noDup_del {m : AMap α β} (h : NoDup m) (a : α) : NoDup (del m a) := by
  induction m with
  | nil => simp [NoDup, del]
  | cons p rest ih =>
    obtain ⟨k, v⟩ := p
    simp only [NoDup, List.map_cons, List.nodup_cons] at h
    by_cases hk : k = a
    · simp only [del, hk, if_true]
      exact ih h.2
    · simp only [del, hk, if_false, NoDup, List.map_cons, List.nodup_cons]
      refine ⟨?_, ih h.2⟩
      intro hmem
      exact h.1 (mem_keys_del hmem).1

theorem noDup_set {m : AMap α β} (h : NoDup m) (a : α) (b : β) : NoDup (set m a b) := by
  simp only [set, NoDup, List.map_cons, List.nodup_cons]
  refine ⟨?_, noDup_del h a⟩
  intro hmem
  exact (mem_keys_del hmem).2 rfl

omit [DecidableEq α] in
theorem noDup_nil : NoDup ([] : AMap α β) := by simp [NoDup]

theorem get?_eq_none_iff {m : AMap α β} {a : α} : get? m a = none ↔ a ∉ m.map Prod.fst := by
  induction m with
  | nil => simp
  | cons p rest ih =>
    obtain ⟨k, v⟩ := p
    by_cases hk : k = a
    · subst hk; simp [get?_cons]
    · simp only [get?_cons, hk, if_false, List.map_cons, List.mem_cons, not_or]
      constructor
      · intro h; exact ⟨fun e => hk e.symm, ih.mp h⟩
      · intro h; exact ih.mpr h.2

theorem mem_of_get? {m : AMap α β} {a : α} {b : β} (h : get? m a = some b) : (a, b) ∈ m := by
  induction m with
  | nil => simp at h
  | cons p rest ih =>
    obtain ⟨k, v⟩ := p
    by_cases hk : k = a
    · subst hk
      simp only [get?_cons, if_true, Option.some.injEq] at h
      subst h; simp
    · simp only [get?_cons, hk, if_false] at h
      simp [ih h]

theorem get?_of_mem {m : AMap α β} (hn : NoDup m) {a : α} {b : β} (h : (a, b) ∈ m) : get? m a = some b := by
  induction m with
  | nil => simp at h
  | cons p rest ih =>
    obtain ⟨k, v⟩ := p
    simp only [NoDup, List.map_cons, List.nodup_cons] at hn
    simp only [List.mem_cons, Prod.mk.injEq] at h
    rcases h with ⟨h1, h2⟩ | h
    · subst h1; subst h2; simp [get?_cons]
    · have hk : k ≠ a := by
        intro e; subst e
        exact hn.1 (List.mem_map.mpr ⟨(k, b), h, rfl⟩)
      simp [get?_cons, hk, ih hn.2 h]

end AMap
end Cached
