/-
  Lemmas for C18 (no deadlock): the small-step semantics of the abstract lock / queue system of
  `CachedModel/Locks.lean`, what `Thread.ok` says about the operation a thread is about to perform,
  the specification `BlockedSpec` of "the implementation may keep this thread waiting", and the two
  wait-chain arguments (lock ranks, then channels).
-/
import CachedModel.Locks

namespace Cached
namespace Locks

/-! ## ranks -/

theorem Cls.rank_lt_8 (c : Cls) : c.rank < 8 := by cases c <;> decide

theorem Cls.rank_injective : ∀ a b : Cls, a.rank = b.rank → a = b := by
  intro a b; cases a <;> cases b <;> simp [Cls.rank]

/-! ## the lexicographic order on concrete locks -/

theorem Lock.lt_irrefl (a : Lock) : ¬ Lock.lt a a := by
  unfold Lock.lt; omega

theorem Lock.lt_trans {a b c : Lock} (h1 : Lock.lt a b) (h2 : Lock.lt b c) : Lock.lt a c := by
  unfold Lock.lt at *; omega

theorem Lock.lt_asymm {a b : Lock} (h1 : Lock.lt a b) (h2 : Lock.lt b a) : False := by
  unfold Lock.lt at *; omega

/-- the order is total on locks: two locks that are not comparable are the same lock -/
theorem Lock.lt_total (a b : Lock) : Lock.lt a b ∨ a = b ∨ Lock.lt b a := by
  unfold Lock.lt
  by_cases h : a.cls.rank = b.cls.rank
  · have hc := Cls.rank_injective _ _ h
    by_cases hi : a.inst = b.inst
    · right; left
      cases a; cases b; simp only at hc hi; subst hc; subst hi; rfl
    · omega
  · omega

/-- an upper bound of the instance indices the threads of a list are acquiring -/
def maxWant : List Thread → Nat
  | [] => 0
  | t :: ts => max t.want (maxWant ts)

theorem le_maxWant {ts : List Thread} {t : Thread} (h : t ∈ ts) : t.want ≤ maxWant ts := by
  induction ts with
  | nil => cases h
  | cons x xs ih =>
    simp only [maxWant]
    rcases List.mem_cons.mp h with rfl | h
    · omega
    · have := ih h; omega

/-! ## the discipline depends only on the multiset of held classes -/

theorem all_perm {α : Type} {l1 l2 : List α} (p : α → Bool) (h : List.Perm l1 l2) : l1.all p = l2.all p := by
  rw [Bool.eq_iff_iff, List.all_eq_true, List.all_eq_true]
  constructor
  · intro H x hx; exact H x (h.mem_iff.mpr hx)
  · intro H x hx; exact H x (h.mem_iff.mp hx)

theorem okFrom_perm : ∀ (p : List Op) (h1 h2 : List Cls), List.Perm h1 h2 → okFrom h1 p = okFrom h2 p := by
  intro p
  induction p with
  | nil => intro h1 h2 _; rfl
  | cons op rest ih =>
    intro h1 h2 hp
    cases op with
    | acq c => simp only [okFrom]; rw [all_perm _ hp, ih _ _ (hp.cons c)]
    | acqUp c => simp only [okFrom]; rw [all_perm _ hp, ih _ _ (hp.cons c)]
    | rel c => simp only [okFrom]; rw [hp.contains_eq, ih _ _ (hp.erase c)]
    | send q => simp only [okFrom]; rw [hp.isEmpty_eq, ih _ _ hp]
    | recv q => simp only [okFrom]; rw [hp.isEmpty_eq, ih _ _ hp]
    | trySend q => simp only [okFrom]; rw [ih _ _ hp]

theorem heldAfter_perm : ∀ (p : List Op) (h1 h2 : List Cls), List.Perm h1 h2 →
    List.Perm (heldAfter h1 p) (heldAfter h2 p) := by
  intro p
  induction p with
  | nil => intro h1 h2 hp; exact hp
  | cons op rest ih =>
    intro h1 h2 hp
    cases op with
    | acq c => exact ih _ _ (hp.cons c)
    | acqUp c => exact ih _ _ (hp.cons c)
    | rel c => exact ih _ _ (hp.erase c)
    | send q => exact ih _ _ hp
    | recv q => exact ih _ _ hp
    | trySend q => exact ih _ _ hp

/-- erasing a held lock erases (up to order) its class from the list of held classes -/
theorem map_cls_erase_perm {held : List Lock} {x : Lock} (hx : x ∈ held) :
    List.Perm ((held.erase x).map (·.cls)) ((held.map (·.cls)).erase x.cls) := by
  have h1 : List.Perm (held.map (·.cls)) (x.cls :: (held.erase x).map (·.cls)) :=
    (List.perm_cons_erase hx).map (·.cls)
  have hmem : x.cls ∈ held.map (·.cls) := List.mem_map.mpr ⟨x, hx, rfl⟩
  have h2 : List.Perm (held.map (·.cls)) (x.cls :: (held.map (·.cls)).erase x.cls) := List.perm_cons_erase hmem
  exact (h1.symm.trans h2).cons_inv

/-! ## small-step semantics -/

/-- what a thread holds, as classes, after performing `op` (what `okFrom` / `heldAfter` compute) -/
def clsStep : List Cls → Op → List Cls
  | h, .acq c => c :: h
  | h, .acqUp c => c :: h
  | h, .rel c => h.erase c
  | h, _ => h

/-- The locks a thread holds after performing `op`: an acquire (`acq c` / `acqUp c`) takes the lock `⟨c, want⟩`
    the thread was acquiring; `rel c` lets go of the held lock `⟨c, inst⟩` (`inst` is chosen by the environment;
    `none` if the thread does not hold that lock); channel operations change nothing. -/
def heldStep (held : List Lock) (want inst : Nat) : Op → Option (List Lock)
  | .acq c => some (⟨c, want⟩ :: held)
  | .acqUp c => some (⟨c, want⟩ :: held)
  | .rel c => if (⟨c, inst⟩ : Lock) ∈ held then some (held.erase ⟨c, inst⟩) else none
  | _ => some held

/-- the channel lengths after some thread performed `op` -/
def lenStep (S : Sys) : Op → Chan → Nat
  | .send q => fun q' => if q' = q then S.len q + 1 else S.len q'
  | .trySend q => fun q' => if q' = q then (if S.len q < S.cap q then S.len q + 1 else S.len q) else S.len q'
  | .recv q => fun q' => if q' = q then S.len q - 1 else S.len q'
  | _ => S.len

/-- Small-step semantics: thread `i` performs the first operation of its `todo`
    (`none` if thread `i` does not exist, has nothing to do, or is asked to release a lock it does not hold).
    The caller only steps a thread that is not blocked, see `BlockedSpec`.
    `acq c` / `acqUp c`: `held := ⟨c, want⟩ :: held`; `rel c`: `held := held.erase ⟨c, inst⟩` (the environment
    says which instance of class `c` is released); `send q`: `len q := len q + 1`;
    `trySend q`: `len q := if len q < cap q then len q + 1 else len q`; `recv q`: `len q := len q - 1`;
    in every case `todo := todo.tail` and `want := next` (the environment announces the instance index of the
    thread's next acquisition; it must respect the upward rule, see `upOk` and `C18_wf_preserved`). -/
def stepThread (S : Sys) (i : Nat) (inst : Nat) (next : Nat) : Option Sys :=
  match S.threads[i]? with
  | none => none
  | some t =>
    match t.todo with
    | [] => none
    | op :: rest =>
      match heldStep t.held t.want inst op with
      | none => none
      | some h' =>
        some { threads := S.threads.set i { held := h', todo := rest, want := next, consumerOf := t.consumerOf }
               len := lenStep S op
               cap := S.cap }

/-- a schedule: the list of the threads that move, in order, each with the environment's two choices
    (thread, instance released if the step is a `rel`, instance announced for the next acquisition) -/
def run (S : Sys) : List (Nat × Nat × Nat) → Option Sys
  | [] => some S
  | a :: rest => (stepThread S a.1 a.2.1 a.2.2).bind (fun S1 => run S1 rest)

/-- Which threads the lock / channel implementation may keep waiting. `blocked` is a PARAMETER of the
    deadlock theorem, constrained only by these facts about blocking primitives. -/
structure BlockedSpec (S : Sys) (blocked : Nat → Prop) : Prop where
  /-- a thread kept waiting at `acq c` or `acqUp c`: some OTHER thread currently holds exactly the lock instance
      `⟨c, want⟩` it is acquiring (this covers reader/writer locks with writer preference: a reader kept waiting
      by a queued writer still has a holder in front of both). `acqUp` is never "free": it blocks like `acq`. -/
  acq_has_holder : ∀ i t c rest, S.threads[i]? = some t → (t.todo = .acq c :: rest ∨ t.todo = .acqUp c :: rest) →
    blocked i → ∃ j u, j ≠ i ∧ S.threads[j]? = some u ∧ (⟨c, t.want⟩ : Lock) ∈ u.held
  /-- a blocking send waits only on a full queue -/
  send_full : ∀ i t q rest, S.threads[i]? = some t → t.todo = .send q :: rest → blocked i → S.len q ≥ S.cap q
  /-- a blocking receive waits only on an empty queue -/
  recv_empty : ∀ i t q rest, S.threads[i]? = some t → t.todo = .recv q :: rest → blocked i → S.len q = 0
  rel_free : ∀ i t c rest, S.threads[i]? = some t → t.todo = .rel c :: rest → ¬ blocked i
  try_free : ∀ i t q rest, S.threads[i]? = some t → t.todo = .trySend q :: rest → ¬ blocked i
  idle_free : ∀ i t, S.threads[i]? = some t → t.todo = [] → ¬ blocked i

/-- Well-formed system. (No condition of the kind "a lock has at most one holder" is needed: the argument only
    follows ONE holder of the wanted lock, and read locks do have several holders.) -/
structure WF (S : Sys) : Prop where
  /-- every thread keeps the static discipline for the rest of its program -/
  ok : ∀ t ∈ S.threads, t.ok = true
  cap_pos : ∀ q, 0 < S.cap q
  /-- whenever somebody is about to do a blocking send on `q`, the consumer thread of `q` is alive and inside
      its loop (if the consumer is gone the channel is disconnected and `send` returns an error) -/
  has_consumer : ∀ (i : Nat) (t : Thread) (q : Chan) (rest : List Op), S.threads[i]? = some t →
    t.todo = .send q :: rest →
    ∃ (j : Nat) (u : Thread), S.threads[j]? = some u ∧ u.consumerOf = some q ∧ u.todo ≠ []

/-! ## what `Thread.ok` says -/

/-- the upward clause of `Thread.ok`: an upward acquire at the head of `todo` goes to an instance above every held
    instance of its class -/
def upOk (held : List Lock) (want : Nat) (todo : List Op) : Bool :=
  match todo with
  | .acqUp c :: _ => held.all (fun h => h.cls != c || decide (h.inst < want))
  | _ => true

/-- the consumer clause of `Thread.ok` -/
def consOk (c : Option Chan) (todo : List Op) : Bool :=
  match c with
  | some q => todo.all (fun op => match op with | .send _ => false | .recv q' => q' == q | _ => true)
  | none => todo.all (fun op => match op with | .recv _ => false | _ => true)

theorem Thread.ok_iff (t : Thread) :
    t.ok = true ↔ okFrom (t.held.map (·.cls)) t.todo = true ∧ upOk t.held t.want t.todo = true ∧
      consOk t.consumerOf t.todo = true ∧ heldAfter (t.held.map (·.cls)) t.todo = [] := by
  unfold Thread.ok
  rw [Bool.and_eq_true, Bool.and_eq_true, Bool.and_eq_true, List.isEmpty_iff, and_assoc, and_assoc]
  exact Iff.rfl

theorem upOk_iff {held : List Lock} {want : Nat} {todo : List Op} :
    upOk held want todo = true ↔ ∀ c rest, todo = .acqUp c :: rest → ∀ h ∈ held, h.cls = c → h.inst < want := by
  unfold upOk
  split
  · rename_i c r
    simp only [List.all_eq_true, Bool.or_eq_true, bne_iff_ne, ne_eq, decide_eq_true_eq]
    constructor
    · intro H c' rest heq h hh hc
      cases heq
      rcases H h hh with h1 | h1
      · exact absurd hc h1
      · exact h1
    · intro H h hh
      by_cases hc : h.cls = c
      · exact Or.inr (H c r rfl h hh hc)
      · exact Or.inl hc
  · rename_i hne
    simp only [true_iff]
    intro c rest heq
    exact absurd heq (hne c rest)

theorem consOk_tail {c : Option Chan} {op : Op} {rest : List Op} (h : consOk c (op :: rest) = true) :
    consOk c rest = true := by
  unfold consOk at *
  cases c <;> simp only [List.all_cons, Bool.and_eq_true] at h <;> exact h.2

theorem okFrom_step {held : List Cls} {op : Op} {rest : List Op} (h : okFrom held (op :: rest) = true) :
    okFrom (clsStep held op) rest = true := by
  cases op <;> simp only [okFrom, Bool.and_eq_true] at h <;> first | exact h.2 | exact h

theorem heldAfter_step (held : List Cls) (op : Op) (rest : List Op) :
    heldAfter held (op :: rest) = heldAfter (clsStep held op) rest := by
  cases op <;> rfl

/-- the classes held after a step of the concrete semantics are (up to order) those of the class-level step -/
theorem heldStep_perm {held h' : List Lock} {want inst : Nat} {op : Op} (h : heldStep held want inst op = some h') :
    List.Perm (h'.map (·.cls)) (clsStep (held.map (·.cls)) op) := by
  cases op with
  | acq c => simp only [heldStep, Option.some.injEq] at h; subst h; exact List.Perm.refl _
  | acqUp c => simp only [heldStep, Option.some.injEq] at h; subst h; exact List.Perm.refl _
  | rel c =>
    simp only [heldStep] at h
    split at h
    · rename_i hmem
      simp only [Option.some.injEq] at h; subst h
      exact map_cls_erase_perm hmem
    · cases h
  | send q => simp only [heldStep, Option.some.injEq] at h; subst h; exact List.Perm.refl _
  | recv q => simp only [heldStep, Option.some.injEq] at h; subst h; exact List.Perm.refl _
  | trySend q => simp only [heldStep, Option.some.injEq] at h; subst h; exact List.Perm.refl _

/-- a finished thread holds nothing -/
theorem Thread.ok_nil {t : Thread} (h : t.ok = true) (hn : t.todo = []) : t.held = [] := by
  have h4 := ((Thread.ok_iff t).mp h).2.2.2
  rw [hn] at h4
  simpa [heldAfter] using h4

/-- at a plain acquire, the class wanted is ranked strictly above everything held -/
theorem Thread.ok_acq {t : Thread} {c : Cls} {rest : List Op} (h : t.ok = true) (ht : t.todo = .acq c :: rest) :
    ∀ x ∈ t.held, x.cls.rank < c.rank := by
  have h1 := ((Thread.ok_iff t).mp h).1
  rw [ht] at h1
  simp only [okFrom, Bool.and_eq_true, List.all_eq_true, decide_eq_true_eq] at h1
  intro x hx
  exact h1.1 x.cls (List.mem_map.mpr ⟨x, hx, rfl⟩)

/-- at an upward acquire, nothing held is ranked above the class wanted, and the held locks of that very class
    have smaller instance indices than the one wanted -/
theorem Thread.ok_acqUp {t : Thread} {c : Cls} {rest : List Op} (h : t.ok = true) (ht : t.todo = .acqUp c :: rest) :
    ∀ x ∈ t.held, x.cls.rank ≤ c.rank ∧ (x.cls = c → x.inst < t.want) := by
  obtain ⟨h1, h2, _⟩ := (Thread.ok_iff t).mp h
  rw [ht] at h1
  simp only [okFrom, Bool.and_eq_true, List.all_eq_true, decide_eq_true_eq] at h1
  intro x hx
  exact ⟨h1.1 x.cls (List.mem_map.mpr ⟨x, hx, rfl⟩), fun hc => upOk_iff.mp h2 c rest ht x hx hc⟩

/-- **Locks are taken in increasing lexicographic order**: at any acquire, every held lock is `Lock.lt` the lock
    the thread is acquiring. -/
theorem Thread.ok_held_lt_wanted {t : Thread} {c : Cls} {rest : List Op} (h : t.ok = true)
    (ht : t.todo = .acq c :: rest ∨ t.todo = .acqUp c :: rest) :
    ∀ x ∈ t.held, Lock.lt x ⟨c, t.want⟩ := by
  intro x hx
  unfold Lock.lt
  rcases ht with ht | ht
  · exact Or.inl (Thread.ok_acq h ht x hx)
  · obtain ⟨hle, hi⟩ := Thread.ok_acqUp h ht x hx
    by_cases heq : x.cls.rank = c.rank
    · exact Or.inr ⟨heq, hi (Cls.rank_injective _ _ heq)⟩
    · exact Or.inl (by simp only; omega)

/-- at a release, a lock of that class is held -/
theorem Thread.ok_rel {t : Thread} {c : Cls} {rest : List Op} (h : t.ok = true) (ht : t.todo = .rel c :: rest) :
    ∃ inst, (⟨c, inst⟩ : Lock) ∈ t.held := by
  have h1 := ((Thread.ok_iff t).mp h).1
  rw [ht] at h1
  simp only [okFrom, Bool.and_eq_true, List.contains_iff_mem] at h1
  obtain ⟨x, hx, hc⟩ := List.mem_map.mp h1.1
  refine ⟨x.inst, ?_⟩
  cases x
  simp only at hc
  subst hc
  exact hx

/-- at a blocking send, nothing is held and the thread is not a consumer -/
theorem Thread.ok_send {t : Thread} {q : Chan} {rest : List Op} (h : t.ok = true) (ht : t.todo = .send q :: rest) :
    t.held = [] ∧ t.consumerOf = none := by
  obtain ⟨h1, _, h2, _⟩ := (Thread.ok_iff t).mp h
  rw [ht] at h1 h2
  simp only [okFrom, Bool.and_eq_true, List.isEmpty_iff, List.map_eq_nil_iff] at h1
  refine ⟨h1.1, ?_⟩
  cases hc : t.consumerOf with
  | none => rfl
  | some q' => rw [hc] at h2; simp [consOk] at h2

/-- at a blocking receive, nothing is held and the thread is the consumer of that very channel -/
theorem Thread.ok_recv {t : Thread} {q : Chan} {rest : List Op} (h : t.ok = true) (ht : t.todo = .recv q :: rest) :
    t.held = [] ∧ t.consumerOf = some q := by
  obtain ⟨h1, _, h2, _⟩ := (Thread.ok_iff t).mp h
  rw [ht] at h1 h2
  simp only [okFrom, Bool.and_eq_true, List.isEmpty_iff, List.map_eq_nil_iff] at h1
  refine ⟨h1.1, ?_⟩
  cases hc : t.consumerOf with
  | none => rw [hc] at h2; simp [consOk] at h2
  | some q' =>
    rw [hc] at h2
    simp only [consOk, List.all_cons, Bool.and_eq_true, beq_iff_eq] at h2
    rw [h2.1]

/-- one step of a thread keeps `Thread.ok`, provided the announced next instance respects the upward rule -/
theorem Thread.ok_step {t : Thread} {op : Op} {rest : List Op} {inst next : Nat} {h' : List Lock}
    (h : t.ok = true) (ht : t.todo = op :: rest) (hs : heldStep t.held t.want inst op = some h')
    (hup : upOk h' next rest = true) :
    ({ held := h', todo := rest, want := next, consumerOf := t.consumerOf } : Thread).ok = true := by
  obtain ⟨h1, _, h3, h4⟩ := (Thread.ok_iff t).mp h
  rw [ht] at h1 h3 h4
  rw [heldAfter_step] at h4
  have hp := heldStep_perm hs
  refine (Thread.ok_iff _).mpr ⟨?_, hup, consOk_tail h3, ?_⟩
  · simp only
    rw [okFrom_perm rest _ _ hp]
    exact okFrom_step h1
  · simp only
    have := heldAfter_perm rest _ _ hp
    rw [h4] at this
    exact this.eq_nil

/-! ## facts about `stepThread` -/

theorem stepThread_eq_some {S S' : Sys} {i inst next : Nat} (h : stepThread S i inst next = some S') :
    ∃ t op rest h', S.threads[i]? = some t ∧ t.todo = op :: rest ∧ heldStep t.held t.want inst op = some h' ∧
      S' = { threads := S.threads.set i { held := h', todo := rest, want := next, consumerOf := t.consumerOf }
             len := lenStep S op
             cap := S.cap } := by
  unfold stepThread at h
  split at h
  · cases h
  · rename_i t ht
    split at h
    · cases h
    · rename_i op rest htodo
      split at h
      · cases h
      · rename_i h' hs
        simp only [Option.some.injEq] at h
        exact ⟨t, op, rest, h', ht, htodo, hs, h.symm⟩

/-- a thread that keeps the discipline and has something to do can always be stepped (for a suitable choice of the
    instance released, if it is at a release; whatever instance is announced next) -/
theorem stepThread_isSome {S : Sys} {i : Nat} {t : Thread} (ht : S.threads[i]? = some t) (hok : t.ok = true)
    (hn : t.todo ≠ []) : ∃ inst, ∀ next, ∃ S', stepThread S i inst next = some S' := by
  cases htodo : t.todo with
  | nil => exact absurd htodo hn
  | cons op rest =>
    cases op with
    | rel c =>
      obtain ⟨inst, hmem⟩ := Thread.ok_rel hok htodo
      exact ⟨inst, fun next => by simp [stepThread, ht, htodo, heldStep, hmem]⟩
    | acq c => exact ⟨0, fun next => by simp [stepThread, ht, htodo, heldStep]⟩
    | acqUp c => exact ⟨0, fun next => by simp [stepThread, ht, htodo, heldStep]⟩
    | send q => exact ⟨0, fun next => by simp [stepThread, ht, htodo, heldStep]⟩
    | recv q => exact ⟨0, fun next => by simp [stepThread, ht, htodo, heldStep]⟩
    | trySend q => exact ⟨0, fun next => by simp [stepThread, ht, htodo, heldStep]⟩

/-- the stepped thread drops exactly its first operation; every other thread is untouched -/
theorem stepThread_todo {S S' : Sys} {i inst next : Nat} (h : stepThread S i inst next = some S') :
    (∃ t t', S.threads[i]? = some t ∧ S'.threads[i]? = some t' ∧ t.todo ≠ [] ∧ t'.todo = t.todo.tail ∧
      t'.consumerOf = t.consumerOf ∧ t'.want = next) ∧
    (∀ j, j ≠ i → S'.threads[j]? = S.threads[j]?) ∧ S'.cap = S.cap ∧ S'.threads.length = S.threads.length := by
  obtain ⟨t, op, rest, h', ht, htodo, _, rfl⟩ := stepThread_eq_some h
  have hi : i < S.threads.length := (List.getElem?_eq_some_iff.mp ht).1
  refine ⟨⟨t, { held := h', todo := rest, want := next, consumerOf := t.consumerOf }, ht, ?_, ?_, ?_, rfl, rfl⟩,
    ?_, rfl, ?_⟩
  · simp [hi]
  · rw [htodo]; simp
  · rw [htodo]; rfl
  · intro j hj
    simp only [List.getElem?_set]
    rw [if_neg (Ne.symm hj)]
  · simp

/-- what the stepped thread holds afterwards: an acquire adds exactly the lock `⟨c, want⟩` it was acquiring, a
    release removes exactly the lock `⟨c, inst⟩`, channel operations change nothing -/
theorem stepThread_held {S S' : Sys} {i inst next : Nat} (h : stepThread S i inst next = some S') :
    ∃ t t' op rest, S.threads[i]? = some t ∧ S'.threads[i]? = some t' ∧ t.todo = op :: rest ∧
      (match op with
       | .acq c => t'.held = ⟨c, t.want⟩ :: t.held
       | .acqUp c => t'.held = ⟨c, t.want⟩ :: t.held
       | .rel c => (⟨c, inst⟩ : Lock) ∈ t.held ∧ t'.held = t.held.erase ⟨c, inst⟩
       | _ => t'.held = t.held) := by
  obtain ⟨t, op, rest, h', ht, htodo, hs, rfl⟩ := stepThread_eq_some h
  have hi : i < S.threads.length := (List.getElem?_eq_some_iff.mp ht).1
  refine ⟨t, { held := h', todo := rest, want := next, consumerOf := t.consumerOf }, op, rest, ht, by simp [hi],
    htodo, ?_⟩
  cases op with
  | rel c =>
    simp only [heldStep] at hs
    split at hs
    · rename_i hmem
      simp only [Option.some.injEq] at hs
      exact ⟨hmem, hs.symm⟩
    · cases hs
  | acq c => simp only [heldStep, Option.some.injEq] at hs; exact hs.symm
  | acqUp c => simp only [heldStep, Option.some.injEq] at hs; exact hs.symm
  | send q => simp only [heldStep, Option.some.injEq] at hs; exact hs.symm
  | recv q => simp only [heldStep, Option.some.injEq] at hs; exact hs.symm
  | trySend q => simp only [heldStep, Option.some.injEq] at hs; exact hs.symm

/-- `Thread.ok` survives every step (of any thread, blocked or not), provided the instance announced for the
    stepped thread's next acquisition respects the upward rule: if its new head is `acqUp c`, every lock of class
    `c` it holds has an instance index below `next`. -/
theorem stepThread_ok {S S' : Sys} {i inst next : Nat} (hok : ∀ t ∈ S.threads, t.ok = true)
    (h : stepThread S i inst next = some S')
    (hnext : ∀ t', S'.threads[i]? = some t' → ∀ c rest, t'.todo = .acqUp c :: rest →
      ∀ x ∈ t'.held, x.cls = c → x.inst < next) :
    ∀ t ∈ S'.threads, t.ok = true := by
  obtain ⟨t, op, rest, h', ht, htodo, hs, rfl⟩ := stepThread_eq_some h
  have hmem := List.mem_of_getElem? ht
  have hi : i < S.threads.length := (List.getElem?_eq_some_iff.mp ht).1
  have hup : upOk h' next rest = true :=
    upOk_iff.mpr (hnext { held := h', todo := rest, want := next, consumerOf := t.consumerOf } (by simp [hi]))
  have h1 := Thread.ok_step (hok t hmem) htodo hs hup
  intro x hx
  simp only at hx
  rcases List.mem_or_eq_of_mem_set hx with hx | hx
  · exact hok x hx
  · rw [hx]; exact h1

/-- After a schedule, every thread has dropped exactly as many operations as it was scheduled. -/
theorem run_todo (i : Nat) : ∀ (sched : List (Nat × Nat × Nat)) (S S' : Sys) (t : Thread), run S sched = some S' →
    S.threads[i]? = some t →
    ∃ t', S'.threads[i]? = some t' ∧ t'.todo = t.todo.drop ((sched.map (·.1)).count i) ∧
      (sched.map (·.1)).count i ≤ t.todo.length ∧ t'.consumerOf = t.consumerOf := by
  intro sched
  induction sched with
  | nil =>
    intro S S' t h ht
    simp only [run, Option.some.injEq] at h
    subst h
    exact ⟨t, ht, by simp, by simp, rfl⟩
  | cons a rest ih =>
    intro S S' t h ht
    obtain ⟨j, ri, nx⟩ := a
    simp only [run] at h
    cases hs : stepThread S j ri nx with
    | none => simp [hs] at h
    | some S1 =>
      simp only [hs, Option.bind_some] at h
      obtain ⟨⟨u, u', hu, hu', hne, htail, hcons, _⟩, hother, _, _⟩ := stepThread_todo hs
      by_cases hji : j = i
      · subst hji
        rw [hu] at ht
        cases ht
        obtain ⟨t', ht', hdrop, hle, hc⟩ := ih S1 S' u' h hu'
        refine ⟨t', ht', ?_, ?_, hc.trans hcons⟩
        · rw [hdrop, htail, List.map_cons, List.count_cons_self]
          cases hl : t.todo with
          | nil => exact absurd hl hne
          | cons op r => simp
        · rw [htail] at hle
          rw [List.map_cons, List.count_cons_self]
          cases hl : t.todo with
          | nil => exact absurd hl hne
          | cons op r => rw [hl] at hle; simp at hle ⊢; omega
      · have ht1 : S1.threads[i]? = some t := by rw [hother i (Ne.symm hji)]; exact ht
        obtain ⟨t', ht', hdrop, hle, hc⟩ := ih S1 S' t h ht1
        have hcount : (((j, ri, nx) :: rest).map (·.1)).count i = (rest.map (·.1)).count i := by
          rw [List.map_cons, List.count_cons]; simp [hji]
        exact ⟨t', ht', by rw [hcount]; exact hdrop, by rw [hcount]; exact hle, hc⟩

/-- `Thread.ok` along a whole schedule: if after every prefix of the schedule every thread's announced instance
    respects the upward rule (`upOk`), every thread is `ok` at the end. -/
theorem run_ok : ∀ (sched : List (Nat × Nat × Nat)) (S S' : Sys), (∀ t ∈ S.threads, t.ok = true) →
    (∀ k Sk, run S (sched.take k) = some Sk → ∀ t ∈ Sk.threads, upOk t.held t.want t.todo = true) →
    run S sched = some S' → ∀ t ∈ S'.threads, t.ok = true := by
  intro sched
  induction sched with
  | nil =>
    intro S S' hok _ h
    simp only [run, Option.some.injEq] at h
    subst h
    exact hok
  | cons a rest ih =>
    intro S S' hok hup h
    simp only [run] at h
    cases hs : stepThread S a.1 a.2.1 a.2.2 with
    | none => simp [hs] at h
    | some S1 =>
      simp only [hs, Option.bind_some] at h
      have hup1 : ∀ t ∈ S1.threads, upOk t.held t.want t.todo = true :=
        hup 1 S1 (by simp [run, hs])
      have hok1 : ∀ t ∈ S1.threads, t.ok = true := by
        apply stepThread_ok hok hs
        intro t' ht'
        exact upOk_iff.mp ((stepThread_todo hs).1.elim fun u hu => by
          obtain ⟨u', _, hu', _, _, _, hw⟩ := hu
          rw [ht'] at hu'; cases hu'
          rw [← hw]
          exact hup1 t' (List.mem_of_getElem? ht'))
      apply ih S1 S' hok1 ?_ h
      intro k Sk hk
      exact hup (k + 1) Sk (by simp [run, hs, hk])

/-! ## the wait-chain arguments -/

/-- A set `P` of threads that wait on one another: every member is kept waiting by the implementation; a member
    that waits for the lock `⟨c, want⟩` (at `acq c` or `acqUp c`) waits for a MEMBER that holds that very lock; a
    member that waits for room in queue `q` waits for a MEMBER that is the (unfinished) consumer of `q`. Every
    cycle of lock or queue waits, and every set of threads that are stuck for ever, is such a set (members waiting
    at `recv` need no justification here: the theorem shows they are the only possible members). -/
structure WaitClosed (S : Sys) (blocked : Nat → Prop) (P : Nat → Prop) : Prop where
  all_blocked : ∀ i, P i → blocked i
  acq_waits_in : ∀ (i : Nat) (t : Thread) (c : Cls) (rest : List Op), P i → S.threads[i]? = some t →
    (t.todo = .acq c :: rest ∨ t.todo = .acqUp c :: rest) →
    ∃ (j : Nat) (u : Thread), P j ∧ S.threads[j]? = some u ∧ (⟨c, t.want⟩ : Lock) ∈ u.held
  send_waits_in : ∀ (i : Nat) (t : Thread) (q : Chan) (rest : List Op), P i → S.threads[i]? = some t →
    t.todo = .send q :: rest →
    ∃ (j : Nat) (u : Thread), P j ∧ S.threads[j]? = some u ∧ u.consumerOf = some q ∧ u.todo ≠ []

section chains
variable {S : Sys} {blocked : Nat → Prop} {P : Nat → Prop}

/-- The member in front of a member waiting at an acquire waits at an acquire too, for a lock that is strictly
    greater in the lexicographic order: it holds the wanted lock, so it is unfinished; it is blocked, so it is not at
    a release or a `trySend`; it holds something, so it is not at `send` / `recv`; and the lock it holds is
    `Lock.lt` the lock it wants (`Thread.ok_held_lt_wanted`). -/
theorem wait_chain_up (hok : ∀ t ∈ S.threads, t.ok = true) (bs : BlockedSpec S blocked)
    (wc : WaitClosed S blocked P) {i : Nat} {t : Thread} {c : Cls} {rest : List Op} (hpi : P i)
    (ht : S.threads[i]? = some t) (htodo : t.todo = .acq c :: rest ∨ t.todo = .acqUp c :: rest) :
    ∃ (j : Nat) (u : Thread) (c' : Cls) (r : List Op), P j ∧ S.threads[j]? = some u ∧
      (u.todo = .acq c' :: r ∨ u.todo = .acqUp c' :: r) ∧ Lock.lt ⟨c, t.want⟩ ⟨c', u.want⟩ := by
  obtain ⟨j, u, hpj, hu, hcu⟩ := wc.acq_waits_in i t c rest hpi ht htodo
  have huok := hok u (List.mem_of_getElem? hu)
  have hbj : blocked j := wc.all_blocked j hpj
  cases hutodo : u.todo with
  | nil =>
    rw [Thread.ok_nil huok hutodo] at hcu
    simp at hcu
  | cons op r =>
    cases op with
    | acq c' => exact ⟨j, u, c', r, hpj, hu, Or.inl hutodo, Thread.ok_held_lt_wanted huok (Or.inl hutodo) _ hcu⟩
    | acqUp c' => exact ⟨j, u, c', r, hpj, hu, Or.inr hutodo, Thread.ok_held_lt_wanted huok (Or.inr hutodo) _ hcu⟩
    | rel c' => exact (bs.rel_free j u c' r hu hutodo hbj).elim
    | trySend q => exact (bs.try_free j u q r hu hutodo hbj).elim
    | send q =>
      rw [(Thread.ok_send huok hutodo).1] at hcu
      simp at hcu
    | recv q =>
      rw [(Thread.ok_recv huok hutodo).1] at hcu
      simp at hcu

/-- Lock chains end: no member of a wait-closed set waits at an acquire.
    (Lexicographic induction on `(8 - rank, maxWant + 1 - want)`: by `wait_chain_up` the member in front waits for a
    strictly greater lock, i.e. either for a class of greater rank — ranks are below 8 — or for a greater instance
    of the same class — the instances wanted by the finitely many threads are bounded by `maxWant S.threads`.
    Equivalently: the member whose wanted lock is `Lock.lt`-maximal cannot exist.) -/
theorem no_blocked_acq (hok : ∀ t ∈ S.threads, t.ok = true) (bs : BlockedSpec S blocked)
    (wc : WaitClosed S blocked P) :
    ∀ (n m : Nat) (i : Nat) (t : Thread) (c : Cls) (rest : List Op), 8 - c.rank ≤ n →
      maxWant S.threads + 1 - t.want ≤ m → P i → S.threads[i]? = some t →
      (t.todo = .acq c :: rest ∨ t.todo = .acqUp c :: rest) → False := by
  intro n
  induction n with
  | zero =>
    intro m i t c rest hn _ _ _ _
    have := Cls.rank_lt_8 c
    omega
  | succ n ihn =>
    intro m
    induction m with
    | zero =>
      intro i t c rest _ hm _ ht _
      have := le_maxWant (List.mem_of_getElem? ht)
      omega
    | succ m ihm =>
      intro i t c rest hn hm hpi ht htodo
      obtain ⟨j, u, c', r, hpj, hu, hutodo, hlt⟩ := wait_chain_up hok bs wc hpi ht htodo
      have hr := Cls.rank_lt_8 c'
      have hw := le_maxWant (List.mem_of_getElem? hu)
      have hwt := le_maxWant (List.mem_of_getElem? ht)
      unfold Lock.lt at hlt
      simp only at hlt
      rcases hlt with hlt | ⟨heq, hlt⟩
      · exact ihn (maxWant S.threads + 1 - u.want) j u c' r (by omega) (Nat.le_refl _) hpj hu hutodo
      · exact ihm j u c' r (by omega) (by omega) hpj hu hutodo

/-- No cycle of lock or queue waits: every member of a wait-closed set is a channel consumer waiting on its own
    empty queue and holding nothing. -/
theorem waitClosed_idle (hok : ∀ t ∈ S.threads, t.ok = true) (hcap : ∀ q, 0 < S.cap q)
    (bs : BlockedSpec S blocked) (wc : WaitClosed S blocked P) :
    ∀ (i : Nat) (t : Thread), P i → S.threads[i]? = some t →
      ∃ q rest, t.todo = .recv q :: rest ∧ t.consumerOf = some q ∧ S.len q = 0 ∧ t.held = [] := by
  have hacq := fun (i : Nat) (t : Thread) (c : Cls) (rest : List Op) =>
    no_blocked_acq hok bs wc (8 - c.rank) (maxWant S.threads + 1 - t.want) i t c rest (Nat.le_refl _) (Nat.le_refl _)
  intro i t hpi ht
  have hbi := wc.all_blocked i hpi
  have htok := hok t (List.mem_of_getElem? ht)
  cases htodo : t.todo with
  | nil => exact (bs.idle_free i t ht htodo hbi).elim
  | cons op rest =>
    cases op with
    | acq c => exact (hacq i t c rest hpi ht (Or.inl htodo)).elim
    | acqUp c => exact (hacq i t c rest hpi ht (Or.inr htodo)).elim
    | rel c => exact (bs.rel_free i t c rest ht htodo hbi).elim
    | trySend q => exact (bs.try_free i t q rest ht htodo hbi).elim
    | recv q =>
      exact ⟨q, rest, rfl, (Thread.ok_recv htok htodo).2, bs.recv_empty i t q rest ht htodo hbi,
        (Thread.ok_recv htok htodo).1⟩
    | send q =>
      exfalso
      have hfull := bs.send_full i t q rest ht htodo hbi
      have hcapq := hcap q
      obtain ⟨j, u, hpj, hu, hcons, hune⟩ := wc.send_waits_in i t q rest hpi ht htodo
      have hbj := wc.all_blocked j hpj
      have huok := hok u (List.mem_of_getElem? hu)
      cases hutodo : u.todo with
      | nil => exact hune hutodo
      | cons op r =>
        cases op with
        | acq c => exact hacq j u c r hpj hu (Or.inl hutodo)
        | acqUp c => exact hacq j u c r hpj hu (Or.inr hutodo)
        | rel c => exact bs.rel_free j u c r hu hutodo hbj
        | trySend q' => exact bs.try_free j u q' r hu hutodo hbj
        | send q' =>
          have := (Thread.ok_send huok hutodo).2
          rw [hcons] at this
          cases this
        | recv q' =>
          have := (Thread.ok_recv huok hutodo).2
          rw [hcons] at this
          cases this
          have := bs.recv_empty j u q r hu hutodo hbj
          omega

/-- if every unfinished thread is blocked, the unfinished threads are a wait-closed set -/
theorem waitClosed_of_all_blocked (wf : WF S) (bs : BlockedSpec S blocked)
    (hall : ∀ (i : Nat) (t : Thread), S.threads[i]? = some t → t.todo ≠ [] → blocked i) :
    WaitClosed S blocked (fun i => ∃ t, S.threads[i]? = some t ∧ t.todo ≠ []) := by
  refine ⟨?_, ?_, ?_⟩
  · rintro i ⟨t, ht, hne⟩
    exact hall i t ht hne
  · rintro i t c rest ⟨_, _, _⟩ ht htodo
    have hne : t.todo ≠ [] := by rcases htodo with h | h <;> (rw [h]; simp)
    obtain ⟨j, u, _, hu, hcu⟩ := bs.acq_has_holder i t c rest ht htodo (hall i t ht hne)
    refine ⟨j, u, ⟨u, hu, ?_⟩, hu, hcu⟩
    intro hnil
    rw [Thread.ok_nil (wf.ok u (List.mem_of_getElem? hu)) hnil] at hcu
    simp at hcu
  · rintro i t q rest _ ht htodo
    obtain ⟨j, u, hu, hc, hne⟩ := wf.has_consumer i t q rest ht htodo
    exact ⟨j, u, ⟨u, hu, hne⟩, hu, hc, hne⟩

/-- The deadlock theorem in its contrapositive form: if every unfinished thread is blocked, every unfinished
    thread is a consumer waiting on its own empty queue. -/
theorem all_blocked_idle (wf : WF S) (bs : BlockedSpec S blocked)
    (hall : ∀ (i : Nat) (t : Thread), S.threads[i]? = some t → t.todo ≠ [] → blocked i) :
    ∀ (i : Nat) (t : Thread), S.threads[i]? = some t → t.todo ≠ [] →
      ∃ q rest, t.todo = .recv q :: rest ∧ t.consumerOf = some q ∧ S.len q = 0 ∧ t.held = [] := by
  intro i t ht hne
  exact waitClosed_idle wf.ok wf.cap_pos bs (waitClosed_of_all_blocked wf bs hall) i t ⟨t, ht, hne⟩ ht

end chains

/-! ## concrete systems for the non-vacuity examples of C18 -/

section examples
open Cls Op Chan

/-- A moment of the real crate: a client in the middle of `put_or_update (present key)` about to read TTL shard 0,
    the command worker in `UpdateWeight` holding the guard of `kwShard` instance 0 and wanting `wu`, the sweeper
    holding TTL shard 0 (write) and `wu`, about to take store shard 5. Client and worker both wait for the sweeper;
    the sweeper can move. -/
def exampleSys : Sys where
  threads := [
    { held := [], todo := [acq ttlShard, rel ttlShard, acq ttlShard, rel ttlShard, send cmd], want := 0,
      consumerOf := none },
    { held := [⟨kwShard, 0⟩],
      todo := [acq wu, rel wu, rel kwShard, acq ackStatus, rel ackStatus, acq ackWaker, rel ackWaker], want := 0,
      consumerOf := some cmd },
    { held := [⟨wu, 0⟩, ⟨ttlShard, 0⟩], todo := [acq storeShard, rel storeShard, rel wu, rel ttlShard], want := 5,
      consumerOf := none }]
  len := fun _ => 0
  cap := fun q => match q with | .cmd => 4 | .buf => 8

/-- The rest of the program "worker: Put / PutWithTTL" from the step of the sample iteration where the DashMap
    iterator, holding the read lock of one `kwShard` instance, takes the next one (operations 10.. of the program). -/
def sampleTodo : List Op :=
  [acqUp kwShard, rel kwShard, acq af, rel af, rel kwShard,
   acq kwShard, rel kwShard, acq wu, acq storeShard, rel storeShard, rel wu,
   acq wu, rel wu, acq kwShard, acq af, rel af, acqUp kwShard, rel kwShard, rel kwShard,
   acq kwShard, rel kwShard, acq wu, rel wu,
   acq storeShard, rel storeShard, acq ttlShard, rel ttlShard,
   acq ackStatus, rel ackStatus, acq ackWaker, rel ackWaker]

/-- the command worker inside the sample iteration: it holds `kwShard` instance 0 and is acquiring instance `want` -/
def sampleThread (want : Nat) : Thread :=
  { held := [⟨kwShard, 0⟩], todo := sampleTodo, want := want, consumerOf := some cmd }

/-- (b) The classical deadlock is REJECTED by the check: two threads take `wu` and `kwShard` in opposite orders,
    each holds one and wants the other. The one that holds `wu` and wants `kwShard` violates the rank order
    (`kwShard` is ranked below `wu`); the other one is the crate's `UpdateWeight` order and is fine. -/
def badSys : Sys where
  threads := [
    { held := [⟨wu, 0⟩], todo := [acq kwShard, rel kwShard, rel wu], want := 0, consumerOf := none },
    { held := [⟨kwShard, 0⟩], todo := [acq wu, rel wu, rel kwShard], want := 0, consumerOf := none }]
  len := fun _ => 0
  cap := fun _ => 1

/-- (b') The same-class deadlock is rejected too: two iterators over the `kwShard` shards in opposite directions,
    one holds instance 0 and wants 1, the other holds 1 and wants 0: the second is not going upward. -/
def badUpSys : Sys where
  threads := [
    { held := [⟨kwShard, 0⟩], todo := [acqUp kwShard, rel kwShard, rel kwShard], want := 1, consumerOf := none },
    { held := [⟨kwShard, 1⟩], todo := [acqUp kwShard, rel kwShard, rel kwShard], want := 0, consumerOf := none }]
  len := fun _ => 0
  cap := fun _ => 1

end examples

end Locks
end Cached
