/-
  Lemmas for C18 (no deadlock): the small-step semantics of the abstract lock / queue system of
  `CachedModel/Locks.lean`, what `Thread.ok` says about the operation a thread is about to perform,
  the specification `BlockedSpec` of "the implementation may keep this thread waiting", and the two
  wait-chain arguments (lock ranks, then channels).
-/
import CachedModel.Locks

namespace Cached
namespace Locks

/-! ## ranks -/

theorem Cls.rank_lt_8 (c : Cls) : c.rank < 8 := by cases c <;> decide

theorem Cls.rank_injective : ∀ a b : Cls, a.rank = b.rank → a = b := by
  intro a b; cases a <;> cases b <;> simp [Cls.rank]

/-! ## small-step semantics -/

/-- what a thread holds after performing `op` -/
def heldStep : List Cls → Op → List Cls
  | h, .acq c => c :: h
  | h, .rel c => h.erase c
  | h, _ => h

/-- the channel lengths after some thread performed `op` -/
def lenStep (S : Sys) : Op → Chan → Nat
  | .send q => fun q' => if q' = q then S.len q + 1 else S.len q'
  | .trySend q => fun q' => if q' = q then (if S.len q < S.cap q then S.len q + 1 else S.len q) else S.len q'
  | .recv q => fun q' => if q' = q then S.len q - 1 else S.len q'
  | _ => S.len

/-- Small-step semantics: thread `i` performs the first operation of its `todo`
    (`none` if thread `i` does not exist or has nothing to do). The caller only steps a thread that is
    not blocked, see `BlockedSpec`.
    `acq c`: `held := c :: held`; `rel c`: `held := held.erase c`; `send q`: `len q := len q + 1`;
    `trySend q`: `len q := if len q < cap q then len q + 1 else len q`; `recv q`: `len q := len q - 1`;
    in every case `todo := todo.tail`. -/
def stepThread (S : Sys) (i : Nat) : Option Sys :=
  match S.threads[i]? with
  | none => none
  | some t =>
    match t.todo with
    | [] => none
    | op :: rest =>
      some { threads := S.threads.set i { held := heldStep t.held op, todo := rest, consumerOf := t.consumerOf }
             len := lenStep S op
             cap := S.cap }

/-- a schedule: the list of the threads that move, in order -/
def run (S : Sys) : List Nat → Option Sys
  | [] => some S
  | i :: rest => (stepThread S i).bind (fun S1 => run S1 rest)

/-- Which threads the lock / channel implementation may keep waiting. `blocked` is a PARAMETER of the
    deadlock theorem, constrained only by these facts about blocking primitives. -/
structure BlockedSpec (S : Sys) (blocked : Nat → Prop) : Prop where
  /-- a thread kept waiting at `acq c`: some OTHER thread currently holds a lock of class `c` (this covers
      reader/writer locks with writer preference: a reader kept waiting by a queued writer still has a
      holder in front of both) -/
  acq_has_holder : ∀ i t c rest, S.threads[i]? = some t → t.todo = .acq c :: rest → blocked i →
    ∃ j u, j ≠ i ∧ S.threads[j]? = some u ∧ c ∈ u.held
  /-- a blocking send waits only on a full queue -/
  send_full : ∀ i t q rest, S.threads[i]? = some t → t.todo = .send q :: rest → blocked i → S.len q ≥ S.cap q
  /-- a blocking receive waits only on an empty queue -/
  recv_empty : ∀ i t q rest, S.threads[i]? = some t → t.todo = .recv q :: rest → blocked i → S.len q = 0
  rel_free : ∀ i t c rest, S.threads[i]? = some t → t.todo = .rel c :: rest → ¬ blocked i
  try_free : ∀ i t q rest, S.threads[i]? = some t → t.todo = .trySend q :: rest → ¬ blocked i
  idle_free : ∀ i t, S.threads[i]? = some t → t.todo = [] → ¬ blocked i

/-- Well-formed system. -/
structure WF (S : Sys) : Prop where
  /-- every thread keeps the static discipline for the rest of its program -/
  ok : ∀ t ∈ S.threads, t.ok = true
  cap_pos : ∀ q, 0 < S.cap q
  /-- whenever somebody is about to do a blocking send on `q`, the consumer thread of `q` is alive and inside
      its loop (if the consumer is gone the channel is disconnected and `send` returns an error) -/
  has_consumer : ∀ (i : Nat) (t : Thread) (q : Chan) (rest : List Op), S.threads[i]? = some t →
    t.todo = .send q :: rest →
    ∃ (j : Nat) (u : Thread), S.threads[j]? = some u ∧ u.consumerOf = some q ∧ u.todo ≠ []

/-- Every thread's remaining program releases everything it holds and will acquire (what `programsOk`
    checks with `heldAfter [] p = []` for whole programs). `Thread.ok` alone is NOT preserved by steps:
    its clause `todo = [] → held = []` is not inductive (`{held := [], todo := [acq wu]}` is `ok`, its
    successor `{held := [wu], todo := []}` is not); `Thread.ok` together with `Balanced` is. -/
def Balanced (S : Sys) : Prop := ∀ t ∈ S.threads, heldAfter t.held t.todo = []

/-! ## what `Thread.ok` says -/

/-- the consumer clause of `Thread.ok` -/
def consOk (c : Option Chan) (todo : List Op) : Bool :=
  match c with
  | some q => todo.all (fun op => match op with | .send _ => false | .recv q' => q' == q | _ => true)
  | none => todo.all (fun op => match op with | .recv _ => false | _ => true)

theorem Thread.ok_iff (t : Thread) :
    t.ok = true ↔ okFrom t.held t.todo = true ∧ consOk t.consumerOf t.todo = true ∧ (t.todo = [] → t.held = []) := by
  have h3 : (!t.todo.isEmpty || t.held.isEmpty) = true ↔ (t.todo = [] → t.held = []) := by
    cases t.todo <;> cases t.held <;> simp
  unfold Thread.ok
  rw [Bool.and_eq_true, Bool.and_eq_true, h3, and_assoc]
  exact Iff.rfl

theorem consOk_tail {c : Option Chan} {op : Op} {rest : List Op} (h : consOk c (op :: rest) = true) :
    consOk c rest = true := by
  unfold consOk at *
  cases c <;> simp only [List.all_cons, Bool.and_eq_true] at h <;> exact h.2

theorem okFrom_step {held : List Cls} {op : Op} {rest : List Op} (h : okFrom held (op :: rest) = true) :
    okFrom (heldStep held op) rest = true := by
  cases op <;> simp only [okFrom, Bool.and_eq_true] at h <;> first | exact h.2 | exact h

theorem heldAfter_step (held : List Cls) (op : Op) (rest : List Op) :
    heldAfter held (op :: rest) = heldAfter (heldStep held op) rest := by
  cases op <;> rfl

theorem Thread.ok_nil {t : Thread} (h : t.ok = true) (hn : t.todo = []) : t.held = [] :=
  ((Thread.ok_iff t).mp h).2.2 hn

/-- at an acquire, the class wanted is ranked above everything held -/
theorem Thread.ok_acq {t : Thread} {c : Cls} {rest : List Op} (h : t.ok = true) (ht : t.todo = .acq c :: rest) :
    ∀ x ∈ t.held, x.rank < c.rank := by
  have h1 := ((Thread.ok_iff t).mp h).1
  rw [ht] at h1
  simp only [okFrom, Bool.and_eq_true, List.all_eq_true, decide_eq_true_eq] at h1
  exact h1.1

/-- at a blocking send, nothing is held and the thread is not a consumer -/
theorem Thread.ok_send {t : Thread} {q : Chan} {rest : List Op} (h : t.ok = true) (ht : t.todo = .send q :: rest) :
    t.held = [] ∧ t.consumerOf = none := by
  obtain ⟨h1, h2, _⟩ := (Thread.ok_iff t).mp h
  rw [ht] at h1 h2
  simp only [okFrom, Bool.and_eq_true, List.isEmpty_iff] at h1
  refine ⟨h1.1, ?_⟩
  cases hc : t.consumerOf with
  | none => rfl
  | some q' => rw [hc] at h2; simp [consOk] at h2

/-- at a blocking receive, nothing is held and the thread is the consumer of that very channel -/
theorem Thread.ok_recv {t : Thread} {q : Chan} {rest : List Op} (h : t.ok = true) (ht : t.todo = .recv q :: rest) :
    t.held = [] ∧ t.consumerOf = some q := by
  obtain ⟨h1, h2, _⟩ := (Thread.ok_iff t).mp h
  rw [ht] at h1 h2
  simp only [okFrom, Bool.and_eq_true, List.isEmpty_iff] at h1
  refine ⟨h1.1, ?_⟩
  cases hc : t.consumerOf with
  | none => rw [hc] at h2; simp [consOk] at h2
  | some q' =>
    rw [hc] at h2
    simp only [consOk, List.all_cons, Bool.and_eq_true, beq_iff_eq] at h2
    rw [h2.1]

/-- one step of a thread keeps `Thread.ok` and balance -/
theorem Thread.ok_step {t : Thread} {op : Op} {rest : List Op} (h : t.ok = true)
    (hb : heldAfter t.held t.todo = []) (ht : t.todo = op :: rest) :
    ({ held := heldStep t.held op, todo := rest, consumerOf := t.consumerOf } : Thread).ok = true ∧
    heldAfter (heldStep t.held op) rest = [] := by
  obtain ⟨h1, h2, _⟩ := (Thread.ok_iff t).mp h
  rw [ht] at h1 h2 hb
  rw [heldAfter_step] at hb
  refine ⟨(Thread.ok_iff _).mpr ⟨okFrom_step h1, consOk_tail h2, ?_⟩, hb⟩
  intro hn
  simp only at hn
  subst hn
  simpa [heldAfter] using hb

/-! ## facts about `stepThread` -/

theorem stepThread_eq_some {S S' : Sys} {i : Nat} (h : stepThread S i = some S') :
    ∃ t op rest, S.threads[i]? = some t ∧ t.todo = op :: rest ∧
      S' = { threads := S.threads.set i { held := heldStep t.held op, todo := rest, consumerOf := t.consumerOf }
             len := lenStep S op
             cap := S.cap } := by
  unfold stepThread at h
  split at h
  · cases h
  · rename_i t ht
    split at h
    · cases h
    · rename_i op rest htodo
      simp only [Option.some.injEq] at h
      exact ⟨t, op, rest, ht, htodo, h.symm⟩

/-- a thread that has something to do can always be stepped -/
theorem stepThread_isSome {S : Sys} {i : Nat} {t : Thread} (ht : S.threads[i]? = some t) (hn : t.todo ≠ []) :
    ∃ S', stepThread S i = some S' := by
  cases htodo : t.todo with
  | nil => exact absurd htodo hn
  | cons op rest => simp [stepThread, ht, htodo]

/-- the stepped thread drops exactly its first operation; every other thread is untouched -/
theorem stepThread_todo {S S' : Sys} {i : Nat} (h : stepThread S i = some S') :
    (∃ t t', S.threads[i]? = some t ∧ S'.threads[i]? = some t' ∧ t.todo ≠ [] ∧ t'.todo = t.todo.tail ∧
      t'.consumerOf = t.consumerOf) ∧
    (∀ j, j ≠ i → S'.threads[j]? = S.threads[j]?) ∧ S'.cap = S.cap ∧ S'.threads.length = S.threads.length := by
  obtain ⟨t, op, rest, ht, htodo, rfl⟩ := stepThread_eq_some h
  have hi : i < S.threads.length := (List.getElem?_eq_some_iff.mp ht).1
  refine ⟨⟨t, { held := heldStep t.held op, todo := rest, consumerOf := t.consumerOf }, ht, ?_, ?_, ?_, rfl⟩,
    ?_, rfl, ?_⟩
  · simp [hi]
  · rw [htodo]; simp
  · rw [htodo]; rfl
  · intro j hj
    simp only [List.getElem?_set]
    rw [if_neg (Ne.symm hj)]
  · simp

/-- `Thread.ok` and balance survive every step (of any thread, blocked or not) -/
theorem stepThread_ok {S S' : Sys} {i : Nat} (hok : ∀ t ∈ S.threads, t.ok = true) (hbal : Balanced S)
    (h : stepThread S i = some S') : (∀ t ∈ S'.threads, t.ok = true) ∧ Balanced S' := by
  obtain ⟨t, op, rest, ht, htodo, rfl⟩ := stepThread_eq_some h
  have hmem := List.mem_of_getElem? ht
  obtain ⟨h1, h2⟩ := Thread.ok_step (hok t hmem) (hbal t hmem) htodo
  constructor
  · intro x hx
    simp only at hx
    rcases List.mem_or_eq_of_mem_set hx with hx | hx
    · exact hok x hx
    · rw [hx]; exact h1
  · intro x hx
    simp only at hx
    rcases List.mem_or_eq_of_mem_set hx with hx | hx
    · exact hbal x hx
    · rw [hx]; exact h2

/-- After a schedule, every thread has dropped exactly as many operations as it was scheduled. -/
theorem run_todo (i : Nat) : ∀ (sched : List Nat) (S S' : Sys) (t : Thread), run S sched = some S' →
    S.threads[i]? = some t →
    ∃ t', S'.threads[i]? = some t' ∧ t'.todo = t.todo.drop (sched.count i) ∧ sched.count i ≤ t.todo.length ∧
      t'.consumerOf = t.consumerOf := by
  intro sched
  induction sched with
  | nil =>
    intro S S' t h ht
    simp only [run, Option.some.injEq] at h
    subst h
    exact ⟨t, ht, by simp, by simp, rfl⟩
  | cons j rest ih =>
    intro S S' t h ht
    simp only [run] at h
    cases hs : stepThread S j with
    | none => simp [hs] at h
    | some S1 =>
      simp only [hs, Option.bind_some] at h
      obtain ⟨⟨u, u', hu, hu', hne, htail, hcons⟩, hother, _, _⟩ := stepThread_todo hs
      by_cases hji : j = i
      · subst hji
        rw [hu] at ht
        cases ht
        obtain ⟨t', ht', hdrop, hle, hc⟩ := ih S1 S' u' h hu'
        refine ⟨t', ht', ?_, ?_, hc.trans hcons⟩
        · rw [hdrop, htail, List.count_cons_self]
          cases hl : t.todo with
          | nil => exact absurd hl hne
          | cons op r => simp
        · rw [htail] at hle
          rw [List.count_cons_self]
          cases hl : t.todo with
          | nil => exact absurd hl hne
          | cons op r => rw [hl] at hle; simp at hle ⊢; omega
      · have ht1 : S1.threads[i]? = some t := by rw [hother i (Ne.symm hji)]; exact ht
        obtain ⟨t', ht', hdrop, hle, hc⟩ := ih S1 S' t h ht1
        have hcount : (j :: rest).count i = rest.count i := by
          rw [List.count_cons]; simp [hji]
        exact ⟨t', ht', by rw [hcount]; exact hdrop, by rw [hcount]; exact hle, hc⟩

/-! ## the wait-chain arguments -/

/-- A set `P` of threads that wait on one another: every member is kept waiting by the implementation; a member
    that waits for a lock of class `c` waits for a MEMBER that holds one; a member that waits for room in queue
    `q` waits for a MEMBER that is the (unfinished) consumer of `q`. Every cycle of lock or queue waits, and
    every set of threads that are stuck for ever, is such a set (members waiting at `recv` need no justification
    here: the theorem shows they are the only possible members). -/
structure WaitClosed (S : Sys) (blocked : Nat → Prop) (P : Nat → Prop) : Prop where
  all_blocked : ∀ i, P i → blocked i
  acq_waits_in : ∀ (i : Nat) (t : Thread) (c : Cls) (rest : List Op), P i → S.threads[i]? = some t →
    t.todo = .acq c :: rest → ∃ (j : Nat) (u : Thread), P j ∧ S.threads[j]? = some u ∧ c ∈ u.held
  send_waits_in : ∀ (i : Nat) (t : Thread) (q : Chan) (rest : List Op), P i → S.threads[i]? = some t →
    t.todo = .send q :: rest →
    ∃ (j : Nat) (u : Thread), P j ∧ S.threads[j]? = some u ∧ u.consumerOf = some q ∧ u.todo ≠ []

section chains
variable {S : Sys} {blocked : Nat → Prop} {P : Nat → Prop}

/-- Lock chains end: no member of a wait-closed set waits at an acquire.
    (Induction on `8 - rank`: the member in front of a thread waiting for class `c` holds something, so it is
    unfinished; it is blocked, so by `BlockedSpec` and the discipline it can only be waiting for a class ranked
    strictly above `c`.) -/
theorem no_blocked_acq (hok : ∀ t ∈ S.threads, t.ok = true) (bs : BlockedSpec S blocked)
    (wc : WaitClosed S blocked P) :
    ∀ (n : Nat) (i : Nat) (t : Thread) (c : Cls) (rest : List Op), 8 - c.rank ≤ n → P i →
      S.threads[i]? = some t → t.todo = .acq c :: rest → False := by
  intro n
  induction n with
  | zero =>
    intro i t c rest hn _ _ _
    have := Cls.rank_lt_8 c
    omega
  | succ n ih =>
    intro i t c rest hn hpi ht htodo
    obtain ⟨j, u, hpj, hu, hcu⟩ := wc.acq_waits_in i t c rest hpi ht htodo
    have huok := hok u (List.mem_of_getElem? hu)
    have hbj : blocked j := wc.all_blocked j hpj
    cases hutodo : u.todo with
    | nil =>
      rw [Thread.ok_nil huok hutodo] at hcu
      simp at hcu
    | cons op r =>
      cases op with
      | acq c' =>
        have hlt := Thread.ok_acq huok hutodo c hcu
        have := Cls.rank_lt_8 c'
        exact ih j u c' r (by omega) hpj hu hutodo
      | rel c' => exact bs.rel_free j u c' r hu hutodo hbj
      | trySend q => exact bs.try_free j u q r hu hutodo hbj
      | send q =>
        rw [(Thread.ok_send huok hutodo).1] at hcu
        simp at hcu
      | recv q =>
        rw [(Thread.ok_recv huok hutodo).1] at hcu
        simp at hcu

/-- No cycle of lock or queue waits: every member of a wait-closed set is a channel consumer waiting on its own
    empty queue and holding nothing. -/
theorem waitClosed_idle (hok : ∀ t ∈ S.threads, t.ok = true) (hcap : ∀ q, 0 < S.cap q)
    (bs : BlockedSpec S blocked) (wc : WaitClosed S blocked P) :
    ∀ (i : Nat) (t : Thread), P i → S.threads[i]? = some t →
      ∃ q rest, t.todo = .recv q :: rest ∧ t.consumerOf = some q ∧ S.len q = 0 ∧ t.held = [] := by
  have hacq := fun i t c rest => no_blocked_acq hok bs wc (8 - c.rank) i t c rest (Nat.le_refl _)
  intro i t hpi ht
  have hbi := wc.all_blocked i hpi
  have htok := hok t (List.mem_of_getElem? ht)
  cases htodo : t.todo with
  | nil => exact (bs.idle_free i t ht htodo hbi).elim
  | cons op rest =>
    cases op with
    | acq c => exact (hacq i t c rest hpi ht htodo).elim
    | rel c => exact (bs.rel_free i t c rest ht htodo hbi).elim
    | trySend q => exact (bs.try_free i t q rest ht htodo hbi).elim
    | recv q =>
      exact ⟨q, rest, rfl, (Thread.ok_recv htok htodo).2, bs.recv_empty i t q rest ht htodo hbi,
        (Thread.ok_recv htok htodo).1⟩
    | send q =>
      exfalso
      have hfull := bs.send_full i t q rest ht htodo hbi
      have hcapq := hcap q
      obtain ⟨j, u, hpj, hu, hcons, hune⟩ := wc.send_waits_in i t q rest hpi ht htodo
      have hbj := wc.all_blocked j hpj
      have huok := hok u (List.mem_of_getElem? hu)
      cases hutodo : u.todo with
      | nil => exact hune hutodo
      | cons op r =>
        cases op with
        | acq c => exact hacq j u c r hpj hu hutodo
        | rel c => exact bs.rel_free j u c r hu hutodo hbj
        | trySend q' => exact bs.try_free j u q' r hu hutodo hbj
        | send q' =>
          have := (Thread.ok_send huok hutodo).2
          rw [hcons] at this
          cases this
        | recv q' =>
          have := (Thread.ok_recv huok hutodo).2
          rw [hcons] at this
          cases this
          have := bs.recv_empty j u q r hu hutodo hbj
          omega

/-- if every unfinished thread is blocked, the unfinished threads are a wait-closed set -/
theorem waitClosed_of_all_blocked (wf : WF S) (bs : BlockedSpec S blocked)
    (hall : ∀ (i : Nat) (t : Thread), S.threads[i]? = some t → t.todo ≠ [] → blocked i) :
    WaitClosed S blocked (fun i => ∃ t, S.threads[i]? = some t ∧ t.todo ≠ []) := by
  refine ⟨?_, ?_, ?_⟩
  · rintro i ⟨t, ht, hne⟩
    exact hall i t ht hne
  · rintro i t c rest ⟨_, _, _⟩ ht htodo
    obtain ⟨j, u, _, hu, hcu⟩ := bs.acq_has_holder i t c rest ht htodo (hall i t ht (by rw [htodo]; simp))
    refine ⟨j, u, ⟨u, hu, ?_⟩, hu, hcu⟩
    intro hnil
    rw [Thread.ok_nil (wf.ok u (List.mem_of_getElem? hu)) hnil] at hcu
    simp at hcu
  · rintro i t q rest _ ht htodo
    obtain ⟨j, u, hu, hc, hne⟩ := wf.has_consumer i t q rest ht htodo
    exact ⟨j, u, ⟨u, hu, hne⟩, hu, hc, hne⟩

/-- The deadlock theorem in its contrapositive form: if every unfinished thread is blocked, every unfinished
    thread is a consumer waiting on its own empty queue. -/
theorem all_blocked_idle (wf : WF S) (bs : BlockedSpec S blocked)
    (hall : ∀ (i : Nat) (t : Thread), S.threads[i]? = some t → t.todo ≠ [] → blocked i) :
    ∀ (i : Nat) (t : Thread), S.threads[i]? = some t → t.todo ≠ [] →
      ∃ q rest, t.todo = .recv q :: rest ∧ t.consumerOf = some q ∧ S.len q = 0 ∧ t.held = [] := by
  intro i t ht hne
  exact waitClosed_idle wf.ok wf.cap_pos bs (waitClosed_of_all_blocked wf bs hall) i t ⟨t, ht, hne⟩ ht

end chains

/-! ## concrete systems for the non-vacuity examples of C18 -/

section examples
open Cls Op Chan

/-- A moment of the real crate: a client in the middle of `put_or_update (present key)` about to read the TTL
    shard, the command worker in `UpdateWeight` holding a `kwShard` guard and wanting `wu`, the sweeper holding a
    TTL shard (write) and `wu`. Client and worker both wait for the sweeper; the sweeper can move. -/
def exampleSys : Sys where
  threads := [
    { held := [], todo := [acq ttlShard, rel ttlShard, acq ttlShard, rel ttlShard, send cmd], consumerOf := none },
    { held := [kwShard], todo := [acq wu, rel wu, rel kwShard, acq ackStatus, rel ackStatus, acq ackWaker, rel ackWaker],
      consumerOf := some cmd },
    { held := [wu, ttlShard], todo := [acq storeShard, rel storeShard, rel wu, rel ttlShard], consumerOf := none }]
  len := fun _ => 0
  cap := fun q => match q with | .cmd => 4 | .buf => 8

/-- (b) The classical deadlock is REJECTED by the check: two threads take `wu` and `kwShard` in opposite orders,
    each holds one and wants the other. The one that holds `wu` and wants `kwShard` violates the rank order
    (`kwShard` is ranked below `wu`); the other one is the crate's `UpdateWeight` order and is fine. -/
def badSys : Sys where
  threads := [
    { held := [wu], todo := [acq kwShard, rel kwShard, rel wu], consumerOf := none },
    { held := [kwShard], todo := [acq wu, rel wu, rel kwShard], consumerOf := none }]
  len := fun _ => 0
  cap := fun _ => 1

end examples

end Locks
end Cached
