/-
  The TTL sweeper's evict hook `applyEvictId` (CachedModel/State.lean; cached.rs `ttl_ticker`,
  store/mod.rs `delete_if_key_id_matches`) against the worker's hook `applyEvict`:

  * the case split (`applyEvictId_cases`): it is `applyEvict` when the stored entry of the key still carries the
    evicted id, and otherwise only bumps `weightRemoved`;
  * the facts that hold in both cases (frame lemmas): everything but `store` and `stats` is untouched, the store only
    shrinks, and only at the evicted key; of the statistics only `keysDeleted` / `weightRemoved` move.
-/
import CachedModel.State
import CachedProofs.Lemmas.AMap

namespace Cached

/-- the state `applyEvictId` returns when the stored entry does not carry the evicted id -/
def evictStatsOnly (s : State) (e : Evicted) : State :=
  { s with stats := { s.stats with weightRemoved := (s.stats.weightRemoved + e.2.2.toNat) % u64Mod } }

/-- the test `applyEvictId` makes -/
def evictIdMatches (s : State) (e : Evicted) : Prop := (s.store.get? e.2.1).map (·.id) = some e.1

instance (s : State) (e : Evicted) : Decidable (evictIdMatches s e) := by
  unfold evictIdMatches; exact inferInstance

theorem evictIdMatches_iff {s : State} {e : Evicted} :
    evictIdMatches s e ↔ ∃ en, s.store.get? e.2.1 = some en ∧ en.id = e.1 := by
  unfold evictIdMatches
  cases s.store.get? e.2.1 <;> simp

theorem applyEvictId_eq (s : State) (e : Evicted) :
    applyEvictId s e = if evictIdMatches s e then applyEvict s e else evictStatsOnly s e := by
  unfold applyEvictId evictIdMatches evictStatsOnly
  by_cases h : Option.map (fun x => x.id) (AMap.get? s.store e.2.1) = some e.1
  · simp [h]
  · simp [h]

theorem applyEvictId_of_matches {s : State} {e : Evicted} (h : evictIdMatches s e) :
    applyEvictId s e = applyEvict s e := by
  rw [applyEvictId_eq, if_pos h]

theorem applyEvictId_of_not_matches {s : State} {e : Evicted} (h : ¬ evictIdMatches s e) :
    applyEvictId s e = evictStatsOnly s e := by
  rw [applyEvictId_eq, if_neg h]

/-- When the stored entry of the key carries the evicted id, the sweeper's hook is the worker's hook. -/
theorem applyEvictId_of_get {s : State} {e : Evicted} {en : Entry} (h : s.store.get? e.2.1 = some en)
    (hid : en.id = e.1) : applyEvictId s e = applyEvict s e :=
  applyEvictId_of_matches (evictIdMatches_iff.mpr ⟨en, h, hid⟩)

/-- When the key is not stored, or is stored under the evicted id, the sweeper's hook is the worker's hook
    (an absent key is left alone by both). -/
theorem applyEvictId_eq_applyEvict_of {s : State} {e : Evicted}
    (h : ∀ en, s.store.get? e.2.1 = some en → en.id = e.1) : applyEvictId s e = applyEvict s e := by
  cases hg : s.store.get? e.2.1 with
  | some en => exact applyEvictId_of_get hg (h en hg)
  | none =>
    have hm : ¬ evictIdMatches s e := by
      intro hm
      obtain ⟨en, hen, _⟩ := evictIdMatches_iff.mp hm
      rw [hg] at hen; cases hen
    rw [applyEvictId_of_not_matches hm]
    obtain ⟨id, key, w⟩ := e
    have hc : s.store.contains key = false := by simp only [AMap.contains]; simp at hg; simp [hg]
    unfold applyEvict evictStatsOnly
    simp [hc]

/-- The case split. -/
theorem applyEvictId_cases (s : State) (e : Evicted) :
    (evictIdMatches s e ∧ applyEvictId s e = applyEvict s e) ∨
    (¬ evictIdMatches s e ∧ applyEvictId s e =
      { s with stats := { s.stats with weightRemoved := (s.stats.weightRemoved + e.2.2.toNat) % u64Mod } }) := by
  by_cases h : evictIdMatches s e
  · exact Or.inl ⟨h, applyEvictId_of_matches h⟩
  · exact Or.inr ⟨h, applyEvictId_of_not_matches h⟩

/-! ### what `applyEvict` does, field by field -/

theorem applyEvict_store_of_get {s : State} {e : Evicted} {en : Entry} (h : s.store.get? e.2.1 = some en) :
    (applyEvict s e).store = s.store.del e.2.1 := by
  obtain ⟨id, key, w⟩ := e
  have hc : s.store.contains key = true := by simp only [AMap.contains]; simp at h; simp [h]
  unfold applyEvict
  simp [hc]

theorem applyEvict_rest (s : State) (e : Evicted) :
    (applyEvict s e).cfg = s.cfg ∧ (applyEvict s e).now = s.now ∧ (applyEvict s e).adm = s.adm ∧
    (applyEvict s e).ttl = s.ttl ∧ (applyEvict s e).queue = s.queue ∧ (applyEvict s e).acks = s.acks ∧
    (applyEvict s e).nextId = s.nextId ∧ (applyEvict s e).lfu = s.lfu ∧ (applyEvict s e).pool = s.pool ∧
    (applyEvict s e).bufq = s.bufq ∧ (applyEvict s e).shutting = s.shutting ∧ (applyEvict s e).worker = s.worker ∧
    (applyEvict s e).consumerAlive = s.consumerAlive ∧ (applyEvict s e).consumerKeep = s.consumerKeep ∧
    (applyEvict s e).sweeperAlive = s.sweeperAlive ∧ (applyEvict s e).sweeperKeep = s.sweeperKeep ∧
    (applyEvict s e).pend = s.pend := by
  obtain ⟨id, key, w⟩ := e
  unfold applyEvict
  dsimp only
  split <;> exact ⟨rfl, rfl, rfl, rfl, rfl, rfl, rfl, rfl, rfl, rfl, rfl, rfl, rfl, rfl, rfl, rfl, rfl⟩

/-! ### frame lemmas: facts about `applyEvictId` that hold in both cases -/

/-- Everything but `store` and `stats` is untouched. -/
theorem applyEvictId_rest (s : State) (e : Evicted) :
    (applyEvictId s e).cfg = s.cfg ∧ (applyEvictId s e).now = s.now ∧ (applyEvictId s e).adm = s.adm ∧
    (applyEvictId s e).ttl = s.ttl ∧ (applyEvictId s e).queue = s.queue ∧ (applyEvictId s e).acks = s.acks ∧
    (applyEvictId s e).nextId = s.nextId ∧ (applyEvictId s e).lfu = s.lfu ∧ (applyEvictId s e).pool = s.pool ∧
    (applyEvictId s e).bufq = s.bufq ∧ (applyEvictId s e).shutting = s.shutting ∧
    (applyEvictId s e).worker = s.worker ∧
    (applyEvictId s e).consumerAlive = s.consumerAlive ∧ (applyEvictId s e).consumerKeep = s.consumerKeep ∧
    (applyEvictId s e).sweeperAlive = s.sweeperAlive ∧ (applyEvictId s e).sweeperKeep = s.sweeperKeep ∧
    (applyEvictId s e).pend = s.pend := by
  rw [applyEvictId_eq]
  split
  · exact applyEvict_rest s e
  · exact ⟨rfl, rfl, rfl, rfl, rfl, rfl, rfl, rfl, rfl, rfl, rfl, rfl, rfl, rfl, rfl, rfl, rfl⟩

@[simp] theorem applyEvictId_cfg (s : State) (e : Evicted) : (applyEvictId s e).cfg = s.cfg :=
  (applyEvictId_rest s e).1
@[simp] theorem applyEvictId_now (s : State) (e : Evicted) : (applyEvictId s e).now = s.now :=
  (applyEvictId_rest s e).2.1
@[simp] theorem applyEvictId_adm (s : State) (e : Evicted) : (applyEvictId s e).adm = s.adm :=
  (applyEvictId_rest s e).2.2.1
@[simp] theorem applyEvictId_ttl (s : State) (e : Evicted) : (applyEvictId s e).ttl = s.ttl :=
  (applyEvictId_rest s e).2.2.2.1
@[simp] theorem applyEvictId_queue (s : State) (e : Evicted) : (applyEvictId s e).queue = s.queue :=
  (applyEvictId_rest s e).2.2.2.2.1
@[simp] theorem applyEvictId_acks (s : State) (e : Evicted) : (applyEvictId s e).acks = s.acks :=
  (applyEvictId_rest s e).2.2.2.2.2.1
@[simp] theorem applyEvictId_nextId (s : State) (e : Evicted) : (applyEvictId s e).nextId = s.nextId :=
  (applyEvictId_rest s e).2.2.2.2.2.2.1
@[simp] theorem applyEvictId_lfu (s : State) (e : Evicted) : (applyEvictId s e).lfu = s.lfu :=
  (applyEvictId_rest s e).2.2.2.2.2.2.2.1
@[simp] theorem applyEvictId_pool (s : State) (e : Evicted) : (applyEvictId s e).pool = s.pool :=
  (applyEvictId_rest s e).2.2.2.2.2.2.2.2.1
@[simp] theorem applyEvictId_bufq (s : State) (e : Evicted) : (applyEvictId s e).bufq = s.bufq :=
  (applyEvictId_rest s e).2.2.2.2.2.2.2.2.2.1
@[simp] theorem applyEvictId_shutting (s : State) (e : Evicted) : (applyEvictId s e).shutting = s.shutting :=
  (applyEvictId_rest s e).2.2.2.2.2.2.2.2.2.2.1
@[simp] theorem applyEvictId_worker (s : State) (e : Evicted) : (applyEvictId s e).worker = s.worker :=
  (applyEvictId_rest s e).2.2.2.2.2.2.2.2.2.2.2.1
@[simp] theorem applyEvictId_consumerAlive (s : State) (e : Evicted) :
    (applyEvictId s e).consumerAlive = s.consumerAlive :=
  (applyEvictId_rest s e).2.2.2.2.2.2.2.2.2.2.2.2.1
@[simp] theorem applyEvictId_consumerKeep (s : State) (e : Evicted) :
    (applyEvictId s e).consumerKeep = s.consumerKeep :=
  (applyEvictId_rest s e).2.2.2.2.2.2.2.2.2.2.2.2.2.1
@[simp] theorem applyEvictId_sweeperAlive (s : State) (e : Evicted) :
    (applyEvictId s e).sweeperAlive = s.sweeperAlive :=
  (applyEvictId_rest s e).2.2.2.2.2.2.2.2.2.2.2.2.2.2.1
@[simp] theorem applyEvictId_sweeperKeep (s : State) (e : Evicted) :
    (applyEvictId s e).sweeperKeep = s.sweeperKeep :=
  (applyEvictId_rest s e).2.2.2.2.2.2.2.2.2.2.2.2.2.2.2.1
@[simp] theorem applyEvictId_pend (s : State) (e : Evicted) : (applyEvictId s e).pend = s.pend :=
  (applyEvictId_rest s e).2.2.2.2.2.2.2.2.2.2.2.2.2.2.2.2

/-- only `store` and `stats` change -/
theorem applyEvictId_frame_eq (s : State) (e : Evicted) :
    applyEvictId s e = { s with store := (applyEvictId s e).store, stats := (applyEvictId s e).stats } := by
  rw [applyEvictId_eq]
  split
  · obtain ⟨id, key, w⟩ := e
    unfold applyEvict
    simp only []
    split <;> rfl
  · rfl

/-- The frame in the shape of `applyEvict_frame` (Lemmas/Inv.lean). -/
theorem applyEvictId_frame (s : State) (e : Evicted) :
    (applyEvictId s e).adm = s.adm ∧ (applyEvictId s e).nextId = s.nextId ∧ (applyEvictId s e).cfg = s.cfg ∧
    (applyEvictId s e).worker = s.worker ∧ (applyEvictId s e).queue = s.queue ∧ (applyEvictId s e).pend = s.pend ∧
    (applyEvictId s e).now = s.now ∧ (applyEvictId s e).ttl = s.ttl ∧ (applyEvictId s e).acks = s.acks := by
  obtain ⟨a1, a2, a3, a4, a5, a6, a7, _, _, _, _, a12, _, _, _, _, a17⟩ := applyEvictId_rest s e
  exact ⟨a3, a7, a1, a12, a5, a17, a2, a4, a6⟩

/-- The store: the key goes exactly when its entry carries the evicted id. -/
theorem applyEvictId_store (s : State) (e : Evicted) :
    (applyEvictId s e).store = if evictIdMatches s e then s.store.del e.2.1 else s.store := by
  rw [applyEvictId_eq]
  split
  · rename_i h
    obtain ⟨en, hen, _⟩ := evictIdMatches_iff.mp h
    exact applyEvict_store_of_get hen
  · rfl

theorem applyEvictId_store_cases (s : State) (e : Evicted) :
    (evictIdMatches s e ∧ (applyEvictId s e).store = s.store.del e.2.1) ∨
    (¬ evictIdMatches s e ∧ (applyEvictId s e).store = s.store) := by
  rw [applyEvictId_store]
  by_cases h : evictIdMatches s e
  · exact Or.inl ⟨h, by rw [if_pos h]⟩
  · exact Or.inr ⟨h, by rw [if_neg h]⟩

/-- Entries of other keys are untouched. -/
theorem applyEvictId_get?_other (s : State) (e : Evicted) {k : Nat} (hk : k ≠ e.2.1) :
    (applyEvictId s e).store.get? k = s.store.get? k := by
  rw [applyEvictId_store]
  split
  · exact AMap.get?_del_other _ (fun h => hk h.symm)
  · rfl

/-- The store only shrinks. -/
theorem applyEvictId_get?_sub (s : State) (e : Evicted) {k : Nat} {en : Entry}
    (h : (applyEvictId s e).store.get? k = some en) : s.store.get? k = some en := by
  rw [applyEvictId_store] at h
  split at h
  · rw [AMap.get?_del] at h
    split at h
    · cases h
    · exact h
  · exact h

theorem applyEvictId_noDup (s : State) (e : Evicted) (h : AMap.NoDup s.store) :
    AMap.NoDup (applyEvictId s e).store := by
  rw [applyEvictId_store]
  split
  · exact AMap.noDup_del h _
  · exact h

/-- An eviction on behalf of key id `e.1` never removes or changes an entry carrying another id. -/
theorem applyEvictId_get?_of_id_ne (s : State) (e : Evicted) {k : Nat} {en : Entry}
    (h : s.store.get? k = some en) (hid : en.id ≠ e.1) : (applyEvictId s e).store.get? k = some en := by
  by_cases hk : k = e.2.1
  · subst hk
    have hm : ¬ evictIdMatches s e := by
      intro hm
      obtain ⟨en', hen', hid'⟩ := evictIdMatches_iff.mp hm
      rw [h] at hen'
      cases hen'
      exact hid hid'
    rw [applyEvictId_store, if_neg hm]
    exact h
  · rw [applyEvictId_get?_other s e hk]
    exact h

/-- If the entry of the key carries the evicted id, the key is gone afterwards. -/
theorem applyEvictId_get?_of_matches (s : State) (e : Evicted) {en : Entry}
    (h : s.store.get? e.2.1 = some en) (hid : en.id = e.1) : (applyEvictId s e).store.get? e.2.1 = none := by
  rw [applyEvictId_store, if_pos (evictIdMatches_iff.mpr ⟨en, h, hid⟩)]
  exact AMap.get?_del_same _ _

/-- Of the statistics only `keysDeleted` and `weightRemoved` can move. -/
theorem applyEvictId_stats (s : State) (e : Evicted) :
    (applyEvictId s e).stats =
      { s.stats with
        keysDeleted := if evictIdMatches s e then s.stats.keysDeleted + 1 else s.stats.keysDeleted,
        weightRemoved := (s.stats.weightRemoved + e.2.2.toNat) % u64Mod } := by
  rw [applyEvictId_eq]
  split
  · rename_i h
    obtain ⟨en, hen, _⟩ := evictIdMatches_iff.mp h
    obtain ⟨id, key, w⟩ := e
    have hc : s.store.contains key = true := by simp only [AMap.contains]; simp at hen; simp [hen]
    unfold applyEvict
    simp [hc]
  · rfl

/-- `applyEvictId` in closed form. -/
theorem applyEvictId_closed (s : State) (id key : Nat) (w : Int) :
    applyEvictId s (id, key, w) =
      { s with store := if (s.store.get? key).map (·.id) = some id then s.store.del key else s.store,
               stats := { s.stats with
                 keysDeleted := s.stats.keysDeleted + (if (s.store.get? key).map (·.id) = some id then 1 else 0),
                 weightRemoved := (s.stats.weightRemoved + w.toNat) % u64Mod } } := by
  have h1 := applyEvictId_frame_eq s (id, key, w)
  rw [h1, applyEvictId_store, applyEvictId_stats]
  by_cases hm : evictIdMatches s (id, key, w)
  · have hm' : (s.store.get? key).map (·.id) = some id := hm
    simp only [hm, hm', if_true]
  · have hm' : ¬ (s.store.get? key).map (·.id) = some id := hm
    simp only [hm, hm', if_false, Nat.add_zero]

/-! ### the sweeper's check against the store (`sweepEvict`, fix 36c87dc) -/

/-- `unexpiredWithId`, spelled out. -/
theorem unexpiredWithId_eq_true {s : State} {k id : Nat} :
    unexpiredWithId s k id = true ↔
      ∃ e, s.store.get? k = some e ∧ e.id = id ∧ (e.expiry = none ∨ ∃ t, e.expiry = some t ∧ s.now ≤ t) := by
  unfold unexpiredWithId
  cases hg : s.store.get? k with
  | none => simp
  | some e =>
    cases hx : e.expiry with
    | none => simp [hx]
    | some t => simp [hx, Nat.not_lt]

/-- The value stored under the key carries the id and its own deadline has passed: the check fails. -/
theorem unexpiredWithId_of_expired {s : State} {k id : Nat} {e : Entry} {x : Nat} (h : s.store.get? k = some e)
    (hx : e.expiry = some x) (hnow : s.now > x) : unexpiredWithId s k id = false := by
  unfold unexpiredWithId
  rw [h]
  simp [hx, hnow]

/-- Nothing stored under the key: the check fails. -/
theorem unexpiredWithId_of_absent {s : State} {k id : Nat} (h : s.store.get? k = none) :
    unexpiredWithId s k id = false := by
  unfold unexpiredWithId
  rw [h]

/-- Another id stored under the key: the check fails. -/
theorem unexpiredWithId_of_id_ne {s : State} {k id : Nat} {e : Entry} (h : s.store.get? k = some e) (hid : e.id ≠ id) :
    unexpiredWithId s k id = false := by
  unfold unexpiredWithId
  rw [h]
  simp [hid]

/-- The check reads `store` and `now` only. -/
theorem unexpiredWithId_congr {s s' : State} (h1 : s'.store = s.store) (h2 : s'.now = s.now) (k id : Nat) :
    unexpiredWithId s' k id = unexpiredWithId s k id := by
  unfold unexpiredWithId
  rw [h1, h2]

/-- The id is not charged: nothing happens. -/
theorem sweepEvict_none {s : State} {id : Nat} (hg : s.adm.kw.get? id = none) : sweepEvict s id = (s, none) := by
  unfold sweepEvict
  rw [hg]

/-- The value stored under the charged key has not itself expired: the sweeper leaves it (nothing happens). -/
theorem sweepEvict_skip {s : State} {id : Nat} {wk : WKey} (hg : s.adm.kw.get? id = some wk)
    (hu : unexpiredWithId s wk.key id = true) : sweepEvict s id = (s, none) := by
  unfold sweepEvict
  rw [hg]
  simp [hu]

/-- Otherwise the id is un-charged and the evict hook runs (what `sweepEvict` did for every charged id before the
    check was added). -/
theorem sweepEvict_take {s : State} {id : Nat} {wk : WKey} (hg : s.adm.kw.get? id = some wk)
    (hu : unexpiredWithId s wk.key id = false) :
    sweepEvict s id =
      (applyEvictId { s with adm := { s.adm with kw := s.adm.kw.del id, used := s.adm.used - wk.weight } }
        (id, wk.key, wk.weight), some (id, wk.key, wk.weight)) := by
  unfold sweepEvict
  rw [hg]
  simp [hu, Adm.delete, hg]

/-- The case split: nothing happens (id not charged, or the stored value has not expired), or the check failed and
    the id is evicted as before. -/
theorem sweepEvict_cases (s : State) (id : Nat) :
    sweepEvict s id = (s, none) ∨
    ∃ wk, s.adm.kw.get? id = some wk ∧ unexpiredWithId s wk.key id = false ∧
      sweepEvict s id =
        (applyEvictId { s with adm := { s.adm with kw := s.adm.kw.del id, used := s.adm.used - wk.weight } }
          (id, wk.key, wk.weight), some (id, wk.key, wk.weight)) := by
  cases hg : s.adm.kw.get? id with
  | none => exact Or.inl (sweepEvict_none hg)
  | some wk =>
    cases hu : unexpiredWithId s wk.key id with
    | true => exact Or.inl (sweepEvict_skip hg hu)
    | false => exact Or.inr ⟨wk, rfl, hu, sweepEvict_take hg hu⟩

/-- The case split with what the "nothing happens" case means for a charged id. -/
theorem sweepEvict_cases' (s : State) (id : Nat) :
    (sweepEvict s id = (s, none) ∧ ∀ wk, s.adm.kw.get? id = some wk → unexpiredWithId s wk.key id = true) ∨
    ∃ wk, s.adm.kw.get? id = some wk ∧ unexpiredWithId s wk.key id = false ∧
      sweepEvict s id =
        (applyEvictId { s with adm := { s.adm with kw := s.adm.kw.del id, used := s.adm.used - wk.weight } }
          (id, wk.key, wk.weight), some (id, wk.key, wk.weight)) := by
  cases hg : s.adm.kw.get? id with
  | none => exact Or.inl ⟨sweepEvict_none hg, fun wk h => by cases h⟩
  | some wk =>
    cases hu : unexpiredWithId s wk.key id with
    | true => exact Or.inl ⟨sweepEvict_skip hg hu, fun wk' h => by cases h; exact hu⟩
    | false => exact Or.inr ⟨wk, rfl, hu, sweepEvict_take hg hu⟩

/-- The evict hook only removes entries: a value that is unexpired afterwards was so before. -/
theorem unexpiredWithId_applyEvictId_sub (s : State) (e : Evicted) {k i : Nat}
    (h : unexpiredWithId (applyEvictId s e) k i = true) : unexpiredWithId s k i = true := by
  obtain ⟨en, hen, hid, hx⟩ := unexpiredWithId_eq_true.mp h
  rw [applyEvictId_now] at hx
  exact unexpiredWithId_eq_true.mpr ⟨en, applyEvictId_get?_sub s e hen, hid, hx⟩

/-- The evict hook on behalf of another id leaves an unexpired value of this id alone. -/
theorem unexpiredWithId_applyEvictId_keep (s : State) (e : Evicted) {k i : Nat} (hi : i ≠ e.1)
    (h : unexpiredWithId s k i = true) : unexpiredWithId (applyEvictId s e) k i = true := by
  obtain ⟨en, hen, hid, hx⟩ := unexpiredWithId_eq_true.mp h
  refine unexpiredWithId_eq_true.mpr ⟨en, applyEvictId_get?_of_id_ne s e hen (by rw [hid]; exact hi), hid, ?_⟩
  rw [applyEvictId_now]; exact hx

/-- **The sweeper's evict hook never removes a value that has not expired by its own deadline** — for EVERY state,
    whatever the index, the weight ledger and the worker look like: the entry stays as it is, and stays unexpired. -/
theorem sweepEvict_keeps_unexpired (s : State) (id : Nat) {k : Nat} {e : Entry} (hk : s.store.get? k = some e)
    (hu : unexpiredWithId s k e.id = true) :
    (sweepEvict s id).1.store.get? k = some e ∧ unexpiredWithId (sweepEvict s id).1 k e.id = true := by
  rcases sweepEvict_cases s id with h0 | ⟨wk, _, hx, h1⟩
  · rw [h0]; exact ⟨hk, hu⟩
  · rw [h1]
    have hk0 : ({ s with adm := { s.adm with kw := s.adm.kw.del id, used := s.adm.used - wk.weight } } : State).store.get? k
        = some e := hk
    have hget : (applyEvictId { s with adm := { s.adm with kw := s.adm.kw.del id, used := s.adm.used - wk.weight } }
        (id, wk.key, wk.weight)).store.get? k = some e := by
      by_cases hkk : k = wk.key
      · have hid : e.id ≠ id := by
          intro hid
          rw [← hkk, ← hid, hu] at hx
          cases hx
        exact applyEvictId_get?_of_id_ne _ _ hk0 hid
      · rw [applyEvictId_get?_other _ _ (show k ≠ ((id, wk.key, wk.weight) : Evicted).2.1 from hkk)]
        exact hk0
    refine ⟨hget, ?_⟩
    obtain ⟨en, hen, hid, hxx⟩ := unexpiredWithId_eq_true.mp hu
    rw [hk] at hen
    cases hen
    exact unexpiredWithId_eq_true.mpr ⟨e, hget, rfl, by rw [applyEvictId_now]; exact hxx⟩

theorem sweepEntries_keeps_unexpired : ∀ (l : List ((Nat × Nat) × Nat)) (s : State) (acc : List Evicted) {k : Nat}
    {e : Entry}, s.store.get? k = some e → unexpiredWithId s k e.id = true →
    (sweepEntries s l acc).1.store.get? k = some e := by
  intro l
  induction l with
  | nil => intro s acc k e hk _; exact hk
  | cons p rest ih =>
    intro s acc k e hk hu
    obtain ⟨⟨sh, id⟩, x⟩ := p
    simp only [sweepEntries]
    obtain ⟨h1, h2⟩ := sweepEvict_keeps_unexpired s id hk hu
    exact ih _ _ h1 h2

/-! ### the old hook would remove a newer incarnation -/

/-- a store that holds key 1 under the (newer) id 2 -/
def evictIdWitness : State :=
  { State.init { maxWeight := 10, shards := 1, cmdCap := 1, poolSize := 0, bufSize := 1, counters := 2 } 0 [] with
    store := [(1, { value := 7, id := 2, expiry := none, soft := false })] }

/-- Evicting `(id 1, key 1, weight 3)`: the old hook `applyEvict` deletes the entry of key 1 although it carries id 2,
    the ticker's hook `applyEvictId` keeps it. -/
example :
    evictIdWitness.store.get? 1 = some { value := 7, id := 2, expiry := none, soft := false } ∧
    (applyEvict evictIdWitness (1, 1, 3)).store.get? 1 = none ∧
    (applyEvictId evictIdWitness (1, 1, 3)).store.get? 1 = some { value := 7, id := 2, expiry := none, soft := false } ∧
    (applyEvictId evictIdWitness (1, 1, 3)).stats.weightRemoved = 3 ∧
    (applyEvictId evictIdWitness (1, 1, 3)).stats.keysDeleted = 0 := by
  decide

/-- ... and with the matching id both hooks delete it. -/
example :
    (applyEvictId evictIdWitness (2, 1, 3)).store.get? 1 = none ∧
    (applyEvictId evictIdWitness (2, 1, 3)).stats.keysDeleted = 1 := by
  decide

/-- non-vacuity of `sweepEvict_skip` / `sweepEvict_take`: key 1 stored under id 2 without deadline and charged: a sweep
    on behalf of id 2 leaves everything; with a deadline that has passed (clock 9, deadline 5) the id is evicted. -/
example :
    let s := { evictIdWitness with adm := { max := 10, used := 3, kw := [(2, ⟨1, 1, 3⟩)] } }
    unexpiredWithId s 1 2 = true ∧ (sweepEvict s 2).2 = none ∧ (sweepEvict s 2).1.store.get? 1 ≠ none ∧
    (sweepEvict s 2).1.adm.used = 3 := by
  decide

example :
    let s := { evictIdWitness with now := 9, store := [(1, { value := 7, id := 2, expiry := some 5, soft := false })],
                                    adm := { max := 10, used := 3, kw := [(2, ⟨1, 1, 3⟩)] } }
    unexpiredWithId s 1 2 = false ∧ (sweepEvict s 2).2 = some (2, 1, 3) ∧ (sweepEvict s 2).1.store.get? 1 = none ∧
    (sweepEvict s 2).1.adm.used = 0 := by
  decide

end Cached
