/-
  Helper lemmas for G17 (`CachedModel/Glue.lean`): the power-of-two bit trick, the `ConfigBuilder` setters and
  chains of them, `CacheD::new`, and the `PutOrUpdateRequestBuilder` call chains.
-/
import CachedModel.Glue
import CachedProofs.Lemmas.NextPower2

namespace Cached
namespace Glue

/-! ### `usize::is_power_of_two` -/

theorem and_pred_eq_zero_of_two_pow (k : Nat) : 2 ^ k &&& (2 ^ k - 1) = 0 := by
  rw [Nat.and_two_pow_sub_one_eq_mod, Nat.mod_self]

/-- the bit trick, `→`: strong induction on `n`, halving (`(a &&& b) / 2 = a / 2 &&& b / 2`) -/
theorem two_pow_of_and_pred_eq_zero : ∀ n : Nat, n ≠ 0 → n &&& (n - 1) = 0 → ∃ k, n = 2 ^ k := by
  intro n
  induction n using Nat.strongRecOn with
  | _ n ih =>
    intro hn h
    have hd : (n &&& (n - 1)) / 2 = 0 := by rw [h]
    rw [Nat.and_div_two] at hd
    rcases Nat.mod_two_eq_zero_or_one n with he | ho
    · -- `n = 2 m`, `m ≥ 1`: `n - 1 = 2 (m - 1) + 1`, so `m &&& (m - 1) = 0`
      have e1 : (n - 1) / 2 = n / 2 - 1 := by omega
      rw [e1] at hd
      obtain ⟨k, hk⟩ := ih (n / 2) (by omega) (by omega) hd
      refine ⟨k + 1, ?_⟩
      rw [Nat.pow_succ, ← hk]; omega
    · -- `n = 2 m + 1`: `n - 1 = 2 m`, so `m &&& m = m = 0`
      have e1 : (n - 1) / 2 = n / 2 := by omega
      rw [e1, Nat.and_self] at hd
      exact ⟨0, by simp; omega⟩

theorem isPow2_iff (n : Nat) : isPow2 n = true ↔ ∃ k, n = 2 ^ k := by
  unfold isPow2
  simp only [Bool.and_eq_true, bne_iff_ne, ne_eq, beq_iff_eq]
  constructor
  · rintro ⟨h0, h⟩; exact two_pow_of_and_pred_eq_zero n h0 h
  · rintro ⟨k, rfl⟩
    exact ⟨Nat.ne_of_gt (Nat.pow_pos (by omega)), and_pred_eq_zero_of_two_pow k⟩

theorem isPow2_pos {n : Nat} (h : isPow2 n = true) : 0 < n := by
  obtain ⟨k, rfl⟩ := (isPow2_iff n).1 h
  exact Nat.pow_pos (by omega)

/-! ### `ConfigBuilder` -/

/-- what every component built from the configuration relies on -/
def Builder.Valid (b : Builder) : Prop :=
  0 < b.counters ∧ 0 < b.capacity ∧ 0 < b.cacheWeight ∧ 0 < b.pool ∧ 0 < b.buf ∧ 0 < b.cmd ∧ 1 < b.shards ∧
    isPow2 b.shards = true

instance (b : Builder) : Decidable b.Valid := by unfold Builder.Valid; infer_instance

theorem Builder.new_isSome_iff (c cap : Nat) (w : Int) :
    (Builder.new c cap w).isSome = true ↔ (0 < c ∧ 0 < cap ∧ 0 < w) := by
  unfold Builder.new
  split <;> simp_all

theorem Builder.new_eq_some {c cap : Nat} {w : Int} {b : Builder} (h : Builder.new c cap w = some b) :
    (0 < c ∧ 0 < cap ∧ 0 < w) ∧
    b = { counters := c, capacity := cap, cacheWeight := w, pool := 32, buf := 64, cmd := 32768, shards := 256,
          tickNs := 5000000000 } := by
  unfold Builder.new at h
  split at h
  · rename_i hc
    simp only [Option.some.injEq] at h
    exact ⟨hc, h.symm⟩
  · cases h

theorem isPow2_256 : isPow2 256 = true := by decide

theorem Builder.new_valid {c cap : Nat} {w : Int} {b : Builder} (h : Builder.new c cap w = some b) : b.Valid := by
  obtain ⟨⟨h1, h2, h3⟩, rfl⟩ := Builder.new_eq_some h
  exact ⟨h1, h2, h3, (by decide : 0 < 32), (by decide : 0 < 64), (by decide : 0 < 32768), (by decide : 1 < 256),
    isPow2_256⟩

/-! #### the same with the defaults as a parameter (the correspondence reads them from the running crate) -/

theorem Builder.new_eq_newWith_crate (c cap : Nat) (w : Int) :
    Builder.new c cap w = Builder.newWith Defaults.crate c cap w := by
  unfold Builder.new Builder.newWith Defaults.crate
  split <;> rfl

theorem Defaults.ok_iff (d : Defaults) :
    d.ok = true ↔ (0 < d.pool ∧ 0 < d.buf ∧ 0 < d.cmd ∧ 1 < d.shards ∧ isPow2 d.shards = true) := by
  unfold Defaults.ok
  simp only [Bool.and_eq_true, decide_eq_true_eq, gt_iff_lt]
  constructor
  · rintro ⟨⟨⟨⟨h1, h2⟩, h3⟩, h4⟩, h5⟩; exact ⟨h1, h2, h3, h4, h5⟩
  · rintro ⟨h1, h2, h3, h4, h5⟩; exact ⟨⟨⟨⟨h1, h2⟩, h3⟩, h4⟩, h5⟩

theorem Builder.newWith_isSome_iff (d : Defaults) (c cap : Nat) (w : Int) :
    (Builder.newWith d c cap w).isSome = true ↔ (0 < c ∧ 0 < cap ∧ 0 < w) := by
  unfold Builder.newWith
  split <;> simp_all

theorem Builder.newWith_eq_some {d : Defaults} {c cap : Nat} {w : Int} {b : Builder}
    (h : Builder.newWith d c cap w = some b) :
    (0 < c ∧ 0 < cap ∧ 0 < w) ∧
    b = { counters := c, capacity := cap, cacheWeight := w, pool := d.pool, buf := d.buf, cmd := d.cmd,
          shards := d.shards, tickNs := d.tickNs } := by
  unfold Builder.newWith at h
  split at h
  · rename_i hc
    simp only [Option.some.injEq] at h
    exact ⟨hc, h.symm⟩
  · cases h

/-- acceptable defaults make every freshly created builder valid -/
theorem Builder.newWith_valid {d : Defaults} {c cap : Nat} {w : Int} {b : Builder} (hd : d.ok = true)
    (h : Builder.newWith d c cap w = some b) : b.Valid := by
  obtain ⟨⟨h1, h2, h3⟩, rfl⟩ := Builder.newWith_eq_some h
  obtain ⟨p1, p2, p3, p4, p5⟩ := (Defaults.ok_iff d).mp hd
  exact ⟨h1, h2, h3, p1, p2, p3, p4, p5⟩

theorem Defaults.crate_ok : Defaults.crate.ok = true := by decide

theorem Builder.set_isSome_iff (b : Builder) (c : Setter) :
    (b.set c).isSome = true ↔
      (match c with
       | .pool n => 0 < n
       | .buf n => 0 < n
       | .cmd n => 0 < n
       | .shards n => 1 < n ∧ isPow2 n = true
       | .tick _ => True
       | .other => True) := by
  cases c <;> simp only [Builder.set] <;> (try split) <;> simp_all

/-- an accepted setter writes its own field, to its argument, and nothing else -/
theorem Builder.set_eq_some {b b' : Builder} {c : Setter} (h : b.set c = some b') :
    match c with
    | .pool n => 0 < n ∧ b' = { b with pool := n }
    | .buf n => 0 < n ∧ b' = { b with buf := n }
    | .cmd n => 0 < n ∧ b' = { b with cmd := n }
    | .shards n => (1 < n ∧ isPow2 n = true) ∧ b' = { b with shards := n }
    | .tick ns => b' = { b with tickNs := ns }
    | .other => b' = b := by
  cases c <;> simp only [Builder.set] at h ⊢
  · split at h
    · rename_i hc; simp only [Option.some.injEq] at h; exact ⟨hc, h.symm⟩
    · cases h
  · split at h
    · rename_i hc; simp only [Option.some.injEq] at h; exact ⟨hc, h.symm⟩
    · cases h
  · split at h
    · rename_i hc; simp only [Option.some.injEq] at h; exact ⟨hc, h.symm⟩
    · cases h
  · split at h
    · rename_i hc; simp only [Option.some.injEq] at h; exact ⟨hc, h.symm⟩
    · cases h
  · simp only [Option.some.injEq] at h; exact h.symm
  · simp only [Option.some.injEq] at h; exact h.symm

theorem Builder.set_valid {b b' : Builder} {c : Setter} (hv : b.Valid) (h : b.set c = some b') : b'.Valid := by
  have hs := Builder.set_eq_some h
  obtain ⟨h1, h2, h3, h4, h5, h6, h7, h8⟩ := hv
  cases c <;> simp only at hs
  · obtain ⟨hn, rfl⟩ := hs; exact ⟨h1, h2, h3, hn, h5, h6, h7, h8⟩
  · obtain ⟨hn, rfl⟩ := hs; exact ⟨h1, h2, h3, h4, hn, h6, h7, h8⟩
  · obtain ⟨hn, rfl⟩ := hs; exact ⟨h1, h2, h3, h4, h5, hn, h7, h8⟩
  · obtain ⟨⟨hn, hp⟩, rfl⟩ := hs; exact ⟨h1, h2, h3, h4, h5, h6, hn, hp⟩
  · subst hs; exact ⟨h1, h2, h3, h4, h5, h6, h7, h8⟩
  · subst hs; exact ⟨h1, h2, h3, h4, h5, h6, h7, h8⟩

theorem Builder.run_nil (b : Builder) : b.run [] = some b := rfl

theorem Builder.run_cons (b : Builder) (c : Setter) (cs : List Setter) :
    b.run (c :: cs) = (b.set c).bind (fun b' => b'.run cs) := by
  simp only [Builder.run]
  cases b.set c <;> rfl

theorem Builder.run_append (b : Builder) (xs ys : List Setter) :
    b.run (xs ++ ys) = (b.run xs).bind (fun b' => b'.run ys) := by
  induction xs generalizing b with
  | nil => rfl
  | cons c cs ih =>
    rw [List.cons_append, Builder.run_cons, Builder.run_cons]
    cases b.set c with
    | none => rfl
    | some b' => simp only [Option.bind_some]; exact ih b'

theorem Builder.run_valid {b b' : Builder} {cs : List Setter} (hv : b.Valid) (h : b.run cs = some b') : b'.Valid := by
  induction cs generalizing b with
  | nil =>
    simp only [Builder.run, Option.some.injEq] at h
    subst h; exact hv
  | cons c cs ih =>
    rw [Builder.run_cons] at h
    cases hc : b.set c with
    | none => simp [hc] at h
    | some b1 =>
      simp only [hc, Option.bind_some] at h
      exact ih (Builder.set_valid hv hc) h

theorem Builder.run_cons_eq_none_iff (b : Builder) (c : Setter) (cs : List Setter) :
    b.run (c :: cs) = none ↔ b.set c = none ∨ ∃ b', b.set c = some b' ∧ b'.run cs = none := by
  rw [Builder.run_cons]
  cases b.set c with
  | none => simp
  | some b1 => simp

/-- closed form: a chain is rejected iff it has a prefix that is accepted and whose next setter is refused by the
    builder state reached -/
theorem Builder.run_eq_none_iff (b : Builder) (cs : List Setter) :
    b.run cs = none ↔ ∃ pre c post b1, cs = pre ++ c :: post ∧ b.run pre = some b1 ∧ b1.set c = none := by
  induction cs generalizing b with
  | nil =>
    simp only [Builder.run_nil]
    constructor
    · intro h; cases h
    · rintro ⟨pre, c, post, _, h, _⟩
      cases pre <;> cases h
  | cons c cs ih =>
    rw [Builder.run_cons_eq_none_iff]
    constructor
    · rintro (h | ⟨b', h1, h2⟩)
      · exact ⟨[], c, cs, b, rfl, rfl, h⟩
      · obtain ⟨pre, c', post, b1, he, hr, hs⟩ := (ih b').1 h2
        refine ⟨c :: pre, c', post, b1, by rw [he]; rfl, ?_, hs⟩
        rw [Builder.run_cons, h1]; exact hr
    · rintro ⟨pre, c', post, b1, he, hr, hs⟩
      cases pre with
      | nil =>
        simp only [List.nil_append, List.cons.injEq] at he
        obtain ⟨rfl, _⟩ := he
        simp only [Builder.run_nil, Option.some.injEq] at hr
        subst hr
        exact Or.inl hs
      | cons p pre =>
        simp only [List.cons_append, List.cons.injEq] at he
        obtain ⟨rfl, he⟩ := he
        rw [Builder.run_cons] at hr
        cases hc : b.set c with
        | none => exact Or.inl rfl
        | some b' =>
          simp only [hc, Option.bind_some] at hr
          exact Or.inr ⟨b', rfl, (ih b').2 ⟨pre, c', post, b1, he, hr, hs⟩⟩

/-! ### `CacheD::new` -/

theorem cachedNew_eq_none_iff (b : Builder) (seeds : List Nat) :
    cachedNew b seeds = none ↔ ¬ (0 < b.counters ∧ 0 < b.shards ∧ isPow2 b.shards = true) := by
  unfold cachedNew
  split <;> simp_all

theorem cachedNew_of_ok (b : Builder) (seeds : List Nat)
    (h : 0 < b.counters ∧ 0 < b.shards ∧ isPow2 b.shards = true) :
    cachedNew b seeds = some
      { cmdCap := b.cmd, ttlShards := b.shards, poolBuffers := b.pool, bufCap := b.buf, rows := seeds.length,
        rowBytes := nextPower2 b.counters / 2, resetAt := b.counters, maxWeight := b.cacheWeight } := by
  unfold cachedNew
  have h' : b.counters > 0 ∧ b.shards > 0 ∧ isPow2 b.shards = true := h
  simp only [h', and_self, if_true, TinyLFU.new, FreqCounter.new, List.length_map]

theorem one_le_half_nextPower2 (c : Nat) : 1 ≤ nextPower2 c / 2 := by
  have := nextPower2_ge_two c
  omega

/-! ### `PutOrUpdateRequestBuilder` -/

theorem UReq.calls_nil (r : UReq) : r.calls [] = some r := rfl

theorem UReq.calls_cons (r : UReq) (c : UCall) (cs : List UCall) :
    r.calls (c :: cs) = (r.call c).bind (fun r' => r'.calls cs) := by
  simp only [UReq.calls]
  cases r.call c <;> rfl

theorem UReq.calls_append (r : UReq) (xs ys : List UCall) :
    r.calls (xs ++ ys) = (r.calls xs).bind (fun r' => r'.calls ys) := by
  induction xs generalizing r with
  | nil => rfl
  | cons c cs ih =>
    rw [List.cons_append, UReq.calls_cons, UReq.calls_cons]
    cases r.call c with
    | none => rfl
    | some r' => simp only [Option.bind_some]; exact ih r'

/-- one call: which field it writes -/
theorem UReq.call_eq_some {r r' : UReq} {c : UCall} (h : r.call c = some r') :
    match c with
    | .value => r' = { r with hasValue := true }
    | .weight w => 0 < w ∧ r' = { r with weight := some w }
    | .ttl n => r' = { r with ttl := some n }
    | .rm => r' = { r with rm := true } := by
  cases c <;> simp only [UReq.call] at h ⊢
  · simp only [Option.some.injEq] at h; exact h.symm
  · split at h
    · rename_i hw; simp only [Option.some.injEq] at h; exact ⟨hw, h.symm⟩
    · cases h
  · simp only [Option.some.injEq] at h; exact h.symm
  · simp only [Option.some.injEq] at h; exact h.symm

theorem UReq.call_eq_none_iff (r : UReq) (c : UCall) : r.call c = none ↔ ∃ w, c = .weight w ∧ w ≤ 0 := by
  cases c with
  | weight w =>
    simp only [UReq.call]
    split
    · simp only [reduceCtorEq, UCall.weight.injEq, exists_eq_left', false_iff]; omega
    · simp only [UCall.weight.injEq, exists_eq_left', true_iff]; omega
  | _ => simp [UReq.call]

theorem UReq.calls_eq_none_iff (r : UReq) (cs : List UCall) :
    r.calls cs = none ↔ ∃ w, UCall.weight w ∈ cs ∧ w ≤ 0 := by
  induction cs generalizing r with
  | nil => simp [UReq.calls]
  | cons c cs ih =>
    rw [UReq.calls_cons]
    cases hc : r.call c with
    | none =>
      obtain ⟨w, rfl, hw⟩ := (UReq.call_eq_none_iff r c).1 hc
      simp only [Option.bind_none, true_iff]
      exact ⟨w, List.mem_cons_self, hw⟩
    | some r1 =>
      simp only [Option.bind_some, ih r1, List.mem_cons]
      constructor
      · rintro ⟨w, hm, hw⟩; exact ⟨w, Or.inr hm, hw⟩
      · rintro ⟨w, hm | hm, hw⟩
        · exfalso
          have : r.call c = none := (UReq.call_eq_none_iff r c).2 ⟨w, hm.symm, hw⟩
          rw [hc] at this; cases this
        · exact ⟨w, hm, hw⟩

/-- invariant of the builder: an explicit weight, if any, is positive -/
def UReq.WeightPos (r : UReq) : Prop := ∀ w, r.weight = some w → 0 < w

theorem UReq.call_weightPos {r r' : UReq} {c : UCall} (hp : r.WeightPos) (h : r.call c = some r') : r'.WeightPos := by
  have hs := UReq.call_eq_some h
  cases c <;> simp only at hs
  · subst hs; exact hp
  · obtain ⟨hw, rfl⟩ := hs
    intro w' he
    simp only [Option.some.injEq] at he
    omega
  · subst hs; exact hp
  · subst hs; exact hp

theorem UReq.calls_weightPos {r r' : UReq} {cs : List UCall} (hp : r.WeightPos) (h : r.calls cs = some r') :
    r'.WeightPos := by
  induction cs generalizing r with
  | nil =>
    simp only [UReq.calls, Option.some.injEq] at h
    subst h; exact hp
  | cons c cs ih =>
    rw [UReq.calls_cons] at h
    cases hc : r.call c with
    | none => simp [hc] at h
    | some r1 =>
      simp only [hc, Option.bind_some] at h
      exact ih (UReq.call_weightPos hp hc) h

/-- the fields after an accepted chain, from any start state -/
theorem UReq.calls_fields {r r' : UReq} {cs : List UCall} (h : r.calls cs = some r') :
    (r'.hasValue = true ↔ r.hasValue = true ∨ UCall.value ∈ cs) ∧
    (r'.rm = true ↔ r.rm = true ∨ UCall.rm ∈ cs) ∧
    (r'.ttl.isSome = true ↔ r.ttl.isSome = true ∨ ∃ n, UCall.ttl n ∈ cs) ∧
    (r'.weight.isSome = true ↔ r.weight.isSome = true ∨ ∃ w, UCall.weight w ∈ cs) := by
  induction cs generalizing r with
  | nil =>
    simp only [UReq.calls, Option.some.injEq] at h
    subst h; simp
  | cons c cs ih =>
    rw [UReq.calls_cons] at h
    cases hc : r.call c with
    | none => simp [hc] at h
    | some r1 =>
      simp only [hc, Option.bind_some] at h
      obtain ⟨i1, i2, i3, i4⟩ := ih h
      have hs := UReq.call_eq_some hc
      rw [i1, i2, i3, i4]
      cases c <;> simp only at hs
      · subst hs; simp
      · obtain ⟨_, rfl⟩ := hs; simp
      · subst hs; simp
      · subst hs; simp

/-- calls that do not touch a field leave it alone -/
theorem UReq.calls_ttl_untouched {r r' : UReq} {cs : List UCall} (h : r.calls cs = some r')
    (hn : ∀ n, UCall.ttl n ∉ cs) : r'.ttl = r.ttl := by
  induction cs generalizing r with
  | nil =>
    simp only [UReq.calls, Option.some.injEq] at h
    subst h; rfl
  | cons c cs ih =>
    rw [UReq.calls_cons] at h
    cases hc : r.call c with
    | none => simp [hc] at h
    | some r1 =>
      simp only [hc, Option.bind_some] at h
      have hs := UReq.call_eq_some hc
      rw [ih h (fun n hm => hn n (List.mem_cons_of_mem _ hm))]
      cases c <;> simp only at hs
      · subst hs; rfl
      · obtain ⟨_, rfl⟩ := hs; rfl
      · exact absurd List.mem_cons_self (hn _)
      · subst hs; rfl

theorem UReq.calls_weight_untouched {r r' : UReq} {cs : List UCall} (h : r.calls cs = some r')
    (hn : ∀ w, UCall.weight w ∉ cs) : r'.weight = r.weight := by
  induction cs generalizing r with
  | nil =>
    simp only [UReq.calls, Option.some.injEq] at h
    subst h; rfl
  | cons c cs ih =>
    rw [UReq.calls_cons] at h
    cases hc : r.call c with
    | none => simp [hc] at h
    | some r1 =>
      simp only [hc, Option.bind_some] at h
      have hs := UReq.call_eq_some hc
      rw [ih h (fun n hm => hn n (List.mem_cons_of_mem _ hm))]
      cases c <;> simp only at hs
      · subst hs; rfl
      · exact absurd List.mem_cons_self (hn _)
      · subst hs; rfl
      · subst hs; rfl

theorem UReq.build_isSome_iff (r : UReq) :
    r.build.isSome = true ↔
      ((r.hasValue = true ∨ r.weight.isSome = true ∨ r.ttl.isSome = true ∨ r.rm = true) ∧
        ¬ (r.ttl.isSome = true ∧ r.rm = true)) := by
  unfold UReq.build
  cases r.hasValue <;> cases r.weight.isSome <;> cases r.ttl.isSome <;> cases r.rm <;> simp

theorem UReq.build_eq_some {r r' : UReq} (h : r.build = some r') : r' = r := by
  unfold UReq.build at h
  split at h
  · cases h
  · split at h
    · cases h
    · simp only [Option.some.injEq] at h; exact h.symm

end Glue
end Cached
