/-
  Lemmas about the packed 4-bit counters and the count-min sketch.
  The byte-level facts are decided over ALL 256 byte values × 2 nibble positions by the kernel.
-/
import CachedModel.Sketch

namespace Cached

/-- the counter of a nibble as a natural number -/
def nib (b : Byte) (odd : Bool) : Nat := (getNib b odd).toNat

theorem nib_lt_16 : ∀ (b : Byte) (odd : Bool), nib b odd < 16 := by decide +kernel

/-- incrementing a nibble: `min (c + 1) 15` — it saturates, it never wraps -/
theorem nib_incNib_same : ∀ (b : Byte) (odd : Bool), nib (incNib b odd) odd = min (nib b odd + 1) 15 := by
  decide +kernel

/-- incrementing one nibble never disturbs the other nibble of the byte (no carry) -/
theorem nib_incNib_other : ∀ (b : Byte) (odd : Bool), nib (incNib b odd) (!odd) = nib b (!odd) := by
  decide +kernel

/-- ageing halves each nibble, rounding down, independently of its neighbour -/
theorem nib_halfByte : ∀ (b : Byte) (odd : Bool), nib (halfByte b) odd = nib b odd / 2 := by
  decide +kernel

theorem nib_zero (odd : Bool) : nib (0#8) odd = 0 := by cases odd <;> decide

end Cached

namespace Cached

theorem Row.modifyAt_length (r : Row) (i : Nat) (f : Byte → Byte) : (r.modifyAt i f).length = r.length := by
  induction r generalizing i with
  | nil => rfl
  | cons b rest ih => cases i <;> simp [Row.modifyAt, ih]

theorem Row.modifyAt_get? (r : Row) (i j : Nat) (f : Byte → Byte) :
    (r.modifyAt i f)[j]? = if i = j then (r[j]?).map f else r[j]? := by
  induction r generalizing i j with
  | nil => simp [Row.modifyAt]
  | cons b rest ih =>
    cases i with
    | zero => cases j <;> simp [Row.modifyAt]
    | succ i => cases j <;> simp [Row.modifyAt, ih]

theorem Row.getAt_eq (r : Row) (p : Nat) : r.getAt p = (r[p / 2]?).map (fun b => nib b (p % 2 == 1)) := by
  unfold Row.getAt nib
  cases r[p / 2]? <;> rfl

theorem Row.incrementAt_isSome (r : Row) (p : Nat) (h : p / 2 < r.length) : (r.incrementAt p).isSome := by
  simp [Row.incrementAt, h]

theorem Row.incrementAt_length {r r' : Row} {p : Nat} (h : r.incrementAt p = some r') : r'.length = r.length := by
  unfold Row.incrementAt at h
  split at h
  · cases h; exact Row.modifyAt_length _ _ _
  · cases h

/-- the incremented counter: `min (c + 1) 15` -/
theorem Row.getAt_incrementAt_same {r r' : Row} {p : Nat} (h : r.incrementAt p = some r') :
    r'.getAt p = (r.getAt p).map (fun c => min (c + 1) 15) := by
  unfold Row.incrementAt at h
  split at h
  · cases h
    rw [Row.getAt_eq, Row.getAt_eq, Row.modifyAt_get?]
    simp only [if_true]
    cases hb : r[p / 2]? with
    | none => rfl
    | some b => simp [nib_incNib_same]
  · cases h

theorem bne_of_mod2 {p q : Nat} (h : p % 2 ≠ q % 2) : (q % 2 == 1) = !(p % 2 == 1) := by
  have hp : p % 2 = 0 ∨ p % 2 = 1 := by omega
  have hq : q % 2 = 0 ∨ q % 2 = 1 := by omega
  rcases hp with hp | hp <;> rcases hq with hq | hq <;> simp_all

/-- every other counter of the row is untouched -/
theorem Row.getAt_incrementAt_other {r r' : Row} {p q : Nat} (h : r.incrementAt p = some r') (hq : q ≠ p) :
    r'.getAt q = r.getAt q := by
  unfold Row.incrementAt at h
  split at h
  · cases h
    rw [Row.getAt_eq, Row.getAt_eq, Row.modifyAt_get?]
    by_cases hi : p / 2 = q / 2
    · have hm : p % 2 ≠ q % 2 := by omega
      simp only [hi, if_true]
      cases hb : r[q / 2]? with
      | none => rfl
      | some b =>
        simp only [Option.map_some]
        rw [bne_of_mod2 hm, nib_incNib_other]
    · simp [hi]
  · cases h

theorem Row.getAt_lt_16 {r : Row} {p c : Nat} (h : r.getAt p = some c) : c < 16 := by
  rw [Row.getAt_eq] at h
  cases hb : r[p / 2]? with
  | none => simp [hb] at h
  | some b =>
    simp only [hb, Option.map_some, Option.some.injEq] at h
    subst h; exact nib_lt_16 _ _

theorem Row.half_getAt (r : Row) (p : Nat) : r.half.getAt p = (r.getAt p).map (fun c => c / 2) := by
  rw [Row.getAt_eq, Row.getAt_eq]
  unfold Row.half
  rw [List.getElem?_map]
  cases r[p / 2]? with
  | none => rfl
  | some b => simp [nib_halfByte]

theorem Row.clear_getAt (r : Row) (p : Nat) : r.clear.getAt p = (r.getAt p).map (fun _ => 0) := by
  rw [Row.getAt_eq, Row.getAt_eq]
  unfold Row.clear
  rw [List.getElem?_map]
  cases r[p / 2]? with
  | none => rfl
  | some b => simp only [Option.map_some, Option.some.injEq]; exact nib_zero _

end Cached

namespace Cached

/-- Rows are well formed for `total` counters: every row has `total / 2` bytes and `total` is even and ≥ 2. -/
def RowsWF (total : Nat) (rows : List (Nat × Row)) : Prop :=
  2 ≤ total ∧ total % 2 = 0 ∧ ∀ p ∈ rows, p.2.length = total / 2

theorem RowsWF.tail {total : Nat} {p : Nat × Row} {rest : List (Nat × Row)} (h : RowsWF total (p :: rest)) :
    RowsWF total rest := ⟨h.1, h.2.1, fun q hq => h.2.2 q (List.mem_cons_of_mem _ hq)⟩

theorem pos_in_row {total : Nat} (h2 : 2 ≤ total) (he : total % 2 = 0) (x : Nat) : (x % total) / 2 < total / 2 := by
  have : x % total < total := Nat.mod_lt _ (by omega)
  omega

theorem incRows_isSome {total : Nat} {rows : List (Nat × Row)} (wf : RowsWF total rows) (h : Nat) :
    ∃ rows', incRows total h rows = some rows' ∧ RowsWF total rows' := by
  induction rows with
  | nil => exact ⟨[], rfl, wf⟩
  | cons p rest ih =>
    obtain ⟨seed, row⟩ := p
    obtain ⟨rest', hr, wf'⟩ := ih wf.tail
    have hlen : row.length = total / 2 := wf.2.2 (seed, row) (by simp)
    have hlt : ((h ^^^ seed) % total) / 2 < row.length := by rw [hlen]; exact pos_in_row wf.1 wf.2.1 _
    have hs := Row.incrementAt_isSome row _ hlt
    obtain ⟨row', hrow⟩ := Option.isSome_iff_exists.mp hs
    refine ⟨(seed, row') :: rest', by simp [incRows, hrow, hr], wf.1, wf.2.1, ?_⟩
    intro q hq
    simp only [List.mem_cons] at hq
    rcases hq with hq | hq
    · subst hq; simp [Row.incrementAt_length hrow, hlen]
    · exact wf'.2.2 q hq

theorem getAt_isSome_of_wf {total : Nat} {row : Row} (h2 : 2 ≤ total) (he : total % 2 = 0)
    (hlen : row.length = total / 2) (x : Nat) : ∃ c, row.getAt (x % total) = some c ∧ c < 16 := by
  have hlt : (x % total) / 2 < row.length := by rw [hlen]; exact pos_in_row h2 he x
  rw [Row.getAt_eq]
  have : row[(x % total) / 2]? = some row[(x % total) / 2] := List.getElem?_eq_getElem hlt
  rw [this]
  exact ⟨_, rfl, nib_lt_16 _ _⟩

theorem estRows_isSome {total : Nat} {rows : List (Nat × Row)} (wf : RowsWF total rows) (h acc : Nat) :
    ∃ e, estRows total h rows acc = some e ∧ e ≤ acc := by
  induction rows generalizing acc with
  | nil => exact ⟨acc, rfl, Nat.le_refl _⟩
  | cons p rest ih =>
    obtain ⟨seed, row⟩ := p
    obtain ⟨c, hc, _⟩ := getAt_isSome_of_wf wf.1 wf.2.1 (wf.2.2 (seed, row) (by simp)) (h ^^^ seed)
    obtain ⟨e, he, hle⟩ := ih wf.tail (if c < acc then c else acc)
    refine ⟨e, by simp [estRows, hc, he], ?_⟩
    split at hle <;> omega

theorem estRows_le_acc {total : Nat} (h : Nat) :
    ∀ (rs : List (Nat × Row)) (a e : Nat), estRows total h rs a = some e → e ≤ a := by
  intro rs
  induction rs with
  | nil => intro a e he; simp only [estRows, Option.some.injEq] at he; omega
  | cons q rs ih =>
    intro a e he
    obtain ⟨s, r⟩ := q
    simp only [estRows] at he
    cases hq : r.getAt ((h ^^^ s) % total) with
    | none => simp [hq] at he
    | some c' =>
      simp only [hq] at he
      have := ih _ _ he
      split at this <;> omega

/-- with at least one row the estimate never exceeds 15 -/
theorem estRows_le_15 {total : Nat} {rows : List (Nat × Row)} (hne : rows ≠ []) (h acc e : Nat)
    (he : estRows total h rows acc = some e) : e ≤ 15 := by
  cases rows with
  | nil => exact absurd rfl hne
  | cons p rest =>
    obtain ⟨seed, row⟩ := p
    simp only [estRows] at he
    cases hc : row.getAt ((h ^^^ seed) % total) with
    | none => simp [hc] at he
    | some c =>
      simp only [hc] at he
      have hc16 := Row.getAt_lt_16 hc
      have := estRows_le_acc h _ _ _ he
      split at this <;> omega

/-- Incrementing any hash `h'` never lowers the estimate of `h` (monotone within an ageing window). -/
theorem estRows_mono_incRows {total : Nat} (h h' : Nat) :
    ∀ (rows rows' : List (Nat × Row)) (acc acc' e : Nat), incRows total h' rows = some rows' → acc ≤ acc' →
      estRows total h rows acc = some e → ∃ e', estRows total h rows' acc' = some e' ∧ e ≤ e' := by
  intro rows
  induction rows with
  | nil =>
    intro rows' acc acc' e hinc hle he
    simp only [incRows, Option.some.injEq] at hinc; subst hinc
    simp only [estRows, Option.some.injEq] at he; subst he
    exact ⟨acc', rfl, hle⟩
  | cons p rest ih =>
    intro rows' acc acc' e hinc hle he
    obtain ⟨seed, row⟩ := p
    simp only [incRows] at hinc
    cases hrow : row.incrementAt ((h' ^^^ seed) % total) with
    | none => simp [hrow] at hinc
    | some row' =>
      cases hrest : incRows total h' rest with
      | none => simp [hrow, hrest] at hinc
      | some rest' =>
        simp only [hrow, hrest, Option.some.injEq] at hinc; subst hinc
        simp only [estRows] at he ⊢
        cases hc : row.getAt ((h ^^^ seed) % total) with
        | none => simp [hc] at he
        | some c =>
          simp only [hc] at he
          have hc16 := Row.getAt_lt_16 hc
          by_cases hp : (h ^^^ seed) % total = (h' ^^^ seed) % total
          · have h1 := Row.getAt_incrementAt_same hrow
            rw [← hp, hc] at h1
            simp only [Option.map_some] at h1
            simp only [h1]
            apply ih rest' _ _ e hrest _ he
            split <;> split <;> omega
          · have h1 := Row.getAt_incrementAt_other hrow hp
            rw [hc] at h1
            simp only [h1]
            apply ih rest' _ _ e hrest _ he
            split <;> split <;> omega

/-- Incrementing `h` itself raises its estimate by one, saturating at 15 (never wrapping). -/
theorem estRows_self_incRows {total : Nat} (h : Nat) :
    ∀ (rows rows' : List (Nat × Row)) (acc acc' e : Nat), incRows total h rows = some rows' →
      (acc' = min (acc + 1) 15 ∨ (acc = 255 ∧ acc' = 255 ∧ rows ≠ [])) →
      estRows total h rows acc = some e → estRows total h rows' acc' = some (min (e + 1) 15) := by
  intro rows
  induction rows with
  | nil =>
    intro rows' acc acc' e hinc hacc he
    simp only [incRows, Option.some.injEq] at hinc; subst hinc
    simp only [estRows, Option.some.injEq] at he; subst he
    rcases hacc with hacc | ⟨_, _, hne⟩
    · simp [estRows, hacc]
    · exact absurd rfl hne
  | cons p rest ih =>
    intro rows' acc acc' e hinc hacc he
    obtain ⟨seed, row⟩ := p
    simp only [incRows] at hinc
    cases hrow : row.incrementAt ((h ^^^ seed) % total) with
    | none => simp [hrow] at hinc
    | some row' =>
      cases hrest : incRows total h rest with
      | none => simp [hrow, hrest] at hinc
      | some rest' =>
        simp only [hrow, hrest, Option.some.injEq] at hinc; subst hinc
        simp only [estRows] at he ⊢
        cases hc : row.getAt ((h ^^^ seed) % total) with
        | none => simp [hc] at he
        | some c =>
          simp only [hc] at he
          have hc16 := Row.getAt_lt_16 hc
          have h1 := Row.getAt_incrementAt_same hrow
          rw [hc] at h1
          simp only [Option.map_some] at h1
          simp only [h1]
          apply ih rest' _ _ e hrest _ he
          left
          rcases hacc with hacc | ⟨ha, ha', _⟩
          · subst hacc; split <;> split <;> omega
          · subst ha; subst ha'; split <;> split <;> omega

end Cached
