/-
  `nextPower2` (the `u64` or-shift cascade of `FrequencyCounter::next_power_2`, then `+ 1`, then `max _ 2`):
  the result is always an even number `≥ 2`, indeed always a power of two `2^j` with `1 ≤ j`, and for
  `1 ≤ c ≤ 2^63` it is the least power of two `≥ max c 2`.  Hence a freshly built sketch is well formed.
  Everything is checked by the kernel (plain `decide` / `rfl` / `omega` / rewriting only).
-/
import CachedProofs.Lemmas.Sketch

namespace Cached

/-- the six or-shift stages of `next_power_2` -/
def orCascade (c0 : BitVec 64) : BitVec 64 :=
  let c1 := c0 ||| (c0 >>> 1)
  let c2 := c1 ||| (c1 >>> 2)
  let c3 := c2 ||| (c2 >>> 4)
  let c4 := c3 ||| (c3 >>> 8)
  let c5 := c4 ||| (c4 >>> 16)
  c5 ||| (c5 >>> 32)

theorem nextPower2_eq (c : Nat) : nextPower2 c = max (orCascade (BitVec.ofNat 64 c - 1) + 1).toNat 2 := rfl

/-- 1. -/
theorem nextPower2_ge_two (c : Nat) : 2 ≤ nextPower2 c := by
  rw [nextPower2_eq]; exact Nat.le_max_right _ _

/-- bit `i` of `y` is the OR of the bits `i, …, i + n - 1` of `x` -/
def Spread (x y : BitVec 64) (n : Nat) : Prop :=
  ∀ i, y.getLsbD i = true ↔ ∃ d, d < n ∧ x.getLsbD (i + d) = true

theorem Spread.base (x : BitVec 64) : Spread x x 1 := by
  intro i
  constructor
  · intro h; exact ⟨0, by omega, h⟩
  · rintro ⟨d, hd, h⟩
    have : d = 0 := by omega
    subst this; exact h

/-- one stage of the cascade doubles the window -/
theorem Spread.step {x y : BitVec 64} (n m : Nat) (h : Spread x y n) (hm : m = n + n) :
    Spread x (y ||| (y >>> n)) m := by
  subst hm
  intro i
  rw [BitVec.getLsbD_or, BitVec.getLsbD_ushiftRight, Bool.or_eq_true, h i, h (n + i)]
  constructor
  · rintro (⟨d, hd, hb⟩ | ⟨d, hd, hb⟩)
    · exact ⟨d, by omega, hb⟩
    · refine ⟨n + d, by omega, ?_⟩
      have e : i + (n + d) = n + i + d := by omega
      rw [e]; exact hb
  · rintro ⟨d, hd, hb⟩
    by_cases hdn : d < n
    · exact Or.inl ⟨d, hdn, hb⟩
    · refine Or.inr ⟨d - n, by omega, ?_⟩
      have e : n + i + (d - n) = i + d := by omega
      rw [e]; exact hb

/-- after the six stages bit `i` is the OR of all bits `≥ i` -/
theorem orCascade_spread (x : BitVec 64) : Spread x (orCascade x) 64 := by
  have h1 := Spread.step 1 2 (Spread.base x) rfl
  have h2 := Spread.step 2 4 h1 rfl
  have h3 := Spread.step 4 8 h2 rfl
  have h4 := Spread.step 8 16 h3 rfl
  have h5 := Spread.step 16 32 h4 rfl
  exact Spread.step 32 64 h5 rfl

theorem orCascade_getLsbD (x : BitVec 64) (i : Nat) :
    (orCascade x).getLsbD i = true ↔ ∃ j, i ≤ j ∧ x.getLsbD j = true := by
  rw [orCascade_spread x i]
  constructor
  · rintro ⟨d, _, h⟩; exact ⟨i + d, by omega, h⟩
  · rintro ⟨j, hij, h⟩
    have hj : j < 64 := BitVec.lt_of_getLsbD h
    refine ⟨j - i, by omega, ?_⟩
    have e : i + (j - i) = j := by omega
    rw [e]; exact h

theorem orCascade_zero : orCascade 0#64 = 0#64 := by decide

/-- the cascade fills every bit below the highest set bit: `2^m ≤ x < 2^(m+1)` gives `2^(m+1) - 1` -/
theorem orCascade_of_log {x : BitVec 64} {m : Nat} (hlo : 2 ^ m ≤ x.toNat) (hhi : x.toNat < 2 ^ (m + 1)) :
    orCascade x = BitVec.ofNat 64 (2 ^ (m + 1) - 1) := by
  apply BitVec.eq_of_getLsbD_eq
  intro i hi
  rw [BitVec.getLsbD_ofNat, Nat.testBit_two_pow_sub_one]
  have key : (orCascade x).getLsbD i = true ↔ i < m + 1 := by
    rw [orCascade_getLsbD]
    constructor
    · rintro ⟨j, hij, hj⟩
      have hge : 2 ^ j ≤ x.toNat := Nat.ge_two_pow_of_testBit hj
      have hjm : j < m + 1 := by
        apply Decidable.by_contra
        intro hn
        have : 2 ^ (m + 1) ≤ 2 ^ j := Nat.pow_le_pow_right (by omega) (by omega)
        omega
      omega
    · intro him
      obtain ⟨j, hjm, hj⟩ := Nat.exists_ge_and_testBit_of_ge_two_pow hlo
      exact ⟨j, by omega, hj⟩
  cases hb : (orCascade x).getLsbD i with
  | true =>
    have := key.1 hb
    simp [hi, this]
  | false =>
    have hn : ¬ i < m + 1 := fun h => by rw [key.2 h] at hb; cases hb
    simp [hn]

/-- the result is ALWAYS a power of two `2^j`, `1 ≤ j ≤ 63` (for every `c`, also `0` and `c > 2^63`,
    where the `u64` arithmetic wraps around and the lower bound `2` takes over) -/
theorem nextPower2_isPow2 (c : Nat) : ∃ j, 1 ≤ j ∧ j ≤ 63 ∧ nextPower2 c = 2 ^ j := by
  rw [nextPower2_eq]
  generalize BitVec.ofNat 64 c - 1 = x
  by_cases hx : x.toNat = 0
  · have : x = 0#64 := BitVec.eq_of_toNat_eq hx
    subst this
    rw [orCascade_zero]
    exact ⟨1, by omega, by omega, by decide⟩
  · have hlo := Nat.log2_self_le hx
    have hhi := @Nat.lt_log2_self x.toNat
    have hlt : x.toNat < 2 ^ 64 := x.isLt
    have hm : x.toNat.log2 < 64 := (Nat.log2_lt hx).2 hlt
    generalize x.toNat.log2 = m at hlo hhi hm
    rw [orCascade_of_log hlo hhi, BitVec.toNat_add, BitVec.toNat_ofNat]
    have hpos : 0 < 2 ^ (m + 1) := Nat.pow_pos (by omega)
    have hle : 2 ^ (m + 1) ≤ 2 ^ 64 := Nat.pow_le_pow_right (by omega) (by omega)
    have h2 : 2 ≤ 2 ^ (m + 1) := by
      have : 2 ^ 1 ≤ 2 ^ (m + 1) := Nat.pow_le_pow_right (by omega) (by omega)
      simpa using this
    have e1 : (2 ^ (m + 1) - 1) % 2 ^ 64 = 2 ^ (m + 1) - 1 := Nat.mod_eq_of_lt (by omega)
    have e2 : (1 : BitVec 64).toNat = 1 := rfl
    rw [e1, e2]
    have e3 : 2 ^ (m + 1) - 1 + 1 = 2 ^ (m + 1) := by omega
    rw [e3]
    by_cases hm63 : m = 63
    · subst hm63
      exact ⟨1, by omega, by omega, by decide⟩
    · have hlt' : 2 ^ (m + 1) < 2 ^ 64 := Nat.pow_lt_pow_right (by omega) (by omega)
      rw [Nat.mod_eq_of_lt hlt']
      exact ⟨m + 1, by omega, by omega, Nat.max_eq_left h2⟩

/-- 2. -/
theorem nextPower2_even (c : Nat) : nextPower2 c % 2 = 0 := by
  obtain ⟨j, hj, _, h⟩ := nextPower2_isPow2 c
  rw [h]
  obtain ⟨k, rfl⟩ : ∃ k, j = k + 1 := ⟨j - 1, by omega⟩
  rw [Nat.pow_succ]
  exact Nat.mul_mod_left _ _

/-- 3. in range (`1 ≤ c ≤ 2^63`, no `u64` wrap-around) the result is a power of two not below `c` -/
theorem nextPower2_pow2 (c : Nat) (h1 : 1 ≤ c) (h2 : c ≤ 2 ^ 63) :
    ∃ j, nextPower2 c = 2 ^ j ∧ c ≤ nextPower2 c := by
  obtain ⟨j, _, _, hj⟩ := nextPower2_isPow2 c
  refine ⟨j, hj, ?_⟩
  rw [nextPower2_eq]
  have hc : (BitVec.ofNat 64 c - 1).toNat = c - 1 := by
    rw [BitVec.toNat_sub, BitVec.toNat_ofNat]
    have e2 : (1 : BitVec 64).toNat = 1 := rfl
    have e1 : c % 2 ^ 64 = c := Nat.mod_eq_of_lt (by omega)
    rw [e1, e2]
    have e3 : 2 ^ 64 - 1 + c = (c - 1) + 2 ^ 64 := by omega
    rw [e3, Nat.add_mod_right]
    exact Nat.mod_eq_of_lt (by omega)
  generalize BitVec.ofNat 64 c - 1 = x at hc
  by_cases hx : x.toNat = 0
  · have : c = 1 := by omega
    subst this
    exact Nat.le_trans (by omega) (Nat.le_max_right _ _)
  · have hlo := Nat.log2_self_le hx
    have hhi := @Nat.lt_log2_self x.toNat
    have hm : x.toNat.log2 < 63 := (Nat.log2_lt hx).2 (by omega)
    generalize x.toNat.log2 = m at hlo hhi hm
    rw [orCascade_of_log hlo hhi, BitVec.toNat_add, BitVec.toNat_ofNat]
    have hpos : 0 < 2 ^ (m + 1) := Nat.pow_pos (by omega)
    have hlt' : 2 ^ (m + 1) < 2 ^ 64 := Nat.pow_lt_pow_right (by omega) (by omega)
    have e1 : (2 ^ (m + 1) - 1) % 2 ^ 64 = 2 ^ (m + 1) - 1 := Nat.mod_eq_of_lt (by omega)
    have e2 : (1 : BitVec 64).toNat = 1 := rfl
    have e3 : 2 ^ (m + 1) - 1 + 1 = 2 ^ (m + 1) := by omega
    rw [e1, e2, e3, Nat.mod_eq_of_lt hlt']
    exact Nat.le_trans (by omega) (Nat.le_max_left _ _)

/-- … and it is the LEAST such power of two `≥ 2`: half of it is below `c` (for `c ≥ 2`). -/
theorem nextPower2_lt_double (c : Nat) (h1 : 2 ≤ c) (h2 : c ≤ 2 ^ 63) : nextPower2 c < 2 * c := by
  rw [nextPower2_eq]
  have hc : (BitVec.ofNat 64 c - 1).toNat = c - 1 := by
    rw [BitVec.toNat_sub, BitVec.toNat_ofNat]
    have e2 : (1 : BitVec 64).toNat = 1 := rfl
    have e1 : c % 2 ^ 64 = c := Nat.mod_eq_of_lt (by omega)
    rw [e1, e2]
    have e3 : 2 ^ 64 - 1 + c = (c - 1) + 2 ^ 64 := by omega
    rw [e3, Nat.add_mod_right]
    exact Nat.mod_eq_of_lt (by omega)
  generalize BitVec.ofNat 64 c - 1 = x at hc
  have hx : x.toNat ≠ 0 := by omega
  have hlo := Nat.log2_self_le hx
  have hhi := @Nat.lt_log2_self x.toNat
  have hm : x.toNat.log2 < 63 := (Nat.log2_lt hx).2 (by omega)
  generalize x.toNat.log2 = m at hlo hhi hm
  rw [orCascade_of_log hlo hhi, BitVec.toNat_add, BitVec.toNat_ofNat]
  have hpos : 0 < 2 ^ (m + 1) := Nat.pow_pos (by omega)
  have hlt' : 2 ^ (m + 1) < 2 ^ 64 := Nat.pow_lt_pow_right (by omega) (by omega)
  have e1 : (2 ^ (m + 1) - 1) % 2 ^ 64 = 2 ^ (m + 1) - 1 := Nat.mod_eq_of_lt (by omega)
  have e2 : (1 : BitVec 64).toNat = 1 := rfl
  have e3 : 2 ^ (m + 1) - 1 + 1 = 2 ^ (m + 1) := by omega
  rw [e1, e2, e3, Nat.mod_eq_of_lt hlt']
  have e4 : 2 ^ (m + 1) = 2 * 2 ^ m := by rw [Nat.pow_succ, Nat.mul_comm]
  apply Nat.max_lt.2
  constructor <;> omega

/-- 4. concrete values; the hypotheses of `nextPower2_pow2` / `nextPower2_lt_double` are satisfiable -/
example : nextPower2 1 = 2 ∧ nextPower2 2 = 2 ∧ nextPower2 3 = 4 ∧ nextPower2 18 = 32 ∧ nextPower2 100 = 128 := by
  decide

example : (1 ≤ 100 ∧ 100 ≤ 2 ^ 63) ∧ nextPower2 100 = 2 ^ 7 ∧ 100 ≤ nextPower2 100 ∧ nextPower2 100 < 2 * 100 := by
  decide

/-- out of range the `u64` arithmetic wraps and only the lower bound `2` is left:
    `c = 0` gives `0 - 1 = 2^64 - 1`, and `c = 2^63 + 1` overflows in the final `+ 1`;
    `nextPower2_pow2` does NOT extend beyond `2^63`. -/
example : nextPower2 0 = 2 ∧ nextPower2 (2 ^ 63) = 2 ^ 63 ∧ nextPower2 (2 ^ 63 + 1) = 2 := by decide

/-- every row of a freshly built sketch has `total / 2` bytes, `total` is even and `≥ 2` -/
theorem freqCounter_new_rowsWF (counters : Nat) (seeds : List Nat) :
    RowsWF (FreqCounter.new counters seeds).total (FreqCounter.new counters seeds).rows := by
  refine ⟨nextPower2_ge_two counters, nextPower2_even counters, ?_⟩
  intro p hp
  simp only [FreqCounter.new, List.mem_map] at hp
  obtain ⟨s, _, rfl⟩ := hp
  simp [FreqCounter.new]

example : RowsWF (FreqCounter.new 2 [7, 11]).total (FreqCounter.new 2 [7, 11]).rows ∧
    (FreqCounter.new 2 [7, 11]).rows = [(7, [0#8]), (11, [0#8])] := ⟨freqCounter_new_rowsWF _ _, by decide⟩

end Cached
