/-
  The accounting invariant `Inv` of the Layer A state machine (CachedModel/State.lean) and its preservation
  by every event (`inv_step`), hence at every reachable state (`inv_reach`).  Behind C01 and C05.

  Structure of the proof: `Inv s` is split into a part about `adm`, `store`, `nextId`, `cfg`, `worker`
  (`Core s`) and a part about the multiset of commands still on their way to the worker
  (`PendOK n kw store P` with `P = pendingCmds s`).  Events that only shuffle, drop or add pending commands
  are handled by the order `PLe` on command lists (membership + id counts).
-/
import CachedProofs.Lemmas.Weights
import CachedProofs.Lemmas.EvictId

namespace Cached

/-! ### definitions -/

/-- the id a command will charge, if it is a put -/
def Cmd.putId? : Cmd → Option Nat
  | .put id _ _ _ _ => some id
  | .putTtl id _ _ _ _ _ => some id
  | _ => none

/-- the weight carried by a command is positive -/
def Cmd.weightPos : Cmd → Prop
  | .put _ _ w _ _ => 0 < w
  | .putTtl _ _ w _ _ _ => 0 < w
  | .updateWeight _ w => 0 < w
  | _ => True

/-- commands of parked `send`s -/
def pendCmds (m : AMap Nat Pending) : List Cmd :=
  m.filterMap (fun p => match p.2 with | .send c => some c | _ => none)

/-- every command that has been issued and not yet executed: queued, or parked at a full queue -/
def pendingCmds (s : State) : List Cmd :=
  s.queue.map (·.1) ++ s.pend.filterMap (fun p => match p.2 with | .send c => some c | _ => none)

/-- ids that pending puts will charge -/
def pendingIds (s : State) : List Nat := (pendingCmds s).filterMap Cmd.putId?

theorem pendingCmds_eq (s : State) : pendingCmds s = s.queue.map (·.1) ++ pendCmds s.pend := rfl

/-- The accounting invariant. -/
structure Inv (s : State) : Prop where
  kwNoDup : AMap.NoDup s.adm.kw
  storeNoDup : AMap.NoDup s.store
  sum : s.adm.used = sumW s.adm.kw
  positive : ∀ id wk, s.adm.kw.get? id = some wk → 0 < wk.weight
  maxFixed : s.adm.max = s.cfg.maxWeight
  cmdsPositive : ∀ c ∈ pendingCmds s, c.weightPos
  idsBelow : (∀ id wk, s.adm.kw.get? id = some wk → id < s.nextId) ∧
    (∀ k e, s.store.get? k = some e → e.id < s.nextId) ∧ (∀ id ∈ pendingIds s, id < s.nextId)
  pendingFresh : (pendingIds s).Nodup ∧
    ∀ id ∈ pendingIds s, s.adm.kw.get? id = none ∧ ∀ k e, s.store.get? k = some e → e.id ≠ id
  held : s.worker = .dead ∨
    ((∀ k e, s.store.get? k = some e → ∃ wk, s.adm.kw.get? e.id = some wk ∧ wk.key = k) ∧
     (∀ id wk, s.adm.kw.get? id = some wk → ∃ e, s.store.get? wk.key = some e ∧ e.id = id))

/-! ### the two halves of the invariant -/

/-- held keys and charged ids correspond one to one -/
def HeldP (kw : AMap Nat WKey) (st : AMap Nat Entry) : Prop :=
  (∀ k e, st.get? k = some e → ∃ wk, kw.get? e.id = some wk ∧ wk.key = k) ∧
  (∀ id wk, kw.get? id = some wk → ∃ e, st.get? wk.key = some e ∧ e.id = id)

/-- the part of `Inv` that does not mention pending commands -/
structure Core (s : State) : Prop where
  kwNoDup : AMap.NoDup s.adm.kw
  storeNoDup : AMap.NoDup s.store
  sum : s.adm.used = sumW s.adm.kw
  positive : ∀ id wk, s.adm.kw.get? id = some wk → 0 < wk.weight
  maxFixed : s.adm.max = s.cfg.maxWeight
  kwBelow : ∀ id wk, s.adm.kw.get? id = some wk → id < s.nextId
  storeBelow : ∀ k e, s.store.get? k = some e → e.id < s.nextId
  held : s.worker = .dead ∨ HeldP s.adm.kw s.store

/-- ids of the puts in a command list -/
def ids (P : List Cmd) : List Nat := P.filterMap Cmd.putId?

/-- the part of `Inv` about a list `P` of pending commands -/
structure PendOK (n : Nat) (kw : AMap Nat WKey) (st : AMap Nat Entry) (P : List Cmd) : Prop where
  pos : ∀ c ∈ P, c.weightPos
  below : ∀ id ∈ ids P, id < n
  nodup : (ids P).Nodup
  fresh : ∀ id ∈ ids P, kw.get? id = none ∧ ∀ k e, st.get? k = some e → e.id ≠ id

theorem inv_iff {s : State} : Inv s ↔ Core s ∧ PendOK s.nextId s.adm.kw s.store (pendingCmds s) := by
  constructor
  · intro h
    exact ⟨⟨h.kwNoDup, h.storeNoDup, h.sum, h.positive, h.maxFixed, h.idsBelow.1, h.idsBelow.2.1, h.held⟩,
      ⟨h.cmdsPositive, h.idsBelow.2.2, h.pendingFresh.1, h.pendingFresh.2⟩⟩
  · intro ⟨c, p⟩
    exact ⟨c.kwNoDup, c.storeNoDup, c.sum, c.positive, c.maxFixed, p.pos, ⟨c.kwBelow, c.storeBelow, p.below⟩,
      ⟨p.nodup, p.fresh⟩, c.held⟩

theorem Inv.core {s : State} (h : Inv s) : Core s := (inv_iff.mp h).1
theorem Inv.pend {s : State} (h : Inv s) : PendOK s.nextId s.adm.kw s.store (pendingCmds s) := (inv_iff.mp h).2

/-! ### `ids` and the order `PLe` on command lists -/

@[simp] theorem ids_nil : ids [] = [] := rfl

theorem ids_append (P Q : List Cmd) : ids (P ++ Q) = ids P ++ ids Q := by
  simp [ids, List.filterMap_append]

theorem ids_cons (c : Cmd) (P : List Cmd) : ids (c :: P) = ids [c] ++ ids P := ids_append [c] P

theorem ids_single_of_some {c : Cmd} {id : Nat} (h : c.putId? = some id) : ids [c] = [id] := by
  simp [ids, h]

theorem ids_single_of_none {c : Cmd} (h : c.putId? = none) : ids [c] = [] := by
  simp [ids, h]

/-- `P'` holds no command that `P` lacks, and no put id more often than `P` does. -/
def PLe (P' P : List Cmd) : Prop := (∀ c ∈ P', c ∈ P) ∧ ∀ id, (ids P').count id ≤ (ids P).count id

theorem PLe.refl (P : List Cmd) : PLe P P := ⟨fun _ h => h, fun _ => Nat.le_refl _⟩

theorem PLe.trans {P Q R : List Cmd} (h1 : PLe P Q) (h2 : PLe Q R) : PLe P R :=
  ⟨fun c h => h2.1 c (h1.1 c h), fun id => Nat.le_trans (h1.2 id) (h2.2 id)⟩

theorem PLe.append {P P' Q Q' : List Cmd} (h1 : PLe P' P) (h2 : PLe Q' Q) : PLe (P' ++ Q') (P ++ Q) := by
  constructor
  · intro c hc
    rcases List.mem_append.mp hc with h | h
    · exact List.mem_append.mpr (Or.inl (h1.1 c h))
    · exact List.mem_append.mpr (Or.inr (h2.1 c h))
  · intro id
    have := h1.2 id; have := h2.2 id
    simp only [ids_append, List.count_append]; omega

theorem PLe.nil (P : List Cmd) : PLe [] P := ⟨fun _ h => by simp at h, fun _ => by simp⟩

theorem PLe.right (P Q : List Cmd) : PLe Q (P ++ Q) := by
  have := PLe.append (PLe.nil P) (PLe.refl Q)
  simpa using this

theorem PLe.tail (c : Cmd) (P : List Cmd) : PLe P (c :: P) := PLe.right [c] P

theorem PLe.cons (c : Cmd) {P' P : List Cmd} (h : PLe P' P) : PLe (c :: P') (c :: P) :=
  PLe.append (PLe.refl [c]) h

/-- appending at the end of the queue part = consing in front, up to `PLe` -/
theorem PLe.snoc_mid (Q R : List Cmd) (c : Cmd) : PLe ((Q ++ [c]) ++ R) (c :: (Q ++ R)) := by
  constructor
  · intro x hx
    simp only [List.mem_append, List.mem_cons, List.not_mem_nil, or_false] at hx ⊢
    rcases hx with (h | h) | h
    · exact Or.inr (Or.inl h)
    · exact Or.inl h
    · exact Or.inr (Or.inr h)
  · intro id
    rw [ids_cons c (Q ++ R)]
    simp only [ids_append, List.count_append]; omega

theorem PLe.mid (Q R : List Cmd) (c : Cmd) : PLe (Q ++ c :: R) (c :: (Q ++ R)) := by
  constructor
  · intro x hx
    simp only [List.mem_append, List.mem_cons] at hx ⊢
    rcases hx with h | h | h
    · exact Or.inr (Or.inl h)
    · exact Or.inl h
    · exact Or.inr (Or.inr h)
  · intro id
    rw [ids_cons c (Q ++ R), ids_append Q (c :: R), ids_cons c R]
    simp only [ids_append, List.count_append]; omega

theorem mem_ids_of_PLe {P' P : List Cmd} (h : PLe P' P) {id : Nat} (hm : id ∈ ids P') : id ∈ ids P := by
  have h1 : 0 < (ids P').count id := List.count_pos_iff.mpr hm
  have h2 := h.2 id
  exact List.count_pos_iff.mp (by omega)

theorem PendOK.of_le {n : Nat} {kw : AMap Nat WKey} {st : AMap Nat Entry} {P P' : List Cmd}
    (h : PendOK n kw st P) (hle : PLe P' P) : PendOK n kw st P' := by
  refine ⟨fun c hc => h.pos c (hle.1 c hc), fun id hm => h.below id (mem_ids_of_PLe hle hm), ?_,
    fun id hm => h.fresh id (mem_ids_of_PLe hle hm)⟩
  rw [List.nodup_iff_count]
  intro id
  have h1 := (List.nodup_iff_count.mp h.nodup) id
  have h2 := hle.2 id
  omega

theorem PendOK.cons {n : Nat} {kw : AMap Nat WKey} {st : AMap Nat Entry} {P : List Cmd} {c : Cmd}
    (h : PendOK n kw st P) (hpos : c.weightPos)
    (hid : ∀ id, c.putId? = some id →
      id < n ∧ id ∉ ids P ∧ kw.get? id = none ∧ ∀ k e, st.get? k = some e → e.id ≠ id) :
    PendOK n kw st (c :: P) := by
  cases hc : c.putId? with
  | none =>
    have e : ids (c :: P) = ids P := by rw [ids_cons, ids_single_of_none hc]; rfl
    refine ⟨?_, by rw [e]; exact h.below, by rw [e]; exact h.nodup, by rw [e]; exact h.fresh⟩
    intro x hx
    rcases List.mem_cons.mp hx with rfl | hx
    · exact hpos
    · exact h.pos x hx
  | some id =>
    have e : ids (c :: P) = id :: ids P := by rw [ids_cons, ids_single_of_some hc]; rfl
    obtain ⟨h1, h2, h3, h4⟩ := hid id hc
    refine ⟨?_, ?_, ?_, ?_⟩
    · intro x hx
      rcases List.mem_cons.mp hx with rfl | hx
      · exact hpos
      · exact h.pos x hx
    · rw [e]; intro i hi
      rcases List.mem_cons.mp hi with rfl | hi
      · exact h1
      · exact h.below i hi
    · rw [e]; exact List.nodup_cons.mpr ⟨h2, h.nodup⟩
    · rw [e]; intro i hi
      rcases List.mem_cons.mp hi with rfl | hi
      · exact ⟨h3, h4⟩
      · exact h.fresh i hi

/-- The pending part survives any change of `kw` and `store` that does not charge or hold a pending id. -/
theorem PendOK.transfer {n n' : Nat} {kw kw' : AMap Nat WKey} {st st' : AMap Nat Entry} {P : List Cmd}
    (h : PendOK n kw st P) (hn : n ≤ n')
    (hkw : ∀ id ∈ ids P, kw.get? id = none → kw'.get? id = none)
    (hst : ∀ id ∈ ids P, (∀ k e, st.get? k = some e → e.id ≠ id) → ∀ k e, st'.get? k = some e → e.id ≠ id) :
    PendOK n' kw' st' P :=
  ⟨h.pos, fun id hm => Nat.lt_of_lt_of_le (h.below id hm) hn, h.nodup,
    fun id hm => ⟨hkw id hm (h.fresh id hm).1, hst id hm (h.fresh id hm).2⟩⟩

theorem PendOK.mono {n n' : Nat} {kw : AMap Nat WKey} {st : AMap Nat Entry} {P : List Cmd}
    (h : PendOK n kw st P) (hn : n ≤ n') : PendOK n' kw st P :=
  h.transfer hn (fun _ _ h => h) (fun _ _ h => h)

/-- Head of a pending list that is a put: its id is fresh and differs from all the others. -/
theorem PendOK.head {n : Nat} {kw : AMap Nat WKey} {st : AMap Nat Entry} {P : List Cmd} {c : Cmd} {id : Nat}
    (h : PendOK n kw st (c :: P)) (hc : c.putId? = some id) :
    id < n ∧ id ∉ ids P ∧ kw.get? id = none ∧ ∀ k e, st.get? k = some e → e.id ≠ id := by
  have e : ids (c :: P) = id :: ids P := by rw [ids_cons, ids_single_of_some hc]; rfl
  have hm : id ∈ ids (c :: P) := by rw [e]; simp
  have hnd := h.nodup
  rw [e] at hnd
  exact ⟨h.below id hm, (List.nodup_cons.mp hnd).1, (h.fresh id hm).1, (h.fresh id hm).2⟩

/-! ### parked commands under `set` / `del` -/

theorem pendCmds_cons (p : Nat × Pending) (m : AMap Nat Pending) :
    pendCmds (p :: m) = (match p.2 with | .send c => [c] | _ => []) ++ pendCmds m := by
  obtain ⟨k, v⟩ := p
  cases v <;> simp [pendCmds]

theorem pendCmds_set_send (m : AMap Nat Pending) (c : Nat) (cmd : Cmd) :
    pendCmds (m.set c (.send cmd)) = cmd :: pendCmds (m.del c) := by
  simp [AMap.set, pendCmds_cons]

theorem pendCmds_set_shutdownCmd (m : AMap Nat Pending) (c : Nat) :
    pendCmds (m.set c .shutdownCmd) = pendCmds (m.del c) := by
  simp [AMap.set, pendCmds_cons]

theorem pendCmds_set_shutdownBuf (m : AMap Nat Pending) (c : Nat) :
    pendCmds (m.set c .shutdownBuf) = pendCmds (m.del c) := by
  simp [AMap.set, pendCmds_cons]

theorem PLe_pendCmds_del (m : AMap Nat Pending) (c : Nat) : PLe (pendCmds (m.del c)) (pendCmds m) := by
  induction m with
  | nil => exact PLe.refl _
  | cons p rest ih =>
    obtain ⟨k, v⟩ := p
    by_cases hk : k = c
    · simp only [AMap.del, hk, if_true]
      rw [pendCmds_cons]
      exact PLe.trans ih (PLe.right _ _)
    · simp only [AMap.del, hk, if_false]
      rw [pendCmds_cons, pendCmds_cons]
      exact PLe.append (PLe.refl _) ih

/-- Taking a parked `send` out of `pend` and holding its command in hand loses nothing and duplicates nothing. -/
theorem PLe_pendCmds_del_get {m : AMap Nat Pending} {c : Nat} {cmd : Cmd} (h : m.get? c = some (.send cmd)) :
    PLe (cmd :: pendCmds (m.del c)) (pendCmds m) := by
  induction m with
  | nil => simp at h
  | cons p rest ih =>
    obtain ⟨k, v⟩ := p
    by_cases hk : k = c
    · simp only [AMap.get?_cons, hk, if_true, Option.some.injEq] at h
      subst h
      simp only [AMap.del, hk, if_true]
      rw [pendCmds_cons]
      exact PLe.cons cmd (PLe_pendCmds_del rest c)
    · simp only [AMap.get?_cons, hk, if_false] at h
      simp only [AMap.del, hk, if_false]
      rw [pendCmds_cons, pendCmds_cons]
      have h1 := ih h
      -- cmd :: (X ++ D) ≤ X ++ (cmd :: D) ≤ X ++ pendCmds rest
      refine PLe.trans ?_ (PLe.append (PLe.refl _) h1)
      constructor
      · intro x hx
        simp only [List.mem_append, List.mem_cons] at hx ⊢
        rcases hx with h | h | h
        · exact Or.inr (Or.inl h)
        · exact Or.inl h
        · exact Or.inr (Or.inr h)
      · intro id
        generalize (match (k, v).snd with | Pending.send c => [c] | x => []) = X
        rw [ids_cons cmd (X ++ pendCmds (AMap.del rest c)), ids_append X (cmd :: _), ids_cons cmd (pendCmds _)]
        simp only [ids_append, List.count_append]; omega

/-! ### states that agree on what the invariant reads -/

/-- `s'` agrees with `s` on every field the invariant reads. -/
structure Same (s s' : State) : Prop where
  adm : s'.adm = s.adm
  store : s'.store = s.store
  nextId : s'.nextId = s.nextId
  cfg : s'.cfg = s.cfg
  worker : s'.worker = s.worker
  queue : s'.queue = s.queue
  pend : s'.pend = s.pend

theorem Same.refl (s : State) : Same s s := ⟨rfl, rfl, rfl, rfl, rfl, rfl, rfl⟩

theorem Same.trans {s s' s'' : State} (h1 : Same s s') (h2 : Same s' s'') : Same s s'' :=
  ⟨h2.adm.trans h1.adm, h2.store.trans h1.store, h2.nextId.trans h1.nextId, h2.cfg.trans h1.cfg,
   h2.worker.trans h1.worker, h2.queue.trans h1.queue, h2.pend.trans h1.pend⟩

theorem Core.congr {s s' : State} (h : Core s) (e1 : s'.adm = s.adm) (e2 : s'.store = s.store)
    (e3 : s.nextId ≤ s'.nextId) (e4 : s'.cfg = s.cfg) (e5 : s.worker = .dead → s'.worker = .dead) :
    Core s' := by
  obtain ⟨a, b, c, d, e, f, g, i⟩ := h
  refine ⟨by rw [e1]; exact a, by rw [e2]; exact b, by rw [e1]; exact c, by rw [e1]; exact d,
    by rw [e1, e4]; exact e, ?_, ?_, ?_⟩
  · intro id wk hg; rw [e1] at hg; exact Nat.lt_of_lt_of_le (f id wk hg) e3
  · intro k x hg; rw [e2] at hg; exact Nat.lt_of_lt_of_le (g k x hg) e3
  · rcases i with i | i
    · exact Or.inl (e5 i)
    · right; rw [e1, e2]; exact i

theorem Same.pendingCmds {s s' : State} (e : Same s s') : pendingCmds s' = pendingCmds s := by
  simp only [Cached.pendingCmds, e.queue, e.pend]

theorem Inv.same {s s' : State} (h : Inv s) (e : Same s s') : Inv s' := by
  refine inv_iff.mpr ⟨h.core.congr e.adm e.store (Nat.le_of_eq e.nextId.symm) e.cfg (fun w => by rw [e.worker]; exact w), ?_⟩
  rw [e.pendingCmds, e.adm, e.store, e.nextId]
  exact h.pend

/-- Build `Inv s'` from `Core s'` and a pending list that dominates the one of `s'`. -/
theorem Inv.of_le {s' : State} {P : List Cmd} (hc : Core s')
    (hp : PendOK s'.nextId s'.adm.kw s'.store P) (hle : PLe (pendingCmds s') P) : Inv s' :=
  inv_iff.mpr ⟨hc, hp.of_le hle⟩

/-! ### rewriting a stored entry in place (same id) -/

theorem HeldP.touch {kw : AMap Nat WKey} {st : AMap Nat Entry} (h : HeldP kw st) {k : Nat} {e e' : Entry}
    (hg : st.get? k = some e) (hid : e'.id = e.id) : HeldP kw (st.set k e') := by
  obtain ⟨h1, h2⟩ := h
  constructor
  · intro k' x hx
    rw [AMap.get?_set] at hx
    split at hx
    · rename_i hk; subst hk
      simp only [Option.some.injEq] at hx; subst hx
      rw [hid]; exact h1 k e hg
    · exact h1 k' x hx
  · intro id wk hw
    obtain ⟨x, hx, hxid⟩ := h2 id wk hw
    rw [AMap.get?_set]
    split
    · rename_i hk
      rw [← hk, hg] at hx
      simp only [Option.some.injEq] at hx
      subst hx
      exact ⟨e', rfl, by rw [hid, hxid]⟩
    · exact ⟨x, hx, hxid⟩

theorem inv_touch {s : State} (h : Inv s) {k : Nat} {e e' : Entry} (hg : s.store.get? k = some e)
    (hid : e'.id = e.id) : Inv { s with store := s.store.set k e' } := by
  have hc := h.core
  have hp := h.pend
  refine inv_iff.mpr ⟨⟨hc.kwNoDup, AMap.noDup_set hc.storeNoDup _ _, hc.sum, hc.positive, hc.maxFixed,
    hc.kwBelow, ?_, ?_⟩, ?_⟩
  · intro k' x hx
    simp only [AMap.get?_set] at hx
    split at hx
    · simp only [Option.some.injEq] at hx; subst hx
      rw [hid]; exact hc.storeBelow k e hg
    · exact hc.storeBelow k' x hx
  · rcases hc.held with hd | hh
    · exact Or.inl hd
    · exact Or.inr (hh.touch hg hid)
  · refine PendOK.transfer (P := pendingCmds s) hp (Nat.le_refl _) (fun _ _ h => h) ?_
    intro id _ hfr k' x hx
    simp only [AMap.get?_set] at hx
    split at hx
    · simp only [Option.some.injEq] at hx; subst hx
      rw [hid]; exact hfr k e hg
    · exact hfr k' x hx

/-! ### `sendCmd` -/

theorem inv_sendCmd {s : State} (hc : Core s) {cmd : Cmd}
    (hp : PendOK s.nextId s.adm.kw s.store (cmd :: pendingCmds s)) (c : Nat) : Inv (sendCmd s c cmd).1 := by
  unfold sendCmd
  split
  · exact Inv.of_le hc hp (PLe.tail _ _)
  · split
    · refine Inv.of_le (P := cmd :: pendingCmds s) (hc.congr rfl rfl (Nat.le_refl _) rfl id) hp ?_
      simp only [pendingCmds_eq, pendCmds_set_send]
      exact PLe.trans (PLe.mid _ _ _) (PLe.cons _ (PLe.append (PLe.refl _) (PLe_pendCmds_del _ _)))
    · refine Inv.of_le (P := cmd :: pendingCmds s) (hc.congr rfl rfl (Nat.le_refl _) rfl id) hp ?_
      simp only [pendingCmds_eq, List.map_append, List.map_cons, List.map_nil]
      exact PLe.snoc_mid _ _ _

theorem inv_spotAck {s : State} (h : Inv s) (st : Status) : Inv (spotAck s st).1 :=
  h.same ⟨rfl, rfl, rfl, rfl, rfl, rfl, rfl⟩

/-- a command carrying the next fresh id may join the pending list -/
theorem PendOK.cons_fresh {s : State} (hc : Core s) {P : List Cmd}
    (hp : PendOK s.nextId s.adm.kw s.store P) {c : Cmd} (hpos : c.weightPos)
    (hid : ∀ id, c.putId? = some id → id = s.nextId) :
    PendOK (s.nextId + 1) s.adm.kw s.store (c :: P) := by
  refine (hp.mono (Nat.le_succ _)).cons hpos ?_
  intro id h
  have := hid id h
  subst this
  refine ⟨Nat.lt_succ_self _, ?_, ?_, ?_⟩
  · intro hm; exact Nat.lt_irrefl _ (hp.below _ hm)
  · cases hg : s.adm.kw.get? s.nextId with
    | none => rfl
    | some wk => exact absurd (hc.kwBelow _ _ hg) (Nat.lt_irrefl _)
  · intro k e hg heq
    have := hc.storeBelow k e hg
    omega

/-- sending a command that carries the next fresh id (or none), after bumping `nextId` -/
theorem inv_send_fresh {s : State} (h : Inv s) {cmd : Cmd} (hpos : cmd.weightPos)
    (hid : ∀ id, cmd.putId? = some id → id = s.nextId) (c : Nat) :
    Inv (sendCmd { s with nextId := s.nextId + 1 } c cmd).1 :=
  inv_sendCmd (s := { s with nextId := s.nextId + 1 })
    (h.core.congr rfl rfl (Nat.le_succ _) rfl id) (PendOK.cons_fresh h.core h.pend hpos hid) c

/-- sending a command without a put id (delete, update-weight) -/
theorem inv_send_noid {s : State} (h : Inv s) {cmd : Cmd} (hpos : cmd.weightPos)
    (hid : cmd.putId? = none) (c : Nat) : Inv (sendCmd s c cmd).1 :=
  inv_sendCmd h.core (h.pend.cons hpos (fun id hh => by rw [hid] at hh; cases hh)) c

/-! ### client calls -/

theorem inv_clientPutChecked {s : State} (h : Inv s) (c k v : Nat) {w : Int} (hw : 0 < w) (ttl : Option Nat) :
    Inv (clientPutChecked s c k v w ttl).1 := by
  unfold clientPutChecked
  split
  · exact inv_spotAck h _
  · cases ttl with
    | none => exact inv_send_fresh h (cmd := .put s.nextId (s.cfg.hashOf k) w k v) hw (by intro id hh; cases hh; rfl) c
    | some t =>
      exact inv_send_fresh h (cmd := .putTtl s.nextId (s.cfg.hashOf k) w k v t) hw (by intro id hh; cases hh; rfl) c

theorem inv_clientPut {s : State} (h : Inv s) (c k v : Nat) : Inv (clientPut s c k v).1 := by
  unfold clientPut
  dsimp only
  split
  · exact h
  · split
    · exact h
    · exact inv_clientPutChecked h c k v (by omega) none

theorem inv_clientPutW {s : State} (h : Inv s) (c k v : Nat) (w : Int) : Inv (clientPutW s c k v w).1 := by
  unfold clientPutW
  split
  · exact h
  · split
    · exact h
    · exact inv_clientPutChecked h c k v (by omega) none

theorem inv_clientPutTtl {s : State} (h : Inv s) (c k v t : Nat) : Inv (clientPutTtl s c k v t).1 := by
  unfold clientPutTtl
  split
  · exact h
  · dsimp only
    split
    · exact h
    · exact inv_clientPutChecked h c k v (by omega) (some t)

theorem inv_clientPutWTtl {s : State} (h : Inv s) (c k v : Nat) (w : Int) (t : Nat) :
    Inv (clientPutWTtl s c k v w t).1 := by
  unfold clientPutWTtl
  split
  · exact h
  · split
    · exact h
    · exact inv_clientPutChecked h c k v (by omega) (some t)

theorem inv_clientDelete {s : State} (h : Inv s) (c k : Nat) : Inv (clientDelete s c k).1 := by
  unfold clientDelete
  split
  · exact h
  · refine inv_send_noid ?_ (cmd := .delete k) trivial rfl c
    split
    · rename_i e hg
      exact inv_touch h hg rfl
    · exact h

theorem inv_upsert_tail {s2 : State} (h2 : Inv s2) (uw2 : Option Int) (c id : Nat) :
    Inv (match uw2 with
          | some weight =>
            if (!inI64 weight) = true then (s2, Out.panic Panic.weightOverflow)
            else
              if weight ≤ 0 then (s2, Out.panic Panic.weightNotPositive)
              else sendCmd s2 c (Cmd.updateWeight id weight)
          | none => spotAck s2 Status.accepted).1 := by
  split
  · split
    · exact h2
    · split
      · exact h2
      · exact inv_send_noid h2 (cmd := .updateWeight id _) (by simp only [Cmd.weightPos]; omega) rfl c
  · exact inv_spotAck h2 _

theorem inv_clientUpsert {s : State} (h : Inv s) (c k : Nat) (v : Option Nat) (w : Option Int) (ttl : Option Nat)
    (rm : Bool) : Inv (clientUpsert s c k v w ttl rm).1 := by
  unfold clientUpsert
  split
  · exact h
  · extract_lets uw
    clear_value uw
    split
    · split
      · split
        · exact h
        · split
          · exact inv_send_fresh h (cmd := .putTtl s.nextId _ _ _ _ _) (by simp only [Cmd.weightPos]; omega)
              (by intro id hh; cases hh; rfl) c
          · exact inv_send_fresh h (cmd := .put s.nextId _ _ _ _) (by simp only [Cmd.weightPos]; omega)
              (by intro id hh; cases hh; rfl) c
      · exact h
    · rename_i e hg
      extract_lets newExp
      clear_value newExp
      split
      · exact h
      · extract_lets e' s1 existing
        clear_value existing
        have h1 : Inv s1 := inv_touch h hg rfl
        clear_value s1
        split
        rename_i s2 uw2 hpair
        refine inv_upsert_tail ?_ uw2 c _
        split at hpair <;> cases hpair
        · exact h1.same ⟨rfl, rfl, rfl, rfl, rfl, rfl, rfl⟩
        · exact h1.same ⟨rfl, rfl, rfl, rfl, rfl, rfl, rfl⟩
        · exact h1.same ⟨rfl, rfl, rfl, rfl, rfl, rfl, rfl⟩
        · exact h1

/-! ### shutdown and resume -/

theorem PLe.mid' (Q R : List Cmd) (c : Cmd) : PLe (c :: (Q ++ R)) (Q ++ c :: R) := by
  constructor
  · intro x hx
    simp only [List.mem_append, List.mem_cons] at hx ⊢
    rcases hx with h | h | h
    · exact Or.inr (Or.inl h)
    · exact Or.inl h
    · exact Or.inr (Or.inr h)
  · intro id
    rw [ids_cons c (Q ++ R), ids_append Q (c :: R), ids_cons c R]
    simp only [ids_append, List.count_append]; omega

theorem inv_shutdownFinish {s : State} (h : Inv s) : Inv (shutdownFinish s) := by
  have hc := h.core
  refine inv_iff.mpr ⟨⟨AMap.noDup_nil, AMap.noDup_nil, rfl, ?_, hc.maxFixed, ?_, ?_, Or.inr ⟨?_, ?_⟩⟩, ?_⟩
  · intro id wk hg; simp [shutdownFinish] at hg
  · intro id wk hg; simp [shutdownFinish] at hg
  · intro k e hg; simp [shutdownFinish] at hg
  · intro k e hg; simp [shutdownFinish] at hg
  · intro id wk hg; simp [shutdownFinish] at hg
  · refine PendOK.transfer (P := pendingCmds s) h.pend (Nat.le_refl _) (fun _ _ _ => rfl) ?_
    intro id _ _ k e hg
    simp [shutdownFinish] at hg

theorem inv_shutdownSendBuf {s : State} (h : Inv s) (c : Nat) : Inv (shutdownSendBuf s c).1 := by
  unfold shutdownSendBuf
  split
  · exact inv_shutdownFinish h
  · split
    · refine Inv.of_le (P := pendingCmds s) (h.core.congr rfl rfl (Nat.le_refl _) rfl id) h.pend ?_
      simp only [pendingCmds_eq, pendCmds_set_shutdownBuf]
      exact PLe.append (PLe.refl _) (PLe_pendCmds_del _ _)
    · exact inv_shutdownFinish (h.same ⟨rfl, rfl, rfl, rfl, rfl, rfl, rfl⟩)

theorem inv_shutdownSendCmd {s : State} (h : Inv s) (c : Nat) : Inv (shutdownSendCmd s c).1 := by
  unfold shutdownSendCmd
  split
  · exact inv_shutdownSendBuf h c
  · split
    · refine Inv.of_le (P := pendingCmds s) (h.core.congr rfl rfl (Nat.le_refl _) rfl id) h.pend ?_
      simp only [pendingCmds_eq, pendCmds_set_shutdownCmd]
      exact PLe.append (PLe.refl _) (PLe_pendCmds_del _ _)
    · refine inv_shutdownSendBuf ?_ c
      refine Inv.of_le (P := Cmd.shutdown :: pendingCmds s) (h.core.congr rfl rfl (Nat.le_refl _) rfl id)
        (h.pend.cons trivial (fun id hh => by cases hh)) ?_
      simp only [pendingCmds_eq, List.map_append, List.map_cons, List.map_nil]
      exact PLe.snoc_mid _ _ _

theorem inv_clientShutdown {s : State} (h : Inv s) (c : Nat) : Inv (clientShutdown s c).1 := by
  unfold clientShutdown
  split
  · exact h
  · exact inv_shutdownSendCmd (s := { s with shutting := true }) (h.same ⟨rfl, rfl, rfl, rfl, rfl, rfl, rfl⟩) c

theorem inv_resume {s s' : State} {out : Out} (h : Inv s) {c : Nat} (hr : resume s c = .ok (s', out)) : Inv s' := by
  unfold resume at hr
  split at hr
  · cases hr
  · rename_i p hg
    have h0 : Inv { s with pend := s.pend.del c } := by
      refine Inv.of_le (P := pendingCmds s) (h.core.congr rfl rfl (Nat.le_refl _) rfl id) h.pend ?_
      simp only [pendingCmds_eq]
      exact PLe.append (PLe.refl _) (PLe_pendCmds_del _ _)
    dsimp only at hr
    split at hr
    · rename_i cmd
      split at hr
      · cases hr
      · simp only [Except.ok.injEq] at hr
        have e : s' = (sendCmd { s with pend := s.pend.del c } c cmd).1 := by rw [hr]
        rw [e]
        refine inv_sendCmd (s := { s with pend := s.pend.del c }) h0.core ?_ c
        refine PendOK.of_le (P := pendingCmds s) h.pend ?_
        simp only [pendingCmds_eq]
        exact PLe.trans (PLe.mid' _ _ _) (PLe.append (PLe.refl _) (PLe_pendCmds_del_get hg))
    · split at hr
      · cases hr
      · simp only [Except.ok.injEq] at hr
        have e : s' = (shutdownSendCmd { s with pend := s.pend.del c } c).1 := by rw [hr]
        rw [e]
        exact inv_shutdownSendCmd h0 c
    · split at hr
      · cases hr
      · simp only [Except.ok.injEq] at hr
        have e : s' = (shutdownSendBuf { s with pend := s.pend.del c } c).1 := by rw [hr]
        rw [e]
        exact inv_shutdownSendBuf h0 c

/-! ### reads and the access consumer do not touch what the invariant reads -/

theorem same_acceptBuffer (s : State) (hs : List Nat) : Same s (acceptBuffer s hs) := by
  unfold acceptBuffer
  split <;> exact ⟨rfl, rfl, rfl, rfl, rfl, rfl, rfl⟩

theorem same_poolAdd {s s' : State} {h : Nat} {o o' : Oracle} (hp : poolAdd s h o = .ok (s', o')) : Same s s' := by
  unfold poolAdd at hp
  split at hp
  · cases hp
  · split at hp
    · cases hp
    · rename_i buf _
      simp only [Except.ok.injEq, Prod.mk.injEq] at hp
      obtain ⟨hp, _⟩ := hp
      subst hp
      by_cases hb : buf.length ≥ s.cfg.bufSize
      · simp only [hb, if_true]
        exact (same_acceptBuffer s buf).trans ⟨rfl, rfl, rfl, rfl, rfl, rfl, rfl⟩
      · simp only [hb, if_false]
        exact ⟨rfl, rfl, rfl, rfl, rfl, rfl, rfl⟩

theorem same_readKey {s s' : State} {k : Nat} {o o' : Oracle} {v : Option Nat}
    (hr : readKey s k o = .ok (s', v, o')) : Same s s' := by
  unfold readKey at hr
  split at hr
  · split at hr
    · dsimp only at hr
      split at hr
      · rename_i s2 o2 hp
        simp only [Except.ok.injEq, Prod.mk.injEq] at hr
        obtain ⟨rfl, _, _⟩ := hr
        exact Same.trans (s' := { s with stats := { s.stats with hits := s.stats.hits + 1 } }) ⟨rfl, rfl, rfl, rfl, rfl, rfl, rfl⟩ (same_poolAdd hp)
      · cases hr
    · simp only [Except.ok.injEq, Prod.mk.injEq] at hr
      obtain ⟨rfl, _, _⟩ := hr
      exact ⟨rfl, rfl, rfl, rfl, rfl, rfl, rfl⟩
  · simp only [Except.ok.injEq, Prod.mk.injEq] at hr
    obtain ⟨rfl, _, _⟩ := hr
    exact ⟨rfl, rfl, rfl, rfl, rfl, rfl, rfl⟩

theorem same_readKeys : ∀ (ks : List Nat) (s s' : State) (o o' : Oracle) (acc vs : List (Option Nat)),
    readKeys s ks o acc = .ok (s', vs, o') → Same s s' := by
  intro ks
  induction ks with
  | nil =>
    intro s s' o o' acc vs hr
    simp only [readKeys, Except.ok.injEq, Prod.mk.injEq] at hr
    obtain ⟨rfl, _, _⟩ := hr
    exact Same.refl _
  | cons k ks ih =>
    intro s s' o o' acc vs hr
    simp only [readKeys] at hr
    split at hr
    · rename_i s1 v o1 hk
      exact (same_readKey hk).trans (ih _ _ _ _ _ _ hr)
    · cases hr

theorem same_clientGet {s s' : State} {k : Nat} {o o' : Oracle} {out : Out}
    (hr : clientGet s k o = .ok (s', out, o')) : Same s s' := by
  unfold clientGet at hr
  split at hr
  · simp only [Except.ok.injEq, Prod.mk.injEq] at hr
    obtain ⟨rfl, _, _⟩ := hr
    exact Same.refl _
  · split at hr
    · rename_i s1 v o1 hk
      simp only [Except.ok.injEq, Prod.mk.injEq] at hr
      obtain ⟨rfl, _, _⟩ := hr
      exact same_readKey hk
    · cases hr

theorem same_clientMultiGet {s s' : State} {ks : List Nat} {o o' : Oracle} {out : Out}
    (hr : clientMultiGet s ks o = .ok (s', out, o')) : Same s s' := by
  unfold clientMultiGet at hr
  split at hr
  · simp only [Except.ok.injEq, Prod.mk.injEq] at hr
    obtain ⟨rfl, _, _⟩ := hr
    exact Same.refl _
  · split at hr
    · rename_i s1 v o1 hk
      simp only [Except.ok.injEq, Prod.mk.injEq] at hr
      obtain ⟨rfl, _, _⟩ := hr
      exact same_readKeys _ _ _ _ _ _ _ hk
    · cases hr

theorem same_consumerStep {s s' : State} {o o' : Oracle} {out : Out}
    (hr : consumerStep s o = .ok (s', out, o')) : Same s s' := by
  unfold consumerStep at hr
  split at hr
  · cases hr
  · split at hr
    · cases hr
    · simp only [Except.ok.injEq, Prod.mk.injEq] at hr
      obtain ⟨rfl, _, _⟩ := hr
      exact ⟨rfl, rfl, rfl, rfl, rfl, rfl, rfl⟩
    · split at hr
      · cases hr
      · split at hr
        · simp only [Except.ok.injEq, Prod.mk.injEq] at hr
          obtain ⟨rfl, _, _⟩ := hr
          exact ⟨rfl, rfl, rfl, rfl, rfl, rfl, rfl⟩
        · simp only [Except.ok.injEq, Prod.mk.injEq] at hr
          obtain ⟨rfl, _, _⟩ := hr
          exact ⟨rfl, rfl, rfl, rfl, rfl, rfl, rfl⟩

/-! ### un-charging an id together with its key -/

theorem HeldP.remove {kw : AMap Nat WKey} {st : AMap Nat Entry} (h : HeldP kw st) {id : Nat} {wk : WKey}
    (hg : kw.get? id = some wk) : HeldP (kw.del id) (st.del wk.key) := by
  obtain ⟨h1, h2⟩ := h
  constructor
  · intro k e he
    rw [AMap.get?_del] at he
    split at he
    · cases he
    · obtain ⟨wk', hw', hk'⟩ := h1 k e he
      refine ⟨wk', ?_, hk'⟩
      rw [AMap.get?_del]
      grind
  · intro i wk' hw'
    rw [AMap.get?_del] at hw'
    split at hw'
    · cases hw'
    · obtain ⟨e, he, hid⟩ := h2 i wk' hw'
      refine ⟨e, ?_, hid⟩
      rw [AMap.get?_del]
      obtain ⟨e0, he0, hid0⟩ := h2 id wk hg
      grind

theorem applyEvict_store (s : State) (e : Evicted) : (applyEvict s e).store = s.store.del e.2.1 := by
  obtain ⟨id, key, w⟩ := e
  unfold applyEvict
  dsimp only
  split
  · rfl
  · rename_i hc
    have : s.store.get? key = none := by
      simp only [AMap.contains] at hc
      cases hg : s.store.get? key with
      | none => rfl
      | some x => simp [hg] at hc
    exact (AMap.del_of_get?_none this).symm

theorem applyEvict_frame (s : State) (e : Evicted) :
    (applyEvict s e).adm = s.adm ∧ (applyEvict s e).nextId = s.nextId ∧ (applyEvict s e).cfg = s.cfg ∧
    (applyEvict s e).worker = s.worker ∧ (applyEvict s e).queue = s.queue ∧ (applyEvict s e).pend = s.pend ∧
    (applyEvict s e).now = s.now ∧ (applyEvict s e).ttl = s.ttl ∧ (applyEvict s e).acks = s.acks := by
  obtain ⟨id, key, w⟩ := e
  unfold applyEvict
  dsimp only
  split <;> exact ⟨rfl, rfl, rfl, rfl, rfl, rfl, rfl, rfl, rfl⟩

/-- Un-charging an id while the store shrinks: to the store without the key the id was charged for, unless the
    worker is dead (then any sub-store will do: the TTL sweeper keeps a key whose entry carries another id). -/
theorem inv_remove_sub {s s' : State} (h : Inv s) {id : Nat} {wk : WKey} (hg : s.adm.kw.get? id = some wk)
    (hadm : s'.adm = { s.adm with kw := s.adm.kw.del id, used := s.adm.used - wk.weight })
    (hnd : AMap.NoDup s'.store) (hsub : ∀ k e, s'.store.get? k = some e → s.store.get? k = some e)
    (hstore : s.worker ≠ .dead → s'.store = s.store.del wk.key)
    (hnext : s'.nextId = s.nextId) (hcfg : s'.cfg = s.cfg)
    (hworker : s'.worker = s.worker) (hle : PLe (pendingCmds s') (pendingCmds s)) : Inv s' := by
  have hc := h.core
  refine inv_iff.mpr ⟨⟨?_, ?_, ?_, ?_, ?_, ?_, ?_, ?_⟩, ?_⟩
  · rw [hadm]; exact AMap.noDup_del hc.kwNoDup id
  · exact hnd
  · rw [hadm]; simp only; rw [sumW_del hc.kwNoDup hg, hc.sum]
  · rw [hadm]; intro i x hx
    simp only [AMap.get?_del] at hx
    split at hx
    · cases hx
    · exact hc.positive i x hx
  · rw [hadm, hcfg]; exact hc.maxFixed
  · rw [hadm, hnext]; intro i x hx
    simp only [AMap.get?_del] at hx
    split at hx
    · cases hx
    · exact hc.kwBelow i x hx
  · rw [hnext]; intro k e he
    exact hc.storeBelow k e (hsub k e he)
  · rw [hworker]
    rcases hc.held with hd | hh
    · exact Or.inl hd
    · by_cases hd : s.worker = .dead
      · exact Or.inl hd
      · right; rw [hadm, hstore hd]; exact hh.remove hg
  · rw [hnext, hadm]
    refine (h.pend.transfer (Nat.le_refl _) ?_ ?_).of_le hle
    · intro i _ hi; simp only [AMap.get?_del]; split <;> simp [hi]
    · intro i _ hfr k e he
      exact hfr k e (hsub k e he)

/-- Un-charging an id and dropping the key it was charged for (the same key, unless the worker is dead). -/
theorem inv_remove {s s' : State} (h : Inv s) {id : Nat} {wk : WKey} (hg : s.adm.kw.get? id = some wk)
    {k' : Nat} (hk' : s.worker ≠ .dead → k' = wk.key)
    (hadm : s'.adm = { s.adm with kw := s.adm.kw.del id, used := s.adm.used - wk.weight })
    (hstore : s'.store = s.store.del k') (hnext : s'.nextId = s.nextId) (hcfg : s'.cfg = s.cfg)
    (hworker : s'.worker = s.worker) (hle : PLe (pendingCmds s') (pendingCmds s)) : Inv s' := by
  have hc := h.core
  refine inv_iff.mpr ⟨⟨?_, ?_, ?_, ?_, ?_, ?_, ?_, ?_⟩, ?_⟩
  · rw [hadm]; exact AMap.noDup_del hc.kwNoDup id
  · rw [hstore]; exact AMap.noDup_del hc.storeNoDup _
  · rw [hadm]; simp only; rw [sumW_del hc.kwNoDup hg, hc.sum]
  · rw [hadm]; intro i x hx
    simp only [AMap.get?_del] at hx
    split at hx
    · cases hx
    · exact hc.positive i x hx
  · rw [hadm, hcfg]; exact hc.maxFixed
  · rw [hadm, hnext]; intro i x hx
    simp only [AMap.get?_del] at hx
    split at hx
    · cases hx
    · exact hc.kwBelow i x hx
  · rw [hstore, hnext]; intro k e he
    simp only [AMap.get?_del] at he
    split at he
    · cases he
    · exact hc.storeBelow k e he
  · rw [hworker]
    rcases hc.held with hd | hh
    · exact Or.inl hd
    · by_cases hd : s.worker = .dead
      · exact Or.inl hd
      · right; rw [hadm, hstore, hk' hd]; exact hh.remove hg
  · rw [hnext, hadm, hstore]
    refine (h.pend.transfer (Nat.le_refl _) ?_ ?_).of_le hle
    · intro i _ hi; simp only [AMap.get?_del]; split <;> simp [hi]
    · intro i _ hfr k e he
      simp only [AMap.get?_del] at he
      split at he
      · cases he
      · exact hfr k e he

/-! ### the TTL sweeper -/

theorem inv_sweepEvict {s : State} (h : Inv s) (id : Nat) : Inv (sweepEvict s id).1 := by
  rcases sweepEvict_cases s id with h0 | ⟨wk, hg, _, h1⟩
  · rw [h0]; exact h
  · rw [h1]
    dsimp only
    obtain ⟨e1, e2, e3, e4, e5, e6, _⟩ := applyEvictId_frame
      { s with adm := { s.adm with kw := s.adm.kw.del id, used := s.adm.used - wk.weight } } (id, wk.key, wk.weight)
    refine inv_remove_sub h hg e1 (applyEvictId_noDup _ _ h.storeNoDup)
      (fun k e he => applyEvictId_get?_sub
        { s with adm := { s.adm with kw := s.adm.kw.del id, used := s.adm.used - wk.weight } } (id, wk.key, wk.weight) he)
      ?_ e2 e3 e4 ?_
    · -- the worker lives: the key the id is charged for holds an entry with this very id
      intro hd
      rcases h.held with hd' | hh
      · exact absurd hd' hd
      · obtain ⟨en, hen, hid⟩ := hh.2 id wk hg
        rw [applyEvictId_of_get
          (s := { s with adm := { s.adm with kw := s.adm.kw.del id, used := s.adm.used - wk.weight } })
          (e := (id, wk.key, wk.weight)) (en := en) hen hid, applyEvict_store]
    · simp only [pendingCmds, e5, e6]; exact PLe.refl _

theorem sweepEvict_frame (s : State) (id : Nat) :
    (sweepEvict s id).1.ttl = s.ttl ∧ (sweepEvict s id).1.now = s.now := by
  rcases sweepEvict_cases s id with h0 | ⟨wk, _, _, h1⟩
  · rw [h0]; exact ⟨rfl, rfl⟩
  · rw [h1]
    dsimp only
    obtain ⟨_, _, _, _, _, _, e7, e8, _⟩ := applyEvictId_frame
      { s with adm := { s.adm with kw := s.adm.kw.del id, used := s.adm.used - wk.weight } } (id, wk.key, wk.weight)
    exact ⟨e8, e7⟩

theorem inv_sweepEntries : ∀ (l : List ((Nat × Nat) × Nat)) (s : State) (acc : List Evicted), Inv s →
    Inv (sweepEntries s l acc).1 := by
  intro l
  induction l with
  | nil => intro s acc h; exact h
  | cons x l ih =>
    intro s acc h
    obtain ⟨⟨sh, id⟩, ex⟩ := x
    simp only [sweepEntries]
    exact ih _ _ (inv_sweepEvict h id)

theorem inv_sweepStep {s s' : State} {out : Out} (h : Inv s) (hs : sweepStep s = .ok (s', out)) : Inv s' := by
  unfold sweepStep at hs
  split at hs
  · cases hs
  · dsimp only at hs
    simp only [Except.ok.injEq, Prod.mk.injEq] at hs
    obtain ⟨rfl, _⟩ := hs
    exact (inv_sweepEntries _ s [] h).same ⟨rfl, rfl, rfl, rfl, rfl, rfl, rfl⟩

/-! ### held keys and charged ids under eviction and admission -/

theorem HeldP.evict {kw kw' : AMap Nat WKey} {st st' : AMap Nat Entry} (hh : HeldP kw st) (evs : List Evicted)
    (hev : ∀ e ∈ evs, ∃ h, kw.get? e.1 = some ⟨e.2.1, h, e.2.2⟩)
    (hkw : ∀ i, kw'.get? i = if i ∈ evs.map (·.1) then none else kw.get? i)
    (hst : ∀ k, st'.get? k = if k ∈ evs.map (·.2.1) then none else st.get? k) : HeldP kw' st' := by
  obtain ⟨h1, h2⟩ := hh
  constructor
  · intro k e he
    rw [hst k] at he
    split at he
    · cases he
    · rename_i hk
      obtain ⟨wk, hw, hkey⟩ := h1 k e he
      refine ⟨wk, ?_, hkey⟩
      rw [hkw e.id]
      split
      · rename_i hmem
        obtain ⟨ev, hevm, heq⟩ := List.mem_map.mp hmem
        obtain ⟨hsh, hg⟩ := hev ev hevm
        rw [heq, hw] at hg
        simp only [Option.some.injEq] at hg
        exfalso; apply hk
        refine List.mem_map.mpr ⟨ev, hevm, ?_⟩
        rw [← hkey, hg]
      · exact hw
  · intro i wk hw
    rw [hkw i] at hw
    split at hw
    · cases hw
    · rename_i hi
      obtain ⟨e, he, hid⟩ := h2 i wk hw
      refine ⟨e, ?_, hid⟩
      rw [hst wk.key]
      split
      · rename_i hmem
        obtain ⟨ev, hevm, heq⟩ := List.mem_map.mp hmem
        obtain ⟨hsh, hg⟩ := hev ev hevm
        obtain ⟨e2, he2, hid2⟩ := h2 _ _ hg
        simp only at he2 heq
        rw [heq, he] at he2
        simp only [Option.some.injEq] at he2
        exfalso; apply hi
        refine List.mem_map.mpr ⟨ev, hevm, ?_⟩
        rw [← hid2, ← he2, hid]
      · exact he

theorem HeldP.add {kw kw' : AMap Nat WKey} {st st' : AMap Nat Entry} (hh : HeldP kw st) {id k hash : Nat} {w : Int}
    {entry : Entry} (hk : st.get? k = none)
    (hids : ∀ k e, st.get? k = some e → e.id ≠ id) (hentry : entry.id = id)
    (hkw : ∀ i, kw'.get? i = if i = id then some ⟨k, hash, w⟩ else kw.get? i)
    (hst : ∀ k', st'.get? k' = if k = k' then some entry else st.get? k') : HeldP kw' st' := by
  obtain ⟨h1, h2⟩ := hh
  constructor
  · intro k' e he
    rw [hst k'] at he
    split at he
    · rename_i hkk
      simp only [Option.some.injEq] at he
      subst he
      exact ⟨⟨k, hash, w⟩, by rw [hkw, hentry]; simp, hkk⟩
    · obtain ⟨wk, hw, hkey⟩ := h1 k' e he
      refine ⟨wk, ?_, hkey⟩
      rw [hkw e.id]
      have := hids k' e he
      simp [this, hw]
  · intro i wk hw
    rw [hkw i] at hw
    split at hw
    · rename_i hi
      simp only [Option.some.injEq] at hw
      subst hw
      exact ⟨entry, by rw [hst]; simp, by rw [hentry, hi]⟩
    · obtain ⟨e, he, hid'⟩ := h2 i wk hw
      refine ⟨e, ?_, hid'⟩
      rw [hst wk.key]
      have : ¬ k = wk.key := by
        intro heq; rw [← heq, hk] at he; cases he
      simp [this, he]

/-! ### the worker: put -/

/-- the store after the delete hooks of the evictions -/
theorem foldl_applyEvict (evs : List Evicted) : ∀ s : State,
    (evs.foldl applyEvict s).store = AMap.delKeys s.store (evs.map (·.2.1)) ∧
    (evs.foldl applyEvict s).adm = s.adm ∧ (evs.foldl applyEvict s).nextId = s.nextId ∧
    (evs.foldl applyEvict s).cfg = s.cfg ∧ (evs.foldl applyEvict s).worker = s.worker ∧
    (evs.foldl applyEvict s).queue = s.queue ∧ (evs.foldl applyEvict s).pend = s.pend := by
  induction evs with
  | nil => intro s; exact ⟨rfl, rfl, rfl, rfl, rfl, rfl, rfl⟩
  | cons e evs ih =>
    intro s
    obtain ⟨a1, a2, a3, a4, a5, a6, a7⟩ := ih (applyEvict s e)
    obtain ⟨b1, b2, b3, b4, b5, b6, _⟩ := applyEvict_frame s e
    simp only [List.foldl_cons, List.map_cons, AMap.delKeys_cons]
    refine ⟨by rw [a1, applyEvict_store], a2.trans b1, a3.trans b2, a4.trans b3, a5.trans b4, a6.trans b5, a7.trans b6⟩

/-- The state after the worker executed a put whose admission result is `r` (three possible shapes of `s'`). -/
theorem inv_put_final {s s' : State} {cmd : Cmd} {P : List Cmd} {id k hash : Nat} {w : Int} {r : AdmResult}
    (hc : Core s) (hp : PendOK s.nextId s.adm.kw s.store (cmd :: P)) (hcid : cmd.putId? = some id) (hw : 0 < w)
    (sp : AddSpec s.adm id k hash w r) (hk : s.store.get? k = none)
    (hadm : s'.adm = r.adm) (hnext : s'.nextId = s.nextId) (hcfg : s'.cfg = s.cfg)
    (hle : PLe (pendingCmds s') P)
    (hcase :
      (r.status = .accepted ∧ s'.worker = s.worker ∧ ∃ entry : Entry, entry.id = id ∧
        s'.store = (AMap.delKeys s.store (r.evicted.map (·.2.1))).set k entry) ∨
      (r.status ≠ .accepted ∧ s'.worker = s.worker ∧ s'.store = AMap.delKeys s.store (r.evicted.map (·.2.1))) ∨
      (s'.worker = .dead ∧ s'.store = AMap.delKeys s.store (r.evicted.map (·.2.1)))) : Inv s' := by
  obtain ⟨hidn, hidP, hidkw, hidst⟩ := hp.head hcid
  have hpP : PendOK s.nextId s.adm.kw s.store P := hp.of_le (PLe.tail _ _)
  have F1 : ∀ k' e, (AMap.delKeys s.store (r.evicted.map (·.2.1))).get? k' = some e → s.store.get? k' = some e := by
    intro k' e he
    rw [AMap.get?_delKeys] at he
    split at he
    · cases he
    · exact he
  have hst1 : AMap.NoDup (AMap.delKeys s.store (r.evicted.map (·.2.1))) := AMap.noDup_delKeys hc.storeNoDup _
  -- facts about the store of `s'`, by case
  have hstore : AMap.NoDup s'.store ∧
      (∀ k' e, s'.store.get? k' = some e → e.id = id ∨ s.store.get? k' = some e) := by
    rcases hcase with ⟨_, _, entry, hent, hs⟩ | ⟨_, _, hs⟩ | ⟨_, hs⟩
    · rw [hs]
      refine ⟨AMap.noDup_set hst1 _ _, ?_⟩
      intro k' e he
      rw [AMap.get?_set] at he
      split at he
      · simp only [Option.some.injEq] at he; subst he; exact Or.inl hent
      · exact Or.inr (F1 k' e he)
    · rw [hs]; exact ⟨hst1, fun k' e he => Or.inr (F1 k' e he)⟩
    · rw [hs]; exact ⟨hst1, fun k' e he => Or.inr (F1 k' e he)⟩
  have hkwget : ∀ i wk, r.adm.kw.get? i = some wk → i = id ∨ s.adm.kw.get? i = some wk := by
    intro i wk hg
    rw [sp.get i] at hg
    split at hg
    · rename_i h; exact Or.inl h.1
    · split at hg
      · cases hg
      · exact Or.inr hg
  refine inv_iff.mpr ⟨⟨?_, hstore.1, ?_, ?_, ?_, ?_, ?_, ?_⟩, ?_⟩
  · rw [hadm]; exact sp.noDup
  · rw [hadm]; exact sp.sum
  · rw [hadm]; exact sp.pos hc.positive hw
  · rw [hadm, hcfg, sp.max]; exact hc.maxFixed
  · rw [hadm, hnext]; intro i wk hg
    rcases hkwget i wk hg with rfl | h
    · exact hidn
    · exact hc.kwBelow i wk h
  · rw [hnext]; intro k' e he
    rcases hstore.2 k' e he with h | h
    · rw [h]; exact hidn
    · exact hc.storeBelow k' e h
  · -- held
    rcases hc.held with hd | hh
    · left
      rcases hcase with ⟨_, hwk, _⟩ | ⟨_, hwk, _⟩ | ⟨hwk, _⟩
      · rw [hwk]; exact hd
      · rw [hwk]; exact hd
      · exact hwk
    · rcases hcase with ⟨hacc, _, entry, hent, hs⟩ | ⟨hacc, _, hs⟩ | ⟨hwk, _⟩
      · right
        rw [hadm, hs]
        have hmid : HeldP (AMap.delKeys s.adm.kw (r.evicted.map (·.1)))
            (AMap.delKeys s.store (r.evicted.map (·.2.1))) :=
          hh.evict r.evicted sp.evIn (fun i => AMap.get?_delKeys _ _ _) (fun k => AMap.get?_delKeys _ _ _)
        refine hmid.add (id := id) (k := k) (hash := hash) (w := w) (entry := entry) ?_ ?_ hent ?_ ?_
        · rw [AMap.get?_delKeys]; simp [hk]
        · intro k' e he; exact hidst k' e (F1 k' e he)
        · intro i
          rw [sp.get i, AMap.get?_delKeys]
          simp [hacc]
        · intro k'; rw [AMap.get?_set]
      · right
        rw [hadm, hs]
        refine hh.evict r.evicted sp.evIn ?_ (fun k => AMap.get?_delKeys _ _ _)
        intro i
        rw [sp.get i]
        simp [hacc]
      · exact Or.inl hwk
  · rw [hnext, hadm]
    refine (hpP.transfer (Nat.le_refl _) ?_ ?_).of_le hle
    · intro i hi hnone
      cases hg : r.adm.kw.get? i with
      | none => rfl
      | some wk =>
        rcases hkwget i wk hg with rfl | h
        · exact absurd hi hidP
        · rw [hnone] at h; cases h
    · intro i hi hfr k' e he
      rcases hstore.2 k' e he with h | h
      · intro heq; rw [h] at heq; subst heq; exact hidP hi
      · exact hfr k' e h

/-- the state the worker loop continues from (up to the acknowledgement): a panic kills the worker and drops the queue -/
def Exec.kill : Exec → State
  | .done s _ _ _ _ => s
  | .panicked s _ => { s with worker := .dead, queue := [] }

theorem inv_kill {s s' : State} {P : List Cmd} (hc : Core s) (hp : PendOK s.nextId s.adm.kw s.store P)
    (hle : PLe (pendCmds s.pend) P)
    (e1 : s'.adm = s.adm) (e2 : s'.store = s.store) (e3 : s'.nextId = s.nextId) (e4 : s'.cfg = s.cfg)
    (e5 : s'.worker = .dead) (e6 : s'.queue = []) (e7 : s'.pend = s.pend) : Inv s' := by
  refine Inv.of_le (P := P) (hc.congr e1 e2 (Nat.le_of_eq e3.symm) e4 (fun _ => e5)) ?_ ?_
  · rw [e1, e2, e3]; exact hp
  · simp only [pendingCmds_eq, e6, e7, List.map_nil, List.nil_append]; exact hle

theorem inv_workerPut {s : State} {cmd : Cmd} {id hash : Nat} {w : Int} {k v : Nat} {ttl : Option Nat}
    {o o' : Oracle} {ex : Exec} (hc : Core s)
    (hp : PendOK s.nextId s.adm.kw s.store (cmd :: pendingCmds s)) (hcid : cmd.putId? = some id) (hw : 0 < w)
    (h : workerPut s id hash w k v ttl o = .ok (ex, o')) : Inv ex.kill := by
  unfold workerPut at h
  split at h
  · simp only [Except.ok.injEq, Prod.mk.injEq] at h
    obtain ⟨rfl, _⟩ := h
    exact Inv.of_le hc hp (PLe.tail _ _)
  · rename_i hcont
    have hk : s.store.get? k = none := by
      simp only [AMap.contains] at hcont
      cases hg : s.store.get? k with
      | none => rfl
      | some x => simp [hg] at hcont
    split at h
    · cases h
    · rename_i r hm
      have sp := maybeAdd_spec hc.kwNoDup hc.sum (hp.head hcid).2.2.1 hm
      obtain ⟨f1, f2, f3, f4, f5, f6, f7⟩ := foldl_applyEvict r.evicted { s with adm := r.adm }
      dsimp only at h
      split at h
      · -- the worker panicked in `is_space_available_for`: it dies with the evictions made so far, nothing was added
        rename_i hov
        simp only [Except.ok.injEq, Prod.mk.injEq] at h
        obtain ⟨rfl, _⟩ := h
        refine inv_put_final hc hp hcid hw sp hk (s' := Exec.kill (.panicked _ _)) f2 f3 f4 ?_
          (Or.inr (Or.inr ⟨rfl, f1⟩))
        simp only [pendingCmds, Exec.kill, f7, List.map_nil, List.nil_append]
        exact PLe.right _ _
      split at h
      · rename_i hacc
        split at h
        · simp only [Except.ok.injEq, Prod.mk.injEq] at h
          obtain ⟨rfl, _⟩ := h
          refine inv_put_final hc hp hcid hw sp hk (s' := Exec.kill (.done _ _ _ _ _)) f2 f3 f4 ?_
            (Or.inl ⟨hacc, f5, { value := v, id := id, expiry := none, soft := false }, rfl, ?_⟩)
          · simp only [pendingCmds, Exec.kill, f6, f7]; exact PLe.refl _
          · simp only [Exec.kill, f1]
        · split at h
          · simp only [Except.ok.injEq, Prod.mk.injEq] at h
            obtain ⟨rfl, _⟩ := h
            refine inv_put_final hc hp hcid hw sp hk (s' := Exec.kill (.panicked _ _)) f2 f3 f4 ?_
              (Or.inr (Or.inr ⟨rfl, f1⟩))
            simp only [pendingCmds, Exec.kill, f7, List.map_nil, List.nil_append]
            exact PLe.right _ _
          · rename_i e _
            simp only [Except.ok.injEq, Prod.mk.injEq] at h
            obtain ⟨rfl, _⟩ := h
            refine inv_put_final hc hp hcid hw sp hk (s' := Exec.kill (.done _ _ _ _ _)) f2 f3 f4 ?_
              (Or.inl ⟨hacc, f5, { value := v, id := id, expiry := some e, soft := false }, rfl, ?_⟩)
            · simp only [pendingCmds, Exec.kill, ttlPut, f6, f7]; exact PLe.refl _
            · simp only [Exec.kill, ttlPut, f1]
      · rename_i hacc
        simp only [Except.ok.injEq, Prod.mk.injEq] at h
        obtain ⟨rfl, _⟩ := h
        refine inv_put_final hc hp hcid hw sp hk (s' := Exec.kill (.done _ _ _ _ _)) f2 f3 f4 ?_
          (Or.inr (Or.inl ⟨hacc, f5, f1⟩))
        simp only [pendingCmds, Exec.kill, f6, f7]; exact PLe.refl _

/-! ### the worker: update-weight and delete -/

theorem HeldP.reweigh {kw : AMap Nat WKey} {st : AMap Nat Entry} (hh : HeldP kw st) {id : Nat} {wk : WKey}
    (hg : kw.get? id = some wk) (w : Int) : HeldP (kw.set id { wk with weight := w }) st := by
  obtain ⟨h1, h2⟩ := hh
  constructor
  · intro k e he
    obtain ⟨wk', hw', hk'⟩ := h1 k e he
    rw [AMap.get?_set]
    split
    · rename_i hi
      rw [← hi, hg] at hw'
      simp only [Option.some.injEq] at hw'
      subst hw'
      exact ⟨_, rfl, hk'⟩
    · exact ⟨wk', hw', hk'⟩
  · intro i wk' hw'
    rw [AMap.get?_set] at hw'
    split at hw'
    · rename_i hi
      simp only [Option.some.injEq] at hw'
      subst hw'; subst hi
      exact h2 id wk hg
    · exact h2 i wk' hw'

theorem inv_workerUpdateWeight {s : State} {P : List Cmd} (hc : Core s)
    (hp : PendOK s.nextId s.adm.kw s.store P) (hle : PLe (pendingCmds s) P)
    (id : Nat) {w : Int} (hw : 0 < w) : Inv (workerUpdateWeight s id w).kill := by
  unfold workerUpdateWeight
  split
  · exact Inv.of_le hc hp hle
  · rename_i wk hg
    dsimp only
    split
    · refine inv_kill hc hp ?_ rfl rfl rfl rfl rfl rfl rfl
      exact PLe.trans (PLe.right _ _) hle
    · simp only [Exec.kill]
      refine Inv.of_le (P := P) ⟨AMap.noDup_set hc.kwNoDup _ _, hc.storeNoDup, ?_, ?_, hc.maxFixed, ?_,
        hc.storeBelow, ?_⟩ ?_ hle
      · simp only [sumW_set, sumW_del hc.kwNoDup hg, hc.sum]; omega
      · intro i x hx
        simp only [AMap.get?_set] at hx
        split at hx
        · simp only [Option.some.injEq] at hx; subst hx; exact hw
        · exact hc.positive i x hx
      · intro i x hx
        simp only [AMap.get?_set] at hx
        split at hx
        · rename_i hi; subst hi; exact hc.kwBelow _ _ hg
        · exact hc.kwBelow i x hx
      · rcases hc.held with hd | hh
        · exact Or.inl hd
        · exact Or.inr (hh.reweigh hg w)
      · refine hp.transfer (Nat.le_refl _) ?_ (fun _ _ h => h)
        intro i _ hi
        simp only [AMap.get?_set]
        split
        · rename_i h; subst h; rw [hg] at hi; cases hi
        · exact hi

theorem inv_workerDelete {s : State} (h : Inv s) (hw : s.worker ≠ .dead) (k : Nat) :
    Inv (workerDelete s k).kill := by
  unfold workerDelete
  split
  · exact h
  · rename_i e he
    dsimp only
    have hh : HeldP s.adm.kw s.store := by
      rcases h.held with hd | hh
      · exact absurd hd hw
      · exact hh
    obtain ⟨wk, hg, hkey⟩ := hh.1 k e he
    rw [Adm.delete_some hg]
    dsimp only
    cases hx : e.expiry with
    | none =>
      dsimp only [Exec.kill]
      exact inv_remove h hg (k' := k) (fun _ => hkey.symm) rfl rfl rfl rfl rfl (PLe.refl _)
    | some x =>
      dsimp only [Exec.kill, ttlDelete]
      exact inv_remove h hg (k' := k) (fun _ => hkey.symm) rfl rfl rfl rfl rfl (PLe.refl _)

/-! ### one step of the worker -/

theorem inv_pop {s : State} (h : Inv s) {c : Cmd × Option Nat} {q : List (Cmd × Option Nat)}
    (hq : s.queue = c :: q) :
    Core { s with queue := q } ∧
    PendOK s.nextId s.adm.kw s.store (c.1 :: pendingCmds { s with queue := q }) := by
  refine ⟨h.core.congr rfl rfl (Nat.le_refl _) rfl id, ?_⟩
  have := h.pend
  simp only [pendingCmds_eq, hq, List.map_cons, List.cons_append] at this
  exact this

theorem inv_workerStep {s s' : State} {o o' : Oracle} {out : Out} (h : Inv s)
    (hs : workerStep s o = .ok (s', out, o')) : Inv s' := by
  unfold workerStep at hs
  split at hs
  · cases hs
  · cases hs
  · rename_i c hh q hw hq
    simp only [Except.ok.injEq, Prod.mk.injEq] at hs
    obtain ⟨rfl, _, _⟩ := hs
    obtain ⟨hc, hp⟩ := inv_pop h hq
    exact (Inv.of_le hc hp (PLe.tail _ _)).same ⟨rfl, rfl, rfl, rfl, rfl, rfl, rfl⟩
  · rename_i cmd hh q hw hq
    obtain ⟨hc, hp⟩ := inv_pop h hq
    have hpos := hp.pos _ (List.mem_cons_self)
    dsimp only at hs
    split at hs
    · -- shutdown
      simp only [Except.ok.injEq, Prod.mk.injEq] at hs
      obtain ⟨rfl, _, _⟩ := hs
      refine Inv.of_le (hc.congr rfl rfl (Nat.le_refl _) rfl ?_) hp (PLe.tail _ _)
      intro hd; rw [hw] at hd; cases hd
    · -- put
      split at hs
      · rename_i r hr
        obtain ⟨ex, o1⟩ := r
        have hk := inv_workerPut hc hp rfl hpos hr
        cases ex with
        | done s1 st ie pp ev =>
          simp only [Except.ok.injEq, Prod.mk.injEq] at hs
          obtain ⟨rfl, _, _⟩ := hs
          exact hk.same ⟨rfl, rfl, rfl, rfl, rfl, rfl, rfl⟩
        | panicked s1 p =>
          simp only [Except.ok.injEq, Prod.mk.injEq] at hs
          obtain ⟨rfl, _, _⟩ := hs
          exact hk
      · cases hs
    · -- putTtl
      split at hs
      · rename_i r hr
        obtain ⟨ex, o1⟩ := r
        have hk := inv_workerPut hc hp rfl hpos hr
        cases ex with
        | done s1 st ie pp ev =>
          simp only [Except.ok.injEq, Prod.mk.injEq] at hs
          obtain ⟨rfl, _, _⟩ := hs
          exact hk.same ⟨rfl, rfl, rfl, rfl, rfl, rfl, rfl⟩
        | panicked s1 p =>
          simp only [Except.ok.injEq, Prod.mk.injEq] at hs
          obtain ⟨rfl, _, _⟩ := hs
          exact hk
      · cases hs
    · -- updateWeight
      rename_i id w
      have hk := inv_workerUpdateWeight hc hp (PLe.tail _ _) id hpos
      split at hs
      · rename_i s1 st ie pp ev o1 heq
        simp only [Prod.mk.injEq] at heq
        simp only [Except.ok.injEq, Prod.mk.injEq] at hs
        obtain ⟨rfl, _, _⟩ := hs
        rw [heq.1] at hk
        exact hk.same ⟨rfl, rfl, rfl, rfl, rfl, rfl, rfl⟩
      · rename_i s1 p o1 heq
        simp only [Prod.mk.injEq] at heq
        simp only [Except.ok.injEq, Prod.mk.injEq] at hs
        obtain ⟨rfl, _, _⟩ := hs
        rw [heq.1] at hk
        exact hk
    · -- delete
      rename_i k
      have hk := inv_workerDelete (Inv.of_le hc hp (PLe.tail _ _)) (by simp only [hw]; intro hd; cases hd) k
      split at hs
      · rename_i s1 st ie pp ev o1 heq
        simp only [Prod.mk.injEq] at heq
        simp only [Except.ok.injEq, Prod.mk.injEq] at hs
        obtain ⟨rfl, _, _⟩ := hs
        rw [heq.1] at hk
        exact hk.same ⟨rfl, rfl, rfl, rfl, rfl, rfl, rfl⟩
      · rename_i s1 p o1 heq
        simp only [Prod.mk.injEq] at heq
        simp only [Except.ok.injEq, Prod.mk.injEq] at hs
        obtain ⟨rfl, _, _⟩ := hs
        rw [heq.1] at hk
        exact hk

/-! ### initial state, every event, every reachable state -/

theorem inv_init (cfg : Cfg) (now : Nat) (seeds : List Nat) : Inv (State.init cfg now seeds) := by
  refine ⟨AMap.noDup_nil, AMap.noDup_nil, rfl, ?_, rfl, ?_, ⟨?_, ?_, ?_⟩, ⟨?_, ?_⟩, Or.inr ⟨?_, ?_⟩⟩
  all_goals simp [State.init, pendingCmds, pendingIds]

/-- **Every event preserves the accounting invariant.** -/
theorem inv_step {s s' : State} {ev : Ev} {o o' : Oracle} {out : Out} (h : Inv s)
    (hs : step s ev o = .ok (s', out, o')) : Inv s' := by
  unfold step at hs
  cases ev with
  | put c k v =>
    simp only [Except.ok.injEq, Prod.mk.injEq] at hs; obtain ⟨rfl, _, _⟩ := hs; exact inv_clientPut h c k v
  | putW c k v w =>
    simp only [Except.ok.injEq, Prod.mk.injEq] at hs; obtain ⟨rfl, _, _⟩ := hs; exact inv_clientPutW h c k v w
  | putTtl c k v t =>
    simp only [Except.ok.injEq, Prod.mk.injEq] at hs; obtain ⟨rfl, _, _⟩ := hs; exact inv_clientPutTtl h c k v t
  | putWTtl c k v w t =>
    simp only [Except.ok.injEq, Prod.mk.injEq] at hs; obtain ⟨rfl, _, _⟩ := hs; exact inv_clientPutWTtl h c k v w t
  | upsert c k v w t rm =>
    simp only [Except.ok.injEq, Prod.mk.injEq] at hs; obtain ⟨rfl, _, _⟩ := hs; exact inv_clientUpsert h c k v w t rm
  | delete c k =>
    simp only [Except.ok.injEq, Prod.mk.injEq] at hs; obtain ⟨rfl, _, _⟩ := hs; exact inv_clientDelete h c k
  | get k => exact h.same (same_clientGet hs)
  | multiGet ks => exact h.same (same_clientMultiGet hs)
  | weight => simp only [Except.ok.injEq, Prod.mk.injEq] at hs; obtain ⟨rfl, _, _⟩ := hs; exact h
  | stats => simp only [Except.ok.injEq, Prod.mk.injEq] at hs; obtain ⟨rfl, _, _⟩ := hs; exact h
  | worker => exact inv_workerStep h hs
  | sweep =>
    dsimp only at hs
    split at hs
    · rename_i r hr
      simp only [Except.ok.injEq, Prod.mk.injEq] at hs; obtain ⟨rfl, _, _⟩ := hs
      exact inv_sweepStep h (out := r.2) hr
    · cases hs
  | consumer => exact h.same (same_consumerStep hs)
  | advance d =>
    simp only [Except.ok.injEq, Prod.mk.injEq] at hs; obtain ⟨rfl, _, _⟩ := hs
    exact h.same ⟨rfl, rfl, rfl, rfl, rfl, rfl, rfl⟩
  | shutdown c =>
    simp only [Except.ok.injEq, Prod.mk.injEq] at hs; obtain ⟨rfl, _, _⟩ := hs; exact inv_clientShutdown h c
  | resume c =>
    dsimp only at hs
    split at hs
    · rename_i r hr
      simp only [Except.ok.injEq, Prod.mk.injEq] at hs; obtain ⟨rfl, _, _⟩ := hs
      exact inv_resume h (out := r.2) hr
    · cases hs
  | poll hh =>
    dsimp only at hs
    split at hs
    · simp only [Except.ok.injEq, Prod.mk.injEq] at hs; obtain ⟨rfl, _, _⟩ := hs; exact h
    · cases hs

/-- states reachable from the initial one by legal events -/
inductive Reach (cfg : Cfg) (now : Nat) (seeds : List Nat) : State → Prop where
  | init : Reach cfg now seeds (State.init cfg now seeds)
  | step {s s' : State} {ev : Ev} {o o' : Oracle} {out : Out} :
      Reach cfg now seeds s → Cached.step s ev o = .ok (s', out, o') → Reach cfg now seeds s'

theorem inv_reach {cfg : Cfg} {now : Nat} {seeds : List Nat} {s : State} (h : Reach cfg now seeds s) : Inv s := by
  induction h with
  | init => exact inv_init cfg now seeds
  | step _ hs ih => exact inv_step ih hs

/-! ### running event lists; what events other than the worker do to the total (for C01) -/

/-- run a list of events, each with its oracle -/
def runEvents (s : State) : List (Ev × Oracle) → Except String State
  | [] => .ok s
  | (ev, o) :: rest =>
    match step s ev o with
    | .ok (s', _, _) => runEvents s' rest
    | .error m => .error m

theorem reach_runEvents {cfg : Cfg} {now : Nat} {seeds : List Nat} :
    ∀ (l : List (Ev × Oracle)) {s s' : State}, Reach cfg now seeds s → runEvents s l = .ok s' →
      Reach cfg now seeds s' := by
  intro l
  induction l with
  | nil => intro s s' h hr; simp only [runEvents, Except.ok.injEq] at hr; subst hr; exact h
  | cons x l ih =>
    intro s s' h hr
    obtain ⟨ev, o⟩ := x
    simp only [runEvents] at hr
    split at hr
    · rename_i s1 out o1 hs
      exact ih (Reach.step h hs) hr
    · cases hr

theorem Inv.used_nonneg {s : State} (h : Inv s) : 0 ≤ s.adm.used := by
  rw [h.sum]; exact sumW_nonneg h.kwNoDup h.positive

/-- `cfg` and the limit are untouched and the total is not raised -/
structure NoGrow (s s' : State) : Prop where
  cfg : s'.cfg = s.cfg
  max : s'.adm.max = s.adm.max
  used : s'.adm.used ≤ s.adm.used

theorem NoGrow.refl (s : State) : NoGrow s s := ⟨rfl, rfl, Int.le_refl _⟩

theorem NoGrow.trans {s s' s'' : State} (h1 : NoGrow s s') (h2 : NoGrow s' s'') : NoGrow s s'' :=
  ⟨h2.cfg.trans h1.cfg, h2.max.trans h1.max, Int.le_trans h2.used h1.used⟩

theorem NoGrow.of_adm {s s' : State} (h1 : s'.adm = s.adm) (h2 : s'.cfg = s.cfg) : NoGrow s s' :=
  ⟨h2, by rw [h1], by rw [h1]; exact Int.le_refl _⟩

theorem NoGrow.of_same {s s' : State} (h : Same s s') : NoGrow s s' := NoGrow.of_adm h.adm h.cfg

theorem noGrow_sendCmd (s : State) (c : Nat) (cmd : Cmd) : NoGrow s (sendCmd s c cmd).1 := by
  unfold sendCmd
  split
  · exact NoGrow.refl _
  · split <;> exact NoGrow.of_adm rfl rfl

theorem noGrow_clientPutChecked (s : State) (c k v : Nat) (w : Int) (ttl : Option Nat) :
    NoGrow s (clientPutChecked s c k v w ttl).1 := by
  unfold clientPutChecked
  split
  · exact NoGrow.of_adm rfl rfl
  · cases ttl with
    | none =>
      dsimp only
      exact (NoGrow.of_adm (s := s) (s' := { s with nextId := s.nextId + 1 }) rfl rfl).trans (noGrow_sendCmd _ _ _)
    | some t =>
      dsimp only
      exact (NoGrow.of_adm (s := s) (s' := { s with nextId := s.nextId + 1 }) rfl rfl).trans (noGrow_sendCmd _ _ _)

theorem noGrow_clientPut (s : State) (c k v : Nat) : NoGrow s (clientPut s c k v).1 := by
  unfold clientPut
  dsimp only
  split
  · exact NoGrow.refl _
  · split
    · exact NoGrow.refl _
    · exact noGrow_clientPutChecked _ _ _ _ _ _

theorem noGrow_clientPutW (s : State) (c k v : Nat) (w : Int) : NoGrow s (clientPutW s c k v w).1 := by
  unfold clientPutW
  split
  · exact NoGrow.refl _
  · split
    · exact NoGrow.refl _
    · exact noGrow_clientPutChecked _ _ _ _ _ _

theorem noGrow_clientPutTtl (s : State) (c k v t : Nat) : NoGrow s (clientPutTtl s c k v t).1 := by
  unfold clientPutTtl
  split
  · exact NoGrow.refl _
  · dsimp only
    split
    · exact NoGrow.refl _
    · exact noGrow_clientPutChecked _ _ _ _ _ _

theorem noGrow_clientPutWTtl (s : State) (c k v : Nat) (w : Int) (t : Nat) :
    NoGrow s (clientPutWTtl s c k v w t).1 := by
  unfold clientPutWTtl
  split
  · exact NoGrow.refl _
  · split
    · exact NoGrow.refl _
    · exact noGrow_clientPutChecked _ _ _ _ _ _

theorem noGrow_clientDelete (s : State) (c k : Nat) : NoGrow s (clientDelete s c k).1 := by
  unfold clientDelete
  split
  · exact NoGrow.refl _
  · extract_lets store
    exact (NoGrow.of_adm (s := s) (s' := { s with store := store }) rfl rfl).trans (noGrow_sendCmd _ _ _)

theorem noGrow_upsert_tail {s s2 : State} (h2 : NoGrow s s2) (uw2 : Option Int) (c id : Nat) :
    NoGrow s (match uw2 with
          | some weight =>
            if (!inI64 weight) = true then (s2, Out.panic Panic.weightOverflow)
            else
              if weight ≤ 0 then (s2, Out.panic Panic.weightNotPositive)
              else sendCmd s2 c (Cmd.updateWeight id weight)
          | none => spotAck s2 Status.accepted).1 := by
  split
  · split
    · exact h2
    · split
      · exact h2
      · exact h2.trans (noGrow_sendCmd _ _ _)
  · exact h2.trans (NoGrow.of_adm rfl rfl)

theorem noGrow_clientUpsert (s : State) (c k : Nat) (v : Option Nat) (w : Option Int) (ttl : Option Nat)
    (rm : Bool) : NoGrow s (clientUpsert s c k v w ttl rm).1 := by
  unfold clientUpsert
  split
  · exact NoGrow.refl _
  · extract_lets uw
    clear_value uw
    split
    · split
      · split
        · exact NoGrow.refl _
        · split
          · exact (NoGrow.of_adm (s := s) (s' := { s with nextId := s.nextId + 1 }) rfl rfl).trans (noGrow_sendCmd _ _ _)
          · exact (NoGrow.of_adm (s := s) (s' := { s with nextId := s.nextId + 1 }) rfl rfl).trans (noGrow_sendCmd _ _ _)
      · exact NoGrow.refl _
    · rename_i e hg
      extract_lets newExp
      clear_value newExp
      split
      · exact NoGrow.refl _
      · extract_lets e' s1 existing
        clear_value existing
        have h1 : NoGrow s s1 := NoGrow.of_adm rfl rfl
        clear_value s1
        split
        rename_i s2 uw2 hpair
        refine noGrow_upsert_tail ?_ uw2 c _
        split at hpair <;> cases hpair
        · exact h1.trans (NoGrow.of_adm rfl rfl)
        · exact h1.trans (NoGrow.of_adm rfl rfl)
        · exact h1.trans (NoGrow.of_adm rfl rfl)
        · exact h1

theorem noGrow_shutdownFinish {s : State} (h : 0 ≤ s.adm.used) : NoGrow s (shutdownFinish s) :=
  ⟨rfl, rfl, h⟩

theorem noGrow_shutdownSendBuf {s : State} (h : 0 ≤ s.adm.used) (c : Nat) : NoGrow s (shutdownSendBuf s c).1 := by
  unfold shutdownSendBuf
  split
  · exact noGrow_shutdownFinish h
  · split
    · exact NoGrow.of_adm rfl rfl
    · exact (NoGrow.of_adm (s := s) (s' := { s with bufq := s.bufq ++ [.shutdown] }) rfl rfl).trans
        (noGrow_shutdownFinish (s := { s with bufq := s.bufq ++ [.shutdown] }) h)

theorem noGrow_shutdownSendCmd {s : State} (h : 0 ≤ s.adm.used) (c : Nat) : NoGrow s (shutdownSendCmd s c).1 := by
  unfold shutdownSendCmd
  split
  · exact noGrow_shutdownSendBuf h c
  · split
    · exact NoGrow.of_adm rfl rfl
    · exact (NoGrow.of_adm (s := s) (s' := { s with queue := s.queue ++ [(.shutdown, none)] }) rfl rfl).trans
        (noGrow_shutdownSendBuf (s := { s with queue := s.queue ++ [(.shutdown, none)] }) h c)

theorem noGrow_clientShutdown {s : State} (h : 0 ≤ s.adm.used) (c : Nat) : NoGrow s (clientShutdown s c).1 := by
  unfold clientShutdown
  split
  · exact NoGrow.refl _
  · exact NoGrow.trans (s' := { s with shutting := true }) (NoGrow.of_adm rfl rfl)
      (noGrow_shutdownSendCmd (s := { s with shutting := true }) h c)

theorem noGrow_resume {s s' : State} {out : Out} (h : 0 ≤ s.adm.used) {c : Nat}
    (hr : resume s c = .ok (s', out)) : NoGrow s s' := by
  unfold resume at hr
  split at hr
  · cases hr
  · have h0 : NoGrow s { s with pend := s.pend.del c } := NoGrow.of_adm rfl rfl
    dsimp only at hr
    split at hr
    · rename_i cmd _
      split at hr
      · cases hr
      · simp only [Except.ok.injEq] at hr
        have e : s' = (sendCmd { s with pend := s.pend.del c } c cmd).1 := by rw [hr]
        rw [e]; exact h0.trans (noGrow_sendCmd _ _ _)
    · split at hr
      · cases hr
      · simp only [Except.ok.injEq] at hr
        have e : s' = (shutdownSendCmd { s with pend := s.pend.del c } c).1 := by rw [hr]
        rw [e]; exact h0.trans (noGrow_shutdownSendCmd (s := { s with pend := s.pend.del c }) h c)
    · split at hr
      · cases hr
      · simp only [Except.ok.injEq] at hr
        have e : s' = (shutdownSendBuf { s with pend := s.pend.del c } c).1 := by rw [hr]
        rw [e]; exact h0.trans (noGrow_shutdownSendBuf (s := { s with pend := s.pend.del c }) h c)

theorem noGrow_sweepEvict {s : State} (h : Inv s) (id : Nat) : NoGrow s (sweepEvict s id).1 := by
  rcases sweepEvict_cases s id with h0 | ⟨wk, hg, _, h1⟩
  · rw [h0]; exact NoGrow.refl _
  · rw [h1]
    dsimp only
    obtain ⟨e1, e2, e3, _⟩ := applyEvictId_frame
      { s with adm := { s.adm with kw := s.adm.kw.del id, used := s.adm.used - wk.weight } } (id, wk.key, wk.weight)
    have := h.positive id wk hg
    exact ⟨e3, by rw [e1], by rw [e1]; simp only; omega⟩

theorem noGrow_sweepEntries : ∀ (l : List ((Nat × Nat) × Nat)) (s : State) (acc : List Evicted), Inv s →
    NoGrow s (sweepEntries s l acc).1 := by
  intro l
  induction l with
  | nil => intro s acc h; exact NoGrow.refl _
  | cons x l ih =>
    intro s acc h
    obtain ⟨⟨sh, id⟩, ex⟩ := x
    simp only [sweepEntries]
    exact (noGrow_sweepEvict h id).trans (ih _ _ (inv_sweepEvict h id))

theorem noGrow_sweepStep {s s' : State} {out : Out} (h : Inv s) (hs : sweepStep s = .ok (s', out)) :
    NoGrow s s' := by
  unfold sweepStep at hs
  split at hs
  · cases hs
  · dsimp only at hs
    simp only [Except.ok.injEq, Prod.mk.injEq] at hs
    obtain ⟨rfl, _⟩ := hs
    exact (noGrow_sweepEntries _ s [] h).trans (NoGrow.of_adm rfl rfl)

/-! ### what the worker does to the total (for C01) -/

/-- the bound an executed put obeys, relative to the state `s` it started from -/
def Exec.putBound (s : State) : Exec → Prop
  | .done s1 st _ _ _ => (st = .accepted → s1.adm.used ≤ s1.adm.max) ∧ (st ≠ .accepted → s1.adm.used ≤ s.adm.used)
  | .panicked s1 _ => s1.adm.used ≤ s1.adm.max ∨ s1.adm.used ≤ s.adm.used

/-- What executing a put does to the total: an accepted put ends at or below the limit (whatever the total
    was before), any other outcome does not raise the total. A panic after admission (`timeOverflow`) leaves
    the total after that admission, which is within the limit; a panic INSIDE admission (`weightOverflow` in
    `is_space_available_for`) has added nothing and leaves the total where the evictions made so far brought it. -/
theorem workerPut_effect {s : State} {id hash : Nat} {w : Int} {k v : Nat} {ttl : Option Nat}
    {o o' : Oracle} {ex : Exec} (hc : Core s) (hid : s.adm.kw.get? id = none)
    (h : workerPut s id hash w k v ttl o = .ok (ex, o')) :
    ex.kill.cfg = s.cfg ∧ ex.kill.adm.max = s.adm.max ∧ ex.putBound s := by
  unfold workerPut at h
  split at h
  · simp only [Except.ok.injEq, Prod.mk.injEq] at h
    obtain ⟨rfl, _⟩ := h
    exact ⟨rfl, rfl, fun hh => by simp at hh, fun _ => Int.le_refl _⟩
  · split at h
    · cases h
    · rename_i r hm
      have sp := maybeAdd_spec hc.kwNoDup hc.sum hid hm
      obtain ⟨f1, f2, f3, f4, f5, f6, f7⟩ := foldl_applyEvict r.evicted { s with adm := r.adm }
      dsimp only at h
      split at h
      · rename_i hov
        have hacc : r.status ≠ .accepted := by
          intro hacc; have := (sp.ovf hov).1; rw [hacc] at this; cases this
        simp only [Except.ok.injEq, Prod.mk.injEq] at h
        obtain ⟨rfl, _⟩ := h
        refine ⟨f4, ?_, Or.inr ?_⟩
        · simp only [Exec.kill, f2]; exact sp.max
        · simp only [f2]; exact sp.used_le hc.positive hacc
      split at h
      · rename_i hacc
        have hb := sp.bound hacc
        split at h
        · simp only [Except.ok.injEq, Prod.mk.injEq] at h
          obtain ⟨rfl, _⟩ := h
          refine ⟨f4, ?_, fun _ => ?_, fun hh => absurd rfl hh⟩
          · simp only [Exec.kill, f2]; exact sp.max
          · simp only [f2]; exact hb
        · split at h
          · simp only [Except.ok.injEq, Prod.mk.injEq] at h
            obtain ⟨rfl, _⟩ := h
            refine ⟨f4, ?_, Or.inl ?_⟩
            · simp only [Exec.kill, f2]; exact sp.max
            · simp only [f2]; exact hb
          · simp only [Except.ok.injEq, Prod.mk.injEq] at h
            obtain ⟨rfl, _⟩ := h
            refine ⟨f4, ?_, fun _ => ?_, fun hh => absurd rfl hh⟩
            · simp only [Exec.kill, ttlPut, f2]; exact sp.max
            · simp only [ttlPut, f2]; exact hb
      · rename_i hacc
        simp only [Except.ok.injEq, Prod.mk.injEq] at h
        obtain ⟨rfl, _⟩ := h
        refine ⟨f4, ?_, fun hh => absurd hh hacc, fun _ => ?_⟩
        · simp only [Exec.kill, f2]; exact sp.max
        · simp only [f2]; exact sp.used_le hc.positive hacc

theorem workerUpdateWeight_effect (s : State) (id : Nat) (w : Int) :
    (workerUpdateWeight s id w).kill.cfg = s.cfg ∧ (workerUpdateWeight s id w).kill.adm.max = s.adm.max ∧
    ((workerUpdateWeight s id w).kill.adm.used = s.adm.used ∨
     ∃ wk, s.adm.kw.get? id = some wk ∧ (workerUpdateWeight s id w).kill.adm.used = s.adm.used + (w - wk.weight)) := by
  unfold workerUpdateWeight
  split
  · exact ⟨rfl, rfl, Or.inl rfl⟩
  · rename_i wk hg
    dsimp only
    split
    · exact ⟨rfl, rfl, Or.inl rfl⟩
    · exact ⟨rfl, rfl, Or.inr ⟨wk, hg, rfl⟩⟩

theorem workerDelete_effect {s : State} (h : Inv s) (k : Nat) : NoGrow s (workerDelete s k).kill := by
  unfold workerDelete
  split
  · exact NoGrow.refl _
  · rename_i e he
    dsimp only
    cases hg : s.adm.kw.get? e.id with
    | none =>
      rw [Adm.delete_none hg]
      dsimp only
      cases e.expiry <;> exact NoGrow.of_adm rfl rfl
    | some wk =>
      rw [Adm.delete_some hg]
      have := h.positive _ _ hg
      dsimp only
      cases e.expiry <;> exact ⟨rfl, rfl, by simp only [Exec.kill, ttlDelete]; omega⟩

/-- the worker reports an accepted `Put` / `PutWithTTL` -/
def Out.acceptedPut : Out → Prop
  | .worked kind .accepted _ _ _ => kind = "Put" ∨ kind = "PutWithTTL"
  | _ => False

/-- One worker step: `cfg` and the limit are fixed, and either the total ends within the limit (every accepted
    put does), or no put was accepted and the total did not grow, or the command was an `UpdateWeight` of a
    charged id, which moves the total by the difference of the weights, unchecked. -/
theorem workerStep_effect {s s' : State} {o o' : Oracle} {out : Out} (h : Inv s)
    (hs : workerStep s o = .ok (s', out, o')) :
    s'.cfg = s.cfg ∧ s'.adm.max = s.adm.max ∧
    ((s'.adm.used ≤ s'.adm.max ∧ (out.acceptedPut ∨ ∃ p, out = .workerPanic p)) ∨
     (¬ out.acceptedPut ∧
      (s'.adm.used ≤ s.adm.used ∨
       ∃ id w hh q wk, s.worker = .running ∧ s.queue = (.updateWeight id w, hh) :: q ∧
         s.adm.kw.get? id = some wk ∧ s'.adm.used = s.adm.used + (w - wk.weight)))) := by
  unfold workerStep at hs
  split at hs
  · cases hs
  · cases hs
  · simp only [Except.ok.injEq, Prod.mk.injEq] at hs
    obtain ⟨rfl, rfl, _⟩ := hs
    exact ⟨rfl, rfl, Or.inr ⟨by simp [Out.acceptedPut], Or.inl (Int.le_refl _)⟩⟩
  · rename_i cmd hh q hw hq
    obtain ⟨hc, hp⟩ := inv_pop h hq
    dsimp only at hs
    split at hs
    · simp only [Except.ok.injEq, Prod.mk.injEq] at hs
      obtain ⟨rfl, rfl, _⟩ := hs
      exact ⟨rfl, rfl, Or.inr ⟨by simp [Out.acceptedPut], Or.inl (Int.le_refl _)⟩⟩
    · split at hs
      · rename_i r hr
        obtain ⟨ex, o1⟩ := r
        obtain ⟨e1, e2, e3⟩ := workerPut_effect hc (hp.head rfl).2.2.1 hr
        cases ex with
        | done s1 st ie pp ev =>
          simp only [Except.ok.injEq, Prod.mk.injEq] at hs
          obtain ⟨rfl, rfl, _⟩ := hs
          refine ⟨e1, e2, ?_⟩
          by_cases hst : st = .accepted
          · exact Or.inl ⟨e3.1 hst, Or.inl (by subst hst; simp [Out.acceptedPut])⟩
          · refine Or.inr ⟨?_, Or.inl (e3.2 hst)⟩
            cases st <;> simp_all [Out.acceptedPut]
        | panicked s1 p =>
          simp only [Except.ok.injEq, Prod.mk.injEq] at hs
          obtain ⟨rfl, rfl, _⟩ := hs
          rcases e3 with e3 | e3
          · exact ⟨e1, e2, Or.inl ⟨e3, Or.inr ⟨p, rfl⟩⟩⟩
          · exact ⟨e1, e2, Or.inr ⟨by simp [Out.acceptedPut], Or.inl e3⟩⟩
      · cases hs
    · split at hs
      · rename_i r hr
        obtain ⟨ex, o1⟩ := r
        obtain ⟨e1, e2, e3⟩ := workerPut_effect hc (hp.head rfl).2.2.1 hr
        cases ex with
        | done s1 st ie pp ev =>
          simp only [Except.ok.injEq, Prod.mk.injEq] at hs
          obtain ⟨rfl, rfl, _⟩ := hs
          refine ⟨e1, e2, ?_⟩
          by_cases hst : st = .accepted
          · exact Or.inl ⟨e3.1 hst, Or.inl (by subst hst; simp [Out.acceptedPut])⟩
          · refine Or.inr ⟨?_, Or.inl (e3.2 hst)⟩
            cases st <;> simp_all [Out.acceptedPut]
        | panicked s1 p =>
          simp only [Except.ok.injEq, Prod.mk.injEq] at hs
          obtain ⟨rfl, rfl, _⟩ := hs
          rcases e3 with e3 | e3
          · exact ⟨e1, e2, Or.inl ⟨e3, Or.inr ⟨p, rfl⟩⟩⟩
          · exact ⟨e1, e2, Or.inr ⟨by simp [Out.acceptedPut], Or.inl e3⟩⟩
      · cases hs
    · rename_i id w
      obtain ⟨e1, e2, e3⟩ := workerUpdateWeight_effect { s with queue := q } id w
      have e3' : (workerUpdateWeight { s with queue := q } id w).kill.adm.used ≤ s.adm.used ∨
          ∃ id' w' hh' q' wk, s.worker = .running ∧ s.queue = (.updateWeight id' w', hh') :: q' ∧
            s.adm.kw.get? id' = some wk ∧
            (workerUpdateWeight { s with queue := q } id w).kill.adm.used = s.adm.used + (w' - wk.weight) := by
        rcases e3 with e3 | ⟨wk, hg, e3⟩
        · exact Or.inl (Int.le_of_eq e3)
        · exact Or.inr ⟨id, w, hh, q, wk, hw, hq, hg, e3⟩
      split at hs
      · rename_i s1 st ie pp ev o1 heq
        simp only [Prod.mk.injEq] at heq
        simp only [Except.ok.injEq, Prod.mk.injEq] at hs
        obtain ⟨rfl, rfl, _⟩ := hs
        rw [heq.1] at e1 e2 e3'
        refine ⟨e1, e2, Or.inr ⟨?_, e3'⟩⟩
        cases st <;> simp [Out.acceptedPut]
      · rename_i s1 p o1 heq
        simp only [Prod.mk.injEq] at heq
        simp only [Except.ok.injEq, Prod.mk.injEq] at hs
        obtain ⟨rfl, rfl, _⟩ := hs
        rw [heq.1] at e1 e2 e3'
        exact ⟨e1, e2, Or.inr ⟨by simp [Out.acceptedPut], e3'⟩⟩
    · rename_i k
      have hk := workerDelete_effect (Inv.of_le hc hp (PLe.tail _ _)) k
      split at hs
      · rename_i s1 st ie pp ev o1 heq
        simp only [Prod.mk.injEq] at heq
        simp only [Except.ok.injEq, Prod.mk.injEq] at hs
        obtain ⟨rfl, rfl, _⟩ := hs
        rw [heq.1] at hk
        refine ⟨hk.cfg, hk.max, Or.inr ⟨?_, Or.inl hk.used⟩⟩
        cases st <;> simp [Out.acceptedPut]
      · rename_i s1 p o1 heq
        simp only [Prod.mk.injEq] at heq
        simp only [Except.ok.injEq, Prod.mk.injEq] at hs
        obtain ⟨rfl, rfl, _⟩ := hs
        rw [heq.1] at hk
        exact ⟨hk.cfg, hk.max, Or.inr ⟨by simp [Out.acceptedPut], Or.inl hk.used⟩⟩

/-- Every event: `cfg` and the limit are fixed, and either the total ends within the limit, or no put was accepted
    and the total did not grow, or the event is the worker executing an `UpdateWeight` of a charged id. -/
theorem step_effect {s s' : State} {ev : Ev} {o o' : Oracle} {out : Out} (h : Inv s)
    (hs : step s ev o = .ok (s', out, o')) :
    s'.cfg = s.cfg ∧ s'.adm.max = s.adm.max ∧
    ((s'.adm.used ≤ s'.adm.max ∧ (out.acceptedPut ∨ ∃ p, out = .workerPanic p)) ∨
     (¬ (ev = .worker ∧ out.acceptedPut) ∧
      (s'.adm.used ≤ s.adm.used ∨
       (ev = .worker ∧ ∃ id w hh q wk, s.worker = .running ∧ s.queue = (.updateWeight id w, hh) :: q ∧
         s.adm.kw.get? id = some wk ∧ s'.adm.used = s.adm.used + (w - wk.weight))))) := by
  have ng : ∀ {s'}, ev ≠ .worker → NoGrow s s' → s'.cfg = s.cfg ∧ s'.adm.max = s.adm.max ∧
    ((s'.adm.used ≤ s'.adm.max ∧ (out.acceptedPut ∨ ∃ p, out = .workerPanic p)) ∨
     (¬ (ev = .worker ∧ out.acceptedPut) ∧
      (s'.adm.used ≤ s.adm.used ∨
       (ev = .worker ∧ ∃ id w hh q wk, s.worker = .running ∧ s.queue = (.updateWeight id w, hh) :: q ∧
         s.adm.kw.get? id = some wk ∧ s'.adm.used = s.adm.used + (w - wk.weight))))) :=
    fun hne n => ⟨n.cfg, n.max, Or.inr ⟨fun hh => hne hh.1, Or.inl n.used⟩⟩
  have hnn := h.used_nonneg
  unfold step at hs
  cases ev with
  | put c k v =>
    simp only [Except.ok.injEq, Prod.mk.injEq] at hs; obtain ⟨rfl, _, _⟩ := hs
    exact ng (by simp) (noGrow_clientPut s c k v)
  | putW c k v w =>
    simp only [Except.ok.injEq, Prod.mk.injEq] at hs; obtain ⟨rfl, _, _⟩ := hs
    exact ng (by simp) (noGrow_clientPutW s c k v w)
  | putTtl c k v t =>
    simp only [Except.ok.injEq, Prod.mk.injEq] at hs; obtain ⟨rfl, _, _⟩ := hs
    exact ng (by simp) (noGrow_clientPutTtl s c k v t)
  | putWTtl c k v w t =>
    simp only [Except.ok.injEq, Prod.mk.injEq] at hs; obtain ⟨rfl, _, _⟩ := hs
    exact ng (by simp) (noGrow_clientPutWTtl s c k v w t)
  | upsert c k v w t rm =>
    simp only [Except.ok.injEq, Prod.mk.injEq] at hs; obtain ⟨rfl, _, _⟩ := hs
    exact ng (by simp) (noGrow_clientUpsert s c k v w t rm)
  | delete c k =>
    simp only [Except.ok.injEq, Prod.mk.injEq] at hs; obtain ⟨rfl, _, _⟩ := hs
    exact ng (by simp) (noGrow_clientDelete s c k)
  | get k => exact ng (by simp) (NoGrow.of_same (same_clientGet hs))
  | multiGet ks => exact ng (by simp) (NoGrow.of_same (same_clientMultiGet hs))
  | weight =>
    simp only [Except.ok.injEq, Prod.mk.injEq] at hs; obtain ⟨rfl, _, _⟩ := hs
    exact ng (by simp) (NoGrow.refl _)
  | stats =>
    simp only [Except.ok.injEq, Prod.mk.injEq] at hs; obtain ⟨rfl, _, _⟩ := hs
    exact ng (by simp) (NoGrow.refl _)
  | worker =>
    obtain ⟨e1, e2, e3⟩ := workerStep_effect h hs
    refine ⟨e1, e2, ?_⟩
    rcases e3 with e3 | ⟨e3, e4⟩
    · exact Or.inl e3
    · refine Or.inr ⟨fun hh => e3 hh.2, ?_⟩
      rcases e4 with e4 | e4
      · exact Or.inl e4
      · exact Or.inr ⟨rfl, e4⟩
  | sweep =>
    dsimp only at hs
    split at hs
    · rename_i r hr
      simp only [Except.ok.injEq, Prod.mk.injEq] at hs; obtain ⟨rfl, _, _⟩ := hs
      exact ng (by simp) (noGrow_sweepStep h (out := r.2) hr)
    · cases hs
  | consumer => exact ng (by simp) (NoGrow.of_same (same_consumerStep hs))
  | advance d =>
    simp only [Except.ok.injEq, Prod.mk.injEq] at hs; obtain ⟨rfl, _, _⟩ := hs
    exact ng (by simp) (NoGrow.of_adm rfl rfl)
  | shutdown c =>
    simp only [Except.ok.injEq, Prod.mk.injEq] at hs; obtain ⟨rfl, _, _⟩ := hs
    exact ng (by simp) (noGrow_clientShutdown hnn c)
  | resume c =>
    dsimp only at hs
    split at hs
    · rename_i r hr
      simp only [Except.ok.injEq, Prod.mk.injEq] at hs; obtain ⟨rfl, _, _⟩ := hs
      exact ng (by simp) (noGrow_resume hnn (out := r.2) hr)
    · cases hs
  | poll hh =>
    dsimp only at hs
    split at hs
    · simp only [Except.ok.injEq, Prod.mk.injEq] at hs; obtain ⟨rfl, _, _⟩ := hs
      exact ng (by simp) (NoGrow.refl _)
    · cases hs

end Cached
