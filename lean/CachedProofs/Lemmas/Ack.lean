/-
  The inductive invariant of the acknowledgement slice `CachedModel/Ack.lean` and the lemmas the C12
  theorems are assembled from.  Everything is about `Cached.AckB.step`, i.e. about EVERY interleaving of
  the completer's three accesses with the accesses of any number of pollers.
-/
import CachedModel.Ack

namespace Cached
namespace AckB

/-- `s` is reachable from the initial state of an acknowledgement whose command ends with `final`,
    polled by `n` tasks, by some interleaving. -/
def Reachable (final : Status) (n : Nat) (s : St) : Prop := ∃ acts, run (init final n) acts = some s

/-- the waker passed to the last `lockRegister` of a schedule -/
def lastRegistered : List Act → Option Nat
  | [] => none
  | a :: rest =>
    match lastRegistered rest with
    | some w => some w
    | none => match a with
      | .lockRegister _ w => some w
      | _ => none

/-! ### `run` -/

theorem run_nil (s : St) : run s [] = some s := rfl

theorem run_cons (s : St) (a : Act) (rest : List Act) :
    run s (a :: rest) = match step s a with | some s' => run s' rest | none => none := rfl

theorem run_append {s s' : St} (l1 l2 : List Act) :
    run s (l1 ++ l2) = some s' ↔ ∃ m, run s l1 = some m ∧ run m l2 = some s' := by
  induction l1 generalizing s with
  | nil => simp [run]
  | cons a rest ih =>
    simp only [List.cons_append, run]
    cases step s a with
    | none => simp
    | some s1 => simpa using ih

theorem run_snoc {s s' : St} (l : List Act) (a : Act) :
    run s (l ++ [a]) = some s' ↔ ∃ m, run s l = some m ∧ step m a = some s' := by
  rw [run_append]
  constructor
  · rintro ⟨m, h1, h2⟩
    refine ⟨m, h1, ?_⟩
    simp only [run] at h2
    cases h : step m a with
    | none => simp [h] at h2
    | some s1 => simpa [h] using h2
  · rintro ⟨m, h1, h2⟩
    exact ⟨m, h1, by simp [run, h2]⟩

/-- Reachability is closed under steps. -/
theorem Reachable.step {final : Status} {n : Nat} {s s' : St} {a : Act}
    (h : Reachable final n s) (hs : step s a = some s') : Reachable final n s' := by
  obtain ⟨acts, hr⟩ := h
  exact ⟨acts ++ [a], (run_snoc acts a).mpr ⟨s, hr, hs⟩⟩

theorem Reachable.run {final : Status} {n : Nat} {s s' : St} {acts : List Act}
    (h : Reachable final n s) (hs : run s acts = some s') : Reachable final n s' := by
  obtain ⟨pre, hr⟩ := h
  exact ⟨pre ++ acts, (run_append pre acts).mpr ⟨s, hr, hs⟩⟩

/-- Induction principle: a property that holds initially and is preserved by every enabled step
    holds in every reachable state. -/
theorem run_induction {P : St → Prop} (hstep : ∀ s a s', P s → step s a = some s' → P s') :
    ∀ (acts : List Act) (s s' : St), P s → run s acts = some s' → P s' := by
  intro acts
  induction acts with
  | nil =>
    intro s s' hp hr
    simp only [run, Option.some.injEq] at hr
    exact hr ▸ hp
  | cons a rest ih =>
    intro s s' hp hr
    simp only [run] at hr
    cases h : step s a with
    | none => simp [h] at hr
    | some s1 =>
      simp only [h] at hr
      exact ih s1 s' (hstep s a s1 hp h) hr

/-! ### pollers after an update -/

theorem getElem?_setPoller {s : St} {p : Nat} {q q' : Poller} (h : s.pollers[p]? = some q) (j : Nat) :
    (setPoller s p q').pollers[j]? = if p = j then some q' else s.pollers[j]? := by
  have hlt : p < s.pollers.length := by
    rcases Nat.lt_or_ge p s.pollers.length with hl | hl
    · exact hl
    · rw [List.getElem?_eq_none hl] at h; cases h
  simp only [setPoller, List.getElem?_set]
  by_cases hpj : p = j
  · subst hpj; simp [hlt]
  · simp [hpj]

/-- A precise description of every enabled step: which guard held and what the successor is. -/
theorem step_cases {s s' : St} {a : Act} (h : step s a = some s') :
    (a = .setStatus ∧ s.cpc = .beforeStatus ∧ s' = { s with status := s.final, cpc := .beforeFlag }) ∨
    (a = .setFlag ∧ s.cpc = .beforeFlag ∧ s' = { s with flag := true, cpc := .beforeWake }) ∨
    (a = .wake ∧ s.cpc = .beforeWake ∧ s.lock = none ∧
      s' = { s with cpc := .finished,
                    wakes := (match s.slot with | some w => w :: s.wakes | none => s.wakes) }) ∨
    (∃ p w q, a = .lockRegister p w ∧ s.pollers[p]? = some q ∧ q.pc = .idle ∧ s.lock = none ∧
      s' = setPoller { s with lock := some p, slot := some w } p { q with pc := .registered, waker := w }) ∨
    (∃ p q, a = .loadFlag p ∧ s.pollers[p]? = some q ∧ q.pc = .registered ∧ s.flag = true ∧
      s' = setPoller s p { q with pc := .sawDone }) ∨
    (∃ p q, a = .loadFlag p ∧ s.pollers[p]? = some q ∧ q.pc = .registered ∧ s.flag = false ∧
      s' = setPoller { s with lock := none } p { q with pc := .idle, results := .pending :: q.results }) ∨
    (∃ p q, a = .finishPoll p ∧ s.pollers[p]? = some q ∧ q.pc = .sawDone ∧
      s' = setPoller { s with lock := none } p { q with pc := .idle, results := .ready s.status :: q.results }) := by
  cases a with
  | setStatus =>
    simp only [step] at h
    split at h
    · rename_i hc; simp only [Option.some.injEq] at h; exact Or.inl ⟨rfl, hc, h.symm⟩
    · cases h
  | setFlag =>
    simp only [step] at h
    split at h
    · rename_i hc; simp only [Option.some.injEq] at h; exact Or.inr (Or.inl ⟨rfl, hc, h.symm⟩)
    · cases h
  | wake =>
    simp only [step] at h
    split at h
    · rename_i hc; simp only [Option.some.injEq] at h
      exact Or.inr (Or.inr (Or.inl ⟨rfl, hc.1, hc.2, h.symm⟩))
    · cases h
  | lockRegister p w =>
    simp only [step] at h
    split at h
    · rename_i q hq
      split at h
      · rename_i hc; simp only [Option.some.injEq] at h
        exact Or.inr (Or.inr (Or.inr (Or.inl ⟨p, w, q, rfl, hq, hc.1, hc.2, h.symm⟩)))
      · cases h
    · cases h
  | loadFlag p =>
    simp only [step] at h
    split at h
    · rename_i q hq
      split at h
      · rename_i hc
        split at h
        · rename_i hf; simp only [Option.some.injEq] at h
          exact Or.inr (Or.inr (Or.inr (Or.inr (Or.inl ⟨p, q, rfl, hq, hc, hf, h.symm⟩))))
        · rename_i hf; simp only [Option.some.injEq] at h
          exact Or.inr (Or.inr (Or.inr (Or.inr (Or.inr (Or.inl ⟨p, q, rfl, hq, hc, by simpa using hf, h.symm⟩)))))
      · cases h
    · cases h
  | finishPoll p =>
    simp only [step] at h
    split at h
    · rename_i q hq
      split at h
      · rename_i hc; simp only [Option.some.injEq] at h
        exact Or.inr (Or.inr (Or.inr (Or.inr (Or.inr (Or.inr ⟨p, q, rfl, hq, hc, h.symm⟩)))))
      · cases h
    · cases h

/-! ### the invariant -/

/-- The inductive invariant of the acknowledgement slice. -/
structure Inv (s : St) : Prop where
  /-- the flag is set exactly when the completer is past `setFlag` -/
  flag_iff : s.flag = true ↔ (s.cpc = .beforeWake ∨ s.cpc = .finished)
  /-- from `setStatus` on the status cell holds the real outcome -/
  status_after : s.cpc ≠ .beforeStatus → s.status = s.final
  status_before : s.cpc = .beforeStatus → s.status = .pending
  /-- the owner of the waker mutex exists and is inside a poll -/
  lock_holder : ∀ (p : Nat), s.lock = some p →
    ∃ q, s.pollers[p]? = some q ∧ (q.pc = .registered ∨ q.pc = .sawDone)
  /-- everybody else is between polls -/
  others_idle : ∀ (p : Nat) (q : Poller), s.pollers[p]? = some q → s.lock ≠ some p → q.pc = .idle
  /-- a poller that saw the flag really saw it -/
  sawDone_flag : ∀ (p : Nat) (q : Poller), s.pollers[p]? = some q → q.pc = .sawDone → s.flag = true
  /-- every `Ready` ever returned carries the real outcome, and was returned after publication -/
  ready_final : ∀ (p : Nat) (q : Poller) (x : Status), s.pollers[p]? = some q → .ready x ∈ q.results → x = s.final ∧ s.flag = true
  wakes_le : s.wakes.length ≤ 1
  wakes_nil : s.cpc ≠ .finished → s.wakes = []

theorem init_poller {final : Status} {n p : Nat} {q : Poller} (h : (init final n).pollers[p]? = some q) :
    q = {} := by
  simp only [init, List.getElem?_replicate] at h
  split at h
  · exact (Option.some.inj h).symm
  · cases h

theorem Inv.init (final : Status) (n : Nat) : Inv (init final n) where
  flag_iff := by simp [AckB.init]
  status_after := by simp [AckB.init]
  status_before := by simp [AckB.init]
  lock_holder := by simp [AckB.init]
  others_idle := by intro p q hq _; rw [init_poller hq]
  sawDone_flag := by intro p q hq h; rw [init_poller hq] at h; cases h
  ready_final := by intro p q x hq h; rw [init_poller hq] at h; cases h
  wakes_le := by simp [AckB.init]
  wakes_nil := by simp [AckB.init]

@[simp] theorem setPoller_final (s : St) (p : Nat) (q : Poller) : (setPoller s p q).final = s.final := rfl
@[simp] theorem setPoller_status (s : St) (p : Nat) (q : Poller) : (setPoller s p q).status = s.status := rfl
@[simp] theorem setPoller_flag (s : St) (p : Nat) (q : Poller) : (setPoller s p q).flag = s.flag := rfl
@[simp] theorem setPoller_slot (s : St) (p : Nat) (q : Poller) : (setPoller s p q).slot = s.slot := rfl
@[simp] theorem setPoller_lock (s : St) (p : Nat) (q : Poller) : (setPoller s p q).lock = s.lock := rfl
@[simp] theorem setPoller_cpc (s : St) (p : Nat) (q : Poller) : (setPoller s p q).cpc = s.cpc := rfl
@[simp] theorem setPoller_wakes (s : St) (p : Nat) (q : Poller) : (setPoller s p q).wakes = s.wakes := rfl

theorem Inv.step {s s' : St} {a : Act} (inv : Inv s) (h : step s a = some s') : Inv s' := by
  obtain ⟨i1, i2, i3, i4, i5, i6, i7, i8, i9⟩ := inv
  rcases step_cases h with ⟨-, hc, rfl⟩ | ⟨-, hc, rfl⟩ | ⟨-, hc, hl, rfl⟩ | ⟨p, w, q, -, hq, hpc, hl, rfl⟩ |
    ⟨p, q, -, hq, hpc, hf, rfl⟩ | ⟨p, q, -, hq, hpc, hf, rfl⟩ | ⟨p, q, -, hq, hpc, rfl⟩
  · constructor <;> grind
  · constructor <;> grind
  · constructor <;> grind
  · have key := getElem?_setPoller (s := { s with lock := some p, slot := some w })
      (q' := { q with pc := .registered, waker := w }) hq
    constructor <;> simp only [setPoller_final, setPoller_status, setPoller_flag, setPoller_lock, setPoller_cpc,
      setPoller_wakes] <;> grind
  · have key := getElem?_setPoller (q' := { q with pc := .sawDone }) hq
    constructor <;> simp only [setPoller_final, setPoller_status, setPoller_flag, setPoller_lock, setPoller_cpc,
      setPoller_wakes] <;> grind
  · have key := getElem?_setPoller (s := { s with lock := none })
      (q' := { q with pc := .idle, results := .pending :: q.results }) hq
    constructor <;> simp only [setPoller_final, setPoller_status, setPoller_flag, setPoller_lock, setPoller_cpc,
      setPoller_wakes] <;> grind
  · have key := getElem?_setPoller (s := { s with lock := none })
      (q' := { q with pc := .idle, results := .ready s.status :: q.results }) hq
    constructor <;> simp only [setPoller_final, setPoller_status, setPoller_flag, setPoller_lock, setPoller_cpc,
      setPoller_wakes] <;> grind

/-! ### what never changes -/

theorem step_final {s s' : St} {a : Act} (h : step s a = some s') : s'.final = s.final := by
  rcases step_cases h with ⟨-, -, rfl⟩ | ⟨-, -, rfl⟩ | ⟨-, -, -, rfl⟩ | ⟨p, w, q, -, -, -, -, rfl⟩ |
    ⟨p, q, -, -, -, -, rfl⟩ | ⟨p, q, -, -, -, -, rfl⟩ | ⟨p, q, -, -, -, rfl⟩ <;> rfl

theorem step_pollers_length {s s' : St} {a : Act} (h : step s a = some s') :
    s'.pollers.length = s.pollers.length := by
  rcases step_cases h with ⟨-, -, rfl⟩ | ⟨-, -, rfl⟩ | ⟨-, -, -, rfl⟩ | ⟨p, w, q, -, -, -, -, rfl⟩ |
    ⟨p, q, -, -, -, -, rfl⟩ | ⟨p, q, -, -, -, -, rfl⟩ | ⟨p, q, -, -, -, rfl⟩ <;> simp [setPoller]

/-- Everything the invariant says, for reachable states: the invariant itself, the recorded outcome is the
    command's outcome, and the set of pollers is the initial one. -/
theorem Reachable.inv {final : Status} {n : Nat} {s : St} (h : Reachable final n s) :
    Inv s ∧ s.final = final ∧ s.pollers.length = n := by
  obtain ⟨acts, hr⟩ := h
  refine run_induction (P := fun s => Inv s ∧ s.final = final ∧ s.pollers.length = n) ?_ acts _ _ ?_ hr
  · rintro s a s' ⟨i, hf, hl⟩ hs
    exact ⟨i.step hs, by rw [step_final hs, hf], by rw [step_pollers_length hs, hl]⟩
  · exact ⟨Inv.init final n, rfl, by simp [init]⟩

/-- The mutex: it is held by `p` exactly when poller `p` is inside a poll; at most one poller is. -/
theorem Inv.lock_iff {s : St} (inv : Inv s) (p : Nat) :
    s.lock = some p ↔ ∃ q, s.pollers[p]? = some q ∧ (q.pc = .registered ∨ q.pc = .sawDone) := by
  constructor
  · exact inv.lock_holder p
  · rintro ⟨q, hq, hpc⟩
    apply Classical.byContradiction
    intro hne
    have := inv.others_idle p q hq hne
    rcases hpc with h | h <;> rw [this] at h <;> cases h

/-! ### the waker slot and the wake -/

theorem step_slot {s s' : St} {a : Act} (h : step s a = some s') :
    s'.slot = match a with | .lockRegister _ w => some w | _ => s.slot := by
  rcases step_cases h with ⟨rfl, -, rfl⟩ | ⟨rfl, -, rfl⟩ | ⟨rfl, -, -, rfl⟩ | ⟨p, w, q, rfl, -, -, -, rfl⟩ |
    ⟨p, q, rfl, -, -, -, rfl⟩ | ⟨p, q, rfl, -, -, -, rfl⟩ | ⟨p, q, rfl, -, -, rfl⟩ <;> rfl

/-- After any schedule the slot holds the waker of the last registration in it (or what it held before). -/
theorem run_slot : ∀ (acts : List Act) (s s' : St), run s acts = some s' →
    s'.slot = match lastRegistered acts with | some w => some w | none => s.slot := by
  intro acts
  induction acts with
  | nil => intro s s' h; simp only [run, Option.some.injEq] at h; subst h; rfl
  | cons a rest ih =>
    intro s s' h
    simp only [run] at h
    cases hs : step s a with
    | none => simp [hs] at h
    | some s1 =>
      simp only [hs] at h
      have hsl := step_slot hs
      rw [ih s1 s' h]
      cases a <;> simp only [lastRegistered] <;> cases lastRegistered rest <;> simp only [hsl]

/-- Wakes are never retracted. -/
theorem step_wakes_mem {s s' : St} {a : Act} {w : Nat} (h : step s a = some s') (hw : w ∈ s.wakes) :
    w ∈ s'.wakes := by
  rcases step_cases h with ⟨-, -, rfl⟩ | ⟨-, -, rfl⟩ | ⟨-, -, -, rfl⟩ | ⟨p, w, q, -, -, -, -, rfl⟩ |
    ⟨p, q, -, -, -, -, rfl⟩ | ⟨p, q, -, -, -, -, rfl⟩ | ⟨p, q, -, -, -, rfl⟩ <;> try exact hw
  simp only
  split
  · exact List.mem_cons_of_mem _ hw
  · exact hw

theorem run_wakes_mem {w : Nat} : ∀ (acts : List Act) (s s' : St), run s acts = some s' → w ∈ s.wakes →
    w ∈ s'.wakes := fun acts s s' h hw =>
  run_induction (P := fun s => w ∈ s.wakes) (fun _ _ _ hp hs => step_wakes_mem hs hp) acts s s' hw h

/-! ### what one step does to a poller's results -/

/-- A step appends at most one result to at most one poller, and only `loadFlag` (flag unset: `Pending`)
    and `finishPoll` (`Ready` of the status cell) append. -/
theorem step_results {s s' : St} {a : Act} (h : step s a = some s') {j : Nat} {q q' : Poller}
    (hq : s.pollers[j]? = some q) (hq' : s'.pollers[j]? = some q') :
    q'.results = q.results ∨
    (a = .loadFlag j ∧ s.flag = false ∧ s'.lock = none ∧ q'.results = .pending :: q.results) ∨
    (a = .finishPoll j ∧ s'.lock = none ∧ q'.results = .ready s.status :: q.results) := by
  rcases step_cases h with ⟨-, -, rfl⟩ | ⟨-, -, rfl⟩ | ⟨-, -, -, rfl⟩ | ⟨p, w, q0, -, hp, -, -, rfl⟩ |
    ⟨p, q0, -, hp, -, -, rfl⟩ | ⟨p, q0, rfl, hp, -, hf, rfl⟩ | ⟨p, q0, rfl, hp, -, rfl⟩
  · left; simp only at hq'; rw [hq] at hq'; cases hq'; rfl
  · left; simp only at hq'; rw [hq] at hq'; cases hq'; rfl
  · left; simp only at hq'; rw [hq] at hq'; cases hq'; rfl
  · left
    rw [getElem?_setPoller (s := { s with lock := some p, slot := some w }) hp] at hq'
    grind
  · left
    rw [getElem?_setPoller hp] at hq'
    grind
  · rw [getElem?_setPoller (s := { s with lock := none }) hp] at hq'
    by_cases hpj : p = j
    · subst hpj; right; left
      simp only [if_true, Option.some.injEq] at hq'
      rw [hq] at hp; cases hp; subst hq'
      exact ⟨rfl, hf, rfl, rfl⟩
    · left; simp only [hpj, if_false] at hq'; rw [hq] at hq'; cases hq'; rfl
  · rw [getElem?_setPoller (s := { s with lock := none }) hp] at hq'
    by_cases hpj : p = j
    · subst hpj; right; right
      simp only [if_true, Option.some.injEq] at hq'
      rw [hq] at hp; cases hp; subst hq'
      exact ⟨rfl, rfl, rfl⟩
    · left; simp only [hpj, if_false] at hq'; rw [hq] at hq'; cases hq'; rfl

end AckB
end Cached
