/-
  Lemmas about the admission model (`CachedModel/Admission.lean`): the heap order of the eviction sample,
  `fillSample`, `Adm.delete` and the error strings that the model functions can produce.
-/
import CachedModel.Admission
import CachedProofs.Lemmas.AMap

namespace Cached

/-! ### association lists: deleting a charged id shortens the map -/

namespace AMap
variable {α β : Type} [DecidableEq α]

theorem length_del_le (m : AMap α β) (a : α) : (del m a).length ≤ m.length := by
  induction m with
  | nil => simp
  | cons p rest ih =>
    obtain ⟨k, v⟩ := p
    by_cases h : k = a
    · simp only [del, h, if_true, List.length_cons]; omega
    · simp only [del, h, if_false, List.length_cons]; omega

theorem length_del_lt (m : AMap α β) (a : α) (h : (get? m a).isSome = true) :
    (del m a).length < m.length := by
  induction m with
  | nil => simp at h
  | cons p rest ih =>
    obtain ⟨k, v⟩ := p
    by_cases hk : k = a
    · have := length_del_le rest a
      simp only [del, hk, if_true, List.length_cons]; omega
    · simp only [get?_cons, hk, if_false] at h
      have := ih h
      simp only [del, hk, if_false, List.length_cons]; omega

end AMap

/-! ### the heap order -/

/-- `k` is a coldest element of `sample`: smallest estimate, and among those the largest weight. -/
def SKey.coldestOf (k : SKey) (sample : List SKey) : Prop :=
  k ∈ sample ∧ ∀ x ∈ sample, k.est ≤ x.est ∧ (x.est = k.est → x.weight ≤ k.weight)

/-- `x` is not above `k` in the heap order iff `k` is no hotter than `x` and, at equal estimates, no lighter. -/
theorem SKey.cmp_ne_gt_iff (x k : SKey) :
    (SKey.cmp x k != .gt) = true ↔ k.est ≤ x.est ∧ (x.est = k.est → x.weight ≤ k.weight) := by
  unfold SKey.cmp
  repeat' split
  all_goals simp
  all_goals omega

theorem SKey.isMaxOf_iff_forall (k : SKey) (sample : List SKey) :
    k.isMaxOf sample = true ↔
      ∀ x ∈ sample, k.est ≤ x.est ∧ (x.est = k.est → x.weight ≤ k.weight) := by
  unfold SKey.isMaxOf
  rw [List.all_eq_true]
  constructor
  · intro h x hx; exact (SKey.cmp_ne_gt_iff x k).mp (h x hx)
  · intro h x hx; exact (SKey.cmp_ne_gt_iff x k).mpr (h x hx)

/-- The form asked for: for a member of the sample, being a legal pop of the max-heap is being coldest. -/
theorem SKey.isMaxOf_iff {k : SKey} {sample : List SKey} (_hk : k ∈ sample) :
    k.isMaxOf sample = true ↔
      ∀ x ∈ sample, k.est ≤ x.est ∧ (x.est = k.est → x.weight ≤ k.weight) :=
  SKey.isMaxOf_iff_forall k sample

theorem SKey.isMaxOf_iff_coldestOf {k : SKey} {sample : List SKey} (hk : k ∈ sample) :
    k.isMaxOf sample = true ↔ k.coldestOf sample := by
  rw [SKey.isMaxOf_iff hk]
  exact ⟨fun h => ⟨hk, h⟩, fun h => h.2⟩

/-- The oracle's pop names a member of the sample carrying that id. -/
theorem find?_id_some {sample : List SKey} {id : Nat} {k : SKey}
    (h : sample.find? (fun x => x.id == id) = some k) : k ∈ sample ∧ k.id = id := by
  refine ⟨List.mem_of_find?_eq_some h, ?_⟩
  have := List.find?_some h
  simpa using this

/-! ### `Adm.delete` -/

theorem Adm.delete_max (a : Adm) (id : Nat) : (a.delete id).1.max = a.max := by
  unfold Adm.delete; split <;> rfl

theorem Adm.delete_kw (a : Adm) (id : Nat) : (a.delete id).1.kw = a.kw.del id ∨
    ((a.delete id).1.kw = a.kw ∧ a.kw.get? id = none) := by
  unfold Adm.delete; split
  · exact Or.inl rfl
  · rename_i h; exact Or.inr ⟨rfl, h⟩

/-- After `delete id` the id is not charged (whether or not it was before). -/
theorem Adm.delete_get?_same (a : Adm) (id : Nat) : (a.delete id).1.kw.get? id = none := by
  unfold Adm.delete; split
  · simp
  · rename_i h; exact h

/-- `delete` leaves every other id's charge alone. -/
theorem Adm.delete_get?_other (a : Adm) {id id' : Nat} (h : id ≠ id') :
    (a.delete id).1.kw.get? id' = a.kw.get? id' := by
  unfold Adm.delete; split
  · simp [AMap.get?_del_other _ h]
  · rfl

theorem Adm.delete_length_lt (a : Adm) (id : Nat) (h : (a.kw.get? id).isSome = true) :
    (a.delete id).1.kw.length < a.kw.length := by
  unfold Adm.delete; split
  · exact AMap.length_del_lt a.kw id h
  · rename_i hn; simp [hn] at h

/-- What `delete` reports and does to the total when the id is charged. -/
theorem Adm.delete_charged (a : Adm) (id : Nat) (wk : WKey) (h : a.kw.get? id = some wk) :
    a.delete id = ({ a with kw := a.kw.del id, used := a.used - wk.weight }, some (id, wk.key, wk.weight)) := by
  unfold Adm.delete; simp [h]

theorem Adm.delete_uncharged (a : Adm) (id : Nat) (h : a.kw.get? id = none) :
    a.delete id = (a, none) := by
  unfold Adm.delete; simp [h]

/-! ### `SampleOK`: every sampled id is charged -/

def SampleOK (kw : AMap Nat WKey) (sample : List SKey) : Prop :=
  ∀ x ∈ sample, (kw.get? x.id).isSome = true

theorem SampleOK.nil (kw : AMap Nat WKey) : SampleOK kw [] := by
  intro x hx; cases hx

/-- Dropping the popped id from the sample and from the charges keeps the sample charged. -/
theorem SampleOK.delete_filter {a : Adm} {sample : List SKey} (h : SampleOK a.kw sample) (id : Nat) :
    SampleOK (a.delete id).1.kw (sample.filter (fun x => x.id != id)) := by
  intro x hx
  rw [List.mem_filter] at hx
  have hne : id ≠ x.id := by
    intro e; have := hx.2; simp [e] at this
  rw [Adm.delete_get?_other a hne]
  exact h x hx.1

/-! ### `fillSample` -/

/-- Everything in the filled sample was there before or is freshly sampled from the charged ids,
    with the weight it is charged at. -/
theorem fillSample_mem {t : TinyLFU} {kw : AMap Nat WKey} :
    ∀ (n : Nat) (sample : List SKey) (o : Oracle) (s' : List SKey) (o' : Oracle),
      fillSample t kw n sample o = .ok (s', o') →
      ∀ x ∈ s', x ∈ sample ∨ ∃ wk, kw.get? x.id = some wk ∧ x.weight = wk.weight := by
  intro n
  induction n with
  | zero =>
    intro sample o s' o' h x hx
    simp only [fillSample, Except.ok.injEq, Prod.mk.injEq] at h
    obtain ⟨rfl, _⟩ := h
    exact Or.inl hx
  | succ n ih =>
    intro sample o s' o' h x hx
    unfold fillSample at h
    split at h
    · cases h
    · split at h
      · cases h
      · rename_i id ids _ wk hget
        split at h
        · cases h
        · split at h
          · cases h
          · rename_i est o1 _
            rcases ih _ _ _ _ h x hx with hmem | hch
            · rw [List.mem_cons] at hmem
              rcases hmem with rfl | hmem
              · exact Or.inr ⟨wk, hget, rfl⟩
              · exact Or.inl hmem
            · exact Or.inr hch

/-- The old sample survives filling. -/
theorem fillSample_subset {t : TinyLFU} {kw : AMap Nat WKey} :
    ∀ (n : Nat) (sample : List SKey) (o : Oracle) (s' : List SKey) (o' : Oracle),
      fillSample t kw n sample o = .ok (s', o') → ∀ x ∈ sample, x ∈ s' := by
  intro n
  induction n with
  | zero =>
    intro sample o s' o' h x hx
    simp only [fillSample, Except.ok.injEq, Prod.mk.injEq] at h
    obtain ⟨rfl, _⟩ := h
    exact hx
  | succ n ih =>
    intro sample o s' o' h x hx
    unfold fillSample at h
    split at h
    · cases h
    · split at h
      · cases h
      · split at h
        · cases h
        · split at h
          · cases h
          · exact ih _ _ _ _ h x (List.mem_cons_of_mem _ hx)

/-- `fillSample` preserves `SampleOK`. -/
theorem fillSample_sampleOK {t : TinyLFU} {kw : AMap Nat WKey} {n : Nat} {sample s' : List SKey}
    {o o' : Oracle} (hs : SampleOK kw sample) (h : fillSample t kw n sample o = .ok (s', o')) :
    SampleOK kw s' := by
  intro x hx
  rcases fillSample_mem n sample o s' o' h x hx with hmem | ⟨wk, hget, _⟩
  · exact hs x hmem
  · simp [hget]

/-- No freshly sampled key carries an id that is not charged. -/
theorem fillSample_id_ne {t : TinyLFU} {kw : AMap Nat WKey} {n : Nat} {sample s' : List SKey}
    {o o' : Oracle} {id : Nat} (hkw : kw.get? id = none) (hs : ∀ x ∈ sample, x.id ≠ id)
    (h : fillSample t kw n sample o = .ok (s', o')) : ∀ x ∈ s', x.id ≠ id := by
  intro x hx
  rcases fillSample_mem n sample o s' o' h x hx with hmem | ⟨wk, hget, _⟩
  · exact hs x hmem
  · intro e; rw [e, hkw] at hget; cases hget

/-! ### error strings -/

theorem estimateO_ne_fuel (t : TinyLFU) (h : Nat) (o : Oracle) :
    estimateO t h o ≠ .error "fuel exhausted" := by
  unfold estimateO
  split
  · intro e; injection e with e; revert e; decide
  · split
    · intro e; injection e with e; revert e; decide
    · split
      · intro e; cases e
      · intro e; injection e with e; revert e; decide

theorem fillSample_ne_fuel (t : TinyLFU) (kw : AMap Nat WKey) :
    ∀ (n : Nat) (sample : List SKey) (o : Oracle),
      fillSample t kw n sample o ≠ .error "fuel exhausted" := by
  intro n
  induction n with
  | zero => intro sample o e; simp [fillSample] at e
  | succ n ih =>
    intro sample o
    unfold fillSample
    split
    · intro e; injection e with e; revert e; decide
    · split
      · intro e; injection e with e; revert e; decide
      · split
        · intro e; injection e with e; revert e; decide
        · split
          · rename_i e' heq
            intro e; injection e with e
            subst e
            exact estimateO_ne_fuel _ _ _ heq
          · exact ih _ _

/-! ### `is_space_available_for`: when `max_weight - weight_used` leaves `i64` -/

theorem Adm.spaceOverflow_eq_false_iff (a : Adm) :
    a.spaceOverflow = false ↔ i64Min ≤ a.max - a.used ∧ a.max - a.used ≤ i64Max := by
  simp [Adm.spaceOverflow, inI64]

theorem Adm.spaceOverflow_eq_true_iff (a : Adm) :
    a.spaceOverflow = true ↔ (a.max - a.used < i64Min ∨ i64Max < a.max - a.used) := by
  simp only [Adm.spaceOverflow, inI64, Bool.not_eq_true', Bool.and_eq_false_iff, decide_eq_false_iff_not]
  omega

/-- A total that is not negative and a capacity that is an `i64`, with the total within the capacity: the subtraction is
    representable (it lies in `[0, i64::MAX]`). -/
theorem Adm.spaceOverflow_false_of_le {a : Adm} (h0 : 0 ≤ a.used) (hle : a.used ≤ a.max) (hm : a.max ≤ i64Max) :
    a.spaceOverflow = false := by
  rw [Adm.spaceOverflow_eq_false_iff]
  simp only [i64Min, i64Max] at *
  omega

/-- The general form: a non-negative total that is itself an `i64` (it is one, in the code) under a non-negative `i64`
    capacity — also when `UpdateWeight` has pushed the total above the capacity (known finding D1). -/
theorem Adm.spaceOverflow_false {a : Adm} (h0 : 0 ≤ a.used) (hu : a.used ≤ i64Max) (hm0 : 0 ≤ a.max)
    (hm : a.max ≤ i64Max) : a.spaceOverflow = false := by
  rw [Adm.spaceOverflow_eq_false_iff]
  simp only [i64Min, i64Max] at *
  omega

/-- Conversely: under an `i64` capacity that is not negative, and with the total an `i64`, the subtraction overflows only
    when the total is NEGATIVE. -/
theorem Adm.neg_of_spaceOverflow {a : Adm} (hov : a.spaceOverflow = true) (hu : a.used ≤ i64Max) (hm0 : 0 ≤ a.max)
    (hm : a.max ≤ i64Max) : a.used < 0 := by
  by_cases h0 : 0 ≤ a.used
  · rw [Adm.spaceOverflow_false h0 hu hm0 hm] at hov; cases hov
  · omega

@[simp] theorem Adm.delete_spaceOverflow_none {a : Adm} {id : Nat} (h : a.kw.get? id = none) :
    (a.delete id).1.spaceOverflow = a.spaceOverflow := by
  simp [Adm.delete, h]

end Cached
