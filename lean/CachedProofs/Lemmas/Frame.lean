/-
  The frame of ONE key's store entry in the Layer A state machine (CachedModel/State.lean), for C02 and C03:

    * reads: `visible s k` is the value every completed read of `k` returns in `s`; a read changes only the
      statistics, the pool of access buffers and the buffer channel (`OnlyRead`);
    * the clock only moves forward (`step_now`, `step_now_le`);
    * `KeyCh s s' ev k`: the complete list of ways in which one event changes the entry of one key, each with the
      event (and, for the worker, the head command) that is responsible (`step_key`);
    * which commands are pending after an event (`step_pend`), for the ghost history of writes of C02.
-/
import CachedProofs.Lemmas.TtlInv
import CachedProofs.Lemmas.Queue
import CachedProofs.Lemmas.Upsert
import CachedProofs.Properties.C08
import CachedProofs.Properties.C10

namespace Cached

/-! ### reads -/

/-- the value a completed read of `k` returns in state `s`: the value of the stored entry, provided the entry is
    neither soft-deleted nor past its deadline -/
def visible (s : State) (k : Nat) : Option Nat :=
  match s.store.get? k with
  | some e => if e.alive s.now then some e.value else none
  | none => none

/-- an entry is dead exactly when it is soft-deleted or past its deadline -/
theorem alive_eq_false_iff (e : Entry) (now : Nat) :
    e.alive now = false ↔ e.soft = true ∨ ∃ x, e.expiry = some x ∧ now > x := by
  unfold Entry.alive
  cases hs : e.soft <;> cases hx : e.expiry <;> simp

theorem visible_eq_some_iff (s : State) (k v : Nat) :
    visible s k = some v ↔ ∃ e, s.store.get? k = some e ∧ e.value = v ∧ e.alive s.now = true := by
  unfold visible
  cases hk : s.store.get? k with
  | none => simp
  | some e =>
    cases ha : e.alive s.now <;> simp [ha]

theorem visible_eq_none_iff (s : State) (k : Nat) :
    visible s k = none ↔
      s.store.get? k = none ∨ ∃ e, s.store.get? k = some e ∧ (e.soft = true ∨ ∃ x, e.expiry = some x ∧ s.now > x) := by
  unfold visible
  cases hk : s.store.get? k with
  | none => simp
  | some e =>
    cases ha : e.alive s.now with
    | true =>
      have : ¬ (e.soft = true ∨ ∃ x, e.expiry = some x ∧ s.now > x) := by
        rw [← alive_eq_false_iff, ha]; simp
      simp [this, ha]
    | false =>
      have : e.soft = true ∨ ∃ x, e.expiry = some x ∧ s.now > x := (alive_eq_false_iff e s.now).mp ha
      simp [this, ha]

/-- `s'` differs from `s` at most in the statistics, the pool of access buffers and the buffer channel -/
def OnlyRead (s s' : State) : Prop :=
  ∃ st pl bq, s' = { s with stats := st, pool := pl, bufq := bq }

theorem OnlyRead.refl (s : State) : OnlyRead s s := ⟨s.stats, s.pool, s.bufq, rfl⟩

theorem OnlyRead.trans {s s1 s2 : State} (h1 : OnlyRead s s1) (h2 : OnlyRead s1 s2) : OnlyRead s s2 := by
  obtain ⟨a, b, c, rfl⟩ := h1
  obtain ⟨a', b', c', rfl⟩ := h2
  exact ⟨a', b', c', rfl⟩

/-- everything else is untouched -/
theorem OnlyRead.fields {s s' : State} (h : OnlyRead s s') :
    s'.store = s.store ∧ s'.adm = s.adm ∧ s'.ttl = s.ttl ∧ s'.queue = s.queue ∧ s'.acks = s.acks ∧
    s'.now = s.now ∧ s'.nextId = s.nextId ∧ s'.pend = s.pend ∧ s'.worker = s.worker ∧ s'.cfg = s.cfg ∧
    s'.lfu = s.lfu ∧ s'.shutting = s.shutting ∧ s'.consumerAlive = s.consumerAlive ∧
    s'.consumerKeep = s.consumerKeep ∧ s'.sweeperAlive = s.sweeperAlive ∧ s'.sweeperKeep = s.sweeperKeep := by
  obtain ⟨a, b, c, rfl⟩ := h
  exact ⟨rfl, rfl, rfl, rfl, rfl, rfl, rfl, rfl, rfl, rfl, rfl, rfl, rfl, rfl, rfl, rfl⟩

theorem OnlyRead.store {s s' : State} (h : OnlyRead s s') : s'.store = s.store := h.fields.1
theorem OnlyRead.now {s s' : State} (h : OnlyRead s s') : s'.now = s.now := h.fields.2.2.2.2.2.1

theorem OnlyRead.visible {s s' : State} (h : OnlyRead s s') (k : Nat) : visible s' k = visible s k := by
  simp only [Cached.visible, h.store, h.now]

theorem OnlyRead.pendingCmds {s s' : State} (h : OnlyRead s s') : pendingCmds s' = pendingCmds s := by
  obtain ⟨a, b, c, rfl⟩ := h
  rfl

theorem onlyRead_acceptBuffer (s : State) (hs : List Nat) : OnlyRead s (acceptBuffer s hs) := by
  unfold acceptBuffer
  split
  · exact ⟨_, s.pool, _, rfl⟩
  · exact ⟨_, s.pool, s.bufq, rfl⟩

theorem onlyRead_poolAdd {s s' : State} {h : Nat} {o o' : Oracle} (hp : poolAdd s h o = .ok (s', o')) :
    OnlyRead s s' := by
  unfold poolAdd at hp
  split at hp
  · cases hp
  · split at hp
    · cases hp
    · rename_i buf _
      simp only [Except.ok.injEq, Prod.mk.injEq] at hp
      obtain ⟨hp, _⟩ := hp
      subst hp
      by_cases hb : buf.length ≥ s.cfg.bufSize
      · simp only [hb, if_true]
        obtain ⟨a, b, c, e⟩ := onlyRead_acceptBuffer s buf
        rw [e]
        exact ⟨a, _, c, rfl⟩
      · simp only [hb, if_false]
        exact ⟨s.stats, _, s.bufq, rfl⟩

/-- **One read**: the result is `visible s k` and only statistics / access buffers move. -/
theorem readKey_spec {s s' : State} {k : Nat} {o o' : Oracle} {r : Option Nat}
    (hr : readKey s k o = .ok (s', r, o')) : r = visible s k ∧ OnlyRead s s' := by
  unfold readKey at hr
  unfold visible
  split at hr
  · rename_i e he
    rw [he]
    dsimp only
    split at hr
    · rename_i ha
      dsimp only at hr
      split at hr
      · rename_i s2 o2 hp
        simp only [Except.ok.injEq, Prod.mk.injEq] at hr
        obtain ⟨rfl, rfl, _⟩ := hr
        refine ⟨by simp [ha], ?_⟩
        exact OnlyRead.trans (s1 := { s with stats := { s.stats with hits := s.stats.hits + 1 } })
          ⟨_, s.pool, s.bufq, rfl⟩ (onlyRead_poolAdd hp)
      · cases hr
    · rename_i ha
      simp only [Except.ok.injEq, Prod.mk.injEq] at hr
      obtain ⟨rfl, rfl, _⟩ := hr
      exact ⟨by simp [ha], ⟨_, s.pool, s.bufq, rfl⟩⟩
  · rename_i he
    rw [he]
    simp only [Except.ok.injEq, Prod.mk.injEq] at hr
    obtain ⟨rfl, rfl, _⟩ := hr
    exact ⟨rfl, ⟨_, s.pool, s.bufq, rfl⟩⟩

/-- the multi-key read: the results are, in order, `visible s` of the keys -/
theorem readKeys_spec : ∀ (ks : List Nat) (s s' : State) (o o' : Oracle) (acc vs : List (Option Nat)),
    readKeys s ks o acc = .ok (s', vs, o') → vs = acc.reverse ++ ks.map (visible s) ∧ OnlyRead s s' := by
  intro ks
  induction ks with
  | nil =>
    intro s s' o o' acc vs hr
    simp only [readKeys, Except.ok.injEq, Prod.mk.injEq] at hr
    obtain ⟨rfl, rfl, _⟩ := hr
    exact ⟨by simp, OnlyRead.refl _⟩
  | cons k ks ih =>
    intro s s' o o' acc vs hr
    simp only [readKeys] at hr
    split at hr
    · rename_i s1 v o1 hk
      obtain ⟨hv, h1⟩ := readKey_spec hk
      obtain ⟨hvs, h2⟩ := ih _ _ _ _ _ _ hr
      refine ⟨?_, h1.trans h2⟩
      rw [hvs, hv]
      have : ks.map (visible s1) = ks.map (visible s) := by
        apply List.map_congr_left
        intro a _
        exact h1.visible a
      simp [this]
    · cases hr

/-- the `i`-th result of a multi-key read is what `readKey` returns for the `i`-th key in the state reached after the
    first `i` reads, and that state differs from the first one only in statistics / access buffers -/
theorem readKeys_pointwise : ∀ (ks : List Nat) (s s' : State) (o o' : Oracle) (acc vs : List (Option Nat)),
    readKeys s ks o acc = .ok (s', vs, o') →
    ∀ i k, ks[i]? = some k → ∃ si oi si' oi' r, OnlyRead s si ∧ readKey si k oi = .ok (si', r, oi') ∧
      vs[acc.length + i]? = some r := by
  intro ks
  induction ks with
  | nil => intro s s' o o' acc vs _ i k hi; simp at hi
  | cons k0 ks ih =>
    intro s s' o o' acc vs hr i k hi
    have hr0 := hr
    simp only [readKeys] at hr
    split at hr
    · rename_i s1 v o1 hk
      cases i with
      | zero =>
        simp only [List.getElem?_cons_zero, Option.some.injEq] at hi
        subst hi
        refine ⟨s, o, s1, o1, v, OnlyRead.refl _, hk, ?_⟩
        obtain ⟨hvs, _⟩ := readKeys_spec _ _ _ _ _ _ _ hr
        rw [hvs]
        simp
      | succ j =>
        simp only [List.getElem?_cons_succ] at hi
        obtain ⟨si, oi, si', oi', r, h1, h2, h3⟩ := ih _ _ _ _ _ _ hr j k hi
        refine ⟨si, oi, si', oi', r, (readKey_spec hk).2.trans h1, h2, ?_⟩
        simp only [List.length_cons] at h3
        rw [← h3]
        congr 1
        omega
    · cases hr

theorem clientGet_spec {s s' : State} {k : Nat} {o o' : Oracle} {out : Out}
    (hr : clientGet s k o = .ok (s', out, o')) :
    OnlyRead s s' ∧ out = .value (if s.shutting then none else visible s k) := by
  unfold clientGet at hr
  split at hr
  · rename_i hsh
    simp only [Except.ok.injEq, Prod.mk.injEq] at hr
    obtain ⟨rfl, rfl, _⟩ := hr
    exact ⟨OnlyRead.refl _, by simp [hsh]⟩
  · rename_i hsh
    split at hr
    · rename_i s1 v o1 hk
      simp only [Except.ok.injEq, Prod.mk.injEq] at hr
      obtain ⟨rfl, rfl, _⟩ := hr
      obtain ⟨hv, h1⟩ := readKey_spec hk
      exact ⟨h1, by simp [hsh, hv]⟩
    · cases hr

theorem clientMultiGet_spec {s s' : State} {ks : List Nat} {o o' : Oracle} {out : Out}
    (hr : clientMultiGet s ks o = .ok (s', out, o')) :
    OnlyRead s s' ∧ out = .values (if s.shutting then [] else ks.map (visible s)) := by
  unfold clientMultiGet at hr
  split at hr
  · rename_i hsh
    simp only [Except.ok.injEq, Prod.mk.injEq] at hr
    obtain ⟨rfl, rfl, _⟩ := hr
    exact ⟨OnlyRead.refl _, by simp [hsh]⟩
  · rename_i hsh
    split at hr
    · rename_i s1 v o1 hk
      simp only [Except.ok.injEq, Prod.mk.injEq] at hr
      obtain ⟨rfl, rfl, _⟩ := hr
      obtain ⟨hv, h1⟩ := readKeys_spec _ _ _ _ _ _ _ hk
      exact ⟨h1, by simp [hsh, hv]⟩
    · cases hr

/-! ### put-like client calls: store and clock untouched, one command issued -/

/-- the key and value a command will store, if it is a put -/
def Cmd.kv? : Cmd → Option (Nat × Nat)
  | .put _ _ _ k v => some (k, v)
  | .putTtl _ _ _ k v _ => some (k, v)
  | _ => none

theorem sendCmd_now (s : State) (c : Nat) (cmd : Cmd) : (sendCmd s c cmd).1.now = s.now :=
  (sendCmd_frame s c cmd).2.2.2.1

theorem sendCmd_store (s : State) (c : Nat) (cmd : Cmd) : (sendCmd s c cmd).1.store = s.store :=
  (sendCmd_frame s c cmd).1

/-- a command pending after a send is the one sent or was pending before -/
theorem mem_sendCmd {s : State} {c : Nat} {cmd c' : Cmd} (h : c' ∈ pendingCmds (sendCmd s c cmd).1) :
    c' = cmd ∨ c' ∈ pendingCmds s := by
  have := (ple_sendCmd s c cmd).1 c' h
  simpa using this

/-- what a put-like client call does: the store and the clock are untouched, and every command pending afterwards
    was pending before or is a put of `(k, v)` -/
structure PutEff (s s' : State) (k v : Nat) : Prop where
  store : s'.store = s.store
  now : s'.now = s.now
  pend : ∀ c ∈ pendingCmds s', c ∈ pendingCmds s ∨ c.kv? = some (k, v)

theorem PutEff.refl (s : State) (k v : Nat) : PutEff s s k v := ⟨rfl, rfl, fun _ h => Or.inl h⟩

theorem putEff_clientPutChecked (s : State) (c k v : Nat) (w : Int) (ttl : Option Nat) :
    PutEff s (clientPutChecked s c k v w ttl).1 k v := by
  unfold clientPutChecked
  split
  · exact ⟨rfl, rfl, fun _ h => Or.inl h⟩
  · cases ttl with
    | none =>
      refine ⟨sendCmd_store _ _ _, sendCmd_now _ _ _, fun c' h => ?_⟩
      rcases mem_sendCmd h with rfl | h
      · exact Or.inr rfl
      · exact Or.inl h
    | some t =>
      refine ⟨sendCmd_store _ _ _, sendCmd_now _ _ _, fun c' h => ?_⟩
      rcases mem_sendCmd h with rfl | h
      · exact Or.inr rfl
      · exact Or.inl h

theorem putEff_clientPut (s : State) (c k v : Nat) : PutEff s (clientPut s c k v).1 k v := by
  unfold clientPut
  dsimp only
  split
  · exact PutEff.refl _ _ _
  · split
    · exact PutEff.refl _ _ _
    · exact putEff_clientPutChecked _ _ _ _ _ _

theorem putEff_clientPutW (s : State) (c k v : Nat) (w : Int) : PutEff s (clientPutW s c k v w).1 k v := by
  unfold clientPutW
  split
  · exact PutEff.refl _ _ _
  · split
    · exact PutEff.refl _ _ _
    · exact putEff_clientPutChecked _ _ _ _ _ _

theorem putEff_clientPutTtl (s : State) (c k v t : Nat) : PutEff s (clientPutTtl s c k v t).1 k v := by
  unfold clientPutTtl
  split
  · exact PutEff.refl _ _ _
  · dsimp only
    split
    · exact PutEff.refl _ _ _
    · exact putEff_clientPutChecked _ _ _ _ _ _

theorem putEff_clientPutWTtl (s : State) (c k v : Nat) (w : Int) (t : Nat) :
    PutEff s (clientPutWTtl s c k v w t).1 k v := by
  unfold clientPutWTtl
  split
  · exact PutEff.refl _ _ _
  · split
    · exact PutEff.refl _ _ _
    · exact putEff_clientPutChecked _ _ _ _ _ _

/-! ### `put_or_update` -/

/-- The four shapes of `put_or_update`: nothing happens (shutting down, or a panic before anything is touched);
    the key is absent and the call IS `put_with_weight` / `put_with_weight_and_ttl`; the key is present and is
    rewritten in place. -/
theorem clientUpsert_cases (s : State) (c k : Nat) (v : Option Nat) (w : Option Int) (ttl : Option Nat) (rm : Bool) :
    (clientUpsert s c k v w ttl rm).1 = s ∨
    (∃ val w', v = some val ∧ s.store.get? k = none ∧
      (clientUpsert s c k v w ttl rm = clientPutW s c k val w' ∨
       ∃ t, clientUpsert s c k v w ttl rm = clientPutWTtl s c k val w' t)) ∨
    (∃ e ne, s.shutting = false ∧ s.store.get? k = some e ∧
      clientUpsert s c k v w ttl rm = upsertFinish (upsertMid s k e v ne) c e.id (upsertWeight s e v w ttl ne)) := by
  cases hsh : s.shutting with
  | true => left; simp [clientUpsert, hsh]
  | false =>
    cases hk : s.store.get? k with
    | none =>
      obtain ⟨h1, _, _, h4⟩ := C08_as_put s c k w ttl rm hsh hk
      cases v with
      | none => left; rw [h4]
      | some val =>
        right; left
        refine ⟨val, w.getD (s.cfg.weightOf val ttl.isSome), rfl, rfl, ?_⟩
        rw [h1 val]
        cases ttl with
        | none => exact Or.inl rfl
        | some t => exact Or.inr ⟨t, rfl⟩
    | some e =>
      cases hne : upsertNewExpiry? s e ttl rm with
      | none => left; rw [clientUpsert_present_overflow s c k v w ttl rm e hsh hk hne]
      | some ne => right; right; exact ⟨e, ne, rfl, rfl, clientUpsert_present s c k v w ttl rm e ne hsh hk hne⟩

theorem upsertFinish_pend (s2 : State) (c id : Nat) (uw : Option Int) :
    ∀ c' ∈ pendingCmds (upsertFinish s2 c id uw).1, c' ∈ pendingCmds s2 ∨ c'.kv? = none := by
  intro c' h
  unfold upsertFinish at h
  cases uw with
  | none => exact Or.inl h
  | some x =>
    simp only at h
    split at h
    · exact Or.inl h
    · split at h
      · exact Or.inl h
      · rcases mem_sendCmd h with rfl | h
        · exact Or.inr rfl
        · exact Or.inl h

/-- `put_or_update`: clock untouched; the store is untouched or the entry of `k` is rewritten in place (same id and
    deletion flag, the value replaced iff one is given); a command issued is a put of `(k, val)` (absent key, value
    `val` given) or carries no value. -/
theorem clientUpsert_eff (s : State) (c k : Nat) (v : Option Nat) (w : Option Int) (ttl : Option Nat) (rm : Bool) :
    (clientUpsert s c k v w ttl rm).1.now = s.now ∧
    ((clientUpsert s c k v w ttl rm).1.store = s.store ∨
      ∃ e e', s.store.get? k = some e ∧ e'.id = e.id ∧ e'.soft = e.soft ∧ e'.value = v.getD e.value ∧
        (clientUpsert s c k v w ttl rm).1.store = s.store.set k e') ∧
    (∀ c' ∈ pendingCmds (clientUpsert s c k v w ttl rm).1,
      c' ∈ pendingCmds s ∨ c'.kv? = none ∨ ∃ val, v = some val ∧ c'.kv? = some (k, val)) := by
  rcases clientUpsert_cases s c k v w ttl rm with h | ⟨val, w', hv, _, h | ⟨t, h⟩⟩ | ⟨e, ne, _, hk, h⟩
  · rw [h]; exact ⟨rfl, Or.inl rfl, fun _ hm => Or.inl hm⟩
  · rw [h]
    have p := putEff_clientPutW s c k val w'
    refine ⟨p.now, Or.inl p.store, fun c' hm => ?_⟩
    rcases p.pend c' hm with h1 | h1
    · exact Or.inl h1
    · exact Or.inr (Or.inr ⟨val, hv, h1⟩)
  · rw [h]
    have p := putEff_clientPutWTtl s c k val w' t
    refine ⟨p.now, Or.inl p.store, fun c' hm => ?_⟩
    rcases p.pend c' hm with h1 | h1
    · exact Or.inl h1
    · exact Or.inr (Or.inr ⟨val, hv, h1⟩)
  · rw [h]
    obtain ⟨f1, _, _, f4, _, _⟩ := upsertFinish_frame (upsertMid s k e v ne) c e.id (upsertWeight s e v w ttl ne)
    refine ⟨f4, Or.inr ⟨e, { e with expiry := ne, value := v.getD e.value }, hk, rfl, rfl, rfl, f1⟩, fun c' hm => ?_⟩
    rcases upsertFinish_pend _ _ _ _ c' hm with h1 | h1
    · exact Or.inl h1
    · exact Or.inr (Or.inl h1)

/-! ### `delete` (client side) -/

theorem clientDelete_eff (s : State) (c k : Nat) :
    (clientDelete s c k).1.now = s.now ∧
    ((clientDelete s c k).1.store = s.store ∨
      ∃ e, s.store.get? k = some e ∧ (clientDelete s c k).1.store = s.store.set k { e with soft := true }) ∧
    (∀ c' ∈ pendingCmds (clientDelete s c k).1, c' ∈ pendingCmds s ∨ c'.kv? = none) := by
  unfold clientDelete
  split
  · exact ⟨rfl, Or.inl rfl, fun _ h => Or.inl h⟩
  · refine ⟨sendCmd_now _ _ _, ?_, fun c' h => ?_⟩
    · rw [sendCmd_store]
      dsimp only
      split
      · rename_i e he
        exact Or.inr ⟨e, he, rfl⟩
      · exact Or.inl rfl
    · rcases mem_sendCmd h with rfl | h
      · exact Or.inr rfl
      · exact Or.inl h

/-! ### how ONE event changes the entry of ONE key -/

/-- The complete list of ways in which one event `ev` (from `s` to `s'`) treats the entry of key `k`, each with the
    event — and for the worker the head command — that is responsible. -/
inductive KeyCh (s s' : State) (ev : Ev) (k : Nat) : Prop where
  /-- nothing happens to the key (absent stays absent, an entry stays the very same entry) -/
  | same : s'.store.get? k = s.store.get? k → KeyCh s s' ev k
  /-- `put_or_update` of this key rewrites the entry in place -/
  | upsert (c : Nat) (v : Option Nat) (w : Option Int) (t : Option Nat) (rm : Bool) (e e' : Entry) :
      ev = .upsert c k v w t rm → s.store.get? k = some e → s'.store.get? k = some e' →
      e'.id = e.id → e'.soft = e.soft → e'.value = v.getD e.value → KeyCh s s' ev k
  /-- `delete` of this key sets the soft-delete flag -/
  | softDelete (c : Nat) (e : Entry) :
      ev = .delete c k → s.store.get? k = some e → s'.store.get? k = some { e with soft := true } → KeyCh s s' ev k
  /-- the worker executes a `Delete` of this key -/
  | workerDelete (h : Option Nat) (q : List (Cmd × Option Nat)) :
      ev = .worker → s.worker = .running → s.queue = (.delete k, h) :: q → s'.store.get? k = none → KeyCh s s' ev k
  /-- the worker executes a put that does not fit: memory pressure evicts the key -/
  | evicted (id hash : Nat) (w : Int) (k' v : Nat) (h : Option Nat) (q : List (Cmd × Option Nat)) :
      ev = .worker → s.worker = .running →
      (s.queue = (.put id hash w k' v, h) :: q ∨ ∃ t, s.queue = (.putTtl id hash w k' v t, h) :: q) →
      s.adm.max - s.adm.used < w → s'.store.get? k = none → KeyCh s s' ev k
  /-- the worker executes a put of this (absent) key and stores a fresh entry -/
  | inserted (id hash : Nat) (w : Int) (v : Nat) (h : Option Nat) (q : List (Cmd × Option Nat)) (entry : Entry) :
      ev = .worker → s.worker = .running →
      (s.queue = (.put id hash w k v, h) :: q ∨ ∃ t, s.queue = (.putTtl id hash w k v t, h) :: q) →
      s.store.get? k = none → s'.store.get? k = some entry →
      entry.id = id → entry.value = v → entry.soft = false → KeyCh s s' ev k
  /-- the sweeper removes the key -/
  | swept (evs : List Evicted) :
      ev = .sweep → sweepStep s = .ok (s', .swept evs) → s'.store.get? k = none → KeyCh s s' ev k
  /-- `shutdown()` ran to its end and cleared the cache -/
  | shutdown (c : Nat) : ev = .shutdown c → s'.shutting = true → s'.store.get? k = none → KeyCh s s' ev k
  /-- a parked `shutdown()` continued, ran to its end and cleared the cache -/
  | resumedShutdown (c : Nat) :
      ev = .resume c → (s.pend.get? c = some .shutdownCmd ∨ s.pend.get? c = some .shutdownBuf) →
      s'.store.get? k = none → KeyCh s s' ev k

/-! ### the worker -/

theorem foldl_applyEvict_now (evs : List Evicted) : ∀ s : State, (evs.foldl applyEvict s).now = s.now := by
  induction evs with
  | nil => intro s; rfl
  | cons e evs ih =>
    intro s
    simp only [List.foldl_cons]
    rw [ih]
    exact (applyEvict_frame s e).2.2.2.2.2.2.1

/-- a put that fits (and is not heavier than the whole cache) is accepted at once, nothing is evicted — `hno`: the free
    space `max - used` is representable in `i64` (else the worker panics computing it) -/
theorem maybeAdd_fits (t : TinyLFU) (size : Nat) (a : Adm) (id key hash : Nat) (w : Int) (o : Oracle)
    (h1 : w ≤ a.max) (hno : a.spaceOverflow = false) (h2 : w ≤ a.max - a.used) :
    maybeAdd t size a id key hash w o = .ok { status := .accepted, adm := a.add id key hash w, oracle := o } := by
  unfold maybeAdd
  rw [if_neg (by omega), if_neg (by simp [hno]), if_pos (by omega)]

/-- evictions happen only under memory pressure -/
theorem maybeAdd_evicted {t : TinyLFU} {size : Nat} {a : Adm} {id key hash : Nat} {w : Int} {o : Oracle}
    {r : AdmResult} (h : maybeAdd t size a id key hash w o = .ok r) (hne : r.evicted ≠ []) :
    a.max - a.used < w := by
  unfold maybeAdd at h
  split at h
  · simp only [Except.ok.injEq] at h
    subst h
    exact absurd rfl hne
  · split at h
    · simp only [Except.ok.injEq] at h
      subst h
      exact absurd rfl hne
    split at h
    · simp only [Except.ok.injEq] at h
      subst h
      exact absurd rfl hne
    · omega

/-- the clock and the store after the worker executed a put -/
theorem workerPut_key {s : State} {id hash : Nat} {w : Int} {k v : Nat} {ttl : Option Nat} {o o' : Oracle}
    {ex : Exec} (h : workerPut s id hash w k v ttl o = .ok (ex, o')) :
    ex.kill.now = s.now ∧
    (ex.kill.store = s.store ∨
     (s.store.get? k = none ∧ ∃ evKeys, (evKeys ≠ [] → s.adm.max - s.adm.used < w) ∧
       (ex.kill.store = AMap.delKeys s.store evKeys ∨
        ∃ entry : Entry, entry.id = id ∧ entry.value = v ∧ entry.soft = false ∧
          ex.kill.store = (AMap.delKeys s.store evKeys).set k entry))) := by
  unfold workerPut at h
  split at h
  · simp only [Except.ok.injEq, Prod.mk.injEq] at h
    obtain ⟨rfl, _⟩ := h
    exact ⟨rfl, Or.inl rfl⟩
  · rename_i hcont
    have hk : s.store.get? k = none := by
      simp only [AMap.contains] at hcont
      cases hg : s.store.get? k with
      | none => rfl
      | some x => simp [hg] at hcont
    split at h
    · cases h
    · rename_i r hm
      obtain ⟨f1, _⟩ := foldl_applyEvict r.evicted { s with adm := r.adm }
      have fnow : (r.evicted.foldl applyEvict { s with adm := r.adm }).now = s.now :=
        foldl_applyEvict_now r.evicted { s with adm := r.adm }
      have hpress : r.evicted.map (·.2.1) ≠ [] → s.adm.max - s.adm.used < w := by
        intro hne
        refine maybeAdd_evicted hm ?_
        intro h0
        rw [h0] at hne
        exact hne rfl
      dsimp only at h
      split at h
      · simp only [Except.ok.injEq, Prod.mk.injEq] at h
        obtain ⟨rfl, _⟩ := h
        exact ⟨fnow, Or.inr ⟨hk, r.evicted.map (·.2.1), hpress, Or.inl (by simp only [Exec.kill, f1])⟩⟩
      split at h
      · split at h
        · simp only [Except.ok.injEq, Prod.mk.injEq] at h
          obtain ⟨rfl, _⟩ := h
          refine ⟨fnow, Or.inr ⟨hk, r.evicted.map (·.2.1), hpress,
            Or.inr ⟨{ value := v, id := id, expiry := none, soft := false }, rfl, rfl, rfl, ?_⟩⟩⟩
          simp only [Exec.kill, f1]
        · split at h
          · simp only [Except.ok.injEq, Prod.mk.injEq] at h
            obtain ⟨rfl, _⟩ := h
            exact ⟨fnow, Or.inr ⟨hk, r.evicted.map (·.2.1), hpress, Or.inl (by simp only [Exec.kill, f1])⟩⟩
          · rename_i e _
            simp only [Except.ok.injEq, Prod.mk.injEq] at h
            obtain ⟨rfl, _⟩ := h
            refine ⟨fnow, Or.inr ⟨hk, r.evicted.map (·.2.1), hpress,
              Or.inr ⟨{ value := v, id := id, expiry := some e, soft := false }, rfl, rfl, rfl, ?_⟩⟩⟩
            simp only [Exec.kill, ttlPut, f1]
      · simp only [Except.ok.injEq, Prod.mk.injEq] at h
        obtain ⟨rfl, _⟩ := h
        exact ⟨fnow, Or.inr ⟨hk, r.evicted.map (·.2.1), hpress, Or.inl (by simp only [Exec.kill, f1])⟩⟩

theorem workerUpdateWeight_now (s : State) (id : Nat) (w : Int) : (workerUpdateWeight s id w).kill.now = s.now := by
  unfold workerUpdateWeight
  split
  · rfl
  · dsimp only
    split <;> rfl

theorem workerDelete_now (s : State) (k : Nat) : (workerDelete s k).kill.now = s.now := by
  unfold workerDelete
  split
  · rfl
  · rename_i e he
    dsimp only
    cases hg : s.adm.kw.get? e.id with
    | none =>
      rw [Adm.delete_none hg]
      dsimp only
      cases e.expiry <;> rfl
    | some wk =>
      rw [Adm.delete_some hg]
      dsimp only
      cases e.expiry <;> rfl

/-- completing the acknowledgement (or dying) touches neither store, clock nor the pending commands -/
theorem workerFinish_kill {h : Option Nat} {kind : String} {ex : Exec} {o1 o' : Oracle} {s' : State} {out : Out}
    (hf : workerFinish h kind (ex, o1) = .ok (s', out, o')) :
    s'.store = ex.kill.store ∧ s'.now = ex.kill.now ∧ pendingCmds s' = pendingCmds ex.kill := by
  cases ex with
  | done s1 st ie pp ev =>
    simp only [workerFinish, Except.ok.injEq, Prod.mk.injEq] at hf
    obtain ⟨rfl, _, _⟩ := hf
    exact ⟨rfl, rfl, rfl⟩
  | panicked s1 p =>
    simp only [workerFinish, Except.ok.injEq, Prod.mk.injEq] at hf
    obtain ⟨rfl, _, _⟩ := hf
    exact ⟨rfl, rfl, rfl⟩

/-- **One step of the worker, one key.** -/
theorem workerStep_key {s s' : State} {o o' : Oracle} {out : Out} (hs : workerStep s o = .ok (s', out, o')) :
    s'.now = s.now ∧ (∀ c ∈ pendingCmds s', c ∈ pendingCmds s) ∧ ∀ k, KeyCh s s' .worker k := by
  cases hw : s.worker with
  | dead => simp [workerStep, hw] at hs
  | draining =>
    cases hq : s.queue with
    | nil => simp [workerStep, hw, hq] at hs
    | cons x q =>
      obtain ⟨cmd, h⟩ := x
      simp only [workerStep, hw, hq, Except.ok.injEq, Prod.mk.injEq] at hs
      obtain ⟨rfl, _, _⟩ := hs
      refine ⟨rfl, ?_, fun k => .same rfl⟩
      intro c hc
      simp only [pendingCmds_eq, hq, List.map_cons, List.cons_append] at hc ⊢
      exact List.mem_cons_of_mem _ hc
  | running =>
    cases hq : s.queue with
    | nil => simp [workerStep, hw, hq] at hs
    | cons x q =>
      obtain ⟨cmd, h⟩ := x
      rw [workerStep_running s o cmd h q hw hq] at hs
      have hpc : pendingCmds s = cmd :: pendingCmds { s with queue := q } := by
        simp only [pendingCmds_eq, hq, List.map_cons, List.cons_append]
      have tail : ∀ {s1 : State}, PLe (pendingCmds s1) (pendingCmds { s with queue := q }) →
          ∀ c ∈ pendingCmds s1, c ∈ pendingCmds s := by
        intro s1 hle c hc
        rw [hpc]
        exact List.mem_cons_of_mem _ (hle.1 c hc)
      have putCase : ∀ {id hash : Nat} {w : Int} {k0 v : Nat} {ttl : Option Nat} {ex : Exec} {o1 : Oracle} {kind : String},
          (cmd = .put id hash w k0 v ∨ ∃ t, cmd = .putTtl id hash w k0 v t) →
          workerPut { s with queue := q } id hash w k0 v ttl o = .ok (ex, o1) →
          workerFinish h kind (ex, o1) = .ok (s', out, o') →
          s'.now = s.now ∧ (∀ c ∈ pendingCmds s', c ∈ pendingCmds s) ∧ ∀ k, KeyCh s s' .worker k := by
        intro id hash w k0 v ttl ex o1 kind hcmd hr hf
        obtain ⟨g1, g2, g3⟩ := workerFinish_kill hf
        obtain ⟨a1, a2⟩ := workerPut_key hr
        obtain ⟨_, b2, _⟩ := workerPut_shape hr
        have hqueue : s.queue = (.put id hash w k0 v, h) :: q ∨ ∃ t, s.queue = (.putTtl id hash w k0 v t, h) :: q := by
          rcases hcmd with rfl | ⟨t, rfl⟩
          · exact Or.inl hq
          · exact Or.inr ⟨t, hq⟩
        refine ⟨g2.trans a1, fun c hc => tail b2 c (by rw [← g3]; exact hc), fun k => ?_⟩
        rcases a2 with a2 | ⟨hk0, evKeys, hpress, a2⟩
        · exact .same (by rw [g1, a2])
        · by_cases hmem : k ∈ evKeys
          · have hne : evKeys ≠ [] := by intro h0; rw [h0] at hmem; cases hmem
            rcases a2 with a2 | ⟨entry, e1, e2, e3, a2⟩
            · refine .evicted id hash w k0 v h q rfl hw hqueue (hpress hne) ?_
              rw [g1, a2, AMap.get?_delKeys]; simp [hmem]
            · by_cases hkk : k0 = k
              · subst hkk
                exact .inserted id hash w v h q entry rfl hw hqueue hk0 (by rw [g1, a2]; simp) e1 e2 e3
              · refine .evicted id hash w k0 v h q rfl hw hqueue (hpress hne) ?_
                rw [g1, a2, AMap.get?_set_other _ _ hkk, AMap.get?_delKeys]; simp [hmem]
          · rcases a2 with a2 | ⟨entry, e1, e2, e3, a2⟩
            · refine .same ?_
              rw [g1, a2, AMap.get?_delKeys]; simp [hmem]
            · by_cases hkk : k0 = k
              · subst hkk
                exact .inserted id hash w v h q entry rfl hw hqueue hk0 (by rw [g1, a2]; simp) e1 e2 e3
              · refine .same ?_
                rw [g1, a2, AMap.get?_set_other _ _ hkk, AMap.get?_delKeys]; simp [hmem]
      cases cmd with
      | shutdown =>
        simp only [Except.ok.injEq, Prod.mk.injEq] at hs
        obtain ⟨rfl, _, _⟩ := hs
        refine ⟨rfl, ?_, fun k => .same rfl⟩
        exact tail (s1 := { s with queue := q, worker := .draining, acks := setAck s.acks h .accepted }) (PLe.refl _)
      | put id hash w k0 v =>
        dsimp only at hs
        split at hs
        · rename_i r hr
          obtain ⟨ex, o1⟩ := r
          exact putCase (Or.inl rfl) hr hs
        · cases hs
      | putTtl id hash w k0 v t =>
        dsimp only at hs
        split at hs
        · rename_i r hr
          obtain ⟨ex, o1⟩ := r
          exact putCase (Or.inr ⟨t, rfl⟩) hr hs
        · cases hs
      | updateWeight id w =>
        dsimp only at hs
        obtain ⟨g1, g2, g3⟩ := workerFinish_kill hs
        obtain ⟨_, a2, a3⟩ := workerUpdateWeight_shape { s with queue := q } id w
        refine ⟨g2.trans (workerUpdateWeight_now _ _ _), fun c hc => tail a2 c (by rw [← g3]; exact hc),
          fun k => .same (by rw [g1, a3])⟩
      | delete k0 =>
        dsimp only at hs
        obtain ⟨g1, g2, g3⟩ := workerFinish_kill hs
        obtain ⟨_, a2, a3⟩ := workerDelete_shape { s with queue := q } k0
        refine ⟨g2.trans (workerDelete_now _ _), fun c hc => tail (by rw [a2]; exact PLe.refl _) c (by rw [← g3]; exact hc),
          fun k => ?_⟩
        rcases a3 with a3 | a3
        · exact .same (by rw [g1, a3])
        · by_cases hkk : k0 = k
          · subst hkk
            exact .workerDelete h q rfl hw hq (by rw [g1, a3]; simp)
          · exact .same (by rw [g1, a3]; exact AMap.get?_del_other _ hkk)

/-! ### the sweeper -/

theorem sweepStep_key {s s' : State} {out : Out} (hs : sweepStep s = .ok (s', out)) :
    s'.now = s.now ∧ pendingCmds s' = pendingCmds s ∧ ∀ k, KeyCh s s' .sweep k := by
  obtain ⟨evs, rfl⟩ := sweepStep_out hs
  have hs0 := hs
  obtain ⟨s1, sp, h1, _, _, h4, _⟩ := sweepStep_spec hs
  obtain ⟨_, _, rfl⟩ := sweepStep_eq hs
  obtain ⟨evNew, _, sp'⟩ := sweepEntries_spec (s.ttl.filter (due s)) s []
  refine ⟨h4, ?_, fun k => ?_⟩
  · show pendingCmds (sweepEntries s (s.ttl.filter (due s)) []).1 = pendingCmds s
    simp only [pendingCmds, sp'.queue, sp'.pend]
  · obtain ⟨ks, _, hks⟩ := sp.storeSub
    by_cases hmem : k ∈ ks
    · refine .swept evs rfl hs0 ?_
      rw [h1, hks, AMap.get?_delKeys]; simp [hmem]
    · refine .same ?_
      rw [h1, hks, AMap.get?_delKeys]; simp [hmem]

/-! ### `shutdown()` and parked calls -/

/-- what the functions on the path of `shutdown()` do: the clock is untouched; the store is untouched or emptied; a
    command pending afterwards was pending before or is `Shutdown` -/
structure ShutEff (s s' : State) : Prop where
  now : s'.now = s.now
  store : s'.store = s.store ∨ s'.store = []
  pend : ∀ c ∈ pendingCmds s', c ∈ pendingCmds s ∨ c = .shutdown

theorem ShutEff.refl (s : State) : ShutEff s s := ⟨rfl, Or.inl rfl, fun _ h => Or.inl h⟩

theorem ShutEff.trans {s s1 s2 : State} (h1 : ShutEff s s1) (h2 : ShutEff s1 s2) : ShutEff s s2 := by
  refine ⟨h2.now.trans h1.now, ?_, ?_⟩
  · rcases h2.store with h | h
    · rw [h]; exact h1.store
    · exact Or.inr h
  · intro c hc
    rcases h2.pend c hc with h | h
    · exact h1.pend c h
    · exact Or.inr h

theorem shutEff_shutdownFinish (s : State) : ShutEff s (shutdownFinish s) :=
  ⟨rfl, Or.inr rfl, fun _ h => Or.inl h⟩

theorem shutEff_shutdownSendBuf (s : State) (c : Nat) : ShutEff s (shutdownSendBuf s c).1 := by
  unfold shutdownSendBuf
  split
  · exact shutEff_shutdownFinish s
  · split
    · refine ⟨rfl, Or.inl rfl, fun c' hc => Or.inl ?_⟩
      simp only [pendingCmds_eq, pendCmds_set_shutdownBuf] at hc ⊢
      rcases List.mem_append.mp hc with h | h
      · exact List.mem_append.mpr (Or.inl h)
      · exact List.mem_append.mpr (Or.inr ((PLe_pendCmds_del _ _).1 c' h))
    · exact ShutEff.trans (s1 := { s with bufq := s.bufq ++ [.shutdown] }) ⟨rfl, Or.inl rfl, fun _ h => Or.inl h⟩
        (shutEff_shutdownFinish _)

theorem shutEff_shutdownSendCmd (s : State) (c : Nat) : ShutEff s (shutdownSendCmd s c).1 := by
  unfold shutdownSendCmd
  split
  · exact shutEff_shutdownSendBuf s c
  · split
    · refine ⟨rfl, Or.inl rfl, fun c' hc => Or.inl ?_⟩
      simp only [pendingCmds_eq, pendCmds_set_shutdownCmd] at hc ⊢
      rcases List.mem_append.mp hc with h | h
      · exact List.mem_append.mpr (Or.inl h)
      · exact List.mem_append.mpr (Or.inr ((PLe_pendCmds_del _ _).1 c' h))
    · refine ShutEff.trans (s1 := { s with queue := s.queue ++ [(.shutdown, none)] }) ⟨rfl, Or.inl rfl, ?_⟩
        (shutEff_shutdownSendBuf _ c)
      intro c' hc
      simp only [pendingCmds_eq, List.map_append, List.map_cons, List.map_nil, List.mem_append, List.mem_cons,
        List.not_mem_nil, or_false] at hc ⊢
      rcases hc with (h | h) | h
      · exact Or.inl (Or.inl h)
      · exact Or.inr h
      · exact Or.inl (Or.inr h)

theorem shutEff_clientShutdown (s : State) (c : Nat) : ShutEff s (clientShutdown s c).1 := by
  unfold clientShutdown
  split
  · exact ShutEff.refl s
  · exact ShutEff.trans (s1 := { s with shutting := true }) ⟨rfl, Or.inl rfl, fun _ h => Or.inl h⟩
      (shutEff_shutdownSendCmd _ c)

theorem clientShutdown_flag (s : State) (c : Nat) : (clientShutdown s c).1.shutting = true := by
  have := (qmono_clientShutdown s c).shutting
  unfold clientShutdown at this ⊢
  split
  · rename_i h; exact h
  · rename_i h
    exact (qmono_shutdownSendCmd { s with shutting := true } c).shutting rfl

/-- a parked call continues: `ShutEff`, and the store can only be emptied by a parked `shutdown()` -/
theorem resume_eff {s s' : State} {out : Out} {c : Nat} (hr : resume s c = .ok (s', out)) :
    ShutEff s s' ∧
    (s'.store = s.store ∨ s.pend.get? c = some .shutdownCmd ∨ s.pend.get? c = some .shutdownBuf) := by
  unfold resume at hr
  split at hr
  · cases hr
  · rename_i p hg
    have f0 : ShutEff s { s with pend := s.pend.del c } := by
      refine ⟨rfl, Or.inl rfl, fun c' hc => Or.inl ?_⟩
      simp only [pendingCmds_eq] at hc ⊢
      rcases List.mem_append.mp hc with h | h
      · exact List.mem_append.mpr (Or.inl h)
      · exact List.mem_append.mpr (Or.inr ((PLe_pendCmds_del _ _).1 c' h))
    dsimp only at hr
    split at hr
    · rename_i cmd
      split at hr
      · cases hr
      · simp only [Except.ok.injEq] at hr
        have e : s' = (sendCmd { s with pend := s.pend.del c } c cmd).1 := by rw [hr]
        rw [e]
        refine ⟨⟨sendCmd_now _ _ _, Or.inl (sendCmd_store _ _ _), fun c' hc => Or.inl ?_⟩, Or.inl (sendCmd_store _ _ _)⟩
        have hle : PLe (pendingCmds (sendCmd { s with pend := s.pend.del c } c cmd).1) (pendingCmds s) := by
          refine PLe.trans (ple_sendCmd _ c cmd) ?_
          simp only [pendingCmds_eq]
          exact PLe.trans (PLe.mid' _ _ _) (PLe.append (PLe.refl _) (PLe_pendCmds_del_get hg))
        exact hle.1 c' hc
    · split at hr
      · cases hr
      · simp only [Except.ok.injEq] at hr
        have e : s' = (shutdownSendCmd { s with pend := s.pend.del c } c).1 := by rw [hr]
        rw [e]
        exact ⟨f0.trans (shutEff_shutdownSendCmd _ c), Or.inr (Or.inl hg)⟩
    · split at hr
      · cases hr
      · simp only [Except.ok.injEq] at hr
        have e : s' = (shutdownSendBuf { s with pend := s.pend.del c } c).1 := by rw [hr]
        rw [e]
        exact ⟨f0.trans (shutEff_shutdownSendBuf _ c), Or.inr (Or.inr hg)⟩

/-! ### the ghost history of writes (C02) -/

/-- the (key, value) pairs an API call writes: the four puts, and `put_or_update` carrying a value -/
def writesOf : Ev → List (Nat × Nat)
  | .put _ k v => [(k, v)]
  | .putW _ k v _ => [(k, v)]
  | .putTtl _ k v _ => [(k, v)]
  | .putWTtl _ k v _ _ => [(k, v)]
  | .upsert _ k (some v) _ _ _ => [(k, v)]
  | _ => []

/-! ### every event: clock, pending commands, one key -/

/-- **One event.**  The clock stands still unless the event is a clock move (which only moves it forward); a command
    pending afterwards was pending before, carries no value, or carries a (key, value) pair the event itself writes;
    and each key is treated in one of the ways listed in `KeyCh`. -/
theorem step_frame {s s' : State} {ev : Ev} {o o' : Oracle} {out : Out} (hs : step s ev o = .ok (s', out, o')) :
    (s'.now = s.now ∨ ∃ d, ev = .advance d ∧ s'.now = s.now + d) ∧
    (∀ c ∈ pendingCmds s', c ∈ pendingCmds s ∨ c.kv? = none ∨ ∃ kv, c.kv? = some kv ∧ kv ∈ writesOf ev) ∧
    ∀ k, KeyCh s s' ev k := by
  have ofPut : ∀ {k0 v : Nat} {s1 : State}, PutEff s s1 k0 v → (k0, v) ∈ writesOf ev →
      (s1.now = s.now ∨ ∃ d, ev = .advance d ∧ s1.now = s.now + d) ∧
      (∀ c ∈ pendingCmds s1, c ∈ pendingCmds s ∨ c.kv? = none ∨ ∃ kv, c.kv? = some kv ∧ kv ∈ writesOf ev) ∧
      ∀ k, KeyCh s s1 ev k := by
    intro k0 v s1 p hw
    refine ⟨Or.inl p.now, fun c hc => ?_, fun k => .same (by rw [p.store])⟩
    rcases p.pend c hc with h | h
    · exact Or.inl h
    · exact Or.inr (Or.inr ⟨_, h, hw⟩)
  have ofRead : ∀ {s1 : State}, OnlyRead s s1 →
      (s1.now = s.now ∨ ∃ d, ev = .advance d ∧ s1.now = s.now + d) ∧
      (∀ c ∈ pendingCmds s1, c ∈ pendingCmds s ∨ c.kv? = none ∨ ∃ kv, c.kv? = some kv ∧ kv ∈ writesOf ev) ∧
      ∀ k, KeyCh s s1 ev k := by
    intro s1 h
    exact ⟨Or.inl h.now, fun c hc => Or.inl (by rw [← h.pendingCmds]; exact hc), fun k => .same (by rw [h.store])⟩
  unfold step at hs
  cases ev with
  | put c k0 v =>
    simp only [Except.ok.injEq, Prod.mk.injEq] at hs; obtain ⟨rfl, _, _⟩ := hs
    exact ofPut (putEff_clientPut s c k0 v) (by simp [writesOf])
  | putW c k0 v w =>
    simp only [Except.ok.injEq, Prod.mk.injEq] at hs; obtain ⟨rfl, _, _⟩ := hs
    exact ofPut (putEff_clientPutW s c k0 v w) (by simp [writesOf])
  | putTtl c k0 v t =>
    simp only [Except.ok.injEq, Prod.mk.injEq] at hs; obtain ⟨rfl, _, _⟩ := hs
    exact ofPut (putEff_clientPutTtl s c k0 v t) (by simp [writesOf])
  | putWTtl c k0 v w t =>
    simp only [Except.ok.injEq, Prod.mk.injEq] at hs; obtain ⟨rfl, _, _⟩ := hs
    exact ofPut (putEff_clientPutWTtl s c k0 v w t) (by simp [writesOf])
  | upsert c k0 v w t rm =>
    simp only [Except.ok.injEq, Prod.mk.injEq] at hs; obtain ⟨rfl, _, _⟩ := hs
    obtain ⟨h1, h2, h3⟩ := clientUpsert_eff s c k0 v w t rm
    refine ⟨Or.inl h1, fun c' hc => ?_, fun k => ?_⟩
    · rcases h3 c' hc with h | h | ⟨val, hv, h⟩
      · exact Or.inl h
      · exact Or.inr (Or.inl h)
      · subst hv
        exact Or.inr (Or.inr ⟨_, h, by simp [writesOf]⟩)
    · rcases h2 with h2 | ⟨e, e', he, i1, i2, i3, h2⟩
      · exact .same (by rw [h2])
      · by_cases hkk : k0 = k
        · subst hkk
          exact .upsert c v w t rm e e' rfl he (by rw [h2]; simp) i1 i2 i3
        · exact .same (by rw [h2]; exact AMap.get?_set_other _ _ hkk)
  | delete c k0 =>
    simp only [Except.ok.injEq, Prod.mk.injEq] at hs; obtain ⟨rfl, _, _⟩ := hs
    obtain ⟨h1, h2, h3⟩ := clientDelete_eff s c k0
    refine ⟨Or.inl h1, fun c' hc => ?_, fun k => ?_⟩
    · rcases h3 c' hc with h | h
      · exact Or.inl h
      · exact Or.inr (Or.inl h)
    · rcases h2 with h2 | ⟨e, he, h2⟩
      · exact .same (by rw [h2])
      · by_cases hkk : k0 = k
        · subst hkk
          exact .softDelete c e rfl he (by rw [h2]; simp)
        · exact .same (by rw [h2]; exact AMap.get?_set_other _ _ hkk)
  | get k0 => exact ofRead (clientGet_spec hs).1
  | multiGet ks => exact ofRead (clientMultiGet_spec hs).1
  | weight =>
    simp only [Except.ok.injEq, Prod.mk.injEq] at hs; obtain ⟨rfl, _, _⟩ := hs; exact ofRead (OnlyRead.refl _)
  | stats =>
    simp only [Except.ok.injEq, Prod.mk.injEq] at hs; obtain ⟨rfl, _, _⟩ := hs; exact ofRead (OnlyRead.refl _)
  | worker =>
    obtain ⟨h1, h2, h3⟩ := workerStep_key hs
    exact ⟨Or.inl h1, fun c hc => Or.inl (h2 c hc), h3⟩
  | sweep =>
    dsimp only at hs
    split at hs
    · rename_i r hr
      simp only [Except.ok.injEq, Prod.mk.injEq] at hs; obtain ⟨rfl, _, _⟩ := hs
      obtain ⟨h1, h2, h3⟩ := sweepStep_key (out := r.2) hr
      exact ⟨Or.inl h1, fun c hc => Or.inl (by rw [← h2]; exact hc), h3⟩
    · cases hs
  | consumer =>
    have hsame := same_consumerStep hs
    obtain ⟨_, hnow⟩ := C09_frame_consumer s s' o o' out hs
    exact ⟨Or.inl hnow, fun c hc => Or.inl (by rw [← hsame.pendingCmds]; exact hc), fun k => .same (by rw [hsame.store])⟩
  | advance d =>
    simp only [Except.ok.injEq, Prod.mk.injEq] at hs; obtain ⟨rfl, _, _⟩ := hs
    exact ⟨Or.inr ⟨d, rfl, rfl⟩, fun c hc => Or.inl hc, fun k => .same rfl⟩
  | shutdown c =>
    simp only [Except.ok.injEq, Prod.mk.injEq] at hs; obtain ⟨rfl, _, _⟩ := hs
    have e := shutEff_clientShutdown s c
    refine ⟨Or.inl e.now, fun c' hc => ?_, fun k => ?_⟩
    · rcases e.pend c' hc with h | h
      · exact Or.inl h
      · subst h; exact Or.inr (Or.inl rfl)
    · rcases e.store with h | h
      · exact .same (by rw [h])
      · exact .shutdown c rfl (clientShutdown_flag s c) (by rw [h]; rfl)
  | resume c =>
    dsimp only at hs
    split at hs
    · rename_i r hr
      simp only [Except.ok.injEq, Prod.mk.injEq] at hs; obtain ⟨rfl, _, _⟩ := hs
      obtain ⟨e, h2⟩ := resume_eff (out := r.2) hr
      refine ⟨Or.inl e.now, fun c' hc => ?_, fun k => ?_⟩
      · rcases e.pend c' hc with h | h
        · exact Or.inl h
        · subst h; exact Or.inr (Or.inl rfl)
      · rcases h2 with h2 | h2
        · exact .same (by rw [h2])
        · rcases e.store with h | h
          · exact .same (by rw [h])
          · exact .resumedShutdown c rfl h2 (by rw [h]; rfl)
    · cases hs
  | poll hh =>
    dsimp only at hs
    split at hs
    · simp only [Except.ok.injEq, Prod.mk.injEq] at hs; obtain ⟨rfl, _, _⟩ := hs
      exact ofRead (OnlyRead.refl _)
    · cases hs

/-- the clock never runs backwards -/
theorem step_now_le {s s' : State} {ev : Ev} {o o' : Oracle} {out : Out} (hs : step s ev o = .ok (s', out, o')) :
    s.now ≤ s'.now := by
  rcases (step_frame hs).1 with h | ⟨d, _, h⟩ <;> omega

theorem step_key {s s' : State} {ev : Ev} {o o' : Oracle} {out : Out} (hs : step s ev o = .ok (s', out, o'))
    (k : Nat) : KeyCh s s' ev k := (step_frame hs).2.2 k

/-! ### `Written`: stored values come from the history of writes -/

/-- every stored value, and every value on its way to the store (in a queued or parked put command), was written
    to that very key by an API call of the history `W` -/
def Written (s : State) (W : List (Nat × Nat)) : Prop :=
  (∀ k e, s.store.get? k = some e → (k, e.value) ∈ W) ∧
  (∀ c ∈ pendingCmds s, ∀ kv, c.kv? = some kv → kv ∈ W)

theorem written_init (cfg : Cfg) (now : Nat) (seeds : List Nat) : Written (State.init cfg now seeds) [] := by
  constructor
  · intro k e h; simp [State.init] at h
  · intro c hc; simp [State.init, pendingCmds] at hc

/-- **`Written` is preserved by every event**, the history growing by the writes of the event. -/
theorem written_step {s s' : State} {ev : Ev} {o o' : Oracle} {out : Out} {W : List (Nat × Nat)}
    (h : Written s W) (hs : step s ev o = .ok (s', out, o')) : Written s' (W ++ writesOf ev) := by
  obtain ⟨_, hp, hk⟩ := step_frame hs
  constructor
  · intro k e' he'
    cases hk k with
    | same h1 => rw [h1] at he'; exact List.mem_append_left _ (h.1 k e' he')
    | upsert c v w t rm e e1 hev h0 h1 i1 i2 i3 =>
      rw [h1] at he'
      simp only [Option.some.injEq] at he'
      subst he'
      rw [i3]
      cases v with
      | none => exact List.mem_append_left _ (h.1 k e h0)
      | some val => subst hev; exact List.mem_append_right _ (by simp [writesOf])
    | softDelete c e hev h0 h1 =>
      rw [h1] at he'
      simp only [Option.some.injEq] at he'
      subst he'
      exact List.mem_append_left _ (h.1 k e h0)
    | workerDelete hh q _ _ _ h1 => rw [h1] at he'; cases he'
    | evicted id hash w k' v hh q _ _ _ _ h1 => rw [h1] at he'; cases he'
    | inserted id hash w v hh q entry _ _ hq _ h1 i1 i2 _ =>
      rw [h1] at he'
      simp only [Option.some.injEq] at he'
      subst he'
      rw [i2]
      refine List.mem_append_left _ ?_
      rcases hq with hq | ⟨t, hq⟩
      · exact h.2 (.put id hash w k v) (by simp [pendingCmds, hq]) _ rfl
      · exact h.2 (.putTtl id hash w k v t) (by simp [pendingCmds, hq]) _ rfl
    | swept evs _ _ h1 => rw [h1] at he'; cases he'
    | shutdown c _ _ h1 => rw [h1] at he'; cases he'
    | resumedShutdown c _ _ h1 => rw [h1] at he'; cases he'
  · intro c hc kv hkv
    rcases hp c hc with h1 | h1 | ⟨kv', h1, h2⟩
    · exact List.mem_append_left _ (h.2 c h1 kv hkv)
    · rw [h1] at hkv; cases hkv
    · rw [h1] at hkv
      simp only [Option.some.injEq] at hkv
      subst hkv
      exact List.mem_append_right _ h2

/-- reachable states together with the history of writes issued so far (each API call runs its caller-side program
    atomically in Layer A, so these are the writes that BEGAN before the current moment) -/
inductive ReachW (cfg : Cfg) (now : Nat) (seeds : List Nat) : State → List (Nat × Nat) → Prop where
  | init : ReachW cfg now seeds (State.init cfg now seeds) []
  | step {s s' : State} {W : List (Nat × Nat)} {ev : Ev} {o o' : Oracle} {out : Out} :
      ReachW cfg now seeds s W → Cached.step s ev o = .ok (s', out, o') → ReachW cfg now seeds s' (W ++ writesOf ev)

theorem written_reach {cfg : Cfg} {now : Nat} {seeds : List Nat} {s : State} {W : List (Nat × Nat)}
    (h : ReachW cfg now seeds s W) : Written s W := by
  induction h with
  | init => exact written_init cfg now seeds
  | step _ hs ih => exact written_step ih hs

theorem ReachW.reach {cfg : Cfg} {now : Nat} {seeds : List Nat} {s : State} {W : List (Nat × Nat)}
    (h : ReachW cfg now seeds s W) : Reach cfg now seeds s := by
  induction h with
  | init => exact Reach.init
  | step _ hs ih => exact Reach.step ih hs

theorem Reach.reachW {cfg : Cfg} {now : Nat} {seeds : List Nat} {s : State} (h : Reach cfg now seeds s) :
    ∃ W, ReachW cfg now seeds s W := by
  induction h with
  | init => exact ⟨[], ReachW.init⟩
  | step _ hs ih => obtain ⟨W, hW⟩ := ih; exact ⟨_, ReachW.step hW hs⟩

/-- the queue invariant of Lemmas/Queue.lean holds at every state reachable in the sense of Lemmas/Inv.lean -/
theorem qinv_of_reach {cfg : Cfg} {now : Nat} {seeds : List Nat} {s : State} (h : Reach cfg now seeds s) : QInv s := by
  induction h with
  | init => exact qinv_init cfg now seeds
  | step _ hs ih => exact qinv_step ih hs

/-! ### a put that fits -/

/-- The worker executes a put of an absent key that fits into the free space (and is not heavier than the whole
    cache): accepted without any admission activity — no estimate, no sample, no eviction — and every other key is
    untouched.  (With a time-to-live whose deadline is not representable the worker panics instead, after the
    admission; also then nothing is evicted.) -/
theorem workerPut_fits (s : State) (id hash : Nat) (w : Int) (k v : Nat) (ttl : Option Nat) (o : Oracle)
    (hk : s.store.get? k = none) (h1 : w ≤ s.adm.max) (hno : s.adm.spaceOverflow = false)
    (h2 : w ≤ s.adm.max - s.adm.used) :
    (∃ s1 entry, workerPut s id hash w k v ttl o = .ok (.done s1 .accepted none [] [], o) ∧
      s1.store = s.store.set k entry ∧ entry.value = v ∧ entry.id = id ∧ entry.soft = false) ∨
    (∃ s1 t, ttl = some t ∧ addTime s.now t = none ∧
      workerPut s id hash w k v ttl o = .ok (.panicked s1 .timeOverflow, o) ∧ s1.store = s.store) := by
  have hc : s.store.contains k = false := by simp [AMap.contains, hk]
  unfold workerPut
  simp only [hc, Bool.false_eq_true, if_false, maybeAdd_fits _ _ _ _ _ _ _ _ h1 hno h2, List.foldl_nil, if_true]
  cases ttl with
  | none => exact Or.inl ⟨_, _, rfl, rfl, rfl, rfl, rfl⟩
  | some t =>
    cases ha : addTime s.now t with
    | none =>
      simp only [ha]
      exact Or.inr ⟨_, t, rfl, ha, rfl, rfl⟩
    | some x =>
      simp only [ha]
      exact Or.inl ⟨_, { value := v, id := id, expiry := some x, soft := false }, rfl, rfl, rfl, rfl, rfl⟩

end Cached
