/-
  Extra/Progress  —  C13 / C12 / C18 (progress): the command worker can ALWAYS take its next step.

  Gap closed: `C13_worker_always_enabled` (Properties/C13.lean) excludes put heads, so the queue was never shown to
  drain and `C13_no_caller_waits_forever` (which assumes an empty queue) had no way to be reached.

    1  legal oracle answers exist: the exact-set doorkeeper answer (`TinyLFU.hasLegal_exact`), the first not-yet-sampled
       ids of `kw` in list order (`fillSample_exists`), a maximum of the heap order in every non-empty sample
       (`SKey.exists_max`), hence the whole `create_space` loop (`createLoop_exists`, by induction on its fuel),
       `maybe_add` (`maybeAdd_exists`) and the worker's put (`workerPut_step_exists`) can be served.  The oracle is
       built back to front ("for every oracle `o'` to be left over there is an `o` …"), by induction on the loop's
       fuel; it is NOT exhibited as a closed-form `canonOracle : State → Oracle`.
    2  `C13_worker_step_exists` (+ `_of_noDup`, `_reach`): Layer A, every head command, every live worker.
       Hypotheses actually used: pairwise distinct charged ids (`Inv.kwNoDup`; with an id charged twice `fillNeed`
       asks for more distinct ids than exist and NO oracle is legal — an artefact of the association list, a `DashMap`
       has no duplicate keys) and a well-formed sketch (else `estimate` is the sketch-index panic, an `.error`).
    3  `C13_queue_drains` (+ `_reach`), `C13_worker_run_takes_prefix`, `C13_draining_queue_drains`,
       `C13_draining_answers_all`; `wf_step` / `wf_reach`: the sketch stays well formed at every reachable state of
       Layer A (so the reach versions need `seeds ≠ []` only).
    4  Layer B: `C13_layerB_worker_enabled` (+ `_of_inv`): at every reachable state of every interleaving the worker's
       next ACTION is enabled for some oracle, or it waits for `weight_used`, a `get_ref` read guard or an expiry shard
       (the request named the first two; `ttl.put` / `ttl.delete` of the worker also wait for the third) whose holder
       is enabled; new invariant `WSampleND` (the sample the worker carries has pairwise distinct ids).

  Helper lemmas live in this file (and not under Lemmas/) because this is the one file the task allowed.
-/
import CachedProofs.Properties.C13
import CachedProofs.Properties.C14
import CachedProofs.Properties.C06
import CachedProofs.Lemmas.Inv
import CachedProofs.Lemmas.Frame
import CachedProofs.LayerB.NoPanic

namespace Cached

/-! ## 1  legal oracle answers exist -/

/-- The exact-set doorkeeper answer is legal for `has`. -/
theorem TinyLFU.hasLegal_exact (t : TinyLFU) (h : Nat) : t.hasLegal h (t.dk.contains h) = true := by
  unfold TinyLFU.hasLegal
  cases hd : t.dk with
  | nil => simp
  | cons a l => cases (a :: l).contains h <;> simp

/-- In a well-formed sketch `AdmissionPolicy::estimate` succeeds with the exact-set doorkeeper answer, consuming
    exactly that answer. -/
theorem estimateO_exists (t : TinyLFU) (wf : t.fc.WF) (h : Nat) :
    ∃ e, ∀ o' : Oracle, estimateO t h { o' with dk := t.dk.contains h :: o'.dk } = .ok (e, o') := by
  obtain ⟨_, e, he, _⟩ := C14_in_bounds t.fc wf h
  refine ⟨e + (if t.dk.contains h then 1 else 0), ?_⟩
  intro o'
  unfold estimateO
  simp only [TinyLFU.hasLegal_exact, Bool.not_true, Bool.false_eq_true, if_false, TinyLFU.estimate, he]

/-! ### the sample: distinct ids -/

/-- the ids of a sample are pairwise distinct -/
def SampleND (sample : List SKey) : Prop := (sample.map (·.id)).Nodup

theorem SampleND.nil : SampleND [] := List.nodup_nil

theorem SampleND.filter {sample : List SKey} (h : SampleND sample) (p : SKey → Bool) : SampleND (sample.filter p) :=
  List.Nodup.sublist (List.Sublist.map _ (List.filter_sublist)) h

theorem SampleND.cons {sample : List SKey} (h : SampleND sample) {x : SKey}
    (hx : sample.any (fun y => y.id == x.id) = false) : SampleND (x :: sample) := by
  unfold SampleND
  rw [List.map_cons, List.nodup_cons]
  refine ⟨?_, h⟩
  intro hm
  obtain ⟨y, hy, hid⟩ := List.mem_map.mp hm
  have : sample.any (fun y => y.id == x.id) = true := List.any_eq_true.mpr ⟨y, hy, by simp [hid]⟩
  rw [hx] at this; cases this

theorem SampleND.find? {sample : List SKey} (h : SampleND sample) {k : SKey} (hk : k ∈ sample) :
    sample.find? (fun x => x.id == k.id) = some k := by
  induction sample with
  | nil => cases hk
  | cons x rest ih =>
    unfold SampleND at h
    rw [List.map_cons, List.nodup_cons] at h
    rw [List.find?_cons]
    rw [List.mem_cons] at hk
    rcases hk with rfl | hk
    · simp
    · have hne : (x.id == k.id) = false := by
        apply Bool.eq_false_iff.mpr
        intro e
        have e' : x.id = k.id := by simpa using e
        exact h.1 (by rw [e']; exact List.mem_map.mpr ⟨k, hk, rfl⟩)
      rw [hne]
      exact ih h.2 hk

/-- `fillSample` never pushes an id twice. -/
theorem fillSample_sampleND {t : TinyLFU} {kw : AMap Nat WKey} :
    ∀ (n : Nat) (sample : List SKey) (o : Oracle) (s' : List SKey) (o' : Oracle), SampleND sample →
      fillSample t kw n sample o = .ok (s', o') → SampleND s' := by
  intro n
  induction n with
  | zero =>
    intro sample o s' o' hs h
    simp only [fillSample, Except.ok.injEq, Prod.mk.injEq] at h
    obtain ⟨rfl, _⟩ := h
    exact hs
  | succ n ih =>
    intro sample o s' o' hs h
    unfold fillSample at h
    split at h
    · cases h
    · split at h
      · cases h
      · split at h
        · cases h
        · rename_i hany
          split at h
          · cases h
          · refine ih _ _ _ _ (SampleND.cons hs ?_) h
            simpa using hany

/-! ### the heap order has a maximum in every non-empty sample -/

theorem SKey.exists_max : ∀ (sample : List SKey), sample ≠ [] → ∃ k, k ∈ sample ∧ k.isMaxOf sample = true := by
  intro sample
  induction sample with
  | nil => intro h; exact absurd rfl h
  | cons x rest ih =>
    intro _
    cases rest with
    | nil =>
      refine ⟨x, by simp, ?_⟩
      rw [SKey.isMaxOf_iff_forall]
      intro y hy
      simp only [List.mem_singleton] at hy
      subst hy
      exact ⟨Nat.le_refl _, fun _ => Int.le_refl _⟩
    | cons y rest' =>
      obtain ⟨m, hm, hmax⟩ := ih (by simp)
      rw [SKey.isMaxOf_iff_forall] at hmax
      by_cases hx : x.est < m.est ∨ (x.est = m.est ∧ m.weight ≤ x.weight)
      · refine ⟨x, by simp, ?_⟩
        rw [SKey.isMaxOf_iff_forall]
        intro z hz
        rw [List.mem_cons] at hz
        rcases hz with rfl | hz
        · exact ⟨Nat.le_refl _, fun _ => Int.le_refl _⟩
        · have := hmax z hz
          constructor
          · omega
          · intro e; have := this.2; omega
      · refine ⟨m, List.mem_cons_of_mem _ hm, ?_⟩
        rw [SKey.isMaxOf_iff_forall]
        intro z hz
        rw [List.mem_cons] at hz
        rcases hz with rfl | hz
        · constructor
          · omega
          · intro e; omega
        · exact hmax z hz

/-! ### `notSampled` -/

theorem notSampled_cons (kw : AMap Nat WKey) (x : SKey) (sample : List SKey) :
    notSampled kw (x :: sample) = (notSampled kw sample).filter (fun id => !(x.id == id)) := by
  unfold notSampled
  rw [List.filter_filter]
  congr 1
  funext id
  simp only [List.any_cons, Bool.not_or]

theorem notSampled_nodup {kw : AMap Nat WKey} (hn : AMap.NoDup kw) (sample : List SKey) :
    (notSampled kw sample).Nodup :=
  List.Nodup.sublist List.filter_sublist hn

theorem mem_notSampled {kw : AMap Nat WKey} {sample : List SKey} {id : Nat} (h : id ∈ notSampled kw sample) :
    (∃ wk, kw.get? id = some wk) ∧ sample.any (fun x => x.id == id) = false := by
  unfold notSampled at h
  rw [List.mem_filter] at h
  obtain ⟨h1, h2⟩ := h
  constructor
  · cases hg : kw.get? id with
    | none => exact absurd h1 (AMap.get?_eq_none_iff.mp hg)
    | some wk => exact ⟨wk, rfl⟩
  · simpa using h2

/-! ### `fillSample` can always be served -/

/-- **`maybe_fill_in` can always be served.**  In a well-formed sketch, with pairwise distinct charged ids, for every
    `n` not exceeding the number of charged ids not yet sampled (`fillNeed` is such an `n`) there is a filled sample
    `s'` such that, for every oracle `o'` to be left over, some oracle `o` (the first `n` not-yet-sampled ids of `kw`
    in list order, with the exact-set doorkeeper answers for their hashes, in front of `o'`) makes `fillSample`
    succeed with `(s', o')`. -/
theorem fillSample_exists (t : TinyLFU) (wf : t.fc.WF) {kw : AMap Nat WKey} (hn : AMap.NoDup kw) :
    ∀ (n : Nat) (sample : List SKey), n ≤ (notSampled kw sample).length →
      ∃ s', ∀ o' : Oracle, ∃ o : Oracle, fillSample t kw n sample o = .ok (s', o') := by
  intro n
  induction n with
  | zero =>
    intro sample _
    exact ⟨sample, fun o' => ⟨o', rfl⟩⟩
  | succ n ih =>
    intro sample hlen
    cases hl : notSampled kw sample with
    | nil => rw [hl] at hlen; simp at hlen
    | cons id rest =>
      have hid : id ∈ notSampled kw sample := by rw [hl]; simp
      obtain ⟨⟨wk, hg⟩, hany⟩ := mem_notSampled hid
      obtain ⟨e, he⟩ := estimateO_exists t wf wk.hash
      have hnd := notSampled_nodup hn sample
      rw [hl, List.nodup_cons] at hnd
      have hlen' : n ≤ (notSampled kw ({ id := id, weight := wk.weight, est := e } :: sample)).length := by
        rw [notSampled_cons, hl]
        have : (id :: rest).filter (fun i => !(id == i)) = rest := by
          rw [List.filter_cons]
          simp only [beq_self_eq_true, Bool.not_true, Bool.false_eq_true, if_false]
          rw [List.filter_eq_self]
          intro a ha
          have : id ≠ a := fun e => hnd.1 (e ▸ ha)
          simp [this]
        rw [this]
        rw [hl] at hlen
        simp only [List.length_cons] at hlen
        omega
      obtain ⟨s', hs'⟩ := ih _ hlen'
      refine ⟨s', fun o' => ?_⟩
      obtain ⟨o2, ho2⟩ := hs' o'
      refine ⟨{ o2 with ids := id :: o2.ids, dk := t.dk.contains wk.hash :: o2.dk }, ?_⟩
      unfold fillSample
      simp only [hg, hany, Bool.false_eq_true, if_false]
      have := he o2
      simp only [this]
      exact ho2

/-! ### the `create_space` loop can always be served -/

theorem Adm.delete_noDup {a : Adm} (hn : AMap.NoDup a.kw) (id : Nat) : AMap.NoDup (a.delete id).1.kw := by
  rcases Adm.delete_kw a id with h | ⟨h, _⟩
  · rw [h]; exact AMap.noDup_del hn id
  · rw [h]; exact hn

theorem createLoop_exists (t : TinyLFU) (wf : t.fc.WF) (size : Nat) (w : Int) (incEst : Nat) :
    ∀ (fuel : Nat) (a : Adm) (sample : List SKey) (ev : List Evicted) (pp : List SKey),
      AMap.NoDup a.kw → SampleOK a.kw sample → SampleND sample → a.kw.length < fuel →
      ∀ o' : Oracle, ∃ (o : Oracle) (r : LoopResult),
        createLoop t size w incEst fuel a sample o ev pp = .ok r ∧ r.oracle = o' := by
  intro fuel
  induction fuel with
  | zero => intro a sample ev pp _ _ _ hlen; omega
  | succ fuel ih =>
    intro a sample ev pp hn hok hnd hlen o'
    by_cases hfit : a.max - a.used ≥ w
    · refine ⟨o', { status := .accepted, adm := a, oracle := o', evicted := ev.reverse, popped := pp.reverse }, ?_, rfl⟩
      unfold createLoop
      rw [if_pos hfit]
    · cases hsm : sample with
      | nil =>
        refine ⟨{ o' with pops := none :: o'.pops },
          { status := .rejected .noSpace, adm := a, oracle := o', evicted := ev.reverse, popped := pp.reverse }, ?_, rfl⟩
        unfold createLoop
        rw [if_neg hfit]
        simp only [List.isEmpty_nil, Bool.not_true, Bool.false_eq_true, if_false]
      | cons x rest =>
        rw [← hsm]
        obtain ⟨k, hk, hmax⟩ := SKey.exists_max sample (by rw [hsm]; simp)
        have hfind := hnd.find? hk
        by_cases hhot : incEst < k.est
        · refine ⟨{ o' with pops := some k.id :: o'.pops },
            { status := .rejected .noSpace, adm := a, oracle := o', evicted := ev.reverse,
              popped := (k :: pp).reverse }, ?_, rfl⟩
          unfold createLoop
          rw [if_neg hfit]
          simp only [hfind, hmax, Bool.not_true, Bool.false_eq_true, if_false, hhot, if_true]
        · by_cases hov : (a.delete k.id).1.spaceOverflow = true
          · -- the re-check after the eviction overflows: the run ends there (the worker's panic), nothing more is consumed
            refine ⟨{ o' with pops := some k.id :: o'.pops },
              { status := .pending, adm := (a.delete k.id).1, oracle := o',
                evicted := (match (a.delete k.id).2 with | some e => e :: ev | none => ev).reverse,
                popped := (k :: pp).reverse, overflow := true }, ?_, rfl⟩
            unfold createLoop
            rw [if_neg hfit]
            simp only [hfind, hmax, Bool.not_true, Bool.false_eq_true, if_false, hhot, hov, if_true]
            rfl
          have hn' := Adm.delete_noDup hn k.id
          have hok' := SampleOK.delete_filter hok k.id
          have hnd' := hnd.filter (fun x => x.id != k.id)
          obtain ⟨s'', hs''⟩ := fillSample_exists t wf hn'
            (fillNeed size (a.delete k.id).1.kw (sample.filter (fun x => x.id != k.id)))
            (sample.filter (fun x => x.id != k.id)) (Nat.min_le_right _ _)
          obtain ⟨o0, ho0⟩ := hs'' o'
          have hok'' := fillSample_sampleOK hok' ho0
          have hnd'' := fillSample_sampleND _ _ _ _ _ hnd' ho0
          have hlen' : (a.delete k.id).1.kw.length < fuel := by
            have := Adm.delete_length_lt a k.id (hok k hk)
            omega
          obtain ⟨o1, r, hr, hro⟩ := ih (a.delete k.id).1 s''
            (match (a.delete k.id).2 with | some e => e :: ev | none => ev) (k :: pp) hn' hok'' hnd'' hlen' o'
          obtain ⟨o2, ho2⟩ := hs'' o1
          refine ⟨{ o2 with pops := some k.id :: o2.pops }, r, ?_, hro⟩
          unfold createLoop
          rw [if_neg hfit]
          simp only [hfind, hmax, Bool.not_true, Bool.false_eq_true, if_false, hhot, hov]
          have he : ({ { o2 with pops := some k.id :: o2.pops } with pops := o2.pops } : Oracle) = o2 := rfl
          rw [he, ho2]
          exact hr

/-! ### `maybe_add`, the worker's put -/

/-- **`maybe_add` can always be served**: well-formed sketch, pairwise distinct charged ids. -/
theorem maybeAdd_exists (t : TinyLFU) (wf : t.fc.WF) (size : Nat) (a : Adm) (hn : AMap.NoDup a.kw)
    (id key hash : Nat) (w : Int) :
    ∀ o' : Oracle, ∃ (o : Oracle) (r : AdmResult), maybeAdd t size a id key hash w o = .ok r ∧ r.oracle = o' := by
  intro o'
  by_cases hmax : w > a.max
  · refine ⟨o', { status := .rejected .tooHeavy, adm := a, oracle := o' }, ?_, rfl⟩
    unfold maybeAdd
    rw [if_pos hmax]
  · by_cases hov : a.spaceOverflow = true
    · refine ⟨o', { status := .pending, adm := a, oracle := o', overflow := true }, ?_, rfl⟩
      unfold maybeAdd
      rw [if_neg hmax, if_pos hov]
    by_cases hfit : a.max - a.used ≥ w
    · refine ⟨o', { status := .accepted, adm := a.add id key hash w, oracle := o' }, ?_, rfl⟩
      unfold maybeAdd
      rw [if_neg hmax, if_neg hov, if_pos hfit]
    · obtain ⟨incEst, hest⟩ := estimateO_exists t wf hash
      obtain ⟨sample, hsample⟩ := fillSample_exists t wf hn (fillNeed size a.kw []) [] (Nat.min_le_right _ _)
      obtain ⟨o0, ho0⟩ := hsample o'
      have hok := fillSample_sampleOK (SampleOK.nil a.kw) ho0
      have hnd := fillSample_sampleND _ _ _ _ _ SampleND.nil ho0
      obtain ⟨o2, r, hr, hro⟩ := createLoop_exists t wf size w incEst (a.kw.length + 1) a sample [] [] hn hok hnd
        (Nat.lt_succ_self _) o'
      obtain ⟨o1, ho1⟩ := hsample o2
      refine ⟨{ o1 with dk := t.dk.contains hash :: o1.dk },
        { status := r.status, adm := if r.status = .accepted then r.adm.add id key hash w else r.adm,
          oracle := r.oracle, evicted := r.evicted, popped := r.popped, incEst := some incEst,
          overflow := r.overflow }, ?_, hro⟩
      unfold maybeAdd
      rw [if_neg hmax, if_neg hov, if_neg hfit]
      simp only [hest o1, ho1, hr]

/-- **The worker's `put` / `put_with_ttl` can always be served** (it may end in the time-overflow panic D8, which is
    an `.ok` outcome of the model: the worker dies). -/
theorem workerPut_step_exists (s : State) (wf : s.lfu.fc.WF) (hn : AMap.NoDup s.adm.kw) (id hash : Nat) (w : Int)
    (k v : Nat) (ttl : Option Nat) :
    ∀ o' : Oracle, ∃ (o : Oracle) (ex : Exec), workerPut s id hash w k v ttl o = .ok (ex, o') := by
  intro o'
  by_cases hc : s.store.contains k = true
  · refine ⟨o', ?_⟩
    unfold workerPut
    rw [if_pos hc]
    exact ⟨_, rfl⟩
  · obtain ⟨o, r, hr, hro⟩ := maybeAdd_exists s.lfu wf s.cfg.sampleSize s.adm hn id k hash w o'
    refine ⟨o, ?_⟩
    unfold workerPut
    rw [if_neg hc]
    simp only [hr]
    subst hro
    split
    · exact ⟨_, rfl⟩
    split
    · cases ttl with
      | none => exact ⟨_, rfl⟩
      | some t =>
        simp only []
        cases addTime s.now t <;> exact ⟨_, rfl⟩
    · exact ⟨_, rfl⟩

/-! ### the hypothesis "no id is charged twice" cannot be dropped -/

/-- an admission state (not reachable: `Inv.kwNoDup`) in which id 1 is charged twice -/
def pgDupAdm : Adm :=
  { max := 10, used := 9,
    kw := [(1, { key := 101, hash := 11, weight := 2 }), (1, { key := 102, hash := 12, weight := 4 })] }

theorem fillSample_dup_stuck (t : TinyLFU) (o : Oracle) (r : List SKey × Oracle) :
    fillSample t pgDupAdm.kw 2 [] o ≠ .ok r := by
  intro h
  unfold fillSample at h
  split at h
  · cases h
  · rename_i id ids hids
    split at h
    · cases h
    · rename_i wk hg
      split at h
      · cases h
      · split at h
        · cases h
        · rename_i est o' he
          have hid : id = 1 := by
            simp only [pgDupAdm, AMap.get?] at hg
            split at hg
            · rename_i e; exact e.symm
            · cases hg
          subst hid
          unfold fillSample at h
          split at h
          · cases h
          · rename_i id2 ids2 hids2
            split at h
            · cases h
            · rename_i wk2 hg2
              have hid2 : id2 = 1 := by
                simp only [pgDupAdm, AMap.get?] at hg2
                split at hg2
                · rename_i e; exact e.symm
                · cases hg2
              subst hid2
              simp at h

/-- With an id charged twice NO oracle serves `maybe_add` once an eviction is needed (whatever the sketch): the model
    counts the ids to sample (`fillNeed`) with multiplicity but refuses an id sampled twice.  This is an artefact of
    the association list (a `DashMap` holds each key id once), excluded at every reachable state by `Inv.kwNoDup`;
    it is why `maybeAdd_exists` and `C13_worker_step_exists` carry that hypothesis. -/
theorem maybeAdd_dup_stuck (t : TinyLFU) (o : Oracle) (r : AdmResult) : maybeAdd t 5 pgDupAdm 4 104 14 6 o ≠ .ok r := by
  intro h
  unfold maybeAdd at h
  have h1 : ¬ ((6 : Int) > pgDupAdm.max) := by decide
  have h2 : ¬ (pgDupAdm.max - pgDupAdm.used ≥ (6 : Int)) := by decide
  have h0 : ¬ (pgDupAdm.spaceOverflow = true) := by decide
  rw [if_neg h1, if_neg h0, if_neg h2] at h
  split at h
  · cases h
  · split at h
    · cases h
    · rename_i sample o2 hf
      have : fillNeed 5 pgDupAdm.kw [] = 2 := by decide
      rw [this] at hf
      exact fillSample_dup_stuck _ _ _ hf

/-! ## 2  C13: the worker can always take its next step -/

/-- **The command worker can ALWAYS take its next step**, whatever the head of the queue is — put, put with
    time-to-live, delete, weight update, `Shutdown`, or anything at all while draining: in every state whose charged
    ids are pairwise distinct and whose sketch is well formed, with a live worker and a non-empty queue, for every
    oracle `o'` to be left over there is an oracle `o` with which `workerStep` succeeds (`.ok`, never `.error`; the
    outcome may be the worker's own panic D8/D9, which kills it) and leaves exactly `o'`. -/
theorem C13_worker_step_exists_of_noDup {s : State} (hn : AMap.NoDup s.adm.kw) (hw : s.worker ≠ .dead)
    (hq : s.queue ≠ []) (wf : s.lfu.fc.WF) :
    ∀ o' : Oracle, ∃ (o : Oracle) (s' : State) (out : Out), workerStep s o = .ok (s', out, o') := by
  intro o'
  cases hqq : s.queue with
  | nil => exact absurd hqq hq
  | cons x q =>
    obtain ⟨cmd, hd⟩ := x
    cases hm : s.worker with
    | dead => exact absurd hm hw
    | draining =>
      refine ⟨o', ?_⟩
      unfold workerStep
      split
      · simp_all
      · simp_all
      · exact ⟨_, _, rfl⟩
      · simp_all
    | running =>
      cases cmd with
      | shutdown =>
        refine ⟨o', ?_⟩
        unfold workerStep
        split
        · simp_all
        · simp_all
        · simp_all
        · rename_i cmd' hd' q' hw' hq'
          rw [hqq] at hq'
          cases hq'
          exact ⟨_, _, rfl⟩
      | delete k =>
        refine ⟨o', ?_⟩
        unfold workerStep
        split
        · simp_all
        · simp_all
        · simp_all
        · rename_i cmd' hd' q' hw' hq'
          rw [hqq] at hq'
          cases hq'
          simp only []
          cases workerDelete _ k <;> exact ⟨_, _, rfl⟩
      | updateWeight id w =>
        refine ⟨o', ?_⟩
        unfold workerStep
        split
        · simp_all
        · simp_all
        · simp_all
        · rename_i cmd' hd' q' hw' hq'
          rw [hqq] at hq'
          cases hq'
          simp only []
          cases workerUpdateWeight _ id w <;> exact ⟨_, _, rfl⟩
      | put id hash w k v =>
        obtain ⟨o, ex, hex⟩ := workerPut_step_exists { s with queue := q } wf hn id hash w k v none o'
        refine ⟨o, ?_⟩
        unfold workerStep
        split
        · simp_all
        · simp_all
        · simp_all
        · rename_i cmd' hd' q' hw' hq'
          rw [hqq] at hq'
          cases hq'
          simp only [hex]
          cases ex <;> exact ⟨_, _, rfl⟩
      | putTtl id hash w k v t =>
        obtain ⟨o, ex, hex⟩ := workerPut_step_exists { s with queue := q } wf hn id hash w k v (some t) o'
        refine ⟨o, ?_⟩
        unfold workerStep
        split
        · simp_all
        · simp_all
        · simp_all
        · rename_i cmd' hd' q' hw' hq'
          rw [hqq] at hq'
          cases hq'
          simp only [hex]
          cases ex <;> exact ⟨_, _, rfl⟩

/-- The same under the accounting invariant `Inv` (Lemmas/Inv.lean), which holds at every reachable state
    (`inv_reach`). -/
theorem C13_worker_step_exists {s : State} (hinv : Inv s) (hw : s.worker ≠ .dead) (hq : s.queue ≠ [])
    (wf : s.lfu.fc.WF) : ∃ (o : Oracle) (r : State × Out × Oracle), workerStep s o = .ok r := by
  obtain ⟨o, s', out, h⟩ := C13_worker_step_exists_of_noDup hinv.kwNoDup hw hq wf {}
  exact ⟨o, _, h⟩

/-! ## 3  C13: the queue drains -/

/-! ### the worker never touches the sketch -/

theorem workerPut_lfu {s : State} {id hash : Nat} {w : Int} {k v : Nat} {ttl : Option Nat} {o o' : Oracle}
    {e : Exec} (h : workerPut s id hash w k v ttl o = .ok (e, o')) : e.qstate.lfu = s.lfu := by
  unfold workerPut at h
  split at h
  · simp only [Except.ok.injEq, Prod.mk.injEq] at h
    obtain ⟨rfl, -⟩ := h
    rfl
  · split at h
    · cases h
    · rename_i r hr
      have h1 : (r.evicted.foldl applyEvict { s with adm := r.adm }).lfu = s.lfu := by
        rw [B.foldl_applyEvict_lfu]
      simp only [] at h
      generalize r.evicted.foldl applyEvict { s with adm := r.adm } = s1 at h h1
      split at h
      · simp only [Except.ok.injEq, Prod.mk.injEq] at h
        obtain ⟨rfl, -⟩ := h
        exact h1
      split at h
      · split at h
        · simp only [Except.ok.injEq, Prod.mk.injEq] at h
          obtain ⟨rfl, -⟩ := h
          exact h1
        · split at h
          · simp only [Except.ok.injEq, Prod.mk.injEq] at h
            obtain ⟨rfl, -⟩ := h
            exact h1
          · simp only [Except.ok.injEq, Prod.mk.injEq] at h
            obtain ⟨rfl, -⟩ := h
            exact h1
      · simp only [Except.ok.injEq, Prod.mk.injEq] at h
        obtain ⟨rfl, -⟩ := h
        exact h1

theorem workerUpdateWeight_lfu (s : State) (id : Nat) (w : Int) : (workerUpdateWeight s id w).qstate.lfu = s.lfu := by
  unfold workerUpdateWeight
  split
  · rfl
  · dsimp only
    split <;> rfl

theorem workerDelete_lfu (s : State) (k : Nat) : (workerDelete s k).qstate.lfu = s.lfu := by
  unfold workerDelete
  split
  · rfl
  · simp only [Exec.qstate]
    split <;> split <;> rfl

/-- the `finish` continuation of `workerStep` keeps the sketch of the state it is given -/
theorem workerFinish_lfu {hd : Option Nat} {kind : String} {e : Exec} {o1 o' : Oracle} {s' : State} {out : Out}
    (h : (match (e, o1) with
      | (.done s1 st ie pp ev, o') =>
        (Except.ok ({ s1 with acks := setAck s1.acks hd st }, Out.worked kind st ie pp ev, o') : Except String _)
      | (.panicked s1 p, o') => .ok ({ s1 with worker := .dead, queue := [] }, .workerPanic p, o')) =
      .ok (s', out, o')) : s'.lfu = e.qstate.lfu := by
  cases e with
  | done s1 st ie pp ev =>
    simp only [Except.ok.injEq, Prod.mk.injEq] at h
    obtain ⟨rfl, -, -⟩ := h
    rfl
  | panicked s1 p =>
    simp only [Except.ok.injEq, Prod.mk.injEq] at h
    obtain ⟨rfl, -, -⟩ := h
    rfl

/-- **A worker step never touches the sketch** (only the access-count consumer and `shutdown()` do). -/
theorem workerStep_lfu {s s' : State} {o o' : Oracle} {out : Out} (h : workerStep s o = .ok (s', out, o')) :
    s'.lfu = s.lfu := by
  unfold workerStep at h
  split at h
  · cases h
  · cases h
  · simp only [Except.ok.injEq, Prod.mk.injEq] at h
    obtain ⟨rfl, -, -⟩ := h
    rfl
  · rename_i cmd hd q hw hq
    simp only [] at h
    split at h
    · simp only [Except.ok.injEq, Prod.mk.injEq] at h
      obtain ⟨rfl, -, -⟩ := h
      rfl
    · split at h
      · rename_i r hr
        obtain ⟨e, o1⟩ := r
        rw [workerFinish_lfu h, workerPut_lfu hr]
      · cases h
    · split at h
      · rename_i r hr
        obtain ⟨e, o1⟩ := r
        rw [workerFinish_lfu h, workerPut_lfu hr]
      · cases h
    · rename_i id w
      rw [workerFinish_lfu h, workerUpdateWeight_lfu]
    · rename_i k
      rw [workerFinish_lfu h, workerDelete_lfu]

/-! ### the sketch stays well formed at every reachable state of Layer A -/

theorem sendCmd_lfu (s : State) (c : Nat) (cmd : Cmd) : (sendCmd s c cmd).1.lfu = s.lfu := by
  unfold sendCmd
  split
  · rfl
  · split <;> rfl

theorem clientPutChecked_lfu (s : State) (c k v : Nat) (w : Int) (ttl : Option Nat) :
    (clientPutChecked s c k v w ttl).1.lfu = s.lfu := by
  unfold clientPutChecked
  split
  · rfl
  · cases ttl <;> exact sendCmd_lfu _ _ _

theorem clientPut_lfu (s : State) (c k v : Nat) : (clientPut s c k v).1.lfu = s.lfu := by
  unfold clientPut
  dsimp only
  split
  · rfl
  · split
    · rfl
    · exact clientPutChecked_lfu _ _ _ _ _ _

theorem clientPutW_lfu (s : State) (c k v : Nat) (w : Int) : (clientPutW s c k v w).1.lfu = s.lfu := by
  unfold clientPutW
  split
  · rfl
  · split
    · rfl
    · exact clientPutChecked_lfu _ _ _ _ _ _

theorem clientPutTtl_lfu (s : State) (c k v t : Nat) : (clientPutTtl s c k v t).1.lfu = s.lfu := by
  unfold clientPutTtl
  split
  · rfl
  · dsimp only
    split
    · rfl
    · exact clientPutChecked_lfu _ _ _ _ _ _

theorem clientPutWTtl_lfu (s : State) (c k v : Nat) (w : Int) (t : Nat) : (clientPutWTtl s c k v w t).1.lfu = s.lfu := by
  unfold clientPutWTtl
  split
  · rfl
  · split
    · rfl
    · exact clientPutChecked_lfu _ _ _ _ _ _

theorem upsertFinish_lfu (s2 : State) (c id : Nat) (uw : Option Int) : (upsertFinish s2 c id uw).1.lfu = s2.lfu := by
  unfold upsertFinish
  cases uw with
  | none => rfl
  | some x =>
    simp only
    split
    · rfl
    · split
      · rfl
      · exact sendCmd_lfu _ _ _

theorem clientUpsert_lfu (s : State) (c k : Nat) (v : Option Nat) (w : Option Int) (ttl : Option Nat) (rm : Bool) :
    (clientUpsert s c k v w ttl rm).1.lfu = s.lfu := by
  rcases clientUpsert_cases s c k v w ttl rm with h | ⟨val, w', _, _, h | ⟨t, h⟩⟩ | ⟨e, ne, _, _, h⟩
  · rw [h]
  · rw [h]; exact clientPutW_lfu _ _ _ _ _
  · rw [h]; exact clientPutWTtl_lfu _ _ _ _ _ _
  · rw [h, upsertFinish_lfu]; rfl

theorem clientDelete_lfu (s : State) (c k : Nat) : (clientDelete s c k).1.lfu = s.lfu := by
  unfold clientDelete
  split
  · rfl
  · exact sendCmd_lfu _ _ _

/-- the sketch is untouched, or cleared (`shutdown()`) -/
def LfuKept (s s' : State) : Prop := s'.lfu = s.lfu ∨ s'.lfu = s.lfu.clear

theorem shutdownSendBuf_lfu (s : State) (c : Nat) : LfuKept s (shutdownSendBuf s c).1 := by
  unfold shutdownSendBuf
  split
  · exact Or.inr rfl
  · split
    · exact Or.inl rfl
    · exact Or.inr rfl

theorem shutdownSendCmd_lfu (s : State) (c : Nat) : LfuKept s (shutdownSendCmd s c).1 := by
  unfold shutdownSendCmd
  split
  · exact shutdownSendBuf_lfu s c
  · split
    · exact Or.inl rfl
    · exact shutdownSendBuf_lfu { s with queue := s.queue ++ [(.shutdown, none)] } c

theorem clientShutdown_lfu (s : State) (c : Nat) : LfuKept s (clientShutdown s c).1 := by
  unfold clientShutdown
  split
  · exact Or.inl rfl
  · exact shutdownSendCmd_lfu { s with shutting := true } c

theorem resume_lfu {s s' : State} {out : Out} {c : Nat} (h : resume s c = .ok (s', out)) : LfuKept s s' := by
  unfold resume at h
  split at h
  · cases h
  · simp only [] at h
    split at h
    · split at h
      · cases h
      · simp only [Except.ok.injEq] at h
        have e := congrArg Prod.fst h
        dsimp only at e
        rw [← e]
        exact Or.inl (sendCmd_lfu _ _ _)
    · split at h
      · cases h
      · simp only [Except.ok.injEq] at h
        have e := congrArg Prod.fst h
        dsimp only at e
        rw [← e]
        exact shutdownSendCmd_lfu { s with pend := s.pend.del c } c
    · split at h
      · cases h
      · simp only [Except.ok.injEq] at h
        have e := congrArg Prod.fst h
        dsimp only at e
        rw [← e]
        exact shutdownSendBuf_lfu { s with pend := s.pend.del c } c

theorem sweepEvict_lfu (s : State) (id : Nat) : (sweepEvict s id).1.lfu = s.lfu := by
  rcases sweepEvict_cases s id with h0 | ⟨wk, _, _, h1⟩
  · rw [h0]
  · rw [h1]
    dsimp only
    rw [applyEvictId_lfu]

theorem sweepEntries_lfu : ∀ (l : List ((Nat × Nat) × Nat)) (s : State) (acc : List Evicted),
    (sweepEntries s l acc).1.lfu = s.lfu := by
  intro l
  induction l with
  | nil => intro s acc; rfl
  | cons x l ih =>
    intro s acc
    obtain ⟨⟨sh, id⟩, ex⟩ := x
    simp only [sweepEntries]
    rw [ih, sweepEvict_lfu]

theorem sweepStep_lfu {s s' : State} {out : Out} (h : sweepStep s = .ok (s', out)) : s'.lfu = s.lfu := by
  unfold sweepStep at h
  split at h
  · cases h
  · dsimp only at h
    simp only [Except.ok.injEq, Prod.mk.injEq] at h
    obtain ⟨rfl, _⟩ := h
    exact sweepEntries_lfu _ s []

/-- **Every Layer A event keeps the sketch well formed.** -/
theorem wf_step {s s' : State} {ev : Ev} {o o' : Oracle} {out : Out} (wf : s.lfu.fc.WF)
    (h : step s ev o = .ok (s', out, o')) : s'.lfu.fc.WF := by
  have kept : ∀ {s1 : State}, LfuKept s s1 → s1.lfu.fc.WF := by
    intro s1 hk
    rcases hk with e | e <;> rw [e]
    · exact wf
    · exact B.TinyLFU.clear_wf wf
  cases ev with
  | put c k v =>
    simp only [step, Except.ok.injEq, Prod.mk.injEq] at h
    rw [← h.1, clientPut_lfu]; exact wf
  | putW c k v w =>
    simp only [step, Except.ok.injEq, Prod.mk.injEq] at h
    rw [← h.1, clientPutW_lfu]; exact wf
  | putTtl c k v t =>
    simp only [step, Except.ok.injEq, Prod.mk.injEq] at h
    rw [← h.1, clientPutTtl_lfu]; exact wf
  | putWTtl c k v w t =>
    simp only [step, Except.ok.injEq, Prod.mk.injEq] at h
    rw [← h.1, clientPutWTtl_lfu]; exact wf
  | upsert c k v w t rm =>
    simp only [step, Except.ok.injEq, Prod.mk.injEq] at h
    rw [← h.1, clientUpsert_lfu]; exact wf
  | delete c k =>
    simp only [step, Except.ok.injEq, Prod.mk.injEq] at h
    rw [← h.1, clientDelete_lfu]; exact wf
  | get k =>
    have hg : clientGet s k o = .ok (s', out, o') := h
    rw [(clientGet_spec hg).1.fields.2.2.2.2.2.2.2.2.2.2.1]; exact wf
  | multiGet ks =>
    have hg : clientMultiGet s ks o = .ok (s', out, o') := h
    rw [(clientMultiGet_spec hg).1.fields.2.2.2.2.2.2.2.2.2.2.1]; exact wf
  | weight =>
    simp only [step, Except.ok.injEq, Prod.mk.injEq] at h
    rw [← h.1]; exact wf
  | stats =>
    simp only [step, Except.ok.injEq, Prod.mk.injEq] at h
    rw [← h.1]; exact wf
  | worker =>
    have hw : workerStep s o = .ok (s', out, o') := h
    rw [workerStep_lfu hw]; exact wf
  | sweep =>
    simp only [step] at h
    split at h
    · rename_i r hr
      simp only [Except.ok.injEq, Prod.mk.injEq] at h
      obtain ⟨s1, out1⟩ := r
      rw [← h.1, sweepStep_lfu hr]; exact wf
    · cases h
  | consumer =>
    have hc : consumerStep s o = .ok (s', out, o') := h
    exact (B.consumerStep_bg hc).2.2.2.2.2.2.2 wf
  | advance d =>
    simp only [step, Except.ok.injEq, Prod.mk.injEq] at h
    rw [← h.1]; exact wf
  | shutdown c =>
    simp only [step, Except.ok.injEq, Prod.mk.injEq] at h
    rw [← h.1]; exact kept (clientShutdown_lfu s c)
  | resume c =>
    simp only [step] at h
    split at h
    · rename_i r hr
      simp only [Except.ok.injEq, Prod.mk.injEq] at h
      obtain ⟨s1, out1⟩ := r
      rw [← h.1]; exact kept (resume_lfu hr)
    · cases h
  | poll hd =>
    simp only [step] at h
    split at h
    · simp only [Except.ok.injEq, Prod.mk.injEq] at h
      rw [← h.1]; exact wf
    · cases h

/-- At every reachable state of Layer A the sketch is well formed (the constructor builds it with one row per seed;
    the crate uses four seeds). -/
theorem wf_reach {cfg : Cfg} {now : Nat} {seeds : List Nat} {s : State} (hs : seeds ≠ [])
    (h : Reach cfg now seeds s) : s.lfu.fc.WF := by
  induction h with
  | init => exact C14_fresh_sketch_wf cfg.counters seeds hs
  | step _ hstep ih => exact wf_step ih hstep

/-! ### runs of consecutive worker steps -/

/-- the event list "one worker step per oracle of `os`", to be run by `qrunO` (Lemmas/Queue.lean): a genuine Layer A
    run in which only the worker is scheduled -/
def workerEvents (os : List Oracle) : List (Ev × Oracle) := os.map (fun o => (Ev.worker, o))

/-- the outcome of a worker step is the worker's own panic (D8 / D9) -/
def Out.isWorkerPanic : Out → Bool
  | .workerPanic _ => true
  | _ => false

theorem qrunO_worker_nil (s : State) : qrunO s (workerEvents []) = some (s, []) := rfl

theorem qrunO_worker_cons {s s1 s' : State} {o o1 : Oracle} {out : Out} {os : List Oracle} {outs : List Out}
    (h1 : workerStep s o = .ok (s1, out, o1)) (h2 : qrunO s1 (workerEvents os) = some (s', outs)) :
    qrunO s (workerEvents (o :: os)) = some (s', out :: outs) := by
  have hs : step s .worker o = .ok (s1, out, o1) := h1
  simp only [workerEvents, List.map_cons, qrunO, hs]
  simp only [workerEvents] at h2
  rw [h2]

/-- a run of worker steps splits into its first step and the rest -/
theorem qrunO_worker_cons_inv {s s' : State} {o : Oracle} {os : List Oracle} {outs : List Out}
    (h : qrunO s (workerEvents (o :: os)) = some (s', outs)) :
    ∃ s1 out o1 outs', workerStep s o = .ok (s1, out, o1) ∧ qrunO s1 (workerEvents os) = some (s', outs') ∧
      outs = out :: outs' := by
  simp only [workerEvents, List.map_cons, qrunO] at h
  split at h
  · rename_i s1 out o1 hs
    split at h
    · rename_i s'' outs' hr
      simp only [Option.some.injEq, Prod.mk.injEq] at h
      obtain ⟨rfl, rfl⟩ := h
      exact ⟨s1, out, o1, outs', hs, hr, rfl⟩
    · cases h
  · cases h

/-- an acknowledgement that is answered stays answered under `setAck` with a real status -/
theorem setAck_answered {acks : List Status} {hd : Option Nat} {st : Status} (hst : st ≠ .pending) {i : Nat}
    (h : ∃ st0, acks[i]? = some st0 ∧ st0 ≠ .pending) : ∃ st1, (setAck acks hd st)[i]? = some st1 ∧ st1 ≠ .pending := by
  obtain ⟨st0, h0, hne⟩ := h
  cases hd with
  | none => exact ⟨st0, h0, hne⟩
  | some j =>
    simp only [setAck]
    by_cases hij : j = i
    · subst hij
      have hlt : j < acks.length := by
        rcases Nat.lt_or_ge j acks.length with h | h
        · exact h
        · rw [List.getElem?_eq_none h] at h0; cases h0
      exact ⟨st, List.getElem?_set_self hlt, hst⟩
    · exact ⟨st0, by rw [List.getElem?_set_ne hij]; exact h0, hne⟩

theorem setAck_length_eq (acks : List Status) (hd : Option Nat) (st : Status) : (setAck acks hd st).length = acks.length := by
  cases hd <;> simp [setAck]

/-- **Every run of worker steps without a panic takes exactly one command per step from the head of the queue** —
    for ANY oracles: after `n` steps the queue is the old one minus its first `n` commands (so it is empty after
    exactly `s.queue.length` steps and not earlier), no acknowledgement is created or lost, every acknowledgement
    that was answered stays answered, and every handle of the commands taken is answered (not `pending`). -/
theorem C13_worker_run_takes_prefix :
    ∀ (os : List Oracle) (s s' : State) (outs : List Out), qrunO s (workerEvents os) = some (s', outs) →
      (∀ out ∈ outs, out.isWorkerPanic = false) →
      os.length ≤ s.queue.length ∧ s'.queue = s.queue.drop os.length ∧ outs.length = os.length ∧
      s'.acks.length = s.acks.length ∧
      (∀ i : Nat, (∃ st : Status, s.acks[i]? = some st ∧ st ≠ .pending) → ∃ st : Status, s'.acks[i]? = some st ∧ st ≠ .pending) ∧
      (∀ cmd i, (cmd, some i) ∈ s.queue.take os.length → i < s.acks.length →
        ∃ st : Status, s'.acks[i]? = some st ∧ st ≠ .pending) := by
  intro os
  induction os with
  | nil =>
    intro s s' outs h _
    rw [qrunO_worker_nil] at h
    simp only [Option.some.injEq, Prod.mk.injEq] at h
    obtain ⟨rfl, rfl⟩ := h
    refine ⟨Nat.zero_le _, rfl, rfl, rfl, fun _ h => h, ?_⟩
    intro cmd i hm
    simp at hm
  | cons o os ih =>
    intro s s' outs h hnp
    obtain ⟨s1, out, o1, outs', hs, hr, rfl⟩ := qrunO_worker_cons_inv h
    have hnp1 : out.isWorkerPanic = false := hnp out (by simp)
    obtain ⟨_, cmd, hd, q, hq, hpost⟩ := workerStep_qspec hs
    rcases hpost.outcome with ⟨p, hp, -⟩ | ⟨kind, st, ie, pp, ev, -, hst, hq', ha, -⟩
    · subst hp; cases hnp1
    · obtain ⟨h1, h2, h3, h4, h5, h6⟩ := ih s1 s' outs' hr (fun x hx => hnp x (List.mem_cons_of_mem _ hx))
      rw [hq'] at h1 h2
      have hlen1 : s1.acks.length = s.acks.length := by rw [ha, setAck_length_eq]
      have hstab : ∀ i : Nat, (∃ st : Status, s.acks[i]? = some st ∧ st ≠ .pending) →
          ∃ st : Status, s1.acks[i]? = some st ∧ st ≠ .pending := by
        intro i hi; rw [ha]; exact setAck_answered hst hi
      refine ⟨by rw [hq]; simp only [List.length_cons]; omega, by rw [h2, hq]; rfl,
        by simp only [List.length_cons, h3], by rw [h4, hlen1], fun i hi => h5 i (hstab i hi), ?_⟩
      intro cmd' i hm hlt
      rw [hq] at hm
      simp only [List.length_cons, List.take_succ_cons, List.mem_cons] at hm
      rcases hm with hm | hm
      · simp only [Prod.mk.injEq] at hm
        obtain ⟨-, rfl⟩ := hm
        apply h5
        rw [ha]
        exact ⟨st, by simp only [setAck]; exact List.getElem?_set_self hlt, hst⟩
      · rw [← hq'] at hm
        exact h6 cmd' i hm (by rw [hlen1]; exact hlt)

/-- `Inv`, `QInv` and the well-formedness of the sketch are kept along every run of worker steps. -/
theorem workerRun_invariants :
    ∀ (os : List Oracle) (s s' : State) (outs : List Out), qrunO s (workerEvents os) = some (s', outs) →
      (Inv s → Inv s') ∧ (QInv s → QInv s') ∧ s'.lfu = s.lfu := by
  intro os
  induction os with
  | nil =>
    intro s s' outs h
    rw [qrunO_worker_nil] at h
    simp only [Option.some.injEq, Prod.mk.injEq] at h
    obtain ⟨rfl, rfl⟩ := h
    exact ⟨id, id, rfl⟩
  | cons o os ih =>
    intro s s' outs h
    obtain ⟨s1, out, o1, outs', hs, hr, rfl⟩ := qrunO_worker_cons_inv h
    obtain ⟨h1, h2, h3⟩ := ih s1 s' outs' hr
    exact ⟨fun hi => h1 (inv_workerStep hi hs), fun hi => h2 (qinv_workerStep hi hs), by rw [h3, workerStep_lfu hs]⟩

/-! ### the queue drains -/

/-- **The queue drains.**  From every state with `Inv`, `QInv` (both hold at every reachable state), a well-formed
    sketch and a live worker — running or draining — there are oracles `os` with which consecutive worker steps
    (a Layer A run in which only the worker is scheduled; for runs in which clients keep sending see the remark
    below) all succeed and empty the queue:
      * either in exactly `s.queue.length` steps, none of them a panic, the worker still alive, and then NO
        acknowledgement ever handed out is pending any more — every caller has its answer;
      * or the worker dies on the way: some step (at most the `s.queue.length`-th) ends in the worker's own panic
        (time overflow D8, weight overflow D9 — an outcome of the implementation, not of the oracle), which drops
        the rest of the queue (`C11_panic_drops_queue`); the acknowledgements of the dropped commands stay pending
        for ever (finding D8).
    By `C13_worker_run_takes_prefix` EVERY panic-free run of worker steps, with any oracles, empties the queue after
    exactly `s.queue.length` steps and not before.
    Remark (scheduling): other events can only append to the queue (`C11_only_worker_completes`), and a client
    appends only while `queue.length < cmdCap` (`C11_full_queue_parks`), so under any schedule in which the worker
    takes a step again and again each queued command reaches the head after at most `cmdCap` worker steps; the
    theorem gives the enabledness this needs at every such state. -/
theorem C13_queue_drains_len :
    ∀ (n : Nat) (s : State), s.queue.length = n → Inv s → QInv s → s.lfu.fc.WF → s.worker ≠ .dead →
      ∃ (os : List Oracle) (s' : State) (outs : List Out),
        qrunO s (workerEvents os) = some (s', outs) ∧ s'.queue = [] ∧ outs.length = os.length ∧
        ((os.length = s.queue.length ∧ s'.worker ≠ .dead ∧ (∀ out ∈ outs, out.isWorkerPanic = false) ∧
            ∀ (h : Nat) (st : Status), s'.acks[h]? = some st → st ≠ .pending) ∨
         (1 ≤ os.length ∧ os.length ≤ s.queue.length ∧ s'.worker = .dead ∧
            ∃ p, outs.getLast? = some (.workerPanic p))) := by
  intro n
  induction n with
  | zero =>
    intro s hlen hinv hqinv _ hw
    have hq : s.queue = [] := List.eq_nil_of_length_eq_zero hlen
    refine ⟨[], s, [], rfl, hq, rfl, Or.inl ⟨hlen.symm, hw, fun _ h => (by cases h), ?_⟩⟩
    exact C13_no_caller_waits_forever hqinv hw hq
  | succ n ih =>
    intro s hlen hinv hqinv wf hw
    have hne : s.queue ≠ [] := by intro e; rw [e] at hlen; cases hlen
    obtain ⟨o, s1, out, hs⟩ := C13_worker_step_exists_of_noDup hinv.kwNoDup hw hne wf {}
    obtain ⟨_, cmd, hd, q, hq, hpost⟩ := workerStep_qspec hs
    have hinv1 := inv_workerStep hinv hs
    have hqinv1 := qinv_workerStep hqinv hs
    have wf1 : s1.lfu.fc.WF := by rw [workerStep_lfu hs]; exact wf
    rcases hpost.outcome with ⟨p, hp, -, -, hdead, hq', -⟩ | ⟨kind, st, ie, pp, ev, hout, -, hq', -, hmode⟩
    · -- the worker dies at this step
      subst hp
      refine ⟨[o], s1, [.workerPanic p], qrunO_worker_cons hs (qrunO_worker_nil s1), hq', rfl,
        Or.inr ⟨Nat.le_refl _, by rw [hlen]; simp, hdead, p, rfl⟩⟩
    · have hw1 : s1.worker ≠ .dead := by
        rcases hmode with ⟨-, h2, -⟩ | ⟨-, -, h2, -⟩ | ⟨-, -, h2⟩ <;> rw [h2] <;> simp
      have hlen1 : s1.queue.length = n := by
        rw [hq'] ; rw [hq] at hlen; simpa using hlen
      obtain ⟨os, s', outs, hrun, hempty, hol, hcase⟩ := ih s1 hlen1 hinv1 hqinv1 wf1 hw1
      refine ⟨o :: os, s', out :: outs, qrunO_worker_cons hs hrun, hempty, by simp [hol], ?_⟩
      rcases hcase with ⟨h1, h2, h3, h4⟩ | ⟨h0, h1, h2, p, h3⟩
      · left
        refine ⟨by rw [List.length_cons, h1, hlen1, hlen], h2, ?_, h4⟩
        intro x hx
        rw [List.mem_cons] at hx
        rcases hx with rfl | hx
        · rw [hout]; rfl
        · exact h3 x hx
      · right
        refine ⟨by simp, by rw [List.length_cons, hlen]; omega, h2, p, ?_⟩
        cases outs with
        | nil => simp at hol; omega
        | cons y ys => rw [List.getLast?_cons_cons]; exact h3

/-- **The queue drains** — `C13_queue_drains_len` (stated there with the queue length as the induction parameter)
    in the form to be used: see the comment there for the reading of the two alternatives. -/
theorem C13_queue_drains {s : State} (hinv : Inv s) (hqinv : QInv s) (wf : s.lfu.fc.WF) (hw : s.worker ≠ .dead) :
    ∃ (os : List Oracle) (s' : State) (outs : List Out),
      qrunO s (workerEvents os) = some (s', outs) ∧ s'.queue = [] ∧ outs.length = os.length ∧
      ((os.length = s.queue.length ∧ s'.worker ≠ .dead ∧ (∀ out ∈ outs, out.isWorkerPanic = false) ∧
          ∀ (h : Nat) (st : Status), s'.acks[h]? = some st → st ≠ .pending) ∨
       (1 ≤ os.length ∧ os.length ≤ s.queue.length ∧ s'.worker = .dead ∧
          ∃ p, outs.getLast? = some (.workerPanic p))) :=
  C13_queue_drains_len _ s rfl hinv hqinv wf hw

/-- The same at every reachable state of Layer A (`Reach`, Lemmas/Inv.lean) of a cache whose sketch has at least one
    row (`seeds ≠ []`; the crate uses four): `Inv`, `QInv` and the well-formedness of the sketch hold there
    (`inv_reach`, `qinv_of_reach`, `wf_reach`). -/
theorem C13_queue_drains_reach {cfg : Cfg} {now : Nat} {seeds : List Nat} {s : State} (hseeds : seeds ≠ [])
    (hr : Reach cfg now seeds s) (hw : s.worker ≠ .dead) :
    ∃ (os : List Oracle) (s' : State) (outs : List Out),
      qrunO s (workerEvents os) = some (s', outs) ∧ s'.queue = [] ∧ outs.length = os.length ∧
      ((os.length = s.queue.length ∧ s'.worker ≠ .dead ∧ (∀ out ∈ outs, out.isWorkerPanic = false) ∧
          ∀ (h : Nat) (st : Status), s'.acks[h]? = some st → st ≠ .pending) ∨
       (1 ≤ os.length ∧ os.length ≤ s.queue.length ∧ s'.worker = .dead ∧
          ∃ p, outs.getLast? = some (.workerPanic p))) :=
  C13_queue_drains (inv_reach hr) (qinv_of_reach hr) (wf_reach hseeds hr) hw

/-- … and the enabledness of the single step there: at every reachable state with a live worker and a non-empty
    queue some oracle makes the worker event a legal Layer A step. -/
theorem C13_worker_step_exists_reach {cfg : Cfg} {now : Nat} {seeds : List Nat} {s : State} (hseeds : seeds ≠ [])
    (hr : Reach cfg now seeds s) (hw : s.worker ≠ .dead) (hq : s.queue ≠ []) :
    ∃ (o : Oracle) (r : State × Out × Oracle), step s .worker o = .ok r :=
  C13_worker_step_exists (inv_reach hr) hw hq (wf_reach hseeds hr)

/-! ### the draining worker (after `Shutdown`) -/

/-- what a draining worker reports for every command -/
def drainOut : Out := .worked "Drain" .shuttingDown none [] []

theorem workerStep_draining {s : State} (hd : s.worker = .draining) {cmd : Cmd} {h : Option Nat}
    {q : List (Cmd × Option Nat)} (hq : s.queue = (cmd, h) :: q) (o : Oracle) :
    workerStep s o = .ok ({ s with queue := q, acks := setAck s.acks h .shuttingDown }, drainOut, o) := by
  unfold workerStep
  split
  · simp_all
  · simp_all
  · rename_i cmd' h' q' _ hq'
    rw [hq] at hq'
    cases hq'
    rfl
  · simp_all

/-- **The draining worker (after it has executed `Shutdown`) empties the queue, and nothing can stop it**: with ANY
    oracles — a draining worker consults no oracle and cannot panic — `s.queue.length` worker steps all succeed,
    each reports `ShuttingDown`, the queue is then empty, the worker still draining, and every handle that was queued
    holds `ShuttingDown`.  No invariant is needed. -/
theorem C13_draining_queue_drains :
    ∀ (os : List Oracle) (s : State), s.worker = .draining → os.length = s.queue.length →
      ∃ s', qrunO s (workerEvents os) = some (s', List.replicate os.length drainOut) ∧
        s'.queue = [] ∧ s'.worker = .draining ∧ s'.acks.length = s.acks.length ∧
        (∀ i : Nat, s.acks[i]? = some .shuttingDown → s'.acks[i]? = some .shuttingDown) ∧
        (∀ (cmd : Cmd) (i : Nat), (cmd, some i) ∈ s.queue → i < s.acks.length →
          s'.acks[i]? = some .shuttingDown) := by
  intro os
  induction os with
  | nil =>
    intro s hd hlen
    have hq : s.queue = [] := List.eq_nil_of_length_eq_zero hlen.symm
    refine ⟨s, rfl, hq, hd, rfl, fun _ h => h, ?_⟩
    intro cmd i hm
    rw [hq] at hm; cases hm
  | cons o os ih =>
    intro s hd hlen
    cases hq : s.queue with
    | nil => rw [hq] at hlen; cases hlen
    | cons x q =>
      obtain ⟨cmd, h⟩ := x
      have hs := workerStep_draining hd hq o
      have hlen1 : os.length = q.length := by rw [hq] at hlen; simpa using hlen
      obtain ⟨s', hrun, hempty, hd', hal, hstab, hans⟩ :=
        ih { s with queue := q, acks := setAck s.acks h .shuttingDown } hd hlen1
      have hlen' : (setAck s.acks h .shuttingDown).length = s.acks.length := setAck_length_eq _ _ _
      have hstab1 : ∀ i : Nat, s.acks[i]? = some .shuttingDown →
          (setAck s.acks h .shuttingDown)[i]? = some .shuttingDown := by
        intro i hi
        cases h with
        | none => exact hi
        | some j =>
          simp only [setAck]
          by_cases hij : j = i
          · subst hij
            have hlt : j < s.acks.length := by
              rcases Nat.lt_or_ge j s.acks.length with h | h
              · exact h
              · rw [List.getElem?_eq_none h] at hi; cases hi
            exact List.getElem?_set_self hlt
          · rw [List.getElem?_set_ne hij]; exact hi
      refine ⟨s', ?_, hempty, hd', by rw [hal]; exact hlen', fun i hi => hstab i (hstab1 i hi), ?_⟩
      · rw [List.length_cons, List.replicate_succ]
        exact qrunO_worker_cons hs hrun
      · intro cmd' i hm hlt
        rw [List.mem_cons] at hm
        rcases hm with hm | hm
        · simp only [Prod.mk.injEq] at hm
          obtain ⟨-, rfl⟩ := hm
          apply hstab
          show (s.acks.set i .shuttingDown)[i]? = some .shuttingDown
          exact List.getElem?_set_self hlt
        · exact hans cmd' i hm (by rw [hlen']; exact hlt)

/-- … and under the queue invariant no acknowledgement at all is pending once the draining worker is through. -/
theorem C13_draining_answers_all {s : State} (hqinv : QInv s) (hd : s.worker = .draining) (os : List Oracle)
    (hlen : os.length = s.queue.length) :
    ∃ s', qrunO s (workerEvents os) = some (s', List.replicate os.length drainOut) ∧ s'.queue = [] ∧
      s'.worker = .draining ∧ ∀ (h : Nat) (st : Status), s'.acks[h]? = some st → st ≠ .pending := by
  obtain ⟨s', hrun, hempty, hd', -⟩ := C13_draining_queue_drains os s hd hlen
  have hq' := (workerRun_invariants os s s' _ hrun).2.1 hqinv
  exact ⟨s', hrun, hempty, hd', C13_no_caller_waits_forever hq' (by rw [hd']; simp) hempty⟩

/-! ### non-vacuity (Layer A) -/

/-- limit 10: key 1 (weight 6) is in; a put of key 2 (weight 7, does not fit: eviction needed) and a delete of
    key 1 are queued -/
def pgCfg : Cfg := { maxWeight := 10, shards := 2, cmdCap := 4, poolSize := 1, bufSize := 2, counters := 2 }

def pgEvents : List (Ev × Oracle) :=
  [(.putW 0 1 100 6, {}), (.worker, {}), (.putW 0 2 200 7, {}), (.delete 0 1, {})]

/-- the oracle the put needs: two doorkeeper answers (incoming key, sampled key), one sampled id, one pop -/
def pgOracle : Oracle := { dk := [false, false], ids := [1], pops := [some 1] }

/-- The hypotheses of `C13_worker_step_exists` / `C13_queue_drains` hold at this (reachable) state, the head is a put
    that needs an eviction, the step FAILS for the empty oracle (the oracle matters) and succeeds for a legal one. -/
example :
    (match runEvents (State.init pgCfg 0 [1, 2, 3, 4]) pgEvents with
     | .ok s =>
       decide (s.queue.map (·.1) = [.put 2 2 7 2 200, .delete 1] ∧ s.worker = .running ∧
               s.adm.max - s.adm.used < 7 ∧ s.acks = [.accepted, .pending, .pending]) &&
       (match workerStep s {} with | .error _ => true | _ => false) &&
       (match workerStep s pgOracle with
        | .ok (s', _, o') => decide (s'.queue.map (·.1) = [.delete 1] ∧ s'.acks = [.accepted, .accepted, .pending]) &&
            o'.isEmpty
        | _ => false)
     | _ => false) = true := by decide

example (s : State) (h : runEvents (State.init pgCfg 0 [1, 2, 3, 4]) pgEvents = .ok s) : Inv s ∧ QInv s :=
  ⟨inv_reach (reach_runEvents _ Reach.init h), qinv_of_reach (reach_runEvents _ Reach.init h)⟩

example : (State.init pgCfg 0 [1, 2, 3, 4]).lfu.fc.WF := C14_fresh_sketch_wf _ _ (by decide)

/-- …and the queue drains in exactly two worker steps: every acknowledgement is answered. -/
example :
    (match runEvents (State.init pgCfg 0 [1, 2, 3, 4]) pgEvents with
     | .ok s =>
       (match qrunO s (workerEvents [pgOracle, {}]) with
        | some (s', outs) =>
          decide (s'.queue = [] ∧ s'.worker = .running ∧ s'.acks = [.accepted, .accepted, .rejected .keyDoesNotExist]) &&
          outs.all (fun out => !out.isWorkerPanic)
        | none => false)
     | _ => false) = true := by decide

/-- the other branch of `C13_queue_drains` (finding D8): a `put_with_ttl` whose deadline is not representable kills
    the worker at its step; the delete queued behind it is dropped, its acknowledgement stays pending -/
example :
    (match runEvents (State.init pgCfg 0 [1, 2, 3, 4]) [(.putWTtl 0 1 10 5 (10 ^ 29), {}), (.delete 1 2, {})] with
     | .ok s =>
       (match qrunO s (workerEvents [{}]) with
        | some (s', outs) =>
          decide (s.queue.length = 2 ∧ s'.queue = [] ∧ s'.worker = .dead ∧ s'.acks = [.pending, .pending]) &&
          outs.all (fun out => out.isWorkerPanic)
        | none => false)
     | _ => false) = true := by decide

/-- a draining worker: `Shutdown` executed with a delete still queued behind it (it was parked at the full queue) -/
example :
    (qrun (State.init (qcfg 1) 0 [])
      [.putW 0 1 10 1, .delete 1 1, .shutdown 7, .worker, .resume 7, .worker, .resume 1]).map
      (fun r => (r.1.worker, r.1.queue, r.1.acks)) =
    some (.draining, [(.delete 1, some 1)], [.accepted, .pending]) := by decide

/-! ## 4  Layer B: the worker's next ACTION is enabled, or it waits for a lock whose holder is enabled -/

namespace B

/-- the eviction sample the worker carries across schedule points -/
def WPc.sample? : WPc → Option (List SKey)
  | .evRemove _ _ s _ => some s
  | .evSub _ _ s _ _ => some s
  | .evStore _ _ s _ _ => some s
  | .evSpace _ _ s => some s
  | .fill _ _ s _ => some s
  | _ => none

/-- Invariant: the sample the worker carries has pairwise distinct ids (the heap is fed from a `DashMap` iteration
    that skips ids already sampled). -/
def WSampleND (b : BState) : Prop := ∀ s, b.w.sample? = some s → SampleND s

/-- the victim branch of `loopDecide` hands on the sample minus the victim -/
theorem loopDecide_sampleND {b : BState} {c : PutCmd} {e : Nat} {s : List SKey} {space : Int} {o : Oracle}
    {b' : BState} {o' : Oracle} (h : loopDecide b c e s space o = .ok (b', o')) (hs : SampleND s) :
    ∀ s', b'.w.sample? = some s' → SampleND s' := by
  intro s' hs'
  unfold loopDecide at h
  split at h
  · simp only [Except.ok.injEq, Prod.mk.injEq] at h
    obtain ⟨rfl, -⟩ := h
    simp [WPc.sample?] at hs'
  · split at h
    · cases h
    · split at h
      · cases h
      · simp only [Except.ok.injEq, Prod.mk.injEq] at h
        obtain ⟨rfl, -⟩ := h
        simp [WPc.sample?] at hs'
    · split at h
      · cases h
      · split at h
        · cases h
        · split at h
          · simp only [Except.ok.injEq, Prod.mk.injEq] at h
            obtain ⟨rfl, -⟩ := h
            simp [WPc.sample?, rejectCmd, finishCmd] at hs'
          · simp only [Except.ok.injEq, Prod.mk.injEq] at h
            obtain ⟨rfl, -⟩ := h
            simp only [WPc.sample?, Option.some.injEq] at hs'
            subst hs'
            exact hs.filter _

theorem wsampleND_workerAct {b b' : BState} {o o' : Oracle} (hs : WSampleND b) (h : workerAct b o = .ok (b', o')) :
    WSampleND b' := by
  have ht := workerAct_trans h
  cases ht
  case initVictim c e space s' k hw =>
    simp only [workerAct, hw] at h
    split at h
    · cases h
    · rename_i sample o2 hfill
      exact loopDecide_sampleND h (fillSample_sampleND _ _ _ _ _ SampleND.nil hfill)
  case fillVictim c e s space s' k hw =>
    simp only [workerAct, hw] at h
    split at h
    · cases h
    · rename_i sample o2 hfill
      exact loopDecide_sampleND h (fillSample_sampleND _ _ _ _ _ (hs s (by rw [hw]; rfl)) hfill)
  all_goals
    intro s hs'
    first
      | (simp [WPc.sample?, finishCmd, rejectCmd] at hs'; done)
      | (simp only [WPc.sample?, Option.some.injEq] at hs'
         subst hs'
         exact hs _ (by simp [WPc.sample?, *]))

theorem wsampleND_of_w {b b' : BState} (hs : WSampleND b) (hw : b'.w = b.w) : WSampleND b' := by
  intro s hs'
  rw [hw] at hs'
  exact hs s hs'

theorem wsampleND_step {b b' : BState} {a : Act} {o o' : Oracle} (hs : WSampleND b)
    (h : stepB b a o = .ok (b', o')) : WSampleND b' := by
  cases a with
  | worker => exact wsampleND_workerAct hs h
  | issue i r =>
    simp only [stepB] at h
    split at h
    · rename_i b1 hi
      simp only [Except.ok.injEq, Prod.mk.injEq] at h
      obtain ⟨rfl, -⟩ := h
      unfold issue at hi
      split at hi
      · simp only [Except.ok.injEq] at hi
        subst hi
        exact hs
      · cases hi
    · cases h
  | client i => exact wsampleND_of_w hs (ctrans_frame (clientAct_trans h)).1
  | sweeper v =>
    simp only [stepB] at h
    split at h
    · rename_i b1 hs'
      simp only [Except.ok.injEq, Prod.mk.injEq] at h
      obtain ⟨rfl, -⟩ := h
      exact wsampleND_of_w hs (strans_frame (sweeperAct_trans hs')).1
    · cases h
  | consumer =>
    simp only [stepB] at h
    split at h
    · simp only [Except.ok.injEq, Prod.mk.injEq] at h
      obtain ⟨rfl, -⟩ := h
      exact hs
    · cases h
  | advance d =>
    simp only [stepB, Except.ok.injEq, Prod.mk.injEq] at h
    obtain ⟨rfl, -⟩ := h
    exact hs

/-- at every reachable state of Layer B the sample the worker carries has pairwise distinct ids -/
theorem wsampleND_reach {cfg : Cfg} {now : Nat} {seeds : List Nat} {clients : Nat} {b : BState}
    (h : Reach cfg now seeds clients b) : WSampleND b := by
  induction h with
  | init m => intro s hs; simp [BState.init, WPc.sample?] at hs
  | step _ hstep ih => exact wsampleND_step ih hstep

/-! ### enabledness, position by position -/

/-- `loopDecide` can always be served: there is a legal pop for every sample with pairwise distinct ids. -/
theorem loopDecide_exists (b : BState) (c : PutCmd) (incEst : Nat) (sample : List SKey) (space : Int)
    (hnd : SampleND sample) : ∀ o' : Oracle, ∃ (o : Oracle) (b' : BState), loopDecide b c incEst sample space o = .ok (b', o') := by
  intro o'
  by_cases hfit : space ≥ c.w
  · refine ⟨o', { b with w := .insert c }, ?_⟩
    unfold loopDecide
    rw [if_pos hfit]
  · cases hsm : sample with
    | nil =>
      refine ⟨{ o' with pops := none :: o'.pops }, { b with w := .emptySpace c }, ?_⟩
      unfold loopDecide
      rw [if_neg hfit]
      simp only [List.isEmpty_nil, Bool.not_true, Bool.false_eq_true, if_false]
    | cons x rest =>
      rw [← hsm]
      obtain ⟨k, hk, hmax⟩ := SKey.exists_max sample (by rw [hsm]; simp)
      have hfind := hnd.find? hk
      by_cases hhot : incEst < k.est
      · refine ⟨{ o' with pops := some k.id :: o'.pops }, rejectCmd b c.h (.rejected .noSpace), ?_⟩
        unfold loopDecide
        rw [if_neg hfit]
        simp only [hfind, hmax, Bool.not_true, Bool.false_eq_true, if_false, hhot, if_true]
      · refine ⟨{ o' with pops := some k.id :: o'.pops },
          { b with w := .evRemove c incEst (sample.filter (fun x => x.id != k.id)) k }, ?_⟩
        unfold loopDecide
        rw [if_neg hfit]
        simp only [hfind, hmax, Bool.not_true, Bool.false_eq_true, if_false, hhot]

/-- `weight_used`, when the worker cannot take it, is owned by the sweeper -/
theorem wu_blocked {b : BState} (hb : BInv b) (h : wuFree b .worker = false) : b.wuOwner = some .sweeper := by
  unfold wuFree at h
  cases ho : b.wuOwner with
  | none => simp [ho] at h
  | some t =>
    cases t with
    | worker => simp [ho] at h
    | sweeper => rfl
    | consumer => exact absurd ho (hb.wuClients 0).2
    | client i => exact absurd ho (hb.wuClients i).1

/-- what the worker may be waiting for when its next action is not enabled -/
def WorkerWaits (b : BState) : Prop :=
  -- `weight_used`, owned by the sweeper (standing at its `store.remove`), who is enabled or waits for a read guard
  (b.wuOwner = some .sweeper ∧ ∀ v, (∃ b', sweeperAct b v = .ok b') ∨ ∃ j sh, HoldsGuard b j sh) ∨
  -- a store shard read-locked by a `get_ref` guard
  (∃ j sh, HoldsGuard b j sh) ∨
  -- an expiry shard, owned by the sweeper, who is enabled or waits for a read guard
  (∃ sh, b.ttlOwner = some sh ∧ ((∃ v b', sweeperAct b v = .ok b') ∨ ∃ j sh', HoldsGuard b j sh'))

/-- **Layer B: the worker's next action.**  In every state with the Layer B invariant (`BInv`, `binv_reach`), a sample
    with distinct ids (`wsampleND_reach`) and a well-formed sketch (`C17_layerB_no_sketch_panic`), a worker that is
    not dead and — where it stands at `recv` or `drain` — has a command to receive, EITHER can take its next action
    (for some oracle the step of the model succeeds: whatever the position — receiving, the worker-side re-check,
    every action of `maybe_add` / `create_space` including the sampling and the pops, the store and expiry-index
    writes, weight update, every action of a delete, draining) OR waits for one of the three locks that are held
    across schedule points, and then the holder is enabled or itself waits for a `get_ref` read guard, whose holder
    is enabled for every legal oracle (`C18_layerB_lock_progress`, `C18_layerB_guard_holder_enabled`). -/
theorem C13_layerB_worker_enabled_of_inv {b : BState} (hb : BInv b) (hs : WSampleND b) (wf : b.g.lfu.fc.WF)
    (hd : b.w ≠ .dead) (hq : b.w = .recv ∨ b.w = .drain → b.g.queue ≠ []) :
    (∃ (o : Oracle) (r : BState × Oracle), stepB b .worker o = .ok r) ∨ WorkerWaits b := by
  obtain ⟨_, h2, h3, _⟩ := C18_layerB_lock_progress hb
  have wuCase : wuFree b .worker = false → WorkerWaits b :=
    fun h => Or.inl ⟨wu_blocked hb h, h2 (wu_blocked hb h)⟩
  have guardCase : ∀ k, storeWritable b k none = false → WorkerWaits b := by
    intro k h
    obtain ⟨j, _, hj⟩ := blocked_by_guard hb h
    exact Or.inr (Or.inl ⟨j, _, hj⟩)
  have ttlCase : ∀ sh, ttlFree b sh = false →
      (∃ (o : Oracle) (r : BState × Oracle), stepB b .worker o = .ok r) ∨ WorkerWaits b := by
    intro sh h
    have ho : b.ttlOwner = some sh := by
      unfold ttlFree at h
      simpa using h
    rcases h3 sh ho with h' | ⟨_, h'⟩ | h'
    · exact Or.inr (Or.inr (Or.inr ⟨sh, ho, Or.inl h'⟩))
    · rcases h' {} with ⟨b1, o1, h1, _⟩ | hg
      · exact Or.inl ⟨{}, _, h1⟩
      · exact Or.inr (Or.inr (Or.inl hg))
    · exact Or.inr (Or.inr (Or.inr ⟨sh, ho, Or.inr h'⟩))
  cases hw : b.w with
  | dead => exact absurd hw hd
  | recv =>
    left
    cases hqq : b.g.queue with
    | nil => exact absurd hqq (hq (Or.inl hw))
    | cons x q =>
      obtain ⟨cmd, h⟩ := x
      refine ⟨{}, ?_⟩
      simp only [stepB, workerAct, hw, hqq]
      cases cmd <;> exact ⟨_, rfl⟩
  | drain =>
    left
    cases hqq : b.g.queue with
    | nil => exact absurd hqq (hq (Or.inr hw))
    | cons x q =>
      obtain ⟨cmd, h⟩ := x
      refine ⟨{}, ?_⟩
      simp only [stepB, workerAct, hw, hqq]
      exact ⟨_, rfl⟩
  | present c =>
    left
    refine ⟨{}, ?_⟩
    simp only [stepB, workerAct, hw]
    split
    · exact ⟨_, rfl⟩
    · split <;> exact ⟨_, rfl⟩
  | space0 c =>
    cases hf : wuFree b .worker with
    | false => exact Or.inr (wuCase hf)
    | true =>
      left
      by_cases hov : b.g.adm.spaceOverflow = true
      · refine ⟨{}, ?_⟩
        simp only [stepB, workerAct, hw, hf, Bool.not_true, Bool.false_eq_true, if_false, hov, if_true]
        exact ⟨_, rfl⟩
      by_cases hfit : b.g.adm.max - b.g.adm.used ≥ c.w
      · refine ⟨{}, ?_⟩
        simp only [stepB, workerAct, hw, hf, Bool.not_true, Bool.false_eq_true, if_false, hov, hfit, if_true]
        exact ⟨_, rfl⟩
      · obtain ⟨e, he⟩ := estimateO_exists b.g.lfu wf c.hash
        refine ⟨{ ({} : Oracle) with dk := b.g.lfu.dk.contains c.hash :: ({} : Oracle).dk }, ?_⟩
        simp only [stepB, workerAct, hw, hf, Bool.not_true, Bool.false_eq_true, if_false, hov, hfit, he {}]
        exact ⟨_, rfl⟩
  | sampleInit c space incEst =>
    left
    obtain ⟨s', hs'⟩ := fillSample_exists b.g.lfu wf hb.kwNoDup (fillNeed b.g.cfg.sampleSize b.g.adm.kw []) []
      (Nat.min_le_right _ _)
    obtain ⟨o0, ho0⟩ := hs' {}
    have hnd := fillSample_sampleND _ _ _ _ _ SampleND.nil ho0
    obtain ⟨o1, b1, h1⟩ := loopDecide_exists b c incEst s' space hnd {}
    obtain ⟨o2, ho2⟩ := hs' o1
    refine ⟨o2, (b1, {}), ?_⟩
    simp only [stepB, workerAct, hw, ho2, h1]
  | fill c incEst sample space =>
    left
    obtain ⟨s', hs'⟩ := fillSample_exists b.g.lfu wf hb.kwNoDup (fillNeed b.g.cfg.sampleSize b.g.adm.kw sample)
      sample (Nat.min_le_right _ _)
    obtain ⟨o0, ho0⟩ := hs' {}
    have hnd := fillSample_sampleND _ _ _ _ _ (hs sample (by rw [hw]; rfl)) ho0
    obtain ⟨o1, b1, h1⟩ := loopDecide_exists b c incEst s' space hnd {}
    obtain ⟨o2, ho2⟩ := hs' o1
    refine ⟨o2, (b1, {}), ?_⟩
    simp only [stepB, workerAct, hw, ho2, h1]
  | evRemove c incEst sample victim =>
    left
    refine ⟨{}, ?_⟩
    simp only [stepB, workerAct, hw]
    split <;> exact ⟨_, rfl⟩
  | evSub c incEst sample id wk =>
    cases hf : wuFree b .worker with
    | false => exact Or.inr (wuCase hf)
    | true =>
      left
      refine ⟨{}, ?_⟩
      simp only [stepB, workerAct, hw, hf, Bool.not_true, Bool.false_eq_true, if_false]
      exact ⟨_, rfl⟩
  | evStore c incEst sample id wk =>
    cases hf : storeWritable b wk.key none with
    | false => exact Or.inr (guardCase _ hf)
    | true =>
      left
      refine ⟨{}, ?_⟩
      simp only [stepB, workerAct, hw, hf, Bool.not_true, Bool.false_eq_true, if_false]
      exact ⟨_, rfl⟩
  | evSpace c incEst sample =>
    cases hf : wuFree b .worker with
    | false => exact Or.inr (wuCase hf)
    | true =>
      left
      refine ⟨{}, ?_⟩
      simp only [stepB, workerAct, hw, hf, Bool.not_true, Bool.false_eq_true, if_false]
      split <;> exact ⟨_, rfl⟩
  | emptySpace c =>
    cases hf : wuFree b .worker with
    | false => exact Or.inr (wuCase hf)
    | true =>
      left
      refine ⟨{}, ?_⟩
      simp only [stepB, workerAct, hw, hf, Bool.not_true, Bool.false_eq_true, if_false]
      split
      · exact ⟨_, rfl⟩
      · split <;> exact ⟨_, rfl⟩
  | insert c =>
    left
    refine ⟨{}, ?_⟩
    simp only [stepB, workerAct, hw]
    exact ⟨_, rfl⟩
  | add c =>
    cases hf : wuFree b .worker with
    | false => exact Or.inr (wuCase hf)
    | true =>
      left
      refine ⟨{}, ?_⟩
      simp only [stepB, workerAct, hw, hf, Bool.not_true, Bool.false_eq_true, if_false]
      exact ⟨_, rfl⟩
  | storePut c =>
    cases hf : storeWritable b c.k none with
    | false => exact Or.inr (guardCase _ hf)
    | true =>
      left
      refine ⟨{}, ?_⟩
      simp only [stepB, workerAct, hw, hf, Bool.not_true, Bool.false_eq_true, if_false]
      split
      · exact ⟨_, rfl⟩
      · split <;> exact ⟨_, rfl⟩
  | ttlPut c e =>
    cases hf : ttlFree b (shardOf b.g.cfg e) with
    | false => exact ttlCase _ hf
    | true =>
      left
      refine ⟨{}, ?_⟩
      simp only [stepB, workerAct, hw, hf, Bool.not_true, Bool.false_eq_true, if_false]
      exact ⟨_, rfl⟩
  | update id w h =>
    cases hf : wuFree b .worker with
    | false => exact Or.inr (wuCase hf)
    | true =>
      left
      refine ⟨{}, ?_⟩
      simp only [stepB, workerAct, hw, hf, Bool.not_true, Bool.false_eq_true, if_false]
      split <;> exact ⟨_, rfl⟩
  | delStore k h =>
    cases hf : storeWritable b k none with
    | false => exact Or.inr (guardCase _ hf)
    | true =>
      left
      refine ⟨{}, ?_⟩
      simp only [stepB, workerAct, hw, hf, Bool.not_true, Bool.false_eq_true, if_false]
      split <;> exact ⟨_, rfl⟩
  | delKw id exp h =>
    left
    refine ⟨{}, ?_⟩
    simp only [stepB, workerAct, hw]
    split
    · exact ⟨_, rfl⟩
    · split <;> exact ⟨_, rfl⟩
  | delSub id wk exp h =>
    cases hf : wuFree b .worker with
    | false => exact Or.inr (wuCase hf)
    | true =>
      left
      refine ⟨{}, ?_⟩
      simp only [stepB, workerAct, hw, hf, Bool.not_true, Bool.false_eq_true, if_false]
      split <;> exact ⟨_, rfl⟩
  | delTtl id e h =>
    cases hf : ttlFree b (shardOf b.g.cfg e) with
    | false => exact ttlCase _ hf
    | true =>
      left
      refine ⟨{}, ?_⟩
      simp only [stepB, workerAct, hw, hf, Bool.not_true, Bool.false_eq_true, if_false]
      exact ⟨_, rfl⟩

/-- **C13 / C18 at action granularity, at every reachable state of every interleaving** (any number of clients, any
    map of keys to store shards; `seeds ≠ []`: the sketch has a row — the crate uses four): a worker that is not dead
    and is not waiting for a command (`recv` / `drain` with an empty queue) can take its next action with a suitable
    oracle, or waits for `weight_used` / a store shard read guard / an expiry shard whose holder is enabled or waits
    for a read guard (`WorkerWaits`); and every holder of a read guard is enabled for every legal oracle. -/
theorem C13_layerB_worker_enabled {cfg : Cfg} {now : Nat} {seeds : List Nat} {clients : Nat} {b : BState}
    (hseeds : seeds ≠ []) (hr : Reach cfg now seeds clients b) (hd : b.w ≠ .dead)
    (hq : b.w = .recv ∨ b.w = .drain → b.g.queue ≠ []) :
    ((∃ (o : Oracle) (r : BState × Oracle), stepB b .worker o = .ok r) ∨ WorkerWaits b) ∧
    (∀ j sh, HoldsGuard b j sh → ∀ (o : Oracle) (idx : Nat) (rest : List Nat), o.pool = idx :: rest →
      idx < b.g.pool.length → ∃ r, stepB b (.client j) o = .ok r) :=
  ⟨C13_layerB_worker_enabled_of_inv (binv_reach hr) (wsampleND_reach hr)
      (C17_layerB_no_sketch_panic hseeds hr (.advance 0) {}).1 hd hq,
    (C18_layerB_lock_progress (binv_reach hr)).2.2.2⟩

/-! ### non-vacuity (Layer B) -/

/-- `lockedRun` (LayerB/Theorems.lean) cut before the worker samples: keys 1 and 2 charged (3 + 3 of 10), a put of
    weight 8 received, re-checked, found not to fit, its estimate taken — the worker stands at `sample.init` -/
def sampleRun : List (Act × Oracle) :=
  call 0 (.putW 1 100 3 (some 5)) 4 ++ workerN 7 ++ call 0 (.putW 2 200 3 none) 4 ++ workerN 6 ++
  call 0 (.putW 3 300 8 none) 4 ++ [(.worker, noO), (.worker, noO), (.worker, { dk := [false] })]

/-- the hypotheses of `C13_layerB_worker_enabled` hold there, the step is NOT enabled for the empty oracle, and is
    enabled for a legal one (sample both charged ids, pop the heavier of the two coldest): the oracle matters -/
example :
    (match runB (BState.init cfgEx 0 [1, 2, 3, 4] 2) sampleRun with
     | .ok b =>
       (match b.w with | .sampleInit _ _ _ => true | _ => false) &&
       (match stepB b .worker noO with | .error _ => true | _ => false) &&
       (match stepB b .worker { dk := [false, false], ids := [1, 2], pops := [some 1] } with
        | .ok (b1, _) => (match b1.w with | .evRemove _ _ _ _ => true | _ => false)
        | _ => false)
     | _ => false) = true := by decide

/-- the sweeper owns `weight_used` (it stands at its `store.remove`); a put is received and re-checked: the worker
    stands at `wu.space` and waits — first alternative of `WorkerWaits` -/
def waitRun : List (Act × Oracle) :=
  call 0 (.putW 1 100 3 (some 5)) 4 ++ workerN 7 ++
  [(.advance 10, noO), (.sweeper none, noO), (.sweeper (some 1), noO), (.sweeper none, noO), (.sweeper none, noO)] ++
  call 0 (.putW 2 200 4 none) 4 ++ workerN 2

example :
    (match runB (BState.init cfgEx 0 [1, 2, 3, 4] 2) waitRun with
     | .ok b =>
       decide (b.wuOwner = some .sweeper) &&
       (match b.w, b.sw with
        | .space0 _, .store _ _ _ _ _ => true
        | _, _ => false) &&
       (match stepB b .worker noO with
        | .error m => m == "not enabled: weight_used is locked"
        | _ => false) &&
       (match sweeperAct b none with
        | .ok b1 => decide (b1.wuOwner = none) && (match stepB b1 .worker noO with | .ok _ => true | _ => false)
        | _ => false)
     | _ => false) = true := by decide

/-- both states are reachable -/
example : ∃ b, runB (BState.init cfgEx 0 [1, 2, 3, 4] 2) sampleRun = .ok b ∧ Reach cfgEx 0 [1, 2, 3, 4] 2 b ∧
    b.w ≠ .dead ∧ (b.w = .recv ∨ b.w = .drain → b.g.queue ≠ []) := by
  have hrun : ∃ b, runB (BState.init cfgEx 0 [1, 2, 3, 4] 2) sampleRun = .ok b ∧
      (match b.w with | .sampleInit _ _ _ => true | _ => false) = true := ⟨_, rfl, by decide⟩
  obtain ⟨b, hb, hw⟩ := hrun
  refine ⟨b, hb, reach_runB _ (.init []) hb, ?_, ?_⟩
  · intro e; rw [e] at hw; cases hw
  · rintro (e | e) <;> rw [e] at hw <;> cases hw

end B

end Cached
