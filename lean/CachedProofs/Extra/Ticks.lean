/-
  C10, the part "sweeps reach every shard", for a tick of ANY whole number `d` of seconds.

  `C10_fair_ticks` (Properties/C10.lean) is the arithmetic of a tick of exactly 1 s; the crate's default tick is 5 s
  with 256 shards (`Glue.Defaults.crate`).  A tick of `d` seconds visits the shards `(t₀ + i·d) mod shards`.

    * `C10_fair_ticks_coprime` (seconds), `C10_fair_ticks_coprime_ns` (the model's nanosecond clock, `secsOf`):
      if `gcd d shards = 1` then ANY `shards` consecutive ticks visit every shard exactly once
      (`i ↦ (t₀ + i·d) mod shards` is injective on `i < shards` and onto `r < shards`, the preimage is unique);
      `C10_fair_ticks_coprime_again`: every shard is visited again and again (for every bound `B` a tick at or after
      `B` visits it; generalises `C10_fair_ticks`, needs `0 < d`: a tick of 0 s never passes any bound);
      `C10_fair_ticks_defaults`: the instance for the crate's defaults (5 s, 256 shards).
    * `C10_unfair_ticks_class`, `C10_unfair_ticks_never`, `C10_unfair_ticks_iff` (+ `_ns`): if `gcd d shards ≠ 1` every
      visited shard lies in ONE residue class modulo the gcd, so some shard is never visited, by no tick at all:
      all shards are reached iff `gcd d shards = 1` (generalises `C10_unfair_ticks`).
    * `C10_expired_key_removed_at_first_visit`, `C10_expired_key_removed_within_a_round` (Layer A, under `TtlInv`):
      composition with `C10_eventually`: in a run of the ticker alone (`sweepRun` / `tickRun`: sweep, let time pass,
      sweep, ...) a stored key whose deadline has passed stays as it is until the first sweep that visits the
      shard of its deadline; that sweep removes it and releases its weight; it stays removed; and with a tick
      coprime to the number of shards that sweep is one of the next `shards` ticks.

  Helper lemmas are kept here (the task names this one file); they are the unnumbered `ticks_*`, `sweepRun_*`,
  `sweep*_sweeper*` statements.
-/
import CachedProofs.Properties.C10
import CachedModel.Glue

namespace Cached

/-! ### arithmetic: the residues `(t₀ + i·d) mod m` -/

/-- Bezout over `Int` (core has no extended gcd): `x·d + y·m = gcd d m`. -/
theorem ticks_bezout (d m : Nat) : ∃ x y : Int, x * (d : Int) + y * (m : Int) = (Nat.gcd d m : Int) := by
  induction d, m using Nat.gcd.induction with
  | H0 n => exact ⟨0, 1, by simp⟩
  | H1 a b _ ih =>
    obtain ⟨x, y, h⟩ := ih
    refine ⟨y - x * ((b : Int) / (a : Int)), x, ?_⟩
    rw [Nat.gcd_rec a b, ← h, Int.natCast_emod, Int.emod_def]
    grind

/-- a tick coprime to `m` has an inverse modulo `m` -/
theorem ticks_inverse {d m : Nat} (hpos : 0 < m) (h : Nat.gcd d m = 1) : ∃ e, e < m ∧ (d * e) % m = 1 % m := by
  obtain ⟨x, y, hxy⟩ := ticks_bezout d m
  rw [h] at hxy
  have hm : (m : Int) ≠ 0 := by omega
  have hnn : 0 ≤ x % (m : Int) := Int.emod_nonneg x hm
  have hlt : x % (m : Int) < m := Int.emod_lt_of_pos x (by omega)
  refine ⟨(x % (m : Int)).toNat, by omega, ?_⟩
  apply Int.natCast_inj.mp
  rw [Int.natCast_emod, Int.natCast_emod, Int.natCast_mul, Int.toNat_of_nonneg hnn, Int.mul_emod, Int.emod_emod,
    ← Int.mul_emod]
  have : (d : Int) * x = 1 + (-y) * m := by grind
  rw [this, Int.add_mul_emod_self_right]
  rfl

theorem ticks_inj {d m : Nat} (h : Nat.gcd d m = 1) (t0 : Nat) {i j : Nat} (hij : i ≤ j) (hj : j < m)
    (he : (t0 + i * d) % m = (t0 + j * d) % m) : i = j := by
  have h0 : ((t0 + j * d) - (t0 + i * d)) % m = 0 := Nat.sub_mod_eq_zero_of_mod_eq he.symm
  have e : (t0 + j * d) - (t0 + i * d) = (j - i) * d := by rw [Nat.sub_mul]; omega
  rw [e] at h0
  have hd : m ∣ (j - i) * d := Nat.dvd_of_mod_eq_zero h0
  have hc : Nat.Coprime m d := by unfold Nat.Coprime; rw [Nat.gcd_comm]; exact h
  have h1 := hc.dvd_of_dvd_mul_right hd
  have h2 := Nat.eq_zero_of_dvd_of_lt h1 (by omega)
  omega

theorem ticks_surj {d m : Nat} (hpos : 0 < m) (h : Nat.gcd d m = 1) (t0 : Nat) {r : Nat} (hr : r < m) :
    ∃ i, i < m ∧ (t0 + i * d) % m = r := by
  obtain ⟨e, _, he⟩ := ticks_inverse hpos h
  have ht : t0 % m < m := Nat.mod_lt _ hpos
  refine ⟨((r + m - t0 % m) * e) % m, Nat.mod_lt _ hpos, ?_⟩
  have h1 : ((r + m - t0 % m) * e % m * d) % m = (r + m - t0 % m) % m := by
    rw [Nat.mod_mul_mod, Nat.mul_assoc, Nat.mul_comm e d, ← Nat.mul_mod_mod, he, Nat.mul_mod_mod, Nat.mul_one]
  have h2 : t0 % m + (r + m - t0 % m) = r + m := by omega
  rw [Nat.add_mod, h1, Nat.add_mod_mod, h2, Nat.add_mod_right, Nat.mod_eq_of_lt hr]

/-- the second in which the `n`-th tick of a `d`-second ticker started at `t0` (nanoseconds) falls -/
theorem secsOf_tick (t0 n d : Nat) : secsOf (t0 + n * (d * 1000000000)) = secsOf t0 + n * d := by
  unfold secsOf nsPerSec
  rw [← Nat.mul_assoc]
  exact Nat.add_mul_div_right t0 (n * d) (by decide)

/-- **A tick of `d` seconds with `gcd d shards = 1` visits every shard exactly once in every round of `shards`
    ticks** (seconds; `t₀` is the second of the first tick of the round — any tick of the train may be taken as
    the first): the visited shard `(t₀ + i·d) mod shards` is different for different `i < shards`, and every shard
    `r` is visited by exactly one tick `i < shards` of the round. -/
theorem C10_fair_ticks_coprime (d shards : Nat) (hpos : 0 < shards) (hco : Nat.gcd d shards = 1) (t0 : Nat) :
    (∀ i j, i < shards → j < shards → (t0 + i * d) % shards = (t0 + j * d) % shards → i = j) ∧
    (∀ r, r < shards → ∃ i, i < shards ∧ (t0 + i * d) % shards = r ∧
      ∀ j, j < shards → (t0 + j * d) % shards = r → j = i) := by
  have inj : ∀ i j, i < shards → j < shards → (t0 + i * d) % shards = (t0 + j * d) % shards → i = j := by
    intro i j hi hj he
    rcases Nat.le_total i j with h | h
    · exact ticks_inj hco t0 h hj he
    · exact (ticks_inj hco t0 h hi he.symm).symm
  refine ⟨inj, ?_⟩
  intro r hr
  obtain ⟨i, hi, he⟩ := ticks_surj hpos hco t0 hr
  exact ⟨i, hi, he, fun j hj hje => inj j i hj hi (hje.trans he.symm)⟩

/-- The same on the model's clock: `t0` in nanoseconds, the ticks at `t0 + i · (d · 10⁹)`, the visited shard
    `secsOf now % shards` as in `sweepStep`. -/
theorem C10_fair_ticks_coprime_ns (d shards : Nat) (hpos : 0 < shards) (hco : Nat.gcd d shards = 1) (t0 : Nat) :
    (∀ i j, i < shards → j < shards →
      secsOf (t0 + i * (d * 1000000000)) % shards = secsOf (t0 + j * (d * 1000000000)) % shards → i = j) ∧
    (∀ r, r < shards → ∃ i, i < shards ∧ secsOf (t0 + i * (d * 1000000000)) % shards = r ∧
      ∀ j, j < shards → secsOf (t0 + j * (d * 1000000000)) % shards = r → j = i) := by
  simp only [secsOf_tick]
  exact C10_fair_ticks_coprime d shards hpos hco (secsOf t0)

/-- **Again and again**: with a tick of `d > 0` seconds, `gcd d shards = 1`, for every shard `r` and every time
    bound `B` there is a tick at or after `B` that visits `r` (`C10_fair_ticks` is the case `d = 1`). -/
theorem C10_fair_ticks_coprime_again (d shards : Nat) (hpos : 0 < shards) (hd : 0 < d)
    (hco : Nat.gcd d shards = 1) (t0 r B : Nat) (hr : r < shards) :
    ∃ n, t0 + n * (d * 1000000000) ≥ B ∧ secsOf (t0 + n * (d * 1000000000)) % shards = r := by
  obtain ⟨i, _, he⟩ := ticks_surj hpos hco (secsOf t0) hr
  refine ⟨i + shards * B, ?_, ?_⟩
  · have h1 : B ≤ shards * B := Nat.le_mul_of_pos_left _ hpos
    have h2 : i + shards * B ≤ (i + shards * B) * (d * 1000000000) :=
      Nat.le_mul_of_pos_right _ (Nat.mul_pos hd (by decide))
    omega
  · rw [secsOf_tick, Nat.add_mul, ← Nat.add_assoc, Nat.mul_assoc, Nat.add_mul_mod_self_left]
    exact he

/-- `0 < d` is needed there: a "tick" of 0 s with one shard satisfies `gcd 0 1 = 1` but never passes a bound. -/
example : Nat.gcd 0 1 = 1 ∧ ¬ ∃ n, 0 + n * (0 * 1000000000) ≥ 1 := by
  refine ⟨by decide, ?_⟩
  intro ⟨n, h⟩
  omega

/-- non-vacuity of the hypotheses: the crate's defaults (tick 5 s, 256 shards), and a small instance -/
example : 0 < 256 ∧ 0 < 5 ∧ Nat.gcd 5 256 = 1 := by decide
example : 0 < 3 ∧ 0 < 5 ∧ Nat.gcd 5 3 = 1 := by decide

/-- the crate's defaults are such a ticker -/
example : Glue.Defaults.crate.tickNs = 5 * 1000000000 ∧ Glue.Defaults.crate.shards = 256 ∧
    Nat.gcd (Glue.Defaults.crate.tickNs / nsPerSec) Glue.Defaults.crate.shards = 1 := by decide

/-- **The crate's default ticker (`ttl_tick_duration` 5 s, 256 shards, `Glue.Defaults.crate`) visits each of the
    256 shards exactly once in every 256 ticks (21 min 20 s), and every shard again and again.** -/
theorem C10_fair_ticks_defaults (t0 : Nat) :
    (∀ i j, i < Glue.Defaults.crate.shards → j < Glue.Defaults.crate.shards →
      secsOf (t0 + i * Glue.Defaults.crate.tickNs) % Glue.Defaults.crate.shards =
        secsOf (t0 + j * Glue.Defaults.crate.tickNs) % Glue.Defaults.crate.shards → i = j) ∧
    (∀ r, r < Glue.Defaults.crate.shards →
      ∃ i, i < Glue.Defaults.crate.shards ∧
        secsOf (t0 + i * Glue.Defaults.crate.tickNs) % Glue.Defaults.crate.shards = r ∧
        ∀ j, j < Glue.Defaults.crate.shards →
          secsOf (t0 + j * Glue.Defaults.crate.tickNs) % Glue.Defaults.crate.shards = r → j = i) ∧
    (∀ r B, r < Glue.Defaults.crate.shards →
      ∃ n, t0 + n * Glue.Defaults.crate.tickNs ≥ B ∧
        secsOf (t0 + n * Glue.Defaults.crate.tickNs) % Glue.Defaults.crate.shards = r) := by
  have h := C10_fair_ticks_coprime_ns 5 256 (by decide) (by decide) t0
  exact ⟨h.1, h.2, fun r B hr => C10_fair_ticks_coprime_again 5 256 (by decide) (by decide) (by decide) t0 r B hr⟩

/-- a small concrete round: tick 5 s, 3 shards, first tick at 7.2 s: the shards visited are 1, 0, 2 -/
example : (List.range 3).map (fun i => secsOf (7200000000 + i * (5 * 1000000000)) % 3) = [1, 0, 2] := by decide

/-! ### a tick that shares a factor with the number of shards -/

/-- every visited shard lies in the residue class of the first one modulo `gcd d shards`
    (`C10_unfair_ticks` is `d = 2`, `shards = 256` on the nanosecond clock) -/
theorem C10_unfair_ticks_class (d shards t0 n : Nat) :
    ((t0 + n * d) % shards) % Nat.gcd d shards = t0 % Nat.gcd d shards := by
  rw [Nat.mod_mod_of_dvd _ (Nat.gcd_dvd_right d shards)]
  obtain ⟨q, hq⟩ := Nat.gcd_dvd_left d shards
  have : n * d = Nat.gcd d shards * (n * q) := by
    rw [Nat.mul_left_comm, ← hq]
  rw [this, Nat.add_mul_mod_self_left]

/-- **If the tick shares a factor with the number of shards, some shard is never visited** — by no tick of the
    train at all, not only within a round. -/
theorem C10_unfair_ticks_never (d shards : Nat) (hpos : 0 < shards) (hg : Nat.gcd d shards ≠ 1) (t0 : Nat) :
    ∃ r, r < shards ∧ ∀ n, (t0 + n * d) % shards ≠ r := by
  have hdvd := Nat.gcd_dvd_right d shards
  have hle : Nat.gcd d shards ≤ shards := Nat.le_of_dvd hpos hdvd
  have hg0 : Nat.gcd d shards ≠ 0 := by
    intro h0
    rw [h0] at hdvd
    have := Nat.eq_zero_of_zero_dvd hdvd
    omega
  have hcls := C10_unfair_ticks_class d shards t0
  generalize Nat.gcd d shards = g at *
  have ha : t0 % g < g := Nat.mod_lt _ (by omega)
  have hr : (t0 % g + 1) % g < g := Nat.mod_lt _ (by omega)
  refine ⟨(t0 % g + 1) % g, by omega, ?_⟩
  intro n hn
  have h1 := hcls n
  rw [hn, Nat.mod_mod] at h1
  by_cases hlt : t0 % g + 1 < g
  · rw [Nat.mod_eq_of_lt hlt] at h1
    omega
  · have : t0 % g + 1 = g := by omega
    rw [this, Nat.mod_self] at h1
    omega

/-- **The ticker reaches every shard iff its tick (in seconds) is coprime to the number of shards.** -/
theorem C10_unfair_ticks_iff (d shards : Nat) (hpos : 0 < shards) (t0 : Nat) :
    (∀ r, r < shards → ∃ n, (t0 + n * d) % shards = r) ↔ Nat.gcd d shards = 1 := by
  constructor
  · intro h
    apply Classical.byContradiction
    intro hg
    obtain ⟨r, hr, hn⟩ := C10_unfair_ticks_never d shards hpos hg t0
    obtain ⟨n, he⟩ := h r hr
    exact hn n he
  · intro hco r hr
    obtain ⟨i, _, he⟩ := ticks_surj hpos hco t0 hr
    exact ⟨i, he⟩

/-- The same on the model's nanosecond clock. -/
theorem C10_unfair_ticks_iff_ns (d shards : Nat) (hpos : 0 < shards) (t0 : Nat) :
    (∀ r, r < shards → ∃ n, secsOf (t0 + n * (d * 1000000000)) % shards = r) ↔ Nat.gcd d shards = 1 := by
  simp only [secsOf_tick]
  exact C10_unfair_ticks_iff d shards hpos (secsOf t0)

/-- On the nanosecond clock: the never-visited shard, and the residue class of the visited ones. -/
theorem C10_unfair_ticks_never_ns (d shards : Nat) (hpos : 0 < shards) (hg : Nat.gcd d shards ≠ 1) (t0 : Nat) :
    (∃ r, r < shards ∧ ∀ n, secsOf (t0 + n * (d * 1000000000)) % shards ≠ r) ∧
    (∀ n, (secsOf (t0 + n * (d * 1000000000)) % shards) % Nat.gcd d shards = secsOf t0 % Nat.gcd d shards) := by
  simp only [secsOf_tick]
  exact ⟨C10_unfair_ticks_never d shards hpos hg (secsOf t0), C10_unfair_ticks_class d shards (secsOf t0)⟩

/-- non-vacuity: a tick of 2 s (or 6 s, or 256 s) with 256 shards; 2 s with 2 shards -/
example : 0 < 256 ∧ Nat.gcd 2 256 ≠ 1 ∧ Nat.gcd 6 256 ≠ 1 ∧ Nat.gcd 256 256 ≠ 1 ∧ 0 < 2 ∧ Nat.gcd 2 2 ≠ 1 := by decide

/-- the crate accepts such a tick: `ttl_tick_duration` has no `assert!` (`Builder.set (.tick _)` never fails) -/
example (b : Glue.Builder) (ns : Nat) : b.set (.tick ns) = some { b with tickNs := ns } := rfl

/-! ### Layer A: the ticker running alone -/

theorem sweepEvict_sweeperKeep (s : State) (id : Nat) : (sweepEvict s id).1.sweeperKeep = s.sweeperKeep := by
  unfold sweepEvict
  split
  · split
    · rfl
    · dsimp only
      split
      · simp only [applyEvictId_sweeperKeep]
      · rfl
  · rfl

theorem sweepEntries_sweeperKeep : ∀ (l : List ((Nat × Nat) × Nat)) (s : State) (acc : List Evicted),
    (sweepEntries s l acc).1.sweeperKeep = s.sweeperKeep := by
  intro l
  induction l with
  | nil => intro s acc; rfl
  | cons p rest ih =>
    intro s acc
    obtain ⟨⟨sh, id⟩, x⟩ := p
    simp only [sweepEntries]
    rw [ih, sweepEvict_sweeperKeep]

/-- after a sweep the ticker thread is alive iff it has not been told to stop (`shutdown()` clears `sweeperKeep`);
    a sweep does not change that flag -/
theorem sweepStep_sweeper {s s' : State} {ev : List Evicted} (hs : sweepStep s = .ok (s', .swept ev)) :
    s'.sweeperAlive = s.sweeperKeep ∧ s'.sweeperKeep = s.sweeperKeep := by
  obtain ⟨_, _, rfl⟩ := sweepStep_eq hs
  exact ⟨sweepEntries_sweeperKeep _ _ _, sweepEntries_sweeperKeep _ _ _⟩

/-- a live ticker can always sweep -/
theorem sweepStep_ok_of_alive (s : State) (h : s.sweeperAlive = true) :
    ∃ s' ev, sweepStep s = .ok (s', .swept ev) := by
  unfold sweepStep
  simp only [h, Bool.not_true, Bool.false_eq_true, if_false]
  exact ⟨_, _, rfl⟩

/-- a sweep never charges an id -/
theorem sweepStep_kw_none {s s' : State} {ev : List Evicted} (hs : sweepStep s = .ok (s', .swept ev)) {i : Nat}
    (h : s.adm.kw.get? i = none) : s'.adm.kw.get? i = none := by
  obtain ⟨s1, sp, _, h2, _⟩ := sweepStep_spec hs
  rw [h2, sp.kw, h]
  split <;> rfl

/-- The events of the ticker running alone: `sweep`, then the clock moves on by `a₀` ns, `sweep`, `a₁` ns, ...
    (one `.sweep` and one `.advance` event of the Layer A machine per element of the list; no other event). -/
def sweepEvents : List Nat → List (Ev × Oracle)
  | [] => []
  | a :: as => (.sweep, {}) :: (.advance a, {}) :: sweepEvents as

/-- the run of these events from `s` (`runEvents` = iterated `step`); the result is the state in which the NEXT
    sweep would happen -/
def sweepRun (s : State) (as : List Nat) : Except String State := runEvents s (sweepEvents as)

/-- **`n` ticks of a ticker with a tick of `d` whole seconds**: `n` times (`sweep`; `advance (d · 10⁹ ns)`). -/
def tickRun (d : Nat) (s : State) (n : Nat) : Except String State := sweepRun s (List.replicate n (d * nsPerSec))

example : sweepEvents (List.replicate 2 (5 * nsPerSec)) =
    [(.sweep, {}), (.advance 5000000000, {}), (.sweep, {}), (.advance 5000000000, {})] := rfl

theorem sweepRun_cons (s : State) (a : Nat) (as : List Nat) :
    sweepRun s (a :: as) =
      match sweepStep s with
      | .ok (s1, _) => sweepRun { s1 with now := s1.now + a } as
      | .error m => .error m := by
  unfold sweepRun
  simp only [sweepEvents, runEvents, step]
  cases sweepStep s with
  | error m => rfl
  | ok r => rfl

theorem sweepRun_append (bs : List Nat) : ∀ (as : List Nat) (s0 s : State), sweepRun s0 as = .ok s →
    sweepRun s0 (as ++ bs) = sweepRun s bs := by
  intro as
  induction as with
  | nil =>
    intro s0 s h
    simp only [sweepRun, sweepEvents, runEvents, Except.ok.injEq] at h
    subst h
    rfl
  | cons a as ih =>
    intro s0 s h
    rw [List.cons_append, sweepRun_cons]
    rw [sweepRun_cons] at h
    cases hs : sweepStep s0 with
    | error m => rw [hs] at h; cases h
    | ok r =>
      rw [hs] at h
      exact ih _ _ h

/-- **Until its shard is visited, a stored key stays as it is** (and the run of the ticker goes on: the invariant,
    the configuration and the ticker's liveness are kept, the clock has moved by the sum of the advances).
    `secsOf (s0.now + (as.take j).sum)` is the second of the `j`-th sweep of the run. -/
theorem sweepRun_keeps {k x : Nat} {e : Entry} : ∀ (as : List Nat) (s0 : State), TtlInv s0 →
    s0.sweeperAlive = true → s0.sweeperKeep = true → s0.store.get? k = some e → e.expiry = some x →
    (∀ j, j < as.length → secsOf (s0.now + (as.take j).sum) % s0.cfg.shards ≠ shardOf s0.cfg x) →
    ∃ s, sweepRun s0 as = .ok s ∧ TtlInv s ∧ s.cfg = s0.cfg ∧ s.now = s0.now + as.sum ∧
      s.sweeperAlive = true ∧ s.sweeperKeep = true ∧ s.store.get? k = some e := by
  intro as
  induction as with
  | nil =>
    intro s0 t ha hkp hk _ _
    exact ⟨s0, rfl, t, rfl, by simp, ha, hkp, hk⟩
  | cons a as ih =>
    intro s0 t ha hkp hk hx hmiss
    obtain ⟨s1, ev, hs⟩ := sweepStep_ok_of_alive s0 ha
    obtain ⟨hnow, hcfg⟩ := C10_sweep_frame hs
    obtain ⟨hal, hke⟩ := sweepStep_sweeper hs
    have h0 : shardOf s0.cfg x ≠ secsOf s0.now % s0.cfg.shards := by
      have := hmiss 0 (by simp)
      simp only [List.take_zero, List.sum_nil, Nat.add_zero] at this
      exact fun h => this h.symm
    have hk1 : s1.store.get? k = some e := C10_other_shard_untouched t hs hk hx h0
    have t1 : TtlInv s1 := ttlinv_sweepStep t hs
    have t2 : TtlInv { s1 with now := s1.now + a } :=
      t1.frame ⟨rfl, rfl, rfl, rfl, Nat.le_refl _, fun _ h => Or.inl h⟩
    obtain ⟨s, hrun, ts, hc, hn, hsa, hsk, hsk'⟩ := ih { s1 with now := s1.now + a } t2 (by rw [← hkp, ← hal])
      (by rw [← hkp, ← hke]) hk1 hx (by
        intro j hj
        have := hmiss (j + 1) (by simp only [List.length_cons]; omega)
        simp only [List.take_succ_cons, List.sum_cons] at this
        show secsOf (s1.now + a + (as.take j).sum) % s1.cfg.shards ≠ shardOf s1.cfg x
        rw [hnow, hcfg, Nat.add_assoc]
        exact this)
    refine ⟨s, ?_, ts, hc.trans hcfg, ?_, hsa, hsk, hsk'⟩
    · rw [sweepRun_cons, hs]
      exact hrun
    · rw [hn, List.sum_cons]
      show s1.now + a + as.sum = _
      rw [hnow, Nat.add_assoc]

/-- **Once removed, a key stays removed and its id stays un-charged** while the ticker runs alone (nothing but a
    worker step stores a key or charges an id), and the run goes on. -/
theorem sweepRun_absent {k id : Nat} : ∀ (as : List Nat) (s0 : State),
    s0.sweeperAlive = true → s0.sweeperKeep = true → s0.store.get? k = none → s0.adm.kw.get? id = none →
    ∃ s, sweepRun s0 as = .ok s ∧ s.sweeperAlive = true ∧ s.sweeperKeep = true ∧ s.store.get? k = none ∧
      s.adm.kw.get? id = none := by
  intro as
  induction as with
  | nil => intro s0 ha hkp hk hw; exact ⟨s0, rfl, ha, hkp, hk, hw⟩
  | cons a as ih =>
    intro s0 ha hkp hk hw
    obtain ⟨s1, ev, hs⟩ := sweepStep_ok_of_alive s0 ha
    obtain ⟨hal, hke⟩ := sweepStep_sweeper hs
    obtain ⟨s, hrun, h⟩ := ih { s1 with now := s1.now + a } (by rw [← hkp, ← hal]) (by rw [← hkp, ← hke])
      (C10_absent_stays_absent hs hk) (sweepStep_kw_none hs hw)
    exact ⟨s, by rw [sweepRun_cons, hs]; exact hrun, h⟩

/-- **Every key whose deadline has passed is removed by the first sweep that visits the shard of its deadline, and
    its weight is released — for ANY clock trajectory** of the ticker running alone (`sweepRun`: the advances `as`
    between consecutive sweeps are arbitrary).  If none of the sweeps of the run `as` visits the shard of the
    deadline `x` and the next one does, then the run ends in a state `s` that still stores `k ↦ e`, the sweep at `s`
    removes `k`, un-charges its id and reports the eviction `(e.id, k, weight)` by whose weight (among those of the
    sweep) the total falls (`C10_eventually`), and after any further run `bs` the key is still absent and the id
    un-charged.

    The run quantified over consists of `.sweep` and `.advance` events only: no client call and no worker step
    happens in between (such events may legitimately change or remove the key, extend its deadline, or stop the
    ticker), the ticker is alive and has not been told to stop (`sweeperAlive`, `sweeperKeep`: a sweep is an illegal
    event of the model otherwise). -/
theorem C10_expired_key_removed_at_first_visit {s0 : State} {k x : Nat} {e : Entry} (t : TtlInv s0)
    (halive : s0.sweeperAlive = true) (hkeep : s0.sweeperKeep = true)
    (hk : s0.store.get? k = some e) (hx : e.expiry = some x) (hpast : s0.now > x) (as : List Nat)
    (hmiss : ∀ j, j < as.length → secsOf (s0.now + (as.take j).sum) % s0.cfg.shards ≠ shardOf s0.cfg x)
    (hhit : secsOf (s0.now + as.sum) % s0.cfg.shards = shardOf s0.cfg x) :
    ∃ s s' ev, sweepRun s0 as = .ok s ∧ s.store.get? k = some e ∧ s.now = s0.now + as.sum ∧
      sweepStep s = .ok (s', .swept ev) ∧
      s'.store.get? k = none ∧ s'.adm.kw.get? e.id = none ∧
      (∃ wk, s.adm.kw.get? e.id = some wk ∧ wk.key = k ∧ (e.id, k, wk.weight) ∈ ev ∧
        s'.adm.used = s.adm.used - (ev.map (·.2.2)).sum) ∧
      (∀ a bs, ∃ s'', sweepRun s0 (as ++ a :: bs) = .ok s'' ∧ s''.store.get? k = none ∧
        s''.adm.kw.get? e.id = none) := by
  obtain ⟨s, hrun, ts, hc, hn, hsa, hsk, hks⟩ := sweepRun_keeps as s0 t halive hkeep hk hx hmiss
  obtain ⟨s', ev, hs⟩ := sweepStep_ok_of_alive s hsa
  obtain ⟨h1, h2, h3⟩ := C10_eventually ts hs hks hx (by omega) (by rw [hn, hc]; exact hhit)
  obtain ⟨hal, hke⟩ := sweepStep_sweeper hs
  refine ⟨s, s', ev, hrun, hks, hn, hs, h1, h2, h3, ?_⟩
  intro a bs
  obtain ⟨s'', hrun', _, _, hk'', hw''⟩ := sweepRun_absent (k := k) (id := e.id) bs { s' with now := s'.now + a }
    (by rw [← hsk, ← hal]) (by rw [← hsk, ← hke]) h1 h2
  refine ⟨s'', ?_, hk'', hw''⟩
  rw [sweepRun_append _ as s0 s hrun, sweepRun_cons, hs]
  exact hrun'

theorem ticks_take_sum (D : Nat) {j' j : Nat} (h : j' ≤ j) : ((List.replicate j D).take j').sum = j' * D := by
  rw [List.take_replicate, Nat.min_eq_left h, List.sum_replicate_nat]

/-- **With a tick of `d` seconds coprime to the number of shards, a stored key whose deadline has passed is removed,
    and its weight released, within one round of `shards` ticks** (Layer A, the ticker running alone: `tickRun d s0 n`
    is `n` times (`sweep`; `advance (d · 10⁹ ns)`) from `s0`, see `sweepEvents`; no client call or worker step in
    between — those may change the key or stop the ticker; the ticker is alive and has not been told to stop).
    There is exactly one tick `i < shards` of the round whose second falls into the shard of the deadline `x`;
    up to that tick the key is stored unchanged; the sweep of tick `i` removes it, un-charges its id, reports the
    eviction and lowers the total (`C10_eventually`); after every later tick it is still absent and un-charged. -/
theorem C10_expired_key_removed_within_a_round {s0 : State} {d k x : Nat} {e : Entry} (t : TtlInv s0)
    (hpos : 0 < s0.cfg.shards) (hco : Nat.gcd d s0.cfg.shards = 1)
    (halive : s0.sweeperAlive = true) (hkeep : s0.sweeperKeep = true)
    (hk : s0.store.get? k = some e) (hx : e.expiry = some x) (hpast : s0.now > x) :
    ∃ i, i < s0.cfg.shards ∧
      (∀ j, j < s0.cfg.shards →
        (secsOf (s0.now + j * (d * 1000000000)) % s0.cfg.shards = shardOf s0.cfg x ↔ j = i)) ∧
      (∀ j, j ≤ i → ∃ sj, tickRun d s0 j = .ok sj ∧ sj.store.get? k = some e ∧
        sj.now = s0.now + j * (d * 1000000000)) ∧
      (∃ s s' ev, tickRun d s0 i = .ok s ∧ sweepStep s = .ok (s', .swept ev) ∧
        s'.store.get? k = none ∧ s'.adm.kw.get? e.id = none ∧
        ∃ wk, s.adm.kw.get? e.id = some wk ∧ wk.key = k ∧ (e.id, k, wk.weight) ∈ ev ∧
          s'.adm.used = s.adm.used - (ev.map (·.2.2)).sum) ∧
      (∀ n, i < n → ∃ sn, tickRun d s0 n = .ok sn ∧ sn.store.get? k = none ∧ sn.adm.kw.get? e.id = none) := by
  have hD : d * nsPerSec = d * 1000000000 := rfl
  obtain ⟨i, hi, hhit, huniq⟩ :=
    (C10_fair_ticks_coprime_ns d s0.cfg.shards hpos hco s0.now).2 (shardOf s0.cfg x) (Nat.mod_lt _ hpos)
  have hmiss : ∀ j, j ≤ i → ∀ j', j' < (List.replicate j (d * nsPerSec)).length →
      secsOf (s0.now + ((List.replicate j (d * nsPerSec)).take j').sum) % s0.cfg.shards ≠ shardOf s0.cfg x := by
    intro j hj j' hj'
    rw [List.length_replicate] at hj'
    rw [ticks_take_sum _ (Nat.le_of_lt hj'), hD]
    intro h
    have := huniq j' (by omega) h
    omega
  refine ⟨i, hi, ?_, ?_, ?_, ?_⟩
  · intro j hj
    exact ⟨huniq j hj, fun h => by rw [h]; exact hhit⟩
  · intro j hj
    obtain ⟨sj, hrun, _, _, hn, _, _, hkj⟩ := sweepRun_keeps _ s0 t halive hkeep hk hx (hmiss j hj)
    rw [List.sum_replicate_nat, hD] at hn
    exact ⟨sj, hrun, hkj, hn⟩
  · obtain ⟨s, s', ev, hrun, _, _, hs, h1, h2, h3, _⟩ :=
      C10_expired_key_removed_at_first_visit t halive hkeep hk hx hpast (List.replicate i (d * nsPerSec))
        (hmiss i (Nat.le_refl _)) (by rw [List.sum_replicate_nat, hD]; exact hhit)
    exact ⟨s, s', ev, hrun, hs, h1, h2, h3⟩
  · intro n hn
    obtain ⟨_, _, _, _, _, _, _, _, _, _, hlater⟩ :=
      C10_expired_key_removed_at_first_visit t halive hkeep hk hx hpast (List.replicate i (d * nsPerSec))
        (hmiss i (Nat.le_refl _)) (by rw [List.sum_replicate_nat, hD]; exact hhit)
    have hsplit : List.replicate n (d * nsPerSec) =
        List.replicate i (d * nsPerSec) ++ (d * nsPerSec) :: List.replicate (n - i - 1) (d * nsPerSec) := by
      rw [← List.replicate_succ, List.replicate_append_replicate]
      congr 1
      omega
    unfold tickRun
    rw [hsplit]
    exact hlater _ _

/-- The same from a reachable state of the Layer A machine (where `TtlInv` holds, `ttlinv_reach`). -/
theorem C10_expired_key_removed_within_a_round_reach {cfg : Cfg} {now0 : Nat} {seeds : List Nat} {s0 : State}
    (hr : Reach cfg now0 seeds s0) {d k x : Nat} {e : Entry}
    (hpos : 0 < s0.cfg.shards) (hco : Nat.gcd d s0.cfg.shards = 1)
    (halive : s0.sweeperAlive = true) (hkeep : s0.sweeperKeep = true)
    (hk : s0.store.get? k = some e) (hx : e.expiry = some x) (hpast : s0.now > x) :
    ∃ i, i < s0.cfg.shards ∧
      (∃ s s' ev, tickRun d s0 i = .ok s ∧ s.store.get? k = some e ∧ sweepStep s = .ok (s', .swept ev) ∧
        s'.store.get? k = none ∧ s'.adm.kw.get? e.id = none) ∧
      (∀ n, i < n → ∃ sn, tickRun d s0 n = .ok sn ∧ sn.store.get? k = none ∧ sn.adm.kw.get? e.id = none) := by
  obtain ⟨i, hi, _, h2, ⟨s, s', ev, hrun, hs, h3, h4, _⟩, h5⟩ :=
    C10_expired_key_removed_within_a_round (ttlinv_reach hr) hpos hco halive hkeep hk hx hpast
  obtain ⟨sj, hrunj, hkj, _⟩ := h2 i (Nat.le_refl _)
  rw [hrun] at hrunj
  simp only [Except.ok.injEq] at hrunj
  subst hrunj
  exact ⟨i, hi, ⟨s, s', ev, hrun, hkj, hs, h3, h4⟩, h5⟩

/-- **The other direction, at Layer A: a ticker whose tick shares a factor `g` with the number of shards never
    removes an expired key whose deadline's shard lies in another residue class modulo `g` than the shard of the
    first tick** — the key stays stored (and charged, `TtlInv.charged`) after any number of ticks of the ticker
    running alone.  (For `g = 1` the hypothesis `hcls` is unsatisfiable: both sides are 0.) -/
theorem C10_expired_key_never_removed_unfair {s0 : State} {d k x : Nat} {e : Entry} (t : TtlInv s0)
    (halive : s0.sweeperAlive = true) (hkeep : s0.sweeperKeep = true)
    (hk : s0.store.get? k = some e) (hx : e.expiry = some x)
    (hcls : shardOf s0.cfg x % Nat.gcd d s0.cfg.shards ≠ secsOf s0.now % Nat.gcd d s0.cfg.shards) (n : Nat) :
    ∃ sn, tickRun d s0 n = .ok sn ∧ sn.store.get? k = some e ∧ sn.now = s0.now + n * (d * 1000000000) ∧
      ∃ wk, sn.adm.kw.get? e.id = some wk ∧ wk.key = k := by
  have hD : d * nsPerSec = d * 1000000000 := rfl
  obtain ⟨sn, hrun, tn, _, hn, _, _, hkn⟩ := sweepRun_keeps (List.replicate n (d * nsPerSec)) s0 t halive hkeep hk hx
    (by
      intro j hj
      rw [List.length_replicate] at hj
      rw [ticks_take_sum _ (Nat.le_of_lt hj), hD, secsOf_tick]
      intro h
      have := C10_unfair_ticks_class d s0.cfg.shards (secsOf s0.now) j
      rw [h] at this
      exact hcls this)
  rw [List.sum_replicate_nat, hD] at hn
  exact ⟨sn, hrun, hkn, hn, tn.charged hkn⟩

/-! ### non-vacuity: concrete runs -/

/-- three shards; `init` at 5 s; `put_with_weight_and_ttl(1, weight 5, ttl 1 s)` executed (deadline 6 s: shard 0);
    then 2.2 s pass: the ticker's first sweep is at 7.2 s (shard 1), tick 5 s (`gcd 5 3 = 1`) -/
def ticksCfg : Cfg := { c10Cfg with shards := 3 }

def ticksStart : List (Ev × Oracle) := c10Put ++ [(.advance 2200000000, c10O)]

/-- the hypotheses of `C10_expired_key_removed_within_a_round` hold at the end of this run (`d = 5`) -/
example :
    (match runEvents (State.init ticksCfg 5000000000 [1, 2, 3, 4]) ticksStart with
     | .ok s0 => decide (0 < s0.cfg.shards ∧ Nat.gcd 5 s0.cfg.shards = 1 ∧ s0.sweeperAlive = true ∧
                         s0.sweeperKeep = true ∧ s0.store.get? 1 = some ⟨10, 1, some 6000000000, false⟩ ∧
                         s0.now = 7200000000 ∧ s0.now > 6000000000 ∧ shardOf s0.cfg 6000000000 = 0 ∧
                         s0.adm.kw.get? 1 = some ⟨1, 1, 5⟩ ∧ s0.adm.used = 5)
     | _ => false) = true := by decide

/-- ... with `TtlInv` (the state is reachable) -/
example (s0 : State) (h : runEvents (State.init ticksCfg 5000000000 [1, 2, 3, 4]) ticksStart = .ok s0) : TtlInv s0 :=
  ttlinv_reach (reach_runEvents _ Reach.init h)

/-- ... and its conclusion with `i = 1`: the ticks are at 7.2 s (shard 1), 12.2 s (shard 0), 17.2 s (shard 2);
    after one tick the key is still there, the second sweep removes it and releases its weight -/
example :
    (match runEvents (State.init ticksCfg 5000000000 [1, 2, 3, 4]) ticksStart with
     | .ok s0 =>
       (match tickRun 5 s0 1, tickRun 5 s0 2, tickRun 5 s0 3 with
        | .ok s1, .ok s2, .ok s3 =>
          decide ((List.range 3).map (fun j => secsOf (s0.now + j * (5 * 1000000000)) % s0.cfg.shards) = [1, 0, 2] ∧
                  s1.store.get? 1 = some ⟨10, 1, some 6000000000, false⟩ ∧ s1.now = 12200000000 ∧ s1.adm.used = 5 ∧
                  s2.store.get? 1 = none ∧ s2.adm.kw.get? 1 = none ∧ s2.adm.used = 0 ∧ s2.ttl = [] ∧
                  s3.store.get? 1 = none ∧ s3.now = 22200000000)
        | _, _, _ => false)
     | _ => false) = true := by decide

/-- the hypotheses of `C10_expired_key_never_removed_unfair`: two shards (`c10Cfg`), tick 2 s, deadline 6 s
    (shard 0), first sweep at 7 s (shard 1) -/
example :
    (match runEvents (State.init c10Cfg 5000000000 [1, 2, 3, 4]) (c10Put ++ [(.advance 2000000000, c10O)]) with
     | .ok s0 => decide (s0.sweeperAlive = true ∧ s0.sweeperKeep = true ∧
                         s0.store.get? 1 = some ⟨10, 1, some 6000000000, false⟩ ∧ s0.now > 6000000000 ∧
                         Nat.gcd 2 s0.cfg.shards = 2 ∧
                         shardOf s0.cfg 6000000000 % Nat.gcd 2 s0.cfg.shards ≠ secsOf s0.now % Nat.gcd 2 s0.cfg.shards)
     | _ => false) = true := by decide

/-- ... and after 6 ticks the expired key is still stored and charged -/
example :
    (match runEvents (State.init c10Cfg 5000000000 [1, 2, 3, 4]) (c10Put ++ [(.advance 2000000000, c10O)]) with
     | .ok s0 =>
       (match tickRun 2 s0 6 with
        | .ok s => decide (s.now = 19000000000 ∧ s.store.get? 1 = some ⟨10, 1, some 6000000000, false⟩ ∧
                           s.adm.used = 5 ∧ s.ttl = [((0, 1), 6000000000)])
        | _ => false)
     | _ => false) = true := by decide

end Cached
