/-
  Extra/Small: gaps named by an independent reading of properties.jsonl against Properties/C*.lean.

    1. C15  `C15_consumer_increments_sketch` (+ `C15_incrementAll_is_run`, `C15_run_is_incrementAll`,
            `C15_consumer_never_undercounts`, `C15_consumer_batch_raises`, `C15_consumer_batch_ageing`):
            what one consumer step does to the sketch;
    2. C16  `C16_hit_ratio_zero_iff` (+ `C16_hit_ratio_reach`): the hit ratio as an exact fraction;
    3. C06  `C06_sample_wellformed` (+ `C06_initial_sample_size`, `C06_sample_wellformed_maybeAdd`, `EvictsWF`,
            `C06_EvictsWF_implies_Evicts`, `C06_EvictsWF_sample_wf`, `C06_EvictsWF_victims_charged`):
            every eviction sample along the real loop is well formed;
    4. C10 / C15  `C10_accepted_config_shards_pos`, `C15_accepted_config_pool_pos`, `C10_index_after_sweep_accepted`,
            `C15_reads_never_wait_accepted`, `C15_reads_enabled_accepted`: the totalised `% shards` and pool index
            never meet their degenerate case for a configuration the builder accepts.

  Everything is about the model files as they are; nothing asked for turned out false of the model.  What is true
  only under a proviso is stated with the proviso and a concrete instance showing the proviso is needed
  (ageing inside a batch: the `example` after `C15_consumer_batch_ageing`).
-/
import CachedProofs.Properties.C06
import CachedProofs.Properties.C10
import CachedProofs.Properties.C14
import CachedProofs.Properties.C15
import CachedProofs.Properties.C16
import CachedProofs.Properties.G17

namespace Cached

/-! ## 1. C15: what one consumer step does to the sketch -/

/-- The consumer's new sketch is `incrementAll` of the old one over the batch at the head of its queue
    (whether or not it keeps running afterwards), and the oracle it leaves is the one `incrementAll` leaves. -/
theorem C15_consumer_increments_sketch {s s' : State} {o o' : Oracle} {out : Out} {hs : List Nat} {q : List BufEvent}
    (hq : s.bufq = .full hs :: q) (h : consumerStep s o = .ok (s', out, o')) :
    incrementAll s.lfu hs o = .ok (s'.lfu, o') := by
  unfold consumerStep at h
  split at h
  · cases h
  · rw [hq] at h
    simp only [] at h
    split at h
    · cases h
    · rename_i t o1 hinc
      rw [hinc]
      split at h <;>
      · simp only [Except.ok.injEq, Prod.mk.injEq] at h
        obtain ⟨rfl, _, rfl⟩ := h
        rfl

/-- `incrementAll` is the fold `TinyLFU.run` (Properties/C14.lean) over the batch zipped with the `add_if_missing`
    answers it consumes from the oracle: exactly one per hash, front to back. -/
theorem C15_incrementAll_is_run : ∀ (hs : List Nat) (t t' : TinyLFU) (o o' : Oracle),
    incrementAll t hs o = .ok (t', o') →
    ∃ answers, o.dkAdd = answers ++ o'.dkAdd ∧ answers.length = hs.length ∧
      t.run (hs.zip answers) = some t' := by
  intro hs
  induction hs with
  | nil =>
    intro t t' o o' h
    simp only [incrementAll, Except.ok.injEq, Prod.mk.injEq] at h
    obtain ⟨rfl, rfl⟩ := h
    exact ⟨[], rfl, rfl, rfl⟩
  | cons x xs ih =>
    intro t t' o o' h
    unfold incrementAll at h
    split at h
    · cases h
    · rename_i added rest hd
      split at h
      · cases h
      · rename_i hlegal
        split at h
        · rename_i t1 ht1
          obtain ⟨answers, h1, h2, h3⟩ := ih _ _ _ _ h
          refine ⟨added :: answers, ?_, by simp [h2], ?_⟩
          · rw [hd]; simp only [List.cons_append, List.cons.injEq, true_and]; exact h1
          · simp only [List.zip_cons_cons, TinyLFU.run, hlegal, ht1]
            exact h3
        · cases h

/-- Conversely every run of `TinyLFU.run` over a batch is what `incrementAll` computes when the oracle supplies
    those answers. -/
theorem C15_run_is_incrementAll : ∀ (hs : List Nat) (answers : List Bool) (t t' : TinyLFU) (o : Oracle) (rest : List Bool),
    answers.length = hs.length → o.dkAdd = answers ++ rest → t.run (hs.zip answers) = some t' →
    incrementAll t hs o = .ok (t', { o with dkAdd := rest }) := by
  intro hs
  induction hs with
  | nil =>
    intro answers t t' o rest hl ho hr
    have : answers = [] := by simpa using hl
    subst this
    simp only [List.zip_nil_right, TinyLFU.run, Option.some.injEq] at hr
    subst hr
    simp only [List.nil_append] at ho
    simp only [incrementAll, ← ho]
  | cons x xs ih =>
    intro answers t t' o rest hl ho hr
    cases answers with
    | nil => simp at hl
    | cons a as =>
      simp only [List.zip_cons_cons, TinyLFU.run] at hr
      split at hr
      · cases hr
      · rename_i hlegal
        split at hr
        · rename_i t1 ht1
          simp only [List.cons_append] at ho
          unfold incrementAll
          simp only [ho, hlegal, ht1]
          have := ih as t1 t' { o with dkAdd := as ++ rest } rest (by simpa using hl) rfl hr
          simpa using this
        · cases hr

/-- occurrences of `x` in a batch, counted on the zipped stream -/
theorem zip_filter_fst_length (x : Nat) : ∀ (hs : List Nat) (answers : List Bool), answers.length = hs.length →
    ((hs.zip answers).filter (fun a => a.1 == x)).length = hs.count x := by
  intro hs
  induction hs with
  | nil => intro answers _; simp
  | cons y ys ih =>
    intro answers hl
    cases answers with
    | nil => simp at hl
    | cons a as =>
      have := ih as (by simpa using hl)
      simp only [List.zip_cons_cons, List.filter_cons, List.count_cons]
      by_cases hy : (y == x) = true
      · simp only [hy, if_true, List.length_cons, this]
      · simp only [hy]; simpa using this

theorem TinyLFU.run_wf : ∀ (stream : List (Nat × Bool)) (t t' : TinyLFU), t.fc.WF → t.run stream = some t' → t'.fc.WF := by
  intro stream
  induction stream with
  | nil => intro t t' wf h; simp only [TinyLFU.run, Option.some.injEq] at h; subst h; exact wf
  | cons a rest ih =>
    intro t t' wf h
    obtain ⟨x, added⟩ := a
    simp only [TinyLFU.run] at h
    split at h
    · cases h
    · split at h
      · rename_i t1 ht1
        exact ih _ _ (TinyLFU.incrementFor_wf wf ht1) h
      · cases h

/-- **What a batch does to the estimates (no ageing inside the batch).**  If the sketch is well formed and the batch does
    not reach the ageing threshold (`incs + |hs| < resetAt`), then for EVERY hash `x` (in the batch or not) and every `n`:
    a potential (sketch estimate + doorkeeper bit, `TinyLFU.potential`) of at least `min n 15` before the step is at least
    `min (n + number of occurrences of x in hs) 15` after it — whatever the Bloom filter answered (false positives
    included), whatever other hashes the batch holds; and the estimate that any later `estimate` call reports for `x`
    (for every legal doorkeeper answer `b`) is at least that and at most 16. -/
theorem C15_consumer_never_undercounts {s s' : State} {o o' : Oracle} {out : Out} {hs : List Nat} {q : List BufEvent}
    (hq : s.bufq = .full hs :: q) (h : consumerStep s o = .ok (s', out, o'))
    (wf : s.lfu.fc.WF) (hno : s.lfu.incs + hs.length < s.lfu.resetAt) (x n : Nat)
    (hp : ∃ p, s.lfu.potential x = some p ∧ min n 15 ≤ p) :
    s'.lfu.fc.WF ∧
    (∃ p', s'.lfu.potential x = some p' ∧ min (n + hs.count x) 15 ≤ p') ∧
    (∀ b, s'.lfu.hasLegal x b = true → ∃ e, s'.lfu.estimate x b = some e ∧ min (n + hs.count x) 15 ≤ e ∧ e ≤ 16) := by
  obtain ⟨answers, _, hlen, hrun⟩ := C15_incrementAll_is_run _ _ _ _ _ (C15_consumer_increments_sketch hq h)
  have wf' := TinyLFU.run_wf _ _ _ wf hrun
  have hzl : (hs.zip answers).length = hs.length := by simp [List.length_zip, hlen]
  obtain ⟨p', hp', hb'⟩ := C14_never_undercounts x (hs.zip answers) s.lfu s'.lfu n wf (by omega) hp hrun
  rw [zip_filter_fst_length x hs answers hlen] at hb'
  refine ⟨wf', ⟨p', hp', hb'⟩, ?_⟩
  intro b hb
  obtain ⟨e, he, h1, h2⟩ := C14_estimate_bounds s'.lfu wf' x b hb p' hp'
  exact ⟨e, he, by omega, h2⟩

/-- The form asked for: **every hash of the batch ends at least one higher, unless saturated** (`min (p + 1) 15`:
    a potential of 15 or 16 may stay), PROVIDED the batch does not age the sketch.  `p` is the potential before the step
    (it exists: the sketch is well formed), `p'` the one after it; a hash occurring `c` times gains `c`, capped at 15. -/
theorem C15_consumer_batch_raises {s s' : State} {o o' : Oracle} {out : Out} {hs : List Nat} {q : List BufEvent}
    (hq : s.bufq = .full hs :: q) (h : consumerStep s o = .ok (s', out, o'))
    (wf : s.lfu.fc.WF) (hno : s.lfu.incs + hs.length < s.lfu.resetAt) (x : Nat) :
    ∃ p p', s.lfu.potential x = some p ∧ s'.lfu.potential x = some p' ∧ min (p + hs.count x) 15 ≤ p' ∧
      (x ∈ hs → min (p + 1) 15 ≤ p' ∧ (p < 15 → p < p')) := by
  obtain ⟨_, e, he, _⟩ := C14_in_bounds s.lfu.fc wf x
  have hpot : s.lfu.potential x = some (e + (if s.lfu.dk.contains x then 1 else 0)) := by
    simp [TinyLFU.potential, he]
  obtain ⟨_, ⟨p', hp', hb'⟩, _⟩ := C15_consumer_never_undercounts hq h wf hno x _ ⟨_, hpot, Nat.min_le_left _ _⟩
  refine ⟨_, p', hpot, hp', hb', ?_⟩
  intro hx
  have : 0 < hs.count x := List.count_pos_iff.mpr hx
  constructor <;> omega

/-- the minimum over halved rows is the halved minimum -/
theorem estRows_half {total : Nat} (h : Nat) :
    ∀ (rows : List (Nat × Row)) (acc acc' e : Nat),
      (acc' = acc / 2 ∨ (acc = 255 ∧ acc' = 255 ∧ rows ≠ [])) →
      estRows total h rows acc = some e →
      estRows total h (rows.map (fun p => (p.1, p.2.half))) acc' = some (e / 2) := by
  intro rows
  induction rows with
  | nil =>
    intro acc acc' e hacc he
    simp only [estRows, Option.some.injEq] at he; subst he
    rcases hacc with hacc | ⟨_, _, hne⟩
    · simp [estRows, hacc]
    · exact absurd rfl hne
  | cons p rest ih =>
    intro acc acc' e hacc he
    obtain ⟨seed, row⟩ := p
    simp only [estRows, List.map_cons] at he ⊢
    cases hc : row.getAt ((h ^^^ seed) % total) with
    | none => simp [hc] at he
    | some c =>
      simp only [hc] at he
      have hc16 := Row.getAt_lt_16 hc
      rw [Row.half_getAt, hc]
      simp only [Option.map_some]
      apply ih _ _ e _ he
      left
      rcases hacc with hacc | ⟨ha, ha', _⟩
      · subst hacc; split <;> split <;> omega
      · subst ha; subst ha'; split <;> split <;> omega

/-- **Ageing halves every estimate** (rounding down): the sketch estimate of every hash after `reset` is half of what
    it was (at least one row: with no row at all the estimate is the start value 255 of the minimum). -/
theorem FreqCounter.estimate_reset (fc : FreqCounter) (hne : fc.rows ≠ []) (y : Nat) :
    fc.reset.estimate y = (fc.estimate y).map (fun e => e / 2) := by
  unfold FreqCounter.estimate FreqCounter.reset
  cases he : estRows fc.total y fc.rows 255 with
  | some e => exact estRows_half y fc.rows 255 255 e (Or.inr ⟨rfl, rfl, hne⟩) he
  | none =>
    simp only [Option.map_none]
    -- an out-of-bounds row stays out of bounds
    have : ∀ (rows : List (Nat × Row)) (acc acc' : Nat), estRows fc.total y rows acc = none →
        estRows fc.total y (rows.map (fun p => (p.1, p.2.half))) acc' = none := by
      intro rows
      induction rows with
      | nil => intro acc acc' h; simp [estRows] at h
      | cons p rest ih =>
        intro acc acc' h
        obtain ⟨seed, row⟩ := p
        simp only [estRows, List.map_cons] at h ⊢
        rw [Row.half_getAt]
        cases hc : row.getAt ((y ^^^ seed) % fc.total) with
        | none => simp
        | some c =>
          simp only [hc] at h
          simp only [Option.map_some]
          exact ih _ _ h
    exact this _ _ _ he

theorem incrementAll_append : ∀ (pre post : List Nat) (t t' : TinyLFU) (o o' : Oracle),
    incrementAll t (pre ++ post) o = .ok (t', o') →
    ∃ t1 o1, incrementAll t pre o = .ok (t1, o1) ∧ incrementAll t1 post o1 = .ok (t', o') := by
  intro pre
  induction pre with
  | nil => intro post t t' o o' h; exact ⟨t, o, rfl, h⟩
  | cons x xs ih =>
    intro post t t' o o' h
    simp only [List.cons_append] at h
    unfold incrementAll at h
    split at h
    · cases h
    · rename_i added rest hd
      split at h
      · cases h
      · rename_i hlegal
        split at h
        · rename_i t1 ht1
          obtain ⟨t2, o2, h2, h3⟩ := ih _ _ _ _ _ h
          refine ⟨t2, o2, ?_, h3⟩
          unfold incrementAll
          simp only [hd, hlegal, ht1]
          exact h2
        · cases h

theorem TinyLFU.run_incs : ∀ (stream : List (Nat × Bool)) (t t' : TinyLFU),
    t.incs + stream.length < t.resetAt → t.run stream = some t' →
    t'.incs = t.incs + stream.length ∧ t'.resetAt = t.resetAt := by
  intro stream
  induction stream with
  | nil => intro t t' _ h; simp only [TinyLFU.run, Option.some.injEq] at h; subst h; exact ⟨rfl, rfl⟩
  | cons a rest ih =>
    intro t t' hl h
    obtain ⟨x, added⟩ := a
    simp only [List.length_cons] at hl
    simp only [TinyLFU.run] at h
    split at h
    · cases h
    · split at h
      · rename_i t1 ht1
        obtain ⟨h1, h2, _⟩ := TinyLFU.incrementFor_noReset (by omega) ht1
        obtain ⟨h3, h4⟩ := ih t1 t' (by omega) h
        exact ⟨by rw [h3, h1, List.length_cons]; omega, by rw [h4, h2]⟩
      · cases h

/-- **When the batch DOES age the sketch.**  Let the batch be `pre ++ x :: post` where `x` is the access that makes the
    number of recorded accesses reach `resetAt`.  Then: `pre` is applied without ageing (so `C15_consumer_never_undercounts`
    speaks about the sketch `t1` after `pre`); the access of `x` is recorded (by the filter if `a`, by the sketch if not)
    and then EVERY counter is halved (rounding down), the first-access filter is emptied and the count restarts
    (`C14_ageing`): the potential of every hash `y` is exactly half (rounded down) of its sketch estimate at that moment —
    the `+1` of the filter is lost; then `post` is applied to that aged sketch. -/
theorem C15_consumer_batch_ageing {s s' : State} {o o' : Oracle} {out : Out} {pre post : List Nat} {x : Nat}
    {q : List BufEvent} (hq : s.bufq = .full (pre ++ x :: post) :: q) (h : consumerStep s o = .ok (s', out, o'))
    (wf : s.lfu.fc.WF) (hage : s.lfu.incs + pre.length + 1 = s.lfu.resetAt) :
    ∃ t1 o1 a rest t2 fc1,
      incrementAll s.lfu pre o = .ok (t1, o1) ∧ t1.incs = s.lfu.incs + pre.length ∧ t1.fc.WF ∧
      o1.dkAdd = a :: rest ∧ t1.addLegal x a = true ∧ t1.incrementFor x a = some t2 ∧
      (if a then some t1.fc else t1.fc.increment x) = some fc1 ∧
      t2.fc = fc1.reset ∧ t2.dk = [] ∧ t2.incs = 0 ∧
      (∀ y, t2.potential y = (fc1.estimate y).map (fun e => e / 2)) ∧
      incrementAll t2 post { o1 with dkAdd := rest } = .ok (s'.lfu, o') := by
  have hall := C15_consumer_increments_sketch hq h
  obtain ⟨t1, o1, hpre, hpost⟩ := incrementAll_append _ _ _ _ _ _ hall
  obtain ⟨answers, _, hlen, hrun⟩ := C15_incrementAll_is_run _ _ _ _ _ hpre
  have hzl : (pre.zip answers).length = pre.length := by simp [List.length_zip, hlen]
  obtain ⟨hincs, hres⟩ := TinyLFU.run_incs _ _ _ (by omega) hrun
  rw [hzl] at hincs
  have wf1 := TinyLFU.run_wf _ _ _ wf hrun
  unfold incrementAll at hpost
  split at hpost
  · cases hpost
  · rename_i a rest hd
    split at hpost
    · cases hpost
    · rename_i hlegal
      split at hpost
      · rename_i t2 ht2
        obtain ⟨h0, hdk, fc1, hfc1, hfc⟩ := (C14_ageing t1 t2 x a ht2).2 (by omega)
        have wffc1 : fc1.WF := by
          cases a with
          | true => simp only [if_true, Option.some.injEq] at hfc1; subst hfc1; exact wf1
          | false =>
            simp only [Bool.false_eq_true, if_false] at hfc1
            obtain ⟨⟨fc', h1, w'⟩, _⟩ := C14_in_bounds t1.fc wf1 x
            rw [hfc1] at h1; cases h1; exact w'
        refine ⟨t1, o1, a, rest, t2, fc1, hpre, hincs, wf1, hd, by simpa using hlegal, ht2, hfc1, hfc, hdk, h0, ?_, hpost⟩
        intro y
        unfold TinyLFU.potential
        rw [hfc, hdk, FreqCounter.estimate_reset fc1 wffc1.2 y]
        cases fc1.estimate y <;> simp
      · cases hpost

/-- So "at least one higher" is NOT true across ageing: two counters (`resetAt = 2`), the batch `[7, 7]` on a fresh sketch.
    The first access goes to the filter (potential 1), the second to the sketch — and is the ageing access: counter
    1 → 0, filter emptied.  Potential of 7 before the batch: 0; after a batch holding it twice: 0. -/
example :
    let t := TinyLFU.new 2 [1, 2]
    t.potential 7 = some 0 ∧ t.incs + [7, 7].length ≥ t.resetAt ∧
    (match incrementAll t [7, 7] { dkAdd := [true, false] } with
     | .ok (t', o') => decide (t'.potential 7 = some 0 ∧ t'.incs = 0 ∧ t'.dk = [] ∧ o'.dkAdd = [])
     | .error _ => false) = true := by decide

/-- Non-vacuity of `C15_consumer_increments_sketch` / `C15_consumer_never_undercounts` / `C15_consumer_batch_raises`:
    16 counters (ageing at the 16th access), a queued batch `[7, 9, 7]`, one false positive of the filter for 9.
    The step succeeds, the sketch is well formed, no ageing happens inside the batch, and the potential of 7 goes
    from 0 to 2, that of 9 from 0 to 1. -/
def c15sketchState : State :=
  { State.init { maxWeight := 100, shards := 4, cmdCap := 4, poolSize := 1, bufSize := 1, counters := 16 } 0 [1, 2] with
    bufq := [.full [7, 9, 7]] }

example : c15sketchState.bufq = .full [7, 9, 7] :: [] ∧
    c15sketchState.lfu.incs + [7, 9, 7].length < c15sketchState.lfu.resetAt ∧
    c15sketchState.lfu.potential 7 = some 0 ∧
    (match consumerStep c15sketchState { dkAdd := [true, false, false] } with
     | .ok (s', _, o') => decide (s'.lfu.potential 7 = some 2 ∧ s'.lfu.potential 9 = some 1 ∧ s'.lfu.potential 8 = some 0 ∧
                                  o'.dkAdd = [] ∧ s'.bufq = [])
     | .error _ => false) = true := by decide

example : c15sketchState.lfu.fc.WF := C14_fresh_sketch_wf 16 [1, 2] (by decide)

/-- Non-vacuity of `C15_consumer_batch_ageing`: two counters, the batch `[7] ++ 7 :: [9]` ages at its second access. -/
def c15ageState : State :=
  { State.init { maxWeight := 100, shards := 4, cmdCap := 4, poolSize := 1, bufSize := 1, counters := 2 } 0 [1, 2] with
    bufq := [.full ([7] ++ 7 :: [9])] }

example : c15ageState.bufq = .full ([7] ++ 7 :: [9]) :: [] ∧
    c15ageState.lfu.incs + [7].length + 1 = c15ageState.lfu.resetAt ∧
    (match consumerStep c15ageState { dkAdd := [true, false, true] } with
     | .ok (s', _, _) => decide (s'.lfu.potential 7 = some 0 ∧ s'.lfu.potential 9 = some 1 ∧ s'.lfu.incs = 1)
     | .error _ => false) = true := by decide

/-! ## 2. C16: the hit ratio

  Rust (src/cache/stats/mod.rs:150-157, after the repair of D7):

      pub(crate) fn hit_ratio(&self) -> f64 {
          let hits = self.hits();  let misses = self.misses();
          if hits == 0 { return 0.0; }
          (hits as f64) / (hits + misses) as f64
      }

  Model: the ratio as the exact fraction `num / den` (a pair of naturals, `den ≠ 0`), `0 / 1` on the early return.
  A fraction `n / d` with `d ≠ 0` is 0 iff `n = 0` and is 1 iff `n = d`.  What the pair does not model is the rounding
  of the `u64 → f64` conversions and of the division (exact below 2^53: `x / y` for integers `0 < x ≤ y < 2^53` is 0.0
  never, and is 1.0 iff `x = y`; above 2^53 `hits + misses` may round to `hits`, e.g. `hits = 2^60, misses = 1` gives 1.0)
  and the wrap of `hits + misses` in `u64`; the check pipeline compares the `f64` bit for bit with the quotient of the
  model's two counters (header of Properties/C16.lean).  `hit_ratio_as_percentage` is `(ratio * 100.0).round()`.
  D7 (repaired, 562f1d6): the early return tested `misses == 0` too, so an all-hit workload reported 0. -/

def hitRatioNum (s : State) : Nat := s.stats.hits
def hitRatioDen (s : State) : Nat := s.stats.hits + s.stats.misses

/-- `ConcurrentStatsCounter::hit_ratio` as a fraction (numerator, denominator) -/
def hitRatio (s : State) : Nat × Nat :=
  if s.stats.hits = 0 then (0, 1) else (hitRatioNum s, hitRatioDen s)

/-- The hit ratio is a proper fraction in [0, 1]; it is **zero iff there were no hits** (which includes: no lookups at
    all), and it is **one (100 %) iff there were lookups and none of them missed**; whenever there was a hit it is
    `hits / (hits + misses)`. For every state (no reachability needed: it is a function of the two counters). -/
theorem C16_hit_ratio_zero_iff (s : State) :
    (hitRatio s).2 ≠ 0 ∧ (hitRatio s).1 ≤ (hitRatio s).2 ∧
    ((hitRatio s).1 = 0 ↔ s.stats.hits = 0) ∧
    ((hitRatio s).1 = (hitRatio s).2 ↔ (0 < s.stats.hits + s.stats.misses ∧ s.stats.misses = 0)) ∧
    (s.stats.hits ≠ 0 → hitRatio s = (s.stats.hits, s.stats.hits + s.stats.misses)) ∧
    (s.stats.hits + s.stats.misses = 0 → hitRatio s = (0, 1)) := by
  unfold hitRatio hitRatioNum hitRatioDen
  by_cases h : s.stats.hits = 0
  · simp only [h, if_true]
    refine ⟨by omega, by omega, by simp, ?_, by simp, by simp⟩
    constructor
    · intro e; cases e
    · intro ⟨h1, h2⟩; omega
  · simp only [h, if_false]
    refine ⟨by omega, by omega, by simp, ?_, by simp, by omega⟩
    constructor
    · intro e; omega
    · intro ⟨h1, h2⟩; omega

/-- For reachable states before `shutdown()` the denominator is the number of key lookups made so far (`C16_exact`):
    the ratio is `hits / lookups`, zero iff no lookup hit, one iff there were lookups and every one of them hit. -/
theorem C16_hit_ratio_reach {cfg : Cfg} {now : Nat} {seeds : List Nat} {s : State} {g : Ghost}
    (hr : ReachG cfg now seeds s g) (hs : s.shutting = false) :
    hitRatioDen s = g.lookups ∧
    ((hitRatio s).1 = 0 ↔ s.stats.hits = 0) ∧
    ((hitRatio s).1 = (hitRatio s).2 ↔ (0 < g.lookups ∧ s.stats.hits = g.lookups)) := by
  have hl := (C16_exact hr hs).1
  obtain ⟨_, _, h0, h1, _, _⟩ := C16_hit_ratio_zero_iff s
  refine ⟨hl, h0, ?_⟩
  rw [h1, hl]
  constructor
  · intro ⟨a, b⟩; exact ⟨a, by omega⟩
  · intro ⟨a, b⟩; exact ⟨a, by omega⟩

/-- The function before the repair of D7 (`if hits == 0 || misses == 0 { return 0.0 }`), for comparison: it is zero on
    every all-hit workload, so `C16_hit_ratio_zero_iff` fails for it. -/
def hitRatioD7 (s : State) : Nat × Nat :=
  if s.stats.hits = 0 ∨ s.stats.misses = 0 then (0, 1) else (hitRatioNum s, hitRatioDen s)

/-- Non-vacuity / regression for D7: the all-hit history of Properties/C16.lean (2 hits, 0 misses) has ratio 2/2 = 1
    (the unrepaired function gave 0/1); with one miss added it is 2/3; before any lookup it is 0/1. -/
example : (c16run c16history).map (fun p => (hitRatio p.1, hitRatioD7 p.1)) = some ((2, 2), (0, 1)) ∧
    (c16run c16history2).map (fun p => hitRatio p.1) = some (2, 3) ∧
    (c16run []).map (fun p => hitRatio p.1) = some (0, 1) ∧
    (c16run [(.get 6, ({} : Oracle))]).map (fun p => (hitRatio p.1, p.1.stats.misses)) = some ((0, 1), 1) := by decide

/-! ## 3. C06: every eviction sample along the real loop is well formed -/

/-- what a member `x` of the eviction sample must be, for sketch `t` and charges `kw`: its id is charged, it carries the
    charged weight, and its estimate is what the sketch reports for the charged hash (for some legal doorkeeper answer) -/
def SKeyOK (t : TinyLFU) (kw : AMap Nat WKey) (x : SKey) : Prop :=
  ∃ wk, kw.get? x.id = some wk ∧ x.weight = wk.weight ∧
    ∃ b, t.hasLegal wk.hash b = true ∧ t.estimate wk.hash b = some x.est

/-- a well-formed sample: at most `size` members, pairwise distinct ids, every member `SKeyOK` -/
def SampleWF (t : TinyLFU) (size : Nat) (kw : AMap Nat WKey) (sample : List SKey) : Prop :=
  sample.length ≤ size ∧ (sample.map (·.id)).Nodup ∧ ∀ x ∈ sample, SKeyOK t kw x

theorem SampleWF.nil (t : TinyLFU) (size : Nat) (kw : AMap Nat WKey) : SampleWF t size kw [] :=
  ⟨Nat.zero_le _, List.nodup_nil, fun _ hx => by cases hx⟩

theorem SampleWF.sampleOK {t : TinyLFU} {size : Nat} {kw : AMap Nat WKey} {sample : List SKey}
    (h : SampleWF t size kw sample) : SampleOK kw sample := by
  intro x hx
  obtain ⟨wk, hg, _⟩ := h.2.2 x hx
  simp [hg]

theorem estimateO_spec {t : TinyLFU} {h e : Nat} {o o' : Oracle} (he : estimateO t h o = .ok (e, o')) :
    ∃ b rest, o.dk = b :: rest ∧ t.hasLegal h b = true ∧ t.estimate h b = some e ∧ o' = { o with dk := rest } := by
  unfold estimateO at he
  split at he
  · cases he
  · rename_i b rest hd
    split at he
    · cases he
    · rename_i hl
      split at he
      · rename_i e' hest
        simp only [Except.ok.injEq, Prod.mk.injEq] at he
        obtain ⟨rfl, rfl⟩ := he
        exact ⟨b, rest, hd, by simpa using hl, hest, rfl⟩
      · cases he

/-- `fillSample` with `n` pushes exactly `n` members. -/
theorem fillSample_length {t : TinyLFU} {kw : AMap Nat WKey} :
    ∀ (n : Nat) (sample : List SKey) (o : Oracle) (s' : List SKey) (o' : Oracle),
      fillSample t kw n sample o = .ok (s', o') → s'.length = sample.length + n := by
  intro n
  induction n with
  | zero =>
    intro sample o s' o' h
    simp only [fillSample, Except.ok.injEq, Prod.mk.injEq] at h
    obtain ⟨rfl, _⟩ := h
    rfl
  | succ n ih =>
    intro sample o s' o' h
    unfold fillSample at h
    split at h
    · cases h
    · split at h
      · cases h
      · split at h
        · cases h
        · split at h
          · cases h
          · have := ih _ _ _ _ h
            simp only [List.length_cons] at this
            omega

/-- `fillSample` keeps the ids distinct and every member `SKeyOK` (for the fixed sketch `t` it is given). -/
theorem fillSample_keyOK {t : TinyLFU} {kw : AMap Nat WKey} :
    ∀ (n : Nat) (sample : List SKey) (o : Oracle) (s' : List SKey) (o' : Oracle),
      fillSample t kw n sample o = .ok (s', o') →
      (sample.map (·.id)).Nodup → (∀ x ∈ sample, SKeyOK t kw x) →
      (s'.map (·.id)).Nodup ∧ ∀ x ∈ s', SKeyOK t kw x := by
  intro n
  induction n with
  | zero =>
    intro sample o s' o' h hnd hok
    simp only [fillSample, Except.ok.injEq, Prod.mk.injEq] at h
    obtain ⟨rfl, _⟩ := h
    exact ⟨hnd, hok⟩
  | succ n ih =>
    intro sample o s' o' h hnd hok
    unfold fillSample at h
    split at h
    · cases h
    · split at h
      · cases h
      · rename_i id ids _ wk hget
        split at h
        · cases h
        · rename_i hany
          split at h
          · cases h
          · rename_i est o1 hest
            obtain ⟨b, _, _, hl, he, _⟩ := estimateO_spec hest
            refine ih _ _ _ _ h ?_ ?_
            · simp only [List.map_cons, List.nodup_cons]
              refine ⟨?_, hnd⟩
              intro hmem
              obtain ⟨y, hy, hyid⟩ := List.mem_map.mp hmem
              apply hany
              rw [List.any_eq_true]
              exact ⟨y, hy, by simpa using hyid⟩
            · intro x hx
              rw [List.mem_cons] at hx
              rcases hx with rfl | hx
              · exact ⟨wk, hget, rfl, b, hl, he⟩
              · exact hok x hx

/-- `fillSample` started from a well-formed sample with room for `n` more gives a well-formed sample, `n` longer,
    that keeps every earlier member. -/
theorem fillSample_sampleWF {t : TinyLFU} {size : Nat} {kw : AMap Nat WKey} {n : Nat} {sample s' : List SKey}
    {o o' : Oracle} (hwf : SampleWF t size kw sample) (hn : n ≤ size - sample.length)
    (h : fillSample t kw n sample o = .ok (s', o')) :
    SampleWF t size kw s' ∧ s'.length = sample.length + n ∧ ∀ x ∈ sample, x ∈ s' := by
  have hlen := fillSample_length n sample o s' o' h
  obtain ⟨hnd, hok⟩ := fillSample_keyOK n sample o s' o' h hwf.2.1 hwf.2.2
  have := hwf.1
  exact ⟨⟨by omega, hnd, hok⟩, hlen, fillSample_subset n sample o s' o' h⟩

/-- Taking the popped id out of the charges and out of the sample keeps the sample well formed: the weight and hash an
    id is charged with do not change when ANOTHER id is deleted, and the sketch is not touched. -/
theorem SampleWF.delete_filter {t : TinyLFU} {size : Nat} {a : Adm} {sample : List SKey}
    (h : SampleWF t size a.kw sample) (id : Nat) :
    SampleWF t size (a.delete id).1.kw (sample.filter (fun x => x.id != id)) := by
  refine ⟨Nat.le_trans (List.length_filter_le _ _) h.1, ?_, ?_⟩
  · exact List.Nodup.sublist (List.Sublist.map _ List.filter_sublist) h.2.1
  · intro x hx
    rw [List.mem_filter] at hx
    have hne : id ≠ x.id := by
      intro e; have := hx.2; simp [e] at this
    obtain ⟨wk, hg, hrest⟩ := h.2.2 x hx.1
    exact ⟨wk, by rw [Adm.delete_get?_other a hne]; exact hg, hrest⟩

theorem fillNeed_le (size : Nat) (kw : AMap Nat WKey) (sample : List SKey) :
    fillNeed size kw sample ≤ size - sample.length := Nat.min_le_left _ _


/-- in a list with pairwise distinct `f`-values, dropping the `f`-value of a member drops exactly that member -/
theorem filter_key_length {α : Type} (f : α → Nat) {k : α} : ∀ (l : List α), (l.map f).Nodup → k ∈ l →
    (l.filter (fun x => f x != f k)).length + 1 = l.length := by
  intro l
  induction l with
  | nil => intro _ hk; cases hk
  | cons y ys ih =>
    intro hnd hk
    simp only [List.map_cons, List.nodup_cons] at hnd
    by_cases hy : f y = f k
    · have hrest : ys.filter (fun x => f x != f k) = ys := by
        rw [List.filter_eq_self]
        intro x hx
        have : f x ≠ f k := by
          intro e
          exact hnd.1 (by rw [hy, ← e]; exact List.mem_map.mpr ⟨x, hx, rfl⟩)
        simpa using this
      simp [hy, hrest]
    · have hk' : k ∈ ys := by
        rw [List.mem_cons] at hk
        rcases hk with rfl | hk
        · exact absurd rfl hy
        · exact hk
      have := ih hnd.2 hk'
      simp only [List.filter_cons, bne_iff_ne, ne_eq, hy, not_false_eq_true, if_true, List.length_cons]
      omega

/-- with distinct ids, dropping the id of a member drops exactly that member -/
theorem filter_id_length {k : SKey} (l : List SKey) (hnd : (l.map (·.id)).Nodup) (hk : k ∈ l) :
    (l.filter (fun x => x.id != k.id)).length + 1 = l.length := filter_key_length (·.id) l hnd hk

/-- counting: with no id charged twice, the charged ids outside a well-formed sample are `|kw| − |sample|` many -/
theorem notSampled_length {kw : AMap Nat WKey} (hkw : AMap.NoDup kw) :
    ∀ (sample : List SKey), (sample.map (·.id)).Nodup → (∀ x ∈ sample, (kw.get? x.id).isSome = true) →
      (notSampled kw sample).Nodup ∧ (notSampled kw sample).length + sample.length = kw.length := by
  intro sample
  induction sample with
  | nil =>
    intro _ _
    have hf : ∀ l : List Nat, l.filter (fun _ => true) = l := fun l => List.filter_eq_self.mpr (fun _ _ => rfl)
    have : notSampled kw [] = kw.keys := by simp [notSampled, hf]
    rw [this]
    exact ⟨hkw, by simp [AMap.keys]⟩
  | cons y ys ih =>
    intro hnd hch
    simp only [List.map_cons, List.nodup_cons] at hnd
    obtain ⟨hnd', hlen⟩ := ih hnd.2 (fun x hx => hch x (List.mem_cons_of_mem _ hx))
    have hsplit : notSampled kw (y :: ys) = (notSampled kw ys).filter (fun i => i != y.id) := by
      simp only [notSampled, List.filter_filter, List.any_cons]
      apply List.filter_congr
      intro i _
      by_cases h1 : y.id = i
      · subst h1; simp
      · have h1' : i ≠ y.id := fun e => h1 e.symm
        have e1 : (y.id == i) = false := by simpa using h1
        have e2 : (i != y.id) = true := by simpa using h1'
        rw [e1, e2]; rfl
    have hymem : y.id ∈ notSampled kw ys := by
      simp only [notSampled, List.mem_filter, Bool.not_eq_true', List.any_eq_false, beq_iff_eq]
      refine ⟨?_, ?_⟩
      · have := hch y (by simp)
        cases hg : kw.get? y.id with
        | none => simp [hg] at this
        | some wk =>
          have hm := AMap.mem_of_get? hg
          exact List.mem_map.mpr ⟨(y.id, wk), hm, rfl⟩
      · intro x hx e
        exact hnd.1 (List.mem_map.mpr ⟨x, hx, e⟩)
    have hcount := filter_key_length (fun i : Nat => i) (k := y.id) (notSampled kw ys) (by simpa using hnd') hymem
    rw [hsplit]
    refine ⟨List.Nodup.sublist List.filter_sublist hnd', ?_⟩
    simp only [List.length_cons]
    omega

/-- with no id charged twice, a refill makes the sample full: `min size |kw|` members -/
theorem fillNeed_full {t : TinyLFU} {size : Nat} {kw : AMap Nat WKey} {sample : List SKey}
    (hkw : AMap.NoDup kw) (hwf : SampleWF t size kw sample) :
    sample.length + fillNeed size kw sample = min size kw.length := by
  obtain ⟨_, hlen⟩ := notSampled_length hkw sample hwf.2.1 hwf.sampleOK
  have := hwf.1
  unfold fillNeed
  omega

/-- `Evicts` (Properties/C06.lean) with the samples pinned down: every rule carries that the sample it looks at is
    well formed for the sketch `t`, the sample size `size` and the CURRENT charges, and the `evict` rule says what the
    refilled sample is: it is well formed for the charges after the eviction, does not mention the victim, keeps every
    other member of the old sample, has grown by exactly `fillNeed` members over the survivors (the old sample less its
    one member with the victim's id), and — when no id is charged twice, as in every reachable state — is FULL again:
    `min size |kw|` members. -/
inductive EvictsWF (t : TinyLFU) (size : Nat) (w : Int) (incEst : Nat) :
    Adm → List SKey → Status → Adm → List SKey → Prop where
  | enough {a : Adm} {sample : List SKey} :
      SampleWF t size a.kw sample → a.max - a.used ≥ w → EvictsWF t size w incEst a sample .accepted a []
  | exhausted {a : Adm} :
      a.max - a.used < w → EvictsWF t size w incEst a [] (.rejected .noSpace) a []
  | hotter {a : Adm} {sample : List SKey} (k : SKey) :
      SampleWF t size a.kw sample → a.max - a.used < w → k.coldestOf sample → incEst < k.est →
      EvictsWF t size w incEst a sample (.rejected .noSpace) a []
  | evict {a : Adm} {sample : List SKey} {st : Status} {a' : Adm} {vs : List SKey}
      (k : SKey) (sample' : List SKey) :
      SampleWF t size a.kw sample → a.max - a.used < w → k.coldestOf sample → k.est ≤ incEst →
      (∀ x ∈ sample', x.id ≠ k.id) →
      (∀ x ∈ sample, x.id ≠ k.id → x ∈ sample') →
      sample'.length = (sample.length - 1) +
        fillNeed size (a.delete k.id).1.kw (sample.filter (fun x => x.id != k.id)) →
      (AMap.NoDup a.kw → sample'.length = min size (a.delete k.id).1.kw.length) →
      SampleWF t size (a.delete k.id).1.kw sample' →
      (a.delete k.id).1.spaceOverflow = false →
      EvictsWF t size w incEst (a.delete k.id).1 sample' st a' vs →
      EvictsWF t size w incEst a sample st a' (k :: vs)
  /-- the re-check after the eviction overflows `i64`: the worker panics (`Evicts.overflow`) -/
  | overflow {a : Adm} {sample : List SKey} (k : SKey) :
      SampleWF t size a.kw sample → a.max - a.used < w → k.coldestOf sample → k.est ≤ incEst →
      (a.delete k.id).1.spaceOverflow = true →
      EvictsWF t size w incEst a sample .pending (a.delete k.id).1 [k]

/-- the strengthened relation implies the declarative rule of Properties/C06.lean (so all its consequences —
    `C06_victims_colder`, `C06_accepted_iff`, `C06_final_state`, … — apply) -/
theorem C06_EvictsWF_implies_Evicts {t : TinyLFU} {size : Nat} {w : Int} {incEst : Nat} {a a' : Adm}
    {sample vs : List SKey} {st : Status} (h : EvictsWF t size w incEst a sample st a' vs) :
    Evicts w incEst a sample st a' vs := by
  induction h with
  | enough _ hge => exact .enough hge
  | exhausted hlt => exact .exhausted hlt
  | hotter k _ hlt hc hh => exact .hotter k hlt hc hh
  | evict k sample' _ hlt hc hle hfresh _ _ _ _ hno _ ih => exact .evict k sample' hlt hc hle hfresh hno ih
  | overflow k _ hlt hc hle hov => exact .overflow k hlt hc hle hov

/-- the sample a derivation starts from is well formed (and so, rule by rule, is every later one: the premise of
    `evict` is again an `EvictsWF`) -/
theorem C06_EvictsWF_sample_wf {t : TinyLFU} {size : Nat} {w : Int} {incEst : Nat} {a a' : Adm}
    {sample vs : List SKey} {st : Status} (h : EvictsWF t size w incEst a sample st a' vs) :
    SampleWF t size a.kw sample := by
  cases h with
  | enough hwf _ => exact hwf
  | exhausted _ => exact SampleWF.nil _ _ _
  | hotter _ hwf _ _ _ => exact hwf
  | evict _ _ hwf _ _ _ _ _ _ _ _ _ _ => exact hwf
  | overflow _ hwf _ _ _ _ => exact hwf

/-- every victim is a well-formed member of the sample it was popped from: charged at that moment, with the charged
    weight and the sketch's estimate of its charged hash; so every victim IS reported to the delete hook -/
theorem C06_EvictsWF_victims_charged {t : TinyLFU} {size : Nat} {w : Int} {incEst : Nat} {a a' : Adm}
    {sample vs : List SKey} {st : Status} (h : EvictsWF t size w incEst a sample st a' vs) :
    ∀ pre k post, vs = pre ++ k :: post → SKeyOK t (admAfter a pre).kw k := by
  induction h with
  | enough _ _ => intro pre k post e; simp at e
  | exhausted _ => intro pre k post e; simp at e
  | hotter _ _ _ _ _ => intro pre k post e; simp at e
  | evict k0 _ hwf _ hc _ _ _ _ _ _ _ _ ih =>
    intro pre k post e
    cases pre with
    | nil =>
      simp only [List.nil_append, List.cons.injEq] at e
      obtain ⟨rfl, _⟩ := e
      exact hwf.2.2 _ hc.1
    | cons p pre' =>
      simp only [List.cons_append, List.cons.injEq] at e
      obtain ⟨rfl, e⟩ := e
      exact ih pre' k post e
  | overflow k0 hwf _ hc _ _ =>
    intro pre k post e
    cases pre with
    | nil =>
      simp only [List.nil_append, List.cons.injEq] at e
      obtain ⟨rfl, _⟩ := e
      exact hwf.2.2 _ hc.1
    | cons p pre' =>
      simp only [List.cons_append, List.cons.injEq] at e
      obtain ⟨_, e⟩ := e
      simp at e

/-- **C06_sample_wellformed: every successful run of the `create_space` loop from a well-formed sample follows the
    rule WITH well-formed samples throughout** (`EvictsWF`), with the same exact bookkeeping as
    `C06_loop_follows_rule`.  Every `t`, `size`, `w`, `incEst`, fuel, admission state (no well-formedness of `kw`
    assumed: duplicate ids allowed), oracle. -/
theorem C06_sample_wellformed (t : TinyLFU) (size : Nat) (w : Int) (incEst : Nat) :
    ∀ (fuel : Nat) (a : Adm) (sample : List SKey) (o : Oracle) (ev : List Evicted) (pp : List SKey)
      (r : LoopResult),
      SampleWF t size a.kw sample →
      createLoop t size w incEst fuel a sample o ev pp = .ok r →
      ∃ vs spared, EvictsWF t size w incEst a sample r.status r.adm vs ∧
        r.popped = pp.reverse ++ vs ++ spared ∧
        (spared = [] ∨ ∃ k, spared = [k] ∧ incEst < k.est ∧ r.status = .rejected .noSpace) ∧
        r.evicted = ev.reverse ++ evictedOf a vs := by
  intro fuel
  induction fuel with
  | zero =>
    intro a sample o ev pp r _ h
    simp [createLoop] at h
  | succ fuel ih =>
    intro a sample o ev pp r hwf h
    unfold createLoop at h
    split at h
    · rename_i hge
      cases h
      exact ⟨[], [], .enough hwf hge, by simp, Or.inl rfl, by simp [evictedOf]⟩
    · rename_i hlt
      have hlt : a.max - a.used < w := by omega
      split at h
      · cases h
      · split at h
        · cases h
        · rename_i hemp
          cases h
          have hs : sample = [] := by simpa using hemp
          subst hs
          exact ⟨[], [], .exhausted hlt, by simp, Or.inl rfl, by simp [evictedOf]⟩
      · rename_i id pops _
        split at h
        · cases h
        · rename_i k hfind
          obtain ⟨hmem, hid⟩ := find?_id_some hfind
          subst hid
          split at h
          · cases h
          · rename_i hmax
            have hcold : k.coldestOf sample :=
              (SKey.isMaxOf_iff_coldestOf hmem).mp (by simpa using hmax)
            split at h
            · rename_i hhot
              cases h
              exact ⟨[], [k], .hotter k hwf hlt hcold hhot, by simp, Or.inr ⟨k, rfl, hhot, rfl⟩,
                by simp [evictedOf]⟩
            · rename_i hcolder
              have hcolder : k.est ≤ incEst := by omega
              simp only [] at h
              split at h
              · rename_i hov
                cases h
                refine ⟨[k], [], .overflow k hwf hlt hcold hcolder hov, by simp, Or.inl rfl, ?_⟩
                simp only [evictedOf]
                cases (a.delete k.id).2 <;> simp
              rename_i hnov
              split at h
              · cases h
              · rename_i sample'' o' hfill
                have hfwf := SampleWF.delete_filter hwf k.id
                obtain ⟨hwf'', hlen'', hsub⟩ := fillSample_sampleWF hfwf (fillNeed_le _ _ _) hfill
                obtain ⟨vs, spared, hE, hpop, hsp, hev⟩ := ih _ _ _ _ _ _ hwf'' h
                have hfresh : ∀ x ∈ sample'', x.id ≠ k.id := by
                  refine fillSample_id_ne (Adm.delete_get?_same a k.id) ?_ hfill
                  intro x hx
                  rw [List.mem_filter] at hx
                  simpa using hx.2
                have hkeep : ∀ x ∈ sample, x.id ≠ k.id → x ∈ sample'' := by
                  intro x hx hne
                  exact hsub x (List.mem_filter.mpr ⟨hx, by simpa using hne⟩)
                have hflen := filter_id_length sample hwf.2.1 hmem
                refine ⟨k :: vs, spared, ?_, ?_, hsp, ?_⟩
                · refine .evict k sample'' hwf hlt hcold hcolder hfresh hkeep (by omega) ?_ hwf'' (by simpa using hnov) hE
                  intro hnd
                  have hnd' : AMap.NoDup (a.delete k.id).1.kw := by
                    rcases Adm.delete_kw a k.id with e | ⟨e, _⟩
                    · rw [e]; exact AMap.noDup_del hnd _
                    · rw [e]; exact hnd
                  have := fillNeed_full hnd' hfwf
                  omega
                · rw [hpop]; simp
                · rw [hev]
                  simp only [evictedOf]
                  cases (a.delete k.id).2 <;> simp

/-- **C06_initial_sample_size: the initial sample has exactly `min size |kw|` members** (no hypothesis on `kw`: with
    duplicate ids `|kw|` counts them — `notSampled kw [] = kw.keys` — and `fillSample` with `n` pushes exactly `n`). -/
theorem C06_initial_sample_size (t : TinyLFU) (size : Nat) (kw : AMap Nat WKey) (o1 o2 : Oracle) (sample : List SKey)
    (h : fillSample t kw (fillNeed size kw []) [] o1 = .ok (sample, o2)) :
    sample.length = min size kw.length ∧ fillNeed size kw [] = min size kw.length := by
  have hn : fillNeed size kw [] = min size kw.length := by
    have hf : ∀ l : List Nat, l.filter (fun _ => true) = l := fun l => List.filter_eq_self.mpr (fun _ _ => rfl)
    simp [fillNeed, notSampled, AMap.keys, hf]
  have := fillSample_length _ _ _ _ _ h
  simp only [List.length_nil, Nat.zero_add] at this
  exact ⟨by rw [this, hn], hn⟩

/-- **`maybe_add` as a whole, with well-formed samples**: `C06_maybeAdd_rule` with `Evicts` strengthened to `EvictsWF`,
    the initial sample well formed and of exactly `min size |kw|` members. -/
theorem C06_sample_wellformed_maybeAdd (t : TinyLFU) (size : Nat) (a : Adm) (id key hash : Nat) (w : Int) (o : Oracle)
    (r : AdmResult) (hmax : ¬ (w > a.max)) (hno : a.spaceOverflow = false) (hlt : a.max - a.used < w)
    (h : maybeAdd t size a id key hash w o = .ok r) :
    ∃ (incEst : Nat) (sample vs spared : List SKey) (a' : Adm) (o1 o2 : Oracle),
      estimateO t hash o = .ok (incEst, o1) ∧
      (∃ b, t.hasLegal hash b = true ∧ t.estimate hash b = some incEst) ∧
      fillSample t a.kw (fillNeed size a.kw []) [] o1 = .ok (sample, o2) ∧
      SampleWF t size a.kw sample ∧ sample.length = min size a.kw.length ∧
      EvictsWF t size w incEst a sample r.status a' vs ∧
      r.incEst = some incEst ∧
      r.adm = (if r.status = .accepted then a'.add id key hash w else a') ∧
      r.popped = vs ++ spared ∧
      (spared = [] ∨ ∃ k, spared = [k] ∧ incEst < k.est ∧ r.status = .rejected .noSpace) ∧
      r.evicted = evictedOf a vs := by
  unfold maybeAdd at h
  have hnfit : ¬ (a.max - a.used ≥ w) := by omega
  simp only [hmax, hno, hnfit, if_false, Bool.false_eq_true] at h
  split at h
  · cases h
  · rename_i incEst o1 hest
    split at h
    · cases h
    · rename_i sample o2 hfill
      split at h
      · cases h
      · rename_i lr hloop
        obtain ⟨hwf, _, _⟩ := fillSample_sampleWF (SampleWF.nil t size a.kw) (fillNeed_le _ _ _) hfill
        obtain ⟨vs, spared, hE, hpop, hsp, hev⟩ :=
          C06_sample_wellformed t size w incEst _ _ _ _ _ _ _ hwf hloop
        obtain ⟨b, _, _, hl, he, _⟩ := estimateO_spec hest
        cases h
        refine ⟨incEst, sample, vs, spared, lr.adm, o1, o2, hest, ⟨b, hl, he⟩, hfill, hwf,
          (C06_initial_sample_size t size a.kw o1 o2 sample hfill).1, hE, rfl, rfl, ?_, hsp, ?_⟩
        · simpa using hpop
        · simpa using hev

/-! ### non-vacuity (the instance of Properties/C06.lean: capacity 10, 9 used by ids 1, 2, 3; sample size 3) -/

/-- the hypothesis of `C06_initial_sample_size` / `fillSample_sampleWF` is met: the initial sample of the three charged
    ids, drawn in the oracle's order, with the estimates 0, 0, 1 -/
example :
    (fillSample exLFU exAdm.kw (fillNeed 3 exAdm.kw []) [] { dk := [false, false, true], ids := [1, 2, 3] }).toOption.map (·.1) =
      some [{ id := 3, weight := 3, est := 1 }, { id := 2, weight := 4, est := 0 }, { id := 1, weight := 2, est := 0 }] ∧
    fillNeed 3 exAdm.kw [] = min 3 exAdm.kw.length ∧
    (fillSample exLFU exAdm.kw (fillNeed 2 exAdm.kw []) [] { dk := [false, false], ids := [1, 2] }).toOption.map (·.1.length) =
      some (min 2 exAdm.kw.length) := by decide

/-- that sample is well formed (derived through `fillSample_sampleWF` from the run above), and so is what is left of it,
    for the remaining charges, once id 2 has been evicted -/
example :
    SampleWF exLFU 3 exAdm.kw
      [{ id := 3, weight := 3, est := 1 }, { id := 2, weight := 4, est := 0 }, { id := 1, weight := 2, est := 0 }] ∧
    SampleWF exLFU 3 (exAdm.delete 2).1.kw [{ id := 3, weight := 3, est := 1 }, { id := 1, weight := 2, est := 0 }] := by
  have h : fillSample exLFU exAdm.kw 3 [] { dk := [false, false, true], ids := [1, 2, 3] } =
      .ok ([{ id := 3, weight := 3, est := 1 }, { id := 2, weight := 4, est := 0 }, { id := 1, weight := 2, est := 0 }],
           { dk := [], ids := [] }) := rfl
  have hwf := (fillSample_sampleWF (SampleWF.nil exLFU 3 exAdm.kw) (by decide) h).1
  exact ⟨hwf, SampleWF.delete_filter hwf 2⟩

/-- `C06_sample_wellformed_maybeAdd` applies to the accepted put of Properties/C06.lean (two evictions), and yields an
    `EvictsWF` derivation with a full initial sample and two victims -/
example : ∃ incEst sample vs a', EvictsWF exLFU 3 6 incEst exAdm sample .accepted a' vs ∧
    SampleWF exLFU 3 exAdm.kw sample ∧ sample.length = 3 ∧
    vs = [{ id := 2, weight := 4, est := 0 }, { id := 1, weight := 2, est := 0 }] := by
  cases hr : maybeAdd exLFU 3 exAdm 4 104 14 6
      { dk := [true, false, false, true], ids := [1, 2, 3], pops := [some 2, some 1] } with
  | error m =>
    have hnone : exView (maybeAdd exLFU 3 exAdm 4 104 14 6
        { dk := [true, false, false, true], ids := [1, 2, 3], pops := [some 2, some 1] }) = none := by rw [hr]; rfl
    exact absurd hnone (by decide)
  | ok r =>
    have hv : exView (.ok r) = some ⟨.accepted,
            [{ id := 2, weight := 4, est := 0 }, { id := 1, weight := 2, est := 0 }],
            [(2, 102, 4), (1, 101, 2)], some 1, 9, [4, 3], true⟩ := by rw [← hr]; decide
    simp only [exView, Except.toOption, Option.map_some, Option.some.injEq, ExView.mk.injEq] at hv
    obtain ⟨hst, hpp, _⟩ := hv
    obtain ⟨incEst, sample, vs, spared, a', o1, o2, _, _, _, hwf, hlen, hE, _, _, hpop, hsp, _⟩ :=
      C06_sample_wellformed_maybeAdd exLFU 3 exAdm 4 104 14 6 _ r (by decide) (by decide) (by decide) hr
    have hspared : spared = [] := by
      rcases hsp with h | ⟨k, _, _, h⟩
      · exact h
      · rw [hst] at h; cases h
    subst hspared
    rw [hst] at hE
    rw [hpp] at hpop
    simp only [List.append_nil] at hpop
    exact ⟨incEst, sample, vs, a', hE, hwf, by rw [hlen]; decide, hpop.symm⟩

/-! ## 4. C10 / C15: the totalised definitions never meet their degenerate case for an accepted configuration

  In Lean `x % 0 = x` and `l[i]?` is `none` out of range; the crate would divide by zero (`secs % shards`) resp. draw a
  buffer index modulo an empty pool.  `G17_accepted_config_valid`: every configuration that `ConfigBuilder::new` followed
  by any chain of setters hands out is `Builder.Valid`; `Builder.toCfg` (CachedModel/Glue.lean) is the `Cfg` that
  `build()` + `CacheD::new` hand to the components (`base` supplies the fields the builder has no say in: sample size,
  channel capacity, harness hash / weight functions).  Below, "accepted configuration" = `b.toCfg base` for such a `b`. -/

/-- every accepted configuration has at least one (in fact at least two, a power of two) shards, so `secs % shards`
    is a real shard number -/
theorem C10_accepted_config_shards_pos (c cap : Nat) (w : Int) (cs : List Glue.Setter) (b0 b : Glue.Builder) (base : Cfg)
    (h0 : Glue.Builder.new c cap w = some b0) (hr : b0.run cs = some b) :
    0 < (b.toCfg base).shards ∧ 1 < (b.toCfg base).shards ∧ (∃ k, (b.toCfg base).shards = 2 ^ k) ∧
    (∀ t, t % (b.toCfg base).shards < (b.toCfg base).shards) ∧ (∀ e, shardOf (b.toCfg base) e < (b.toCfg base).shards) := by
  obtain ⟨_, _, _, _, _, _, h7, h8⟩ := G17_accepted_config_valid c cap w cs b0 b h0 hr
  have hpos : 0 < (b.toCfg base).shards := by show 0 < b.shards; omega
  exact ⟨hpos, h7, (G17_isPow2_iff _).mp h8, fun t => Nat.mod_lt t hpos, fun e => Nat.mod_lt _ hpos⟩

/-- every accepted configuration has a non-empty pool of non-empty buffers, and the pool built from it has exactly
    `poolSize` buffers -/
theorem C15_accepted_config_pool_pos (c cap : Nat) (w : Int) (cs : List Glue.Setter) (b0 b : Glue.Builder) (base : Cfg)
    (h0 : Glue.Builder.new c cap w = some b0) (hr : b0.run cs = some b) :
    0 < (b.toCfg base).poolSize ∧ 0 < (b.toCfg base).bufSize ∧
    (∀ now seeds, (State.init (b.toCfg base) now seeds).pool.length = (b.toCfg base).poolSize) ∧
    (∀ r, r % (b.toCfg base).poolSize < (b.toCfg base).poolSize) := by
  obtain ⟨_, _, _, h4, h5, _, _, _⟩ := G17_accepted_config_valid c cap w cs b0 b h0 hr
  have hpos : 0 < (b.toCfg base).poolSize := h4
  exact ⟨hpos, h5, fun now seeds => by simp [State.init], fun r => Nat.mod_lt r hpos⟩

theorem reachA_cfg {cfg : Cfg} {now : Nat} {seeds : List Nat} {s : State} (hr : Reach cfg now seeds s) : s.cfg = cfg := by
  induction hr with
  | init => rfl
  | step _ hstep ih => rw [step_cfg hstep]; exact ih

/-- `C15_reads_never_wait` with an accepted configuration as the only configuration hypothesis: in every state reachable
    from the cache built from it, a `get` returns a value without waiting and without touching the sketch, the command
    queue, the parked calls, the worker, the store or the admission state; the pool it draws a buffer from is never
    empty (`poolSize > 0`; before `shutdown()` — after it `get` returns before it looks at the pool — the pool has
    exactly `poolSize` buffers), so "buffer index modulo the pool size" is defined and names a buffer. -/
theorem C15_reads_never_wait_accepted (c cap : Nat) (w : Int) (cs : List Glue.Setter) (b0 b : Glue.Builder) (base : Cfg)
    (h0 : Glue.Builder.new c cap w = some b0) (hr : b0.run cs = some b)
    {now : Nat} {seeds : List Nat} {s s' : State} {g : Ghost} (hreach : ReachG (b.toCfg base) now seeds s g)
    {k : Nat} {o o' : Oracle} {out : Out} (h : clientGet s k o = .ok (s', out, o')) :
    0 < s.cfg.poolSize ∧
    (s.shutting = false → s.pool.length = s.cfg.poolSize ∧ ∀ r, ∃ buf, s.pool[r % s.cfg.poolSize]? = some buf) ∧
    (∃ v, out = .value v) ∧
    s'.lfu = s.lfu ∧ s'.queue = s.queue ∧ s'.pend = s.pend ∧ s'.worker = s.worker ∧
    s'.store = s.store ∧ s'.adm = s.adm := by
  have hcfg := reachG_cfg hreach
  obtain ⟨hpos, _, _, _⟩ := C15_accepted_config_pool_pos c cap w cs b0 b base h0 hr
  rw [← hcfg] at hpos
  refine ⟨hpos, ?_, C15_reads_never_wait h⟩
  intro hs
  have hshape := (reachG_sinv hreach hs).poolShape
  refine ⟨hshape, fun r => ?_⟩
  have hlt : r % s.cfg.poolSize < s.pool.length := by rw [hshape]; exact Nat.mod_lt r hpos
  exact ⟨_, List.getElem?_eq_getElem hlt⟩

/-- … and such a `get` is enabled: for every oracle whose pool index names one of the `poolSize` buffers the call
    finishes (the model's only failure of a read is an index outside the pool). -/
theorem C15_reads_enabled_accepted (c cap : Nat) (w : Int) (cs : List Glue.Setter) (b0 b : Glue.Builder) (base : Cfg)
    (h0 : Glue.Builder.new c cap w = some b0) (hr : b0.run cs = some b)
    {now : Nat} {seeds : List Nat} {s : State} {g : Ghost} (hreach : ReachG (b.toCfg base) now seeds s g)
    (hs : s.shutting = false) (k : Nat) (o : Oracle) (r : Nat) (rest : List Nat)
    (ho : o.pool = (r % (b.toCfg base).poolSize) :: rest) :
    ∃ res, clientGet s k o = .ok res := by
  have hcfg := reachG_cfg hreach
  obtain ⟨hpos, _, _, _⟩ := C15_accepted_config_pool_pos c cap w cs b0 b base h0 hr
  have hshape := (reachG_sinv hreach hs).poolShape
  have hlt : r % (b.toCfg base).poolSize < s.pool.length := by rw [hshape, hcfg]; exact Nat.mod_lt r hpos
  have hbuf : s.pool[r % (b.toCfg base).poolSize]? = some s.pool[r % (b.toCfg base).poolSize] :=
    List.getElem?_eq_getElem hlt
  have hpa : ∀ (s1 : State) (x : Nat), s1.pool = s.pool → ∃ r1, poolAdd s1 x o = .ok r1 := by
    intro s1 x hp
    unfold poolAdd
    simp only [ho, hp, hbuf]
    exact ⟨_, rfl⟩
  unfold clientGet
  simp only [hs, Bool.false_eq_true, if_false]
  unfold readKey
  cases hg : s.store.get? k with
  | none => exact ⟨_, rfl⟩
  | some e =>
    simp only []
    cases ha : e.alive s.now with
    | false => exact ⟨_, rfl⟩
    | true =>
      simp only [if_true]
      obtain ⟨r1, hr1⟩ := hpa { s with stats := { s.stats with hits := s.stats.hits + 1 } } (s.cfg.hashOf k) rfl
      rw [hr1]
      exact ⟨_, rfl⟩

/-- `C10_index_after_sweep` with an accepted configuration as the only configuration hypothesis: in every state reachable
    from the cache built from it, a sweep visits shard `secs(now) % shards`, which IS one of the `shards` shards (no
    division by zero), every deadline is indexed under one of them, and exactly the due entries of the visited shard
    leave the index. -/
theorem C10_index_after_sweep_accepted (c cap : Nat) (w : Int) (cs : List Glue.Setter) (b0 b : Glue.Builder) (base : Cfg)
    (h0 : Glue.Builder.new c cap w = some b0) (hr : b0.run cs = some b)
    {now : Nat} {seeds : List Nat} {s s' : State} (hreach : Reach (b.toCfg base) now seeds s)
    {ev : List Evicted} (hs : sweepStep s = .ok (s', .swept ev)) :
    0 < s.cfg.shards ∧ secsOf s.now % s.cfg.shards < s.cfg.shards ∧ (∀ e, shardOf s.cfg e < s.cfg.shards) ∧
    s'.ttl = s.ttl.filter (fun p => !due s p) ∧ s'.cfg = s.cfg := by
  have hcfg := reachA_cfg hreach
  obtain ⟨hpos, _, _, hmod, hsh⟩ := C10_accepted_config_shards_pos c cap w cs b0 b base h0 hr
  rw [← hcfg] at hpos hmod hsh
  exact ⟨hpos, hmod _, hsh, C10_index_after_sweep hs, (C10_sweep_frame hs).2⟩

/-- Non-vacuity: the configurations of the examples of Properties/C10.lean and C15.lean ARE accepted configurations
    (two counters; `ConfigBuilder::new(2, 10, 100)` followed by four setters), so the runs shown there — a sweep that
    removes a key, hits that fill and hand over a buffer — are instances of the two corollaries. -/
def c10Builder : Glue.Builder :=
  { counters := 2, capacity := 10, cacheWeight := 100, pool := 1, buf := 2, cmd := 4, shards := 2, tickNs := 5000000000 }
def c15Builder : Glue.Builder :=
  { counters := 2, capacity := 10, cacheWeight := 100, pool := 1, buf := 1, cmd := 4, shards := 4, tickNs := 5000000000 }

example : (Glue.Builder.new 2 10 100).bind (fun b0 => b0.run [.shards 2, .pool 1, .cmd 4, .buf 2]) = some c10Builder ∧
    (Glue.Builder.new 2 10 100).bind (fun b0 => b0.run [.shards 4, .cmd 4, .pool 1, .buf 1]) = some c15Builder := by
  decide

example : c10Builder.toCfg c10Cfg = c10Cfg ∧ c15Builder.toCfg c15cfg = c15cfg := ⟨rfl, rfl⟩

/-- a reachable state of an accepted configuration in which the sweep succeeds and removes a key -/
example : ∃ s s' ev, Reach (c10Builder.toCfg c10Cfg) 5000000000 [1, 2, 3, 4] s ∧ sweepStep s = .ok (s', .swept ev) ∧
    ev ≠ [] := by
  cases hrun : runEvents (State.init c10Cfg 5000000000 [1, 2, 3, 4]) (c10Put ++ [(.advance 3000000000, c10O)]) with
  | error m =>
    have : (match runEvents (State.init c10Cfg 5000000000 [1, 2, 3, 4]) (c10Put ++ [(.advance 3000000000, c10O)]) with
            | .ok _ => true | .error _ => false) = true := by decide
    rw [hrun] at this; cases this
  | ok s =>
    have hreach : Reach c10Cfg 5000000000 [1, 2, 3, 4] s := reach_runEvents _ Reach.init hrun
    have hsw : (match runEvents (State.init c10Cfg 5000000000 [1, 2, 3, 4]) (c10Put ++ [(.advance 3000000000, c10O)]) with
            | .ok s => (match sweepStep s with | .ok (_, .swept ev) => decide (ev ≠ []) | _ => false)
            | .error _ => false) = true := by decide
    rw [hrun] at hsw
    simp only [] at hsw
    split at hsw
    · rename_i s' ev hsweep
      exact ⟨s, s', ev, hreach, hsweep, by simpa using hsw⟩
    · cases hsw

/-- a reachable state of an accepted configuration in which a `get` hits (hypotheses of `C15_reads_never_wait_accepted`
    and `C15_reads_enabled_accepted`, with `0 % poolSize = 0` as the buffer index) -/
example : ∃ s g, ReachG (c15Builder.toCfg c15cfg) 0 [1, 2] s g ∧ s.shutting = false ∧
    (∃ s' o', clientGet s 5 { pool := [0 % (c15Builder.toCfg c15cfg).poolSize] } = .ok (s', .value (some 7), o')) := by
  have h : ∃ p, c15run (c15history 1) = some p := by
    cases hr : c15run (c15history 1) with
    | none => exact absurd (congrArg c15view hr) (by decide)
    | some p => exact ⟨p, rfl⟩
  obtain ⟨⟨s, g⟩, hp⟩ := h
  refine ⟨s, g, runG_reach _ _ _ _ _ .init hp, ?_⟩
  have hv : (c15run (c15history 1)).map (fun p => (p.1.shutting,
      (match clientGet p.1 5 { pool := [0] } with | .ok (_, .value v, _) => v | _ => none))) =
      some (false, some 7) := by decide
  rw [hp] at hv
  simp only [Option.map_some, Option.some.injEq, Prod.mk.injEq] at hv
  refine ⟨hv.1, ?_⟩
  have h2 := hv.2
  split at h2
  · rename_i s' v o' hget
    subst h2
    exact ⟨s', o', hget⟩
  · cases h2

end Cached
