/-
  Extra/Iter: the multi-key iterator kept open across events (`CachedModel/Iter.lean`: `iterNext`, `iterDrain`).

    1. `iter_next_exhausted`, `C13_iter_next_after_shutdown`      the two ways a `next()` ends the iteration;
    2. `iter_next_eq_get`, `C02_iter_next_is_get`, `iter_next_is_readKey`, `iterNext_error_iff`, `iter_next_open_yields`
                                                                  otherwise a `next()` IS the model's `get` of the head key:
                                                                  same state, same value, same oracle, same errors;
    3. `C02_iter_next_current`, `C02_iter_next_visible`, `C04_iter_next_after_delete`, `C09_iter_next_expired`,
       `C15_iter_next_one_record`, `C15_iter_next_miss_no_record`, `C16_iter_next_one_lookup`
                                                                  the theorems about `get`, instantiated at a `next()`;
    4. `iter_drain_eq_multiGet` (+ `iter_drain_ok_iff_multiGet`, `iter_drain_shutting`, `iterDrainFuel_eq_readKeys`)
                                                                  the iterator drained with nothing in between is
                                                                  `Ev.multiGet`: equal as `Except` values (state, items,
                                                                  oracle left over, and the error message when the oracle
                                                                  is not one the implementation can produce);
    5. examples (`decide`)                                        items are read at the time of each call: an overwrite or a
                                                                  `shutdown()` between two calls is seen by the second.

  Nothing had to be weakened: no side condition on the pool or the oracle is needed in 4, because both sides thread the
  oracle through the same `readKey` calls in the same order.
-/
import CachedProofs.Properties.C02
import CachedProofs.Properties.C04
import CachedProofs.Properties.C09
import CachedProofs.Properties.C13
import CachedProofs.Properties.C15
import CachedProofs.Properties.C16
import CachedModel.Iter

namespace Cached

/-! ## 1. the two ways a `next()` ends the iteration -/

/-- No keys left: `None`, nothing changes, no oracle value is consumed — shutting down or not. -/
theorem iter_next_exhausted (s : State) (o : Oracle) : iterNext s [] o = .ok (s, none, [], o) := rfl

/-- **An iterator opened before `shutdown()` yields nothing afterwards and changes nothing**: no statistics, no access
    record, no oracle value consumed; the keys not yet asked for stay where they are. -/
theorem C13_iter_next_after_shutdown (s : State) (keys : List Nat) (o : Oracle) (hs : s.shutting = true) :
    iterNext s keys o = .ok (s, none, keys, o) := by
  cases keys with
  | nil => rfl
  | cons k rest => simp only [iterNext, hs, if_true]

/-! ## 2. otherwise a `next()` is the model's `get` of the head key -/

/-- `get` answers a value or fails on the oracle; it never answers anything else. -/
theorem get_eq_readKey (s : State) (k : Nat) (o : Oracle) (hs : s.shutting = false) :
    step s (.get k) o =
      (match readKey s k o with | .ok (s1, v, o') => .ok (s1, .value v, o') | .error m => .error m) := by
  show clientGet s k o = _
  exact (C09_variants_agree s k o hs).1

/-- `get` in terms of `readKey`, as an equivalence -/
theorem get_ok_iff_readKey (s s' : State) (k : Nat) (o o' : Oracle) (v : Option Nat) (hs : s.shutting = false) :
    step s (.get k) o = .ok (s', .value v, o') ↔ readKey s k o = .ok (s', v, o') := by
  rw [get_eq_readKey s k o hs]
  cases hr : readKey s k o with
  | error m => simp
  | ok r =>
    obtain ⟨s1, v1, o1⟩ := r
    simp only [Except.ok.injEq, Prod.mk.injEq, Out.value.injEq]

/-- The definition of `iterNext` at an open iterator of a cache that is not shutting down, with the branch
    "`get` answered something else than a value" removed (it is dead). -/
theorem iter_next_eq_get (s : State) (k : Nat) (rest : List Nat) (o : Oracle) (hs : s.shutting = false) :
    iterNext s (k :: rest) o =
      (match readKey s k o with | .ok (s1, v, o') => .ok (s1, some v, rest, o') | .error m => .error m) := by
  simp only [iterNext, hs, Bool.false_eq_true, if_false]
  rw [get_eq_readKey s k o hs]
  cases readKey s k o with
  | error m => rfl
  | ok r => rfl

/-- **A `next()` is a `get` of the head key.**  For an open iterator (`keys = k :: rest`) of a cache that is not
    shutting down, `next()` answers the item `v`, in state `s'`, leaving the oracle `o'` and the keys `keys'`, exactly
    when `get(k)` answers `v` in state `s'` leaving `o'`, and `keys'` is the tail.  Hence every theorem about `.get`
    (C02, C04, C09, C15, C16) applies to each `next()` verbatim. -/
theorem C02_iter_next_is_get (s s' : State) (k : Nat) (rest keys' : List Nat) (o o' : Oracle) (v : Option Nat)
    (hs : s.shutting = false) :
    iterNext s (k :: rest) o = .ok (s', some v, keys', o') ↔
      step s (.get k) o = .ok (s', .value v, o') ∧ keys' = rest := by
  rw [get_ok_iff_readKey s s' k o o' v hs, iter_next_eq_get s k rest o hs]
  cases hr : readKey s k o with
  | error m => simp
  | ok r =>
    obtain ⟨s1, v1, o1⟩ := r
    simp only [Except.ok.injEq, Prod.mk.injEq, Option.some.injEq]
    constructor
    · rintro ⟨rfl, rfl, rfl, rfl⟩; exact ⟨⟨rfl, rfl, rfl⟩, rfl⟩
    · rintro ⟨⟨rfl, rfl, rfl⟩, rfl⟩; exact ⟨rfl, rfl, rfl, rfl⟩

/-- the same against `readKey`, the function `get` and `multi_get` share -/
theorem iter_next_is_readKey (s s' : State) (k : Nat) (rest keys' : List Nat) (o o' : Oracle) (v : Option Nat)
    (hs : s.shutting = false) :
    iterNext s (k :: rest) o = .ok (s', some v, keys', o') ↔ readKey s k o = .ok (s', v, o') ∧ keys' = rest := by
  rw [C02_iter_next_is_get s s' k rest keys' o o' v hs, get_ok_iff_readKey s s' k o o' v hs]

/-- A `next()` fails exactly where the `get` fails (the oracle supplies no legal buffer index for a hit), with the same
    message: the error "a get answered something else than a value" of `iterNext` is never produced. -/
theorem iterNext_error_iff (s : State) (k : Nat) (rest : List Nat) (o : Oracle) (m : String)
    (hs : s.shutting = false) :
    iterNext s (k :: rest) o = .error m ↔ step s (.get k) o = .error m := by
  rw [iter_next_eq_get s k rest o hs, get_eq_readKey s k o hs]
  cases readKey s k o with
  | error m' => simp
  | ok r => simp

/-- An open iterator of a cache that is not shutting down never answers `None`: a `next()` that completes yields an
    item and removes exactly the head key. -/
theorem iter_next_open_yields (s s' : State) (k : Nat) (rest keys' : List Nat) (o o' : Oracle)
    (a : Option (Option Nat)) (hs : s.shutting = false) (h : iterNext s (k :: rest) o = .ok (s', a, keys', o')) :
    ∃ v, a = some v ∧ keys' = rest ∧ step s (.get k) o = .ok (s', .value v, o') := by
  cases a with
  | none =>
    rw [iter_next_eq_get s k rest o hs] at h
    cases hr : readKey s k o with
    | error m => rw [hr] at h; cases h
    | ok r =>
      obtain ⟨s1, v1, o1⟩ := r
      rw [hr] at h
      simp only [Except.ok.injEq, Prod.mk.injEq] at h
      exact absurd h.2.1 (by simp)
  | some v =>
    obtain ⟨h1, h2⟩ := (C02_iter_next_is_get s s' k rest keys' o o' v hs).mp h
    exact ⟨v, rfl, h2, h1⟩

/-- In whichever state the cache is: an item comes from a `get` of the head key in a cache that is not shutting down. -/
theorem iter_next_item (s s' : State) (keys keys' : List Nat) (o o' : Oracle) (v : Option Nat)
    (h : iterNext s keys o = .ok (s', some v, keys', o')) :
    s.shutting = false ∧ ∃ k, keys = k :: keys' ∧ step s (.get k) o = .ok (s', .value v, o') := by
  cases hs : s.shutting with
  | true =>
    rw [C13_iter_next_after_shutdown s keys o hs] at h
    simp only [Except.ok.injEq, Prod.mk.injEq] at h
    exact absurd h.2.1 (by simp)
  | false =>
    cases keys with
    | nil =>
      rw [iter_next_exhausted] at h
      simp only [Except.ok.injEq, Prod.mk.injEq] at h
      exact absurd h.2.1 (by simp)
    | cons k rest =>
      obtain ⟨h1, h2⟩ := (C02_iter_next_is_get s s' k rest keys' o o' v hs).mp h
      exact ⟨rfl, k, by rw [h2], h1⟩

/-! ## 3. the theorems about `get`, at a `next()` -/

/-- **C02 at a `next()`: the value returned is the current value of an alive entry of the head key** — in the state
    at the time of THIS call, not at the time the iterator was opened.  (No hypothesis on `shutting`: a cache that is
    shutting down yields no item at all.)  Through `C02_get_is_read`. -/
theorem C02_iter_next_current (s s' : State) (k : Nat) (rest keys' : List Nat) (o o' : Oracle) (v : Nat)
    (h : iterNext s (k :: rest) o = .ok (s', some (some v), keys', o')) :
    (∃ e, s.store.get? k = some e ∧ e.value = v ∧ e.alive s.now = true) ∧ OnlyRead s s' := by
  obtain ⟨hs, k', hk, hg⟩ := iter_next_item s s' _ keys' o o' _ h
  simp only [List.cons.injEq] at hk
  obtain ⟨rfl, _⟩ := hk
  obtain ⟨hout, hro⟩ := C02_get_is_read s s' k o o' _ hg
  simp only [hs, Bool.false_eq_true, if_false, Out.value.injEq] at hout
  exact ⟨(visible_eq_some_iff s k v).mp hout.symm, hro⟩

/-- every item, present or absent, is `visible s k` of the head key at the time of the call, and the call changes
    nothing but statistics, access buffers and the buffer channel -/
theorem C02_iter_next_visible (s s' : State) (k : Nat) (rest keys' : List Nat) (o o' : Oracle) (v : Option Nat)
    (h : iterNext s (k :: rest) o = .ok (s', some v, keys', o')) :
    v = visible s k ∧ keys' = rest ∧ OnlyRead s s' := by
  obtain ⟨hs, k', hk, hg⟩ := iter_next_item s s' _ keys' o o' _ h
  simp only [List.cons.injEq] at hk
  obtain ⟨rfl, rfl⟩ := hk
  obtain ⟨hout, hro⟩ := C02_get_is_read s s' k o o' _ hg
  simp only [hs, Bool.false_eq_true, if_false, Out.value.injEq] at hout
  exact ⟨hout, rfl, hro⟩

/-- **C04 at a `next()`**: a key deleted (the call has returned, the worker has not run) between two calls of `next()`
    is not read by the next one: the item is `None`.  Through `C04_get_after_delete`. -/
theorem C04_iter_next_after_delete (s : State) (c k : Nat) (rest : List Nat) (e : Entry) (hsh : s.shutting = false)
    (hk : s.store.get? k = some e) (o : Oracle) :
    ∃ s'', iterNext (clientDelete s c k).1 (k :: rest) o = .ok (s'', some none, rest, o) := by
  obtain ⟨s'', hg⟩ := C04_get_after_delete s c k e hsh hk o
  refine ⟨s'', ?_⟩
  have hsh' : (clientDelete s c k).1.shutting = false := by
    have hcd : clientDelete s c k =
        sendCmd { s with store := s.store.set k { e with soft := true } } c (.delete k) := by
      simp [clientDelete, hsh, hk]
    rw [hcd]
    unfold sendCmd
    split
    · exact hsh
    · split <;> exact hsh
  exact (C02_iter_next_is_get _ s'' k rest rest o o none hsh').mpr ⟨hg, rfl⟩

/-- **C09 at a `next()`**: a key whose deadline has passed by the time of the call — whether or not the sweeper has
    run — yields `Some(None)`; the call counts one miss and changes nothing else.  Through `C09_never_served`. -/
theorem C09_iter_next_expired (s : State) (k : Nat) (rest : List Nat) (o : Oracle) (e : Entry) (t : Nat)
    (hs : s.shutting = false) (hk : s.store.get? k = some e) (he : e.expiry = some t) (hnow : s.now > t) :
    iterNext s (k :: rest) o =
      .ok ({ s with stats := { s.stats with misses := s.stats.misses + 1 } }, some none, rest, o) := by
  rw [iter_next_eq_get s k rest o hs, C09_never_served s k o e t hk he hnow]

/-- **C15 at a `next()`**: an item that is a value creates exactly one access record and counts exactly one hit.
    Through `C15_exactly_one_record`. -/
theorem C15_iter_next_one_record (s s' : State) (k : Nat) (rest keys' : List Nat) (o o' : Oracle) (v : Nat)
    (h : iterNext s (k :: rest) o = .ok (s', some (some v), keys', o')) :
    buffered s' + s'.stats.accessAdded + s'.stats.accessDropped =
      buffered s + s.stats.accessAdded + s.stats.accessDropped + 1 ∧
    s'.stats.hits = s.stats.hits + 1 ∧ s'.stats.misses = s.stats.misses := by
  have hs := (iter_next_item s s' _ keys' o o' _ h).1
  exact C15_exactly_one_record ((iter_next_is_readKey s s' k rest keys' o o' _ hs).mp h).1

/-- an absent item creates no record and consumes no oracle value.  Through `C15_miss_no_record`. -/
theorem C15_iter_next_miss_no_record (s s' : State) (k : Nat) (rest keys' : List Nat) (o o' : Oracle)
    (h : iterNext s (k :: rest) o = .ok (s', some none, keys', o')) :
    s'.stats.misses = s.stats.misses + 1 ∧ s'.stats.hits = s.stats.hits ∧
    s'.pool = s.pool ∧ s'.bufq = s.bufq ∧ buffered s' = buffered s ∧
    s'.stats.accessAdded = s.stats.accessAdded ∧ s'.stats.accessDropped = s.stats.accessDropped ∧ o' = o := by
  have hs := (iter_next_item s s' _ keys' o o' _ h).1
  exact C15_miss_no_record ((iter_next_is_readKey s s' k rest keys' o o' _ hs).mp h).1

/-- **C16 at a `next()`**: every item, present or absent, is counted as exactly one lookup (one hit or one miss). -/
theorem C16_iter_next_one_lookup (s s' : State) (k : Nat) (rest keys' : List Nat) (o o' : Oracle) (v : Option Nat)
    (h : iterNext s (k :: rest) o = .ok (s', some v, keys', o')) :
    s'.stats.hits + s'.stats.misses = s.stats.hits + s.stats.misses + 1 := by
  cases v with
  | none =>
    obtain ⟨h1, h2, _⟩ := C15_iter_next_miss_no_record s s' k rest keys' o o' h
    omega
  | some v =>
    obtain ⟨_, h1, h2⟩ := C15_iter_next_one_record s s' k rest keys' o o' v h
    omega

/-- … and a `next()` that ends the iteration counts nothing: it changes nothing at all. -/
theorem C16_iter_next_end_counts_nothing (s s' : State) (keys keys' : List Nat) (o o' : Oracle)
    (h : iterNext s keys o = .ok (s', none, keys', o')) : s' = s ∧ keys' = keys ∧ o' = o := by
  cases hs : s.shutting with
  | true =>
    rw [C13_iter_next_after_shutdown s keys o hs] at h
    simp only [Except.ok.injEq, Prod.mk.injEq, true_and] at h
    exact ⟨h.1.symm, h.2.1.symm, h.2.2.symm⟩
  | false =>
    cases keys with
    | nil =>
      rw [iter_next_exhausted] at h
      simp only [Except.ok.injEq, Prod.mk.injEq, true_and] at h
      exact ⟨h.1.symm, h.2.1.symm, h.2.2.symm⟩
    | cons k rest =>
      obtain ⟨v, hv, _⟩ := iter_next_open_yields s s' k rest keys' o o' none hs h
      cases hv

/-! ## 4. the iterator drained with nothing in between is `multi_get` -/

/-- a read does not touch the shutdown flag -/
theorem readKey_shutting {s s' : State} {k : Nat} {o o' : Oracle} {r : Option Nat}
    (hr : readKey s k o = .ok (s', r, o')) : s'.shutting = s.shutting :=
  (readKey_spec hr).2.fields.2.2.2.2.2.2.2.2.2.2.2.1

/-- The loop of `next()` calls is the loop `readKeys` of `multi_get`, for every accumulator and every amount of fuel
    that exceeds the number of keys: same state, same items, same oracle left over, same error. -/
theorem iterDrainFuel_eq_readKeys : ∀ (ks : List Nat) (fuel : Nat) (s : State) (o : Oracle) (acc : List (Option Nat)),
    s.shutting = false → ks.length < fuel →
    iterDrainFuel fuel s ks o acc =
      (match readKeys s ks o acc with | .ok (s1, vs, o') => .ok (s1, vs, [], o') | .error m => .error m) := by
  intro ks
  induction ks with
  | nil =>
    intro fuel s o acc _ hf
    cases fuel with
    | zero => cases hf
    | succ n => rfl
  | cons k ks ih =>
    intro fuel s o acc hs hf
    cases fuel with
    | zero => cases hf
    | succ n =>
      have hf' : ks.length < n := by simpa using hf
      simp only [iterDrainFuel, readKeys]
      rw [iter_next_eq_get s k ks o hs]
      cases hr : readKey s k o with
      | error m => rfl
      | ok r =>
        obtain ⟨s1, v, o1⟩ := r
        have hs1 : s1.shutting = false := by rw [readKey_shutting hr]; exact hs
        exact ih n s1 o1 (v :: acc) hs1 hf'

/-- **Draining an iterator with nothing in between IS the model's multi-key read.**  For every state that is not
    shutting down, every list of keys and every oracle, `iterDrain s ks o` and `step s (.multiGet ks) o` are the same
    `Except` value up to the shape of the answer: the same final state, the same list of values, the same remaining
    oracle, no key left — and when the oracle is not one the implementation can produce, the same error.
    No side condition on the pool or the oracle: both sides thread it through the same reads in the same order. -/
theorem iter_drain_eq_multiGet (s : State) (ks : List Nat) (o : Oracle) (hs : s.shutting = false) :
    iterDrain s ks o =
      (match step s (.multiGet ks) o with
       | .ok (s', .values vs, o') => .ok (s', vs, [], o')
       | .ok _ => .error "a multi_get answered something else than values"
       | .error m => .error m) := by
  show iterDrainFuel (ks.length + 1) s ks o [] = (match clientMultiGet s ks o with
       | .ok (s', .values vs, o') => .ok (s', vs, [], o')
       | .ok _ => .error "a multi_get answered something else than values"
       | .error m => .error m)
  rw [iterDrainFuel_eq_readKeys ks (ks.length + 1) s o [] hs (Nat.lt_succ_self _)]
  simp only [clientMultiGet, hs, Bool.false_eq_true, if_false]
  cases readKeys s ks o [] with
  | error m => rfl
  | ok r => rfl

/-- the same as an equivalence between the two successful outcomes -/
theorem iter_drain_ok_iff_multiGet (s s' : State) (ks : List Nat) (o o' : Oracle) (vs : List (Option Nat))
    (hs : s.shutting = false) :
    iterDrain s ks o = .ok (s', vs, [], o') ↔ step s (.multiGet ks) o = .ok (s', .values vs, o') := by
  rw [iter_drain_eq_multiGet s ks o hs, show step s (.multiGet ks) o = clientMultiGet s ks o from rfl]
  simp only [clientMultiGet, hs, Bool.false_eq_true, if_false]
  cases readKeys s ks o [] with
  | error m => simp
  | ok r =>
    obtain ⟨s1, vs1, o1⟩ := r
    simp only [Except.ok.injEq, Prod.mk.injEq, Out.values.injEq, true_and]

/-- a drained iterator leaves no key behind unless the cache is shutting down -/
theorem iter_drain_leaves_no_key (s s' : State) (ks ks' : List Nat) (o o' : Oracle) (vs : List (Option Nat))
    (hs : s.shutting = false) (h : iterDrain s ks o = .ok (s', vs, ks', o')) : ks' = [] ∧ vs.length = ks.length := by
  rw [iter_drain_eq_multiGet s ks o hs] at h
  have hm : ∀ r, step s (.multiGet ks) o = r → (match r with
       | .ok (s', .values vs, o') => .ok (s', vs, [], o')
       | .ok _ => .error "a multi_get answered something else than values"
       | .error m => .error m) = (.ok (s', vs, ks', o') : Except String _) → ks' = [] ∧ vs.length = ks.length := by
    intro r hr hm
    split at hm
    · rename_i s1 vs1 o1
      simp only [Except.ok.injEq, Prod.mk.injEq] at hm
      obtain ⟨rfl, rfl, rfl, rfl⟩ := hm
      obtain ⟨⟨vs2, h2, hl⟩, _⟩ := C15_multi_reads_never_wait (s := s) (ks := ks) (o := o) hr
      simp only [Out.values.injEq] at h2
      subst h2
      exact ⟨rfl, hl hs⟩
    · cases hm
    · cases hm
  exact hm _ rfl h

/-- **While the cache is shutting down both yield no values and leave everything unchanged** (the iterator keeps its
    keys: its first `next()` already answers `None`). -/
theorem iter_drain_shutting (s : State) (ks : List Nat) (o : Oracle) (hs : s.shutting = true) :
    iterDrain s ks o = .ok (s, [], ks, o) ∧ step s (.multiGet ks) o = .ok (s, .values [], o) := by
  refine ⟨?_, (C13_refuses_reads s hs 0 ks o).2⟩
  show iterDrainFuel (ks.length + 1) s ks o [] = _
  simp only [iterDrainFuel, C13_iter_next_after_shutdown s ks o hs, List.reverse_nil]

/-- hence the drained items are, in order, `visible s` of each key — all read off the same store at the same clock
    value: the drained iterator, unlike the one kept open across events, is a snapshot.  Through
    `C02_multi_get_is_reads`. -/
theorem C02_iter_drain_is_reads (s s' : State) (ks ks' : List Nat) (o o' : Oracle) (vs : List (Option Nat))
    (hs : s.shutting = false) (h : iterDrain s ks o = .ok (s', vs, ks', o')) :
    vs = ks.map (visible s) ∧ OnlyRead s s' := by
  obtain ⟨rfl, _⟩ := iter_drain_leaves_no_key s s' ks ks' o o' vs hs h
  have hm := (iter_drain_ok_iff_multiGet s s' ks o o' vs hs).mp h
  obtain ⟨hout, hro⟩ := C02_multi_get_is_reads s s' ks o o' _ hm
  simp only [hs, Bool.false_eq_true, if_false, Out.values.injEq] at hout
  exact ⟨hout, hro⟩

/-! ## 5. non-vacuity: the items are read at the time of each call -/

/-- keys 1 ↦ 100 and 2 ↦ 200 held, one access buffer of size 4, room in the command queue -/
def iterState : State :=
  { State.init { maxWeight := 100, shards := 4, cmdCap := 4, poolSize := 1, bufSize := 4, counters := 16 } 0 [1, 2] with
    store := [(1, { value := 100, id := 1, expiry := none, soft := false }),
              (2, { value := 200, id := 2, expiry := none, soft := false })],
    nextId := 3 }

/-- what an outcome of `iterNext` shows to the caller: the answer and the keys left -/
def iterShow (r : Except String (State × Option (Option Nat) × List Nat × Oracle)) :
    Option (Option (Option Nat) × List Nat) :=
  match r with
  | .ok (_, a, keys, _) => some (a, keys)
  | .error _ => none

/-- `multi_get [1, 2]` and the iterator drained at once: both `[100, 200]`, no key left, the two pool indices
    consumed (the hypotheses of `iter_drain_eq_multiGet` / `iter_drain_ok_iff_multiGet` are met with both sides `.ok`). -/
example :
    (match step iterState (.multiGet [1, 2]) { pool := [0, 0] } with
     | .ok (s', .values vs, o') => decide (vs = [some 100, some 200] ∧ o'.pool = [] ∧ s'.stats.hits = 2)
     | _ => false) = true ∧
    (match iterDrain iterState [1, 2] { pool := [0, 0] } with
     | .ok (s', vs, ks', o') => decide (vs = [some 100, some 200] ∧ ks' = [] ∧ o'.pool = [] ∧ s'.stats.hits = 2)
     | .error _ => false) = true := by decide

/-- **An overwrite between two calls is seen by the second.**  Open `[1, 2]`; the first `next()` yields `100`; then
    `put_or_update(2, 201)` returns; the second `next()` yields `201`, not the `200` that `multi_get` (or the iterator
    drained at once) reads; the third `next()` ends the iteration. -/
example :
    (match iterNext iterState [1, 2] { pool := [0] } with
     | .ok (s1, a1, keys1, _) =>
       decide (a1 = some (some 100) ∧ keys1 = [2]) &&
       (match step s1 (.upsert 0 2 (some 201) none none false) {} with
        | .ok (s2, _, _) =>
          decide (s2.shutting = false) &&
          (match iterNext s2 keys1 { pool := [0] } with
           | .ok (s3, a2, keys2, o3) =>
             decide (a2 = some (some 201) ∧ keys2 = [] ∧ o3.pool = [] ∧ s3.stats.hits = 2) &&
             decide (iterShow (iterNext s3 keys2 {}) = some (none, []))
           | .error _ => false)
        | .error _ => false)
     | .error _ => false) = true := by decide

/-- **A `shutdown()` between two calls ends the iteration.**  Open `[1, 2]`; the first `next()` yields `100`; then
    `shutdown()`; the second `next()` answers `None` and keeps its key (`C13_iter_next_after_shutdown` is not vacuous),
    although key 2 was readable when the iterator was opened. -/
example :
    visible iterState 2 = some 200 ∧
    (match iterNext iterState [1, 2] { pool := [0] } with
     | .ok (s1, a1, keys1, _) =>
       decide (a1 = some (some 100) ∧ keys1 = [2]) &&
       (match step s1 (.shutdown 0) {} with
        | .ok (s2, _, _) =>
          decide (s2.shutting = true) &&
          decide (iterShow (iterNext s2 keys1 { pool := [0] }) = some (none, [2])) &&
          (match iterDrain s2 keys1 { pool := [0] } with
           | .ok (_, vs, ks', o') => decide (vs = [] ∧ ks' = [2] ∧ o'.pool = [0])
           | .error _ => false)
        | .error _ => false)
     | .error _ => false) = true := by decide

/-- a delete between two calls (`C04_iter_next_after_delete` is not vacuous): the second item is absent -/
example :
    (match iterNext iterState [1, 2] { pool := [0] } with
     | .ok (s1, _, keys1, _) =>
       (match step s1 (.delete 0 2) {} with
        | .ok (s2, _, _) => decide (iterShow (iterNext s2 keys1 {}) = some (some none, []))
        | .error _ => false)
     | .error _ => false) = true := by decide

end Cached
