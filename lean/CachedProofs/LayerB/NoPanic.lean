/-
  C17 at ACTION granularity:  "Valid calls never panic or kill a background worker" — for all interleavings.

  Statements about `CachedModel/LayerB.lean` (one atomic action per step, any interleaving of any number of client
  threads with the command worker, the sweeper and the access consumer).  A panic in a calling thread is the RESULT
  `Out.panic p` of the call (`finishCall b i (.panic p)`, collected in `b.res`); a panic on the worker thread makes the
  worker dead (`b.w = .dead`, `b.g.worker = .dead`, the queue dropped); an index out of bounds inside the sketch is the
  step result `.error sketchPanic`.  `.error "not enabled: …"` / `"illegal oracle: …"` are not panics.

  `Act.pre b a` (CachedProofs/LayerB/NoPanicLemmas.lean) is the precondition of ONE ACTION, evaluated in the state in
  which that action runs (other threads move between the actions of a call):
    * `issue i r`        the request is well formed (`Req.wf`): weights are positive — the documented precondition
                         that depends on the request alone;
    * `client i`         the side condition of the position client `i` stands at (`CPc.pre`):
        `start`            `put_with_weight`: the weight is positive (unless the cache is shutting down);
        `upsert.update`    absent key: a value is given, the weight to charge is positive (documented);
                           present key with a time-to-live: `now + ttl` is representable at the clock of THIS action;
        `upsert.weight_of` (no change of the expiry index), `ttl.put`, `ttl.delete`, `ttl.update.insert`:
                           the weight the tail of `put_or_update` asserts on — if there is one — is a positive `i64`:
                           the explicit / computed weight, or the `existing ± ttl_ticker_entry_size` that
                           `upsert.weight_of` computed from the charge it found AT ITS OWN ACTION
                           (`C17_layerB_weight_of_computes`); no weight, nothing to assert, when the id was not charged;
    * `worker`           the side condition of the position the worker stands at (`WPc.pre`):
        `store.put`        put with time-to-live: `now + ttl` is representable at the worker's clock;
        `kw.update`        charged id: `new - charged` and `used + (new - charged)` are in `i64` range,
                           with `used` and `charged` as they are WHEN THIS ACTION RUNS;
        `wu.space`         (the three calls of `is_space_available_for` inside a put: `space0`, `evSpace`, `emptySpace`)
                           `max_weight - weight_used` is in `i64` range (`Adm.spaceOverflow = false`), with the total as it
                           is WHEN THIS ACTION RUNS — the code computes the difference in `i64` and panics otherwise;
    * sweeper, consumer, clock: none.

  What is proved
    * `C17_layerB_step_no_panic`       one action that meets `Act.pre`: no panic result, the worker survives,
                                       sweeper and consumer exit only at their shutdown hand-shake, the sketch stays
                                       well formed and is never indexed out of bounds — at EVERY state (not only
                                       reachable ones: every clause of `Act.pre` is about the action itself);
    * `C17_layerB_weight_of_computes`, `C17_layerB_weight_decided_at_weight_of`
                                       the weight a time-to-live addition / removal asserts on is `charge ± 24` with the
                                       charge READ AT `upsert.weight_of` — or NO weight at all when the key id is not
                                       charged there (since the fix of `weight_of`); nothing any other thread does
                                       afterwards changes the verdict;
    * `C17_layerB_pre_necessary`       every side-condition clause is EXACT: where it fails the (enabled) action panics
                                       / kills the worker — in every state; plus one reachable witness per clause
                                       (`C17_layerB_counterexample_*`, the Layer B counterparts of the five Layer A ones);
    * `C17_layerB_run_no_panic`        along any run in which every action meets `Act.pre` in the state it runs in,
                                       no caller ever gets a panic and the worker never dies;
    * `C17_layerB_space_overflow_needs_negative_total`, `C17_layerB_space_overflow_only_after_shutdown`
                                       the `wu.space` clause holds whenever the total is not negative (total and limit
                                       being `i64`s, the limit not negative) — hence at every reachable state of every
                                       interleaving while `shutdown()` has not been called (`C01_layerB_nonneg`): a worker
                                       that dies at `wu.space` has met a NEGATIVE total, which only known finding D10
                                       produces; `C17_layerB_counterexample_space_overflow` is that run
                                       (`corpus/C17_D10_space_overflow.in`, replayed on the crate);
    * `C17_layerB_background_never_panics`, `C17_layerB_background_exit_only_on_shutdown`
                                       the sweeper's and the consumer's actions have no panic site (the consumer given
                                       a well-formed sketch), at every state of every interleaving; they exit only
                                       after `shutdown()` was called;
    * `C17_layerB_ttl_only_upsert_safe_under_races` (+ `…_uncharged_safe`, `C17_layerB_no_weight_accepted`)
                                       what the fix of `weight_of` buys: a `put_or_update` that only adds / moves /
                                       removes a time-to-live and met `Act.pre` at `upsert.update` never panics
                                       afterwards, WHATEVER the other threads do in between, provided that at
                                       `upsert.weight_of` the key id is not charged or `charge ∓ 24` is a positive `i64`;
    * the former FINDING (D14, first form; needed an interleaving, invisible in Layer A) is REPAIRED:
      `C17_layerB_race_sweeper_fixed`, `C17_layerB_race_eviction_fixed`, `C17_layerB_race_delete_fixed` (the runs of the
      former `C17_layerB_counterexample_race_sweeper / _race_eviction / _race_delete`, on which a `put_or_update` that
      satisfied every precondition of Layer A (`Ev.pre`) when it was issued AND when its `upsert.update` ran panicked
      in the caller, because another thread removed the key's charge between two actions of the call) now end without
      a panic; `C17_layerB_race_sweeper_uncharged_fixed`: a variant in which the sweeper does take the id out;
    * FINDINGS that remain: `C17_layerB_counterexample_race_value_missing` (D14, second form) — the documented
      precondition "a value when the key is absent" is not stable between the issue of the call and `upsert.update`;
      `C17_layerB_counterexample_race_weight_update` — another client's valid `put_or_update(k).weight(5)` LOWERS the
      charge (29 → 5) between `upsert.update` and `upsert.weight_of` of a time-to-live removal: `5 - 24`, panic in the
      caller (D4 reached by a race; the fix of `weight_of` covers only an id that is no longer charged at all).
-/
import CachedProofs.LayerB.NoPanicLemmas

namespace Cached
namespace B

/-- no result recorded so far is a panic -/
def PanicFree (b : BState) : Prop := ∀ l ∈ b.res, ∀ out ∈ l, out.isPanic = false

instance (b : BState) : Decidable (PanicFree b) :=
  inferInstanceAs (Decidable (∀ l ∈ b.res, ∀ out ∈ l, out.isPanic = false))

/-- the results after an action: unchanged, or one result — not a panic — recorded for one client -/
def ResOk (b b' : BState) : Prop :=
  b'.res = b.res ∨ ∃ i out, out.isPanic = false ∧ b'.res = b.res.set i (out :: b.res.getD i [])

theorem ResOk.panicFree {b b' : BState} (h : ResOk b b') (hp : PanicFree b) : PanicFree b' := by
  rcases h with h | ⟨i, out, ho, h⟩
  · intro l hl; rw [h] at hl; exact hp l hl
  · intro l hl x hx
    rw [h] at hl
    rcases List.mem_or_eq_of_mem_set hl with hl | rfl
    · exact hp l hl x hx
    · rcases List.mem_cons.mp hx with rfl | hx
      · exact ho
      · cases hi : b.res[i]? with
        | none => simp [List.getD, hi] at hx
        | some l0 =>
          simp only [List.getD, hi, Option.getD_some] at hx
          exact hp l0 (List.mem_of_getElem? hi) x hx

/-! ## the parts of the step theorem -/

theorem issue_frame {b b' : BState} {i : Nat} {r : Req} (h : issue b i r = .ok b') :
    b'.res = b.res ∧ b'.w = b.w ∧ b'.g = b.g := by
  unfold issue at h
  split at h
  · simp only [Except.ok.injEq] at h; subst h; exact ⟨rfl, rfl, rfl⟩
  · cases h

/-- the worker touches neither the liveness flags of the other background threads, the keep-running flags nor the
    buffer queue -/
theorem wtrans_flags {b b' : BState} (h : WTrans b b') :
    b'.g.sweeperAlive = b.g.sweeperAlive ∧ b'.g.consumerAlive = b.g.consumerAlive ∧
    b'.g.sweeperKeep = b.g.sweeperKeep ∧ b'.g.consumerKeep = b.g.consumerKeep ∧ b'.g.bufq = b.g.bufq := by
  cases h
  case evStore c e s id wk _ _ =>
    obtain ⟨_, _, _, _, _, _, _, _, _, h10, _, _, h13, h14, h15, h16, _⟩ := applyEvict_rest b.g (id, wk.key, wk.weight)
    exact ⟨h15, h13, h16, h14, h10⟩
  all_goals simp [finishCmd, rejectCmd, ttlPut, ttlDelete]

/-- **Results and the worker.** An action that meets its precondition records no panic and leaves a live worker
    alive. -/
theorem step_res_worker {b b' : BState} {a : Act} {o o' : Oracle} (hpre : a.pre b)
    (h : stepB b a o = .ok (b', o')) :
    ResOk b b' ∧ (b.w ≠ .dead → b'.w ≠ .dead) ∧ (b.g.worker ≠ .dead → b'.g.worker ≠ .dead) := by
  cases a with
  | issue i r =>
    simp only [stepB] at h
    split at h
    · rename_i b1 hi
      simp only [Except.ok.injEq, Prod.mk.injEq] at h; obtain ⟨rfl, rfl⟩ := h
      obtain ⟨h1, h2, h3⟩ := issue_frame hi
      exact ⟨Or.inl h1, by rw [h2]; exact id, by rw [h3]; exact id⟩
    · cases h
  | client i =>
    obtain ⟨pc, hpc, hres⟩ := clientAct_res h
    obtain ⟨pc', hpc', hg⟩ := clientAct_gframe h
    have hw := (ctrans_frame (clientAct_trans h)).1
    have hp : pc.pre b.g := by
      have : clientPre b.g b.cl[i]? := hpre
      rw [hpc] at this; exact this
    refine ⟨?_, by rw [hw]; exact id, by rw [hg.worker]; exact id⟩
    rcases hres with ⟨_, h1 | ⟨out, ho, h1⟩⟩ | ⟨hn, _⟩
    · exact Or.inl h1
    · exact Or.inr ⟨i, out, ho, h1⟩
    · exact absurd hp hn
  | worker =>
    refine ⟨Or.inl (wtrans_res (workerAct_trans h)), ?_⟩
    rcases workerAct_pre h with ⟨_, h1, h2⟩ | ⟨hn, _⟩
    · exact ⟨fun _ => h1, h2⟩
    · exact absurd hpre hn
  | sweeper v =>
    simp only [stepB] at h
    split at h
    · rename_i b1 hs
      simp only [Except.ok.injEq, Prod.mk.injEq] at h; obtain ⟨rfl, rfl⟩ := h
      obtain ⟨h1, h2, h3, _⟩ := strans_bg (sweeperAct_trans hs)
      exact ⟨Or.inl h1, by rw [h2]; exact id, by rw [h3]; exact id⟩
    · cases h
  | consumer =>
    simp only [stepB] at h
    split at h
    · rename_i g1 out o1 hc
      simp only [Except.ok.injEq, Prod.mk.injEq] at h; obtain ⟨rfl, rfl⟩ := h
      exact ⟨Or.inl rfl, id, by rw [show ({ b with g := g1 } : BState).g.worker = b.g.worker from (consumerStep_bg hc).1]; exact id⟩
    · cases h
  | advance d =>
    simp only [stepB, Except.ok.injEq, Prod.mk.injEq] at h; obtain ⟨rfl, rfl⟩ := h
    exact ⟨Or.inl rfl, id, id⟩

/-- **The other background threads.** Whatever the action (no precondition): the sweeper's liveness flag changes only
    at the sweeper's own `sweep.end`, where it takes the value of its keep-running flag; the consumer's only in the
    consumer's own action, on a `Shutdown` event or with its keep-running flag cleared. -/
theorem step_background_alive {b b' : BState} {a : Act} {o o' : Oracle} (h : stepB b a o = .ok (b', o')) :
    (b'.g.sweeperAlive = b.g.sweeperAlive ∨
      ((∃ v, a = .sweeper v) ∧ b.sw = .fin ∧ b'.g.sweeperAlive = b.g.sweeperKeep)) ∧
    (b'.g.consumerAlive = b.g.consumerAlive ∨
      (a = .consumer ∧ (b.g.consumerKeep = false ∨ b.g.bufq.head? = some .shutdown))) := by
  cases a with
  | issue i r =>
    simp only [stepB] at h
    split at h
    · rename_i b1 hi
      simp only [Except.ok.injEq, Prod.mk.injEq] at h; obtain ⟨rfl, rfl⟩ := h
      rw [(issue_frame hi).2.2]; exact ⟨Or.inl rfl, Or.inl rfl⟩
    · cases h
  | client i =>
    obtain ⟨pc', hpc', hg⟩ := clientAct_gframe h
    exact ⟨Or.inl hg.sweeperAlive, Or.inl hg.consumerAlive⟩
  | worker =>
    obtain ⟨h1, h2, _⟩ := wtrans_flags (workerAct_trans h)
    exact ⟨Or.inl h1, Or.inl h2⟩
  | sweeper v =>
    simp only [stepB] at h
    split at h
    · rename_i b1 hs
      simp only [Except.ok.injEq, Prod.mk.injEq] at h; obtain ⟨rfl, rfl⟩ := h
      obtain ⟨_, _, _, h4, _, _, _, _, h9⟩ := strans_bg (sweeperAct_trans hs)
      refine ⟨?_, Or.inl h4⟩
      rcases h9 with h9 | ⟨h9, h10⟩
      · exact Or.inl h9
      · exact Or.inr ⟨⟨v, rfl⟩, h9, h10⟩
    · cases h
  | consumer =>
    simp only [stepB] at h
    split at h
    · rename_i g1 out o1 hc
      simp only [Except.ok.injEq, Prod.mk.injEq] at h; obtain ⟨rfl, rfl⟩ := h
      obtain ⟨_, h2, _, _, _, h6, _, _⟩ := consumerStep_bg hc
      refine ⟨Or.inl h2, ?_⟩
      cases hal : g1.consumerAlive with
      | false => exact Or.inr ⟨rfl, h6 hal⟩
      | true =>
        left
        have : b.g.consumerAlive = true := by
          unfold consumerStep at hc
          split at hc
          · cases hc
          · rename_i hx; simpa using hx
        exact this.symm
    · cases h
  | advance d =>
    simp only [stepB, Except.ok.injEq, Prod.mk.injEq] at h; obtain ⟨rfl, rfl⟩ := h
    exact ⟨Or.inl rfl, Or.inl rfl⟩

/-- **The sketch.** With a well-formed sketch (`FreqCounter.WF`: what the constructor builds, C14) no action fails with
    the sketch's index-out-of-bounds panic, and every action keeps the sketch well formed. -/
theorem step_sketch {b : BState} (a : Act) (o : Oracle) (wf : b.g.lfu.fc.WF) :
    stepB b a o ≠ .error sketchPanic ∧ ∀ b' o', stepB b a o = .ok (b', o') → b'.g.lfu.fc.WF := by
  cases a with
  | issue i r =>
    refine ⟨?_, ?_⟩
    · simp only [stepB]
      split
      · simp
      · rename_i m hm
        unfold issue at hm
        split at hm
        · cases hm
        · simp only [Except.error.injEq] at hm; subst hm; simp [sketchPanic]
    · intro b' o' h
      simp only [stepB] at h
      split at h
      · rename_i b1 hi
        simp only [Except.ok.injEq, Prod.mk.injEq] at h; obtain ⟨rfl, rfl⟩ := h
        rw [(issue_frame hi).2.2]; exact wf
      · cases h
  | client i =>
    refine ⟨clientAct_no_sketch_panic b i o, ?_⟩
    intro b' o' h
    obtain ⟨pc', hpc', hg⟩ := clientAct_gframe h
    rcases hg.lfu with e | e <;> rw [e]
    · exact wf
    · exact TinyLFU.clear_wf wf
  | worker =>
    refine ⟨workerAct_no_sketch_panic b o wf, ?_⟩
    intro b' o' h
    rw [wtrans_lfu (workerAct_trans h)]; exact wf
  | sweeper v =>
    refine ⟨?_, ?_⟩
    · simp only [stepB]
      split
      · simp
      · rename_i m hm
        rcases sweeperAct_error hm with e | e | e | e | e <;> subst e <;> simp [sketchPanic]
    · intro b' o' h
      simp only [stepB] at h
      split at h
      · rename_i b1 hs
        simp only [Except.ok.injEq, Prod.mk.injEq] at h; obtain ⟨rfl, rfl⟩ := h
        rw [(strans_bg (sweeperAct_trans hs)).2.2.2.2.1]; exact wf
      · cases h
  | consumer =>
    refine ⟨?_, ?_⟩
    · simp only [stepB]
      split
      · simp
      · rename_i m hm
        intro hc
        simp only [Except.error.injEq] at hc; subst hc
        exact consumerStep_no_sketch_panic b.g o wf hm
    · intro b' o' h
      simp only [stepB] at h
      split at h
      · rename_i g1 out o1 hc
        simp only [Except.ok.injEq, Prod.mk.injEq] at h; obtain ⟨rfl, rfl⟩ := h
        exact (consumerStep_bg hc).2.2.2.2.2.2.2 wf
      · cases h
  | advance d =>
    refine ⟨by simp [stepB], ?_⟩
    intro b' o' h
    simp only [stepB, Except.ok.injEq, Prod.mk.injEq] at h; obtain ⟨rfl, rfl⟩ := h
    exact wf

/-! ## C17, one action -/

/-- **C17 for one action, at every state of every interleaving.**  An action that meets `Act.pre` in the state it runs
    in:
    * records no panic: the results are unchanged, or exactly one result that is not a panic is put in front of one
      client's results (`ResOk`, cf. `finishCall`);
    * does not kill the worker (`b.w`, the worker's position, and `b.g.worker`, the mode the senders see);
    * the sweeper stays alive unless this is the sweeper's own `sweep.end` and `shutdown()` has cleared its
      keep-running flag; the consumer stays alive unless this is the consumer's own action and it met the `Shutdown`
      event or `shutdown()` has cleared its keep-running flag;
    * with a well-formed sketch the action does not fail with the sketch's index-out-of-bounds panic, and the sketch
      stays well formed.
    No invariant is needed: the statement holds at EVERY state `b`, in particular at every reachable one. -/
theorem C17_layerB_step_no_panic {b b' : BState} {a : Act} {o o' : Oracle} (hpre : a.pre b)
    (h : stepB b a o = .ok (b', o')) :
    ResOk b b' ∧ (b.w ≠ .dead → b'.w ≠ .dead) ∧ (b.g.worker ≠ .dead → b'.g.worker ≠ .dead) ∧
    (b.g.sweeperAlive = true → b'.g.sweeperAlive = true ∨
      ((∃ v, a = .sweeper v) ∧ b.sw = .fin ∧ b.g.sweeperKeep = false)) ∧
    (b.g.consumerAlive = true → b'.g.consumerAlive = true ∨
      (a = .consumer ∧ (b.g.consumerKeep = false ∨ b.g.bufq.head? = some .shutdown))) ∧
    (b.g.lfu.fc.WF → b'.g.lfu.fc.WF) := by
  obtain ⟨h1, h2, h3⟩ := step_res_worker hpre h
  obtain ⟨h4, h5⟩ := step_background_alive h
  refine ⟨h1, h2, h3, ?_, ?_, fun wf => (step_sketch a o wf).2 b' o' h⟩
  · intro hal
    rcases h4 with e | ⟨hv, hf, e⟩
    · exact Or.inl (by rw [e]; exact hal)
    · cases hk : b.g.sweeperKeep with
      | true => exact Or.inl (by rw [e]; exact hk)
      | false => exact Or.inr ⟨hv, hf, rfl⟩
  · intro hal
    rcases h5 with e | e
    · exact Or.inl (by rw [e]; exact hal)
    · exact Or.inr e

/-- the sketch part for reachable states: the sketch of a cache built by the constructor is well formed (it has at
    least one row: `seeds ≠ []`), stays so along every interleaving, hence no action of any thread ever fails with the
    sketch's index-out-of-bounds panic -/
theorem C17_layerB_no_sketch_panic {cfg : Cfg} {now : Nat} {seeds : List Nat} {clients : Nat} {b : BState}
    (hs : seeds ≠ []) (hr : Reach cfg now seeds clients b) (a : Act) (o : Oracle) :
    b.g.lfu.fc.WF ∧ stepB b a o ≠ .error sketchPanic := by
  have wf : b.g.lfu.fc.WF := by
    induction hr with
    | init m => exact C14_fresh_sketch_wf cfg.counters seeds hs
    | step _ hstep ih => exact (step_sketch _ _ ih).2 _ _ hstep
  exact ⟨wf, (step_sketch a o wf).1⟩

/-- **Every side-condition clause of `Act.pre` is exact** (so none can be weakened): in EVERY state, a client action
    whose position's side condition fails records a panic for that client, and a worker action whose position's side
    condition fails kills the worker (the queue is dropped: the acknowledgements of the commands in it stay pending
    for ever).  (`issue` is the documented precondition on the request alone: its failure shows at the `start` /
    `upsert.update` / tail action of the call — `C17_layerB_counterexample_weight_not_positive`.) -/
theorem C17_layerB_pre_necessary {b b' : BState} {o o' : Oracle} :
    (∀ i, ¬ Act.pre b (.client i) → stepB b (.client i) o = .ok (b', o') →
      ∃ p, b'.res = b.res.set i (.panic p :: b.res.getD i []) ∧ (i < b.res.length → ¬ PanicFree b')) ∧
    (¬ Act.pre b .worker → stepB b .worker o = .ok (b', o') →
      b'.w = .dead ∧ b'.g.worker = .dead ∧ b'.g.queue = []) := by
  refine ⟨?_, ?_⟩
  · intro i hn h
    obtain ⟨pc, hpc, hres⟩ := clientAct_res h
    have hn' : ¬ pc.pre b.g := by
      intro hp; apply hn
      show clientPre b.g b.cl[i]?
      rw [hpc]; exact hp
    rcases hres with ⟨hp, _⟩ | ⟨_, p, hr⟩
    · exact absurd hp hn'
    · refine ⟨p, hr, ?_⟩
      intro hi hpf
      have hmem : (Out.panic p :: b.res.getD i []) ∈ b'.res := by
        rw [hr]; exact List.mem_set hi _
      have := hpf _ hmem (.panic p) (List.mem_cons_self ..)
      simp [Out.isPanic] at this
  · intro hn h
    rcases workerAct_pre h with ⟨hp, _⟩ | ⟨_, h1⟩
    · exact absurd hp hn
    · exact h1

/-- **Where the weight asserted on comes from.**  `upsert.weight_of` of a request that gives neither weight nor value
    reads the charge of the key's id IN THE STATE IN WHICH IT RUNS (`chargedWeight?`: `weight_of(&key_id)`, an `Option`
    since the fix: an id that is no longer charged has no weight to adjust) and hands
    `charge + ttl_ticker_entry_size` (a time-to-live is added) / `charge - ttl_ticker_entry_size` (it is removed)
    to the next action of the call, which asserts on it — or NOTHING, when the id is not charged: then no weight is
    asserted on (the side condition of the next action holds trivially) and no `UpdateWeight` will be sent.
    Nobody but the client itself can change that local any more (`other_threads_keep_pc`).  So in terms of the shared
    state the side condition of a time-to-live removal is `charged → ttl_ticker_entry_size < charge` AT
    `upsert.weight_of` — not when the call is issued, not at `upsert.update`.
    (Before the fix the local was `chargedWeight ± ttl_ticker_entry_size` with `chargedWeight = 0` for an id that is
    not charged; for a charged id the statement is the one before the fix, word for word.) -/
theorem C17_layerB_weight_of_computes {b b' : BState} {i id : Nat} {old new : Option Nat} {o o' : Oracle}
    (hpc : b.cl[i]? = some (.upWeightOf id none old new)) (h : stepB b (.client i) o = .ok (b', o')) :
    (∀ n, typeOfExpiryUpdate old new = .added n →
      b'.cl[i]? = some (.upTtlPut id n ((chargedWeight? b.g id).map (· + b.g.cfg.ttlEntry))) ∧
      ((b.g.adm.kw.get? id).isSome = true →
        b'.cl[i]? = some (.upTtlPut id n (some (chargedWeight b.g id + b.g.cfg.ttlEntry))) ∧
        (Act.pre b' (.client i) ↔ inI64 (chargedWeight b.g id + b.g.cfg.ttlEntry) = true ∧
          0 < chargedWeight b.g id + b.g.cfg.ttlEntry)) ∧
      (b.g.adm.kw.get? id = none → b'.cl[i]? = some (.upTtlPut id n none) ∧ Act.pre b' (.client i))) ∧
    (∀ e, typeOfExpiryUpdate old new = .deleted e →
      b'.cl[i]? = some (.upTtlDelete id e ((chargedWeight? b.g id).map (· - b.g.cfg.ttlEntry))) ∧
      ((b.g.adm.kw.get? id).isSome = true →
        b'.cl[i]? = some (.upTtlDelete id e (some (chargedWeight b.g id - b.g.cfg.ttlEntry))) ∧
        (Act.pre b' (.client i) ↔ inI64 (chargedWeight b.g id - b.g.cfg.ttlEntry) = true ∧
          b.g.cfg.ttlEntry < chargedWeight b.g id)) ∧
      (b.g.adm.kw.get? id = none → b'.cl[i]? = some (.upTtlDelete id e none) ∧ Act.pre b' (.client i))) := by
  have hi : i < b.cl.length := by
    rcases List.getElem?_eq_some_iff.mp hpc with ⟨hi, _⟩; exact hi
  simp only [stepB, clientAct, hpc] at h
  refine ⟨?_, ?_⟩
  · intro n hn
    simp only [hn, Except.ok.injEq, Prod.mk.injEq] at h; obtain ⟨rfl, rfl⟩ := h
    have hcl : ∀ u, (setClient b i (.upTtlPut id n u)).cl[i]? = some (.upTtlPut id n u) := by
      intro u; simp [setClient, hi]
    refine ⟨hcl _, ?_, ?_⟩
    · intro hsome
      obtain ⟨wk, hk⟩ := Option.isSome_iff_exists.mp hsome
      have hu : (Option.map (· + b.g.cfg.ttlEntry) (Option.map (·.weight) (b.g.adm.kw.get? id))) =
          some (chargedWeight b.g id + b.g.cfg.ttlEntry) := by simp [hk, chargedWeight]
      rw [hu]
      refine ⟨hcl _, ?_⟩
      change clientPre _ (setClient b i (.upTtlPut id n (some (chargedWeight b.g id + b.g.cfg.ttlEntry)))).cl[i]? ↔ _
      rw [hcl]
      simp [clientPre, CPc.pre, uwOk]
    · intro hk
      have hu : (Option.map (· + b.g.cfg.ttlEntry) (Option.map (·.weight) (b.g.adm.kw.get? id))) = none := by
        simp [hk]
      rw [hu]
      refine ⟨hcl _, ?_⟩
      change clientPre _ (setClient b i (.upTtlPut id n none)).cl[i]?
      rw [hcl]
      simp [clientPre, CPc.pre, uwOk]
  · intro e he
    simp only [he, Except.ok.injEq, Prod.mk.injEq] at h; obtain ⟨rfl, rfl⟩ := h
    have hcl : ∀ u, (setClient b i (.upTtlDelete id e u)).cl[i]? = some (.upTtlDelete id e u) := by
      intro u; simp [setClient, hi]
    refine ⟨hcl _, ?_, ?_⟩
    · intro hsome
      obtain ⟨wk, hk⟩ := Option.isSome_iff_exists.mp hsome
      have hu : (Option.map (· - b.g.cfg.ttlEntry) (Option.map (·.weight) (b.g.adm.kw.get? id))) =
          some (chargedWeight b.g id - b.g.cfg.ttlEntry) := by simp [hk, chargedWeight]
      rw [hu]
      refine ⟨hcl _, ?_⟩
      change clientPre _ (setClient b i (.upTtlDelete id e (some (chargedWeight b.g id - b.g.cfg.ttlEntry)))).cl[i]? ↔ _
      rw [hcl]
      simp only [clientPre, CPc.pre, uwOk]
      constructor
      · rintro ⟨h1, h2⟩; exact ⟨h1, by omega⟩
      · rintro ⟨h1, h2⟩; exact ⟨h1, by omega⟩
    · intro hk
      have hu : (Option.map (· - b.g.cfg.ttlEntry) (Option.map (·.weight) (b.g.adm.kw.get? id))) = none := by
        simp [hk]
      rw [hu]
      refine ⟨hcl _, ?_⟩
      change clientPre _ (setClient b i (.upTtlDelete id e none)).cl[i]?
      rw [hcl]
      simp [clientPre, CPc.pre, uwOk]

/-- a stretch of a run in which client `i` does not move: no action of client `i`, no request issued for it -/
inductive OthersRun (i : Nat) : BState → BState → Prop
  | nil (b : BState) : OthersRun i b b
  | cons {b b' b'' : BState} {a : Act} {o o' : Oracle} : a ≠ .client i → (∀ r, a ≠ .issue i r) →
      stepB b a o = .ok (b', o') → OthersRun i b' b'' → OthersRun i b b''

theorem OthersRun.keep_pc {i : Nat} {b b' : BState} (h : OthersRun i b b') : b'.cl[i]? = b.cl[i]? := by
  induction h with
  | nil b => rfl
  | cons h1 h2 hs _ ih => rw [ih, other_threads_keep_pc hs h1 h2]

/-- **The side condition of a time-to-live removal / addition is decided at `upsert.weight_of`, once and for all.**
    Whatever the other threads do after client `i`'s `upsert.weight_of` (any number of actions of any other thread),
    the next action of the call meets `Act.pre` — its assert passes — iff the key id was NOT CHARGED (nothing is
    asserted on, nothing will be sent) or `charge ∓ ttl_ticker_entry_size` was a positive `i64`, IN THE STATE `b` IN
    WHICH `upsert.weight_of` RAN.  What the other threads did BEFORE that action (after the call was issued, after its
    `upsert.update`) matters only through the charge they left: since the fix, taking the id out of the ledger no
    longer makes the call panic (`C17_layerB_race_*_fixed`, `C17_layerB_ttl_only_upsert_safe_under_races`). -/
theorem C17_layerB_weight_decided_at_weight_of {b b' b'' : BState} {i id : Nat} {old new : Option Nat} {o o' : Oracle}
    (hpc : b.cl[i]? = some (.upWeightOf id none old new)) (h : stepB b (.client i) o = .ok (b', o'))
    (hrun : OthersRun i b' b'') :
    (∀ n, typeOfExpiryUpdate old new = .added n →
      ((b.g.adm.kw.get? id).isSome = true →
        (Act.pre b'' (.client i) ↔ inI64 (chargedWeight b.g id + b.g.cfg.ttlEntry) = true ∧
          0 < chargedWeight b.g id + b.g.cfg.ttlEntry)) ∧
      (b.g.adm.kw.get? id = none → b''.cl[i]? = some (.upTtlPut id n none) ∧ Act.pre b'' (.client i))) ∧
    (∀ e, typeOfExpiryUpdate old new = .deleted e →
      ((b.g.adm.kw.get? id).isSome = true →
        (Act.pre b'' (.client i) ↔ inI64 (chargedWeight b.g id - b.g.cfg.ttlEntry) = true ∧
          b.g.cfg.ttlEntry < chargedWeight b.g id)) ∧
      (b.g.adm.kw.get? id = none → b''.cl[i]? = some (.upTtlDelete id e none) ∧ Act.pre b'' (.client i))) := by
  obtain ⟨h1, h2⟩ := C17_layerB_weight_of_computes hpc h
  have hk := hrun.keep_pc
  refine ⟨fun n hn => ⟨fun hs => ?_, fun hnone => ?_⟩, fun e he => ⟨fun hs => ?_, fun hnone => ?_⟩⟩
  · obtain ⟨hcl, _⟩ := (h1 n hn).2.1 hs
    change clientPre b''.g b''.cl[i]? ↔ _
    rw [hk, hcl]
    simp [clientPre, CPc.pre, uwOk]
  · obtain ⟨hcl, _⟩ := (h1 n hn).2.2 hnone
    refine ⟨by rw [hk, hcl], ?_⟩
    change clientPre b''.g b''.cl[i]?
    rw [hk, hcl]
    simp [clientPre, CPc.pre, uwOk]
  · obtain ⟨hcl, _⟩ := (h2 e he).2.1 hs
    change clientPre b''.g b''.cl[i]? ↔ _
    rw [hk, hcl]
    simp only [clientPre, CPc.pre, uwOk]
    constructor
    · rintro ⟨a1, a2⟩; exact ⟨a1, by omega⟩
    · rintro ⟨a1, a2⟩; exact ⟨a1, by omega⟩
  · obtain ⟨hcl, _⟩ := (h2 e he).2.2 hnone
    refine ⟨by rw [hk, hcl], ?_⟩
    change clientPre b''.g b''.cl[i]?
    rw [hk, hcl]
    simp [clientPre, CPc.pre, uwOk]

/-! ## C17, runs -/

/-- a run of Layer B — any interleaving, each action with its own oracle — in which every action meets `Act.pre` in
    the state it runs in -/
inductive ValidRunB : BState → List (Act × Oracle) → BState → Prop
  | nil (b : BState) : ValidRunB b [] b
  | cons {b b' b'' : BState} {a : Act} {o o' : Oracle} {tr : List (Act × Oracle)} :
      a.pre b → stepB b a o = .ok (b', o') → ValidRunB b' tr b'' → ValidRunB b ((a, o) :: tr) b''

/-- **C17 for runs.** Along any such run no caller ever gets a panic and the worker never dies — whatever the
    interleaving of clients, worker, sweeper, consumer and clock. -/
theorem C17_layerB_run_no_panic {b b' : BState} {tr : List (Act × Oracle)} (hr : ValidRunB b tr b')
    (hw : b.w ≠ .dead) (hg : b.g.worker ≠ .dead) (hp : PanicFree b) :
    b'.w ≠ .dead ∧ b'.g.worker ≠ .dead ∧ PanicFree b' := by
  induction hr with
  | nil b => exact ⟨hw, hg, hp⟩
  | cons hpre hstep _ ih =>
    obtain ⟨h1, h2, h3, _⟩ := C17_layerB_step_no_panic hpre hstep
    exact ih (h2 hw) (h3 hg) (h1.panicFree hp)

theorem ValidRunB.reach {cfg : Cfg} {now : Nat} {seeds : List Nat} {clients : Nat} {b b' : BState}
    {tr : List (Act × Oracle)} (hr : ValidRunB b tr b') (h : Reach cfg now seeds clients b) :
    Reach cfg now seeds clients b' := by
  induction hr with
  | nil b => exact h
  | cons _ hstep _ ih => exact ih (.step h hstep)

/-- … from the initial state of a cache (any configuration, any number of clients, any map of keys to store shards):
    the worker is alive, no result is a panic, and the sketch is still well formed at the end of every such run -/
theorem C17_layerB_run_no_panic_init {cfg : Cfg} {now : Nat} {seeds : List Nat} {clients : Nat}
    {shardMap : List (Nat × Nat)} {b' : BState} {tr : List (Act × Oracle)} (hs : seeds ≠ [])
    (hr : ValidRunB { BState.init cfg now seeds clients with storeShard := shardMap } tr b') :
    b'.w ≠ .dead ∧ b'.g.worker ≠ .dead ∧ PanicFree b' ∧ b'.g.lfu.fc.WF ∧ Reach cfg now seeds clients b' := by
  have hreach := hr.reach (Reach.init (cfg := cfg) (now := now) (seeds := seeds) (clients := clients) shardMap)
  obtain ⟨h1, h2, h3⟩ := C17_layerB_run_no_panic hr (by simp [BState.init]) (by simp [BState.init, State.init])
    (by
      intro l hl x hx
      simp only [BState.init, List.mem_replicate] at hl
      rw [hl.2] at hx; cases hx)
  exact ⟨h1, h2, h3, (C17_layerB_no_sketch_panic hs hreach (.advance 0) {}).1, hreach⟩

/-! ## C17, the sweeper and the consumer -/

/-- **The sweeper's and the consumer's actions never panic** — at every state, hence for all interleavings; no
    precondition at all for the sweeper, a well-formed sketch for the consumer.
    * A sweeper action that runs records no result, leaves the worker and the consumer alone, and changes the sweeper's
      own liveness only at `sweep.end` (to the value of its keep-running flag); when it does not run, it is not enabled
      (exited; a lock it needs is held) or the oracle value is illegal — there is no panic site.
    * A consumer action that runs records no result, leaves the worker and the sweeper alone, keeps the sketch well
      formed; it exits only on the `Shutdown` event or with its keep-running flag cleared; when it does not run, it is
      not enabled, the oracle is exhausted / illegal, or the sketch indexed out of bounds — impossible with a
      well-formed sketch. -/
theorem C17_layerB_background_never_panics (b : BState) (o : Oracle) :
    (∀ v b' o', stepB b (.sweeper v) o = .ok (b', o') →
      b'.res = b.res ∧ b'.w = b.w ∧ b'.g.worker = b.g.worker ∧ b'.g.consumerAlive = b.g.consumerAlive ∧
      b'.g.lfu = b.g.lfu ∧
      (b'.g.sweeperAlive = b.g.sweeperAlive ∨ (b.sw = .fin ∧ b'.g.sweeperAlive = b.g.sweeperKeep))) ∧
    (∀ v m, stepB b (.sweeper v) o = .error m →
      m = "not enabled: the sweeper has exited" ∨ m = "oracle: the visited id is missing" ∨
      m = "illegal oracle: the visited id is not an unvisited entry of the shard" ∨
      m = "not enabled: weight_used is locked" ∨ m = "not enabled: the store shard is read-locked") ∧
    (∀ b' o', stepB b .consumer o = .ok (b', o') →
      b'.res = b.res ∧ b'.w = b.w ∧ b'.g.worker = b.g.worker ∧ b'.g.sweeperAlive = b.g.sweeperAlive ∧
      (b'.g.consumerAlive = false → b.g.consumerKeep = false ∨ b.g.bufq.head? = some .shutdown) ∧
      (b.g.lfu.fc.WF → b'.g.lfu.fc.WF)) ∧
    (∀ m, stepB b .consumer o = .error m →
      m = "illegal event: the consumer has exited" ∨ m = "illegal event: the buffer queue is empty" ∨
      m = "oracle: add_if_missing results exhausted" ∨
      m = "illegal oracle: doorkeeper added a hash it already holds" ∨ m = sketchPanic) ∧
    (b.g.lfu.fc.WF → stepB b .consumer o ≠ .error sketchPanic) := by
  refine ⟨?_, ?_, ?_, ?_, fun wf => (step_sketch .consumer o wf).1⟩
  · intro v b' o' h
    simp only [stepB] at h
    split at h
    · rename_i b1 hs
      simp only [Except.ok.injEq, Prod.mk.injEq] at h; obtain ⟨rfl, rfl⟩ := h
      obtain ⟨h1, h2, h3, h4, h5, _, _, _, h9⟩ := strans_bg (sweeperAct_trans hs)
      exact ⟨h1, h2, h3, h4, h5, h9⟩
    · cases h
  · intro v m h
    simp only [stepB] at h
    split at h
    · cases h
    · rename_i m' hm
      simp only [Except.error.injEq] at h; subst h
      exact sweeperAct_error hm
  · intro b' o' h
    simp only [stepB] at h
    split at h
    · rename_i g1 out o1 hc
      simp only [Except.ok.injEq, Prod.mk.injEq] at h; obtain ⟨rfl, rfl⟩ := h
      obtain ⟨h1, h2, _, _, _, h6, _, h8⟩ := consumerStep_bg hc
      exact ⟨rfl, rfl, h1, h2, h6, h8⟩
    · cases h
  · intro m h
    simp only [stepB] at h
    split at h
    · cases h
    · rename_i m' hm
      simp only [Except.error.injEq] at h; subst h
      exact (C17_sweeper_consumer_never_panic b.g o).2.2.2.1 _ hm

/-- who may have told the sweeper / the consumer to exit: only a `shutdown()` that is past its compare-and-swap
    clears a keep-running flag or queues the `Shutdown` event; so all five facts imply that the shutdown flag is set -/
structure ExitInv (b : BState) : Prop where
  sweeperAlive : b.g.sweeperAlive = false → b.g.shutting = true
  consumerAlive : b.g.consumerAlive = false → b.g.shutting = true
  sweeperKeep : b.g.sweeperKeep = false → b.g.shutting = true
  consumerKeep : b.g.consumerKeep = false → b.g.shutting = true
  bufq : BufEvent.shutdown ∈ b.g.bufq → b.g.shutting = true

theorem exitInv_step {b b' : BState} {a : Act} {o o' : Oracle} (hb : BInv b) (he : ExitInv b)
    (h : stepB b a o = .ok (b', o')) : ExitInv b' := by
  have mono := stepB_shutting_mono h
  obtain ⟨e1, e2, e3, e4, e5⟩ := he
  cases a with
  | issue i r =>
    simp only [stepB] at h
    split at h
    · rename_i b1 hi
      simp only [Except.ok.injEq, Prod.mk.injEq] at h; obtain ⟨rfl, rfl⟩ := h
      have hg := (issue_frame hi).2.2
      exact ⟨by rw [hg]; exact e1, by rw [hg]; exact e2, by rw [hg]; exact e3, by rw [hg]; exact e4,
        by rw [hg]; exact e5⟩
    · cases h
  | client i =>
    obtain ⟨pc, hpc, hg⟩ := clientAct_gframe h
    have hac : pc.afterCas = true → b'.g.shutting = true := fun hac => mono (hb.shutFlag i pc hpc hac)
    refine ⟨fun hx => mono (e1 (by rw [← hg.sweeperAlive]; exact hx)),
      fun hx => mono (e2 (by rw [← hg.consumerAlive]; exact hx)), ?_, ?_, ?_⟩
    · intro hx
      rcases hg.sweeperKeep with e | e
      · exact mono (e3 (by rw [← e]; exact hx))
      · exact hac e
    · intro hx
      rcases hg.consumerKeep with e | e
      · exact mono (e4 (by rw [← e]; exact hx))
      · exact hac e
    · intro hx
      rcases hg.bufq hx with e | e
      · exact mono (e5 e)
      · exact hac e
  | worker =>
    obtain ⟨h1, h2, h3, h4, h5⟩ := wtrans_flags (workerAct_trans h)
    exact ⟨fun hx => mono (e1 (by rw [← h1]; exact hx)), fun hx => mono (e2 (by rw [← h2]; exact hx)),
      fun hx => mono (e3 (by rw [← h3]; exact hx)), fun hx => mono (e4 (by rw [← h4]; exact hx)),
      fun hx => mono (e5 (by rw [← h5]; exact hx))⟩
  | sweeper v =>
    simp only [stepB] at h
    split at h
    · rename_i b1 hs
      simp only [Except.ok.injEq, Prod.mk.injEq] at h; obtain ⟨rfl, rfl⟩ := h
      obtain ⟨_, _, _, h4, _, h6, h7, h8, h9⟩ := strans_bg (sweeperAct_trans hs)
      refine ⟨?_, fun hx => mono (e2 (by rw [← h4]; exact hx)), fun hx => mono (e3 (by rw [← h6]; exact hx)),
        fun hx => mono (e4 (by rw [← h7]; exact hx)), fun hx => mono (e5 (by rw [← h8]; exact hx))⟩
      intro hx
      rcases h9 with e | ⟨_, e⟩
      · exact mono (e1 (by rw [← e]; exact hx))
      · exact mono (e3 (by rw [← e]; exact hx))
    · cases h
  | consumer =>
    simp only [stepB] at h
    split at h
    · rename_i g1 out o1 hc
      simp only [Except.ok.injEq, Prod.mk.injEq] at h; obtain ⟨rfl, rfl⟩ := h
      obtain ⟨_, h2, h3, h4, _, h6, h7, _⟩ := consumerStep_bg hc
      refine ⟨fun hx => mono (e1 (by rw [← h2]; exact hx)), ?_, fun hx => mono (e3 (by rw [← h3]; exact hx)),
        fun hx => mono (e4 (by rw [← h4]; exact hx)), fun hx => mono (e5 (h7 _ hx))⟩
      intro hx
      rcases h6 hx with e | e
      · exact mono (e4 e)
      · exact mono (e5 (List.mem_of_mem_head? e))
    · cases h
  | advance d =>
    simp only [stepB, Except.ok.injEq, Prod.mk.injEq] at h; obtain ⟨rfl, rfl⟩ := h
    exact ⟨e1, e2, e3, e4, e5⟩

/-- **The sweeper and the consumer exit only when told to by `shutdown()`**: in every state of every interleaving in
    which one of them has exited (or has been told to: a keep-running flag cleared, a `Shutdown` event queued), some
    client has called `shutdown()` — the shutdown flag is set.  Together with
    `C17_layerB_background_never_panics`: a cache that is not shut down always has both threads alive. -/
theorem C17_layerB_background_exit_only_on_shutdown {cfg : Cfg} {now : Nat} {seeds : List Nat} {clients : Nat}
    {b : BState} (hr : Reach cfg now seeds clients b) : ExitInv b := by
  induction hr with
  | init m => constructor <;> simp [BState.init, State.init]
  | step hr' hstep ih => exact exitInv_step (binv_reach hr') ih hstep

/-! ## Non-vacuity: a concrete interleaved run in which every action meets `Act.pre` -/

/-- runs a list of actions, checking `Act.pre` before each (`Act.pre` is decidable) -/
def validRunB? : BState → List (Act × Oracle) → Option BState
  | b, [] => some b
  | b, (a, o) :: tr =>
    if a.pre b then
      match stepB b a o with
      | .ok (b', _) => validRunB? b' tr
      | .error _ => none
    else none

theorem validRunB?_sound : ∀ (tr : List (Act × Oracle)) {b b' : BState}, validRunB? b tr = some b' → ValidRunB b tr b' := by
  intro tr
  induction tr with
  | nil => intro b b' h; simp only [validRunB?, Option.some.injEq] at h; subst h; exact .nil b
  | cons x tr ih =>
    intro b b' h
    obtain ⟨a, o⟩ := x
    simp only [validRunB?] at h
    split at h
    · rename_i hpre
      split at h
      · rename_i b1 o1 hs
        exact .cons hpre hs (ih h)
      · cases h
    · cases h

/-- actions with the empty oracle -/
def acts (l : List Act) : List (Act × Oracle) := l.map (fun a => (a, {}))

/-- second 3, limit 100, two expiry shards; `n` client threads -/
def c17B (n : Nat) : BState := BState.init c17Cfg 3000000000 [1, 2, 3, 4] n

/-- the same with the limit `i64::MAX` -/
def c17BBig (n : Nat) : BState := BState.init c17BigCfg 3000000000 [1, 2, 3, 4] n

/-- `put_with_weight(_and_ttl)` by client `c`, up to and including its send: five actions -/
def putActs (c k v : Nat) (w : Int) (ttl : Option Nat) : List Act :=
  .issue c (.putW k v w ttl) :: List.replicate 4 (.client c)

/-- Three clients, the worker, the sweeper and the clock interleaved.  Client 0 puts key 1 (weight 29), client 1 puts
    key 2 (weight 30, one second to live); while the worker is busy with the second put client 0 ADDS a time-to-live
    to key 1 (`weight_of` finds 29: `UpdateWeight(1, 53)`), client 2 reads key 1, the sweeper ticks twice (once over
    the empty shard, once visiting key 1); then client 1 REMOVES the time-to-live of key 2 (`weight_of` finds 30:
    `UpdateWeight(2, 6)`), the worker applies both weight updates, client 2 reads the total. -/
def c17RunOk : List (Act × Oracle) :=
  acts [.issue 0 (.putW 1 10 29 none), .issue 1 (.putW 2 20 30 (some 1000000000)),
        .client 0, .client 1, .client 0, .client 1, .client 0, .client 1, .client 0,   -- client 0 has sent Put(1)
        .worker, .worker, .client 1,                                                    -- client 1 has sent PutWithTTL(2)
        .sweeper none, .sweeper none,                                                   -- a tick over the empty shard 1
        .worker, .worker, .worker, .worker,                                             -- key 1 stored, charged 29
        .issue 0 (.upsert 1 none none (some 2000000000) false),                         -- add a time-to-live to key 1
        .client 0, .worker, .client 0, .worker, .worker,
        .issue 2 (.get 1), .client 2, .client 2]
  ++ [(.client 2, { pool := [0] })] ++
  acts [.worker, .worker, .client 0,                                                    -- weight_of: 29 + 24
        .worker, .worker,                                                               -- key 2 stored, charged 30, deadline second 4
        .client 0,                                                                      -- ttl.put (shard 1), tail: 53 > 0
        .sweeper none, .sweeper (some 1),                                               -- a tick visits key 1: not expired
        .client 0,                                                                      -- UpdateWeight(1, 53) sent
        .issue 1 (.upsert 2 none none none true),                                       -- remove the time-to-live of key 2
        .client 1, .client 1, .worker, .sweeper none, .client 1, .worker,               -- weight_of: 30 - 24; key 1 now charged 53
        .client 1, .client 1,                                                           -- ttl.delete, tail: 6 > 0; UpdateWeight(2, 6) sent
        .advance 1000000000, .worker, .worker,
        .issue 2 .weight, .client 2, .client 2]

/-- the check of a run (every action meets `Act.pre`) followed by a check of the state reached -/
def checkRun (b0 : BState) (tr : List (Act × Oracle)) (q : BState → Bool) : Bool :=
  match validRunB? b0 tr with
  | some b => q b
  | none => false

/-- one more action (whether or not it meets `Act.pre`), followed by a check of the state reached -/
def checkStep (b : BState) (a : Act) (o : Oracle) (q : BState → Bool) : Bool :=
  match stepB b a o with
  | .ok (b', _) => q b'
  | .error _ => false

theorem checkRun_sound {b0 : BState} {tr : List (Act × Oracle)} {q : BState → Bool} (h : checkRun b0 tr q = true) :
    ∃ b, ValidRunB b0 tr b ∧ q b = true := by
  unfold checkRun at h
  split at h
  · rename_i b hb; exact ⟨b, validRunB?_sound _ hb, h⟩
  · cases h

theorem checkStep_sound {b : BState} {a : Act} {o : Oracle} {q : BState → Bool} (h : checkStep b a o q = true) :
    ∃ b' o', stepB b a o = .ok (b', o') ∧ q b' = true := by
  unfold checkStep at h
  split at h
  · rename_i b' o' hb; exact ⟨b', o', hb, h⟩
  · cases h

/-- every one of the 52 actions meets `Act.pre` in the state it runs in; at the end key 1 is charged 53 and has a
    deadline, key 2 is charged 6 and has none, all four commands are acknowledged `Accepted`, client 2 has read the
    value 10 and the total 59 — non-vacuity of `C17_layerB_run_no_panic(_init)` (its conclusions hold here by
    evaluation as well) -/
theorem c17RunOk_valid :
    ∃ b, ValidRunB (c17B 3) c17RunOk b ∧ c17RunOk.length = 52 ∧
      b.g.adm.kw = [(2, { key := 2, hash := 2, weight := 6 }), (1, { key := 1, hash := 1, weight := 53 })] ∧
      b.g.adm.used = 59 ∧ b.g.ttl = [((1, 1), 5000000000)] ∧
      b.g.acks = [.accepted, .accepted, .accepted, .accepted] ∧
      b.res = [[.ack 2 .pending, .ack 0 .pending], [.ack 3 .pending, .ack 1 .pending], [.weight 59, .value (some 10)]] ∧
      b.g.store.map (fun p => (p.1, p.2.expiry)) = [(2, none), (1, some 5000000000)] ∧
      b.w = .recv ∧ b.g.worker = .running ∧ b.g.sweeperAlive = true ∧ b.g.consumerAlive = true ∧ PanicFree b := by
  have h : checkRun (c17B 3) c17RunOk (fun b => decide (c17RunOk.length = 52 ∧
      b.g.adm.kw = [(2, { key := 2, hash := 2, weight := 6 }), (1, { key := 1, hash := 1, weight := 53 })] ∧
      b.g.adm.used = 59 ∧ b.g.ttl = [((1, 1), 5000000000)] ∧
      b.g.acks = [.accepted, .accepted, .accepted, .accepted] ∧
      b.res = [[.ack 2 .pending, .ack 0 .pending], [.ack 3 .pending, .ack 1 .pending], [.weight 59, .value (some 10)]] ∧
      b.g.store.map (fun p => (p.1, p.2.expiry)) = [(2, none), (1, some 5000000000)] ∧
      b.w = .recv ∧ b.g.worker = .running ∧ b.g.sweeperAlive = true ∧ b.g.consumerAlive = true ∧ PanicFree b)) = true := by
    decide +kernel
  obtain ⟨b, hv, hq⟩ := checkRun_sound h
  exact ⟨b, hv, of_decide_eq_true hq⟩

/-- the hypotheses of the step theorem are met, NON-TRIVIALLY, along that run: after 31 actions client 0 stands at
    `ttl.put` carrying `29 + 24` and the worker at `store.put` of a put with time-to-live (both side conditions are
    real ones, both actions run); after 41 actions the worker stands at `kw.update` of the charged id 1 -/
example : ∃ b, ValidRunB (c17B 3) (c17RunOk.take 31) b ∧ b.cl[0]? = some (.upTtlPut 1 5000000000 (some 53)) ∧
    (b.w matches .storePut { ttl := some _, .. }) = true ∧ Act.pre b (.client 0) ∧ Act.pre b .worker ∧
    (stepB b (.client 0) {}).toBool = true ∧ (stepB b .worker {}).toBool = true := by
  have h : checkRun (c17B 3) (c17RunOk.take 31) (fun b => decide (b.cl[0]? = some (.upTtlPut 1 5000000000 (some 53)) ∧
      (b.w matches .storePut { ttl := some _, .. }) = true ∧ Act.pre b (.client 0) ∧ Act.pre b .worker ∧
      (stepB b (.client 0) {}).toBool = true ∧ (stepB b .worker {}).toBool = true)) = true := by decide +kernel
  obtain ⟨b, hv, hq⟩ := checkRun_sound h
  exact ⟨b, hv, of_decide_eq_true hq⟩

example : ∃ b, ValidRunB (c17B 3) (c17RunOk.take 41) b ∧ b.w = .update 1 53 (some 2) ∧
    b.g.adm.kw.get? 1 = some { key := 1, hash := 1, weight := 29 } ∧ Act.pre b .worker ∧
    (stepB b .worker {}).toBool = true := by
  have h : checkRun (c17B 3) (c17RunOk.take 41) (fun b => decide (b.w = .update 1 53 (some 2) ∧
      b.g.adm.kw.get? 1 = some { key := 1, hash := 1, weight := 29 } ∧ Act.pre b .worker ∧
      (stepB b .worker {}).toBool = true)) = true := by decide +kernel
  obtain ⟨b, hv, hq⟩ := checkRun_sound h
  exact ⟨b, hv, of_decide_eq_true hq⟩

/-- the hypothesis of `C17_layerB_weight_of_computes` is met along that run (after 30 actions client 0 stands at
    `upsert.weight_of` of a request without weight and value that adds a time-to-live, the key id is charged), and the
    local it hands on is the `29 + 24` the theorem says -/
example : ∃ b, ValidRunB (c17B 3) (c17RunOk.take 30) b ∧
    b.cl[0]? = some (.upWeightOf 1 none none (some 5000000000)) ∧
    typeOfExpiryUpdate none (some 5000000000) = .added 5000000000 ∧
    (b.g.adm.kw.get? 1).isSome = true ∧ chargedWeight? b.g 1 = some 29 ∧
    chargedWeight b.g 1 + b.g.cfg.ttlEntry = 53 := by
  have h : checkRun (c17B 3) (c17RunOk.take 30) (fun b => decide (
      b.cl[0]? = some (.upWeightOf 1 none none (some 5000000000)) ∧
      typeOfExpiryUpdate none (some 5000000000) = .added 5000000000 ∧
      (b.g.adm.kw.get? 1).isSome = true ∧ chargedWeight? b.g 1 = some 29 ∧
      chargedWeight b.g 1 + b.g.cfg.ttlEntry = 53)) = true := by decide +kernel
  obtain ⟨b, hv, hq⟩ := checkRun_sound h
  exact ⟨b, hv, of_decide_eq_true hq⟩

/-- … and its other branch — the key id is NOT charged when `upsert.weight_of` runs — on the run of
    `C17_layerB_race_delete_fixed` (below): a time-to-live is removed, client 1's `delete(1)` has been executed up to
    `kw.remove`; `upsert.weight_of` runs and hands on no weight -/
example : ∃ b b' o', ValidRunB (c17B 2)
      (acts (putActs 0 1 10 29 (some 1000000000) ++ List.replicate 7 .worker ++
        [.issue 0 (.upsert 1 none none none true), .client 0, .client 0, .issue 1 (.delete 1), .client 1, .client 1,
         .client 1, .worker, .worker, .worker])) b ∧
    b.cl[0]? = some (.upWeightOf 1 none (some 4000000000) none) ∧
    typeOfExpiryUpdate (some 4000000000) none = .deleted 4000000000 ∧
    b.g.adm.kw.get? 1 = none ∧ chargedWeight? b.g 1 = none ∧
    stepB b (.client 0) {} = .ok (b', o') ∧ b'.cl[0]? = some (.upTtlDelete 1 4000000000 none) ∧
    Act.pre b' (.client 0) := by
  have h : checkRun (c17B 2)
      (acts (putActs 0 1 10 29 (some 1000000000) ++ List.replicate 7 .worker ++
        [.issue 0 (.upsert 1 none none none true), .client 0, .client 0, .issue 1 (.delete 1), .client 1, .client 1,
         .client 1, .worker, .worker, .worker]))
      (fun b => decide (b.cl[0]? = some (.upWeightOf 1 none (some 4000000000) none) ∧
          typeOfExpiryUpdate (some 4000000000) none = .deleted 4000000000 ∧
          b.g.adm.kw.get? 1 = none ∧ chargedWeight? b.g 1 = none) &&
        checkStep b (.client 0) {} (fun b' => decide (b'.cl[0]? = some (.upTtlDelete 1 4000000000 none) ∧
          Act.pre b' (.client 0)))) = true := by decide +kernel
  obtain ⟨b, hv, hq⟩ := checkRun_sound h
  simp only [Bool.and_eq_true, decide_eq_true_eq] at hq
  obtain ⟨b', o', hs, hq'⟩ := checkStep_sound hq.2
  obtain ⟨g1, g2, g3, g4⟩ := hq.1
  have hq'' := of_decide_eq_true hq'
  exact ⟨b, b', o', hv, g1, g2, g3, g4, hs, hq''.1, hq''.2⟩

/-- … and so are those of `C17_layerB_weight_decided_at_weight_of`: client 0's `upsert.weight_of` runs, then the worker
    moves twice (`store.put`, `ttl.put` of key 2) while client 0 stands still -/
example : ∃ b b' b'' o', ValidRunB (c17B 3) (c17RunOk.take 30) b ∧
    b.cl[0]? = some (.upWeightOf 1 none none (some 5000000000)) ∧ stepB b (.client 0) {} = .ok (b', o') ∧
    OthersRun 0 b' b'' ∧ b''.w = .recv ∧ b''.g.ttl = [((0, 2), 4000000000)] := by
  have h : checkRun (c17B 3) (c17RunOk.take 30) (fun b =>
      decide (b.cl[0]? = some (.upWeightOf 1 none none (some 5000000000))) &&
      checkStep b (.client 0) {} (fun b' => checkStep b' .worker {} (fun b1 => checkStep b1 .worker {} (fun b'' =>
        decide (b''.w = .recv ∧ b''.g.ttl = [((0, 2), 4000000000)]))))) = true := by decide +kernel
  obtain ⟨b, hv, hq⟩ := checkRun_sound h
  simp only [Bool.and_eq_true, decide_eq_true_eq] at hq
  obtain ⟨b', o', hs, hq'⟩ := checkStep_sound hq.2
  obtain ⟨b1, o1, hs1, hq1⟩ := checkStep_sound hq'
  obtain ⟨b'', o2, hs2, hq2⟩ := checkStep_sound hq1
  exact ⟨b, b', b'', o', hv, hq.1, hs,
    .cons (by intro e; cases e) (by intro r e; cases e) hs1 (.cons (by intro e; cases e) (by intro r e; cases e) hs2 (.nil _)),
    of_decide_eq_true hq2⟩

/-- Non-vacuity of the consumer part of `C17_layerB_background_never_panics` / `C17_layerB_step_no_panic`: three reads
    of key 1 fill client 2's access buffer (size 2) and hand it to the consumer; the consumer's action runs (the sketch
    is well formed), counts the two accesses — which, `counters = 2`, ages the sketch at once —, stays alive. -/
example : ∃ b b' o', ValidRunB (c17B 3)
      (c17RunOk ++ acts [.issue 2 (.get 1), .client 2, .client 2] ++ [(.client 2, { pool := [0] })] ++
        acts [.issue 2 (.get 1), .client 2, .client 2] ++ [(.client 2, { pool := [0] })]) b ∧
    b.g.bufq = [.full [1, 1]] ∧ Act.pre b .consumer ∧
    stepB b .consumer { dkAdd := [true, false] } = .ok (b', o') ∧ b'.g.bufq = [] ∧ b'.g.consumerAlive = true ∧
    b'.g.lfu.dk = [] ∧ b'.g.lfu.incs = 0 ∧ b.g.lfu.resetAt = 2 := by
  have h : checkRun (c17B 3)
      (c17RunOk ++ acts [.issue 2 (.get 1), .client 2, .client 2] ++ [(.client 2, { pool := [0] })] ++
        acts [.issue 2 (.get 1), .client 2, .client 2] ++ [(.client 2, { pool := [0] })])
      (fun b => decide (b.g.bufq = [.full [1, 1]] ∧ Act.pre b .consumer) &&
        checkStep b .consumer { dkAdd := [true, false] } (fun b' => decide (b'.g.bufq = [] ∧
          b'.g.consumerAlive = true ∧ b'.g.lfu.dk = [] ∧ b'.g.lfu.incs = 0 ∧ b.g.lfu.resetAt = 2))) = true := by decide +kernel
  obtain ⟨b, hv, hq⟩ := checkRun_sound h
  simp only [Bool.and_eq_true, decide_eq_true_eq] at hq
  obtain ⟨b', o', hs, hq'⟩ := checkStep_sound hq.2
  exact ⟨b, b', o', hv, hq.1.1, hq.1.2, hs, of_decide_eq_true hq'⟩

/-- Non-vacuity of `C17_layerB_background_exit_only_on_shutdown`: after a complete `shutdown()` (twelve actions of the
    caller) one tick of the sweeper and one action of the consumer make both exit — every action meets `Act.pre`,
    the flag is set, the worker is alive (it has not even received `Shutdown` yet). -/
example : ∃ b, ValidRunB (c17B 1)
      (acts (.issue 0 .shutdown :: List.replicate 12 (.client 0) ++ [.sweeper none, .sweeper none, .consumer])) b ∧
    b.g.sweeperAlive = false ∧ b.g.consumerAlive = false ∧ b.g.shutting = true ∧ b.res = [[.none]] ∧
    b.w = .recv ∧ b.g.worker = .running := by
  have h : checkRun (c17B 1)
      (acts (.issue 0 .shutdown :: List.replicate 12 (.client 0) ++ [.sweeper none, .sweeper none, .consumer]))
      (fun b => decide (b.g.sweeperAlive = false ∧ b.g.consumerAlive = false ∧ b.g.shutting = true ∧
        b.res = [[.none]] ∧ b.w = .recv ∧ b.g.worker = .running)) = true := by decide +kernel
  obtain ⟨b, hv, hq⟩ := checkRun_sound h
  exact ⟨b, hv, of_decide_eq_true hq⟩

/-! ## Every clause is needed: one reachable witness per side condition

  Each state `b` below is reached from the initial state by a run in which EVERY action meets `Act.pre`
  (`ValidRunB`: API calls with valid arguments, worker actions that meet their side condition); at `b` exactly the
  clause in question fails, and the action panics in the caller / kills the worker.  (By
  `C17_layerB_pre_necessary` this is so at every state where a clause fails; these are the reachable witnesses, the
  Layer B counterparts of the five counterexamples of Layer A.) -/

/-- a time-to-live no clock can be added to (`Duration::MAX`) -/
def c17Huge : Nat := 18446744073709551615999999999

/-- **`ttl.delete`, tail weight positive** (Layer A: `C17_counterexample_ttl_removal`).  Key 1 charged 5 with a
    time-to-live; `put_or_update(1).remove_time_to_live()`: `upsert.weight_of` computes `5 - 24`, and the tail of the
    call, in the `ttl.delete` action, hits `assert!(weight > 0)` — after the entry's deadline (at `upsert.update`) and
    its expiry-index entry (in this very action) were removed; the key stays charged 5. -/
theorem C17_layerB_counterexample_ttl_removal :
    ∃ b b' o', ValidRunB (c17B 2)
        (acts (putActs 0 1 10 5 (some 1000000000) ++ List.replicate 7 .worker ++
          .issue 0 (.upsert 1 none none none true) :: List.replicate 3 (.client 0))) b ∧
      b.cl[0]? = some (.upTtlDelete 1 4000000000 (some (-19))) ∧ ¬ Act.pre b (.client 0) ∧
      stepB b (.client 0) {} = .ok (b', o') ∧
      b'.res[0]? = some [.panic .weightNotPositive, .ack 0 .pending] ∧ ¬ PanicFree b' ∧
      b'.g.store.get? 1 = some { value := 10, id := 1, expiry := none, soft := false } ∧ b'.g.ttl = [] ∧
      b'.g.adm.kw.get? 1 = some { key := 1, hash := 1, weight := 5 } := by
  have h : checkRun (c17B 2) (acts (putActs 0 1 10 5 (some 1000000000) ++ List.replicate 7 .worker ++
        .issue 0 (.upsert 1 none none none true) :: List.replicate 3 (.client 0)))
      (fun b => decide (b.cl[0]? = some (.upTtlDelete 1 4000000000 (some (-19))) ∧ ¬ Act.pre b (.client 0)) &&
        checkStep b (.client 0) {} (fun b' => decide (
          b'.res[0]? = some [.panic .weightNotPositive, .ack 0 .pending] ∧ ¬ PanicFree b' ∧
          b'.g.store.get? 1 = some { value := 10, id := 1, expiry := none, soft := false } ∧ b'.g.ttl = [] ∧
          b'.g.adm.kw.get? 1 = some { key := 1, hash := 1, weight := 5 }))) = true := by decide +kernel
  obtain ⟨b, hv, hq⟩ := checkRun_sound h
  simp only [Bool.and_eq_true, decide_eq_true_eq] at hq
  obtain ⟨b', o', hs, hq'⟩ := checkStep_sound hq.2
  exact ⟨b, b', o', hv, hq.1.1, hq.1.2, hs, of_decide_eq_true hq'⟩

/-- **`upsert.update`, `now + ttl` representable** (Layer A: `C17_counterexample_time_overflow_caller`).
    `put_or_update(1).time_to_live(Duration::MAX)` on a present key panics in the caller at `upsert.update`. -/
theorem C17_layerB_counterexample_time_overflow_caller :
    ∃ b b' o', ValidRunB (c17B 2)
        (acts (putActs 0 1 10 5 (some 1000000000) ++ List.replicate 7 .worker ++
          [.issue 0 (.upsert 1 none none (some c17Huge) false), .client 0])) b ∧
      b.cl[0]? = some (.upUpdate 1 none none (some c17Huge) false) ∧ ¬ Act.pre b (.client 0) ∧
      stepB b (.client 0) {} = .ok (b', o') ∧ b'.res[0]? = some [.panic .timeOverflow, .ack 0 .pending] := by
  have h : checkRun (c17B 2) (acts (putActs 0 1 10 5 (some 1000000000) ++ List.replicate 7 .worker ++
        [.issue 0 (.upsert 1 none none (some c17Huge) false), .client 0]))
      (fun b => decide (b.cl[0]? = some (.upUpdate 1 none none (some c17Huge) false) ∧ ¬ Act.pre b (.client 0)) &&
        checkStep b (.client 0) {} (fun b' => decide (
          b'.res[0]? = some [.panic .timeOverflow, .ack 0 .pending]))) = true := by decide +kernel
  obtain ⟨b, hv, hq⟩ := checkRun_sound h
  simp only [Bool.and_eq_true, decide_eq_true_eq] at hq
  obtain ⟨b', o', hs, hq'⟩ := checkStep_sound hq.2
  exact ⟨b, b', o', hv, hq.1.1, hq.1.2, hs, of_decide_eq_true hq'⟩

/-- **`ttl.put`, tail weight an `i64`** (Layer A: `C17_counterexample_weight_overflow_caller`).  Key 1 charged
    `i64::MAX - 10`; adding a time-to-live computes `(i64::MAX - 10) + 24` at `upsert.weight_of`, and the tail of the
    call, in the `ttl.put` action, overflows — after the deadline and the expiry-index entry were written. -/
theorem C17_layerB_counterexample_weight_overflow_caller :
    ∃ b b' o', ValidRunB (c17BBig 2)
        (acts (putActs 0 1 10 9223372036854775797 none ++ List.replicate 6 .worker ++
          .issue 0 (.upsert 1 none none (some 1000000000) false) :: List.replicate 3 (.client 0))) b ∧
      b.cl[0]? = some (.upTtlPut 1 4000000000 (some 9223372036854775821)) ∧ ¬ Act.pre b (.client 0) ∧
      stepB b (.client 0) {} = .ok (b', o') ∧ b'.res[0]? = some [.panic .weightOverflow, .ack 0 .pending] ∧
      b'.g.store.get? 1 = some { value := 10, id := 1, expiry := some 4000000000, soft := false } ∧
      b'.g.ttl = [((0, 1), 4000000000)] := by
  have h : checkRun (c17BBig 2) (acts (putActs 0 1 10 9223372036854775797 none ++ List.replicate 6 .worker ++
        .issue 0 (.upsert 1 none none (some 1000000000) false) :: List.replicate 3 (.client 0)))
      (fun b => decide (b.cl[0]? = some (.upTtlPut 1 4000000000 (some 9223372036854775821)) ∧
          ¬ Act.pre b (.client 0)) &&
        checkStep b (.client 0) {} (fun b' => decide (
          b'.res[0]? = some [.panic .weightOverflow, .ack 0 .pending] ∧
          b'.g.store.get? 1 = some { value := 10, id := 1, expiry := some 4000000000, soft := false } ∧
          b'.g.ttl = [((0, 1), 4000000000)]))) = true := by decide +kernel
  obtain ⟨b, hv, hq⟩ := checkRun_sound h
  simp only [Bool.and_eq_true, decide_eq_true_eq] at hq
  obtain ⟨b', o', hs, hq'⟩ := checkStep_sound hq.2
  exact ⟨b, b', o', hv, hq.1.1, hq.1.2, hs, of_decide_eq_true hq'⟩

/-- **`store.put`, `now + ttl` representable at the worker's clock** (Layer A:
    `C17_counterexample_worker_time_overflow`).  `put_with_weight_and_ttl(1, 10, 5, Duration::MAX)` is accepted by the
    caller and queued; the worker lets the key in (weight 5 charged), then panics at `store.put`: it is dead, the
    acknowledgement stays pending for ever, the weight stays charged although no entry was stored; the next
    `put_with_weight` of another client gets `Err`. -/
theorem C17_layerB_counterexample_worker_time_overflow :
    ∃ b b' o', ValidRunB (c17B 2) (acts (putActs 0 1 10 5 (some c17Huge) ++ List.replicate 5 .worker)) b ∧
      (b.w matches .storePut _) = true ∧ ¬ Act.pre b .worker ∧
      stepB b .worker {} = .ok (b', o') ∧ b'.w = .dead ∧ b'.g.worker = .dead ∧ b'.g.acks[0]? = some .pending ∧
      b'.g.adm.kw.get? 1 = some { key := 1, hash := 1, weight := 5 } ∧ b'.g.adm.used = 5 ∧ b'.g.store.get? 1 = none ∧
      PanicFree b' ∧
      ∃ b'', ValidRunB b' (acts (putActs 1 2 20 5 none)) b'' ∧ b''.res[1]? = some [.err] := by
  have h : checkRun (c17B 2) (acts (putActs 0 1 10 5 (some c17Huge) ++ List.replicate 5 .worker))
      (fun b => decide ((b.w matches .storePut _) = true ∧ ¬ Act.pre b .worker) &&
        checkStep b .worker {} (fun b' => decide (b'.w = .dead ∧ b'.g.worker = .dead ∧ b'.g.acks[0]? = some .pending ∧
          b'.g.adm.kw.get? 1 = some { key := 1, hash := 1, weight := 5 } ∧ b'.g.adm.used = 5 ∧
          b'.g.store.get? 1 = none ∧ PanicFree b') &&
          checkRun b' (acts (putActs 1 2 20 5 none)) (fun b'' => decide (b''.res[1]? = some [.err])))) = true := by
    decide +kernel
  obtain ⟨b, hv, hq⟩ := checkRun_sound h
  simp only [Bool.and_eq_true, decide_eq_true_eq] at hq
  obtain ⟨b', o', hs, hq'⟩ := checkStep_sound hq.2
  simp only [Bool.and_eq_true, decide_eq_true_eq] at hq'
  obtain ⟨b'', hv'', hq''⟩ := checkRun_sound hq'.2
  obtain ⟨h1, h2, h3, h4, h5, h6, h7⟩ := hq'.1
  exact ⟨b, b', o', hv, hq.1.1, hq.1.2, hs, h1, h2, h3, h4, h5, h6, h7, b'', hv'', of_decide_eq_true hq''⟩

/-- **`kw.update`, the `i64` arithmetic** (Layer A: `C17_counterexample_worker_weight_overflow`; boundary only).
    Key 1 charged `i64::MAX - 10`, key 2 charged 5, `put_or_update(2).weight(100)` (valid: positive): the running total
    `i64::MAX - 5 + 95` overflows in the worker at `kw.update`: it is dead, the acknowledgement stays pending. -/
theorem C17_layerB_counterexample_worker_weight_overflow :
    ∃ b b' o', ValidRunB (c17BBig 2)
        (acts (putActs 0 1 10 9223372036854775797 none ++ List.replicate 6 .worker ++ putActs 0 2 20 5 none ++
          List.replicate 6 .worker ++ .issue 0 (.upsert 2 none (some 100) none false) :: List.replicate 4 (.client 0) ++
          [.worker])) b ∧
      b.w = .update 2 100 (some 2) ∧ ¬ Act.pre b .worker ∧
      stepB b .worker {} = .ok (b', o') ∧ b'.w = .dead ∧ b'.g.worker = .dead ∧ b'.g.acks[2]? = some .pending := by
  have h : checkRun (c17BBig 2)
      (acts (putActs 0 1 10 9223372036854775797 none ++ List.replicate 6 .worker ++ putActs 0 2 20 5 none ++
        List.replicate 6 .worker ++ .issue 0 (.upsert 2 none (some 100) none false) :: List.replicate 4 (.client 0) ++
        [.worker]))
      (fun b => decide (b.w = .update 2 100 (some 2) ∧ ¬ Act.pre b .worker) &&
        checkStep b .worker {} (fun b' => decide (b'.w = .dead ∧ b'.g.worker = .dead ∧
          b'.g.acks[2]? = some .pending))) = true := by decide +kernel
  obtain ⟨b, hv, hq⟩ := checkRun_sound h
  simp only [Bool.and_eq_true, decide_eq_true_eq] at hq
  obtain ⟨b', o', hs, hq'⟩ := checkStep_sound hq.2
  exact ⟨b, b', o', hv, hq.1.1, hq.1.2, hs, of_decide_eq_true hq'⟩

/-- **The `wu.space` clause needs a NEGATIVE total.**  `is_space_available_for` computes `max_weight - weight_used` in `i64`.
    With the total not negative — total and limit being `i64`s (they are: `Weight = i64`), the limit not negative (Layer G:
    `0 < total_cache_weight`) — the difference lies in `[-i64::MAX, i64::MAX]`: the side condition of the three `wu.space`
    positions holds, and a worker standing at one of them survives its action, in EVERY state `b` (no invariant, any
    interleaving before and after).  So the panic of `cache_weight.rs:222` is reachable only from a state whose total is
    below zero. -/
theorem C17_layerB_space_overflow_needs_negative_total {b : BState} (h0 : 0 ≤ b.g.adm.used)
    (hu : b.g.adm.used ≤ i64Max) (hm0 : 0 ≤ b.g.adm.max) (hm : b.g.adm.max ≤ i64Max) :
    b.g.adm.spaceOverflow = false ∧
    (∀ c, WPc.pre b.g (.space0 c)) ∧ (∀ c e s, WPc.pre b.g (.evSpace c e s)) ∧ (∀ c, WPc.pre b.g (.emptySpace c)) ∧
    (((∃ c, b.w = .space0 c) ∨ (∃ c e s, b.w = .evSpace c e s) ∨ (∃ c, b.w = .emptySpace c)) →
      Act.pre b .worker ∧ ∀ b' o o', stepB b .worker o = .ok (b', o') → b'.w ≠ .dead ∧ b'.g.worker = b.g.worker) := by
  have hno : b.g.adm.spaceOverflow = false := Adm.spaceOverflow_false h0 hu hm0 hm
  refine ⟨hno, fun _ => hno, fun _ _ _ => hno, fun _ => hno, ?_⟩
  intro hpos
  refine ⟨?_, ?_⟩
  · show b.w.pre b.g
    rcases hpos with ⟨c, hw⟩ | ⟨c, e, s, hw⟩ | ⟨c, hw⟩ <;> (rw [hw]; exact hno)
  · intro b' o o' hs
    rcases workerAct_wuSpace hpos (show workerAct b o = .ok (b', o') from hs) with ⟨_, h1, h2⟩ | ⟨h1, _⟩
    · exact ⟨h1, h2⟩
    · rw [hno] at h1; cases h1

/-- … and conversely: under an `i64` limit that is not negative, a total that is an `i64` and makes the subtraction
    overflow IS negative (and then the enabled worker at a `wu.space` position dies: `C17_layerB_pre_necessary`). -/
theorem C17_layerB_space_overflow_total_negative {b : BState} (hov : b.g.adm.spaceOverflow = true)
    (hu : b.g.adm.used ≤ i64Max) (hm0 : 0 ≤ b.g.adm.max) (hm : b.g.adm.max ≤ i64Max) : b.g.adm.used < 0 :=
  Adm.neg_of_spaceOverflow hov hu hm0 hm

/-- **While `shutdown()` has not been called the `wu.space` clause holds at every reachable state of every interleaving**
    (configured limit a non-negative `i64`, total an `i64`): the total is never negative there (`C01_layerB_nonneg`: the
    accounting identity, which `shutdown()` voids — known finding D10, `layerB_negative_after_shutdown`).  A worker death
    at `wu.space` is therefore a CONSEQUENCE of D10 and of nothing else. -/
theorem C17_layerB_space_overflow_only_after_shutdown {cfg : Cfg} {now : Nat} {seeds : List Nat} {clients : Nat}
    {b : BState} (hr : Reach cfg now seeds clients b) (hc0 : 0 ≤ cfg.maxWeight) (hcI : cfg.maxWeight ≤ i64Max)
    (hu : b.g.adm.used ≤ i64Max) :
    (b.g.shutting = false → b.g.adm.spaceOverflow = false) ∧
    (b.g.adm.spaceOverflow = true → b.g.shutting = true ∧ b.g.adm.used < 0) := by
  have hmx : b.g.adm.max = cfg.maxWeight := by rw [(binv_reach hr).maxFixed, reach_cfg hr]
  have hno : b.g.shutting = false → b.g.adm.spaceOverflow = false := fun hrun =>
    Adm.spaceOverflow_false (C01_layerB_nonneg hr hrun) hu (by rw [hmx]; exact hc0) (by rw [hmx]; exact hcI)
  refine ⟨hno, fun hov => ⟨?_, Adm.neg_of_spaceOverflow hov hu (by rw [hmx]; exact hc0) (by rw [hmx]; exact hcI)⟩⟩
  cases hsh : b.g.shutting with
  | true => rfl
  | false => rw [hno hsh] at hov; cases hov

/-- the schedule of `corpus/C17_D10_space_overflow.in`, first case (replayed action by action on the crate), up to the
    worker's first `wu.space` of the second put: limit `i64::MAX`; key 1 put with weight 3 and stored; `delete(1)` executed
    up to just before its `wu.sub`; `put_with_weight(2, 1)` queued; `shutdown()` run to its end by the other client (it
    zeroes `weight_used`); the worker finishes the delete (total −3) and takes the put up to `wu.space` -/
def spaceOverflowPrefix : List (Act × Oracle) :=
  acts (putActs 0 1 100 3 none ++ List.replicate 6 .worker ++
    .issue 0 (.delete 1) :: List.replicate 3 (.client 0) ++ List.replicate 3 .worker ++
    putActs 0 2 101 1 none ++
    .issue 1 .shutdown :: List.replicate 12 (.client 1) ++ List.replicate 3 .worker)

/-- **`wu.space`, the `i64` subtraction** (the consequence of known finding D10; `cache_weight.rs:222`).  Every action of
    the prefix meets `Act.pre`; then the worker stands at the first `wu.space` of `put_with_weight(2, 1)` with the total at
    −3 under the limit `i64::MAX`, `shutdown()` having returned: `i64::MAX − (−3)` is not an `i64`, the side condition
    fails, and the worker's action kills it — the put's acknowledgement stays pending for ever, the total stays −3. -/
theorem C17_layerB_counterexample_space_overflow :
    ∃ b b' o', ValidRunB (c17BBig 2) spaceOverflowPrefix b ∧
      (b.w matches .space0 _) = true ∧ b.g.adm.max = i64Max ∧ b.g.adm.used = -3 ∧ b.g.shutting = true ∧
      b.g.adm.spaceOverflow = true ∧ ¬ Act.pre b .worker ∧
      stepB b .worker {} = .ok (b', o') ∧ b'.w = .dead ∧ b'.g.worker = .dead ∧ b'.g.adm.used = -3 ∧
      b'.g.acks = [.accepted, .accepted, .pending] ∧ b'.g.store = [] ∧ PanicFree b' := by
  have h : checkRun (c17BBig 2) spaceOverflowPrefix
      (fun b => decide ((b.w matches .space0 _) = true ∧ b.g.adm.max = i64Max ∧ b.g.adm.used = -3 ∧
          b.g.shutting = true ∧ b.g.adm.spaceOverflow = true ∧ ¬ Act.pre b .worker) &&
        checkStep b .worker {} (fun b' => decide (b'.w = .dead ∧ b'.g.worker = .dead ∧ b'.g.adm.used = -3 ∧
          b'.g.acks = [.accepted, .accepted, .pending] ∧ b'.g.store = [] ∧ PanicFree b'))) = true := by
    decide +kernel
  obtain ⟨b, hv, hq⟩ := checkRun_sound h
  simp only [Bool.and_eq_true, decide_eq_true_eq] at hq
  obtain ⟨b', o', hs, hq'⟩ := checkStep_sound hq.2
  obtain ⟨h1, h2, h3, h4, h5, h6⟩ := hq.1
  obtain ⟨g1, g2, g3, g4, g5, g6⟩ := of_decide_eq_true hq'
  exact ⟨b, b', o', hv, h1, h2, h3, h4, h5, h6, hs, g1, g2, g3, g4, g5, g6⟩

/-- **The documented preconditions.**
    (1) `put_with_weight(1, 10, 0)`: the request is not well formed (`Act.pre` fails at `issue`), and the first action of
        the call panics (`Act.pre` fails at `start` as well);
    (2) `put_or_update(1).weight(5)` without a value, key 1 absent: well formed, the panic is at `upsert.update`;
    (3) `put_or_update(1).weight(i64::MAX + 1)` on the present key 1 (positive: well formed; Layer A's clause (f)):
        no change of the expiry index, the tail runs in the `upsert.weight_of` action and `try_into` fails there;
    (4) the same with a new time-to-live for a key that has one: the tail runs in the `ttl.update.insert` action. -/
theorem C17_layerB_counterexample_documented :
    (¬ Act.pre (c17B 2) (.issue 0 (.putW 1 10 0 none)) ∧
      ∃ b b' o', stepB (c17B 2) (.issue 0 (.putW 1 10 0 none)) {} = .ok (b, {}) ∧ ¬ Act.pre b (.client 0) ∧
        stepB b (.client 0) {} = .ok (b', o') ∧ b'.res[0]? = some [.panic .weightNotPositive]) ∧
    (∃ b b' o', ValidRunB (c17B 2) (acts [.issue 0 (.upsert 1 none (some 5) none false), .client 0]) b ∧
      ¬ Act.pre b (.client 0) ∧ stepB b (.client 0) {} = .ok (b', o') ∧
      b'.res[0]? = some [.panic .upsertValueMissing]) ∧
    (∃ b b' o', ValidRunB (c17B 2) (acts (putActs 0 1 10 5 none ++ List.replicate 6 .worker ++
        .issue 0 (.upsert 1 none (some 9223372036854775808) none false) :: List.replicate 2 (.client 0))) b ∧
      b.cl[0]? = some (.upWeightOf 1 (some 9223372036854775808) none none) ∧ ¬ Act.pre b (.client 0) ∧
      stepB b (.client 0) {} = .ok (b', o') ∧ b'.res[0]? = some [.panic .weightOverflow, .ack 0 .pending]) ∧
    (∃ b b' o', ValidRunB (c17B 2) (acts (putActs 0 1 10 5 (some 1000000000) ++ List.replicate 7 .worker ++
        .issue 0 (.upsert 1 none (some 9223372036854775808) (some 2000000000) false) :: List.replicate 4 (.client 0))) b ∧
      b.cl[0]? = some (.upTtlInsert 1 5000000000 (some 9223372036854775808)) ∧ ¬ Act.pre b (.client 0) ∧
      stepB b (.client 0) {} = .ok (b', o') ∧ b'.res[0]? = some [.panic .weightOverflow, .ack 0 .pending]) := by
  refine ⟨⟨by decide, ?_⟩, ?_, ?_, ?_⟩
  · have h : checkStep (c17B 2) (.issue 0 (.putW 1 10 0 none)) {} (fun b => decide (¬ Act.pre b (.client 0)) &&
        checkStep b (.client 0) {} (fun b' => decide (b'.res[0]? = some [.panic .weightNotPositive]))) = true := by
      decide +kernel
    obtain ⟨b, o1, hs, hq⟩ := checkStep_sound h
    simp only [Bool.and_eq_true, decide_eq_true_eq] at hq
    obtain ⟨b', o', hs', hq'⟩ := checkStep_sound hq.2
    have ho : o1 = {} := by
      simp only [stepB] at hs
      split at hs
      · simp only [Except.ok.injEq, Prod.mk.injEq] at hs; exact hs.2.symm
      · cases hs
    subst ho
    exact ⟨b, b', o', hs, hq.1, hs', of_decide_eq_true hq'⟩
  · have h : checkRun (c17B 2) (acts [.issue 0 (.upsert 1 none (some 5) none false), .client 0])
        (fun b => decide (¬ Act.pre b (.client 0)) &&
          checkStep b (.client 0) {} (fun b' => decide (b'.res[0]? = some [.panic .upsertValueMissing]))) = true := by
      decide +kernel
    obtain ⟨b, hv, hq⟩ := checkRun_sound h
    simp only [Bool.and_eq_true, decide_eq_true_eq] at hq
    obtain ⟨b', o', hs, hq'⟩ := checkStep_sound hq.2
    exact ⟨b, b', o', hv, hq.1, hs, of_decide_eq_true hq'⟩
  · have h : checkRun (c17B 2) (acts (putActs 0 1 10 5 none ++ List.replicate 6 .worker ++
          .issue 0 (.upsert 1 none (some 9223372036854775808) none false) :: List.replicate 2 (.client 0)))
        (fun b => decide (b.cl[0]? = some (.upWeightOf 1 (some 9223372036854775808) none none) ∧
            ¬ Act.pre b (.client 0)) &&
          checkStep b (.client 0) {} (fun b' => decide (
            b'.res[0]? = some [.panic .weightOverflow, .ack 0 .pending]))) = true := by decide +kernel
    obtain ⟨b, hv, hq⟩ := checkRun_sound h
    simp only [Bool.and_eq_true, decide_eq_true_eq] at hq
    obtain ⟨b', o', hs, hq'⟩ := checkStep_sound hq.2
    exact ⟨b, b', o', hv, hq.1.1, hq.1.2, hs, of_decide_eq_true hq'⟩
  · have h : checkRun (c17B 2) (acts (putActs 0 1 10 5 (some 1000000000) ++ List.replicate 7 .worker ++
          .issue 0 (.upsert 1 none (some 9223372036854775808) (some 2000000000) false) :: List.replicate 4 (.client 0)))
        (fun b => decide (b.cl[0]? = some (.upTtlInsert 1 5000000000 (some 9223372036854775808)) ∧
            ¬ Act.pre b (.client 0)) &&
          checkStep b (.client 0) {} (fun b' => decide (
            b'.res[0]? = some [.panic .weightOverflow, .ack 0 .pending]))) = true := by decide +kernel
    obtain ⟨b, hv, hq⟩ := checkRun_sound h
    simp only [Bool.and_eq_true, decide_eq_true_eq] at hq
    obtain ⟨b', o', hs, hq'⟩ := checkStep_sound hq.2
    exact ⟨b, b', o', hv, hq.1.1, hq.1.2, hs, of_decide_eq_true hq'⟩

/-! ## The races between `upsert.update` and `upsert.weight_of` (a FINDING before the fix; now repaired)

  In Layer A (`C17_upsert_no_panic`) a `put_or_update` is atomic, so its side conditions are evaluated once.  In the
  code the call is a sequence of actions: `upsert.update` (the store entry is rewritten in place) — `upsert.weight_of`
  (the charge of the key's id is read from `key_weights`) — the expiry-index update and the `assert!(weight > 0)`.
  Between `upsert.update` and `upsert.weight_of` ANOTHER THREAD can take the id out of `key_weights`: the sweeper (the
  key expires), the worker evicting the key to make room for another key's put, the worker executing a `delete`.
  BEFORE THE FIX `weight_of` answered `unwrap_or(0)`: a time-to-live removal computed `0 - 24` and the caller
  panicked — although every precondition of Layer A (`Ev.pre`: the key is present, it is charged more than 24) held
  when the call was issued AND when its `upsert.update` ran, and although every action of every thread up to the panic
  met `Act.pre` (the three runs below were recorded as `C17_layerB_counterexample_race_sweeper / _race_eviction /
  _race_delete`).
  SINCE THE FIX (`existing : Option Int`; no weight is due for an id that is not charged) the same three runs end
  without a panic: in the eviction and the delete run the call is answered `Accepted` on the spot and nothing is
  sent; in the sweeper run the OTHER fix (the sweeper's `remove_if` re-validates against the store) makes the sweeper
  leave the key alone, so the id stays charged and the call sends `UpdateWeight(1, 29 - 24)`; a variant in which the
  sweeper's `kw.remove` runs before `upsert.update` (the key had really expired) shows the `Accepted` answer for the
  sweeper as well.  The general statement: `C17_layerB_ttl_only_upsert_safe_under_races`.
  (What remains is the sequential case — §8-D4 — of a key charged less than 25:
  `C17_layerB_counterexample_ttl_removal`; and `C17_layerB_counterexample_race_value_missing`.) -/

/-- Layer A's preconditions for `put_or_update(k).remove_time_to_live()`: the key is present and charged more than the
    expiry-index surcharge -/
theorem evPre_ttl_removal {s : State} {c k : Nat} {e : Entry} (hk : s.store.get? k = some e)
    (hc : s.cfg.ttlEntry < chargedWeight s e.id) (hi : inI64 (chargedWeight s e.id - s.cfg.ttlEntry) = true) :
    Ev.pre s (.upsert c k none none none true) := by
  refine ⟨nofun, nofun, ?_, nofun, ?_, ?_, nofun, nofun⟩
  · intro h; rw [hk] at h; cases h
  · intro e' a he' _ _ _ _ _
    rw [hk] at he'; cases he'
    exact ⟨hc, hi⟩
  · intro e' t _ _ hrm; cases hrm

/-- Layer A's preconditions for `put_or_update(k).weight(x)` (no value): the key is present, `x` is a positive `i64` -/
theorem evPre_weight_only {s : State} {c k : Nat} {x : Int} {e : Entry} (hk : s.store.get? k = some e)
    (hx : 0 < x) (hi : inI64 x = true) : Ev.pre s (.upsert c k none (some x) none false) := by
  refine ⟨?_, nofun, ?_, nofun, ?_, nofun, ?_, nofun⟩
  · intro y hy; cases hy; exact hx
  · intro h; rw [hk] at h; cases h
  · intro e' a _ _ hrm; cases hrm
  · intro e' y _ hy; cases hy; exact hi

/-- key 1 put by client 0 with weight 29 (= 5 + the surcharge 24) and one second to live, executed by the worker:
    stored, charged 29, deadline second 4, nothing in flight -/
def c17RaceSetup : List (Act × Oracle) :=
  acts (putActs 0 1 10 29 (some 1000000000) ++ List.replicate 7 .worker)

/-- the facts about a state that make `evPre_ttl_removal` applicable to key 1 (decidable) -/
def key1Charged29 (b : BState) : Prop :=
  b.g.store.get? 1 = some { value := 10, id := 1, expiry := some 4000000000, soft := false } ∧
  chargedWeight b.g 1 = 29 ∧ b.g.cfg.ttlEntry = 24

instance (b : BState) : Decidable (key1Charged29 b) :=
  inferInstanceAs (Decidable (_ ∧ _ ∧ _))

theorem key1Charged29.evPre {b : BState} (h : key1Charged29 b) (c : Nat) :
    Ev.pre b.g (.upsert c 1 none none none true) := by
  obtain ⟨h1, h2, h3⟩ := h
  refine evPre_ttl_removal h1 ?_ ?_
  · show b.g.cfg.ttlEntry < chargedWeight b.g 1
    rw [h2, h3]; decide
  · show inI64 (chargedWeight b.g 1 - b.g.cfg.ttlEntry) = true
    rw [h2, h3]; decide

/-- **Race with the sweeper — the run of the former `C17_layerB_counterexample_race_sweeper`, after the fixes.**
    `put_or_update(1).remove_time_to_live()` is issued while key 1 is present, alive and charged 29: Layer A's
    `Ev.pre` holds then, and still when `upsert.update` runs (which removes the deadline from the STORE entry; the
    expiry-index entry is removed only later, in `ttl.delete`).  The clock passes the old deadline; a sweeper tick finds
    the index entry — and at its `kw.remove` action sees that the stored value has no deadline any more
    (`unexpiredWithId`): it SKIPS (before the fix it took id 1 out of `key_weights` and the key out of the store).
    So `upsert.weight_of` finds the charge 29 and hands on `29 - 24 = 5`; `ttl.delete` (the action that panicked
    on `0 - 24`) meets `Act.pre` and moves on to the send; the worker applies `UpdateWeight(1, 5)`: key 1 is still
    stored, charged 5, both calls acknowledged `Accepted`, no panic anywhere. -/
theorem C17_layerB_race_sweeper_fixed :
    ∃ b1 b2 b3 b4 b5 o', ValidRunB (c17B 2) c17RaceSetup b1 ∧
      Ev.pre b1.g (.upsert 0 1 none none none true) ∧
      ValidRunB b1 (acts [.issue 0 (.upsert 1 none none none true), .client 0]) b2 ∧
      b2.cl[0]? = some (.upUpdate 1 none none none true) ∧ Ev.pre b2.g (.upsert 0 1 none none none true) ∧
      ValidRunB b2 (acts [.client 0, .advance 3000000000, .sweeper none, .sweeper (some 1), .sweeper none,
        .sweeper none, .sweeper none, .client 0]) b3 ∧
      b3.g.store.get? 1 = some { value := 10, id := 1, expiry := none, soft := false } ∧
      b3.g.adm.kw.get? 1 = some { key := 1, hash := 1, weight := 29 } ∧
      b3.cl[0]? = some (.upTtlDelete 1 4000000000 (some 5)) ∧ Act.pre b3 (.client 0) ∧
      stepB b3 (.client 0) {} = .ok (b4, o') ∧
      b4.cl[0]? = some (.send (.updateWeight 1 5)) ∧ b4.res[0]? = some [.ack 0 .pending] ∧ PanicFree b4 ∧
      ValidRunB b4 (acts [.client 0, .worker, .worker]) b5 ∧
      b5.res[0]? = some [.ack 1 .pending, .ack 0 .pending] ∧ b5.g.acks = [.accepted, .accepted] ∧ PanicFree b5 ∧
      b5.g.store.get? 1 = some { value := 10, id := 1, expiry := none, soft := false } ∧
      b5.g.adm.kw.get? 1 = some { key := 1, hash := 1, weight := 5 } ∧ b5.g.adm.used = 5 ∧ b5.g.ttl = [] ∧
      b5.w = .recv ∧ b5.g.worker = .running := by
  have h : checkRun (c17B 2) c17RaceSetup (fun b1 => decide (key1Charged29 b1) &&
      checkRun b1 (acts [.issue 0 (.upsert 1 none none none true), .client 0]) (fun b2 =>
        decide (b2.cl[0]? = some (.upUpdate 1 none none none true) ∧ key1Charged29 b2) &&
        checkRun b2 (acts [.client 0, .advance 3000000000, .sweeper none, .sweeper (some 1), .sweeper none,
          .sweeper none, .sweeper none, .client 0]) (fun b3 =>
          decide (b3.g.store.get? 1 = some { value := 10, id := 1, expiry := none, soft := false } ∧
            b3.g.adm.kw.get? 1 = some { key := 1, hash := 1, weight := 29 } ∧
            b3.cl[0]? = some (.upTtlDelete 1 4000000000 (some 5)) ∧ Act.pre b3 (.client 0)) &&
          checkStep b3 (.client 0) {} (fun b4 => decide (
            b4.cl[0]? = some (.send (.updateWeight 1 5)) ∧ b4.res[0]? = some [.ack 0 .pending] ∧ PanicFree b4) &&
            checkRun b4 (acts [.client 0, .worker, .worker]) (fun b5 => decide (
              b5.res[0]? = some [.ack 1 .pending, .ack 0 .pending] ∧ b5.g.acks = [.accepted, .accepted] ∧
              PanicFree b5 ∧
              b5.g.store.get? 1 = some { value := 10, id := 1, expiry := none, soft := false } ∧
              b5.g.adm.kw.get? 1 = some { key := 1, hash := 1, weight := 5 } ∧ b5.g.adm.used = 5 ∧ b5.g.ttl = [] ∧
              b5.w = .recv ∧ b5.g.worker = .running)))))) = true := by
    decide +kernel
  obtain ⟨b1, hv1, hq1⟩ := checkRun_sound h
  simp only [Bool.and_eq_true, decide_eq_true_eq] at hq1
  obtain ⟨b2, hv2, hq2⟩ := checkRun_sound hq1.2
  simp only [Bool.and_eq_true, decide_eq_true_eq] at hq2
  obtain ⟨b3, hv3, hq3⟩ := checkRun_sound hq2.2
  simp only [Bool.and_eq_true, decide_eq_true_eq] at hq3
  obtain ⟨b4, o', hs, hq4⟩ := checkStep_sound hq3.2
  simp only [Bool.and_eq_true, decide_eq_true_eq] at hq4
  obtain ⟨b5, hv5, hq5⟩ := checkRun_sound hq4.2
  obtain ⟨g1, g2, g3, g4⟩ := hq3.1
  obtain ⟨k1, k2, k3⟩ := hq4.1
  exact ⟨b1, b2, b3, b4, b5, o', hv1, hq1.1.evPre 0, hv2, hq2.1.1, hq2.1.2.evPre 0, hv3, g1, g2, g3, g4, hs,
    k1, k2, k3, hv5, of_decide_eq_true hq5⟩

/-- **Race with the sweeper, the id IS taken out of the ledger** (the fix of `weight_of` at work against the sweeper).
    The call is issued while key 1 is alive and charged 29 (`Ev.pre`); the clock passes the deadline BEFORE
    `upsert.update` runs, and a sweeper tick gets as far as its `kw.remove` action: the stored value has expired by
    its own deadline, so id 1 rightly leaves `key_weights`.  Then `upsert.update` (the store entry is still there),
    `upsert.weight_of` (no charge: NO weight is handed on — before the fix `0 - 24`); the sweeper finishes its tick
    (it holds the expiry shard till then); `ttl.delete` meets `Act.pre` and answers `Accepted` on the spot: no panic,
    nothing sent. -/
theorem C17_layerB_race_sweeper_uncharged_fixed :
    ∃ b1 b2 b3 b4 o', ValidRunB (c17B 2) c17RaceSetup b1 ∧
      Ev.pre b1.g (.upsert 0 1 none none none true) ∧
      ValidRunB b1 (acts [.issue 0 (.upsert 1 none none none true), .client 0, .advance 3000000000, .sweeper none,
        .sweeper (some 1), .sweeper none]) b2 ∧
      b2.cl[0]? = some (.upUpdate 1 none none none true) ∧ (b2.sw matches .sub _ _ _ 1 _) = true ∧
      b2.g.adm.kw.get? 1 = none ∧
      b2.g.store.get? 1 = some { value := 10, id := 1, expiry := some 4000000000, soft := false } ∧
      ValidRunB b2 (acts [.client 0, .client 0, .sweeper none, .sweeper none, .sweeper none]) b3 ∧
      b3.cl[0]? = some (.upTtlDelete 1 4000000000 none) ∧ Act.pre b3 (.client 0) ∧
      stepB b3 (.client 0) {} = .ok (b4, o') ∧
      b4.cl[0]? = some .idle ∧ b4.res[0]? = some [.ack 1 .accepted, .ack 0 .pending] ∧ PanicFree b4 ∧
      b4.g.acks = [.accepted, .accepted] ∧ b4.g.queue = [] ∧ b4.g.adm.kw = [] ∧ b4.g.adm.used = 0 ∧
      b4.g.ttl = [] := by
  have h : checkRun (c17B 2) c17RaceSetup (fun b1 => decide (key1Charged29 b1) &&
      checkRun b1 (acts [.issue 0 (.upsert 1 none none none true), .client 0, .advance 3000000000, .sweeper none,
          .sweeper (some 1), .sweeper none]) (fun b2 =>
        decide (b2.cl[0]? = some (.upUpdate 1 none none none true) ∧ (b2.sw matches .sub _ _ _ 1 _) = true ∧
          b2.g.adm.kw.get? 1 = none ∧
          b2.g.store.get? 1 = some { value := 10, id := 1, expiry := some 4000000000, soft := false }) &&
        checkRun b2 (acts [.client 0, .client 0, .sweeper none, .sweeper none, .sweeper none]) (fun b3 =>
          decide (b3.cl[0]? = some (.upTtlDelete 1 4000000000 none) ∧ Act.pre b3 (.client 0)) &&
          checkStep b3 (.client 0) {} (fun b4 => decide (
            b4.cl[0]? = some .idle ∧ b4.res[0]? = some [.ack 1 .accepted, .ack 0 .pending] ∧ PanicFree b4 ∧
            b4.g.acks = [.accepted, .accepted] ∧ b4.g.queue = [] ∧ b4.g.adm.kw = [] ∧ b4.g.adm.used = 0 ∧
            b4.g.ttl = []))))) = true := by
    decide +kernel
  obtain ⟨b1, hv1, hq1⟩ := checkRun_sound h
  simp only [Bool.and_eq_true, decide_eq_true_eq] at hq1
  obtain ⟨b2, hv2, hq2⟩ := checkRun_sound hq1.2
  simp only [Bool.and_eq_true, decide_eq_true_eq] at hq2
  obtain ⟨b3, hv3, hq3⟩ := checkRun_sound hq2.2
  simp only [Bool.and_eq_true, decide_eq_true_eq] at hq3
  obtain ⟨b4, o', hs, hq4⟩ := checkStep_sound hq3.2
  obtain ⟨g1, g2, g3, g4⟩ := hq2.1
  exact ⟨b1, b2, b3, b4, o', hv1, hq1.1.evPre 0, hv2, g1, g2, g3, g4, hv3, hq3.1.1, hq3.1.2, hs,
    of_decide_eq_true hq4⟩

/-- limit 40: key 1 (29) and another key of weight 20 do not fit together -/
def c17BSmall (n : Nat) : BState := BState.init { c17Cfg with maxWeight := 40 } 3000000000 [1, 2, 3, 4] n

/-- **Race with an eviction — the run of the former `C17_layerB_counterexample_race_eviction`, after the fix.**
    No clock, and nobody but the caller names key 1.  Limit 40; key 1 charged 29; client 1 has sent
    `put_with_weight(2, 20, 20)`.  Client 0 issues `put_or_update(1).remove_time_to_live()` and runs its
    `upsert.update` (`Ev.pre` of Layer A holds at both instants).  The worker executes the put of key 2: no room, it
    samples key 1 as the victim and takes id 1 out of `key_weights` (`kw.remove`; the store entry is still there).
    `upsert.weight_of` finds no charge and hands on NO weight (before the fix: `0 - 24`); the `ttl.delete` action —
    the one that panicked — meets `Act.pre`, removes the index entry and answers `Accepted` on the spot:
    no `Out.panic`, nothing sent. -/
theorem C17_layerB_race_eviction_fixed :
    ∃ b1 b2 b3 b4 o', ValidRunB (c17BSmall 2) (c17RaceSetup ++ acts (putActs 1 2 20 20 none)) b1 ∧
      Ev.pre b1.g (.upsert 0 1 none none none true) ∧
      ValidRunB b1 (acts [.issue 0 (.upsert 1 none none none true), .client 0]) b2 ∧
      b2.cl[0]? = some (.upUpdate 1 none none none true) ∧ Ev.pre b2.g (.upsert 0 1 none none none true) ∧
      ValidRunB b2 (acts [.client 0, .worker, .worker] ++
        [(.worker, { dk := [false] }), (.worker, { ids := [1], dk := [false], pops := [some 1] })] ++
        acts [.worker, .client 0]) b3 ∧
      (b3.w matches .evSub _ _ _ 1 _) = true ∧ b3.g.adm.kw.get? 1 = none ∧
      b3.g.store.get? 1 = some { value := 10, id := 1, expiry := none, soft := false } ∧
      b3.cl[0]? = some (.upTtlDelete 1 4000000000 none) ∧ Act.pre b3 (.client 0) ∧
      stepB b3 (.client 0) {} = .ok (b4, o') ∧
      b4.cl[0]? = some .idle ∧ b4.res[0]? = some [.ack 2 .accepted, .ack 0 .pending] ∧ PanicFree b4 ∧
      b4.g.acks = [.accepted, .pending, .accepted] ∧ b4.g.queue = b3.g.queue ∧ b4.g.queue = [] ∧ b4.g.ttl = [] := by
  have h : checkRun (c17BSmall 2) (c17RaceSetup ++ acts (putActs 1 2 20 20 none)) (fun b1 => decide (key1Charged29 b1) &&
      checkRun b1 (acts [.issue 0 (.upsert 1 none none none true), .client 0]) (fun b2 =>
        decide (b2.cl[0]? = some (.upUpdate 1 none none none true) ∧ key1Charged29 b2) &&
        checkRun b2 (acts [.client 0, .worker, .worker] ++
          [(.worker, { dk := [false] }), (.worker, { ids := [1], dk := [false], pops := [some 1] })] ++
          acts [.worker, .client 0]) (fun b3 =>
          decide ((b3.w matches .evSub _ _ _ 1 _) = true ∧ b3.g.adm.kw.get? 1 = none ∧
            b3.g.store.get? 1 = some { value := 10, id := 1, expiry := none, soft := false } ∧
            b3.cl[0]? = some (.upTtlDelete 1 4000000000 none) ∧ Act.pre b3 (.client 0)) &&
          checkStep b3 (.client 0) {} (fun b4 => decide (
            b4.cl[0]? = some .idle ∧ b4.res[0]? = some [.ack 2 .accepted, .ack 0 .pending] ∧ PanicFree b4 ∧
            b4.g.acks = [.accepted, .pending, .accepted] ∧ b4.g.queue = b3.g.queue ∧ b4.g.queue = [] ∧
            b4.g.ttl = []))))) = true := by
    decide +kernel
  obtain ⟨b1, hv1, hq1⟩ := checkRun_sound h
  simp only [Bool.and_eq_true, decide_eq_true_eq] at hq1
  obtain ⟨b2, hv2, hq2⟩ := checkRun_sound hq1.2
  simp only [Bool.and_eq_true, decide_eq_true_eq] at hq2
  obtain ⟨b3, hv3, hq3⟩ := checkRun_sound hq2.2
  simp only [Bool.and_eq_true, decide_eq_true_eq] at hq3
  obtain ⟨b4, o', hs, hq4⟩ := checkStep_sound hq3.2
  obtain ⟨g1, g2, g3, g4, g5⟩ := hq3.1
  exact ⟨b1, b2, b3, b4, o', hv1, hq1.1.evPre 0, hv2, hq2.1.1, hq2.1.2.evPre 0, hv3, g1, g2, g3, g4, g5, hs,
    of_decide_eq_true hq4⟩

/-- **Race with a delete — the run of the former `C17_layerB_counterexample_race_delete`, after the fix.**
    Key 1 charged 29; client 0 issues `put_or_update(1).remove_time_to_live()` and runs its `upsert.update`
    (`Ev.pre` holds at both instants).  Only THEN client 1 calls `delete(1)`; the worker executes it up to
    `kw.remove`.  `upsert.weight_of` finds no charge and hands on NO weight (before the fix: `0 - 24`); the
    `ttl.delete` action — the one that panicked — meets `Act.pre` and answers `Accepted` on the spot:
    no `Out.panic`, nothing sent. -/
theorem C17_layerB_race_delete_fixed :
    ∃ b1 b2 b3 b4 o', ValidRunB (c17B 2) c17RaceSetup b1 ∧
      Ev.pre b1.g (.upsert 0 1 none none none true) ∧
      ValidRunB b1 (acts [.issue 0 (.upsert 1 none none none true), .client 0]) b2 ∧
      b2.cl[0]? = some (.upUpdate 1 none none none true) ∧ Ev.pre b2.g (.upsert 0 1 none none none true) ∧
      ValidRunB b2 (acts [.client 0, .issue 1 (.delete 1), .client 1, .client 1, .client 1, .worker, .worker, .worker,
        .client 0]) b3 ∧
      b3.g.adm.kw.get? 1 = none ∧
      b3.cl[0]? = some (.upTtlDelete 1 4000000000 none) ∧ Act.pre b3 (.client 0) ∧
      stepB b3 (.client 0) {} = .ok (b4, o') ∧
      b4.cl[0]? = some .idle ∧ b4.res[0]? = some [.ack 2 .accepted, .ack 0 .pending] ∧ PanicFree b4 ∧
      b4.g.acks = [.accepted, .pending, .accepted] ∧ b4.g.queue = b3.g.queue ∧ b4.g.queue = [] ∧ b4.g.ttl = [] := by
  have h : checkRun (c17B 2) c17RaceSetup (fun b1 => decide (key1Charged29 b1) &&
      checkRun b1 (acts [.issue 0 (.upsert 1 none none none true), .client 0]) (fun b2 =>
        decide (b2.cl[0]? = some (.upUpdate 1 none none none true) ∧ key1Charged29 b2) &&
        checkRun b2 (acts [.client 0, .issue 1 (.delete 1), .client 1, .client 1, .client 1, .worker, .worker, .worker,
          .client 0]) (fun b3 =>
          decide (b3.g.adm.kw.get? 1 = none ∧
            b3.cl[0]? = some (.upTtlDelete 1 4000000000 none) ∧ Act.pre b3 (.client 0)) &&
          checkStep b3 (.client 0) {} (fun b4 => decide (
            b4.cl[0]? = some .idle ∧ b4.res[0]? = some [.ack 2 .accepted, .ack 0 .pending] ∧ PanicFree b4 ∧
            b4.g.acks = [.accepted, .pending, .accepted] ∧ b4.g.queue = b3.g.queue ∧ b4.g.queue = [] ∧
            b4.g.ttl = []))))) = true := by
    decide +kernel
  obtain ⟨b1, hv1, hq1⟩ := checkRun_sound h
  simp only [Bool.and_eq_true, decide_eq_true_eq] at hq1
  obtain ⟨b2, hv2, hq2⟩ := checkRun_sound hq1.2
  simp only [Bool.and_eq_true, decide_eq_true_eq] at hq2
  obtain ⟨b3, hv3, hq3⟩ := checkRun_sound hq2.2
  simp only [Bool.and_eq_true, decide_eq_true_eq] at hq3
  obtain ⟨b4, o', hs, hq4⟩ := checkStep_sound hq3.2
  obtain ⟨g1, g2, g3⟩ := hq3.1
  exact ⟨b1, b2, b3, b4, o', hv1, hq1.1.evPre 0, hv2, hq2.1.1, hq2.1.2.evPre 0, hv3, g1, g2, g3, hs,
    of_decide_eq_true hq4⟩

/-- **The documented precondition "a value when the key is absent" is not stable either.**
    `put_or_update(1).weight(7)` (no value) is issued while key 1 is present (`Ev.pre` of Layer A holds); before its
    `upsert.update` runs, client 1's `delete(1)` is executed up to `store.remove`.  `upsert.update` finds the key
    absent and the caller panics (`PutOrUpdateValueMissing`). -/
theorem C17_layerB_counterexample_race_value_missing :
    ∃ b1 b3 b4 o', ValidRunB (c17B 2) c17RaceSetup b1 ∧
      Ev.pre b1.g (.upsert 0 1 none (some 7) none false) ∧
      ValidRunB b1 (acts [.issue 0 (.upsert 1 none (some 7) none false), .issue 1 (.delete 1), .client 1, .client 1,
        .client 1, .worker, .worker, .client 0]) b3 ∧
      b3.cl[0]? = some (.upUpdate 1 none (some 7) none false) ∧ ¬ Act.pre b3 (.client 0) ∧
      stepB b3 (.client 0) {} = .ok (b4, o') ∧
      b4.res[0]? = some [.panic .upsertValueMissing, .ack 0 .pending] := by
  have h : checkRun (c17B 2) c17RaceSetup (fun b1 => decide (key1Charged29 b1) &&
      checkRun b1 (acts [.issue 0 (.upsert 1 none (some 7) none false), .issue 1 (.delete 1), .client 1, .client 1,
          .client 1, .worker, .worker, .client 0]) (fun b3 =>
        decide (b3.cl[0]? = some (.upUpdate 1 none (some 7) none false) ∧ ¬ Act.pre b3 (.client 0)) &&
        checkStep b3 (.client 0) {} (fun b4 => decide (
          b4.res[0]? = some [.panic .upsertValueMissing, .ack 0 .pending])))) = true := by
    decide +kernel
  obtain ⟨b1, hv1, hq1⟩ := checkRun_sound h
  simp only [Bool.and_eq_true, decide_eq_true_eq] at hq1
  obtain ⟨b3, hv3, hq3⟩ := checkRun_sound hq1.2
  simp only [Bool.and_eq_true, decide_eq_true_eq] at hq3
  obtain ⟨b4, o', hs, hq4⟩ := checkStep_sound hq3.2
  exact ⟨b1, b3, b4, o', hv1, evPre_weight_only hq1.1.1 (by decide) (by decide), hv3, hq3.1.1, hq3.1.2, hs,
    of_decide_eq_true hq4⟩

/-- **What the fix does NOT cover: the charge is LOWERED, not removed, in the middle of the call** (the sequential
    defect §8-D4 — a key charged less than 25 — reached by a race).  Key 1 charged 29; client 0 issues
    `put_or_update(1).remove_time_to_live()` and runs its `upsert.update` (`Ev.pre` of Layer A holds at both instants).
    Only THEN client 1 calls `put_or_update(1).weight(5)` (valid: the key is present, 5 is a positive `i64`), and the
    worker applies `UpdateWeight(1, 5)`.  `upsert.weight_of` of client 0 finds the id CHARGED 5 and computes `5 - 24`;
    the `ttl.delete` action panics in the caller.  Every action of every thread before the panic meets `Act.pre`.
    (`ttlChargeOk` fails at client 0's `upsert.weight_of`: the hypothesis of
    `C17_layerB_ttl_only_upsert_safe_under_races` about a charged id cannot be dropped, and the caller cannot
    establish it — it is about an instant in the middle of its own call.) -/
theorem C17_layerB_counterexample_race_weight_update :
    ∃ b1 b2 b3 b4 o', ValidRunB (c17B 2) c17RaceSetup b1 ∧
      Ev.pre b1.g (.upsert 0 1 none none none true) ∧
      ValidRunB b1 (acts [.issue 0 (.upsert 1 none none none true), .client 0]) b2 ∧
      b2.cl[0]? = some (.upUpdate 1 none none none true) ∧ Ev.pre b2.g (.upsert 0 1 none none none true) ∧
      Ev.pre b2.g (.upsert 1 1 none (some 5) none false) ∧
      ValidRunB b2 (acts [.client 0, .issue 1 (.upsert 1 none (some 5) none false), .client 1, .client 1, .client 1,
        .client 1, .worker, .worker, .client 0]) b3 ∧
      b3.g.adm.kw.get? 1 = some { key := 1, hash := 1, weight := 5 } ∧ b3.g.acks = [.accepted, .accepted] ∧
      b3.cl[0]? = some (.upTtlDelete 1 4000000000 (some (-19))) ∧ ¬ Act.pre b3 (.client 0) ∧
      stepB b3 (.client 0) {} = .ok (b4, o') ∧
      b4.res[0]? = some [.panic .weightNotPositive, .ack 0 .pending] ∧ ¬ PanicFree b4 := by
  have h : checkRun (c17B 2) c17RaceSetup (fun b1 => decide (key1Charged29 b1) &&
      checkRun b1 (acts [.issue 0 (.upsert 1 none none none true), .client 0]) (fun b2 =>
        decide (b2.cl[0]? = some (.upUpdate 1 none none none true) ∧ key1Charged29 b2) &&
        checkRun b2 (acts [.client 0, .issue 1 (.upsert 1 none (some 5) none false), .client 1, .client 1, .client 1,
          .client 1, .worker, .worker, .client 0]) (fun b3 =>
          decide (b3.g.adm.kw.get? 1 = some { key := 1, hash := 1, weight := 5 } ∧
            b3.g.acks = [.accepted, .accepted] ∧
            b3.cl[0]? = some (.upTtlDelete 1 4000000000 (some (-19))) ∧ ¬ Act.pre b3 (.client 0)) &&
          checkStep b3 (.client 0) {} (fun b4 => decide (
            b4.res[0]? = some [.panic .weightNotPositive, .ack 0 .pending] ∧ ¬ PanicFree b4))))) = true := by
    decide +kernel
  obtain ⟨b1, hv1, hq1⟩ := checkRun_sound h
  simp only [Bool.and_eq_true, decide_eq_true_eq] at hq1
  obtain ⟨b2, hv2, hq2⟩ := checkRun_sound hq1.2
  simp only [Bool.and_eq_true, decide_eq_true_eq] at hq2
  obtain ⟨b3, hv3, hq3⟩ := checkRun_sound hq2.2
  simp only [Bool.and_eq_true, decide_eq_true_eq] at hq3
  obtain ⟨b4, o', hs, hq4⟩ := checkStep_sound hq3.2
  have hq4' := of_decide_eq_true hq4
  obtain ⟨g1, g2, g3, g4⟩ := hq3.1
  exact ⟨b1, b2, b3, b4, o', hv1, hq1.1.evPre 0, hv2, hq2.1.1, hq2.1.2.evPre 0,
    evPre_weight_only hq2.1.2.1 (by decide) (by decide), hv3, g1, g2, g3, g4, hs, hq4'.1, hq4'.2⟩

/-! ## What the fix buys: a pure time-to-live change is safe under races

  `put_or_update(k)` that only adds, changes or removes a time-to-live (no value, no explicit weight).  Its side
  conditions are: at `upsert.update` the key is present (and `now + ttl` is representable); at `upsert.weight_of` the
  key id is NOT CHARGED (no weight is due, nothing is asserted on) or it is charged and `charge ∓
  ttl_ticker_entry_size` is a positive `i64`.  Nothing else: whatever the other threads do between and after these
  two actions — delete the key, evict it, expire it, update its weight, shut the cache down —, no later action of the
  call panics.  Before the fix of `weight_of` the second condition had no "not charged" alternative, and another
  thread could falsify it after `upsert.update` had already committed the call. -/

/-- no result recorded so far FOR CLIENT `i` is a panic -/
def PanicFreeAt (b : BState) (i : Nat) : Prop := ∀ out ∈ b.res.getD i [], out.isPanic = false

instance (b : BState) (i : Nat) : Decidable (PanicFreeAt b i) :=
  inferInstanceAs (Decidable (∀ out ∈ b.res.getD i [], out.isPanic = false))

/-- a stretch of a run in which no NEW request is issued for client `i`: client `i` goes on with the call it is in,
    every other thread (and every other client, with new requests) moves freely -/
inductive CallRun (i : Nat) : BState → BState → Prop
  | nil (b : BState) : CallRun i b b
  | cons {b b' b'' : BState} {a : Act} {o o' : Oracle} : (∀ r, a ≠ .issue i r) →
      stepB b a o = .ok (b', o') → CallRun i b' b'' → CallRun i b b''

/-- **The side condition of a pure time-to-live change at `upsert.weight_of`**, in the state in which that action
    runs: the key id is not charged, or `charge + ttl_ticker_entry_size` (a time-to-live is added) /
    `charge - ttl_ticker_entry_size` (it is removed) is a positive `i64`; none if the deadline only moves. -/
def ttlChargeOk (g : State) (id : Nat) (old new : Option Nat) : Prop :=
  match g.adm.kw.get? id with
  | none => True
  | some wk =>
    match typeOfExpiryUpdate old new with
    | .added _ => inI64 (wk.weight + g.cfg.ttlEntry) = true ∧ 0 < wk.weight + g.cfg.ttlEntry
    | .deleted _ => inI64 (wk.weight - g.cfg.ttlEntry) = true ∧ g.cfg.ttlEntry < wk.weight
    | _ => True

instance (g : State) (id : Nat) (old new : Option Nat) : Decidable (ttlChargeOk g id old new) := by
  unfold ttlChargeOk
  split
  · infer_instance
  · split <;> infer_instance

theorem ttlChargeOk_of_uncharged {g : State} {id : Nat} (old new : Option Nat) (h : g.adm.kw.get? id = none) :
    ttlChargeOk g id old new := by
  simp [ttlChargeOk, h]

/-- the positions of a `put_or_update` past `upsert.weight_of` whose local weight — if there is one — is a positive
    `i64`, the send, and the end of the call -/
def CPc.upTail : CPc → Prop
  | .upTtlPut _ _ uw => uwOk uw
  | .upTtlDelete _ _ uw => uwOk uw
  | .upTtlRemove _ _ _ uw => uwOk uw
  | .upTtlInsert _ _ uw => uwOk uw
  | .send _ => True
  | .idle => True
  | _ => False

/-- at these positions the side condition of the next action holds in EVERY state -/
theorem CPc.upTail.pre {pc : CPc} (h : pc.upTail) (g : State) : pc.pre g := by
  cases pc <;> first | exact h | trivial | exact h.elim

theorem upAfterIndex_upTail {b0 : BState} {i id : Nat} {uw : Option Int} (hi : i < b0.cl.length) (hu : uwOk uw) :
    ∃ pc', (upAfterIndex b0 i id uw).cl[i]? = some pc' ∧ pc'.upTail := by
  unfold upAfterIndex
  cases uw with
  | none => exact ⟨.idle, by simp [spotFinish, finishCall, hi], trivial⟩
  | some x =>
    obtain ⟨h1, h2⟩ := hu
    have h3 : ¬ x ≤ 0 := by omega
    simp only [h1, Bool.not_true, Bool.false_eq_true, if_false, h3]
    exact ⟨.send (.updateWeight id x), by simp [setClient, hi], trivial⟩

/-- the tail is closed under the client's own actions -/
theorem upTail_step {b b' : BState} {i : Nat} {pc : CPc} {o o' : Oracle} (hpc : b.cl[i]? = some pc) (ht : pc.upTail)
    (h : stepB b (.client i) o = .ok (b', o')) : ∃ pc', b'.cl[i]? = some pc' ∧ pc'.upTail := by
  have hi : i < b.cl.length := by
    rcases List.getElem?_eq_some_iff.mp hpc with ⟨hi, _⟩; exact hi
  cases pc <;> try exact ht.elim
  case idle => simp only [stepB, clientAct, hpc] at h; cases h
  case send cmd =>
    simp only [stepB, clientAct, hpc] at h
    split at h
    · rename_i b1 hs
      simp only [Except.ok.injEq, Prod.mk.injEq] at h; obtain ⟨rfl, rfl⟩ := h
      unfold sendAct at hs
      simp only [] at hs
      split at hs
      · simp only [Except.ok.injEq] at hs; subst hs
        exact ⟨.idle, by simp [finishCall, hi], trivial⟩
      · split at hs
        · cases hs
        · simp only [Except.ok.injEq] at hs; subst hs
          exact ⟨.idle, by simp [finishCall, hi], trivial⟩
    · cases h
  case upTtlPut id e uw =>
    simp only [stepB, clientAct, hpc] at h
    split at h
    · cases h
    · simp only [Except.ok.injEq, Prod.mk.injEq] at h; obtain ⟨rfl, rfl⟩ := h
      exact upAfterIndex_upTail (by simpa using hi) ht
  case upTtlDelete id e uw =>
    simp only [stepB, clientAct, hpc] at h
    split at h
    · cases h
    · simp only [Except.ok.injEq, Prod.mk.injEq] at h; obtain ⟨rfl, rfl⟩ := h
      exact upAfterIndex_upTail (by simpa using hi) ht
  case upTtlRemove id old new uw =>
    simp only [stepB, clientAct, hpc] at h
    split at h
    · cases h
    · simp only [Except.ok.injEq, Prod.mk.injEq] at h; obtain ⟨rfl, rfl⟩ := h
      exact ⟨.upTtlInsert id new uw, by simp [setClient, hi], ht⟩
  case upTtlInsert id new uw =>
    simp only [stepB, clientAct, hpc] at h
    split at h
    · cases h
    · simp only [Except.ok.injEq, Prod.mk.injEq] at h; obtain ⟨rfl, rfl⟩ := h
      exact upAfterIndex_upTail (by simpa using hi) ht

theorem getD_set_ne {α : Type} (l : List α) {i j : Nat} (x d : α) (h : j ≠ i) : (l.set j x).getD i d = l.getD i d := by
  simp [List.getD, List.getElem?_set_ne h]

/-- only client `i`'s own actions record results for client `i` -/
theorem step_res_other {b b' : BState} {a : Act} {o o' : Oracle} {i : Nat} (h : stepB b a o = .ok (b', o'))
    (hne : a ≠ .client i) : b'.res.getD i [] = b.res.getD i [] := by
  cases a with
  | issue j r =>
    simp only [stepB] at h
    split at h
    · rename_i b1 hi
      simp only [Except.ok.injEq, Prod.mk.injEq] at h; obtain ⟨rfl, rfl⟩ := h
      rw [(issue_frame hi).1]
    · cases h
  | client j =>
    have hj : j ≠ i := by intro e; subst e; exact hne rfl
    obtain ⟨pc, _, hres⟩ := clientAct_res h
    rcases hres with ⟨_, h1 | ⟨out, _, h1⟩⟩ | ⟨_, p, h1⟩
    · rw [h1]
    · rw [h1, getD_set_ne _ _ _ hj]
    · rw [h1, getD_set_ne _ _ _ hj]
  | worker => rw [wtrans_res (workerAct_trans h)]
  | sweeper v =>
    simp only [stepB] at h
    split at h
    · rename_i b1 hs
      simp only [Except.ok.injEq, Prod.mk.injEq] at h; obtain ⟨rfl, rfl⟩ := h
      rw [(strans_bg (sweeperAct_trans hs)).1]
    · cases h
  | consumer =>
    simp only [stepB] at h
    split at h
    · simp only [Except.ok.injEq, Prod.mk.injEq] at h; obtain ⟨rfl, rfl⟩ := h; rfl
    · cases h
  | advance d =>
    simp only [stepB, Except.ok.injEq, Prod.mk.injEq] at h; obtain ⟨rfl, rfl⟩ := h; rfl

/-- an action of client `i` that meets `Act.pre` records no panic for client `i` -/
theorem step_res_own {b b' : BState} {o o' : Oracle} {i : Nat} (hpre : Act.pre b (.client i))
    (h : stepB b (.client i) o = .ok (b', o')) (hp : PanicFreeAt b i) : PanicFreeAt b' i := by
  obtain ⟨pc, hpc, hres⟩ := clientAct_res h
  have hq : pc.pre b.g := by
    have : clientPre b.g b.cl[i]? := hpre
    rw [hpc] at this; exact this
  rcases hres with ⟨_, h1 | ⟨out, ho, h1⟩⟩ | ⟨hn, _⟩
  · intro x hx; rw [h1] at hx; exact hp x hx
  · intro x hx
    rw [h1] at hx
    by_cases hi : i < b.res.length
    · simp only [List.getD, List.getElem?_set_self hi, Option.getD_some] at hx
      rcases List.mem_cons.mp hx with rfl | hx
      · exact ho
      · exact hp x hx
    · have : (b.res.set i (out :: b.res.getD i [])).getD i [] = b.res.getD i [] := by
        simp [List.getD, hi]
      rw [this] at hx; exact hp x hx
  · exact absurd hq hn

theorem OthersRun.panicFreeAt {i : Nat} {b b' : BState} (h : OthersRun i b b') (hp : PanicFreeAt b i) :
    PanicFreeAt b' i := by
  induction h with
  | nil b => exact hp
  | cons h1 _ hs _ ih =>
    apply ih
    intro x hx; rw [step_res_other hs h1] at hx; exact hp x hx

/-- from a position of the tail on, every action of client `i` meets `Act.pre`, and none records a panic — along
    every run in which no new request is issued for client `i` -/
theorem upTail_callRun {i : Nat} {b b' : BState} (h : CallRun i b b') :
    (∃ pc, b.cl[i]? = some pc ∧ pc.upTail) →
    (∃ pc, b'.cl[i]? = some pc ∧ pc.upTail) ∧ Act.pre b' (.client i) ∧ (PanicFreeAt b i → PanicFreeAt b' i) := by
  induction h with
  | nil b =>
    rintro ⟨pc, hpc, ht⟩
    refine ⟨⟨pc, hpc, ht⟩, ?_, id⟩
    show clientPre b.g b.cl[i]?
    rw [hpc]; exact ht.pre _
  | @cons b b1 b2 a o o' hni hs _ ih =>
    rintro ⟨pc, hpc, ht⟩
    by_cases ha : a = .client i
    · subst ha
      have hpre : Act.pre b (.client i) := by
        show clientPre b.g b.cl[i]?
        rw [hpc]; exact ht.pre _
      obtain ⟨r1, r2, r3⟩ := ih (upTail_step hpc ht hs)
      exact ⟨r1, r2, fun hp => r3 (step_res_own hpre hs hp)⟩
    · obtain ⟨r1, r2, r3⟩ := ih ⟨pc, by rw [other_threads_keep_pc hs ha hni]; exact hpc, ht⟩
      refine ⟨r1, r2, fun hp => r3 ?_⟩
      intro x hx; rw [step_res_other hs ha] at hx; exact hp x hx

/-- `upsert.weight_of` of a pure time-to-live change whose side condition holds: the call moves into the tail (or ends,
    answered `Accepted`, when the expiry index needs no change) -/
theorem weightOf_upTail {b b' : BState} {i id : Nat} {old new : Option Nat} {o o' : Oracle}
    (hpc : b.cl[i]? = some (.upWeightOf id none old new)) (hc : ttlChargeOk b.g id old new)
    (h : stepB b (.client i) o = .ok (b', o')) : ∃ pc', b'.cl[i]? = some pc' ∧ pc'.upTail := by
  have hi : i < b.cl.length := by
    rcases List.getElem?_eq_some_iff.mp hpc with ⟨hi, _⟩; exact hi
  simp only [stepB, clientAct, hpc] at h
  unfold ttlChargeOk at hc
  cases ht : typeOfExpiryUpdate old new with
  | nothing =>
    simp only [ht, Except.ok.injEq, Prod.mk.injEq] at h; obtain ⟨rfl, rfl⟩ := h
    exact upAfterIndex_upTail hi trivial
  | added n =>
    simp only [ht, Except.ok.injEq, Prod.mk.injEq] at h; obtain ⟨rfl, rfl⟩ := h
    cases hk : b.g.adm.kw.get? id with
    | none => exact ⟨.upTtlPut id n none, by simp [setClient, hi], by simp [CPc.upTail, uwOk]⟩
    | some wk =>
      simp only [hk, ht] at hc
      exact ⟨.upTtlPut id n (some (wk.weight + b.g.cfg.ttlEntry)), by simp [setClient, hi], hc⟩
  | deleted e =>
    simp only [ht, Except.ok.injEq, Prod.mk.injEq] at h; obtain ⟨rfl, rfl⟩ := h
    cases hk : b.g.adm.kw.get? id with
    | none => exact ⟨.upTtlDelete id e none, by simp [setClient, hi], by simp [CPc.upTail, uwOk]⟩
    | some wk =>
      simp only [hk, ht] at hc
      exact ⟨.upTtlDelete id e (some (wk.weight - b.g.cfg.ttlEntry)), by simp [setClient, hi], hc.1, by omega⟩
  | updated e n =>
    simp only [ht, Except.ok.injEq, Prod.mk.injEq] at h; obtain ⟨rfl, rfl⟩ := h
    exact ⟨.upTtlRemove id e n none, by simp [setClient, hi], by simp [CPc.upTail, uwOk]⟩

/-- `upsert.update` of a pure time-to-live change that meets `Act.pre`: the key is present, no result is recorded, and
    the call moves on to `upsert.weight_of` with the id and the old deadline of the entry it found -/
theorem upUpdate_ttl_only {b b' : BState} {i k : Nat} {ttl : Option Nat} {rm : Bool} {o o' : Oracle}
    (hpc : b.cl[i]? = some (.upUpdate k none none ttl rm)) (hpre : Act.pre b (.client i))
    (h : stepB b (.client i) o = .ok (b', o')) :
    ∃ e new, b.g.store.get? k = some e ∧ b'.cl[i]? = some (.upWeightOf e.id none e.expiry new) ∧ b'.res = b.res := by
  have hi : i < b.cl.length := by
    rcases List.getElem?_eq_some_iff.mp hpc with ⟨hi, _⟩; exact hi
  have hq : CPc.pre b.g (.upUpdate k none none ttl rm) := by
    have : clientPre b.g b.cl[i]? := hpre
    rw [hpc] at this; exact this
  simp only [CPc.pre] at hq
  cases hk : b.g.store.get? k with
  | none => rw [hk] at hq; simp [upUpdatePre] at hq
  | some e =>
    rw [hk] at hq
    simp only [upUpdatePre] at hq
    simp only [stepB, clientAct, hpc] at h
    split at h
    · cases h
    · simp only [hk] at h
      cases rm with
      | true =>
        simp only [if_true, Except.ok.injEq, Prod.mk.injEq] at h; obtain ⟨rfl, rfl⟩ := h
        exact ⟨e, none, rfl, by simp [setClient, hi], rfl⟩
      | false =>
        cases ttl with
        | none =>
          simp only [Bool.false_eq_true, if_false, Except.ok.injEq, Prod.mk.injEq] at h; obtain ⟨rfl, rfl⟩ := h
          exact ⟨e, e.expiry, rfl, by simp [setClient, hi], rfl⟩
        | some t =>
          obtain ⟨x, hx⟩ := (timeOk_iff _ _).mp (hq rfl)
          simp only [Bool.false_eq_true, if_false, hx, Except.ok.injEq, Prod.mk.injEq] at h; obtain ⟨rfl, rfl⟩ := h
          exact ⟨e, some x, rfl, by simp [setClient, hi], rfl⟩

/-- **A pure time-to-live change is safe under races.**  Client `i` stands at `upsert.update` of a `put_or_update(k)`
    that gives no value and no weight (it adds, moves or removes a time-to-live); `Act.pre` holds there (the key is
    present; `now + ttl` is representable).  The action runs; THE OTHER THREADS DO ANYTHING (`OthersRun i`: any number
    of actions of the worker, the sweeper, the consumer, the clock, the other clients — delete the key, evict it, let it
    expire, change its weight, shut down); then `upsert.weight_of` runs in a state in which the key id is not charged,
    or charged with `charge ∓ ttl_ticker_entry_size` a positive `i64` (`ttlChargeOk`).  Then, along EVERY continuation
    in which no new request is issued for client `i` (`CallRun i`: the other threads again do anything, between any
    two actions of the call):
    * every remaining action of the call meets `Act.pre` in the state in which it runs (so by
      `C17_layerB_step_no_panic` it records no panic and kills nobody),
    * no result recorded for client `i` from `upsert.update` on is a panic.
    `upsert.weight_of` itself always meets `Act.pre` for such a request.  Before the fix the hypothesis at
    `upsert.weight_of` had to be `ttl_ticker_entry_size < charge` with charge 0 for an id no longer charged — which a
    delete, an eviction or the sweeper falsified in the middle of the call (the former
    `C17_layerB_counterexample_race_*`). -/
theorem C17_layerB_ttl_only_upsert_safe_under_races {b b1 b2 b3 b4 : BState} {i k : Nat} {ttl : Option Nat} {rm : Bool}
    {o o1 o2 o3 : Oracle}
    (hpc : b.cl[i]? = some (.upUpdate k none none ttl rm)) (hpre : Act.pre b (.client i))
    (h1 : stepB b (.client i) o = .ok (b1, o1))
    (hothers : OthersRun i b1 b2)
    (hcharge : ∀ id old new, b2.cl[i]? = some (.upWeightOf id none old new) → ttlChargeOk b2.g id old new)
    (h2 : stepB b2 (.client i) o2 = .ok (b3, o3))
    (hrest : CallRun i b3 b4) :
    (∃ e new, b.g.store.get? k = some e ∧ b2.cl[i]? = some (.upWeightOf e.id none e.expiry new)) ∧
    Act.pre b2 (.client i) ∧ Act.pre b4 (.client i) ∧
    (PanicFreeAt b i → PanicFreeAt b2 i ∧ PanicFreeAt b3 i ∧ PanicFreeAt b4 i) := by
  obtain ⟨e, new, hk, hcl1, hres1⟩ := upUpdate_ttl_only hpc hpre h1
  have hcl2 : b2.cl[i]? = some (.upWeightOf e.id none e.expiry new) := by rw [hothers.keep_pc, hcl1]
  have hpre2 : Act.pre b2 (.client i) := by
    show clientPre b2.g b2.cl[i]?
    rw [hcl2]
    simp only [clientPre, CPc.pre]
    intro _; trivial
  have htail := weightOf_upTail hcl2 (hcharge _ _ _ hcl2) h2
  obtain ⟨_, r2, r3⟩ := upTail_callRun hrest htail
  refine ⟨⟨e, new, hk, hcl2⟩, hpre2, r2, fun hp => ?_⟩
  have hp1 : PanicFreeAt b1 i := by intro x hx; rw [hres1] at hx; exact hp x hx
  have hp2 := hothers.panicFreeAt hp1
  have hp3 := step_res_own hpre2 h2 hp2
  exact ⟨hp2, hp3, r3 hp3⟩

/-- … and in the case the fix is about — the key id is NOT CHARGED at `upsert.weight_of` (another thread took it out of
    the ledger, or it never got in) — the hypothesis on the charge is void: the call cannot panic any more, whatever
    the request's time-to-live change is. -/
theorem C17_layerB_ttl_only_upsert_uncharged_safe {b b1 b2 b3 b4 : BState} {i k : Nat} {ttl : Option Nat} {rm : Bool}
    {o o1 o2 o3 : Oracle}
    (hpc : b.cl[i]? = some (.upUpdate k none none ttl rm)) (hpre : Act.pre b (.client i))
    (h1 : stepB b (.client i) o = .ok (b1, o1)) (hothers : OthersRun i b1 b2)
    (hunch : ∀ e, b.g.store.get? k = some e → b2.g.adm.kw.get? e.id = none)
    (h2 : stepB b2 (.client i) o2 = .ok (b3, o3)) (hrest : CallRun i b3 b4) :
    Act.pre b2 (.client i) ∧ Act.pre b4 (.client i) ∧
    (PanicFreeAt b i → PanicFreeAt b2 i ∧ PanicFreeAt b3 i ∧ PanicFreeAt b4 i) := by
  obtain ⟨e, new, hk, hcl1, _⟩ := upUpdate_ttl_only hpc hpre h1
  have hcl2 : b2.cl[i]? = some (.upWeightOf e.id none e.expiry new) := by rw [hothers.keep_pc, hcl1]
  refine (C17_layerB_ttl_only_upsert_safe_under_races hpc hpre h1 hothers ?_ h2 hrest).2
  intro id old new' hcl
  rw [hcl2] at hcl
  simp only [Option.some.injEq, CPc.upWeightOf.injEq] at hcl
  obtain ⟨rfl, -, rfl, rfl⟩ := hcl
  exact ttlChargeOk_of_uncharged _ _ (hunch e hk)

/-- with no weight to hand on, the last action of the call answers `Accepted` on the spot and sends nothing -/
theorem C17_layerB_no_weight_accepted {b b' : BState} {i id e : Nat} {o o' : Oracle}
    (hpc : b.cl[i]? = some (.upTtlDelete id e none) ∨ b.cl[i]? = some (.upTtlPut id e none) ∨
      b.cl[i]? = some (.upTtlInsert id e none))
    (h : stepB b (.client i) o = .ok (b', o')) :
    b'.res = b.res.set i (.ack b.g.acks.length .accepted :: b.res.getD i []) ∧ b'.cl = b.cl.set i .idle ∧
    b'.g.acks = b.g.acks ++ [.accepted] ∧ b'.g.queue = b.g.queue := by
  rcases hpc with hpc | hpc | hpc
  all_goals
    simp only [stepB, clientAct, hpc] at h
    split at h
    · cases h
    · simp only [Except.ok.injEq, Prod.mk.injEq] at h; obtain ⟨rfl, rfl⟩ := h
      simp [upAfterIndex, spotFinish, finishCall, ttlDelete, ttlPut]


/-! ### Non-vacuity of `C17_layerB_ttl_only_upsert_safe_under_races` -/

/-- neither an action of client `i` nor a request for it -/
def Act.notOf (i : Nat) : Act → Bool
  | .client j => j != i
  | .issue j _ => j != i
  | _ => true

/-- not a request for client `i` -/
def Act.notIssueOf (i : Nat) : Act → Bool
  | .issue j _ => j != i
  | _ => true

theorem Act.notOf_sound {i : Nat} {a : Act} (h : a.notOf i = true) : a ≠ .client i ∧ ∀ r, a ≠ .issue i r := by
  cases a <;> simp_all [Act.notOf]

theorem Act.notIssueOf_sound {i : Nat} {a : Act} (h : a.notIssueOf i = true) : ∀ r, a ≠ .issue i r := by
  cases a <;> simp_all [Act.notIssueOf]

/-- runs a list of actions none of which is client `i`'s, followed by a check of the state reached -/
def checkOthers (i : Nat) : BState → List (Act × Oracle) → (BState → Bool) → Bool
  | b, [], q => q b
  | b, (a, o) :: tr, q =>
    a.notOf i && (match stepB b a o with
      | .ok (b', _) => checkOthers i b' tr q
      | .error _ => false)

/-- runs a list of actions none of which issues a request for client `i`, followed by a check of the state reached -/
def checkCall (i : Nat) : BState → List (Act × Oracle) → (BState → Bool) → Bool
  | b, [], q => q b
  | b, (a, o) :: tr, q =>
    a.notIssueOf i && (match stepB b a o with
      | .ok (b', _) => checkCall i b' tr q
      | .error _ => false)

theorem checkOthers_sound {i : Nat} {q : BState → Bool} : ∀ (tr : List (Act × Oracle)) {b : BState},
    checkOthers i b tr q = true → ∃ b', OthersRun i b b' ∧ q b' = true := by
  intro tr
  induction tr with
  | nil => intro b h; exact ⟨b, .nil b, h⟩
  | cons x tr ih =>
    intro b h
    obtain ⟨a, o⟩ := x
    simp only [checkOthers, Bool.and_eq_true] at h
    obtain ⟨ha, h⟩ := h
    split at h
    · rename_i b1 o1 hs
      obtain ⟨b', hr, hq⟩ := ih h
      exact ⟨b', .cons (Act.notOf_sound ha).1 (Act.notOf_sound ha).2 hs hr, hq⟩
    · cases h

theorem checkCall_sound {i : Nat} {q : BState → Bool} : ∀ (tr : List (Act × Oracle)) {b : BState},
    checkCall i b tr q = true → ∃ b', CallRun i b b' ∧ q b' = true := by
  intro tr
  induction tr with
  | nil => intro b h; exact ⟨b, .nil b, h⟩
  | cons x tr ih =>
    intro b h
    obtain ⟨a, o⟩ := x
    simp only [checkCall, Bool.and_eq_true] at h
    obtain ⟨ha, h⟩ := h
    split at h
    · rename_i b1 o1 hs
      obtain ⟨b', hr, hq⟩ := ih h
      exact ⟨b', .cons (Act.notIssueOf_sound ha) hs hr, hq⟩
    · cases h

/-- the hypothesis on the charge, from the position the client is found at -/
theorem hcharge_of {b2 : BState} {i id : Nat} {old new : Option Nat}
    (hcl : b2.cl[i]? = some (.upWeightOf id none old new)) (hc : ttlChargeOk b2.g id old new) :
    ∀ id' old' new', b2.cl[i]? = some (.upWeightOf id' none old' new') → ttlChargeOk b2.g id' old' new' := by
  intro id' old' new' h
  rw [hcl] at h
  simp only [Option.some.injEq, CPc.upWeightOf.injEq] at h
  obtain ⟨rfl, -, rfl, rfl⟩ := h
  exact hc

/-- **The key id is NOT charged at `upsert.weight_of`** — all hypotheses of
    `C17_layerB_ttl_only_upsert_safe_under_races` on the run of the former `…_race_delete`: client 0 at
    `upsert.update` of `put_or_update(1).remove_time_to_live()` (key 1 stored, charged 29); its action; THE OTHERS:
    client 1 calls `delete(1)`, the worker executes it up to `kw.remove` (seven actions); `upsert.weight_of` finds
    id 1 not charged; the rest of the call (with a worker action in between): answered `Accepted`. -/
example : ∃ b b1 b2 b3 b4 o1 o3,
    ValidRunB (c17B 2) (c17RaceSetup ++ acts [.issue 0 (.upsert 1 none none none true), .client 0]) b ∧
    b.cl[0]? = some (.upUpdate 1 none none none true) ∧ Act.pre b (.client 0) ∧
    stepB b (.client 0) {} = .ok (b1, o1) ∧ OthersRun 0 b1 b2 ∧
    b2.g.adm.kw.get? 1 = none ∧ b2.g.store.get? 1 = none ∧
    (∀ id old new, b2.cl[0]? = some (.upWeightOf id none old new) → ttlChargeOk b2.g id old new) ∧
    stepB b2 (.client 0) {} = .ok (b3, o3) ∧ CallRun 0 b3 b4 ∧ PanicFreeAt b 0 ∧
    b4.cl[0]? = some .idle ∧ b4.res[0]? = some [.ack 2 .accepted, .ack 0 .pending] := by
  have h : checkRun (c17B 2) (c17RaceSetup ++ acts [.issue 0 (.upsert 1 none none none true), .client 0]) (fun b =>
      decide (b.cl[0]? = some (.upUpdate 1 none none none true) ∧ Act.pre b (.client 0) ∧ PanicFreeAt b 0) &&
      checkStep b (.client 0) {} (fun b1 =>
        checkOthers 0 b1 (acts [.issue 1 (.delete 1), .client 1, .client 1, .client 1, .worker, .worker, .worker])
          (fun b2 => decide (b2.g.adm.kw.get? 1 = none ∧ b2.g.store.get? 1 = none ∧
              b2.cl[0]? = some (.upWeightOf 1 none (some 4000000000) none) ∧
              ttlChargeOk b2.g 1 (some 4000000000) none) &&
            checkStep b2 (.client 0) {} (fun b3 =>
              checkCall 0 b3 (acts [.worker, .client 0]) (fun b4 => decide (
                b4.cl[0]? = some .idle ∧ b4.res[0]? = some [.ack 2 .accepted, .ack 0 .pending])))))) = true := by
    decide +kernel
  obtain ⟨b, hv, hq⟩ := checkRun_sound h
  simp only [Bool.and_eq_true, decide_eq_true_eq] at hq
  obtain ⟨b1, o1, hs1, hq1⟩ := checkStep_sound hq.2
  obtain ⟨b2, hr2, hq2⟩ := checkOthers_sound _ hq1
  simp only [Bool.and_eq_true, decide_eq_true_eq] at hq2
  obtain ⟨b3, o3, hs3, hq3⟩ := checkStep_sound hq2.2
  obtain ⟨b4, hr4, hq4⟩ := checkCall_sound _ hq3
  obtain ⟨g1, g2, g3⟩ := hq.1
  obtain ⟨k1, k2, k3, k4⟩ := hq2.1
  have hq4' := of_decide_eq_true hq4
  exact ⟨b, b1, b2, b3, b4, o1, o3, hv, g1, g2, hs1, hr2, k1, k2, hcharge_of k3 k4, hs3, hr4, g3, hq4'.1, hq4'.2⟩

/-- **The key id IS charged at `upsert.weight_of`, a time-to-live is added** — all hypotheses on the run `c17RunOk`:
    after 21 actions client 0 stands at `upsert.update` of `put_or_update(1).time_to_live(2 s)`; its action; THE OTHERS:
    the worker goes on with the put of key 2 (four actions), client 2 reads key 1 (four actions); `upsert.weight_of` finds
    id 1 charged 29, and `29 + 24` is a positive `i64`; the rest of the call with the worker and the sweeper in
    between: `UpdateWeight(1, 53)` is sent. -/
example : ∃ b b1 b2 b3 b4 o1 o3, ValidRunB (c17B 3) (c17RunOk.take 21) b ∧
    b.cl[0]? = some (.upUpdate 1 none none (some 2000000000) false) ∧ Act.pre b (.client 0) ∧
    stepB b (.client 0) {} = .ok (b1, o1) ∧ OthersRun 0 b1 b2 ∧
    b2.g.adm.kw.get? 1 = some { key := 1, hash := 1, weight := 29 } ∧
    (∀ id old new, b2.cl[0]? = some (.upWeightOf id none old new) → ttlChargeOk b2.g id old new) ∧
    stepB b2 (.client 0) {} = .ok (b3, o3) ∧ CallRun 0 b3 b4 ∧ PanicFreeAt b 0 ∧
    b4.cl[0]? = some .idle ∧ b4.res[0]? = some [.ack 2 .pending, .ack 0 .pending] ∧
    b4.g.queue = [(.updateWeight 1 53, some 2)] := by
  have h : checkRun (c17B 3) (c17RunOk.take 21) (fun b =>
      decide (b.cl[0]? = some (.upUpdate 1 none none (some 2000000000) false) ∧ Act.pre b (.client 0) ∧
        PanicFreeAt b 0) &&
      checkStep b (.client 0) {} (fun b1 =>
        checkOthers 0 b1 ((c17RunOk.drop 22).take 8)
          (fun b2 => decide (b2.g.adm.kw.get? 1 = some { key := 1, hash := 1, weight := 29 } ∧
              b2.cl[0]? = some (.upWeightOf 1 none none (some 5000000000)) ∧
              ttlChargeOk b2.g 1 none (some 5000000000)) &&
            checkStep b2 (.client 0) {} (fun b3 =>
              checkCall 0 b3 ((c17RunOk.drop 31).take 6) (fun b4 => decide (
                b4.cl[0]? = some .idle ∧ b4.res[0]? = some [.ack 2 .pending, .ack 0 .pending] ∧
                b4.g.queue = [(.updateWeight 1 53, some 2)])))))) = true := by
    decide +kernel
  obtain ⟨b, hv, hq⟩ := checkRun_sound h
  simp only [Bool.and_eq_true, decide_eq_true_eq] at hq
  obtain ⟨b1, o1, hs1, hq1⟩ := checkStep_sound hq.2
  obtain ⟨b2, hr2, hq2⟩ := checkOthers_sound _ hq1
  simp only [Bool.and_eq_true, decide_eq_true_eq] at hq2
  obtain ⟨b3, o3, hs3, hq3⟩ := checkStep_sound hq2.2
  obtain ⟨b4, hr4, hq4⟩ := checkCall_sound _ hq3
  obtain ⟨g1, g2, g3⟩ := hq.1
  obtain ⟨k1, k2, k3⟩ := hq2.1
  have hq4' := of_decide_eq_true hq4
  exact ⟨b, b1, b2, b3, b4, o1, o3, hv, g1, g2, hs1, hr2, k1, hcharge_of k2 k3, hs3, hr4, g3, hq4'.1, hq4'.2.1,
    hq4'.2.2⟩

/-- the hypothesis on the charge cannot be dropped for a CHARGED id: `C17_layerB_counterexample_ttl_removal` (key 1
    charged 5, `5 - 24`) and `C17_layerB_counterexample_weight_overflow_caller` — there `ttlChargeOk` fails at
    `upsert.weight_of` -/
example : ∃ b, ValidRunB (c17B 2)
      (acts (putActs 0 1 10 5 (some 1000000000) ++ List.replicate 7 .worker ++
        .issue 0 (.upsert 1 none none none true) :: List.replicate 2 (.client 0))) b ∧
    b.cl[0]? = some (.upWeightOf 1 none (some 4000000000) none) ∧ ¬ ttlChargeOk b.g 1 (some 4000000000) none := by
  have h : checkRun (c17B 2) (acts (putActs 0 1 10 5 (some 1000000000) ++ List.replicate 7 .worker ++
        .issue 0 (.upsert 1 none none none true) :: List.replicate 2 (.client 0)))
      (fun b => decide (b.cl[0]? = some (.upWeightOf 1 none (some 4000000000) none) ∧
        ¬ ttlChargeOk b.g 1 (some 4000000000) none)) = true := by decide +kernel
  obtain ⟨b, hv, hq⟩ := checkRun_sound h
  exact ⟨b, hv, of_decide_eq_true hq⟩

end B
end Cached
