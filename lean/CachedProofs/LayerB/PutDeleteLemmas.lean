/-
  Helper lemmas for LayerB/PutDelete.lean (C11: the un-awaited `put(k); delete(k)` of ONE caller, for all interleavings).

    1  tags: the key a command / a client position is aimed at (`cmdKey?`, `onK`), the positions of `shutdown()`
       (`shutPath`); `client_tags`: a client action never CREATES a tag
    2  `Env`: the environment invariant of the histories considered — no `shutdown()` under way, no client but `i`
       works on a put / upsert / delete of `k`
-/
import CachedProofs.LayerB.History
import CachedProofs.LayerB.Bijection

namespace Cached
namespace B
namespace PD
open Hist

/-! ## 1  tags -/

/-- the key a command writes (`Put`, `PutWithTTL`, `Delete`) -/
def cmdKey? : Cmd → Option Nat
  | .put _ _ _ k _ => some k
  | .putTtl _ _ _ k _ _ => some k
  | .delete k => some k
  | _ => none

/-- no command of the list writes the key `k` -/
def KFree (k : Nat) (q : List (Cmd × Option Nat)) : Prop := ∀ p ∈ q, cmdKey? p.1 ≠ some k

theorem KFree.nil (k : Nat) : KFree k [] := fun _ h => by cases h

theorem KFree.append {k : Nat} {q q' : List (Cmd × Option Nat)} (h : KFree k q) (h' : KFree k q') : KFree k (q ++ q') := by
  intro p hp
  rcases List.mem_append.mp hp with hp | hp
  · exact h p hp
  · exact h' p hp

theorem KFree.one {k : Nat} {c : Cmd} {hh : Option Nat} (h : cmdKey? c ≠ some k) : KFree k [(c, hh)] := by
  intro p hp
  simp only [List.mem_singleton] at hp
  subst hp
  exact h

theorem KFree.tail {k : Nat} {x : Cmd × Option Nat} {q : List (Cmd × Option Nat)} (h : KFree k (x :: q)) : KFree k q :=
  fun p hp => h p (List.mem_cons_of_mem _ hp)

theorem KFree.head {k : Nat} {x : Cmd × Option Nat} {q : List (Cmd × Option Nat)} (h : KFree k (x :: q)) :
    cmdKey? x.1 ≠ some k := h x List.mem_cons_self

/-- the request is a put / upsert / delete of the key `k` -/
def reqOnK (k : Nat) : Req → Bool
  | .putW k' _ _ _ => k' == k
  | .upsert k' _ _ _ _ => k' == k
  | .delete k' => k' == k
  | _ => false

/-- the client stands inside a put / upsert / delete of `k`, at a position from which it may still write the store entry
    of `k` or send a command that writes `k` -/
def onK (k : Nat) : CPc → Bool
  | .start r => reqOnK k r
  | .putPresent k' _ _ _ => k' == k
  | .idNext k' _ _ _ => k' == k
  | .send cmd => cmdKey? cmd == some k
  | .delMark k' => k' == k
  | .upUpdate k' _ _ _ _ => k' == k
  | _ => false

/-- the client stands inside `shutdown()` (or is about to send a `Shutdown` command) -/
def shutPath : CPc → Bool
  | .start .shutdown => true
  | .shutCas => true
  | .send .shutdown => true
  | pc => pc.afterCas

theorem shutPath_of_afterCas {pc : CPc} (h : pc.afterCas = true) : shutPath pc = true := by
  cases pc <;> simp_all [shutPath, CPc.afterCas]

theorem cmdKey?_cmdOfPut (c : PutCmd) : cmdKey? (cmdOfPut c) = some c.k := by
  unfold cmdOfPut; split <;> rfl

/-- a client action from a position other than `start` and `upsert.update` creates no tag -/
theorem client_tags_other {b b' : BState} {i : Nat} {pc pc' : CPc} (ht : CTrans b i b')
    (hpc : b.cl[i]? = some pc) (hpc' : b'.cl[i]? = some pc')
    (h1 : ∀ r, pc ≠ .start r) (h2 : ∀ k v w ttl rm, pc ≠ .upUpdate k v w ttl rm) :
    (∀ k, onK k pc' = true → onK k pc = true) ∧ (shutPath pc' = true → shutPath pc = true) := by
  have hne : ∀ {x : CPc}, b.cl[i]? = some x → pc = x := fun hx => Option.some.inj (hpc.symm.trans hx)
  cases ht
  case startPut k v w ttl hpc0 _ => exact absurd (hne hpc0) (h1 _)
  case startPlain r pc1 hpc0 _ => exact absurd (hne hpc0) (h1 _)
  case upPut k v w ttl rm val weight hpc0 _ _ => exact absurd (hne hpc0) (h2 _ _ _ _ _)
  case upUpdate k v w ttl rm e ne uw hpc0 _ _ => exact absurd (hne hpc0) (h2 _ _ _ _ _)
  case idNext k v w ttl hpc0 =>
    have := hne hpc0; subst this
    have := pc_of_set hpc'; subst this
    cases ttl <;> simp [onK, shutPath, cmdKey?, CPc.afterCas]
  case upWeightOfTtl id uw old new pc1 hpc0 hu _ _ =>
    have := pc_of_set hpc'; subst this
    cases pc' <;> simp [CPc.usedId?, onK, shutPath, CPc.afterCas] at hu ⊢
  case shutLocal pc0 pc1 g' hpc0 hac0 hac hg =>
    have := hne hpc0; subst this
    have := pc_of_set hpc'; subst this
    clear hg
    refine ⟨fun k hk => ?_, fun _ => shutPath_of_afterCas hac0⟩
    cases pc' <;> simp [CPc.afterCas, onK] at hac hk
  case mgetStep pc0 pc1 g' hpc0 _ hm hg =>
    have := pc_of_set hpc'; subst this
    clear hg
    cases pc' <;> simp [CPc.isMget, onK, shutPath, CPc.afterCas] at hm ⊢
  case upAfterSame id uw old new hpc0 =>
    rcases upAfterIndex_spec b i id uw with ⟨_, e⟩ | ⟨_, _, e⟩ | e <;> rw [e] at hpc' <;>
      (have := pc_of_set hpc'; subst this; simp [onK, shutPath, cmdKey?, CPc.afterCas])
  case upAfterPut pc0 id e uw _ _ _ =>
    rcases upAfterIndex_spec { b with g := ttlPut b.g id e } i id uw with ⟨_, e⟩ | ⟨_, _, e⟩ | e <;> rw [e] at hpc' <;>
      (have := pc_of_set hpc'; subst this; simp [onK, shutPath, cmdKey?, CPc.afterCas])
  case upAfterDelete id e uw _ _ =>
    rcases upAfterIndex_spec { b with g := ttlDelete b.g id e } i id uw with ⟨_, e⟩ | ⟨_, _, e⟩ | e <;>
      rw [e] at hpc' <;> (have := pc_of_set hpc'; subst this; simp [onK, shutPath, cmdKey?, CPc.afterCas])
  all_goals
    have := hne (by assumption)
    subst this
    have := pc_of_set hpc'
    subst this
    simp [onK, shutPath, cmdKey?, CPc.afterCas]

/-- **a client action never creates a tag**: the position after it is aimed at `k` (stands inside `shutdown()`) only if
    the position before it was -/
theorem client_tags {b b' : BState} {i : Nat} {o o' : Oracle} {pc pc' : CPc}
    (hs : clientAct b i o = .ok (b', o')) (hpc : b.cl[i]? = some pc) (hpc' : b'.cl[i]? = some pc') :
    (∀ k, onK k pc' = true → onK k pc = true) ∧ (shutPath pc' = true → shutPath pc = true) := by
  by_cases h1 : ∃ r, pc = .start r
  · obtain ⟨r, rfl⟩ := h1
    unfold clientAct at hs
    simp only [hpc] at hs
    split at hs
    · cases r <;> simp only [Except.ok.injEq, Prod.mk.injEq] at hs <;> obtain ⟨rfl, rfl⟩ := hs <;>
        (have := pc_of_set hpc'; subst this; simp [onK, shutPath, CPc.afterCas])
    · cases r with
      | putW k v w ttl =>
        simp only [] at hs
        split at hs <;> simp only [Except.ok.injEq, Prod.mk.injEq] at hs <;> obtain ⟨rfl, rfl⟩ := hs <;>
          (have := pc_of_set hpc'; subst this; simp [onK, shutPath, reqOnK, CPc.afterCas])
      | mget ks iter =>
        simp only [Except.ok.injEq, Prod.mk.injEq] at hs; obtain ⟨rfl, rfl⟩ := hs
        rcases mgetNext_spec b i ks [] iter with ⟨out, e⟩ | ⟨k, rest, _, _, e⟩ <;> rw [e] at hpc' <;>
          (have := pc_of_set hpc'; subst this; simp [onK, shutPath, CPc.afterCas])
      | _ =>
        simp only [Except.ok.injEq, Prod.mk.injEq] at hs; obtain ⟨rfl, rfl⟩ := hs
        have := pc_of_set hpc'; subst this
        simp [onK, shutPath, reqOnK, CPc.afterCas]
  by_cases h2 : ∃ k v w ttl rm, pc = .upUpdate k v w ttl rm
  · obtain ⟨k, v, w, ttl, rm, rfl⟩ := h2
    unfold clientAct at hs
    simp only [hpc] at hs
    split at hs
    · cases hs
    · split at hs
      · split at hs
        · split at hs <;> simp only [Except.ok.injEq, Prod.mk.injEq] at hs <;> obtain ⟨rfl, rfl⟩ := hs <;>
            (have := pc_of_set hpc'; subst this; simp [onK, shutPath, CPc.afterCas])
        · simp only [Except.ok.injEq, Prod.mk.injEq] at hs; obtain ⟨rfl, rfl⟩ := hs
          have := pc_of_set hpc'; subst this
          simp [onK, shutPath, CPc.afterCas]
      · split at hs <;> simp only [Except.ok.injEq, Prod.mk.injEq] at hs <;> obtain ⟨rfl, rfl⟩ := hs <;>
          (have := pc_of_set hpc'; subst this; simp [onK, shutPath, CPc.afterCas])
  · exact client_tags_other (clientAct_trans hs) hpc hpc' (fun r e => h1 ⟨r, e⟩)
      (fun k v w ttl rm e => h2 ⟨k, v, w, ttl, rm, e⟩)

/-! ## 2  one action, thread by thread -/

theorem stepB_issue_inv {b b' : BState} {j : Nat} {r : Req} {o o' : Oracle}
    (h : stepB b (.issue j r) o = .ok (b', o')) : b.cl[j]? = some .idle ∧ b' = setClient b j (.start r) := by
  simp only [stepB] at h
  split at h
  · rename_i b1 hi
    simp only [Except.ok.injEq, Prod.mk.injEq] at h; obtain ⟨rfl, rfl⟩ := h
    unfold issue at hi
    split at hi
    · rename_i hidle
      simp only [Except.ok.injEq] at hi; subst hi
      exact ⟨hidle, rfl⟩
    · cases hi
  · cases h

theorem stepB_sweeper_inv {b b' : BState} {v : Option Nat} {o o' : Oracle}
    (h : stepB b (.sweeper v) o = .ok (b', o')) : sweeperAct b v = .ok b' := by
  simp only [stepB] at h
  split at h
  · rename_i b1 hs
    simp only [Except.ok.injEq, Prod.mk.injEq] at h
    rw [← h.1]; exact hs
  · cases h

theorem stepB_consumer_inv {b b' : BState} {o o' : Oracle} (h : stepB b .consumer o = .ok (b', o')) :
    ∃ g', b' = { b with g := g' } ∧
      g' = { b.g with bufq := g'.bufq, lfu := g'.lfu, consumerAlive := g'.consumerAlive } := by
  simp only [stepB] at h
  split at h
  · rename_i g' out o1 hc
    simp only [Except.ok.injEq, Prod.mk.injEq] at h; obtain ⟨rfl, rfl⟩ := h
    exact ⟨g', rfl, consumerStep_frame hc⟩
  · cases h

theorem stepB_advance_inv {b b' : BState} {d : Nat} {o o' : Oracle} (h : stepB b (.advance d) o = .ok (b', o')) :
    b' = { b with g := { b.g with now := b.g.now + d } } := by
  simp only [stepB, Except.ok.injEq, Prod.mk.injEq] at h
  exact h.1.symm

/-- the only client action that sets the shutdown flag is `shutdown.cas` -/
theorem ctrans_shutting_eq {b b' : BState} {i : Nat} (h : CTrans b i b') :
    b'.g.shutting = b.g.shutting ∨ b.cl[i]? = some .shutCas := by
  cases h
  case getPool hp => rw [poolAdd_frame hp]; simp [finishCall]
  case refPool hp => rw [poolAdd_frame hp]; simp [finishCall]
  case shutLocal hg => rw [hg]; simp [setClient]
  case mgetStep hg => rw [hg]; simp [setClient]
  case mgetFin hg => rw [hg]; simp [finishCall]
  case shutCas hpc _ => exact Or.inr hpc
  case upAfterSame => rcases upAfterIndex_spec b i _ _ with ⟨_, h⟩ | ⟨_, _, h⟩ | h <;> rw [h] <;> simp [finishCall, setClient, spotFinish]
  case upAfterPut id e uw _ _ _ =>
    rcases upAfterIndex_spec { b with g := ttlPut b.g id e } i id uw with ⟨_, h⟩ | ⟨_, _, h⟩ | h <;> rw [h] <;>
      simp [finishCall, setClient, spotFinish, ttlPut]
  case upAfterDelete id e uw _ _ =>
    rcases upAfterIndex_spec { b with g := ttlDelete b.g id e } i id uw with ⟨_, h⟩ | ⟨_, _, h⟩ | h <;> rw [h] <;>
      simp [finishCall, setClient, spotFinish, ttlDelete]
  all_goals simp [finishCall, setClient, spotFinish, ttlDelete]

/-! ## 3  the environment: no `shutdown()` under way, nobody but client `i` writes `k` -/

/-- **The environment invariant.**  The cache is running and nobody stands inside `shutdown()`; no `Shutdown` command
    waits; the worker is not draining; no client other than `i` stands inside a put / upsert / delete of `k`. -/
structure Env (i k : Nat) (b : BState) : Prop where
  flag : b.g.shutting = false
  noShut : ∀ (j : Nat) (pc : CPc), b.cl[j]? = some pc → shutPath pc = false
  queue : ∀ p ∈ b.g.queue, p.1 ≠ .shutdown
  drain : b.w ≠ .drain
  others : ∀ (j : Nat) (pc : CPc), j ≠ i → b.cl[j]? = some pc → onK k pc = false

/-- what the environment allows to be ISSUED: never `shutdown()`, and by a client other than `i` no put / upsert /
    delete of `k` -/
def IssueOk (i k : Nat) (a : Act) : Prop :=
  ∀ j r, a = .issue j r → r ≠ .shutdown ∧ (j ≠ i → reqOnK k r = false)

theorem bool_false_of_imp {x y : Bool} (h : x = true → y = true) (hy : y = false) : x = false := by
  cases x
  · rfl
  · rw [h rfl] at hy; cases hy

/-- a client's action in the environment: the position it leaves is not aimed at `shutdown()`; the flag stays down; the
    queue stays or takes the command the client was about to send (never `Shutdown`) -/
theorem env_client_queue {i k : Nat} {b b' : BState} {j : Nat} {o o' : Oracle} (he : Env i k b)
    (hs : clientAct b j o = .ok (b', o')) :
    b'.g.queue = b.g.queue ∨
    ∃ cmd, b.cl[j]? = some (.send cmd) ∧ cmd ≠ .shutdown ∧ b'.g.queue = b.g.queue ++ [(cmd, some b.g.acks.length)] ∧
      b'.g.acks = b.g.acks ++ [.pending] := by
  rcases ctrans_cstep (clientAct_trans hs) with ⟨hq, _⟩ | ⟨_, hq, _⟩ | ⟨cmd, hpc, hq, ha⟩ | ⟨hpc, _, _, _⟩
  · exact Or.inl hq
  · exact Or.inl hq
  · refine Or.inr ⟨cmd, hpc, ?_, hq, ha⟩
    rintro rfl
    have := he.noShut j _ hpc
    simp [shutPath] at this
  · have := he.noShut j _ hpc
    simp [shutPath, CPc.afterCas] at this

theorem env_step {i k : Nat} {b b' : BState} {a : Act} {o o' : Oracle} (he : Env i k b)
    (hs : stepB b a o = .ok (b', o')) (hok : IssueOk i k a) : Env i k b' := by
  cases a with
  | issue j r =>
    obtain ⟨_, rfl⟩ := stepB_issue_inv hs
    obtain ⟨hr, hk⟩ := hok j r rfl
    refine ⟨he.flag, ?_, he.queue, he.drain, ?_⟩
    · intro j' pc hpc
      by_cases hj : j' = j
      · subst hj
        have := pc_of_set hpc; subst this
        cases r <;> simp [shutPath, CPc.afterCas] at hr ⊢
      · simp only [setClient, List.getElem?_set_ne (Ne.symm hj)] at hpc
        exact he.noShut j' pc hpc
    · intro j' pc hj' hpc
      by_cases hj : j' = j
      · subst hj
        have := pc_of_set hpc; subst this
        exact hk hj'
      · simp only [setClient, List.getElem?_set_ne (Ne.symm hj)] at hpc
        exact he.others j' pc hj' hpc
  | client j =>
    simp only [stepB] at hs
    have ht := clientAct_trans hs
    obtain ⟨pc, pc', hpc, hcl, _, _⟩ := ctrans_cl ht
    have hsp : shutPath pc = false := he.noShut j pc hpc
    have hlt : j < b.cl.length := lt_of_getElem?_some hpc
    have hpc' : b'.cl[j]? = some pc' := by rw [hcl]; simp [hlt]
    obtain ⟨htk, hts⟩ := client_tags hs hpc hpc'
    refine ⟨?_, ?_, ?_, ?_, ?_⟩
    · rcases ctrans_shutting_eq ht with h | h
      · rw [h]; exact he.flag
      · rw [hpc] at h; cases h; simp [shutPath] at hsp
    · intro j' pc1 hpc1
      by_cases hj : j' = j
      · subst hj
        rw [hpc'] at hpc1; cases hpc1
        exact bool_false_of_imp hts hsp
      · rw [hcl, List.getElem?_set_ne (Ne.symm hj)] at hpc1
        exact he.noShut j' pc1 hpc1
    · intro p hp
      rcases env_client_queue he hs with hq | ⟨cmd, _, hne, hq, _⟩
      · rw [hq] at hp; exact he.queue p hp
      · rw [hq] at hp
        rcases List.mem_append.mp hp with hp | hp
        · exact he.queue p hp
        · simp only [List.mem_singleton] at hp; subst hp; exact hne
    · rw [(ctrans_frame ht).1]; exact he.drain
    · intro j' pc1 hj' hpc1
      by_cases hj : j' = j
      · subst hj
        rw [hpc'] at hpc1; cases hpc1
        exact bool_false_of_imp (htk k) (he.others j' pc hj' hpc)
      · rw [hcl, List.getElem?_set_ne (Ne.symm hj)] at hpc1
        exact he.others j' pc1 hj' hpc1
  | worker =>
    simp only [stepB] at hs
    have ht := workerAct_trans hs
    obtain ⟨hq, _⟩ := wtrans_prov ht
    refine ⟨by rw [wtrans_shutting ht]; exact he.flag, by rw [(wtrans_cl ht).1]; exact he.noShut,
      fun p hp => he.queue p (hq p hp), ?_, by rw [(wtrans_cl ht).1]; exact he.others⟩
    cases wtrans_wstep ht with
    | take _ _ _ _ _ _ hb => intro e; rw [e] at hb; cases hb
    | takeShutdown hh q hq0 => exact absurd rfl (he.queue (.shutdown, hh) (by rw [hq0]; exact List.mem_cons_self))
    | takeDrain _ _ _ _ _ hw => exact absurd hw he.drain
    | cont _ hb => intro e; rw [e] at hb; cases hb
    | complete _ _ hw => rw [hw]; simp
    | die _ hw => rw [hw]; simp
  | sweeper v =>
    have ht := sweeperAct_trans (stepB_sweeper_inv hs)
    obtain ⟨hw, hcl, hq, _⟩ := strans_frame ht
    exact ⟨by rw [(strans_frame2 ht).1]; exact he.flag, by rw [hcl]; exact he.noShut, by rw [hq]; exact he.queue,
      by rw [hw]; exact he.drain, by rw [hcl]; exact he.others⟩
  | consumer =>
    obtain ⟨g', rfl, hg⟩ := stepB_consumer_inv hs
    exact ⟨by show g'.shutting = false; rw [hg]; exact he.flag, he.noShut,
      by show ∀ p ∈ g'.queue, _; rw [hg]; exact he.queue, he.drain, he.others⟩
  | advance d =>
    rw [stepB_advance_inv hs]
    exact ⟨he.flag, he.noShut, he.queue, he.drain, he.others⟩

/-! ## 4  the worker's takes, exactly -/

theorem cmdOfPut_inj {c c' : PutCmd} (h : cmdOfPut c = cmdOfPut c') (hh : c.h = c'.h) : c = c' := by
  obtain ⟨id, hash, w, k, v, ttl, h1⟩ := c
  obtain ⟨id', hash', w', k', v', ttl', h1'⟩ := c'
  simp only at hh
  subst hh
  cases ttl <;> cases ttl' <;> simp only [cmdOfPut] at h <;> first | cases h; rfl | cases h

/-- where the worker stands after taking the command `cmd` with handle `hh` -/
def takeW : Cmd → Option Nat → WPc
  | .put id hash w k v, hh => .present ⟨id, hash, w, k, v, none, hh⟩
  | .putTtl id hash w k v t, hh => .present ⟨id, hash, w, k, v, some t, hh⟩
  | .updateWeight id w, hh => .update id w hh
  | .delete k, hh => .delStore k hh
  | .shutdown, _ => .drain

theorem takeW_cmdOfPut (c : PutCmd) : takeW (cmdOfPut c) c.h = .present c := by
  obtain ⟨id, hash, w, k, v, ttl, h1⟩ := c
  cases ttl <;> rfl

/-- the take of a command other than `Shutdown`: the head leaves the queue, nothing else changes -/
theorem worker_recv {b b' : BState} {o o' : Oracle} {cmd : Cmd} {hh : Option Nat} {q : List (Cmd × Option Nat)}
    (hw : b.w = .recv) (hq : b.g.queue = (cmd, hh) :: q) (hne : cmd ≠ .shutdown)
    (hs : workerAct b o = .ok (b', o')) : b' = { b with g := { b.g with queue := q }, w := takeW cmd hh } := by
  simp only [workerAct, hw, hq] at hs
  cases cmd <;> simp only [Except.ok.injEq, Prod.mk.injEq] at hs
  case shutdown => exact absurd rfl hne
  all_goals exact hs.1.symm

/-- what the worker holds after a take of a command that does not write `k` -/
theorem takeW_cmd {cmd : Cmd} {hh : Option Nat} {c : PutCmd} (h : (takeW cmd hh).cmd? = some c) : cmdKey? cmd = some c.k := by
  cases cmd <;> simp only [takeW, WPc.cmd?, Option.some.injEq, reduceCtorEq] at h <;> subst h <;> rfl

theorem takeW_delStore {cmd : Cmd} {hh hh' : Option Nat} {k : Nat} (h : takeW cmd hh = .delStore k hh') :
    cmd = .delete k ∧ hh' = hh := by
  cases cmd <;> simp only [takeW, WPc.delStore.injEq, reduceCtorEq] at h
  exact ⟨by rw [h.1], h.2.symm⟩

/-- the worker is not working on `k`: it holds no put of `k` and does not stand at the `store.remove` of a `Delete(k)` -/
def WOff (k : Nat) (w : WPc) : Prop := (∀ c, w.cmd? = some c → c.k ≠ k) ∧ (∀ hh, w ≠ .delStore k hh)

theorem woff_recv (k : Nat) : WOff k .recv := by
  constructor
  · intro c h; cases h
  · intro hh h; cases h

theorem woff_takeW {k : Nat} {cmd : Cmd} {hh : Option Nat} (h : cmdKey? cmd ≠ some k) : WOff k (takeW cmd hh) := by
  refine ⟨fun c hc e => h ?_, fun hh' e => h ?_⟩
  · rw [takeW_cmd hc, e]
  · rw [(takeW_delStore e).1]; rfl

/-- a worker action that is not a take keeps `WOff` -/
theorem woff_keep {k : Nat} {b b' : BState} (ht : WTrans b b') (hw : b.w ≠ .recv) (ho : WOff k b.w) : WOff k b'.w := by
  obtain ⟨h1, h2⟩ := ho
  cases ht
  case recvPut hw0 _ => exact absurd hw0 hw
  case recvUpdate hw0 _ => exact absurd hw0 hw
  case recvDelete hw0 _ => exact absurd hw0 hw
  case recvShutdown hw0 _ => exact absurd hw0 hw
  all_goals
    refine ⟨fun c hc => ?_, fun hh e => ?_⟩
    · first
        | (simp [WPc.cmd?, finishCmd, rejectCmd] at hc; done)
        | (apply h1; simp_all [WPc.cmd?, finishCmd, rejectCmd])
    · first
        | (simp [finishCmd, rejectCmd] at e; done)

/-- the positions of a `Delete` command after its `store.remove` -/
def delTail : WPc → Bool
  | .delKw _ _ _ | .delSub _ _ _ _ | .delTtl _ _ _ => true
  | _ => false

/-! ## 5  the ledger and the fresh ids under one worker action -/

/-- a worker action that is not the `kw.insert` of `id` keeps "the charge of `id`, if any, is a charge for `k`" -/
theorem wtrans_kw_key {k id : Nat} {b b' : BState} (ht : WTrans b b') (hins : ∀ c, b.w = .insert c → c.id ≠ id)
    (hk : ∀ wk, b.g.adm.kw.get? id = some wk → wk.key = k) :
    ∀ wk, b'.g.adm.kw.get? id = some wk → wk.key = k := by
  cases ht
  case insert c hw =>
    intro wk h
    simp only [] at h
    rw [AMap.get?_set_other _ _ (hins c hw)] at h
    exact hk wk h
  case evRemoveSome c e s victim wk0 hw hg =>
    intro wk h
    simp only [] at h
    rw [AMap.get?_del] at h
    split at h
    · cases h
    · exact hk wk h
  case delKwSome id' exp hh wk0 hw hg =>
    intro wk h
    simp only [] at h
    rw [AMap.get?_del] at h
    split at h
    · cases h
    · exact hk wk h
  case updateApplied id' w hh wk0 hw _ hg =>
    intro wk h
    simp only [finishCmd] at h
    rw [AMap.get?_set] at h
    split at h
    · rename_i e
      subst e
      cases h
      exact hk wk0 hg
    · exact hk wk h
  all_goals simpa [finishCmd, rejectCmd, ttlPut, ttlDelete] using hk

/-- a worker action that is not the `kw.insert` of `id` does not charge `id` -/
theorem wtrans_kw_none {id : Nat} {b b' : BState} (ht : WTrans b b') (hins : ∀ c, b.w = .insert c → c.id ≠ id)
    (hk : b.g.adm.kw.get? id = none) : b'.g.adm.kw.get? id = none := by
  cases ht
  case insert c hw =>
    simp only []
    rw [AMap.get?_set_other _ _ (hins c hw)]; exact hk
  case evRemoveSome c e s victim wk0 hw hg =>
    simp only []
    rw [AMap.get?_del]; split <;> simp [hk]
  case delKwSome id' exp hh wk0 hw hg =>
    simp only []
    rw [AMap.get?_del]; split <;> simp [hk]
  case updateApplied id' w hh wk0 hw _ hg =>
    simp only [finishCmd]
    rw [AMap.get?_set]
    split
    · rename_i e; subst e; rw [hk] at hg; cases hg
    · exact hk
  all_goals simpa [finishCmd, rejectCmd, ttlPut, ttlDelete] using hk

/-- an id that is nobody's fresh id is not the id of the put the worker is about to charge -/
theorem insert_ne_of_occ0 {b : BState} {id : Nat} (h0 : occ b id = 0) : ∀ c, b.w = .insert c → c.id ≠ id := by
  intro c hw e
  subst e
  simp [occ, hw, WPc.freshId?] at h0

/-! ## 6  removals of `k` that are not the work of a `Delete(k)`: evictions and the sweeper -/

/-- the action removes the entry of `k` from the store WITHOUT a `Delete(k)` command: the worker's `store.remove` of an
    eviction of `k` (inside another put's `create_space`), or the sweeper's `store.remove` of `k`
    (the second and third case of `Hist.isRemove`) -/
def isForeignRemove (k : Nat) (x : BState × Act) : Prop :=
  (x.2 = .worker ∧ ∃ c inc s id wk e, x.1.w = .evStore c inc s id wk ∧ wk.key = k ∧ x.1.g.store.get? k = some e) ∨
  (∃ vis now sh rest id wk e, x.2 = .sweeper vis ∧ x.1.sw = .store now sh rest id wk ∧ wk.key = k ∧
    x.1.g.store.get? k = some e ∧ e.id = id)

theorem isForeignRemove.isRemove {k : Nat} {x : BState × Act} (h : isForeignRemove k x) : isRemove k x := by
  rcases h with h | h
  · exact Or.inr (Or.inl h)
  · exact Or.inr (Or.inr (Or.inl h))

/-- an eviction / a sweep removed `k` at some action with index `≥ lo` -/
def FRSince (H : List (BState × Act)) (k lo : Nat) : Prop := ∃ n x, lo ≤ n ∧ At H n x ∧ isForeignRemove k x

theorem FRSince.mono {H : List (BState × Act)} {k lo : Nat} (y : BState × Act) (h : FRSince H k lo) :
    FRSince (y :: H) k lo := by
  obtain ⟨n, x, h1, h2, h3⟩ := h
  exact ⟨n, x, h1, (Sub.cons _ _).at h2, h3⟩

/-- the key is present, or was evicted / swept since `lo` -/
def Present (H : List (BState × Act)) (k lo : Nat) (b : BState) : Prop :=
  (∃ e, b.g.store.get? k = some e) ∨ FRSince H k lo

/-- **One action and the presence of `k`**: an action that is not the `store.remove` of a `Delete(k)` (and not
    `shutdown.store_clear`) leaves `k` present — unless it is an eviction / a sweep of `k`, which the history records. -/
theorem present_step {k lo : Nat} {H : List (BState × Act)} {b b' : BState} {a : Act} {o o' : Oracle}
    (hs : stepB b a o = .ok (b', o')) (hlo : lo ≤ H.length) (hdel : a = .worker → ∀ hh, b.w ≠ .delStore k hh)
    (hclear : ∀ j : Nat, b.cl[j]? ≠ some .shutStoreClear) (hp : Present H k lo b) : Present ((b, a) :: H) k lo b' := by
  rcases hp with ⟨e, he⟩ | hfr
  · have heff := stepB_storeEff hs
    cases heff
    case same hst => exact Or.inl ⟨e, by rw [hst]; exact he⟩
    case put c exp hw hexp _ hst =>
      by_cases hck : c.k = k
      · exact Or.inl ⟨_, by rw [hst, hck]; exact AMap.get?_set_same _ _ _⟩
      · exact Or.inl ⟨e, by rw [hst, AMap.get?_set_other _ _ hck]; exact he⟩
    case del k1 hh e1 hw he1 hst =>
      have hne : k1 ≠ k := fun e' => hdel rfl hh (e' ▸ hw)
      exact Or.inl ⟨e, by rw [hst, AMap.get?_del_other _ hne]; exact he⟩
    case evict c inc s id wk hw hst =>
      by_cases hck : wk.key = k
      · exact Or.inr ⟨H.length, (b, .worker), hlo, at_cons_self _ _, Or.inl ⟨rfl, c, inc, s, id, wk, e, hw, hck, he⟩⟩
      · exact Or.inl ⟨e, by rw [hst, AMap.get?_del_other _ hck]; exact he⟩
    case sweep v now sh rest id wk hw hm hst =>
      by_cases hck : wk.key = k
      · obtain ⟨en, hen, hid⟩ := hm
        rw [hck, he] at hen
        cases hen
        exact Or.inr ⟨H.length, (b, .sweeper v), hlo, at_cons_self _ _,
          Or.inr ⟨v, now, sh, rest, id, wk, e, rfl, hw, hck, he, hid⟩⟩
      · exact Or.inl ⟨e, by rw [hst, AMap.get?_del_other _ hck]; exact he⟩
    case mark i k1 e1 hpc he1 hst =>
      by_cases hck : k1 = k
      · exact Or.inl ⟨_, by rw [hst, hck]; exact AMap.get?_set_same _ _ _⟩
      · exact Or.inl ⟨e, by rw [hst, AMap.get?_set_other _ _ hck]; exact he⟩
    case upsert i k1 v w ttl rm e1 exp hpc he1 hexp hst =>
      by_cases hck : k1 = k
      · exact Or.inl ⟨_, by rw [hst, hck]; exact AMap.get?_set_same _ _ _⟩
      · exact Or.inl ⟨e, by rw [hst, AMap.get?_set_other _ _ hck]; exact he⟩
    case clear i hpc hst => exact absurd hpc (hclear i)
  · exact Or.inr (hfr.mono _)

/-- an action that is not the `store.put` of a put of `k` leaves `k` absent -/
theorem absent_step {k : Nat} {b b' : BState} {a : Act} {o o' : Oracle} (hs : stepB b a o = .ok (b', o'))
    (hput : ∀ c, b.w = .storePut c → c.k ≠ k) (hk : b.g.store.get? k = none) : b'.g.store.get? k = none := by
  have heff := stepB_storeEff hs
  cases heff
  case same hst => rw [hst]; exact hk
  case put c exp hw _ _ hst => rw [hst, AMap.get?_set_other _ _ (hput c hw)]; exact hk
  case del k' hh e hw he hst => rw [hst, AMap.get?_del]; split <;> simp [hk]
  case evict c inc s id wk hw hst => rw [hst, AMap.get?_del]; split <;> simp [hk]
  case sweep v now sh rest id wk hw hm hst => rw [hst, AMap.get?_del]; split <;> simp [hk]
  case mark i k' e hpc he hst =>
    rw [hst, AMap.get?_set]; split
    · rename_i hkk; subst hkk; rw [hk] at he; cases he
    · exact hk
  case upsert i k' v w ttl rm e exp hpc he hx hst =>
    rw [hst, AMap.get?_set]; split
    · rename_i hkk; subst hkk; rw [hk] at he; cases he
    · exact hk
  case clear i hpc hst => rw [hst]; rfl

/-! ## 7  what an action of a thread other than the worker does -/

/-- One action of a thread other than the worker, taken in the environment by a client that is not inside a put /
    upsert / delete of `k`: the worker stands still; the queue grows, if at all, by a command that does not write `k`;
    no acknowledgement cell changes; no key id is charged; no id below the counter becomes fresh. -/
structure OtherEff (k : Nat) (b b' : BState) : Prop where
  w : b'.w = b.w
  queue : ∃ x, b'.g.queue = b.g.queue ++ x ∧ KFree k x
  acks : ∀ (h : Nat) (st : Status), b.g.acks[h]? = some st → b'.g.acks[h]? = some st
  kw : ∀ id wk, b'.g.adm.kw.get? id = some wk → b.g.adm.kw.get? id = some wk
  occLe : ∀ f, f < b.g.nextId → occ b' f ≤ occ b f
  nextLe : b.g.nextId ≤ b'.g.nextId

theorem other_eff {i k : Nat} {b b' : BState} {a : Act} {o o' : Oracle} (he : Env i k b)
    (hs : stepB b a o = .ok (b', o')) (ha : a ≠ .worker)
    (hcl : ∀ j pc, a = .client j → b.cl[j]? = some pc → onK k pc = false) : OtherEff k b b' := by
  cases a with
  | worker => exact absurd rfl ha
  | issue j r =>
    obtain ⟨hidle, rfl⟩ := stepB_issue_inv hs
    have hi : issue b j r = .ok (setClient b j (.start r)) := by simp [issue, hidle]
    exact ⟨rfl, ⟨[], by simp [setClient], KFree.nil k⟩, fun _ _ h => h, fun _ _ h => h, fun f _ => issue_occ hi f,
      Nat.le_refl _⟩
  | client j =>
    simp only [stepB] at hs
    have ht := clientAct_trans hs
    obtain ⟨pc, pc', hpc, _, _, _⟩ := ctrans_cl ht
    refine ⟨(ctrans_frame ht).1, ?_, ?_, ?_, fun f hf => ctrans_occ ht f hf, ctrans_nextId ht⟩
    · rcases env_client_queue he hs with hq | ⟨cmd, hsend, _, hq, _⟩
      · exact ⟨[], by simp [hq], KFree.nil k⟩
      · refine ⟨_, hq, KFree.one ?_⟩
        have := hcl j _ rfl hsend
        simpa [onK] using this
    · intro h st hst
      rcases ctrans_cstep ht with ⟨_, hacks⟩ | ⟨_, _, hacks⟩ | ⟨_, _, _, hacks⟩ | ⟨_, _, _, hacks⟩
      · rw [hacks]; exact hst
      · rw [hacks]; exact getElem?_append_some _ hst
      · rw [hacks]; exact getElem?_append_some _ hst
      · rw [hacks]; exact hst
    · intro id wk hg
      rcases ctrans_adm ht with h1 | ⟨pc0, hpc0, hac, _⟩
      · rw [h1] at hg; exact hg
      · have := he.noShut j pc0 hpc0
        rw [shutPath_of_afterCas hac] at this; cases this
  | sweeper v =>
    have ht := sweeperAct_trans (stepB_sweeper_inv hs)
    obtain ⟨hw, hcl', hq, hn, _⟩ := strans_frame ht
    refine ⟨hw, ⟨[], by simp [hq], KFree.nil k⟩, ?_, fun id wk hg => strans_kw ht id wk hg,
      fun f _ => Nat.le_of_eq (occ_congr hq hcl' hw f), Nat.le_of_eq hn.symm⟩
    cases stepB_bstep hs with
    | worker ha' => cases ha'
    | client i' ha' => cases ha'
    | other _ _ _ hacks => intro h st hst; rw [hacks]; exact hst
  | consumer =>
    obtain ⟨g', rfl, hg⟩ := stepB_consumer_inv hs
    have hq : g'.queue = b.g.queue := by rw [hg]
    refine ⟨rfl, ⟨[], by simp [hq], KFree.nil k⟩, ?_, ?_,
      fun f _ => Nat.le_of_eq (occ_congr (b' := { b with g := g' }) (b := b) hq rfl rfl f), ?_⟩
    · intro h st hst; show g'.acks[h]? = some st; rw [hg]; exact hst
    · intro id wk hk; have : g'.adm.kw.get? id = some wk := hk; rw [hg] at this; exact this
    · show b.g.nextId ≤ g'.nextId; rw [hg]; exact Nat.le_refl _
  | advance d =>
    rw [stepB_advance_inv hs]
    exact ⟨rfl, ⟨[], by simp, KFree.nil k⟩, fun _ _ h => h, fun _ _ h => h, fun f _ => Nat.le_refl _, Nat.le_refl _⟩

/-! ## 8  the worker inside ONE put command -/

set_option linter.unusedSimpArgs false in
/-- a worker action that leaves the worker busy keeps the put it is executing -/
theorem wtrans_cmd_cont {b b' : BState} {c : PutCmd} (ht : WTrans b b') (hc : b.w.cmd? = some c)
    (hb : b'.w.busy = true) : b'.w.cmd? = some c := by
  cases ht
  all_goals simp_all [WPc.cmd?, WPc.busy, finishCmd, rejectCmd]

/-- the worker arrives at `ttl.put` from `store.put` only, having stored the entry -/
theorem wtrans_to_ttlPut {b b' : BState} {c : PutCmd} {e : Nat} (h : WTrans b b') (hc : b'.w = .ttlPut c e) :
    b.w = .storePut c ∧ b'.g.adm = b.g.adm ∧
    b'.g.store = b.g.store.set c.k { value := c.v, id := c.id, expiry := some e, soft := false } := by
  cases h
  case storePutTtl c' t e' hw ht _ =>
    simp only [WPc.ttlPut.injEq] at hc; obtain ⟨rfl, rfl⟩ := hc; exact ⟨hw, rfl, rfl⟩
  all_goals simp [finishCmd, rejectCmd] at hc

theorem contains_iff {m : AMap Nat Entry} {k : Nat} : m.contains k = true ↔ ∃ e, m.get? k = some e := by
  unfold AMap.contains
  cases m.get? k <;> simp

theorem contains_false_iff {m : AMap Nat Entry} {k : Nat} : m.contains k = false ↔ m.get? k = none := by
  unfold AMap.contains
  cases m.get? k <;> simp

/-- how a put command ends (the worker back at `recv`): the answer, and what the store held / holds for the key -/
inductive PutEnd (b b' : BState) (c : PutCmd) : Status → Prop where
  | existsK (e : Entry) : b.g.store.get? c.k = some e → b'.g.store = b.g.store → PutEnd b b' c (.rejected .keyAlreadyExists)
  | tooHeavy : b.g.store.get? c.k = none → b'.g.store = b.g.store → b.w.pendId? = some c.id →
      PutEnd b b' c (.rejected .tooHeavy)
  | noSpace : b.w.applying? = some c → b'.g.store = b.g.store → b.w.pendId? = some c.id →
      PutEnd b b' c (.rejected .noSpace)
  | stored : b.w = .storePut c → c.ttl = none →
      b'.g.store = b.g.store.set c.k { value := c.v, id := c.id, expiry := none, soft := false } → PutEnd b b' c .accepted
  | indexed (e : Nat) : b.w = .ttlPut c e → b'.g.store = b.g.store → PutEnd b b' c .accepted

set_option linter.unusedSimpArgs false in
theorem put_complete {b b' : BState} {o o' : Oracle} {c : PutCmd} (hs : workerAct b o = .ok (b', o'))
    (hc : b.w.cmd? = some c) (hr : b'.w = .recv) :
    b'.g.queue = b.g.queue ∧ b'.cl = b.cl ∧ b'.g.adm.kw = b.g.adm.kw ∧ b'.g.nextId = b.g.nextId ∧
    ∃ st, b'.g.acks = setAck b.g.acks c.h st ∧ PutEnd b b' c st := by
  by_cases hp : b.w = .present c
  · obtain ⟨_, ⟨hcon, rfl⟩ | ⟨hcon, _, rfl⟩ | ⟨_, _, rfl⟩⟩ := ent_workerAct_present hp hs
    · obtain ⟨e, he⟩ := contains_iff.mp hcon
      exact ⟨rfl, rfl, rfl, rfl, _, rfl, .existsK e he rfl⟩
    · exact ⟨rfl, rfl, rfl, rfl, _, rfl, .tooHeavy (contains_false_iff.mp hcon) rfl (by rw [hp]; rfl)⟩
    · cases hr
  · have ht := workerAct_trans hs
    cases ht
    case presentExists c' hw => rw [hw] at hc; simp only [WPc.cmd?, Option.some.injEq] at hc; subst hc; exact absurd hw hp
    case presentHeavy c' hw => rw [hw] at hc; simp only [WPc.cmd?, Option.some.injEq] at hc; subst hc; exact absurd hw hp
    case initReject c' e space hw =>
      rw [hw] at hc; simp only [WPc.cmd?, Option.some.injEq] at hc; subst hc
      exact ⟨rfl, rfl, rfl, rfl, _, rfl, .noSpace (by rw [hw]; rfl) rfl (by rw [hw]; rfl)⟩
    case fillReject c' e s space hw =>
      rw [hw] at hc; simp only [WPc.cmd?, Option.some.injEq] at hc; subst hc
      exact ⟨rfl, rfl, rfl, rfl, _, rfl, .noSpace (by rw [hw]; rfl) rfl (by rw [hw]; rfl)⟩
    case emptyReject c' hw _ =>
      rw [hw] at hc; simp only [WPc.cmd?, Option.some.injEq] at hc; subst hc
      exact ⟨rfl, rfl, rfl, rfl, _, rfl, .noSpace (by rw [hw]; rfl) rfl (by rw [hw]; rfl)⟩
    case storePutPlain c' hw httl _ =>
      rw [hw] at hc; simp only [WPc.cmd?, Option.some.injEq] at hc; subst hc
      exact ⟨rfl, rfl, rfl, rfl, _, rfl, .stored hw httl rfl⟩
    case ttlPut c' e hw _ =>
      rw [hw] at hc; simp only [WPc.cmd?, Option.some.injEq] at hc; subst hc
      exact ⟨rfl, rfl, rfl, rfl, _, rfl, .indexed e hw rfl⟩
    all_goals first
      | (exfalso; simp_all [WPc.cmd?, finishCmd, rejectCmd]; done)

/-- after the worker has finished the put `c`, the id of `c` is nobody's fresh id any more -/
theorem occ_after_complete {b b' : BState} {c : PutCmd} (hb : BInv b) (hc : b.w.cmd? = some c) (hr : b'.w = .recv)
    (hq : b'.g.queue = b.g.queue) (hcl : b'.cl = b.cl) : occ b' c.id = 0 ∧ c.id < b.g.nextId := by
  have h1 : occ b' c.id = qc b c.id := by
    rw [occ_eq, hr, qc_congr hq hcl]; simp [WPc.freshId?]
  by_cases hf : b.w.freshId? = some c.id
  · have h2 := hb.freshIds.1 c.id
    have hpos : 0 < occ b c.id := by rw [occ_eq, hf]; simp
    rw [occ_eq, hf] at h2
    simp only [Option.toList_some, List.count_cons_self, List.count_nil] at h2
    exact ⟨by omega, hb.freshIds.2.1 _ hpos⟩
  · have hw : b.w.usedId? = some c.id := by
      cases hw : b.w <;> simp_all [WPc.cmd?, WPc.freshId?, WPc.usedId?]
    have hu : c.id ∈ usedIds b := mem_usedIds.mpr (Or.inr (Or.inr (Or.inr (Or.inr hw))))
    obtain ⟨h0, hlt⟩ := hb.freshIds.2.2.2.2.1 c.id hu
    rw [occ_eq] at h0
    exact ⟨by omega, hlt⟩

/-! ## 9  the invariant of the un-awaited `put(k); delete(k)` -/

/-- the part of the queue BEHIND the put's command: before the `Delete(k)` is sent nothing in it writes `k`; afterwards
    it is `qb ++ Delete(k) :: qc` with nothing in `qb`, `qc` writing `k` -/
def RestOk (k : Nat) : Option Nat → List (Cmd × Option Nat) → Prop
  | none, rest => KFree k rest
  | some h₂, rest => ∃ qb qc, rest = qb ++ (Cmd.delete k, some h₂) :: qc ∧ KFree k qb ∧ KFree k qc

theorem RestOk.append {k : Nat} {ds : Option Nat} {rest x : List (Cmd × Option Nat)} (h : RestOk k ds rest)
    (hx : KFree k x) : RestOk k ds (rest ++ x) := by
  cases ds with
  | none => exact KFree.append h hx
  | some h₂ =>
    obtain ⟨qb, qc, rfl, h1, h2⟩ := h
    exact ⟨qb, qc ++ x, by simp, h1, KFree.append h2 hx⟩

/-- the answers a put can get, sorted by whether the key is in the store right after the command: `Accepted` (the put
    stored it) and `KeyAlreadyExists` (an older entry is there) — or not: `KeyWeightIsGreaterThanCacheWeight`,
    `EnoughSpaceIsNotAvailable…` -/
def OutOf (pres : Bool) (st : Status) : Prop :=
  (pres = true ∧ (st = .accepted ∨ st = .rejected .keyAlreadyExists)) ∨
  (pres = false ∧ (st = .rejected .tooHeavy ∨ st = .rejected .noSpace))

theorem OutOf.ne_pending {pres : Bool} {st : Status} (h : OutOf pres st) : st ≠ .pending := by
  rcases h with ⟨_, rfl | rfl⟩ | ⟨_, rfl | rfl⟩ <;> simp

/-- what is known once the put's command has been answered (`lo`: the index of the worker action that decided the
    presence of the key: the `store.put` of an accepted put, the re-check of a put refused as existing) -/
structure PutDone (k h₁ : Nat) (c₁ : PutCmd) (H : List (BState × Act)) (pres : Bool) (lo : Nat) (b : BState) : Prop where
  ack : ∃ st, b.g.acks[h₁]? = some st ∧ OutOf pres st
  born : b.g.acks[h₁]? = some .accepted → PutPoint H lo k c₁.id
  lo : lo ≤ H.length
  key : ∀ wk, b.g.adm.kw.get? c₁.id = some wk → wk.key = k
  occ0 : occ b c₁.id = 0
  idlt : c₁.id < b.g.nextId

theorem putPoint_mono {H : List (BState × Act)} {n k id : Nat} (y : BState × Act) (h : PutPoint H n k id) :
    PutPoint (y :: H) n k id := by
  obtain ⟨x, v, h1, h2⟩ := h
  exact ⟨x, v, (Sub.cons _ _).at h1, h2⟩

theorem PutDone.lift {k h₁ : Nat} {c₁ : PutCmd} {H : List (BState × Act)} {pres : Bool} {lo : Nat} {b b' : BState}
    (y : BState × Act) (hp : PutDone k h₁ c₁ H pres lo b)
    (hacks : ∀ st, b.g.acks[h₁]? = some st → st ≠ .pending → b'.g.acks[h₁]? = some st)
    (hkey : (∀ wk, b.g.adm.kw.get? c₁.id = some wk → wk.key = k) → ∀ wk, b'.g.adm.kw.get? c₁.id = some wk → wk.key = k)
    (hocc : occ b' c₁.id ≤ occ b c₁.id) (hnext : b.g.nextId ≤ b'.g.nextId) :
    PutDone k h₁ c₁ (y :: H) pres lo b' := by
  obtain ⟨st, hst, ho⟩ := hp.ack
  have hst' := hacks st hst ho.ne_pending
  refine ⟨⟨st, hst', ho⟩, ?_, ?_, hkey hp.key, ?_, ?_⟩
  · intro ha
    rw [hst'] at ha
    exact putPoint_mono y (hp.born (by rw [hst, ha]))
  · have := hp.lo; simp only [List.length_cons]; omega
  · have := hp.occ0; omega
  · have := hp.idlt; omega

/-- what the store holds for `k` after the put's command, until the `Delete`'s `store.remove` has run -/
def PresAt (H : List (BState × Act)) (k lo : Nat) (b : BState) : Bool → Prop
  | true => Present H k lo b
  | false => b.g.store.get? k = none

/-- the worker's `store.remove` of the `Delete(k)` command with handle `h₂` is the `d`-th action -/
def DelAt (H : List (BState × Act)) (d k h₂ : Nat) : Prop := ∃ sd, At H d (sd, .worker) ∧ sd.w = .delStore k (some h₂)

theorem DelAt.mono {H : List (BState × Act)} {d k h₂ : Nat} (y : BState × Act) (h : DelAt H d k h₂) : DelAt (y :: H) d k h₂ := by
  obtain ⟨sd, h1, h2⟩ := h
  exact ⟨sd, (Sub.cons _ _).at h1, h2⟩

/-- an eviction / a sweep removed `k` at an action with index in `[lo, hi)` -/
def FRBetween (H : List (BState × Act)) (k lo hi : Nat) : Prop :=
  ∃ n x, lo ≤ n ∧ n < hi ∧ At H n x ∧ isForeignRemove k x

theorem FRBetween.mono {H : List (BState × Act)} {k lo hi : Nat} (y : BState × Act) (h : FRBetween H k lo hi) :
    FRBetween (y :: H) k lo hi := by
  obtain ⟨n, x, h1, h2, h3, h4⟩ := h
  exact ⟨n, x, h1, h2, (Sub.cons _ _).at h3, h4⟩

/-- the answer of the `Delete(k)`, given what the store held after the put (`d`: the index of its `store.remove`):
    the key was there (`pres`) — `Accepted`, unless an eviction / a sweep took it away in between
    (`KeyDoesNotExist`, and the history holds that removal); the key was not there — `KeyDoesNotExist` -/
def DelRes (H : List (BState × Act)) (k lo d : Nat) (pres : Bool) (st₂ : Status) : Prop :=
  (pres = true ∧ (st₂ = .accepted ∨ (st₂ = .rejected .keyDoesNotExist ∧ FRBetween H k lo d))) ∨
  (pres = false ∧ st₂ = .rejected .keyDoesNotExist)

theorem DelRes.mono {H : List (BState × Act)} {k lo d : Nat} {pres : Bool} {st₂ : Status} (y : BState × Act)
    (h : DelRes H k lo d pres st₂) : DelRes (y :: H) k lo d pres st₂ := by
  rcases h with ⟨h1, h2 | ⟨h2, h3⟩⟩ | h
  · exact Or.inl ⟨h1, Or.inl h2⟩
  · exact Or.inl ⟨h1, Or.inr ⟨h2, h3.mono y⟩⟩
  · exact Or.inr h

theorem DelRes.ne_pending {H : List (BState × Act)} {k lo d : Nat} {pres : Bool} {st₂ : Status}
    (h : DelRes H k lo d pres st₂) : st₂ ≠ .pending := by
  rcases h with ⟨_, rfl | ⟨rfl, _⟩⟩ | ⟨_, rfl⟩ <;> simp

/-- the put's `ttl.put` window: the entry is stored (or already evicted / swept again), the id is charged for `k` -/
def TtlWin (k : Nat) (c₁ : PutCmd) (H : List (BState × Act)) (b : BState) : Prop :=
  ∀ e, b.w = .ttlPut c₁ e → ∃ lo, lo ≤ H.length ∧ Present H k lo b ∧ PutPoint H lo k c₁.id ∧
    ∀ wk, b.g.adm.kw.get? c₁.id = some wk → wk.key = k

/-- **EARLY**: the `Delete(k)` has not run its `store.remove` yet (`ds`: its handle, once it is sent).
    `pq` the put's command waits; `pw` the worker executes it; `pd` it is answered, the worker is not working on `k`;
    `dw0` the worker has taken the `Delete(k)` and stands at its `store.remove`. -/
inductive PDE (k h₁ : Nat) (c₁ : PutCmd) (H : List (BState × Act)) (ds : Option Nat) (b : BState) : Prop where
  | pq (qa rest : List (Cmd × Option Nat)) : b.g.queue = qa ++ (cmdOfPut c₁, some h₁) :: rest → RestOk k ds rest →
      PDE k h₁ c₁ H ds b
  | pw : b.w.cmd? = some c₁ → RestOk k ds b.g.queue → TtlWin k c₁ H b → PDE k h₁ c₁ H ds b
  | pd (pres : Bool) (lo : Nat) : PutDone k h₁ c₁ H pres lo b → PresAt H k lo b pres → WOff k b.w →
      RestOk k ds b.g.queue → PDE k h₁ c₁ H ds b
  | dw0 (h₂ : Nat) (pres : Bool) (lo : Nat) : ds = some h₂ → PutDone k h₁ c₁ H pres lo b → PresAt H k lo b pres →
      b.w = .delStore k (some h₂) → KFree k b.g.queue → PDE k h₁ c₁ H ds b

/-- **LATE**: the `Delete(k)` has run its `store.remove` (the `d`-th action): the key is absent.
    `dw1` the worker is still inside the command (`kw.remove`, `wu.sub`, `ttl.delete`); `dd` it is answered. -/
inductive PDL (k h₁ : Nat) (c₁ : PutCmd) (H : List (BState × Act)) (h₂ : Nat) (b : BState) : Prop where
  | dw1 (lo d : Nat) : PutDone k h₁ c₁ H true lo b → DelAt H d k h₂ → lo ≤ d → b.w.held = some h₂ → delTail b.w = true →
      KFree k b.g.queue → b.g.store.get? k = none → PDL k h₁ c₁ H h₂ b
  | dd (pres : Bool) (lo d : Nat) (st₂ : Status) : PutDone k h₁ c₁ H pres lo b → DelAt H d k h₂ → lo ≤ d →
      b.g.acks[h₂]? = some st₂ → DelRes H k lo d pres st₂ → KFree k b.g.queue → WOff k b.w →
      b.g.store.get? k = none → b.g.adm.kw.get? c₁.id = none → PDL k h₁ c₁ H h₂ b

theorem env_no_clear {i k : Nat} {b : BState} (he : Env i k b) : ∀ j : Nat, b.cl[j]? ≠ some .shutStoreClear := by
  intro j h
  have := he.noShut j _ h
  simp [shutPath, CPc.afterCas] at this

theorem woff_storePut {k : Nat} {w : WPc} (h : WOff k w) : ∀ c, w = .storePut c → c.k ≠ k :=
  fun c hw => h.1 c (by rw [hw]; rfl)

theorem PutDone.other {k h₁ : Nat} {c₁ : PutCmd} {H : List (BState × Act)} {pres : Bool} {lo : Nat} {b b' : BState}
    (y : BState × Act) (hp : PutDone k h₁ c₁ H pres lo b) (ho : OtherEff k b b') : PutDone k h₁ c₁ (y :: H) pres lo b' :=
  hp.lift y (fun st h _ => ho.acks h₁ st h) (fun hk wk h => hk wk (ho.kw _ wk h)) (ho.occLe _ hp.idlt) ho.nextLe

/-- **EARLY is kept by every action of a thread other than the worker** (taken in the environment, by a client that
    is not inside a put / upsert / delete of `k`). -/
theorem pde_other {i k h₁ : Nat} {c₁ : PutCmd} {H : List (BState × Act)} {ds : Option Nat} {b b' : BState} {a : Act}
    {o o' : Oracle} (he : Env i k b) (hs : stepB b a o = .ok (b', o')) (ha : a ≠ .worker)
    (hcl : ∀ j pc, a = .client j → b.cl[j]? = some pc → onK k pc = false) (hi : PDE k h₁ c₁ H ds b) :
    PDE k h₁ c₁ ((b, a) :: H) ds b' := by
  have ho := other_eff he hs ha hcl
  obtain ⟨x, hqx, hkx⟩ := ho.queue
  have hnw : a = .worker → ∀ hh, b.w ≠ .delStore k hh := fun e => absurd e ha
  cases hi with
  | pq qa rest hq hrest =>
    exact .pq qa (rest ++ x) (by rw [hqx, hq]; simp) (hrest.append hkx)
  | pw hc hrest httl =>
    refine .pw (by rw [ho.w]; exact hc) (by rw [hqx]; exact hrest.append hkx) ?_
    intro e hw
    rw [ho.w] at hw
    obtain ⟨lo, h1, h2, h3, h4⟩ := httl e hw
    exact ⟨lo, by simp only [List.length_cons]; omega, present_step hs h1 hnw (env_no_clear he) h2, putPoint_mono _ h3,
      fun wk h => h4 wk (ho.kw _ wk h)⟩
  | pd pres lo hp hpres hoff hrest =>
    refine .pd pres lo (hp.other _ ho) ?_ (by rw [ho.w]; exact hoff) (by rw [hqx]; exact hrest.append hkx)
    cases pres with
    | true => exact present_step hs hp.lo hnw (env_no_clear he) hpres
    | false => exact absent_step hs (woff_storePut hoff) hpres
  | dw0 h₂ pres lo hds hp hpres hw hkf =>
    refine .dw0 h₂ pres lo hds (hp.other _ ho) ?_ (by rw [ho.w]; exact hw) (by rw [hqx]; exact hkf.append hkx)
    cases pres with
    | true => exact present_step hs hp.lo hnw (env_no_clear he) hpres
    | false => exact absent_step hs (fun c hc => by rw [hw] at hc; cases hc) hpres

/-- **LATE is kept by every action of a thread other than the worker.** -/
theorem pdl_other {i k h₁ : Nat} {c₁ : PutCmd} {H : List (BState × Act)} {h₂ : Nat} {b b' : BState} {a : Act}
    {o o' : Oracle} (he : Env i k b) (hs : stepB b a o = .ok (b', o')) (ha : a ≠ .worker)
    (hcl : ∀ j pc, a = .client j → b.cl[j]? = some pc → onK k pc = false) (hi : PDL k h₁ c₁ H h₂ b) :
    PDL k h₁ c₁ ((b, a) :: H) h₂ b' := by
  have ho := other_eff he hs ha hcl
  obtain ⟨x, hqx, hkx⟩ := ho.queue
  cases hi with
  | dw1 lo d hp hd hlod hheld htail hkf hnone =>
    exact .dw1 lo d (hp.other _ ho) (hd.mono _) hlod (by rw [ho.w]; exact hheld) (by rw [ho.w]; exact htail)
      (by rw [hqx]; exact hkf.append hkx)
      (absent_step hs (fun c hc => by rw [hc] at htail; cases htail) hnone)
  | dd pres lo d st₂ hp hd hlod hack hres hkf hoff hnone hkw =>
    refine .dd pres lo d st₂ (hp.other _ ho) (hd.mono _) hlod (ho.acks _ _ hack) (hres.mono _)
      (by rw [hqx]; exact hkf.append hkx) (by rw [ho.w]; exact hoff) (absent_step hs (woff_storePut hoff) hnone) ?_
    cases hg : b'.g.adm.kw.get? c₁.id with
    | none => rfl
    | some wk => rw [ho.kw _ wk hg] at hkw; cases hkw

end PD
end B
end Cached
